import DispatchVerif.Core.Time
/-! C12, last clause ("waiting until a time that is already past does not block"), for the waits that go through an ABSOLUTE
    wall-clock deadline: `_dispatch_time_nanoseconds_since_epoch` (src/time.c), used by the POSIX-semaphore back end of
    `dispatch_semaphore_wait` (`_dispatch_sema4_timedwait`, src/shims/lock.c).
    `sinceEpochOld` is the function as it was found (finding F17): every time with bit 63 set was taken for a wall-clock time, so a
    time on the monotonic clock (bits 63,62 = 1,0) became a deadline about 292 years after the epoch - a wait until a monotonic
    time, even one already past, never returned. `sinceEpoch` is the function after the `fix:` commit. -/
namespace TimeP

/-- the function as found: `(int64_t)when < 0` ⇒ "nanoseconds since the epoch already" -/
def sinceEpochOld (when nowUp nowMono nowWall : Nat) : Nat :=
  if when = FOREVER then FOREVER else
  if when ≥ B63 then (W - when) % W
  else (nowWall + timeout when nowUp nowMono nowWall) % W

/-- the function after the repair: only wall-clock times (bits 63 and 62 set) are absolute already -/
def sinceEpoch (when nowUp nowMono nowWall : Nat) : Nat :=
  if when = FOREVER then FOREVER else
  if when ≥ B63 ∧ (when / B62) % 2 = 1 then (W - when) % W
  else (nowWall + timeout when nowUp nowMono nowWall) % W

/-- **F17 as a theorem about the code as found**: a monotonic-clock time that is already past (`_dispatch_timeout` says 0)
    is turned into a deadline more than 2^61 ns (73 years) after the present (uptime below 73 years, wall clock before 2043) -/
theorem F17_monotonic_past_deadline_far_future (v nu nm nw : Nat) (h1 : 1 ≤ v) (h2 : v ≤ 2 ^ 61) (hpast : v ≤ nm) (hw : nw ≤ 2 ^ 61) :
    timeout (v + B63) nu nm nw = 0 ∧ nw + 2 ^ 61 < sinceEpochOld (v + B63) nu nm nw := by
  have h2' : v ≤ MAXV := by unfold MAXV; omega
  refine ⟨timeout_elapsed_rel_mono v nu nm nw h1 h2' hpast, ?_⟩
  unfold sinceEpochOld
  have a : ¬ (v + B63 = FOREVER) := by unfold FOREVER MAXV B63 at *; omega
  have b : v + B63 ≥ B63 := by omega
  rw [if_neg a, if_pos b]
  clear a b
  unfold W B63 MAXV at *
  omega

theorem timeout_up_eq (v nu nm nw : Nat) (h1 : 1 ≤ v) (h2 : v ≤ MAXV) :
    timeout v nu nm nw = if nu ≥ v then 0 else v - nu := by
  unfold timeout
  have a : ¬ (v = FOREVER) := by unfold FOREVER MAXV at *; omega
  have b : ¬ (v = 0) := by omega
  rw [if_neg a, if_neg b, decode_up v nw h2]

theorem timeout_mono_eq (v nu nm nw : Nat) (h2 : v ≤ MAXV) :
    timeout (v + B63) nu nm nw = if nm ≥ v then 0 else v - nm := by
  unfold timeout
  have a : ¬ (v + B63 = FOREVER) := by unfold FOREVER MAXV B63 at *; omega
  have b : ¬ (v + B63 = 0) := by unfold B63; omega
  rw [if_neg a, if_neg b, decode_mono v nw h2]

theorem timeout_wall_eq (v nu nm nw : Nat) (h1 : 3 ≤ v) (h2 : v ≤ MAXV) :
    timeout (W - v) nu nm nw = if nw ≥ v then 0 else v - nw := by
  unfold timeout
  have a : ¬ (W - v = FOREVER) := by unfold FOREVER MAXV W at *; omega
  have b : ¬ (W - v = 0) := by unfold MAXV W at *; omega
  rw [if_neg a, if_neg b, decode_wall v nw h1 h2]

/-- uptime clock: the deadline is the present wall reading plus the remaining time (0 when past) -/
theorem since_epoch_up (v nu nm nw : Nat) (h1 : 1 ≤ v) (h2 : v ≤ MAXV) (hw : nw ≤ MAXV) :
    sinceEpoch v nu nm nw = nw + timeout v nu nm nw := by
  have ht := timeout_up_eq v nu nm nw h1 h2
  unfold sinceEpoch
  have a : ¬ (v = FOREVER) := by unfold FOREVER MAXV at *; omega
  have b : ¬ (v ≥ B63 ∧ (v / B62) % 2 = 1) := by unfold B63 MAXV at *; omega
  rw [if_neg a, if_neg b, ht]
  unfold W MAXV at *
  split <;> omega

/-- monotonic clock (the F17 case): likewise -/
theorem since_epoch_mono (v nu nm nw : Nat) (h2 : v ≤ MAXV) (hw : nw ≤ MAXV) :
    sinceEpoch (v + B63) nu nm nw = nw + timeout (v + B63) nu nm nw := by
  have ht := timeout_mono_eq v nu nm nw h2
  unfold sinceEpoch
  have a : ¬ (v + B63 = FOREVER) := by unfold FOREVER MAXV B63 at *; omega
  have b : ¬ (v + B63 ≥ B63 ∧ ((v + B63) / B62) % 2 = 1) := by unfold B63 B62 MAXV at *; omega
  rw [if_neg a, if_neg b, ht]
  unfold W MAXV at *
  split <;> omega

/-- wall clock: the deadline is the time itself -/
theorem since_epoch_wall (v nu nm nw : Nat) (h1 : 2 ≤ v) (h2 : v ≤ MAXV) :
    sinceEpoch (W - v) nu nm nw = v := by
  unfold sinceEpoch
  have a : ¬ (W - v = FOREVER) := by unfold FOREVER MAXV W at *; omega
  have b : W - v ≥ B63 ∧ ((W - v) / B62) % 2 = 1 := by unfold W B63 B62 MAXV at *; omega
  rw [if_neg a, if_pos b]
  clear a b
  unfold W MAXV at *; omega

/-- **a wait until a time that is already past does not block, and a wait until a future time lasts exactly the remaining
    time** (fixed code), for every value on each of the three clocks: when `_dispatch_timeout` is 0 the absolute deadline is
    not after the present wall-clock reading; otherwise it is the present reading plus that time-out -/
theorem since_epoch_deadline (nu nm nw : Nat) (hw : 2 ≤ nw ∧ nw ≤ MAXV) :
    (∀ v, 1 ≤ v → v ≤ MAXV → sinceEpoch v nu nm nw = nw + timeout v nu nm nw) ∧
    (∀ v, v ≤ MAXV → sinceEpoch (v + B63) nu nm nw = nw + timeout (v + B63) nu nm nw) ∧
    (∀ v, 3 ≤ v → v ≤ MAXV →
      (timeout (W - v) nu nm nw = 0 → sinceEpoch (W - v) nu nm nw ≤ nw) ∧
      (0 < timeout (W - v) nu nm nw → sinceEpoch (W - v) nu nm nw = nw + timeout (W - v) nu nm nw)) ∧
    sinceEpoch WALLNOW nu nm nw ≤ nw ∧ sinceEpoch 0 nu nm nw = nw := by
  refine ⟨fun v a b => since_epoch_up v nu nm nw a b hw.2, fun v b => since_epoch_mono v nu nm nw b hw.2, ?_, ?_, ?_⟩
  · intro v h1 h2
    rw [since_epoch_wall v nu nm nw (by omega) h2, timeout_wall_eq v nu nm nw h1 h2]
    by_cases hc : nw ≥ v
    · rw [if_pos hc]; exact ⟨fun _ => hc, fun h => absurd h (by omega)⟩
    · rw [if_neg hc]; exact ⟨fun h => by omega, fun _ => by omega⟩
  · have : WALLNOW = W - 2 := by unfold WALLNOW W; rfl
    rw [this, since_epoch_wall 2 nu nm nw (by omega) (by unfold MAXV; omega)]; exact hw.1
  · unfold sinceEpoch timeout FOREVER B63 W
    unfold MAXV at hw
    simp; omega

end TimeP
