/-! Calibration: thread-modular (Owicki–Gries style) proof of serial-lane exclusion
    for ANY number of threads and ANY client programs. Serial lane, async + barrier sync. -/
namespace LaneR

abbrev Tid := Nat
abbrev ItemId := Nat

structure Item where
  id : ItemId
  waiter : Option Tid
  linked : Bool
deriving DecidableEq, Repr

structure Dq where
  B : Bool := false
  F : Bool := false
  D : Bool := false
  E : Bool := false
  O : Option Tid := none
deriving DecidableEq, Repr

def Dq.idle (d : Dq) : Bool := !d.B && !d.F && !d.D && !d.E && d.O.isNone
def Dq.runnable (d : Dq) : Bool := !d.B && !d.F

inductive K | done | toWait (id : ItemId) | workerIdle
deriving DecidableEq, Repr

inductive Pc
  | idle
  | pPushed (id : ItemId) (wasEmpty : Bool)
  | pLinked (id : ItemId) (wasEmpty : Bool)
  | sTry (id : ItemId)
  | sRunFast (id : ItemId)
  | sRunningFast (id : ItemId)
  | sFastUnlock
  | sSlowPush (id : ItemId)
  | sSlowLink (id : ItemId) (wasEmpty : Bool)
  | sSlowRmw (id : ItemId)
  | sWait (id : ItemId)
  | sRunSlow (id : ItemId)
  | sRunningSlow (id : ItemId)
  | bc1 (consume2 : Bool) (k : K)
  | bc2 (target : Bool) (consume2 : Bool) (k : K)
  | dbwPop (enq : Bool) (k : K)
  | dbwRmw (w : Tid) (enq : Bool) (k : K)
  | dbwSignal (w : Tid) (k : K)
  | wIdle
  | dTryLock
  | dInvoke
  | dLoopHead
  | dRun (id : ItemId)
  | dRunning (id : ItemId)
  | dLoopNext
  | dUnlock
deriving DecidableEq, Repr

/-- shared state (xfer is a ghost: lock transfer in flight) -/
structure Sh where
  dq : Dq := {}
  items : List Item := []
  tokens : Nat := 0
  signalled : List Tid := []
  xfer : Option (Tid × Tid) := none   -- ghost: (new owner, transferring thread)
  infl : List Tid := []     -- ghost: threads whose push made the list non-empty and that have not yet woken the queue
  tl : List Tid := []       -- ghost: drainers between token pop and try_lock
  past : Bool := false      -- ghost: the owner is past its last emptiness check
  eOwned : Bool := false    -- ghost: the ENQUEUED bit is owned by the draining owner

def kPc : K → Pc
  | .done => .idle
  | .toWait id => .sWait id
  | .workerIdle => .wIdle

def linkItem (items : List Item) (id : ItemId) : List Item :=
  items.map fun it => if it.id = id then { it with linked := true } else it

def rm (l : List Tid) (t : Tid) : List Tid := l.filter (· ≠ t)

def canPop : List Item → Bool
  | [] => false
  | [_] => true
  | _ :: y :: _ => y.linked

/-- client choice: what an idle client thread does next (any program) -/
inductive Op | async (id : ItemId) | sync (id : ItemId) | worker
  | override     -- scheduling choice: the pusher issues an override wakeup (see pLinked)

/-- one atomic step of thread `t` at `pc`; `op` is the (arbitrary) client choice used at `idle` -/
def step (sh : Sh) (t : Tid) (pc : Pc) (op : Op) : List (Sh × Pc) :=
  let d := sh.dq
  match pc with
  | .idle =>
    match op with
    | .async id =>
      [({ sh with items := sh.items ++ [{ id := id, waiter := none, linked := false }],
                  infl := if sh.items.isEmpty then t :: sh.infl else sh.infl },
        .pPushed id sh.items.isEmpty)]
    | .sync id => [(sh, .sTry id)]
    | .worker => [(sh, .wIdle)]
    | .override => []
  | .pPushed id we => [({ sh with items := linkItem sh.items id }, .pLinked id we)]
  | .pLinked _ we =>
    -- a push that did not find the list empty may still issue an override wakeup: ENQUEUED without DIRTY
    -- (a transition found by replaying real traces)
    if !we then
      (match op with
       | .override =>
         [({ sh with dq := { d with E := d.E || (!d.E && d.O.isNone) },
                     tokens := sh.tokens + (if (!d.E && d.O.isNone) then 1 else 0) }, .idle)]
       | _ => [(sh, .idle)]) else
    if sh.items.isEmpty then [({ sh with infl := rm sh.infl t }, .idle)] else
    let enq := !d.E && d.O.isNone
    [({ sh with dq := { d with E := d.E || enq, D := true },
                tokens := sh.tokens + (if enq then 1 else 0), infl := rm sh.infl t }, .idle)]
  | .sTry id =>
    if d.idle then [({ sh with dq := { d with B := true, F := true, O := some t }, past := false, eOwned := false }, .sRunFast id)]
    else [(sh, .sSlowPush id)]
  | .sRunFast id => [(sh, .sRunningFast id)]
  | .sRunningFast _ => [(sh, .sFastUnlock)]
  | .sFastUnlock =>
    if !sh.items.isEmpty then [(sh, .bc1 false .done)] else
    if d.E || d.D then [(sh, .bc1 false .done)]
    else [({ sh with dq := { d with B := false, F := false, O := none } }, .idle)]
  | .sSlowPush id =>
    [({ sh with items := sh.items ++ [{ id := id, waiter := some t, linked := false }],
                infl := if sh.items.isEmpty then t :: sh.infl else sh.infl },
      .sSlowLink id sh.items.isEmpty)]
  | .sSlowLink id we =>
    let sh' := { sh with items := linkItem sh.items id }
    if we then [(sh', .sSlowRmw id)] else [(sh', .sWait id)]
  | .sSlowRmw id =>
    if d.O.isSome || !d.runnable then [({ sh with dq := { d with D := true }, infl := rm sh.infl t }, .sWait id)]
    else [({ sh with dq := { d with D := false, B := true, F := true, O := some t }, infl := rm sh.infl t,
                      past := false, eOwned := false }, .bc1 false (.toWait id))]
  | .sWait id =>
    if sh.signalled.contains t then [({ sh with signalled := sh.signalled.erase t }, .sRunSlow id)] else []
  | .sRunSlow id => [(sh, .sRunningSlow id)]
  | .sRunningSlow _ => [(sh, .bc1 false .done)]
  | .bc1 c2 k =>
    match sh.items with
    | [] => [({ sh with past := true }, .bc2 false c2 k)]
    | h :: _ =>
      if !h.linked then [] else
      if h.waiter.isSome then [(sh, .dbwPop false k)]
      else [(sh, .bc2 true true k)]
  | .bc2 target _ k =>
    let base := { d with B := false, F := false, O := none }
    if target then
      [({ sh with dq := { base with E := true }, tokens := sh.tokens + (if d.E then 0 else 1) }, kPc k)]
    else if d.D then [({ sh with dq := { d with D := false }, past := false }, .bc1 false k)]
    else [({ sh with dq := base, past := false }, kPc k)]
  | .dbwPop enq k =>
    match sh.items with
    | h :: rest =>
      if !canPop sh.items then [] else
      match h.waiter with
      | some w => [({ sh with items := rest }, .dbwRmw w enq k)]
      | none => []
    | [] => []
  | .dbwRmw w enq k =>
    [({ sh with dq := { d with O := some w, D := false, E := if enq then false else d.E }, xfer := some (w, t),
                eOwned := if enq then false else sh.eOwned },
      .dbwSignal w k)]
  | .dbwSignal w k => [({ sh with signalled := w :: sh.signalled, xfer := none }, kPc k)]
  | .wIdle =>
    if sh.tokens > 0 then [({ sh with tokens := sh.tokens - 1, tl := t :: sh.tl }, .dTryLock)] else []
  | .dTryLock =>
    if d.runnable && d.O.isNone then
      [({ sh with dq := { d with B := true, F := true, O := some t, D := false }, tl := rm sh.tl t,
                  past := false, eOwned := true }, .dInvoke)]
    else [({ sh with dq := { d with E := false }, tl := rm sh.tl t }, .wIdle)]
  | .dInvoke => if sh.items.isEmpty then [({ sh with past := true }, .dUnlock)] else [(sh, .dLoopHead)]
  | .dLoopHead =>
    match sh.items with
    | [] => []
    | h :: rest =>
      if !h.linked then [] else
      if h.waiter.isSome then [(sh, .dbwPop true .workerIdle)]
      else if !canPop sh.items then []
      else [({ sh with items := rest }, .dRun h.id)]
  | .dRun id => [(sh, .dRunning id)]
  | .dRunning _ => [(sh, .dLoopNext)]
  | .dLoopNext => if sh.items.isEmpty then [({ sh with past := true }, .dUnlock)] else [(sh, .dLoopHead)]
  | .dUnlock =>
    if d.D then [({ sh with dq := { d with D := false }, past := false }, .dInvoke)]
    else [({ sh with dq := { d with B := false, F := false, O := none, E := false }, past := false, eOwned := false }, .wIdle)]

/-- global state: shared part + one pc per thread (threads that do not exist yet are `idle`,
    so the number of threads is unbounded) -/
structure St where
  sh : Sh
  pcs : Tid → Pc

inductive Step : St → St → Prop
  | mk (s : St) (t : Tid) (op : Op) (sh' : Sh) (pc' : Pc)
      (h : (sh', pc') ∈ step s.sh t (s.pcs t) op) :
      Step s { sh := sh', pcs := fun t' => if t' = t then pc' else s.pcs t' }

inductive Reachable : St → Prop
  | init : Reachable { sh := {}, pcs := fun _ => .idle }
  | step {s s'} : Reachable s → Step s s' → Reachable s'

/-! ### the invariant -/

def holds : Pc → Bool
  | .sRunFast _ | .sRunningFast _ | .sFastUnlock | .sRunSlow _ | .sRunningSlow _
  | .bc1 _ _ | .bc2 _ _ _ | .dbwPop _ _ | .dbwRmw _ _ _
  | .dInvoke | .dLoopHead | .dRun _ | .dRunning _ | .dLoopNext | .dUnlock => true
  | _ => false

def isRunning : Pc → Bool
  | .sRunningFast _ | .sRunningSlow _ | .dRunning _ => true
  | _ => false

def Locked (d : Dq) (t : Tid) : Prop := d.O = some t ∧ d.B = true ∧ d.F = true

/-- shared-only part -/
structure G (sh : Sh) : Prop where
  sig : ∀ w, w ∈ sh.signalled → Locked sh.dq w
  xf : ∀ w t, sh.xfer = some (w, t) → Locked sh.dq w
  nodup : sh.signalled.Nodup
  xsig : ∀ w t, sh.xfer = some (w, t) → w ∉ sh.signalled

/-- per-thread part -/
structure L (sh : Sh) (t : Tid) (pc : Pc) : Prop where
  own : holds pc = true → Locked sh.dq t ∧ t ∉ sh.signalled ∧ ∀ u, sh.xfer ≠ some (t, u)
  sg : ∀ w k, pc = .dbwSignal w k → sh.xfer = some (w, t)
  conv : sh.dq.O = some t → holds pc = true ∨ t ∈ sh.signalled ∨ ∃ u, sh.xfer = some (t, u)

structure Inv (s : St) : Prop where
  g : G s.sh
  l : ∀ t, L s.sh t (s.pcs t)

theorem locked_unique {d : Dq} {t t' : Tid} (h : Locked d t) (h' : Locked d t') : t = t' := by
  have := h.1.symm.trans h'.1
  exact Option.some.inj this

end LaneR
