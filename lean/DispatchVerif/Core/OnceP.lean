/-! C09 calibration: dispatch_once gate (tryenter / callout / broadcast / wait on futex),
    any number of callers, thread-modular proof. -/
namespace OnceP

abbrev Tid := Nat

/-- the once predicate word -/
inductive Gate
  | zero                               -- not started
  | owned (o : Tid) (waiters : Bool)   -- initialiser running in thread o
  | done
deriving DecidableEq

inductive Pc
  | idle            -- not inside dispatch_once
  | enter           -- past the inline fast path, about to tryenter
  | init            -- running the initialiser
  | initDone        -- initialiser returned, about to broadcast
  | wake            -- exchanged DONE, saw waiters: about to futex-wake-all
  | waitLoop        -- _dispatch_once_wait rmw loop
  | sleep (exp : Gate)  -- in futex_wait with expected value
  | ret             -- returned from dispatch_once (stays here: later calls take the fast path)
deriving DecidableEq

structure Sh where
  gate : Gate := .zero
  woken : List Tid := []      -- sleepers made runnable by futex wake
  -- ghosts
  initStarted : Nat := 0
  initEnded : Bool := false
  sleepers : List Tid := []   -- threads currently in futex_wait
  waker : Option Tid := none  -- thread between the DONE exchange and the wake

def rm (l : List Tid) (t : Tid) : List Tid := l.filter (· ≠ t)

def step (sh : Sh) (t : Tid) (pc : Pc) : List (Sh × Pc) :=
  match pc with
  | .idle =>
    -- inline fast path / load-acquire in dispatch_once_f
    if sh.gate = .done then [(sh, .ret)] else [(sh, .enter)]
  | .enter =>
    match sh.gate with
    | .zero => [({ sh with gate := .owned t false, initStarted := sh.initStarted + 1 }, .init)]
    | _ => [(sh, .waitLoop)]
  | .init => [({ sh with initEnded := true }, .initDone)]
  | .initDone =>
    -- v = xchg(DONE); if v == self (no waiters bit) return else wake all
    match sh.gate with
    | .owned _ true => [({ sh with gate := .done, waker := some t }, .wake)]
    | _ => [({ sh with gate := .done }, .ret)]
  | .wake => [({ sh with woken := sh.woken ++ sh.sleepers, waker := none }, .ret)]
  | .waitLoop =>
    match sh.gate with
    | .done => [(sh, .ret)]
    | .owned o _ => [({ sh with gate := .owned o true, sleepers := t :: sh.sleepers }, .sleep (.owned o true))]
    | .zero => []          -- unreachable: the gate never returns to zero
  | .sleep _ =>
    -- futex_wait returns when the word differs from the expected value or after a wake (`properWake`) - and, as far as safety
    -- goes, at ANY other time too: a spurious wake-up or a signal handler interrupting the wait. The caller goes round its loop.
    [({ sh with sleepers := rm sh.sleepers t, woken := rm sh.woken t }, .waitLoop)]
  | .ret => []

/-- the returns of futex_wait that the kernel owes the waiter (the others may or may not happen) -/
def properWake (sh : Sh) (t : Tid) (e : Gate) : Prop := sh.gate ≠ e ∨ t ∈ sh.woken

structure St where
  sh : Sh
  pcs : Tid → Pc

inductive Step : St → St → Prop
  | mk (s : St) (t : Tid) (sh' : Sh) (pc' : Pc)
      (h : (sh', pc') ∈ step s.sh t (s.pcs t)) :
      Step s { sh := sh', pcs := fun t' => if t' = t then pc' else s.pcs t' }

inductive Reachable : St → Prop
  | init : Reachable { sh := {}, pcs := fun _ => .idle }
  | step {s s'} : Reachable s → Step s s' → Reachable s'

theorem mem_rm {l : List Tid} {t u : Tid} : u ∈ rm l t ↔ u ∈ l ∧ u ≠ t := by simp [rm]

structure G (sh : Sh) : Prop where
  /-- the initialiser has been started at most once, and exactly when the gate left zero -/
  started : sh.initStarted = (if sh.gate = .zero then 0 else 1)
  /-- DONE is published only after the initialiser returned -/
  doneEnded : sh.gate = .done → sh.initEnded = true
  /-- a sleeper that has not been woken is either still expected-equal, or a wake is on its way -/
  live : ∀ u, u ∈ sh.sleepers → u ∉ sh.woken →
          (∃ o, sh.gate = .owned o true) ∨ (sh.gate = .done ∧ sh.waker ≠ none)
  wakerDone : sh.waker ≠ none → sh.gate = .done

structure L (sh : Sh) (t : Tid) (pc : Pc) : Prop where
  own : (pc = .init ∨ pc = .initDone) → ∃ w, sh.gate = .owned t w
  ownEnded : pc = .initDone → sh.initEnded = true
  notOwn : (pc ≠ .init ∧ pc ≠ .initDone) → ∀ w, sh.gate ≠ .owned t w
  ret : pc = .ret → sh.gate = .done
  slp : t ∈ sh.sleepers ↔ ∃ e, pc = .sleep e
  slpExp : ∀ e, pc = .sleep e → ∃ o, e = .owned o true
  wk : sh.waker = some t ↔ pc = .wake

abbrev Post (sh sh' : Sh) (t : Tid) (pc' : Pc) : Prop :=
  G sh' ∧ L sh' t pc' ∧ ∀ t' q, t' ≠ t → L sh t' q → L sh' t' q

macro "oauto" : tactic => `(tactic| (constructor <;> (simp_all [mem_rm] <;> try grind)))

set_option maxHeartbeats 4000000 in
theorem step_local {sh : Sh} {t : Tid} {pc : Pc} {sh' : Sh} {pc' : Pc}
    (g : G sh) (l : L sh t pc) (h : (sh', pc') ∈ step sh t pc) : Post sh sh' t pc' := by
  obtain ⟨gs, gd, gl, gw⟩ := g
  obtain ⟨lo, loe, lno, lr, ls, lse, lw⟩ := l
  cases pc with
  | idle =>
    simp only [step] at h
    split at h <;> (simp at h; obtain ⟨rfl, rfl⟩ := h; refine ⟨⟨gs, gd, gl, gw⟩, by oauto, fun t' q _ l' => l'⟩)
  | enter =>
    simp only [step] at h
    split at h
    · simp at h; obtain ⟨rfl, rfl⟩ := h
      refine ⟨by oauto, by oauto, ?_⟩
      intro t' q ne l'
      obtain ⟨lo', loe', lno', lr', ls', lse', lw'⟩ := l'
      oauto
    · simp at h; obtain ⟨rfl, rfl⟩ := h
      exact ⟨⟨gs, gd, gl, gw⟩, by oauto, fun t' q _ l' => l'⟩
  | init =>
    simp [step] at h; obtain ⟨rfl, rfl⟩ := h
    refine ⟨by oauto, by oauto, ?_⟩
    intro t' q ne l'
    obtain ⟨lo', loe', lno', lr', ls', lse', lw'⟩ := l'
    oauto
  | initDone =>
    obtain ⟨w, hw⟩ := lo (Or.inr rfl)
    have he := loe rfl
    simp only [step] at h
    split at h
    · simp at h; obtain ⟨rfl, rfl⟩ := h
      refine ⟨by oauto, by oauto, ?_⟩
      intro t' q ne l'
      obtain ⟨lo', loe', lno', lr', ls', lse', lw'⟩ := l'
      oauto
    · simp at h; obtain ⟨rfl, rfl⟩ := h
      refine ⟨by oauto, by oauto, ?_⟩
      intro t' q ne l'
      obtain ⟨lo', loe', lno', lr', ls', lse', lw'⟩ := l'
      oauto
  | wake =>
    simp [step] at h; obtain ⟨rfl, rfl⟩ := h
    refine ⟨by oauto, by oauto, ?_⟩
    intro t' q ne l'
    obtain ⟨lo', loe', lno', lr', ls', lse', lw'⟩ := l'
    oauto
  | waitLoop =>
    simp only [step] at h
    split at h
    · simp at h; obtain ⟨rfl, rfl⟩ := h
      exact ⟨⟨gs, gd, gl, gw⟩, by oauto, fun t' q _ l' => l'⟩
    · simp at h; obtain ⟨rfl, rfl⟩ := h
      refine ⟨by oauto, by oauto, ?_⟩
      intro t' q ne l'
      obtain ⟨lo', loe', lno', lr', ls', lse', lw'⟩ := l'
      oauto
    · simp at h
  | sleep e =>
    simp [step] at h; obtain ⟨rfl, rfl⟩ := h
    refine ⟨by oauto, by oauto, ?_⟩
    intro t' q ne l'
    obtain ⟨lo', loe', lno', lr', ls', lse', lw'⟩ := l'
    oauto
  | ret => simp [step] at h

structure Inv (s : St) : Prop where
  g : G s.sh
  l : ∀ t, L s.sh t (s.pcs t)

theorem inv_reachable {s : St} (h : Reachable s) : Inv s := by
  induction h with
  | init => exact ⟨by constructor <;> simp, fun _ => by constructor <;> simp⟩
  | step _ hs ih =>
    cases hs with
    | mk t sh' pc' h =>
      obtain ⟨hg, hl, hoth⟩ := step_local ih.g (ih.l t) h
      refine ⟨hg, fun t' => ?_⟩
      by_cases e : t' = t
      · subst e; simpa using hl
      · simpa [e] using hoth t' _ e (ih.l t')

/-- **The initialiser is started at most once** (for any number of racing callers). -/
theorem init_at_most_once {s : St} (h : Reachable s) : s.sh.initStarted ≤ 1 := by
  have := (inv_reachable h).g.started; split at this <;> omega

/-- … and at most one thread is ever inside it. -/
theorem init_exclusive {s : St} (h : Reachable s) (t t' : Tid)
    (ht : s.pcs t = .init ∨ s.pcs t = .initDone) (ht' : s.pcs t' = .init ∨ s.pcs t' = .initDone) : t = t' := by
  have i := inv_reachable h
  obtain ⟨w, hw⟩ := (i.l t).own ht
  obtain ⟨w', hw'⟩ := (i.l t').own ht'
  rw [hw] at hw'; injection hw'

/-- **No call returns before the initialiser has completed.** -/
theorem no_return_before_done {s : St} (h : Reachable s) (t : Tid) (hr : s.pcs t = .ret) :
    s.sh.initEnded = true ∧ s.sh.initStarted = 1 := by
  have i := inv_reachable h
  have hd := (i.l t).ret hr
  refine ⟨i.g.doneEnded hd, ?_⟩
  have := i.g.started; simp [hd] at this; exact this

/-- **No lost broadcast** (progress as safety): a caller parked in the futex wait always has a way
    out that does not depend on luck (spurious returns) — either the kernel owes it a return (the word changed or it was woken), or the thread that
    will change the word (the running initialiser) or wake it (the broadcaster) has an enabled
    step. Hence no reachable state has a parked caller and no enabled step. -/
theorem sleeper_not_stuck {s : St} (h : Reachable s) (u : Tid) (e : Gate) (hu : s.pcs u = .sleep e) :
    properWake s.sh u e ∨ (∃ o, (s.pcs o = .init ∨ s.pcs o = .initDone ∨ s.pcs o = .wake)) := by
  have i := inv_reachable h
  by_cases hen : s.sh.gate ≠ e ∨ u ∈ s.sh.woken
  · left; exact hen
  · right
    have hge : s.sh.gate = e := by
      by_cases hg : s.sh.gate = e
      · exact hg
      · exact absurd (Or.inl hg) hen
    have hnw : u ∉ s.sh.woken := fun hw => hen (Or.inr hw)
    have hsl : u ∈ s.sh.sleepers := ((i.l u).slp).mpr ⟨e, hu⟩
    rcases i.g.live u hsl hnw with ⟨o, ho⟩ | ⟨hd, hwk⟩
    · -- the gate is owned by o: o is inside the initialiser
      refine ⟨o, ?_⟩
      by_cases hp : s.pcs o = .init ∨ s.pcs o = .initDone
      · rcases hp with hp | hp
        · exact Or.inl hp
        · exact Or.inr (Or.inl hp)
      · have := (i.l o).notOwn ⟨fun h1 => hp (Or.inl h1), fun h2 => hp (Or.inr h2)⟩ true
        exact absurd ho this
    · -- DONE was published with waiters: the broadcaster is about to wake
      cases hwk' : s.sh.waker with
      | none => exact absurd hwk' hwk
      | some o => exact ⟨o, Or.inr (Or.inr (((i.l o).wk).mp hwk'))⟩

end OnceP
