/-! C17 calibration: the two-level reference count of a dispatch object (os_obj_xref_cnt for the
    client, os_obj_ref_cnt internal, both biased by −1), `_dispatch_retain_2` taken by every enqueue
    and consumed by the drain, xref-dispose → internal release → `_dispatch_dispose`. Any number of
    threads; clients only use references they hold. -/
namespace RefP

abbrev Tid := Nat

inductive Op | retain | release | enqueue | work | target | untarget
inductive Pc
  | idle
  | xdispose        -- saw the external count drop to −1: runs xref_dispose, then drops the internal ref
  | draining        -- popped a wakeup: owns the +2 taken by the enqueue
  | dispose         -- saw the internal count drop below 0: _dispatch_dispose
deriving DecidableEq

structure Sh where
  xref : Int := 0             -- os_obj_xref_cnt (0 = one client reference)
  iref : Int := 0             -- os_obj_ref_cnt
  tokens : Nat := 0           -- wakeups sitting in the target queue, each owning +2
  inner : Nat := 0            -- +1 internal references: objects that target this one, armed registrations, …
  freed : Bool := false
  finalized : Nat := 0
  -- ghosts
  xholders : List Tid := [0]  -- one entry per client reference; the creator is thread 0
  xalive : Bool := true       -- the internal reference that stands for "some client reference exists"
  drainers : List Tid := []
  disposers : List Tid := []
  xdl : List Tid := []        -- threads between the −1 external count and the internal release

def rm1 : List Tid → Tid → List Tid
  | [], _ => []
  | a :: l, t => if a = t then l else a :: rm1 l t

def step (sh : Sh) (t : Tid) (pc : Pc) (op : Op) : List (Sh × Pc) :=
  match pc with
  | .idle =>
    match op with
    | .retain => if t ∈ sh.xholders then [({ sh with xref := sh.xref + 1, xholders := t :: sh.xholders }, .idle)] else []
    | .release =>
      if t ∈ sh.xholders then
        let sh' := { sh with xref := sh.xref - 1, xholders := rm1 sh.xholders t }
        if sh'.xref ≥ 0 then [(sh', .idle)] else [({ sh' with xdl := t :: sh.xdl }, .xdispose)]
      else []
    | .enqueue =>
      -- dispatch_async & co: only a thread that holds a reference can name the object
      if t ∈ sh.xholders ∨ t ∈ sh.drainers then
        [({ sh with iref := sh.iref + 2, tokens := sh.tokens + 1 }, .idle)] else []
    | .work =>
      if sh.tokens > 0 then [({ sh with tokens := sh.tokens - 1, drainers := t :: sh.drainers }, .draining)] else []
    | .target =>
      -- `_dispatch_retain`: taken through a reference that already exists (a child queue created / retargeted by a client
      -- that holds the object, a drain in progress, or a copy of an existing internal reference)
      if t ∈ sh.xholders ∨ t ∈ sh.drainers ∨ sh.inner > 0 then [({ sh with iref := sh.iref + 1, inner := sh.inner + 1 }, .idle)] else []
    | .untarget =>
      -- `_dispatch_release` of such a reference (the child is disposed, the registration is torn down)
      if sh.inner > 0 then
        let sh' := { sh with iref := sh.iref - 1, inner := sh.inner - 1 }
        if sh'.iref ≥ 0 then [(sh', .idle)] else [({ sh' with disposers := t :: sh.disposers }, .dispose)]
      else []
  | .xdispose =>
    let sh' := { sh with iref := sh.iref - 1, xalive := false, xdl := rm1 sh.xdl t }
    if sh'.iref ≥ 0 then [(sh', .idle)] else [({ sh' with disposers := t :: sh.disposers }, .dispose)]
  | .draining =>
    let sh' := { sh with iref := sh.iref - 2, drainers := rm1 sh.drainers t }
    if sh'.iref ≥ 0 then [(sh', .idle)] else [({ sh' with disposers := t :: sh.disposers }, .dispose)]
  | .dispose => [({ sh with freed := true, finalized := sh.finalized + 1, disposers := rm1 sh.disposers t }, .idle)]

structure St where
  sh : Sh
  pcs : Tid → Pc

inductive Step : St → St → Prop
  | mk (s : St) (t : Tid) (op : Op) (sh' : Sh) (pc' : Pc)
      (h : (sh', pc') ∈ step s.sh t (s.pcs t) op) :
      Step s { sh := sh', pcs := fun t' => if t' = t then pc' else s.pcs t' }

inductive Reachable : St → Prop
  | init : Reachable { sh := {}, pcs := fun _ => .idle }
  | step {s s'} : Reachable s → Step s s' → Reachable s'

theorem length_rm1 {l : List Tid} {t : Tid} (h : t ∈ l) : (rm1 l t).length + 1 = l.length := by
  induction l with
  | nil => simp at h
  | cons a l ih =>
    by_cases e : a = t
    · simp [rm1, e]
    · have : t ∈ l := by simpa [Ne.symm e] using h
      simp [rm1, e, ih this]

theorem count_rm1_self {l : List Tid} {t : Tid} (h : t ∈ l) : (rm1 l t).count t + 1 = l.count t := by
  induction l with
  | nil => simp at h
  | cons a l ih =>
    by_cases e : a = t
    · subst e; simp [rm1]
    · have : t ∈ l := by simpa [Ne.symm e] using h
      simp [rm1, e, List.count_cons, ih this]

theorem count_rm1_ne {l : List Tid} {t u : Tid} (h : u ≠ t) : (rm1 l t).count u = l.count u := by
  induction l with
  | nil => rfl
  | cons a l ih =>
    by_cases e : a = t
    · subst e; simp [rm1, List.count_cons, Ne.symm h]
    · simp [rm1, e, List.count_cons, ih]

def b2i (b : Bool) : Int := if b then 1 else 0
def b2n (b : Bool) : Nat := if b then 1 else 0

/-- the external count is exact while the client side is alive; the internal count is exact;
    nothing is freed while any reference is outstanding -/
structure G (sh : Sh) : Prop where
  x : sh.xref + 1 = sh.xholders.length
  xa : sh.xalive = false → sh.xholders = []
  i : sh.iref + 1 = b2i sh.xalive + 2 * (sh.tokens + sh.drainers.length) + sh.inner
  dz : sh.disposers ≠ [] ∨ sh.freed = true → sh.xalive = false ∧ sh.tokens = 0 ∧ sh.drainers = [] ∧ sh.inner = 0
  fin : sh.finalized + sh.disposers.length = b2n (sh.freed || decide (sh.disposers ≠ []))
  d1 : sh.disposers.length ≤ 1
  xd1 : sh.xdl.length ≤ 1
  xdg : sh.xdl ≠ [] → sh.xalive = true ∧ sh.xholders = []

structure L (sh : Sh) (t : Tid) (pc : Pc) : Prop where
  dr : sh.drainers.count t = b2n (decide (pc = .draining))
  dp : sh.disposers.count t = b2n (decide (pc = .dispose))
  xd : sh.xdl.count t = b2n (decide (pc = .xdispose))

abbrev Post (sh sh' : Sh) (t : Tid) (pc' : Pc) : Prop :=
  G sh' ∧ L sh' t pc' ∧ ∀ t' q, t' ≠ t → L sh t' q → L sh' t' q

theorem others_of {sh sh' : Sh} {t : Tid}
    (h1 : ∀ u, u ≠ t → sh'.drainers.count u = sh.drainers.count u)
    (h2 : ∀ u, u ≠ t → sh'.disposers.count u = sh.disposers.count u)
    (h3 : ∀ u, u ≠ t → sh'.xdl.count u = sh.xdl.count u) :
    ∀ t' q, t' ≠ t → L sh t' q → L sh' t' q := by
  intro t' q ne l
  exact ⟨by rw [h1 t' ne]; exact l.dr, by rw [h2 t' ne]; exact l.dp, by rw [h3 t' ne]; exact l.xd⟩

theorem b2i_cases (b : Bool) : (b = false ∧ b2i b = 0) ∨ (b = true ∧ b2i b = 1) := by cases b <;> simp [b2i]

/-- while any client reference, queued wakeup or drainer exists nothing is being disposed -/
theorem alive_of {sh : Sh} (g : G sh) (h : sh.xholders ≠ [] ∨ sh.tokens > 0 ∨ sh.drainers ≠ [] ∨ sh.xdl ≠ [] ∨ sh.inner > 0) :
    sh.disposers = [] ∧ sh.freed = false := by
  have hnd : ¬ (sh.disposers ≠ [] ∨ sh.freed = true) := by
    intro hd
    have ⟨h1, h2, h3, h4⟩ := g.dz hd
    rcases h with h | h | h | h | h
    · exact h (g.xa h1)
    · omega
    · exact h h3
    · have := (g.xdg h).1; rw [h1] at this; cases this
    · omega
  constructor
  · cases hd : sh.disposers with
    | nil => rfl
    | cons a l => exact absurd (Or.inl (by simp [hd])) hnd
  · cases hf : sh.freed with
    | false => rfl
    | true => exact absurd (Or.inr hf) hnd

set_option maxHeartbeats 4000000 in
theorem step_local {sh : Sh} {t : Tid} {pc : Pc} {op : Op} {sh' : Sh} {pc' : Pc}
    (g : G sh) (l : L sh t pc) (h : (sh', pc') ∈ step sh t pc op) : Post sh sh' t pc' := by
  have g0 := g
  obtain ⟨gx, gxa, gi, gdz, gfin, gd1, gxd1, gxdg⟩ := g
  obtain ⟨ldr, ldp, lxd⟩ := l
  cases pc with
  | idle =>
    simp [b2n] at ldr ldp lxd
    cases op with
    | retain =>
      simp only [step] at h
      split at h
      · rename_i hm
        simp at h; obtain ⟨rfl, rfl⟩ := h
        have hne : sh.xholders ≠ [] := by intro e; rw [e] at hm; simp at hm
        have ⟨hd0, hf0⟩ := alive_of g0 (Or.inl hne)
        refine ⟨⟨by simp; omega, by intro e; exact absurd (gxa e) hne, gi, ?_, gfin, gd1, gxd1, ?_⟩,
          ⟨by simp [b2n, ldr], by simp [b2n, ldp], by simp [b2n, lxd]⟩,
          others_of (by intro u _; rfl) (by intro u _; rfl) (by intro u _; rfl)⟩
        · intro hd; simp [hd0, hf0] at hd
        · intro hx; exact absurd (gxdg hx).2 hne
      · simp at h
    | release =>
      simp only [step] at h
      split at h
      · rename_i hm
        have hlen := length_rm1 hm
        have hne : sh.xholders ≠ [] := by intro e; rw [e] at hm; simp at hm
        have ⟨hd0, hf0⟩ := alive_of g0 (Or.inl hne)
        have hxa : sh.xalive = true := by
          cases hx : sh.xalive with
          | true => rfl
          | false => exact absurd (gxa hx) hne
        have hxd0 : sh.xdl = [] := by
          cases hx : sh.xdl with
          | nil => rfl
          | cons a l => exact absurd (gxdg (by simp [hx])).2 hne
        split at h
        · rename_i hge
          simp at h; obtain ⟨rfl, rfl⟩ := h
          refine ⟨⟨by simp; omega, (by intro e; rw [hxa] at e; cases e), gi, ?_, gfin, gd1, gxd1, ?_⟩,
            ⟨by simp [b2n, ldr], by simp [b2n, ldp], by simp [b2n, lxd]⟩,
            others_of (by intro u _; rfl) (by intro u _; rfl) (by intro u _; rfl)⟩
          · intro hd; simp [hd0, hf0] at hd
          · intro hx; exact absurd hxd0 hx
        · rename_i hlt
          simp at h; obtain ⟨rfl, rfl⟩ := h
          have hnil : rm1 sh.xholders t = [] := by
            apply List.length_eq_zero_iff.mp; simp at hlt; omega
          refine ⟨⟨by simp; omega, (by intro e; rw [hxa] at e; cases e), gi, ?_, gfin, gd1, by simp [hxd0], ?_⟩,
            ⟨by simp [b2n, ldr], by simp [b2n, ldp], by simp [b2n, hxd0]⟩,
            others_of (by intro u _; rfl) (by intro u _; rfl) (by intro u hu; simp [List.count_cons, Ne.symm hu])⟩
          · intro hd; simp [hd0, hf0] at hd
          · intro _; exact ⟨hxa, hnil⟩
      · simp at h
    | enqueue =>
      simp only [step] at h
      split at h
      · rename_i hm
        simp at h; obtain ⟨rfl, rfl⟩ := h
        have ⟨hd0, hf0⟩ := alive_of g0 (by
          rcases hm with hm | hm
          · exact Or.inl (by intro e; rw [e] at hm; simp at hm)
          · exact Or.inr (Or.inr (Or.inl (by intro e; rw [e] at hm; simp at hm))))
        refine ⟨⟨gx, gxa, by simp; omega, ?_, gfin, gd1, gxd1, gxdg⟩,
          ⟨by simp [b2n, ldr], by simp [b2n, ldp], by simp [b2n, lxd]⟩,
          others_of (by intro u _; rfl) (by intro u _; rfl) (by intro u _; rfl)⟩
        intro hd; simp [hd0, hf0] at hd
      · simp at h
    | work =>
      simp only [step] at h
      split at h
      · rename_i hm
        simp at h; obtain ⟨rfl, rfl⟩ := h
        have ⟨hd0, hf0⟩ := alive_of g0 (Or.inr (Or.inl hm))
        refine ⟨⟨gx, gxa, by simp; omega, ?_, gfin, gd1, gxd1, gxdg⟩,
          ⟨by simp [b2n, ldr], by simp [b2n, ldp], by simp [b2n, lxd]⟩,
          others_of (by intro u hu; simp [List.count_cons, Ne.symm hu]) (by intro u _; rfl) (by intro u _; rfl)⟩
        intro hd; simp [hd0, hf0] at hd
      · simp at h
    | target =>
      simp only [step] at h
      split at h
      · rename_i hm
        simp at h; obtain ⟨rfl, rfl⟩ := h
        have ⟨hd0, hf0⟩ := alive_of g0 (by
          rcases hm with hm | hm | hm
          · exact Or.inl (by intro e; rw [e] at hm; simp at hm)
          · exact Or.inr (Or.inr (Or.inl (by intro e; rw [e] at hm; simp at hm)))
          · exact Or.inr (Or.inr (Or.inr (Or.inr hm))))
        refine ⟨⟨gx, gxa, by simp; omega, ?_, gfin, gd1, gxd1, gxdg⟩,
          ⟨by simp [b2n, ldr], by simp [b2n, ldp], by simp [b2n, lxd]⟩,
          others_of (by intro u _; rfl) (by intro u _; rfl) (by intro u _; rfl)⟩
        intro hd; simp [hd0, hf0] at hd
      · simp at h
    | untarget =>
      simp only [step] at h
      split at h
      · rename_i hm
        have ⟨hd0, hf0⟩ := alive_of g0 (Or.inr (Or.inr (Or.inr (Or.inr hm))))
        split at h
        · simp at h; obtain ⟨rfl, rfl⟩ := h
          refine ⟨⟨gx, gxa, by simp; omega, ?_, gfin, gd1, gxd1, gxdg⟩,
            ⟨by simp [b2n, ldr], by simp [b2n, ldp], by simp [b2n, lxd]⟩,
            others_of (by intro u _; rfl) (by intro u _; rfl) (by intro u _; rfl)⟩
          intro hd; simp [hd0, hf0] at hd
        · rename_i hlt
          simp at h; obtain ⟨rfl, rfl⟩ := h
          have hz : b2i sh.xalive = 0 ∧ sh.tokens = 0 ∧ sh.drainers.length = 0 ∧ sh.inner = 1 := by
            rcases b2i_cases sh.xalive with ⟨_, hb⟩ | ⟨_, hb⟩ <;> (simp at hlt; omega)
          have hxa : sh.xalive = false := by
            rcases b2i_cases sh.xalive with ⟨hx, _⟩ | ⟨_, hb⟩
            · exact hx
            · omega
          refine ⟨⟨gx, gxa, by simp; omega, ?_, ?_, by simp [hd0], gxd1, gxdg⟩,
            ⟨by simp [b2n, ldr], by simp [b2n, hd0], by simp [b2n, lxd]⟩,
            others_of (by intro u _; rfl) (by intro u hu; simp [List.count_cons, Ne.symm hu]) (by intro u _; rfl)⟩
          · intro _; exact ⟨hxa, hz.2.1, List.length_eq_zero_iff.mp hz.2.2.1, by simp [hz.2.2.2]⟩
          · show sh.finalized + (t :: sh.disposers).length = b2n (sh.freed || decide (t :: sh.disposers ≠ []))
            simp [hd0, hf0, b2n] at gfin ⊢; omega
      · simp at h
  | xdispose =>
    simp [b2n] at ldr ldp lxd
    have hm : t ∈ sh.xdl := by apply List.count_pos_iff.mp; omega
    have hne : sh.xdl ≠ [] := by intro e; rw [e] at hm; simp at hm
    have hlen := length_rm1 hm
    have hnil : rm1 sh.xdl t = [] := by apply List.length_eq_zero_iff.mp; omega
    have ⟨hxa, hxh⟩ := gxdg hne
    have ⟨hd0, hf0⟩ := alive_of g0 (Or.inr (Or.inr (Or.inr (Or.inl hne))))
    have hb : b2i sh.xalive = 1 := by rw [hxa]; rfl
    have hb' : b2i false = 0 := rfl
    simp only [step] at h
    split at h
    · rename_i hge
      simp at h; obtain ⟨rfl, rfl⟩ := h
      refine ⟨⟨gx, by intro _; exact hxh, by simp only [hb']; omega, ?_, gfin, gd1, by simp [hnil], by simp [hnil]⟩,
        ⟨by simp [b2n, ldr], by simp [b2n, ldp], by simp [b2n, hnil]⟩,
        others_of (by intro u _; rfl) (by intro u _; rfl) (by intro u hu; exact count_rm1_ne hu)⟩
      intro hd; simp [hd0, hf0] at hd
    · rename_i hlt
      simp at h; obtain ⟨rfl, rfl⟩ := h
      have hz : sh.tokens = 0 ∧ sh.drainers.length = 0 ∧ sh.inner = 0 := by simp at hlt; omega
      refine ⟨⟨gx, by intro _; exact hxh, by simp only [hb']; omega, ?_, ?_, by simp [hd0], by simp [hnil], by simp [hnil]⟩,
        ⟨by simp [b2n, ldr], by simp [b2n, hd0], by simp [b2n, hnil]⟩,
        others_of (by intro u _; rfl) (by intro u hu; simp [List.count_cons, Ne.symm hu]) (by intro u hu; exact count_rm1_ne hu)⟩
      · intro _; exact ⟨rfl, hz.1, List.length_eq_zero_iff.mp hz.2.1, hz.2.2⟩
      · show sh.finalized + (t :: sh.disposers).length = b2n (sh.freed || decide (t :: sh.disposers ≠ []))
        simp [hd0, hf0, b2n] at gfin ⊢; omega
  | draining =>
    simp [b2n] at ldr ldp lxd
    have hm : t ∈ sh.drainers := by apply List.count_pos_iff.mp; omega
    have hlen := length_rm1 hm
    have hcnt := count_rm1_self hm
    have hne : sh.drainers ≠ [] := by intro e; rw [e] at hm; simp at hm
    have ⟨hd0, hf0⟩ := alive_of g0 (Or.inr (Or.inr (Or.inl hne)))
    simp only [step] at h
    split at h
    · simp at h; obtain ⟨rfl, rfl⟩ := h
      refine ⟨⟨gx, gxa, by simp; omega, ?_, gfin, gd1, gxd1, gxdg⟩,
        ⟨by simp [b2n]; omega, by simp [b2n, ldp], by simp [b2n, lxd]⟩,
        others_of (by intro u hu; exact count_rm1_ne hu) (by intro u _; rfl) (by intro u _; rfl)⟩
      intro hd; simp [hd0, hf0] at hd
    · rename_i hlt
      simp at h; obtain ⟨rfl, rfl⟩ := h
      have hz : b2i sh.xalive = 0 ∧ sh.tokens = 0 ∧ (rm1 sh.drainers t).length = 0 ∧ sh.inner = 0 := by
        rcases b2i_cases sh.xalive with ⟨_, hb⟩ | ⟨_, hb⟩ <;> (simp at hlt; omega)
      have hxa : sh.xalive = false := by
        rcases b2i_cases sh.xalive with ⟨hx, _⟩ | ⟨_, hb⟩
        · exact hx
        · omega
      have hxd0 : sh.xdl = [] := by
        cases hx : sh.xdl with
        | nil => rfl
        | cons a l => have := (gxdg (by simp [hx])).1; rw [hxa] at this; cases this
      refine ⟨⟨gx, gxa, by simp; omega, ?_, ?_, by simp [hd0], gxd1, gxdg⟩,
        ⟨by simp [b2n]; omega, by simp [b2n, hd0], by simp [b2n, lxd]⟩,
        others_of (by intro u hu; exact count_rm1_ne hu) (by intro u hu; simp [List.count_cons, Ne.symm hu]) (by intro u _; rfl)⟩
      · intro _; exact ⟨hxa, hz.2.1, List.length_eq_zero_iff.mp hz.2.2.1, hz.2.2.2⟩
      · show sh.finalized + (t :: sh.disposers).length = b2n (sh.freed || decide (t :: sh.disposers ≠ []))
        simp [hd0, hf0, b2n] at gfin ⊢; omega
  | dispose =>
    simp [b2n] at ldr ldp lxd
    have hm : t ∈ sh.disposers := by apply List.count_pos_iff.mp; omega
    have hlen := length_rm1 hm
    have hne : sh.disposers ≠ [] := by intro e; rw [e] at hm; simp at hm
    have hdz := gdz (Or.inl hne)
    have hnil : rm1 sh.disposers t = [] := by apply List.length_eq_zero_iff.mp; omega
    simp [step] at h; obtain ⟨rfl, rfl⟩ := h
    refine ⟨⟨gx, gxa, gi, by intro _; exact hdz, ?_, by simp [hnil], gxd1, gxdg⟩,
      ⟨by simp [b2n, ldr], by simp [b2n, hnil], by simp [b2n, lxd]⟩,
      others_of (by intro u _; rfl) (by intro u hu; exact count_rm1_ne hu) (by intro u _; rfl)⟩
    show sh.finalized + 1 + (rm1 sh.disposers t).length = b2n (true || decide (rm1 sh.disposers t ≠ []))
    simp [hne, hnil, b2n] at gfin ⊢; omega

structure Inv (s : St) : Prop where
  g : G s.sh
  l : ∀ t, L s.sh t (s.pcs t)

theorem inv_reachable {s : St} (h : Reachable s) : Inv s := by
  induction h with
  | init =>
    refine ⟨⟨by simp, by intro e; simp at e, by simp [b2i], by intro hd; simp at hd, by simp [b2n], by simp, by simp,
      by intro hx; simp at hx⟩, fun _ => ⟨by simp [b2n], by simp [b2n], by simp [b2n]⟩⟩
  | step _ hs ih =>
    cases hs with
    | mk t op sh' pc' h =>
      obtain ⟨hg, hl, hoth⟩ := step_local ih.g (ih.l t) h
      refine ⟨hg, fun t' => ?_⟩
      by_cases e : t' = t
      · subst e; simpa using hl
      · simpa [e] using hoth t' _ e (ih.l t')

/-- **Never freed while referenced or busy**: once the object is being disposed or has been freed,
    no client reference, queued wakeup, running drain or reference from another object exists. -/
theorem no_free_while_in_use {s : St} (h : Reachable s) (hd : s.sh.disposers ≠ [] ∨ s.sh.freed = true) :
    s.sh.xholders = [] ∧ s.sh.tokens = 0 ∧ s.sh.drainers = [] ∧ s.sh.inner = 0 := by
  have g := (inv_reachable h).g
  have ⟨h1, h2, h3, h4⟩ := g.dz hd
  exact ⟨g.xa h1, h2, h3, h4⟩

/-- **Finalised exactly once**: the dispose path runs at most once, and has run once the object is freed. -/
theorem finalized_once {s : St} (h : Reachable s) :
    s.sh.finalized ≤ 1 ∧ (s.sh.freed = true → s.sh.disposers = [] → s.sh.finalized = 1) := by
  have g := (inv_reachable h).g
  have := g.fin
  constructor
  · have hb : b2n (s.sh.freed || decide (s.sh.disposers ≠ [])) ≤ 1 := by unfold b2n; split <;> omega
    omega
  · intro hf hd; simp [hf, hd, b2n] at this; exact this

end RefP

section audit
#print axioms RefP.no_free_while_in_use
#print axioms RefP.finalized_once
end audit
