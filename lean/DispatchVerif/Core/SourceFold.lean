/-! C15: coalescing of `dispatch_source_merge_data` for the three custom data source types, generically.
    `merge` combines the value into `ds_pending_data` with one atomic operation (`add`, `or`, `store`); the invoke path
    latches with `xchg(…, 0)`. Whatever the combine operation `f`, the merges are cut into consecutive blocks by the
    latches: every latched value is the fold of its block, the pending word is the fold of the block still open. -/
namespace SourceFold

def M64 : Nat := 18446744073709551616

/-- the combine operations of DATA_ADD (wrapping 64-bit add), DATA_OR, DATA_REPLACE -/
def fAdd (a v : Nat) : Nat := (a + v % M64) % M64
def fOr (a v : Nat) : Nat := a ||| v
def fRep (_ v : Nat) : Nat := v

def fold (f : Nat → Nat → Nat) (l : List Nat) : Nat := l.foldl f 0

structure Sh where
  pending : Nat := 0
  -- ghosts
  blocks : List (List Nat) := []   -- closed blocks of merged values, oldest first
  cur : List Nat := []             -- merges since the last latch, oldest first
  vals : List Nat := []            -- latched values, oldest first

inductive Op | merge (v : Nat) | latch

def step (f : Nat → Nat → Nat) (sh : Sh) (op : Op) : Sh :=
  match op with
  | .merge v => { sh with pending := f sh.pending v, cur := sh.cur ++ [v] }
  | .latch => { sh with pending := 0, blocks := sh.blocks ++ [sh.cur], cur := [], vals := sh.vals ++ [sh.pending] }

def run (f : Nat → Nat → Nat) (ops : List Op) : Sh := ops.foldl (step f) {}

structure Inv (f : Nat → Nat → Nat) (sh : Sh) : Prop where
  pend : sh.pending = fold f sh.cur
  vals : sh.vals = sh.blocks.map (fold f)

theorem inv_step (f : Nat → Nat → Nat) (sh : Sh) (op : Op) (i : Inv f sh) : Inv f (step f sh op) := by
  cases op with
  | merge v => exact ⟨by simp [step, fold, List.foldl_append, i.pend], by simpa [step] using i.vals⟩
  | latch => exact ⟨by simp [step, fold], by simp [step, i.vals, i.pend]⟩

/-- **every history**: latched values are the folds of consecutive blocks of the merge history; the pending word is the
    fold of the open block -/
theorem inv_run (f : Nat → Nat → Nat) (ops : List Op) : Inv f (run f ops) := by
  unfold run
  suffices h : ∀ (s : Sh), Inv f s → Inv f (ops.foldl (step f) s) from h {} ⟨rfl, rfl⟩
  induction ops with
  | nil => intro s h; exact h
  | cons o os ih => intro s h; exact ih _ (inv_step f s o h)

/-- all merged values in order -/
def hist (sh : Sh) : List Nat := sh.blocks.flatten ++ sh.cur

/-! ### DATA_ADD: the sum is conserved (mod 2^64) -/

theorem fold_add (l : List Nat) (a : Nat) (ha : a < M64) : l.foldl fAdd a = (a + (l.map (· % M64)).sum) % M64 := by
  induction l generalizing a with
  | nil => simp [Nat.mod_eq_of_lt ha]
  | cons v l ih =>
    have hlt : fAdd a v < M64 := Nat.mod_lt _ (by decide)
    simp only [List.foldl_cons, List.map_cons, List.sum_cons]
    rw [ih (fAdd a v) hlt]
    unfold fAdd M64
    omega

theorem add_conservation (ops : List Op) :
    (((run fAdd ops).vals.sum) + (run fAdd ops).pending) % M64 = (((hist (run fAdd ops)).map (· % M64)).sum) % M64 := by
  have i := inv_run fAdd ops
  generalize run fAdd ops = sh at i
  obtain ⟨hp, hv⟩ := i
  rw [hp, hv]
  unfold hist
  generalize sh.cur = cur
  induction sh.blocks with
  | nil =>
    simp [fold]
    rw [fold_add cur 0 (by decide)]; simp [M64]
  | cons b bs ih =>
    simp only [List.map_cons, List.sum_cons, List.flatten_cons, List.append_assoc, List.map_append, List.sum_append] at ih ⊢
    have hb : fold fAdd b = (0 + (b.map (· % M64)).sum) % M64 := fold_add b 0 (by decide)
    rw [hb]
    unfold M64 at *
    omega

/-! ### DATA_OR: the union is conserved -/

def orAll (l : List Nat) : Nat := l.foldl (· ||| ·) 0

theorem foldl_or_init (l : List Nat) (a : Nat) : l.foldl (· ||| ·) a = a ||| l.foldl (· ||| ·) 0 := by
  induction l generalizing a with
  | nil => simp
  | cons v l ih => simp only [List.foldl_cons]; rw [ih (a ||| v), ih (0 ||| v)]; simp [Nat.or_assoc]

theorem orAll_append (a b : List Nat) : orAll (a ++ b) = orAll a ||| orAll b := by
  unfold orAll; rw [List.foldl_append, foldl_or_init]

theorem or_conservation (ops : List Op) :
    orAll (run fOr ops).vals ||| (run fOr ops).pending = orAll (hist (run fOr ops)) := by
  have i := inv_run fOr ops
  generalize run fOr ops = sh at i
  obtain ⟨hp, hv⟩ := i
  rw [hp, hv]
  unfold hist
  generalize sh.cur = cur
  have hf : ∀ l, fold fOr l = orAll l := fun l => rfl
  induction sh.blocks with
  | nil => simp [hf, orAll]
  | cons b bs ih =>
    simp only [List.map_cons, List.flatten_cons, List.append_assoc]
    rw [orAll_append b, ← ih]
    have : orAll (fold fOr b :: bs.map (fold fOr)) = fold fOr b ||| orAll (bs.map (fold fOr)) := by
      unfold orAll; simp only [List.foldl_cons]; rw [foldl_or_init]; simp
    rw [this, hf b, Nat.or_assoc]

/-! ### DATA_REPLACE: every latched value was merged (or is the empty latch 0), and the last merge wins -/

theorem foldl_rep (l : List Nat) (a : Nat) : l.foldl fRep a = l.getLast?.getD a := by
  induction l generalizing a with
  | nil => rfl
  | cons v l ih =>
    simp only [List.foldl_cons]
    rw [ih]
    cases l with
    | nil => simp [fRep]
    | cons w l =>
      simp only [fRep, List.getLast?_cons_cons]
      have : (w :: l).getLast? = some ((w :: l).getLast (by simp)) := List.getLast?_eq_some_getLast (by simp)
      rw [this]; rfl

theorem fold_rep (l : List Nat) : fold fRep l = l.getLast?.getD 0 := foldl_rep l 0

theorem replace_values_were_merged (ops : List Op) :
    ∀ v ∈ (run fRep ops).vals, v = 0 ∨ v ∈ hist (run fRep ops) := by
  have i := inv_run fRep ops
  generalize run fRep ops = sh at i
  intro v hv
  rw [i.vals] at hv
  obtain ⟨b, hb, rfl⟩ := List.mem_map.mp hv
  rw [fold_rep]
  cases hl : b.getLast? with
  | none => left; rfl
  | some x =>
    right
    have : x ∈ b := List.mem_of_getLast? hl
    simp only [Option.getD_some]
    unfold hist
    exact List.mem_append_left _ (List.mem_flatten.mpr ⟨b, hb, this⟩)

/-- the pending word after any history is the last merged value of the open block: a final merge is what the next
    latch delivers -/
theorem replace_last_wins (ops : List Op) : (run fRep ops).pending = (run fRep ops).cur.getLast?.getD 0 := by
  rw [(inv_run fRep ops).pend, fold_rep]

/-- a latched 0 is not delivered (`if (!dispatch_assume(prev != 0)) return`), so a handler invocation never reports zero;
    ADD / OR latches are 0 only for blocks whose fold is 0 -/
def delivered (sh : Sh) : List Nat := sh.vals.filter (· ≠ 0)

theorem delivered_never_zero (sh : Sh) : ∀ v ∈ delivered sh, v ≠ 0 := by
  intro v hv; simpa using (List.mem_filter.mp hv).2

end SourceFold
