import DispatchVerif.Core.LaneWStep1
namespace LaneW

/-- taking the barrier lock from an unowned state in which all width is free -/
theorem acquireB {W : Nat} {sh : Sh} {t : Tid} {pc pc' : Pc} (g : G W sh) (l : L sh t pc)
    (hO : sh.dq.O = none) (hfree : sh.holders = [] ∧ sh.redirects = 0) (hu0 : unitsOf pc = 0)
    (hb' : holdsB pc' = true) (hu' : holdsU pc' = false) (hn' : unitsOf pc' = 0)
    (hs : ∀ w k, pc' ≠ .dbwSignal w k) :
    Post W sh { sh with dq := sh.dq.lock W t } t pc' := by
  have ⟨hq1, hq2⟩ := unowned_quiet g hO
  have hc := l.cnt
  refine ⟨⟨?_, ?_, ?_, ?_, g.nodup, ?_⟩, ⟨?_, ?_, ?_, ?_, (by ndnb)⟩, others_own (Or.inr hO) rfl (by intro u hu; rfl)⟩
  · simp [Dq.lock, hfree.1, hfree.2]
  · intro _; simp [Dq.lock, hfree.1, hfree.2]
  · intro w hw; simp [hq1] at hw
  · intro w u hw; simp [hq2] at hw
  · intro w u hw; simp [hq2] at hw
  · intro _; exact ⟨⟨rfl, rfl⟩, by simp [hq1], by simp [hq2]⟩
  · intro h; simp [hu'] at h
  · simp [hfree.1, hu0] at hc; simp [hfree.1, hn']; omega
  · intro w k e; exact absurd e (hs w k)

set_option maxHeartbeats 4000000 in
theorem step_sync {W : Nat} (hW : 1 ≤ W) {sh : Sh} {t : Tid} {pc : Pc} {op : Op} {sh' : Sh} {pc' : Pc}
    (g : G W sh) (l : L sh t pc) (h : (sh', pc') ∈ step W sh t pc op)
    (hpc : (∃ i, pc = .sTryB i) ∨ (∃ i b, pc = .sSlowRmw i b) ∨ (∃ i b, pc = .sWait i b) ∨
           (∃ i a, pc = .run i a) ∨ (∃ i a, pc = .running i a) ∨ pc = .sFastUnlock) :
    Post W sh sh' t pc' := by
  obtain ⟨gW, gB, gs, gx, gn, gxs⟩ := g
  have g0 : G W sh := ⟨gW, gB, gs, gx, gn, gxs⟩
  obtain ⟨lB, lU, lc, lsg, lpb⟩ := l
  have l0 : L sh t pc := ⟨lB, lU, lc, lsg, lpb⟩
  rcases hpc with ⟨i, rfl⟩ | ⟨i, b, rfl⟩ | ⟨i, b, rfl⟩ | ⟨i, a, rfl⟩ | ⟨i, a, rfl⟩ | rfl
  · -- sTryB
    simp only [step] at h
    split at h
    · rename_i hi
      simp at h; obtain ⟨rfl, rfl⟩ := h
      simp [Dq.idle] at hi
      obtain ⟨⟨⟨⟨⟨hu, hB⟩, hpb⟩, _⟩, _⟩, hO⟩ := hi
      have hfree : sh.holders = [] ∧ sh.redirects = 0 := by
        simp [hu, hB, hpb] at gW
        have h1 : sh.holders.length = 0 := by omega
        exact ⟨List.length_eq_zero_iff.mp h1, by omega⟩
      exact acquireB g0 l0 hO hfree rfl (by simp [holdsB, After.isBar]) rfl (by simp [unitsOf, After.isBar]) (by simp)
    · simp at h; obtain ⟨rfl, rfl⟩ := h; exact frame_step g0 rfl (L_same l0 rfl rfl rfl (by simp))
  · -- sSlowRmw
    simp only [step] at h
    split at h
    · simp at h; obtain ⟨rfl, rfl⟩ := h; exact frame_step g0 rfl (L_same l0 rfl rfl rfl (by simp))
    · rename_i hc
      split at h
      · rename_i hlk
        simp at h; obtain ⟨rfl, rfl⟩ := h
        have hO : sh.dq.O = none := by
          cases ho : sh.dq.O with
          | none => rfl
          | some _ => simp [ho] at hc
        have hrun : sh.dq.runnable W = true := by
          cases hr : sh.dq.runnable W with
          | true => rfl
          | false => simp [hr] at hc
        have hnB : sh.dq.B = false := by
          simp [Dq.runnable] at hrun; exact hrun.1
        have hlt : sh.dq.u < W := by
          simp [Dq.runnable] at hrun; exact hrun.2
        have hfree : sh.holders = [] ∧ sh.redirects = 0 := by
          simp [Dq.lockable] at hlk
          simp [hnB] at gW
          rcases hlk with hp | hz
          · simp [hp] at gW
            have h1 : sh.holders.length = 0 := by omega
            exact ⟨List.length_eq_zero_iff.mp h1, by omega⟩
          · by_cases hp : sh.dq.pb = true
            · simp [hp] at gW
              have h1 : sh.holders.length = 0 := by omega
              exact ⟨List.length_eq_zero_iff.mp h1, by omega⟩
            · simp [hp] at gW
              have h1 : sh.holders.length = 0 := by omega
              exact ⟨List.length_eq_zero_iff.mp h1, by omega⟩
        exact acquireB g0 l0 hO hfree rfl (by simp [holdsB, After.isBar]) rfl (by simp [unitsOf, After.isBar]) (by simp)
      · simp at h; obtain ⟨rfl, rfl⟩ := h; exact frame_step g0 rfl (L_same l0 rfl rfl rfl (by simp))
  · -- sWait
    simp only [step] at h
    split at h
    · split at h
      · rename_i hm
        simp at h; obtain ⟨rfl, rfl⟩ := h
        have hl := gs t hm
        refine ⟨⟨gW, gB, ?_, gx, gn.filter _, ?_⟩, ⟨?_, ?_, ?_, ?_, (by ndnb)⟩, others_keep rfl rfl (by intro u hu; simp [mem_rm, hu]) rfl (by intro u hu; rfl)⟩
        · intro w hw; exact gs w (mem_rm.mp hw).1
        · intro w u hw hm'; exact gxs w u hw (mem_rm.mp hm').1
        · intro _; exact ⟨hl, by simp [mem_rm], fun u hx => gxs t u hx hm⟩
        · intro hh; simp [holdsU] at hh
        · simp [unitsOf, After.isBar] at lc ⊢; exact lc
        · intro w k e; simp at e
      · simp at h
    · split at h
      · rename_i hm
        simp at h; obtain ⟨rfl, rfl⟩ := h
        have hpos : 1 ≤ sh.sigN.count t := List.count_pos_iff.mpr hm
        have hc1 := count_rmN_self 1 t sh.sigN hpos
        refine ⟨G_frame g0 rfl rfl rfl rfl rfl rfl rfl rfl, ⟨?_, ?_, ?_, ?_, (by ndnb)⟩,
          others_keep rfl rfl (by intro u hu; rfl) rfl (by intro u hu; simp [count_rmN_ne 1 t u sh.sigN hu])⟩
        · intro hh; simp [holdsB, After.isBar] at hh
        · intro hh; simp [holdsU] at hh
        · simp [unitsOf, After.isBar] at lc ⊢; omega
        · intro w k e; simp at e
      · simp at h
  · -- run
    simp [step] at h; obtain ⟨rfl, rfl⟩ := h
    exact frame_step g0 rfl (L_same l0 rfl rfl rfl (by simp))
  · -- running
    simp only [step] at h
    rcases List.mem_append.mp h with h | h
    · exact step_apply_reserve g0 l0 h
    cases a <;> simp at h
    · split at h <;> (simp at h; obtain ⟨rfl, rfl⟩ := h; exact frame_step g0 rfl (L_same l0 rfl rfl rfl (by simp)))
    · obtain ⟨rfl, rfl⟩ := h; exact frame_step g0 rfl (L_same l0 rfl rfl rfl (by simp))
    · obtain ⟨rfl, rfl⟩ := h; exact frame_step g0 rfl (L_same l0 rfl rfl rfl (by simp))
    · obtain ⟨rfl, rfl⟩ := h; exact frame_step g0 rfl (L_same l0 rfl rfl rfl (by simp))
    · obtain ⟨rfl, rfl⟩ := h; exact frame_step g0 rfl (L_same l0 rfl rfl rfl (by simp))
  · -- sFastUnlock
    have ⟨hq1, hq2, hq3, hq4, hq5, hq6⟩ := ownerB_quiet g0 l0 rfl
    have hl := (lB rfl).1
    simp only [step] at h
    split at h
    · simp at h; obtain ⟨rfl, rfl⟩ := h; exact frame_step g0 rfl (L_same l0 rfl rfl rfl (by simp))
    · split at h
      · simp at h; obtain ⟨rfl, rfl⟩ := h; exact frame_step g0 rfl (L_same l0 rfl rfl rfl (by simp))
      · simp at h; obtain ⟨rfl, rfl⟩ := h
        refine ⟨⟨?_, ?_, ?_, ?_, gn, gxs⟩, ⟨?_, ?_, ?_, ?_, (by ndnb)⟩, others_own (Or.inl hl.1) rfl (by intro u hu; rfl)⟩
        · simp [hq3, hq4, hq5, hq6]
        · intro hb; simp at hb
        · intro w hw; simp [hq1] at hw
        · intro w u hw; simp [hq2] at hw
        · intro hh; simp [holdsB] at hh
        · intro hh; simp [holdsU] at hh
        · simp [unitsOf, holdsB] at lc ⊢; exact lc
        · intro w k e; simp at e

end LaneW
