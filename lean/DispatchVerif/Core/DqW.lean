import DispatchVerif.Generated.Consts
/-! C01 / C02 / C04: the `dq_state` read-modify-write functions of src/inline_internal.h at the level of the 64-bit word, over the
    generated constants: `_dispatch_queue_drain_try_lock` (default flags), `_dispatch_queue_try_acquire_barrier_sync`,
    `_dispatch_queue_try_reserve_sync_width`, `_dispatch_queue_try_acquire_async`, `_dispatch_queue_reserve_sync_width`,
    `_dispatch_queue_drain_try_unlock`. Each is compared with the compiled function on generated words on every run
    (`DQ` lines: harness/lfn.c through the `_dispatch_verif_dq_op` hook). The theorems are the rules the lane protocol relies on:
    a drainer cannot release the lock while DIRTY is set, leaves DIRTY behind unless it is done, the lock is only taken from a
    runnable unlocked word, the synchronous barrier fast path only from the idle word, and width is not handed out past a
    DIRTY / PENDING_BARRIER word. -/
namespace DqW
open Gen

def M64 : Nat := 18446744073709551616
def clearMask (x m : Nat) : Nat := x - (x &&& m)
def sub64 (a b : Nat) : Nat := (a + M64 - b % M64) % M64
def suspended (x : Nat) : Bool := x &&& DISPATCH_QUEUE_SUSPEND_BITS_MASK != 0
def dirty (x : Nat) : Bool := x &&& DISPATCH_QUEUE_DIRTY != 0
def pendingBarrier (x : Nat) : Bool := x &&& DISPATCH_QUEUE_PENDING_BARRIER != 0
def runnable (x : Nat) : Bool := x < DISPATCH_QUEUE_WIDTH_FULL_BIT
def syncRunnable (x : Nat) : Bool := x < DISPATCH_QUEUE_IN_BARRIER
def drainLocked (x : Nat) : Bool := x &&& DISPATCH_QUEUE_DRAIN_OWNER_MASK != 0
def initValue (width : Nat) : Nat := (DISPATCH_QUEUE_WIDTH_FULL - width) * DISPATCH_QUEUE_WIDTH_INTERVAL

/-- `_dispatch_queue_drain_try_unlock(dq, owned, done)`: (returned bool, new word) -/
def drainTryUnlock (old owned : Nat) (done : Bool) : Bool × Nat :=
  let n0 := clearMask (sub64 old owned) DISPATCH_QUEUE_DRAIN_UNLOCK_MASK
  if suspended old then (true, n0)
  else if dirty old then (false, old ^^^ DISPATCH_QUEUE_DIRTY)
  else if done then (true, clearMask n0 DISPATCH_QUEUE_MAX_QOS_MASK)
  else (true, n0 ||| DISPATCH_QUEUE_DIRTY)

/-- `_dispatch_queue_drain_try_lock(dq, 0)` by thread `tid`: (returned owned amount, new word) -/
def lockFailMask : Nat := (M64 - DISPATCH_QUEUE_WIDTH_FULL_BIT) ||| DISPATCH_QUEUE_DRAIN_OWNER_MASK ||| DISPATCH_QUEUE_ENQUEUED_ON_MGR
def drainTryLock (old width tid : Nat) : Nat × Nat :=
  if old &&& lockFailMask = 0 then
    let n := (old &&& DISPATCH_QUEUE_DRAIN_PRESERVED_BITS_MASK) ||| tid ||| DISPATCH_QUEUE_WIDTH_FULL_BIT
    let n := if pendingBarrier old || decide (old + (width - 1) * DISPATCH_QUEUE_WIDTH_INTERVAL < DISPATCH_QUEUE_WIDTH_FULL_BIT)
      then n ||| DISPATCH_QUEUE_IN_BARRIER else n
    let got := n &&& (DISPATCH_QUEUE_IN_BARRIER ||| DISPATCH_QUEUE_WIDTH_FULL_BIT ||| DISPATCH_QUEUE_ENQUEUED)
    (sub64 got (old &&& DISPATCH_QUEUE_WIDTH_MASK), n)
  else (0, old ^^^ DISPATCH_QUEUE_ENQUEUED)

/-- `_dispatch_queue_try_acquire_barrier_sync(dq, tid)` -/
def tryAcquireBarrierSync (old width tid : Nat) : Bool × Nat :=
  let role := old &&& DISPATCH_QUEUE_ROLE_MASK
  if old = (initValue width ||| role) then
    (true, DISPATCH_QUEUE_WIDTH_FULL_BIT ||| DISPATCH_QUEUE_IN_BARRIER ||| tid ||| role)
  else (false, old)

/-- `_dispatch_queue_try_reserve_sync_width(dq)`; `tail` = the list is not empty -/
def tryReserveSyncWidth (old : Nat) (tail : Bool) : Bool × Nat :=
  if tail then (false, old)
  else if !syncRunnable old || dirty old || pendingBarrier old then (false, old)
  else (true, (old + DISPATCH_QUEUE_WIDTH_INTERVAL) % M64)

/-- `_dispatch_queue_try_acquire_async(dq)` -/
def tryAcquireAsync (old : Nat) : Bool × Nat :=
  if !runnable old || dirty old || pendingBarrier old then (false, old)
  else (true, (old + DISPATCH_QUEUE_WIDTH_INTERVAL) % M64)

/-- `_dispatch_queue_reserve_sync_width(dq)` -/
def reserveSyncWidth (old : Nat) : Nat := (old + DISPATCH_QUEUE_WIDTH_INTERVAL) % M64

/-! ### the rules -/

/-- **a drainer cannot release the drain lock while DIRTY is set** (unless the queue is suspended): the unlock is refused and
    the only change to the word is that DIRTY is cleared - the lock is renewed and the caller looks at the list again -/
theorem unlock_refused_when_dirty (old owned : Nat) (done : Bool) (hs : suspended old = false) (hd : dirty old = true) :
    drainTryUnlock old owned done = (false, old ^^^ DISPATCH_QUEUE_DIRTY) := by
  unfold drainTryUnlock; simp [hs, hd]

/-- **a drainer that is not done leaves DIRTY behind** when it releases the lock: whoever gives width back or locks next
    re-examines the queue -/
theorem unlock_not_done_leaves_dirty (old owned : Nat) (hs : suspended old = false) (hd : dirty old = false) :
    (drainTryUnlock old owned false).1 = true ∧ dirty (drainTryUnlock old owned false).2 = true := by
  unfold drainTryUnlock
  simp only [hs, hd, Bool.false_eq_true, if_false]
  refine ⟨trivial, ?_⟩
  unfold dirty
  have h : ((clearMask (sub64 old owned) DISPATCH_QUEUE_DRAIN_UNLOCK_MASK ||| DISPATCH_QUEUE_DIRTY) &&& DISPATCH_QUEUE_DIRTY).testBit 39 = true := by
    rw [Nat.testBit_and, Nat.testBit_or]
    have : DISPATCH_QUEUE_DIRTY.testBit 39 = true := by decide
    rw [this]; simp
  have : (clearMask (sub64 old owned) DISPATCH_QUEUE_DRAIN_UNLOCK_MASK ||| DISPATCH_QUEUE_DIRTY) &&& DISPATCH_QUEUE_DIRTY ≠ 0 := by
    intro e; rw [e] at h; simp at h
  simpa using this

/-- **the drain lock is taken only from a runnable, unlocked word that is not on the manager queue** -/
theorem try_lock_only_when_free (old width tid : Nat) (h : (drainTryLock old width tid).1 ≠ 0) :
    old &&& lockFailMask = 0 := by
  by_cases hc : old &&& lockFailMask = 0
  · exact hc
  · unfold drainTryLock at h
    rw [if_neg hc] at h
    exact absurd rfl h

/-- **the synchronous barrier fast path is taken only from the idle word of the queue** (nothing enqueued, nothing dirty, no
    owner, no width in use, not suspended) -/
theorem barrier_sync_only_from_idle (old width tid : Nat) (h : (tryAcquireBarrierSync old width tid).1 = true) :
    old = (initValue width ||| (old &&& DISPATCH_QUEUE_ROLE_MASK)) := by
  by_cases hc : old = (initValue width ||| (old &&& DISPATCH_QUEUE_ROLE_MASK))
  · exact hc
  · unfold tryAcquireBarrierSync at h
    simp only [] at h
    rw [if_neg hc] at h
    cases h

/-- **width is not handed out past a DIRTY or PENDING_BARRIER word, nor when the lane is full** -/
theorem async_width_refused (old : Nat) (h : (tryAcquireAsync old).1 = true) :
    runnable old = true ∧ dirty old = false ∧ pendingBarrier old = false := by
  unfold tryAcquireAsync at h
  split at h
  · cases h
  · rename_i hc
    simp only [Bool.or_eq_true, Bool.not_eq_true', not_or, Bool.not_eq_true] at hc
    exact ⟨by simpa using hc.1.1, hc.1.2, hc.2⟩

theorem sync_width_refused (old : Nat) (tail : Bool) (h : (tryReserveSyncWidth old tail).1 = true) :
    tail = false ∧ syncRunnable old = true ∧ dirty old = false ∧ pendingBarrier old = false := by
  unfold tryReserveSyncWidth at h
  split at h
  · cases h
  · rename_i ht
    split at h
    · cases h
    · rename_i hc
      simp only [Bool.or_eq_true, Bool.not_eq_true', not_or, Bool.not_eq_true] at hc
      exact ⟨by simpa using ht, by simpa using hc.1.1, hc.1.2, hc.2⟩

end DqW
