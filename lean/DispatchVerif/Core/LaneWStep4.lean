import DispatchVerif.Core.LaneWStep3
namespace LaneW

/-- the barrier owner releases the lane: u := 0, B := false, O := none (other bits arbitrary) -/
theorem ownerB_release {W : Nat} {sh : Sh} {t : Tid} {pc pc' : Pc} (g : G W sh) (l : L sh t pc)
    (hh : holdsB pc = true) (hu0 : unitsOf pc = 0) (d' : Dq) (tok : Nat)
    (hd' : d'.u = sh.dq.u - W ∧ d'.B = false ∧ d'.O = none ∧ d'.pb = sh.dq.pb)
    (hb' : holdsB pc' = false) (hu' : holdsU pc' = false) (hn' : unitsOf pc' = 0)
    (hs : ∀ w k, pc' ≠ .dbwSignal w k) :
    Post W sh { sh with dq := d', tokens := tok } t pc' := by
  have ⟨hq1, hq2, hq3, hq4, hq5, hq6⟩ := ownerB_quiet g l hh
  have hl := (l.ownB hh).1
  have hc := l.cnt
  refine ⟨⟨?_, ?_, ?_, ?_, g.nodup, g.xsig⟩, ⟨?_, ?_, ?_, ?_, (by ndnb)⟩, others_own (Or.inl hl.1) rfl (by intro u hu; rfl)⟩
  · simp [hd'.1, hd'.2.1, hd'.2.2.2, hq3, hq4, hq5, hq6]
  · intro hb; simp [hd'.2.1] at hb
  · intro w hw; simp [hq1] at hw
  · intro w u hw; simp [hq2] at hw
  · intro h; simp [hb'] at h
  · intro h; simp [hu'] at h
  · simp [hq3, hu0] at hc; simp [hq3, hn']; omega
  · intro w k e; exact absurd e (hs w k)

/-- the barrier owner rewrites bits other than u / B / pb / O -/
theorem ownerB_keep {W : Nat} {sh : Sh} {t : Tid} {pc pc' : Pc} (g : G W sh) (l : L sh t pc)
    (hh : holdsB pc = true) (d' : Dq)
    (hd' : d'.u = sh.dq.u ∧ d'.B = sh.dq.B ∧ d'.O = sh.dq.O ∧ d'.pb = sh.dq.pb)
    (hb' : holdsB pc' = true) (hu' : holdsU pc' = false) (hn' : unitsOf pc' = unitsOf pc)
    (hs : ∀ w k, pc' ≠ .dbwSignal w k) :
    Post W sh { sh with dq := d' } t pc' := by
  have hl := (l.ownB hh).1
  refine ⟨G_frame g hd'.1 hd'.2.1 hd'.2.2.2 hd'.2.2.1 rfl rfl rfl rfl, ⟨?_, ?_, ?_, ?_, (by ndnb)⟩,
    others_own (Or.inl hl.1) rfl (by intro u hu; rfl)⟩
  · intro _; have := l.ownB hh; simp only [LockedB, hd'.2.1, hd'.2.2.1] at *; exact this
  · intro h; simp [hu'] at h
  · rw [hn']; exact l.cnt
  · intro w k e; exact absurd e (hs w k)

set_option maxHeartbeats 4000000 in
theorem step_barrier {W : Nat} (hW : 1 ≤ W) {sh : Sh} {t : Tid} {pc : Pc} {op : Op} {sh' : Sh} {pc' : Pc}
    (g : G W sh) (l : L sh t pc) (h : (sh', pc') ∈ step W sh t pc op)
    (hpc : (∃ c k, pc = .bc1 c k) ∨ (∃ tg c k, pc = .bc2 tg c k) ∨ (∃ e k, pc = .dbwPop e k) ∨
           (∃ w e k, pc = .dbwRmw w e k) ∨ (∃ w k, pc = .dbwSignal w k)) :
    Post W sh sh' t pc' := by
  have g0 := g
  have l0 := l
  obtain ⟨gW, gB, gs, gx, gn, gxs⟩ := g
  obtain ⟨lB, lU, lc, lsg, lpb⟩ := l
  rcases hpc with ⟨c2, k, rfl⟩ | ⟨tg, c2, k, rfl⟩ | ⟨enq, k, rfl⟩ | ⟨w, enq, k, rfl⟩ | ⟨w, k, rfl⟩
  · -- bc1
    simp only [step] at h
    split at h
    · simp at h; obtain ⟨rfl, rfl⟩ := h; exact frame_step g0 rfl (L_same l0 rfl rfl rfl (by simp))
    · split at h
      · simp at h
      · split at h
        · split at h <;> (simp at h; obtain ⟨rfl, rfl⟩ := h; exact frame_step g0 rfl (L_same l0 rfl rfl rfl (by simp)))
        · simp at h; obtain ⟨rfl, rfl⟩ := h; exact frame_step g0 rfl (L_same l0 rfl rfl rfl (by simp))
  · -- bc2
    have ⟨kb, ku, kn, ks⟩ := kPc_props k
    simp only [step] at h
    split at h
    · simp at h; obtain ⟨rfl, rfl⟩ := h
      exact ownerB_release g0 l0 rfl rfl _ _ ⟨rfl, rfl, rfl, rfl⟩ kb ku kn ks
    · split at h
      · simp at h; obtain ⟨rfl, rfl⟩ := h
        exact ownerB_keep g0 l0 rfl _ ⟨rfl, rfl, rfl, rfl⟩ rfl rfl rfl (by simp)
      · simp at h; obtain ⟨rfl, rfl⟩ := h
        have := ownerB_release g0 l0 rfl rfl { sh.dq with u := sh.dq.u - W, B := false, O := none } sh.tokens
          ⟨rfl, rfl, rfl, rfl⟩ kb ku kn ks
        exact this
  · -- dbwPop
    simp only [step] at h
    split at h
    · split at h
      · simp at h
      · split at h
        · simp at h; obtain ⟨rfl, rfl⟩ := h; exact frame_step g0 rfl (L_same l0 rfl rfl rfl (by simp))
        · simp at h
    · simp at h
  · -- dbwRmw: transfer the lock to the waiter w
    have ⟨hq1, hq2, hq3, hq4, hq5, hq6⟩ := ownerB_quiet g0 l0 rfl
    have hl := (lB rfl).1
    simp [step] at h; obtain ⟨rfl, rfl⟩ := h
    refine ⟨⟨?_, ?_, ?_, ?_, gn, ?_⟩, ⟨?_, ?_, ?_, ?_, (by ndnb)⟩, ?_⟩
    · simp [hl.2, hq3, hq4, hq5, hq6]
    · intro _; exact ⟨hq3, hq4, hq5⟩
    · intro w' hw; simp [hq1] at hw
    · intro w' u hw; simp at hw; obtain ⟨rfl, rfl⟩ := hw; exact ⟨rfl, hl.2⟩
    · intro w' u _; simp [hq1]
    · intro hh; simp [holdsB] at hh
    · intro hh; simp [holdsU] at hh
    · simp [unitsOf] at lc ⊢; exact lc
    · intro w' k' e; simp at e; obtain ⟨rfl, rfl⟩ := e; rfl
    · -- others
      intro t' q ne l'
      have nb : holdsB q = false := by
        cases hq : holdsB q with
        | false => rfl
        | true => exact absurd (lockedB_unique (l'.ownB hq).1 hl) ne
      have nu : holdsU q = false := by
        cases hq : holdsU q with
        | false => rfl
        | true => have := (l'.ownU hq).2; rw [hl.2] at this; simp at this
      refine ⟨?_, ?_, l'.cnt, ?_, ?_⟩
      · intro hh; simp [nb] at hh
      · intro hh; simp [nu] at hh
      · intro w' k' e; have := l'.sg w' k' e; simp [hq2] at this
      · intro hd; have := holdsU_of_isDnb hd; simp [nu] at this
  · -- dbwSignal
    have ⟨kb, ku, kn, ks⟩ := kPc_props k
    have hx := lsg w k rfl
    have hl := gx w t hx
    have hns := gxs w t hx
    simp [step] at h; obtain ⟨rfl, rfl⟩ := h
    refine ⟨⟨gW, gB, ?_, ?_, List.nodup_cons.mpr ⟨hns, gn⟩, ?_⟩, ⟨?_, ?_, ?_, ?_, (by ndnb)⟩, ?_⟩
    · intro w' hw; simp at hw; rcases hw with rfl | hw
      · exact hl
      · exact gs w' hw
    · intro w' u hw; simp at hw
    · intro w' u hw; simp at hw
    · intro hh; simp [kb] at hh
    · intro hh; simp [ku] at hh
    · rw [kn]; simp [unitsOf] at lc ⊢; exact lc
    · intro w' k' e; exact absurd e (ks w' k')
    · intro t' q ne l'
      refine ⟨?_, l'.ownU, l'.cnt, ?_, l'.npb⟩
      · intro hq
        obtain ⟨hl', _, hnx'⟩ := l'.ownB hq
        have := lockedB_unique hl' hl; subst this
        exact absurd hx (hnx' t)
      · intro w' k' e
        have := l'.sg w' k' e
        rw [hx] at this; simp at this; exact absurd this.2.symm ne

end LaneW
