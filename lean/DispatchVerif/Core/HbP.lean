/-! C05 calibration: the happens-before skeleton used for the visibility half. Traces are lists of
    annotated atomic accesses in the order the interleaving model executes them; reads-from is "latest
    earlier write to the location"; synchronises-with follows the C11/C++20 definition with release
    sequences continued by read-modify-writes only. The one general lemma: on a location that is
    only ever modified by RMWs in between, every release write synchronises with every later
    acquire read. What remains per hand-off edge is a finite check of the generated memory-order
    table (which op is the release, which the acquire, that the location is RMW-only). -/
namespace HbP

inductive Ord | rlx | acq | rel | acqrel | seqcst
deriving DecidableEq, Repr

def Ord.isAcq : Ord → Bool
  | .acq | .acqrel | .seqcst => true
  | _ => false
def Ord.isRel : Ord → Bool
  | .rel | .acqrel | .seqcst => true
  | _ => false

structure Ev where
  tid : Nat
  loc : Nat
  rd : Bool        -- reads the location (load or RMW)
  wr : Bool        -- writes the location (store or RMW)
  ord : Ord
deriving DecidableEq, Repr

abbrev Trace := List Ev

def isRMW (e : Ev) : Bool := e.rd && e.wr

/-- program order: earlier in the trace, same thread -/
def po (tr : Trace) (i j : Nat) : Prop :=
  i < j ∧ ∃ a b, tr[i]? = some a ∧ tr[j]? = some b ∧ a.tid = b.tid

/-- k is the write that the read at j takes its value from: the latest write to the location before j -/
def rf (tr : Trace) (k j : Nat) : Prop :=
  k < j ∧ ∃ w r, tr[k]? = some w ∧ tr[j]? = some r ∧ w.wr = true ∧ r.rd = true ∧ w.loc = r.loc ∧
    ∀ m, k < m → m < j → ∀ e, tr[m]? = some e → e.loc = r.loc → e.wr = false

/-- k belongs to the release sequence headed by the write at i: every write to the location in
    (i, k] is a read-modify-write -/
def inRelSeq (tr : Trace) (i k : Nat) : Prop :=
  i ≤ k ∧ ∃ h, tr[i]? = some h ∧ h.wr = true ∧
    ∀ m, i < m → m ≤ k → ∀ e, tr[m]? = some e → e.loc = h.loc → e.wr = true → e.rd = true

/-- synchronises-with -/
def sw (tr : Trace) (i j : Nat) : Prop :=
  ∃ h r k, tr[i]? = some h ∧ tr[j]? = some r ∧ h.wr = true ∧ h.ord.isRel = true ∧
    r.rd = true ∧ r.ord.isAcq = true ∧ h.loc = r.loc ∧ inRelSeq tr i k ∧ rf tr k j

inductive hb (tr : Trace) : Nat → Nat → Prop
  | po {i j} : po tr i j → hb tr i j
  | sw {i j} : sw tr i j → hb tr i j
  | trans {i j k} : hb tr i j → hb tr j k → hb tr i k

/-- the latest write to `loc` strictly before position j, at or after position i -/
theorem exists_last_write (tr : Trace) (loc : Nat) : ∀ (j i : Nat) (h : Ev), i < j → tr[i]? = some h → h.wr = true → h.loc = loc →
    ∃ k w, i ≤ k ∧ k < j ∧ tr[k]? = some w ∧ w.wr = true ∧ w.loc = loc ∧
      ∀ m, k < m → m < j → ∀ e, tr[m]? = some e → e.loc = loc → e.wr = false := by
  intro j
  induction j with
  | zero => intro i h hi; omega
  | succ j ih =>
    intro i h hi hh hw hl
    -- look at position j
    by_cases hij : i = j
    · subst hij
      exact ⟨i, h, Nat.le_refl _, by omega, hh, hw, hl, by intro m h1 h2; omega⟩
    · have hlt : i < j := by omega
      cases hj : tr[j]? with
      | none =>
        obtain ⟨k, w, h1, h2, h3, h4, h5, h6⟩ := ih i h hlt hh hw hl
        refine ⟨k, w, h1, by omega, h3, h4, h5, ?_⟩
        intro m hm1 hm2 e he hel
        by_cases e1 : m = j
        · subst e1; rw [hj] at he; cases he
        · exact h6 m hm1 (by omega) e he hel
      | some ej =>
        by_cases hwj : ej.wr = true ∧ ej.loc = loc
        · exact ⟨j, ej, by omega, by omega, hj, hwj.1, hwj.2, by intro m h1 h2; omega⟩
        · obtain ⟨k, w, h1, h2, h3, h4, h5, h6⟩ := ih i h hlt hh hw hl
          refine ⟨k, w, h1, by omega, h3, h4, h5, ?_⟩
          intro m hm1 hm2 e he hel
          by_cases e1 : m = j
          · subst e1; rw [hj] at he; cases he
            cases hwe : ej.wr with
            | false => rfl
            | true => exact absurd ⟨hwe, hel⟩ hwj
          · exact h6 m hm1 (by omega) e he hel

/-- **RMW-only locations never break a release sequence**: if every write to the location between
    a release write at i and an acquire read at j is a read-modify-write, then i synchronises with j. -/
theorem rmw_only_sync (tr : Trace) (i j : Nat) (h r : Ev) (hij : i < j)
    (hi : tr[i]? = some h) (hj : tr[j]? = some r) (hw : h.wr = true) (hrel : h.ord.isRel = true)
    (hr : r.rd = true) (hacq : r.ord.isAcq = true) (hloc : h.loc = r.loc)
    (hrmw : ∀ m, i < m → m < j → ∀ e, tr[m]? = some e → e.loc = h.loc → e.wr = true → e.rd = true) :
    sw tr i j := by
  obtain ⟨k, w, h1, h2, h3, h4, h5, h6⟩ := exists_last_write tr r.loc j i h hij hi hw hloc
  refine ⟨h, r, k, hi, hj, hw, hrel, hr, hacq, hloc, ⟨h1, h, hi, hw, ?_⟩, ⟨h2, w, r, h3, hj, h4, hr, h5, h6⟩⟩
  intro m hm1 hm2 e he hel hwe
  exact hrmw m hm1 (by omega) e he hel hwe

/-- **Hand-off**: what the producer did before its release (event a, same thread, earlier) happens
    before what the consumer does after its acquire (event b). -/
theorem handoff (tr : Trace) (a i j b : Nat) (hai : po tr a i) (hjb : po tr j b) (hs : sw tr i j) : hb tr a b :=
  hb.trans (hb.trans (hb.po hai) (hb.sw hs)) (hb.po hjb)

/-! a concrete instance: unlock (release RMW on dq_state) … enqueue by a third thread (relaxed RMW) …
    lock (acquire RMW): the payload write of thread 1 happens before the payload read of thread 2 -/
def demo : Trace :=
  [ ⟨1, 100, false, true, .rlx⟩,      -- 0: T1 writes payload (plain)
    ⟨1, 7, true, true, .rel⟩,         -- 1: T1 drain_try_unlock: release RMW on dq_state
    ⟨3, 7, true, true, .rlx⟩,         -- 2: T3 sets DIRTY / ENQUEUED: relaxed RMW on dq_state
    ⟨2, 7, true, true, .acq⟩,         -- 3: T2 drain_try_lock: acquire RMW on dq_state
    ⟨2, 100, true, false, .rlx⟩ ]     -- 4: T2 reads payload

example : hb demo 0 4 := by
  apply handoff demo 0 1 3 4
  · exact ⟨by decide, _, _, rfl, rfl, rfl⟩
  · exact ⟨by decide, _, _, rfl, rfl, rfl⟩
  · apply rmw_only_sync demo 1 3 _ _ (by decide) rfl rfl rfl rfl rfl rfl rfl
    intro m h1 h2 e he _ _
    have : m = 2 := by omega
    subst this; simp [demo] at he; subst he; rfl

end HbP

section audit
#print axioms HbP.rmw_only_sync
end audit
