import DispatchVerif.Core.GroupPB
namespace GroupP

theorem resp_mono {sh sh' : Sh} (hW : sh.w.Wt = true → sh'.w.Wt = true)
    (hg : ∀ u, u ∈ sh.goodL → u ∈ sh'.goodL) (hw : ∀ u, u ∈ sh.ww → u ∈ sh'.ww) : Resp sh → Resp sh' := by
  intro r
  rcases r with ⟨h1, h2⟩ | h2
  · left; refine ⟨hW h1, ?_⟩
    cases hl : sh.goodL with
    | nil => exact absurd hl h2
    | cons a l => intro e; have := hg a (by simp [hl]); rw [e] at this; simp at this
  · right
    cases hl : sh.ww with
    | nil => exact absurd hl h2
    | cons a l => intro e; have := hw a (by simp [hl]); rw [e] at this; simp at this

theorem post_keep {sh sh' : Sh} {t : Tid} {pc pc' : Pc} (l : L3 sh t pc)
    (hw : sh'.w.gen = sh.w.gen ∧ sh'.w.Wt = sh.w.Wt ∧ sh'.w.count = sh.w.count)
    (hs : sh'.sleepers = sh.sleepers) (hg : sh'.goodL = sh.goodL) (hww : sh'.ww = sh.ww) (hwk : sh'.woken = sh.woken)
    (h1 : waitG pc' = waitG pc) (h2 : isSlp pc' = isSlp pc) (h3 : isGood pc' = isGood pc) (h4 : isWW pc' = isWW pc)
    (h5 : retG pc' = none) : Post3 sh sh' t pc' :=
  have k := keep3 (t := t) hw hs hg hww hwk
  ⟨L3_same (k.2 _ l) h1 h2 h3 h4 h5, k.1⟩

set_option maxHeartbeats 4000000 in
theorem step_local3 {sh : Sh} {t : Tid} {pc : Pc} {op : Op} {sh' : Sh} {pc' : Pc}
    (l : L3 sh t pc) (h : (sh', pc') ∈ step sh t pc op) : Post3 sh sh' t pc' := by
  have lwl := l.wl; have lsl := l.sl; have lgl := l.gl; have lww := l.wwm
  cases pc with
  | idle =>
    simp [isSlp, isGood, isWW] at lsl lgl lww
    cases op with
    | enter =>
      simp [step] at h; obtain ⟨rfl, rfl⟩ := h
      refine ⟨⟨by intro g hg; simp [waitG] at hg, (by simp [isSlp] <;> exact lsl), by intro g hs; simp [isSlp] at hs,
        by simp [isGood, lgl], by simp [isWW, lww], by intro g hg; simp [retG] at hg⟩,
        others3 (Nat.le_refl _) (by intro _ h1 h2; exact ⟨h1, by simp <;> omega⟩) (by intro u _; rfl) (by intro u _; rfl)
          (by intro u _; rfl) (fun r => Or.inl r) (by intro hne; simp at hne) (by intro u _ hm; exact hm)⟩
    | leave =>
      simp only [step] at h
      split at h
      · simp at h
      · rename_i h0
        split at h
        · rename_i h1
          simp at h; obtain ⟨rfl, rfl⟩ := h
          refine ⟨⟨by intro g hg; simp [waitG] at hg, (by simp [isSlp] <;> exact lsl), by intro g hs; simp [isSlp] at hs,
            ?_, by simp [isWW, lww], by intro g hg; simp [retG] at hg⟩,
            others3 (by simp) (by intro hne; simp at hne) (by intro u _; rfl) ?_ (by intro u _; rfl) ?_ ?_ (by intro u _ hm; exact hm)⟩
          · simp only [isGood]; split <;> simp_all
          · intro u hu; dsimp only; split <;> simp [hu]
          · intro r; left
            refine resp_mono (by simp) ?_ (by intro u hm; exact hm) r
            intro u hm; dsimp only; split <;> simp [hm]
          · intro _ hW _; left
            have : good { sh.w with count := 0, gen := sh.w.gen + 1 } = true := by simp [good, hW]
            exact ⟨hW, by simp [this]⟩
        · simp at h; obtain ⟨rfl, rfl⟩ := h
          refine ⟨⟨by intro g hg; simp [waitG] at hg, (by simp [isSlp] <;> exact lsl), by intro g hs; simp [isSlp] at hs,
            by simp [isGood, lgl], by simp [isWW, lww], by intro g hg; simp [retG] at hg⟩,
            others3 (Nat.le_refl _) (by intro _ h1 h2; exact ⟨h1, by simp <;> omega⟩) (by intro u _; rfl) (by intro u _; rfl)
              (by intro u _; rfl) (fun r => Or.inl r) (by intro hne; simp at hne) (by intro u _ hm; exact hm)⟩
    | notify =>
      simp [step] at h; obtain ⟨rfl, rfl⟩ := h
      exact post_keep l ⟨rfl, rfl, rfl⟩ rfl rfl rfl rfl rfl rfl rfl rfl rfl
    | wait =>
      simp only [step] at h
      split at h
      · simp at h; obtain ⟨rfl, rfl⟩ := h
        exact post_keep l ⟨rfl, rfl, rfl⟩ rfl rfl rfl rfl rfl rfl rfl rfl rfl
      · rename_i hc
        simp at h; obtain ⟨rfl, rfl⟩ := h
        refine ⟨⟨?_, (by simp [isSlp] <;> exact lsl), by intro g hs; simp [isSlp] at hs,
          by simp [isGood, lgl], by simp [isWW, lww], by intro g hg; simp [retG] at hg⟩,
          others3 (Nat.le_refl _) (by intro _ _ h2; exact ⟨rfl, h2⟩) (by intro u _; rfl) (by intro u _; rfl)
            (by intro u _; rfl) (fun r => Or.inl (by rcases r with ⟨_, h2⟩ | h2; exact Or.inl ⟨rfl, h2⟩; exact Or.inr h2))
            (by intro hne; simp at hne) (by intro u _ hm; exact hm)⟩
        intro g hg; simp [waitG] at hg; subst hg
        exact ⟨Nat.le_refl _, fun _ => ⟨rfl, by simp; omega⟩⟩
  | leave2 old =>
    simp [isSlp, isGood, isWW] at lsl lgl lww
    simp only [step] at h
    split at h
    · rename_i hbr
      have hna := (cleared_iff old).mp hbr
      have hN : old.N = false := by simp [armed] at hna; exact hna.1
      simp at h; obtain ⟨rfl, rfl⟩ := h
      refine ⟨⟨by intro g hg; simp [waitG] at hg, (by simp [isSlp] <;> exact lsl), by intro g hs; simp [isSlp] at hs,
        by simp [isGood, mem_rm], ?_, by intro g hg; simp [retG] at hg⟩,
        others3 (Nat.le_refl _) (by intro _ h1 h2; exact ⟨h1, h2⟩) (by intro u _; rfl) (by intro u hu; simp [mem_rm, hu])
          ?_ ?_ (by intro hne; simp at hne) (by intro u _ hm; exact hm)⟩
      · cases hW : old.Wt <;> simp [isWW, hW, lww]
      · intro u hu; dsimp only; split <;> simp [hu]
      · intro r; left
        rcases r with ⟨h1, h2⟩ | h2
        · by_cases hW : old.Wt = true
          · right; simp [hW]
          · have : t ∉ sh.goodL := by
              intro hm; have hg := lgl.mp hm; simp [good, hN] at hg; exact hW hg
            left; exact ⟨h1, by simp only; rw [rm_of_not_mem this]; exact h2⟩
        · right; dsimp only; split
          · simp
          · exact h2
    · rename_i hbr
      split at h
      · rename_i hw
        simp at h; obtain ⟨rfl, rfl⟩ := h
        refine ⟨⟨by intro g hg; simp [waitG] at hg, (by simp [isSlp] <;> exact lsl), by intro g hs; simp [isSlp] at hs,
          by simp [isGood, mem_rm], ?_, by intro g hg; simp [retG] at hg⟩,
          others3 ?_ ?_ (by intro u _; rfl) (by intro u hu; simp [mem_rm, hu]) ?_ ?_ ?_ (by intro u _ hm; exact hm)⟩
        · cases hW : old.Wt <;> simp [isWW, hW, lww]
        · show sh.w.gen ≤ (cleared old).gen; rw [hw]; unfold cleared; split <;> simp
        · intro _ h1 h2
          show (cleared old).Wt = true ∧ 0 < (cleared old).count
          rw [hw] at h1 h2; unfold cleared; split
          · omega
          · exact ⟨h1, h2⟩
        · intro u hu; dsimp only; split <;> simp [hu]
        · intro r; left
          rcases r with ⟨h1, _⟩ | h2
          · right; rw [hw] at h1; simp [h1]
          · right; dsimp only; split
            · simp
            · exact h2
        · intro hne; exfalso; apply hne
          show (cleared old).gen = sh.w.gen; rw [hw]; unfold cleared; split <;> rfl
      · simp at h; obtain ⟨rfl, rfl⟩ := h
        refine ⟨⟨by intro g hg; simp [waitG] at hg, (by simp [isSlp] <;> exact lsl), by intro g hs; simp [isSlp] at hs,
          ?_, by simp [isWW, lww], by intro g hg; simp [retG] at hg⟩,
          others3 (Nat.le_refl _) (by intro _ h1 h2; exact ⟨h1, h2⟩) (by intro u _; rfl) ?_ (by intro u _; rfl) ?_
            (by intro hne; simp at hne) (by intro u _ hm; exact hm)⟩
        · simp only [isGood]; split <;> simp_all [mem_rm]
        · intro u hu; dsimp only; split <;> simp [mem_rm, hu]
        · intro r; left
          rcases r with ⟨h1, _⟩ | h2
          · left; refine ⟨h1, ?_⟩
            have : good sh.w = true := by simp [good, h1]
            simp [this]
          · right; exact h2
  | wake st snap =>
    simp [isSlp, isGood] at lsl lgl
    have hk : ∀ (sh2 : Sh) (pc2 : Pc), sh2.w = sh.w → sh2.sleepers = sh.sleepers → sh2.goodL = sh.goodL → sh2.ww = sh.ww →
        sh2.woken = sh.woken → isWW pc2 = st.Wt → waitG pc2 = none → isSlp pc2 = false → isGood pc2 = false → retG pc2 = none →
        Post3 sh sh2 t pc2 := by
      intro sh2 pc2 e1 e2 e3 e4 e5 e6 e7 e8 e9 e10
      have ⟨k1, k2⟩ := keep3 (sh := sh) (sh' := sh2) (t := t) ⟨by rw [e1], by rw [e1], by rw [e1]⟩ e2 e3 e4 e5
      exact ⟨L3_same (k2 _ l) (by rw [e7]; rfl) (by rw [e8]; rfl) (by rw [e9]; rfl) (by rw [e6]; rfl) e10, k1⟩
    simp only [step] at h
    split at h
    · split at h
      · split at h
        · simp at h
        · simp at h; obtain ⟨rfl, rfl⟩ := h; exact hk _ _ rfl rfl rfl rfl rfl rfl rfl rfl rfl rfl
      · simp at h; obtain ⟨rfl, rfl⟩ := h; exact hk _ _ rfl rfl rfl rfl rfl rfl rfl rfl rfl rfl
      · simp at h; obtain ⟨rfl, rfl⟩ := h; exact hk _ _ rfl rfl rfl rfl rfl rfl rfl rfl rfl rfl
    · simp at h; obtain ⟨rfl, rfl⟩ := h; exact hk _ _ rfl rfl rfl rfl rfl rfl rfl rfl rfl rfl
  | wakeAddr st =>
    simp [isSlp, isGood, isWW] at lsl lgl lww
    simp only [step] at h
    split at h
    · rename_i hW
      simp at h; obtain ⟨rfl, rfl⟩ := h
      refine ⟨⟨by intro g hg; simp [waitG] at hg, (by simp [isSlp] <;> exact lsl), by intro g hs; simp [isSlp] at hs,
        by simp [isGood, lgl], by simp [isWW, mem_rm], by intro g hg; simp [retG] at hg⟩,
        others3 (Nat.le_refl _) (by intro _ h1 h2; exact ⟨h1, h2⟩) (by intro u _; rfl) (by intro u _; rfl)
          (by intro u hu; simp [mem_rm, hu]) (fun _ => Or.inr (by intro u hm; simp [hm])) (by intro hne; simp at hne)
          (by intro u _ hm; simp [hm])⟩
    · rename_i hW
      simp at h; obtain ⟨rfl, rfl⟩ := h
      have hW' : st.Wt = false := by cases h : st.Wt <;> simp_all
      exact post_keep l ⟨rfl, rfl, rfl⟩ rfl rfl rfl rfl rfl rfl rfl (by simp [isWW, hW']) rfl
  | nLinked we =>
    simp only [step] at h
    have hk : ∀ (sh2 : Sh) (pc2 : Pc), sh2.w.gen = sh.w.gen ∧ sh2.w.Wt = sh.w.Wt ∧ sh2.w.count = sh.w.count →
        sh2.sleepers = sh.sleepers → sh2.goodL = sh.goodL → sh2.ww = sh.ww →
        sh2.woken = sh.woken → isWW pc2 = false → waitG pc2 = none → isSlp pc2 = false → isGood pc2 = false → retG pc2 = none →
        Post3 sh sh2 t pc2 := by
      intro sh2 pc2 e1 e2 e3 e4 e5 e6 e7 e8 e9 e10
      have ⟨k1, k2⟩ := keep3 (sh := sh) (sh' := sh2) (t := t) e1 e2 e3 e4 e5
      exact ⟨L3_same (k2 _ l) (by rw [e7]; rfl) (by rw [e8]; rfl) (by rw [e9]; rfl) (by rw [e6]; rfl) e10, k1⟩
    split at h
    · simp at h; obtain ⟨rfl, rfl⟩ := h; exact hk _ _ ⟨rfl, rfl, rfl⟩ rfl rfl rfl rfl rfl rfl rfl rfl rfl
    · split at h
      · rename_i hgu
        simp at h; obtain ⟨rfl, rfl⟩ := h
        exact hk _ _ ⟨rfl, rfl, rfl⟩ rfl rfl rfl rfl (by simp [isWW, hgu.2.2]) rfl rfl rfl rfl
      · simp at h; obtain ⟨rfl, rfl⟩ := h; exact hk _ _ ⟨rfl, rfl, rfl⟩ rfl rfl rfl rfl rfl rfl rfl rfl rfl
  | wSlow g0 gg =>
    simp [isSlp, isGood, isWW] at lsl lgl lww
    have ⟨hle, hcur⟩ := lwl gg rfl
    simp only [step] at h
    split at h
    · rename_i hne
      simp at h; obtain ⟨rfl, rfl⟩ := h
      refine ⟨⟨by intro g hg; simp [waitG] at hg, (by simp [isSlp] <;> exact lsl), by intro g hs; simp [isSlp] at hs,
        by simp [isGood, lgl], by simp [isWW, lww], ?_⟩, (keep3 (t := t) ⟨rfl, rfl, rfl⟩ rfl rfl rfl rfl).1⟩
      intro g hg; simp [retG] at hg; subst hg; omega
    · rename_i he
      have he' : sh.w.gen = gg := by omega
      simp at h; obtain ⟨rfl, rfl⟩ := h
      refine ⟨⟨fun g hg => by simp [waitG] at hg; subst hg; exact ⟨hle, hcur⟩, by simp [isSlp],
        by intro g _ hg _ hne; simp [waitG] at hg; subst hg; exact absurd he' hne,
        by simp [isGood, lgl], by simp [isWW, lww], by intro g hg; simp [retG] at hg⟩,
        others3 (Nat.le_refl _) (by intro _ h1 h2; exact ⟨h1, h2⟩) (by intro u hu; simp [hu]) (by intro u _; rfl)
          (by intro u _; rfl) (fun r => Or.inl r) (by intro hne; simp at hne) (by intro u _ hm; exact hm)⟩
  | wSleep g0 gg =>
    simp [isSlp, isGood, isWW] at lsl lgl lww
    have ⟨hle, hcur⟩ := lwl gg rfl
    have oth : ∀ t' q, t' ≠ t → L3 sh t' q →
        L3 { sh with woken := rm sh.woken t, sleepers := rm sh.sleepers t } t' q :=
      others3 (Nat.le_refl _) (by intro _ h1 h2; exact ⟨h1, h2⟩) (by intro u hu; simp [mem_rm, hu]) (by intro u _; rfl)
        (by intro u _; rfl) (fun r => Or.inl r) (by intro hne; simp at hne) (by intro u hu hm; simp [mem_rm, hm, hu])
    simp only [step, List.mem_append] at h
    rcases h with h | h
    · simp at h; obtain ⟨rfl, rfl⟩ := h
      exact ⟨⟨fun g hg => by simp [waitG] at hg; subst hg; exact ⟨hle, hcur⟩, by simp [isSlp, mem_rm],
        by intro g hs; simp [isSlp] at hs, by simp [isGood, lgl], by simp [isWW, lww], by intro g hg; simp [retG] at hg⟩, oth⟩
    · simp at h; obtain ⟨rfl, rfl⟩ := h
      by_cases hne : sh.w.gen = gg
      · simp only [hne, ne_eq, not_true_eq_false, if_false]
        exact ⟨⟨by intro g hg; simp [waitG] at hg, by simp [isSlp, mem_rm], by intro g hs; simp [isSlp] at hs,
          by simp [isGood, lgl], by simp [isWW, lww], by intro g hg; simp [retG] at hg⟩, oth⟩
      · simp only [hne, ne_eq, not_false_eq_true, if_true]
        refine ⟨⟨by intro g hg; simp [waitG] at hg, by simp [isSlp, mem_rm], by intro g hs; simp [isSlp] at hs,
          by simp [isGood, lgl], by simp [isWW, lww], ?_⟩, oth⟩
        intro g hg; simp [retG] at hg; subst hg; show gg < sh.w.gen; omega
  | wRet ok sl =>
    simp [step] at h; obtain ⟨rfl, rfl⟩ := h
    simp [isSlp, isGood, isWW] at lsl lgl lww
    exact ⟨⟨by intro g hg; simp [waitG] at hg, (by simp [isSlp] <;> exact lsl), by intro g hs; simp [isSlp] at hs,
      by simp [isGood, lgl], by simp [isWW, lww], by intro g hg; simp [retG] at hg⟩,
      (keep3 (t := t) ⟨rfl, rfl, rfl⟩ rfl rfl rfl rfl).1⟩

end GroupP
