/-! C13 calibration: dispatch_data representation model (leaf / composite of range records),
    create_concat / create_subrange as in data.c, denotation to a byte list. -/
namespace DataP

abbrev Byte := UInt8

structure Leaf where
  id : Nat
  bytes : List Byte
deriving DecidableEq

/-- range_record: `length` bytes of `data_object` starting at `from` -/
structure Rec where
  leaf : Leaf
  «from» : Nat
  len : Nat
deriving DecidableEq

inductive Data
  | leaf (l : Leaf)
  | comp (recs : List Rec) (size : Nat)
deriving DecidableEq

def empty : Data := .leaf ⟨0, []⟩

def Data.size : Data → Nat
  | .leaf l => l.bytes.length
  | .comp _ s => s

def seg (r : Rec) : List Byte := (r.leaf.bytes.drop r.from).take r.len

def denR : List Rec → List Byte
  | [] => []
  | r :: rs => seg r ++ denR rs

def Data.den : Data → List Byte
  | .leaf l => l.bytes
  | .comp rs _ => denR rs

def sumLen : List Rec → Nat
  | [] => 0
  | r :: rs => r.len + sumLen rs

def RecWF (r : Rec) : Prop := 0 < r.len ∧ r.from + r.len ≤ r.leaf.bytes.length

def RecsWF : List Rec → Prop
  | [] => True
  | r :: rs => RecWF r ∧ RecsWF rs

def Data.WF : Data → Prop
  | .leaf _ => True
  | .comp rs s => rs ≠ [] ∧ RecsWF rs ∧ s = sumLen rs

/-- the records a data object contributes to a concatenation -/
def Data.recs : Data → List Rec
  | .leaf l => [⟨l, 0, l.bytes.length⟩]
  | .comp rs _ => rs

/-- dispatch_data_create_concat -/
def concat (d1 d2 : Data) : Data :=
  if d1.size = 0 then d2
  else if d2.size = 0 then d1
  else .comp (d1.recs ++ d2.recs) (d1.size + d2.size)

/-- subrange of a leaf (also the target of the single-record recursion) -/
def subLeaf (l : Leaf) (off len : Nat) : Data :=
  if off ≥ l.bytes.length ∨ len = 0 then empty
  else
    let len := if len > l.bytes.length - off then l.bytes.length - off else len
    if len = l.bytes.length then .leaf l
    else .comp [⟨l, off, len⟩] len

/-- `while (i < n && offset >= records[i].length) offset -= records[i++].length;` -/
def skip : List Rec → Nat → List Rec × Nat
  | [], off => ([], off)
  | r :: rs, off => if off ≥ r.len then skip rs (off - r.len) else (r :: rs, off)

/-- the `last_length` loop: keep records until `ll` is covered; none = the INTERNAL_CRASH -/
def takeEnd : List Rec → Nat → Option (List Rec)
  | [], _ => none
  | r :: rs, ll => if ll ≤ r.len then some [{ r with len := ll }]
                   else (takeEnd rs (ll - r.len)).map (r :: ·)

/-- the body of dispatch_data_create_subrange after the argument checks -/
def subrangeCore (d : Data) (off len : Nat) : Option Data :=
  match d with
  | .leaf l => some (.comp [⟨l, off, len⟩] len)
  | .comp rs size =>
    match skip rs off with
    | ([], _) => none
    | (r :: rest, o) =>
      if o + len ≤ r.len then some (subLeaf r.leaf (r.from + o) len)
      else
        let first : Rec := { r with «from» := r.from + o, len := r.len - o }
        if off + len = size then some (.comp (first :: rest) len)      -- to_the_end
        else
          match takeEnd rest (len - (r.len - o)) with
          | none => none   -- (real code: count = 1 and that record is truncated; unreachable when WF)
          | some tl => some (.comp (first :: tl) len)

/-- dispatch_data_create_subrange; none = DISPATCH_INTERNAL_CRASH -/
def subrange (d : Data) (off len : Nat) : Option Data :=
  if off ≥ d.size ∨ len = 0 then some empty
  else if len > d.size - off then subrangeCore d off (d.size - off)
  else if len = d.size then some d
  else subrangeCore d off len

/-! ### lemmas -/

@[simp] theorem den_comp (rs : List Rec) (s : Nat) : (Data.comp rs s).den = denR rs := rfl
@[simp] theorem den_leaf (l : Leaf) : (Data.leaf l).den = l.bytes := rfl
@[simp] theorem size_comp (rs : List Rec) (s : Nat) : (Data.comp rs s).size = s := rfl
@[simp] theorem size_leaf (l : Leaf) : (Data.leaf l).size = l.bytes.length := rfl
@[simp] theorem den_empty : empty.den = [] := rfl
@[simp] theorem size_empty : empty.size = 0 := rfl


theorem seg_length {r : Rec} (h : RecWF r) : (seg r).length = r.len := by
  unfold seg; simp [List.length_take, List.length_drop]; have := h.2; omega

theorem denR_length {rs : List Rec} (h : RecsWF rs) : (denR rs).length = sumLen rs := by
  induction rs with
  | nil => rfl
  | cons r rs ih => simp [denR, sumLen, seg_length h.1, ih h.2]

theorem denR_append (a b : List Rec) : denR (a ++ b) = denR a ++ denR b := by
  induction a with
  | nil => rfl
  | cons r a ih => simp [denR, ih]

theorem recsWF_append {a b : List Rec} (ha : RecsWF a) (hb : RecsWF b) : RecsWF (a ++ b) := by
  induction a with
  | nil => exact hb
  | cons r a ih => exact ⟨ha.1, ih ha.2⟩

theorem sumLen_append (a b : List Rec) : sumLen (a ++ b) = sumLen a + sumLen b := by
  induction a with
  | nil => simp [sumLen]
  | cons r a ih => simp [sumLen, ih]; omega

theorem size_eq_den_length {d : Data} (h : d.WF) : d.size = d.den.length := by
  cases d with
  | leaf l => rfl
  | comp rs s => simp [Data.size, Data.den, denR_length h.2.1, h.2.2]

theorem recs_den (d : Data) : denR d.recs = d.den := by
  cases d with
  | leaf l => simp [Data.recs, denR, seg, Data.den]
  | comp rs s => rfl

theorem recs_wf {d : Data} (h : d.WF) (hs : d.size ≠ 0) : RecsWF d.recs ∧ d.recs ≠ [] ∧ sumLen d.recs = d.size := by
  cases d with
  | leaf l =>
    simp [Data.size] at hs
    simp [Data.recs, RecsWF, RecWF, sumLen, Data.size]
    exact List.length_pos_iff.mpr hs
  | comp rs s => exact ⟨h.2.1, h.1, h.2.2.symm⟩

theorem den_nil_of_size_zero {d : Data} (h : d.WF) (hs : d.size = 0) : d.den = [] := by
  have := size_eq_den_length h
  exact List.length_eq_zero_iff.mp (by omega)

/-- **concat** denotes list append and keeps the representation well formed. -/
theorem concat_den (d1 d2 : Data) (h1 : d1.WF) (h2 : d2.WF) :
    (concat d1 d2).den = d1.den ++ d2.den ∧ (concat d1 d2).WF ∧ (concat d1 d2).size = d1.size + d2.size := by
  unfold concat
  split
  · rename_i h
    simp [den_nil_of_size_zero h1 h, h, h2]
  · split
    · rename_i _ h
      simp [den_nil_of_size_zero h2 h, h, h1]
    · rename_i ha hb
      have ⟨w1, n1, s1⟩ := recs_wf h1 ha
      have ⟨w2, n2, s2⟩ := recs_wf h2 hb
      refine ⟨?_, ⟨?_, recsWF_append w1 w2, ?_⟩, rfl⟩
      · simp [Data.den, denR_append, recs_den]
      · simp [n1]
      · rw [sumLen_append, s1, s2]

theorem skip_spec {rs : List Rec} (h : RecsWF rs) {off : Nat} (ho : off < sumLen rs) :
    ∃ r rest o, skip rs off = (r :: rest, o) ∧ o < r.len ∧ RecsWF (r :: rest) ∧
      (denR rs).drop off = (denR (r :: rest)).drop o ∧ sumLen (r :: rest) + off = sumLen rs + o := by
  induction rs generalizing off with
  | nil => simp [sumLen] at ho
  | cons a rs ih =>
    unfold skip
    split
    · rename_i hge
      have ho' : off - a.len < sumLen rs := by simp [sumLen] at ho; omega
      obtain ⟨r, rest, o, e, h1, h2, h3, h4⟩ := ih h.2 ho'
      refine ⟨r, rest, o, e, h1, h2, ?_, ?_⟩
      · rw [← h3]; simp only [denR]
        rw [List.drop_append, seg_length h.1]
        have : (seg a).drop off = [] := List.drop_eq_nil_of_le (by rw [seg_length h.1]; exact hge)
        simp [this]
      · simp [sumLen] at h4 ⊢; omega
    · rename_i hlt
      exact ⟨a, rs, off, rfl, by omega, h, rfl, rfl⟩

theorem seg_first {r : Rec} (h : RecWF r) {o : Nat} (ho : o < r.len) :
    seg { r with «from» := r.from + o, len := r.len - o } = (seg r).drop o ∧
    RecWF { r with «from» := r.from + o, len := r.len - o } := by
  constructor
  · simp only [seg]; rw [List.drop_take, List.drop_drop]
  · have := h.2; exact ⟨by simp; omega, by simp; omega⟩

theorem seg_trunc {r : Rec} (h : RecWF r) {ll : Nat} (h0 : 0 < ll) (hl : ll ≤ r.len) :
    seg { r with len := ll } = (seg r).take ll ∧ RecWF { r with len := ll } := by
  constructor
  · simp only [seg]; rw [List.take_take]; congr 1; omega
  · have := h.2; exact ⟨h0, by simp; omega⟩

theorem takeEnd_spec {rs : List Rec} (h : RecsWF rs) {ll : Nat} (h0 : 0 < ll) (hl : ll ≤ sumLen rs) :
    ∃ tl, takeEnd rs ll = some tl ∧ denR tl = (denR rs).take ll ∧ RecsWF tl ∧ sumLen tl = ll := by
  induction rs generalizing ll with
  | nil => simp [sumLen] at hl; omega
  | cons a rs ih =>
    unfold takeEnd
    split
    · rename_i hle
      have ⟨e, w⟩ := seg_trunc h.1 h0 hle
      refine ⟨_, rfl, ?_, ⟨w, trivial⟩, by simp [sumLen]⟩
      simp only [denR, List.append_nil, e]
      rw [List.take_append_of_le_length (by rw [seg_length h.1]; exact hle)]
    · rename_i hgt
      have hl' : ll - a.len ≤ sumLen rs := by simp [sumLen] at hl; omega
      obtain ⟨tl, e, h1, h2, h3⟩ := ih h.2 (by omega) hl'
      refine ⟨a :: tl, by simp [e], ?_, ⟨h.1, h2⟩, by simp [sumLen, h3]; omega⟩
      simp only [denR, h1]
      rw [List.take_append, seg_length h.1]
      have : (seg a).take ll = seg a := List.take_of_length_le (by rw [seg_length h.1]; omega)
      rw [this]

theorem subLeaf_spec (l : Leaf) (off len : Nat) :
    (subLeaf l off len).den = (l.bytes.drop off).take len ∧ (subLeaf l off len).WF ∧
    (subLeaf l off len).size = min len (l.bytes.length - off) := by
  unfold subLeaf
  split
  · rename_i h
    rcases h with h | h
    · simp [empty, Data.den, Data.WF, Data.size, List.drop_eq_nil_of_le h]; omega
    · simp [empty, Data.den, Data.WF, Data.size, h]
  · rename_i h
    have h1 : off < l.bytes.length := by omega
    have h2 : 0 < len := by omega
    simp only []
    split
    · rename_i hc
      split
      · rename_i he
        have : off = 0 := by omega
        subst this
        simp [Data.den, Data.WF, Data.size]
        constructor
        · rw [List.take_of_length_le (by omega)]
        · omega
      · refine ⟨?_, ⟨by simp, ⟨⟨by simp; omega, by simp; omega⟩, trivial⟩, by simp [sumLen]⟩, by simp [Data.size]; omega⟩
        simp [Data.den, denR, seg]
        omega
    · rename_i hc
      split
      · rename_i he
        have : off = 0 := by omega
        subst this
        simp [Data.den, Data.WF, Data.size]
        constructor
        · rw [List.take_of_length_le (by omega)]
        · omega
      · refine ⟨?_, ⟨by simp, ⟨⟨by simp; omega, by simp; omega⟩, trivial⟩, by simp [sumLen]⟩, by simp [Data.size]; omega⟩
        simp [Data.den, denR, seg]

theorem core_spec {d : Data} (h : d.WF) {off len : Nat} (h1 : off < d.size) (h2 : 0 < len)
    (h3 : off + len ≤ d.size) :
    ∃ d', subrangeCore d off len = some d' ∧ d'.den = (d.den.drop off).take len ∧ d'.WF ∧ d'.size = len := by
  cases d with
  | leaf l =>
    simp only [size_leaf, size_comp] at h1 h3
    refine ⟨_, rfl, ?_, ⟨by simp, ⟨⟨by simpa using h2, by simpa using h3⟩, trivial⟩, by simp [sumLen]⟩, rfl⟩
    simp [denR, seg]
  | comp rs size =>
    obtain ⟨hne, hw, hs⟩ := h
    simp only [size_leaf, size_comp] at h1 h3
    subst hs
    obtain ⟨r, rest, o, e, ho, hw', hd, hsum⟩ := skip_spec hw h1
    have hr := hw'.1
    have hsl := seg_length hr
    simp only [subrangeCore, e, den_comp]
    rw [hd]
    simp only [denR]
    have hdrop : (seg r ++ denR rest).drop o = (seg r).drop o ++ denR rest := by
      rw [List.drop_append_of_le_length (by omega)]
    rw [hdrop]
    have ⟨hf, hfw⟩ := seg_first hr ho
    split
    · -- everything from one record
      rename_i hone
      have ⟨s1, s2, s3⟩ := subLeaf_spec r.leaf (r.from + o) len
      refine ⟨_, rfl, ?_, s2, ?_⟩
      · rw [s1, List.take_append_of_le_length (by simp [hsl]; omega)]
        simp only [seg]; rw [List.drop_take, List.drop_drop, List.take_take]
        congr 1; omega
      · rw [s3]; have := hr.2; omega
    · rename_i hmany
      split
      · -- to the end
        rename_i hend
        have hlen : len = (r.len - o) + sumLen rest := by simp [sumLen] at hsum; omega
        refine ⟨_, rfl, ?_, ⟨by simp, ⟨hfw, hw'.2⟩, by simp [sumLen]; omega⟩, rfl⟩
        simp only [den_comp, denR, hf]
        rw [List.take_of_length_le]
        simp [hsl, denR_length hw'.2]; omega
      · rename_i hnend
        have hll0 : 0 < len - (r.len - o) := by omega
        have hll : len - (r.len - o) ≤ sumLen rest := by simp [sumLen] at hsum; omega
        obtain ⟨tl, te, t1, t2, t3⟩ := takeEnd_spec hw'.2 hll0 hll
        simp only [te]
        refine ⟨_, rfl, ?_, ⟨by simp, ⟨hfw, t2⟩, by simp [sumLen, t3]; omega⟩, rfl⟩
        simp only [den_comp, denR, hf, t1]
        rw [List.take_append, List.length_drop, hsl]
        have e1 : ((seg r).drop o).take len = (seg r).drop o :=
          List.take_of_length_le (by rw [List.length_drop, hsl]; omega)
        rw [e1]

/-- **subrange** denotes `take len (drop off ·)`, never hits the internal crash on a well-formed
    object, keeps the representation well formed, and reports the clamped size. -/
theorem subrange_den {d : Data} (h : d.WF) (off len : Nat) :
    ∃ d', subrange d off len = some d' ∧ d'.den = (d.den.drop off).take len ∧ d'.WF ∧
      d'.size = min len (d.size - off) := by
  have hsz := size_eq_den_length h
  unfold subrange
  split
  · rename_i hc
    refine ⟨_, rfl, ?_, trivial, ?_⟩
    · rcases hc with hc | hc
      · rw [List.drop_eq_nil_of_le (by omega : d.den.length ≤ off)]; simp
      · simp [hc]
    · rcases hc with hc | hc <;> simp <;> omega
  · rename_i hc
    have h1 : off < d.size := by omega
    have h2 : 0 < len := by omega
    split
    · rename_i hcl
      obtain ⟨d', e, e1, e2, e3⟩ := core_spec h h1 (by omega : 0 < d.size - off) (by omega)
      refine ⟨d', e, ?_, e2, by omega⟩
      rw [e1, List.take_of_length_le (by simp; omega), List.take_of_length_le (by simp; omega)]
    · split
      · rename_i hncl heq
        have : off = 0 := by omega
        subst this
        refine ⟨d, rfl, ?_, h, by omega⟩
        simp; rw [List.take_of_length_le (by omega)]
      · rename_i hncl hne
        obtain ⟨d', e, e1, e2, e3⟩ := core_spec h h1 h2 (by omega)
        exact ⟨d', e, e1, e2, by omega⟩

/-! ### dispatch_data_apply: the regions handed to the applier -/

def regionsR : List Rec → Nat → List (Nat × List Byte)
  | [], _ => []
  | r :: rs, off => (off, seg r) :: regionsR rs (off + r.len)

/-- (offset, bytes) of every applier invocation, in order, when the applier keeps returning true -/
def regions : Data → List (Nat × List Byte)
  | .leaf l => if l.bytes.length = 0 then [] else [(0, l.bytes)]
  | .comp [r] s => if s = 0 then [] else [(0, (r.leaf.bytes.drop r.from).take s)]   -- map_direct sees through
  | .comp rs s => if s = 0 then [] else regionsR rs 0

/-- consecutive, non-empty regions starting at offset k -/
def Tiles : Nat → List (Nat × List Byte) → Prop
  | _, [] => True
  | k, (o, b) :: rest => o = k ∧ b ≠ [] ∧ Tiles (k + b.length) rest

def cat : List (Nat × List Byte) → List Byte
  | [] => []
  | (_, b) :: rest => b ++ cat rest

theorem regionsR_spec {rs : List Rec} (h : RecsWF rs) (k : Nat) :
    Tiles k (regionsR rs k) ∧ cat (regionsR rs k) = denR rs := by
  induction rs generalizing k with
  | nil => exact ⟨trivial, rfl⟩
  | cons r rs ih =>
    have hl := seg_length h.1
    have ⟨t, c⟩ := ih h.2 (k + r.len)
    refine ⟨⟨rfl, ?_, by rw [hl]; exact t⟩, by simp [regionsR, cat, denR, c]⟩
    intro e; rw [e] at hl; have := h.1.1; simp at hl; omega

/-- **apply tiles the object**: the regions are consecutive from offset 0, none is empty, and their
    concatenation is the denotation. -/
theorem apply_tiles {d : Data} (h : d.WF) : Tiles 0 (regions d) ∧ cat (regions d) = d.den := by
  cases d with
  | leaf l =>
    simp only [regions]
    split
    · rename_i h0; exact ⟨trivial, by simp [cat, List.length_eq_zero_iff.mp h0]⟩
    · rename_i h0
      exact ⟨⟨rfl, fun e => h0 (by simp [e]), trivial⟩, by simp [cat]⟩
  | comp rs s =>
    obtain ⟨hne, hw, hs⟩ := h
    match rs, hne, hw, hs with
    | [r], _, hw, hs =>
      simp only [regions]
      have hr := hw.1
      have hsr : s = r.len := by simp [sumLen] at hs; exact hs
      have : s ≠ 0 := by have := hr.1; omega
      simp only [this, if_false]
      have hl := seg_length hr
      refine ⟨⟨rfl, ?_, trivial⟩, by simp [cat, denR, seg, hsr]⟩
      intro e; simp only [seg, ← hsr] at hl; rw [e] at hl; simp at hl; omega
    | r1 :: r2 :: rest, _, hw, hs =>
      simp only [regions]
      have : s ≠ 0 := by have := hw.1.1; simp [sumLen] at hs; omega
      simp only [this, if_false]
      exact regionsR_spec hw 0

/-- early stop: the applier is invoked on a prefix of the regions, up to and including the first
    one for which it returns false; the result is whether it ever did -/
def applyStop (f : Nat → List Byte → Bool) : List (Nat × List Byte) → List (Nat × List Byte) × Bool
  | [] => ([], true)
  | (o, b) :: rest => if f o b then ((o, b) :: (applyStop f rest).1, (applyStop f rest).2) else ([(o, b)], false)

theorem applyStop_prefix (f : Nat → List Byte → Bool) (l : List (Nat × List Byte)) :
    (applyStop f l).1 <+: l ∧ ((applyStop f l).2 = true → (applyStop f l).1 = l ∧ ∀ x ∈ l, f x.1 x.2 = true) := by
  induction l with
  | nil => simp [applyStop]
  | cons x l ih =>
    obtain ⟨o, b⟩ := x
    unfold applyStop
    split
    · rename_i hf
      refine ⟨by simpa using ih.1, fun h => ?_⟩
      have := ih.2 h
      refine ⟨by simp [this.1], ?_⟩
      intro y hy; simp at hy; rcases hy with rfl | hy
      · exact hf
      · exact this.2 y hy
    · exact ⟨by simp, fun h => by simp at h⟩

/-! ### dispatch_data_copy_region -/

def findRec : List Rec → Nat → Nat → Option (Rec × Nat)
  | [], _, _ => none       -- DISPATCH_INTERNAL_CRASH
  | r :: rs, offset, loc => if loc ≥ offset + r.len then findRec rs (offset + r.len) loc else some (r, offset)

def regionOf (r : Rec) : Data :=
  if r.from = 0 ∧ r.len = r.leaf.bytes.length then .leaf r.leaf else .comp [r] r.len

def copyRegion (d : Data) (loc : Nat) : Option (Data × Nat) :=
  if loc ≥ d.size then some (empty, d.size) else
  match d with
  | .leaf _ => some (d, 0)
  | .comp [_] _ => some (d, 0)
  | .comp rs _ => (findRec rs 0 loc).map fun p => (regionOf p.1, p.2)

theorem findRec_spec {rs : List Rec} (h : RecsWF rs) (k loc : Nat) (hk : k ≤ loc) (hl : loc < k + sumLen rs) :
    ∃ r o, findRec rs k loc = some (r, o) ∧ RecWF r ∧ o ≤ loc ∧ loc < o + r.len ∧ k ≤ o ∧
      seg r = ((denR rs).drop (o - k)).take r.len := by
  induction rs generalizing k with
  | nil => simp [sumLen] at hl; omega
  | cons a rs ih =>
    have hla := seg_length h.1
    unfold findRec
    split
    · rename_i hge
      obtain ⟨r, o, e, w, h1, h2, h3, h4⟩ := ih h.2 (k + a.len) hge (by simp [sumLen] at hl; omega)
      refine ⟨r, o, e, w, h1, h2, by omega, ?_⟩
      rw [h4]; simp only [denR]
      rw [List.drop_append, hla]
      have : (seg a).drop (o - k) = [] := List.drop_eq_nil_of_le (by rw [hla]; omega)
      rw [this]; simp; congr 2; omega
    · rename_i hlt
      refine ⟨a, k, rfl, h.1, hk, by omega, Nat.le_refl _, ?_⟩
      simp [denR]; rw [List.take_append_of_le_length (by omega), List.take_of_length_le (by omega)]

theorem regionOf_spec {r : Rec} (h : RecWF r) : (regionOf r).den = seg r ∧ (regionOf r).WF ∧ (regionOf r).size = r.len := by
  unfold regionOf
  split
  · rename_i hc
    simp [seg, hc.1, hc.2, Data.WF]
  · exact ⟨by simp [denR], ⟨by simp, ⟨h, trivial⟩, by simp [sumLen]⟩, rfl⟩

/-- **copy_region** returns a well-formed region that contains `location`; `offset` is where the region
    starts in the object and the region's bytes are exactly that slice. -/
theorem copyRegion_spec {d : Data} (h : d.WF) (loc : Nat) :
    ∃ reg off, copyRegion d loc = some (reg, off) ∧ reg.WF ∧
      (loc ≥ d.size → reg = empty ∧ off = d.size) ∧
      (loc < d.size → off ≤ loc ∧ loc < off + reg.size ∧ reg.den = (d.den.drop off).take reg.size) := by
  unfold copyRegion
  split
  · rename_i hge
    exact ⟨_, _, rfl, trivial, fun _ => ⟨rfl, rfl⟩, fun hlt => by omega⟩
  · rename_i hlt
    have hsz := size_eq_den_length h
    have whole : ∃ reg off, some (d, 0) = some (reg, off) ∧ reg.WF ∧
        (loc ≥ d.size → reg = empty ∧ off = d.size) ∧
        (loc < d.size → off ≤ loc ∧ loc < off + reg.size ∧ reg.den = (d.den.drop off).take reg.size) :=
      ⟨d, 0, rfl, h, fun hh => by omega, fun _ => ⟨by omega, by omega, by simp [hsz]⟩⟩
    split
    · exact whole
    · exact whole
    · rename_i rs s hnot
      obtain ⟨hne, hw, hs⟩ := h
      simp only [size_comp] at hlt hsz
      obtain ⟨r, o, e, w, h1, h2, _, h4⟩ := findRec_spec hw 0 loc (by omega) (by omega)
      have ⟨g1, g2, g3⟩ := regionOf_spec w
      refine ⟨regionOf r, o, by simp [e], g2, fun hh => by simp at hh; omega, fun _ => ⟨h1, by omega, ?_⟩⟩
      rw [g1, g3, h4]; simp

end DataP

section audit
open DataP
#print axioms concat_den
#print axioms subrange_den
#print axioms apply_tiles
#print axioms copyRegion_spec
-- non-vacuity: a well-formed three-record object and a subrange spanning records
example : (subrange (.comp [⟨⟨1, [1,2,3]⟩, 1, 2⟩, ⟨⟨2, [4,5]⟩, 0, 2⟩, ⟨⟨3, [6,7,8]⟩, 0, 3⟩] 7) 1 4).map Data.den
    = some [3, 4, 5, 6] := by decide
end audit
