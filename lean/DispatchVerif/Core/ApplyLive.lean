import DispatchVerif.Core.ApplyP
/-! C10, the "and then returns" half: the caller of dispatch_apply cannot be left waiting on `da_event`.
    Two further invariants of the `ApplyP` machine (same `step`, same `Reachable`):
    a thread that has left the fetch loop saw an index ≥ n (so `da_index ≥ n` from then on), and, for n > 0,
    `da_todo = 0` only after some thread took the `!os_atomic_sub2o(da, da_todo, done)` branch, i.e. the event is
    signalled or a thread is at the signalling call. From these and `Inv`: in every reachable state in which the
    caller waits and no other thread is inside `_dispatch_apply_invoke2`, the event has been signalled. -/
namespace ApplyP

/-- program points after the fetch loop of `_dispatch_apply_invoke2` -/
def past : Pc → Bool
  | .sub _ | .signal | .out | .waitEv | .returned => true
  | _ => false

structure L2 (n : Nat) (sh : Sh) (pc : Pc) : Prop where
  pastIdx : past pc = true → n ≤ sh.index
  claimIdx : ∀ i d, pc = .claimed i d → i < sh.index

def Sig (n : Nat) (sh : Sh) : Prop := sh.todo = 0 → 0 < n → (sh.signalled = true ∨ sh.subs ≠ [])

theorem step2 {n : Nat} {c : Tid} {sh : Sh} {t : Tid} {pc : Pc} {sh' : Sh} {pc' : Pc}
    (h : (sh', pc') ∈ step n c sh t pc) (l : L2 n sh pc) (g : Sig n sh) :
    sh.index ≤ sh'.index ∧ L2 n sh' pc' ∧ Sig n sh' := by
  obtain ⟨lp, lc⟩ := l
  cases pc with
  | idle =>
    simp [step] at h; obtain ⟨rfl, rfl⟩ := h
    refine ⟨by simp, ⟨by simp [past], ?_⟩, ?_⟩
    · intro i d e; cases e; simp
    · simpa [Sig] using g
  | claimed idx done =>
    have hi := lc idx done rfl
    simp only [step] at h
    split at h
    · simp at h; obtain ⟨rfl, rfl⟩ := h
      refine ⟨by simp, ⟨by simp [past], by simp⟩, ?_⟩
      simpa [Sig] using g
    · split at h
      · simp at h; obtain ⟨rfl, rfl⟩ := h
        refine ⟨Nat.le_refl _, ⟨fun _ => by omega, ?_⟩, g⟩
        intro i d e; split at e <;> cases e
      · simp at h; obtain ⟨rfl, rfl⟩ := h
        exact ⟨Nat.le_refl _, ⟨fun _ => by omega, by simp⟩, g⟩
  | running idx done =>
    simp [step] at h; obtain ⟨rfl, rfl⟩ := h
    refine ⟨by simp, ⟨by simp [past], by simp⟩, ?_⟩
    simpa [Sig] using g
  | ended done =>
    simp [step] at h; obtain ⟨rfl, rfl⟩ := h
    refine ⟨by simp, ⟨by simp [past], ?_⟩, ?_⟩
    · intro i d e; cases e; simp
    · simpa [Sig] using g
  | sub done =>
    have hp := lp (by simp [past])
    simp only [step] at h
    split at h
    · simp at h; obtain ⟨rfl, rfl⟩ := h
      refine ⟨by simp, ⟨fun _ => by simpa using hp, by simp⟩, ?_⟩
      intro _ _; right; simp
    · simp at h; obtain ⟨rfl, rfl⟩ := h
      refine ⟨by simp, ⟨fun _ => by simpa using hp, ?_⟩, ?_⟩
      · intro i d e; split at e <;> cases e
      · intro hz; simp at hz; omega
  | signal =>
    have hp := lp (by simp [past])
    simp [step] at h; obtain ⟨rfl, rfl⟩ := h
    refine ⟨by simp, ⟨fun _ => by simpa using hp, ?_⟩, ?_⟩
    · intro i d e; split at e <;> cases e
    · intro _ _; left; simp
  | out => simp [step] at h
  | waitEv =>
    have hp := lp (by simp [past])
    simp only [step] at h
    split at h
    · simp at h; obtain ⟨rfl, rfl⟩ := h
      exact ⟨Nat.le_refl _, ⟨fun _ => hp, by simp⟩, g⟩
    · simp at h
  | returned => simp [step] at h

structure Inv2 (n : Nat) (s : St) : Prop where
  l : ∀ t, L2 n s.sh (s.pcs t)
  g : Sig n s.sh

theorem inv2_reachable {n : Nat} {c : Tid} {s : St} (h : Reachable n c s) : Inv2 n s := by
  induction h with
  | init =>
    refine ⟨fun _ => ⟨by simp [past], by simp⟩, ?_⟩
    intro hz hn; simp at hz; omega
  | step _ hs ih =>
    cases hs with
    | mk t sh' pc' h =>
      obtain ⟨hmono, hl, hg⟩ := step2 h (ih.l t) ih.g
      refine ⟨fun t' => ?_, hg⟩
      by_cases e : t' = t
      · subst e; simpa using hl
      · simp only [e, if_false]
        exact ⟨fun hp => Nat.le_trans ((ih.l t').pastIdx hp) hmono,
               fun i d hc => Nat.lt_of_lt_of_le ((ih.l t').claimIdx i d hc) hmono⟩

/-- **The caller is never left waiting**: for n > 0, in every reachable state in which the caller waits for the
    completion event and every other thread is outside `_dispatch_apply_invoke2` (never entered, or left it), the event
    has been signalled — so the caller's wait returns. Any number of helpers, any interleaving. -/
theorem caller_released {n : Nat} {c : Tid} {s : St} (h : Reachable n c s) (hn : 0 < n)
    (hc : s.pcs c = .waitEv) (hq : ∀ t, t ≠ c → s.pcs t = .idle ∨ s.pcs t = .out) :
    s.sh.signalled = true := by
  have i := inv_reachable h
  have i2 := inv2_reachable h
  have hq' : ∀ t, s.pcs t = .idle ∨ s.pcs t = .out ∨ s.pcs t = .waitEv := by
    intro t; by_cases e : t = c
    · subst e; exact Or.inr (Or.inr hc)
    · rcases hq t e with h | h
      · exact Or.inl h
      · exact Or.inr (Or.inl h)
  have hidx : n ≤ s.sh.index := (i2.l c).pastIdx (by rw [hc]; rfl)
  have hheld : s.sh.held = [] := by
    cases hh : s.sh.held with
    | nil => rfl
    | cons x xs =>
      obtain ⟨j, t⟩ := x
      have := ((i.l t).hold j).mp (by rw [hh]; simp)
      obtain ⟨d, hd, _⟩ := this
      rcases hq' t with h | h | h <;> rw [h] at hd <;> cases hd
  have hrun : s.sh.runners = [] := by
    cases hh : s.sh.runners with
    | nil => rfl
    | cons t xs =>
      obtain ⟨j, d, hd⟩ := (i.l t).run.mp (by rw [hh]; simp)
      rcases hq' t with h | h | h <;> rw [h] at hd <;> cases hd
  have hpend : s.sh.pend = [] := by
    cases hh : s.sh.pend with
    | nil => rfl
    | cons t xs =>
      have hcnt := (i.l t).pend
      rw [hh] at hcnt
      have : doneOf (s.pcs t) = 0 := by
        rcases hq' t with h | h | h <;> rw [h] <;> rfl
      simp [this] at hcnt
  have hsubs : s.sh.subs = [] := by
    cases hh : s.sh.subs with
    | nil => rfl
    | cons t xs =>
      have hd := (i.l t).sub.mp (by rw [hh]; simp)
      rcases hq' t with h | h | h <;> rw [h] at hd <;> cases hd
  have hlen := i.g.len
  have hcnt := i.g.cnt
  have htodo := i.g.todo
  rw [hheld] at hlen; rw [hrun] at hcnt; rw [hpend] at htodo
  simp at hlen hcnt htodo
  have hmin : min s.sh.index n = n := Nat.min_eq_right hidx
  have hz : s.sh.todo = 0 := by omega
  rcases i2.g hz hn with h | h
  · exact h
  · exact absurd hsubs h

end ApplyP

namespace ApplyP
/-- one thread takes its (first) enabled step; the state is unchanged when it has none -/
def stepT (n : Nat) (c : Tid) (s : St) (t : Tid) : St :=
  match step n c s.sh t (s.pcs t) with
  | [] => s
  | (sh', pc') :: _ => { sh := sh', pcs := fun t' => if t' = t then pc' else s.pcs t' }

theorem stepT_reachable {n : Nat} {c : Tid} {s : St} (h : Reachable n c s) (t : Tid) : Reachable n c (stepT n c s t) := by
  unfold stepT
  split
  · exact h
  · rename_i sh' pc' _ e
    exact Reachable.step h (Step.mk s t sh' pc' (by rw [e]; simp))

theorem runT_reachable {n : Nat} {c : Tid} {s : St} (h : Reachable n c s) (ts : List Tid) :
    Reachable n c (ts.foldl (stepT n c) s) := by
  induction ts generalizing s with
  | nil => exact h
  | cons t ts ih => exact ih (stepT_reachable h t)

/-- the hypotheses of `caller_released` are met by a reachable state: one iteration, the caller (thread 0) does it alone
    and reaches its wait while a helper (thread 1) came too late and left -/
theorem caller_released_witness :
    ∃ s, Reachable 1 0 s ∧ s.pcs 0 = .waitEv ∧ (∀ t, t ≠ 0 → s.pcs t = .idle ∨ s.pcs t = .out) ∧ s.pcs 1 = .out := by
  refine ⟨[0, 0, 0, 0, 1, 1, 0, 0, 0].foldl (stepT 1 0) { sh := { todo := 1 }, pcs := fun _ => .idle },
    runT_reachable Reachable.init _, by decide, ?_, by decide⟩
  intro t ht
  by_cases h1 : t = 1
  · subst h1; right; decide
  · left; simp [List.foldl, stepT, step, ht, h1]
end ApplyP

namespace ApplyP
/-- only the caller waits for / returns from the event, and the caller never ends at `out` -/
def Role (c : Tid) (t : Tid) (pc : Pc) : Prop :=
  ((pc = .waitEv ∨ pc = .returned) → t = c) ∧ (pc = .out → t ≠ c)

theorem step_role {n : Nat} {c : Tid} {sh : Sh} {t : Tid} {pc : Pc} {sh' : Sh} {pc' : Pc}
    (h : (sh', pc') ∈ step n c sh t pc) (r : Role c t pc) : Role c t pc' := by
  cases pc with
  | idle => simp [step] at h; obtain ⟨_, rfl⟩ := h; simp [Role]
  | claimed idx done =>
    simp only [step] at h
    split at h
    · simp at h; obtain ⟨_, rfl⟩ := h; simp [Role]
    · split at h
      · simp at h; obtain ⟨_, rfl⟩ := h
        by_cases e : t = c <;> simp [Role, e]
      · simp at h; obtain ⟨_, rfl⟩ := h; simp [Role]
  | running idx done => simp [step] at h; obtain ⟨_, rfl⟩ := h; simp [Role]
  | ended done => simp [step] at h; obtain ⟨_, rfl⟩ := h; simp [Role]
  | sub done =>
    simp only [step] at h
    split at h
    · simp at h; obtain ⟨_, rfl⟩ := h; simp [Role]
    · simp at h; obtain ⟨_, rfl⟩ := h
      by_cases e : t = c <;> simp [Role, e]
  | signal =>
    simp [step] at h; obtain ⟨_, rfl⟩ := h
    by_cases e : t = c <;> simp [Role, e]
  | out => simp [step] at h
  | waitEv =>
    simp only [step] at h
    split at h
    · simp at h; obtain ⟨_, rfl⟩ := h
      exact ⟨fun _ => r.1 (Or.inl rfl), by simp⟩
    · simp at h
  | returned => simp [step] at h

theorem role_reachable {n : Nat} {c : Tid} {s : St} (h : Reachable n c s) : ∀ t, Role c t (s.pcs t) := by
  induction h with
  | init => intro t; simp [Role]
  | step _ hs ih =>
    cases hs with
    | mk t sh' pc' h =>
      intro t'
      by_cases e : t' = t
      · subst e; simpa using step_role h (ih t')
      · simpa [e] using ih t'

/-- **No deadlock**: for n > 0, a reachable state in which the caller has entered and no thread that has entered can take a
    step is a state in which the caller has returned. (Threads that never enter are the helpers that never got a thread:
    the apply does not depend on them.) -/
theorem quiescent_returned {n : Nat} {c : Tid} {s : St} (h : Reachable n c s) (hn : 0 < n)
    (hent : s.pcs c ≠ .idle) (hstuck : ∀ t, s.pcs t ≠ .idle → step n c s.sh t (s.pcs t) = []) :
    s.pcs c = .returned := by
  have hr := role_reachable h
  have hshape : ∀ t, s.pcs t = .idle ∨ s.pcs t = .out ∨ s.pcs t = .waitEv ∨ s.pcs t = .returned := by
    intro t
    by_cases hi : s.pcs t = .idle
    · exact Or.inl hi
    · have hs := hstuck t hi
      cases hp : s.pcs t with
      | idle => exact absurd hp hi
      | out => simp
      | waitEv => simp
      | returned => simp
      | claimed i d =>
        rw [hp] at hs; simp only [step] at hs
        split at hs
        · simp at hs
        · split at hs <;> simp at hs
      | running i d => rw [hp] at hs; simp [step] at hs
      | ended d => rw [hp] at hs; simp [step] at hs
      | sub d =>
        rw [hp] at hs; simp only [step] at hs
        split at hs <;> simp at hs
      | signal => rw [hp] at hs; simp [step] at hs
  rcases hshape c with hc | hc | hc | hc
  · exact absurd hc hent
  · exact absurd rfl ((hr c).2 hc)
  · have hq : ∀ t, t ≠ c → s.pcs t = .idle ∨ s.pcs t = .out := by
      intro t ht
      rcases hshape t with h1 | h1 | h1 | h1
      · exact Or.inl h1
      · exact Or.inr h1
      · exact absurd ((hr t).1 (Or.inl h1)) ht
      · exact absurd ((hr t).1 (Or.inr h1)) ht
    have hsig := caller_released h hn hc hq
    have hs := hstuck c hent
    rw [hc] at hs; simp [step, hsig] at hs
  · exact hc
end ApplyP

namespace ApplyP
/-- a thread reaches the subtraction only with a non-zero count -/
def SubPos (pc : Pc) : Prop := ∀ d, pc = .sub d → 0 < d

theorem step_subpos {n : Nat} {c : Tid} {sh : Sh} {t : Tid} {pc : Pc} {sh' : Sh} {pc' : Pc}
    (h : (sh', pc') ∈ step n c sh t pc) : SubPos pc' := by
  intro d e; subst e
  cases pc with
  | idle => simp [step] at h
  | claimed idx done =>
    simp only [step] at h
    split at h
    · simp at h
    · split at h
      · simp at h; obtain ⟨_, h2⟩ := h; split at h2 <;> cases h2
      · simp at h; obtain ⟨_, h2⟩ := h; cases h2; omega
  | running idx done => simp [step] at h
  | ended done => simp [step] at h
  | sub done =>
    simp only [step] at h
    split at h
    · simp at h
    · simp at h; obtain ⟨_, h2⟩ := h; split at h2 <;> cases h2
  | signal => simp [step] at h; obtain ⟨_, h2⟩ := h; split at h2 <;> cases h2
  | out => simp [step] at h
  | waitEv =>
    simp only [step] at h
    split at h <;> simp at h
  | returned => simp [step] at h

theorem subpos_reachable {n : Nat} {c : Tid} {s : St} (h : Reachable n c s) : ∀ t, SubPos (s.pcs t) := by
  induction h with
  | init => intro t d e; simp at e
  | step _ hs ih =>
    cases hs with
    | mk t sh' pc' h =>
      intro t'
      by_cases e : t' = t
      · subst e; simpa using step_subpos h
      · simpa [e] using ih t'

/-- **The completion event is signalled by at most one thread, once**: never two threads at the signalling call, and nobody
    there once it has been signalled (`_dispatch_thread_event_signal` on an event that is already signalled, or after the
    caller destroyed it, would be a use of a dead stack object). -/
theorem signal_once {n : Nat} {c : Tid} {s : St} (h : Reachable n c s) :
    s.sh.subs.length ≤ 1 ∧ (s.sh.signalled = true → s.sh.subs = []) := by
  induction h with
  | init => simp
  | @step s s' hr hs ih =>
    have i := inv_reachable hr
    have hsp := subpos_reachable hr
    cases hs with
    | mk t sh' pc' h =>
      have hquiet : s.sh.pend ≠ [] → s.sh.signalled = false ∧ s.sh.subs = [] := by
        intro hp
        have hlen : 0 < s.sh.pend.length := List.length_pos_iff.mpr hp
        have htodo := i.g.todo
        refine ⟨?_, ?_⟩
        · cases hsg : s.sh.signalled with
          | false => rfl
          | true => have := i.g.sigZero (Or.inl hsg); omega
        · cases hsb : s.sh.subs with
          | nil => rfl
          | cons a l => have := i.g.sigZero (Or.inr (by rw [hsb]; simp)); omega
      generalize hpc : s.pcs t = pc at h
      cases pc with
      | idle => simp [step] at h; obtain ⟨rfl, _⟩ := h; simpa using ih
      | claimed idx done =>
        simp only [step] at h
        split at h
        · simp at h; obtain ⟨rfl, _⟩ := h; simpa using ih
        · split at h <;> (simp at h; obtain ⟨rfl, _⟩ := h; simpa using ih)
      | running idx done => simp [step] at h; obtain ⟨rfl, _⟩ := h; simpa using ih
      | ended done => simp [step] at h; obtain ⟨rfl, _⟩ := h; simpa using ih
      | sub done =>
        have hd : 0 < done := hsp t done hpc
        have hcnt := (i.l t).pend
        rw [hpc] at hcnt; simp only [doneOf] at hcnt
        have hne : s.sh.pend ≠ [] := by
          intro e; rw [e] at hcnt; simp at hcnt; omega
        obtain ⟨hs1, hs2⟩ := hquiet hne
        simp only [step] at h
        split at h
        · simp at h; obtain ⟨rfl, _⟩ := h; simp [hs1, hs2]
        · simp at h; obtain ⟨rfl, _⟩ := h; simp [hs1, hs2]
      | signal =>
        have hmem : t ∈ s.sh.subs := (i.l t).sub.mpr hpc
        simp [step] at h; obtain ⟨rfl, _⟩ := h
        have hone : s.sh.subs = [t] := by
          cases hsb : s.sh.subs with
          | nil => rw [hsb] at hmem; simp at hmem
          | cons a l =>
            have hl := ih.1; rw [hsb] at hl hmem; simp at hl
            subst hl; simp at hmem; rw [hmem]
        simp [hone, rm]
      | out => simp [step] at h
      | waitEv =>
        simp only [step] at h
        split at h
        · simp at h; obtain ⟨rfl, _⟩ := h; simpa using ih
        · simp at h
      | returned => simp [step] at h
end ApplyP
