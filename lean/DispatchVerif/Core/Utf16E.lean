import DispatchVerif.Core.Utf16F
/-! C20 (UTF part): the code-shaped model of `_dispatch_transform_from_utf16` (`Utf16P`, written with the source's own
    `i`, `size`, `max`, `skip`, `src`) computes exactly what the position-shaped loop (`Utf16F`) computes, and never takes the
    out-of-bounds outcome; hence fragmentation independence holds for the loop as written. -/
namespace Utf16E
open Utf16P (look rd16 u16 enc8 inner region regions)
open Utf16F (step1 runTo regionsF)

/-- forget the wide-load counter; an out-of-bounds outcome has no counterpart -/
def conv : Utf16P.Res → Option Utf16F.Res
  | .ok out s _ => some (.ok out s)
  | .fail _ => some .fail
  | .oob _ => none

theorem look_eq_rd16 (be : Bool) (flat src rest : List Nat) (offS k : Nat) (h : flat.drop offS = src ++ rest)
    (hk : 2 * k + 2 ≤ src.length) : rd16 be src k = look be flat (offS + 2 * k) := by
  unfold rd16 look
  have : flat.drop (offS + 2 * k) = src.drop (2 * k) ++ rest := by
    rw [← List.drop_drop, h, List.drop_append_of_le_length (by omega)]
  rw [this]
  match hs : src.drop (2 * k) with
  | [] => have := congrArg List.length hs; simp at this; omega
  | [_] => have := congrArg List.length hs; simp at this; omega
  | a :: b :: t => simp


theorem look_some (be : Bool) (flat src rest : List Nat) (offS k : Nat) (h : flat.drop offS = src ++ rest)
    (hk : 2 * k + 2 ≤ src.length) : ∃ ch, look be flat (offS + 2 * k) = some ch := by
  unfold look
  have : flat.drop (offS + 2 * k) = src.drop (2 * k) ++ rest := by
    rw [← List.drop_drop, h, List.drop_append_of_le_length (by omega)]
  rw [this]
  match hs : src.drop (2 * k) with
  | [] => have := congrArg List.length hs; simp at this; omega
  | [_] => have := congrArg List.length hs; simp at this; omega
  | a :: b :: t => exact ⟨_, rfl⟩

theorem inner_eq (be : Bool) (flat src rest : List Nat) (offS size max : Nat) (hsz : src.length = size)
    (hmax : max = size / 2 + size % 2) (h : flat.drop offS = src ++ rest) :
    ∀ (fuel i : Nat) (out : List Nat) (w : Nat),
      conv (inner be flat offS size max src fuel i out (2 * i - size) w) =
        some (runTo be flat (offS + size) fuel (offS + 2 * i) out) := by
  intro fuel
  induction fuel with
  | zero =>
    intro i out w
    simp only [inner, runTo, conv]
    congr 2; omega
  | succ fuel ih =>
    intro i out w
    rw [inner, runTo]
    by_cases hmi : max ≤ i
    · have he : offS + size ≤ offS + 2 * i := by omega
      simp only [hmi, he, if_true, conv]
      congr 2; omega
    · have he : ¬ offS + size ≤ offS + 2 * i := by omega
      simp only [hmi, he, if_false]
      -- the continuation once the first unit `ch` is known, with the skip it leaves
      have tail : ∀ (ch sk1 : Nat), look be flat (offS + 2 * i) = some ch → sk1 = 2 * (i + 1) - size →
          (2 * i + 2 ≤ size ∨ size = 2 * i + 1) →
          conv (if ch = 65534 ∧ offS = 0 ∧ i = 0 then Utf16P.Res.fail w
            else if 55296 ≤ ch ∧ ch ≤ 56319 then
              match
                (if size / 2 ≤ i + 1 then
                  match look be flat (offS + 2 * (i + 1)) with
                  | none => none
                  | some c2 => some (some c2, sk1 + if 2 * (i + 1) < size then 1 else 2)
                else some (rd16 be src (i + 1), sk1) : Option (Option Nat × Nat)) with
              | none => Utf16P.Res.fail w
              | some (none, _) => Utf16P.Res.oob w
              | some (some c2, skip) =>
                if ¬(56320 ≤ c2 ∧ c2 ≤ 57343) then Utf16P.Res.fail w
                else inner be flat offS size max src fuel (i + 1 + 1) (out ++ enc8 ((ch - 55296) * 1024 + c2 % 1024 + 65536)) skip w
            else if 56320 ≤ ch ∧ ch ≤ 57343 then Utf16P.Res.fail w
            else inner be flat offS size max src fuel (i + 1) (out ++ enc8 ch) sk1 w) =
          some (match step1 be flat (offS + 2 * i) with
            | Utf16F.St.emit us n => runTo be flat (offS + size) fuel (offS + 2 * i + n) (out ++ us)
            | Utf16F.St.fail => Utf16F.Res.fail) := by
        intro ch sk1 hl hsk hsize
        have hpos0 : (offS + 2 * i = 0) ↔ (offS = 0 ∧ i = 0) := by omega
        have e1 : offS + 2 * i + 2 = offS + 2 * (i + 1) := by omega
        have e2 : offS + 2 * i + 4 = offS + 2 * (i + 1 + 1) := by omega
        simp only [step1, hl, hpos0]
        by_cases c1 : ch = 65534 ∧ offS = 0 ∧ i = 0
        · rw [if_pos c1, if_pos c1]; rfl
        · rw [if_neg c1, if_neg c1]
          · by_cases c3 : 55296 ≤ ch ∧ ch ≤ 56319
            · rw [if_pos c3, if_pos c3, e1]
              by_cases c4 : size / 2 ≤ i + 1
              · rw [if_pos c4]
                cases hl2 : look be flat (offS + 2 * (i + 1)) with
                | none => rfl
                | some cc =>
                  simp only []
                  by_cases c5 : 56320 ≤ cc ∧ cc ≤ 57343
                  · rw [if_neg (show ¬¬(56320 ≤ cc ∧ cc ≤ 57343) from fun hn => hn c5), if_neg (show ¬¬(56320 ≤ cc ∧ cc ≤ 57343) from fun hn => hn c5)]
                    have : (sk1 + if 2 * (i + 1) < size then 1 else 2) = 2 * (i + 1 + 1) - size := by
                      split <;> omega
                    rw [this, ih (i + 1 + 1) _ w]; simp only [e2]
                  · rw [if_pos c5, if_pos c5]; rfl
              · rw [if_neg c4]
                have hk : 2 * (i + 1) + 2 ≤ src.length := by omega
                rw [look_eq_rd16 be flat src rest offS (i + 1) h hk]
                obtain ⟨cc, hl2⟩ := look_some be flat src rest offS (i + 1) h hk
                rw [hl2]
                simp only []
                by_cases c5 : 56320 ≤ cc ∧ cc ≤ 57343
                · rw [if_neg (show ¬¬(56320 ≤ cc ∧ cc ≤ 57343) from fun hn => hn c5), if_neg (show ¬¬(56320 ≤ cc ∧ cc ≤ 57343) from fun hn => hn c5)]
                  have : sk1 = 2 * (i + 1 + 1) - size := by omega
                  rw [this, ih (i + 1 + 1) _ w]; simp only [e2]
                · rw [if_pos c5, if_pos c5]; rfl
            · rw [if_neg c3, if_neg c3]
              by_cases c6 : 56320 ≤ ch ∧ ch ≤ 57343
              · rw [if_pos c6, if_pos c6]; rfl
              · rw [if_neg c6, if_neg c6]
                rw [hsk, ih (i + 1) _ w]; simp only [e1]
      by_cases hodd : i + 1 = max ∧ size / 2 < max
      · rw [if_pos hodd]
        cases hl : look be flat (offS + 2 * i) with
        | none => simp only [step1, hl, conv]
        | some ch =>
          simp only []
          exact tail ch (2 * i - size + 1) hl (by omega) (by omega)
      · rw [if_neg hodd]
        have hk : 2 * i + 2 ≤ src.length := by omega
        rw [look_eq_rd16 be flat src rest offS i h hk]
        obtain ⟨ch, hl⟩ := look_some be flat src rest offS i h hk
        simp only [hl]
        exact tail ch (2 * i - size) hl (by omega) (by omega)


/-- each body advances by at least two bytes: half the distance in fuel is enough -/
theorem runTo_fuel2 (be : Bool) (flat : List Nat) (e : Nat) : ∀ (f f' pos : Nat) (out : List Nat),
    e - pos ≤ 2 * f → e - pos ≤ 2 * f' → runTo be flat e f pos out = runTo be flat e f' pos out := by
  intro f
  induction f with
  | zero =>
    intro f' pos out h _
    cases f' with
    | zero => rfl
    | succ f' =>
      have : e ≤ pos := by omega
      simp [runTo, this]
  | succ f ih =>
    intro f' pos out h h'
    cases f' with
    | zero =>
      have : e ≤ pos := by omega
      simp [runTo, this]
    | succ f' =>
      simp only [runTo]
      by_cases he : e ≤ pos
      · simp [he]
      · simp only [he, if_false]
        cases hs : step1 be flat pos with
        | emit us n =>
          have := Utf16F.step1_pos hs
          exact ih f' (pos + n) (out ++ us) (by omega) (by omega)
        | fail => rfl

/-- one region: the code-shaped body over `(i, size, max, skip)` is the run over absolute positions -/
theorem region_eq (be : Bool) (flat r rest : List Nat) (off : Nat) (h : flat.drop off = r ++ rest)
    (out : List Nat) (skip w : Nat) (F : Nat) (hF : r.length ≤ 2 * F) :
    conv (region be flat off r out skip w) = some (runTo be flat (off + r.length) F (off + skip) out) := by
  unfold region
  by_cases hs : r.length ≤ skip
  · rw [if_pos hs]
    have he : off + r.length ≤ off + skip := by omega
    cases F with
    | zero => simp only [conv, runTo]; congr 2; omega
    | succ F => simp only [conv, runTo, he, if_true]; congr 2; omega
  · rw [if_neg hs]
    have hd : flat.drop (off + skip) = r.drop skip ++ rest := by
      rw [← List.drop_drop, h, List.drop_append_of_le_length (by omega)]
    have := inner_eq be flat (r.drop skip) rest (off + skip) (r.length - skip)
      ((r.length - skip) / 2 + (r.length - skip) % 2) (by simp) rfl hd
      ((r.length - skip) / 2 + (r.length - skip) % 2 + 1) 0 out w
    simp only [Nat.mul_zero, Nat.zero_sub, Nat.add_zero] at this
    rw [this]
    have e : off + skip + (r.length - skip) = off + r.length := by omega
    rw [e]
    congr 1
    exact runTo_fuel2 be flat (off + r.length) _ F (off + skip) out (by omega) (by omega)

/-- **the two models agree**: the loop written with the code's indices never takes the out-of-bounds outcome and computes
    exactly what the position-shaped loop computes, for every list of regions -/
theorem regions_eq (be : Bool) (flat : List Nat) : ∀ (rs : List (List Nat)) (off : Nat) (tl out : List Nat) (skip w : Nat),
    flat.drop off = rs.flatten ++ tl →
    conv (regions be flat off rs out skip w) = some (regionsF be flat off (rs.map List.length) out skip) := by
  intro rs
  induction rs with
  | nil => intro off tl out skip w _; rfl
  | cons r rs ih =>
    intro off tl out skip w h
    have hr : flat.drop off = r ++ (rs.flatten ++ tl) := by simpa [List.append_assoc] using h
    have h1 := region_eq be flat r (rs.flatten ++ tl) off hr out skip w (off + r.length) (by omega)
    simp only [regions, regionsF, List.map_cons]
    cases hreg : region be flat off r out skip w with
    | ok out' skip' w' =>
      rw [hreg] at h1
      simp only [conv, Option.some.injEq] at h1
      rw [← h1]
      simp only []
      have hd : flat.drop (off + r.length) = rs.flatten ++ tl := by
        rw [← List.drop_drop, hr, List.drop_left]
      exact ih (off + r.length) tl out' skip' w' hd
    | fail w' =>
      rw [hreg] at h1
      simp only [conv, Option.some.injEq] at h1
      rw [← h1]; rfl
    | oob w' =>
      rw [hreg] at h1
      simp [conv] at h1

theorem fromUtf16_eq (be : Bool) (rs : List (List Nat)) :
    conv (Utf16P.fromUtf16 be rs) = some (Utf16F.fromUtf16F be rs.flatten (rs.map List.length)) := by
  unfold Utf16P.fromUtf16 Utf16F.fromUtf16F
  exact regions_eq be rs.flatten rs 0 [] [] 0 0 (by simp)

/-- the repaired loop, as written in the source, never reads outside its regions — for arbitrary bytes and fragmentation -/
theorem fromUtf16_never_oob (be : Bool) (rs : List (List Nat)) (w : Nat) : Utf16P.fromUtf16 be rs ≠ .oob w := by
  intro h
  have := fromUtf16_eq be rs
  rw [h] at this
  simp [conv] at this


/-- **fragmentation independence for the loop as written in the source**: every way of cutting the object into non-empty
    regions gives (up to the wide-load counter, which stays what it was) the result of the single-region object -/
theorem fromUtf16_fragmentation_independent (be : Bool) (rs : List (List Nat)) (hne : rs ≠ []) (hp : ∀ r ∈ rs, r ≠ []) :
    conv (Utf16P.fromUtf16 be rs) = conv (Utf16P.fromUtf16 be [rs.flatten]) := by
  rw [fromUtf16_eq be rs, fromUtf16_eq be [rs.flatten]]
  simp only [List.flatten_cons, List.flatten_nil, List.append_nil, List.map_cons, List.map_nil]
  congr 1
  apply Utf16F.frag_independent
  · intro e; exact hne (List.map_eq_nil_iff.mp e)
  · intro n hn
    obtain ⟨r, hr, rfl⟩ := List.mem_map.mp hn
    exact List.length_pos_iff.mpr (hp r hr)
  · exact (List.length_flatten).symm

end Utf16E
