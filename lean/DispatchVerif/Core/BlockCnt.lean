/-! C19: "leaves the private group on the first completion only" - the execution counter of a block object
    (`dbpd_performed`, a 32-bit `int` in `dispatch_block_private_data_s`, src/queue_internal.h) and the three places that count a
    completion (`_dispatch_block_invoke_direct`, `_dispatch_block_sync_invoke`, `_dispatch_block_async_invoke2`, src/queue.c).
    The group is entered once when the block object is created; waiters and notifiers are released by the one `dispatch_group_leave`;
    a second leave traps ("Unbalanced call to dispatch_group_leave()"). A block object may be executed any number of times. -/
namespace BlockCnt

def W : Nat := 4294967296          -- 2^32: the counter is a 32-bit word

structure St where
  performed : Nat := 0             -- the word, as an unsigned number < W
  leaves : Nat := 0                -- calls of dispatch_group_leave on the private group so far
deriving DecidableEq, Repr

/-- the word read as the C `int` it is -/
def asInt (p : Nat) : Int := if p < 2147483648 then (p : Int) else (p : Int) - 4294967296

/-- as found: `if (os_atomic_inc2o(dbpd, dbpd_performed, relaxed) == 1) dispatch_group_leave(...)` -/
def completeRaw (s : St) : St :=
  let p := (s.performed + 1) % W
  { performed := p, leaves := if p = 1 then s.leaves + 1 else s.leaves }

/-- as repaired: the count is only ever compared with 0 and 1, so it stops at the first value above 1 -/
def complete (s : St) : St :=
  if asInt s.performed > 1 then s else completeRaw s

def runRaw : Nat → St → St
  | 0, s => s
  | n + 1, s => runRaw n (completeRaw s)

def run : Nat → St → St
  | 0, s => s
  | n + 1, s => run n (complete s)

theorem run_two_fix (n : Nat) : run n { performed := 2, leaves := 1 } = { performed := 2, leaves := 1 } := by
  induction n with
  | zero => rfl
  | succ n ih => simp only [run]; rw [show complete { performed := 2, leaves := 1 } = { performed := 2, leaves := 1 } from by decide]; exact ih

/-- **the private group is left on the first completion and never again, however often the block object is executed** -/
theorem first_completion_only (n : Nat) : (run n {}).leaves = min n 1 ∧ (run n {}).performed = min n 2 := by
  match n with
  | 0 => exact ⟨rfl, rfl⟩
  | 1 => exact ⟨by decide, by decide⟩
  | n + 2 =>
    have h : run (n + 2) {} = run n { performed := 2, leaves := 1 } := by
      simp only [run]
      rw [show complete (complete ({} : St)) = { performed := 2, leaves := 1 } from by decide]
    rw [h, run_two_fix]
    refine ⟨?_, ?_⟩ <;> simp <;> omega

/-- closed form of the counter as found: it is the number of executions modulo 2^32, and the group has been left once per
    execution whose number is 1 modulo 2^32 -/
theorem runRaw_closed (n : Nat) (s : St) (hp : s.performed < W) :
    (runRaw n s).performed = (s.performed + n) % W ∧
    (runRaw n s).leaves = s.leaves + ((s.performed + n + W - 1) / W - (s.performed + W - 1) / W) := by
  induction n generalizing s with
  | zero => simp only [runRaw]; unfold W at *; refine ⟨by omega, by omega⟩
  | succ n ih =>
    simp only [runRaw]
    have hp' : (completeRaw s).performed < W := by simp only [completeRaw]; unfold W; omega
    obtain ⟨h1, h2⟩ := ih (completeRaw s) hp'
    rw [h1, h2]
    simp only [completeRaw]
    unfold W at *
    by_cases h : (s.performed + 1) % 4294967296 = 1
    · rw [if_pos h]; refine ⟨by omega, by omega⟩
    · rw [if_neg h]; refine ⟨by omega, by omega⟩

/-- F40 as found: the 2^32 + 1-th execution of a block object leaves the private group a second time (a trap), and after 2^31
    executions the counter reads as a negative number (the "run more than once and waited for" misuse checks go blind) -/
theorem F40_as_found : (runRaw (W + 1) {}).leaves = 2 ∧ (runRaw (W + 1) {}).performed = 1 ∧ asInt (runRaw 2147483648 {}).performed < 0 := by
  obtain ⟨h1, h2⟩ := runRaw_closed (W + 1) {} (by decide)
  obtain ⟨h3, _⟩ := runRaw_closed 2147483648 {} (by decide)
  rw [h1, h2, h3]
  unfold W asInt
  refine ⟨by decide, by decide, by decide⟩

/-- the line protocol of the correspondence check: `pre` executions, optionally the word set (what a longer history would have made
    it), `post` executions; answer: a second leave traps, otherwise the word and whether the group has been left -/
def answer (pre : Nat) (set : Option Nat) (post : Nat) : String :=
  let s1 := run pre {}
  let s2 := match set with | some v => { s1 with performed := v % W } | none => s1
  let s3 := run post s2
  if s3.leaves > 1 then "crash" else s!"ok {s3.performed} {s3.leaves}"

end BlockCnt
