/-! C11: `_dispatch_timer_unote_compute_missed` (event_internal.h) — how many interval boundaries a repeating timer
    has passed at `now`, and where its next target is put. 64-bit wrap-around is explicit. -/
namespace TimerP

def W : Nat := 18446744073709551616
def LONG_MAX : Nat := 9223372036854775807
def INT64_MAX : Nat := 9223372036854775807
def U64MAX : Nat := 18446744073709551615

structure Out where
  target : Nat
  deadline : Nat
  data : Nat
deriving DecidableEq, Repr

/-- the function as written: unsigned 64-bit arithmetic, the LONG_MAX clamp, the "no repeat" interval -/
def computeMissed (target deadline interval now prev : Nat) : Out :=
  let missed0 := ((now + W - target) % W) / interval
  let missed1 := (missed0 + 1) % W
  let missed := if (missed1 + prev) % W > LONG_MAX then (LONG_MAX + W - prev) % W else missed1
  if interval < INT64_MAX then
    let push := (missed * interval) % W
    { target := (target + push) % W, deadline := (deadline + push) % W, data := (prev + missed) % W }
  else { target := U64MAX, deadline := U64MAX, data := (prev + missed) % W }

/-- number of boundaries `target + k·interval ≤ now`, `k ≥ 0` -/
def boundaries (target interval now : Nat) : Nat := (now - target) / interval + 1

theorem boundaries_spec (target interval now : Nat) (hi : 0 < interval) (ht : target ≤ now) (k : Nat) :
    target + k * interval ≤ now ↔ k < boundaries target interval now := by
  unfold boundaries
  constructor
  · intro h
    have : k * interval ≤ now - target := by omega
    have : k ≤ (now - target) / interval := (Nat.le_div_iff_mul_le hi).mpr this
    omega
  · intro h
    have : k ≤ (now - target) / interval := by omega
    have := (Nat.le_div_iff_mul_le hi).mp this
    omega

/-- **a due repeating timer**: the reported count grows by exactly the number of boundaries passed, the new target
    is the first boundary after `now` (so the timer cannot fire early next time), on the same phase; the deadline
    moves by the same amount. Hypotheses: the timer is due, `now` and the interval are below 2^62 (the range of
    `DISPATCH_TIME_MAX_VALUE`), the interval is positive, and the count does not reach LONG_MAX. -/
theorem compute_missed_exact (target deadline interval now prev : Nat)
    (hi : 0 < interval) (hi2 : interval < 4611686018427387904) (ht : target ≤ now) (hn : now < 4611686018427387904)
    (hd : deadline < 9223372036854775808)
    (hp : prev + boundaries target interval now ≤ LONG_MAX) :
    (computeMissed target deadline interval now prev).data = prev + boundaries target interval now ∧
    (computeMissed target deadline interval now prev).target = target + boundaries target interval now * interval ∧
    now < (computeMissed target deadline interval now prev).target ∧
    (computeMissed target deadline interval now prev).target ≤ now + interval ∧
    (computeMissed target deadline interval now prev).deadline = deadline + boundaries target interval now * interval := by
  have e0 : (now + W - target) % W = now - target := by unfold W; omega
  have hdm := Nat.div_add_mod (now - target) interval
  have hml := Nat.mod_lt (now - target) hi
  have hq : (now - target) / interval ≤ now - target := Nat.div_le_self _ _
  unfold boundaries at hp ⊢
  unfold computeMissed
  rw [e0]
  generalize hqd : (now - target) / interval = q at *
  generalize hrd : (now - target) % interval = r at *
  have hmul : (q + 1) * interval = interval * q + interval := by rw [Nat.succ_mul, Nat.mul_comm]
  generalize hpd : interval * q = p at *
  have e1 : (q + 1) % W = q + 1 := by unfold W; omega
  have hclamp : ¬ ((q + 1 + prev) % W > LONG_MAX) := by unfold LONG_MAX W at *; omega
  have hpush : ((q + 1) * interval) % W = (q + 1) * interval := by rw [hmul]; unfold INT64_MAX W at *; omega
  have hi3 : interval < INT64_MAX := by unfold INT64_MAX; omega
  simp only [e1, hclamp, if_false, hi3, if_true, hpush]
  generalize hgd : (q + 1) * interval = g at *
  unfold INT64_MAX LONG_MAX W at *
  refine ⟨by omega, by omega, by omega, by omega, by omega⟩

/-- whatever the clamp does, the count reported never exceeds the boundaries passed (plus what was pending) -/
theorem data_le_boundaries (target deadline interval now prev : Nat)
    (ht : target ≤ now) (hn : now < 9223372036854775808) (hp : prev ≤ LONG_MAX) :
    (computeMissed target deadline interval now prev).data ≤ prev + boundaries target interval now := by
  have e0 : (now + W - target) % W = now - target := by unfold W; omega
  have hq : (now - target) / interval ≤ now - target := Nat.div_le_self _ _
  unfold boundaries computeMissed
  rw [e0]
  generalize (now - target) / interval = q at *
  have e1 : (q + 1) % W = q + 1 := by unfold W; omega
  simp only [e1]
  have key : (prev + (if (q + 1 + prev) % W > LONG_MAX then (LONG_MAX + W - prev) % W else q + 1)) % W ≤ prev + (q + 1) := by
    split
    · unfold LONG_MAX W at *; omega
    · unfold W; omega
  split <;> exact key

/-- a one-shot (`interval ≥ INT64_MAX`) timer is parked at "never" after it fired -/
theorem oneshot_parks (target deadline interval now prev : Nat) (hi : ¬ interval < INT64_MAX) :
    (computeMissed target deadline interval now prev).target = U64MAX := by
  unfold computeMissed; simp [hi]

end TimerP
