/-! C16 calibration: the decision logic of `_dispatch_source_wakeup` and `_dispatch_source_invoke2`
    as pure functions of a finite view of the source; consistency between the two is a finite check. -/
namespace SrcP

inductive Q | M | T        -- the manager ("kevent") queue, the source's target queue
deriving DecidableEq, Repr

inductive Tgt | none | q (x : Q)
deriving DecidableEq, Repr

structure View where
  installed : Bool
  canceled : Bool        -- DSF_CANCELED | DQF_RELEASED
  deleted : Bool         -- DSF_DELETED
  needsEvent : Bool      -- DSF_NEEDS_EVENT
  needsConfig : Bool     -- timer with pending configuration
  regH : Bool            -- registration handler present
  needsDelete : Bool     -- _du_state_needs_delete
  pending : Bool         -- ds_pending_data ≠ 0
  timerDisarmed : Bool   -- du_is_timer && !_dispatch_unote_armed
  isDirect : Bool
  needsRearm : Bool
  hasH : Bool            -- event or cancel handler present
  suspended : Bool
deriving DecidableEq, Repr

def dkq (v : View) : Q := if v.isDirect then .T else .M

/-- `_dispatch_source_wakeup`'s choice (before the `dq_items` probe); `evt` = DISPATCH_WAKEUP_EVENT -/
def wake (v : View) (evt : Bool) : Tgt :=
  if !v.installed then .q (dkq v)
  else if !v.canceled && v.needsConfig then .q (dkq v)
  else if v.regH then .q .T
  else if v.needsDelete then .q (dkq v)        -- since F27 (was: the target queue)
  else if !v.canceled && v.pending then .q .T
  else if v.canceled && !v.deleted then
    if v.timerDisarmed then .q .T
    else if v.needsEvent && !evt then .none
    else .q (dkq v)
  else if v.canceled && v.deleted && (v.hasH || v.regH) then .q .T
  else if !v.canceled && v.needsRearm then .q (dkq v)
  else .none

inductive Out | redirect (x : Q) | ret (t : Tgt) | wait
deriving DecidableEq, Repr

structure Res where
  v : View
  out : Out
  acted : Bool := false          -- any state-changing action was performed
  evHandler : Bool := false      -- the event handler was called
  cancelCallout : Bool := false  -- `_dispatch_source_cancel_callout` ran
deriving DecidableEq, Repr

/-- `_dispatch_source_invoke2` on queue `cur`; `unregOk`: the kernel unregistration completes at once -/
def inv (v : View) (cur : Q) (unregOk : Bool) : Res := Id.run do
  let mut v := v
  let mut acted := false
  let mut evH := false
  let mut cc := false
  let mut retq : Tgt := .none
  let k := dkq v
  if !v.installed then
    if cur ≠ k then return { v, out := .redirect k, acted }
    v := { v with installed := true }; acted := true
  if v.suspended then return { v, out := .ret (.q .T), acted }
  if v.needsConfig then
    if !v.canceled then
      if cur ≠ k then return { v, out := .redirect k, acted }
      v := { v with needsConfig := false }; acted := true
  if v.regH then
    if cur ≠ .T then return { v, out := .redirect .T, acted }
    v := { v with regH := false }; acted := true
  if v.needsDelete then
    -- since F27: a deferred deletion (peer hang-up) is acknowledged on the kevent queue like every other unregistration
    if cur ≠ k then return { v, out := .redirect k, acted }
    v := { v with needsDelete := false, deleted := true }; acted := true
  if !v.canceled && v.pending then
    if cur = .T then
      v := { v with pending := false }; acted := true; evH := true
    else return { v, out := .redirect .T, acted, evHandler := evH }
  if v.canceled && !v.deleted then
    if !v.timerDisarmed && cur ≠ k then return { v, out := .redirect k, acted, evHandler := evH }
    acted := true
    if unregOk then v := { v with deleted := true, needsEvent := false }
    else
      v := { v with needsEvent := true }
      return { v, out := .wait, acted, evHandler := evH }
  if v.canceled && v.deleted then
    if cur ≠ .T && (v.hasH || v.regH) then retq := .q .T
    else
      -- with no handler left the callout only zeroes stale pending data
      acted := acted || v.hasH || v.regH
      v := { v with hasH := false, regH := false, pending := false }; cc := true
  if !v.canceled && v.needsRearm then
    if cur ≠ k then return { v, out := .redirect k, acted, evHandler := evH, cancelCallout := cc }
    v := { v with needsRearm := false }; acted := true
  return { v, out := .ret retq, acted, evHandler := evH, cancelCallout := cc }

def allBools : List Bool := [false, true]

def allViews : List View :=
  allBools.flatMap fun a => allBools.flatMap fun b => allBools.flatMap fun c => allBools.flatMap fun d =>
  allBools.flatMap fun e => allBools.flatMap fun f => allBools.flatMap fun g => allBools.flatMap fun h =>
  allBools.flatMap fun i => allBools.flatMap fun j => allBools.flatMap fun k => allBools.flatMap fun l =>
  allBools.map fun m => ⟨a, b, c, d, e, f, g, h, i, j, k, l, m⟩

def allQ : List Q := [.M, .T]

end SrcP

namespace SrcP

theorem mem_allViews (v : View) : v ∈ allViews := by
  obtain ⟨a, b, c, d, e, f, g, h, i, j, k, l, m⟩ := v
  simp only [allViews, allBools, List.mem_flatMap, List.mem_map, List.mem_cons, List.mem_nil_iff, or_false]
  exact ⟨a, by cases a <;> simp, b, by cases b <;> simp, c, by cases c <;> simp, d, by cases d <;> simp,
    e, by cases e <;> simp, f, by cases f <;> simp, g, by cases g <;> simp, h, by cases h <;> simp,
    i, by cases i <;> simp, j, by cases j <;> simp, k, by cases k <;> simp, l, by cases l <;> simp,
    m, by cases m <;> simp, rfl⟩

/-- Boolean form of "wakeup says nothing to do ⇒ invoke does nothing", outside the deliberate
    "waiting for the kernel's delete event" state -/
def chkIdle (v : View) : Bool :=
  !(!v.suspended && !(v.canceled && !v.deleted && v.needsEvent) && wake v false == .none) ||
  (allQ.all fun c => allBools.all fun u => !(inv v c u).acted && (inv v c u).out == .ret .none)

def chkNoHandlerAfterCancel (v : View) : Bool :=
  !v.canceled || (allQ.all fun c => allBools.all fun u => !(inv v c u).evHandler)

def chkCancelCallout (v : View) : Bool :=
  allQ.all fun c => allBools.all fun u =>
    let r := inv v c u
    !r.cancelCallout || (v.canceled && r.v.deleted && (c == .T || !(v.hasH || v.regH)))

def chkProgress (v : View) : Bool :=
  v.suspended || allBools.all fun e => match wake v e with
    | .none => true
    | .q x => allBools.all fun u =>
        let r := inv v x u
        r.acted || (match r.out with | .redirect y => (inv r.v y u).acted | _ => false)

theorem all_checks : allViews.all (fun v => chkIdle v && chkNoHandlerAfterCancel v && chkCancelCallout v && chkProgress v) = true := by
  decide +kernel

/-- an invocation that gives up the source's kernel registration (`deleted` becomes true) runs on the kevent queue, or the source
    is a disarmed timer (whose heap entry is the target queue's to remove) -/
def chkUnregOnKq (v : View) : Bool :=
  allQ.all fun c => allBools.all fun u =>
    let r := inv v c u
    !(!v.deleted && r.v.deleted) || c == dkq v || v.timerDisarmed

theorem unreg_checks : allViews.all chkUnregOnKq = true := by
  decide +kernel

/-- **the registration is given up on the kevent queue only** (the manager queue for the muxed sources of this platform, whose
    mux-note is shared by all sources of the descriptor and is not locked): for every view and either queue, cancellation and the
    deferred deletion after a hang-up alike. False before F27: the deferred deletion was acknowledged on whatever queue the source
    was invoked on, concurrently with the manager thread and with the other sources of the descriptor. -/
theorem unregister_on_kevent_queue (v : View) (c : Q) (u : Bool) (h0 : v.deleted = false) (h1 : (inv v c u).v.deleted = true) :
    c = dkq v ∨ v.timerDisarmed = true := by
  have := List.all_eq_true.mp unreg_checks v (mem_allViews v)
  simp only [chkUnregOnKq, List.all_eq_true] at this
  have := this c (by cases c <;> simp [allQ]) u (by cases u <;> simp [allBools])
  simp only [h0, h1, Bool.not_false, Bool.and_self, Bool.not_true, Bool.false_or, Bool.or_eq_true, beq_iff_eq] at this
  exact this

theorem chk_all (v : View) : chkIdle v = true ∧ chkNoHandlerAfterCancel v = true ∧ chkCancelCallout v = true ∧ chkProgress v = true := by
  have := List.all_eq_true.mp all_checks v (mem_allViews v)
  simp only [Bool.and_eq_true] at this
  exact ⟨this.1.1.1, this.1.1.2, this.1.2, this.2⟩

/-- **wakeup and invoke agree** (the invariant the source comments ask for): whenever
    `_dispatch_source_wakeup` names a queue, invoking the source there performs an action, or
    redirects once to a queue where it does. -/
theorem wakeup_invoke_progress (v : View) (hs : v.suspended = false) (e u : Bool) (x : Q) (hw : wake v e = .q x) :
    (inv v x u).acted = true ∨ ∃ y, (inv v x u).out = .redirect y ∧ (inv (inv v x u).v y u).acted = true := by
  have := (chk_all v).2.2.2
  simp only [chkProgress, hs, Bool.false_or, List.all_eq_true] at this
  have h1 := this e (by simp [allBools])
  rw [hw] at h1
  simp only [List.all_eq_true] at h1
  have h2 := h1 u (by cases u <;> simp [allBools])
  simp only [Bool.or_eq_true] at h2
  rcases h2 with h2 | h2
  · exact Or.inl h2
  · right
    cases ho : (inv v x u).out with
    | redirect y => rw [ho] at h2; exact ⟨y, rfl, h2⟩
    | ret t => rw [ho] at h2; cases h2
    | wait => rw [ho] at h2; cases h2

/-- **nothing is missed**: when wakeup finds nothing to do (and the source is not in the deliberate
    "waiting for the kernel's delete event" state), invoking the source on either queue changes nothing
    and asks for no further wakeup. -/
theorem wakeup_none_means_idle (v : View) (hs : v.suspended = false)
    (hw : ¬ (v.canceled = true ∧ v.deleted = false ∧ v.needsEvent = true)) (h : wake v false = .none) (c : Q) (u : Bool) :
    (inv v c u).acted = false ∧ (inv v c u).out = .ret .none := by
  have := (chk_all v).1
  have hw' : (v.canceled && !v.deleted && v.needsEvent) = false := by
    cases h1 : v.canceled <;> cases h2 : v.deleted <;> cases h3 : v.needsEvent <;> simp_all
  simp only [chkIdle, hs, hw', h, Bool.not_false, Bool.true_and, beq_self_eq_true, Bool.not_true, Bool.false_or,
    List.all_eq_true] at this
  have := this c (by cases c <;> simp [allQ]) u (by cases u <;> simp [allBools])
  simpa using this

/-- **no event handler after cancel** at the decision level: with `DSF_CANCELED` (or `DQF_RELEASED`)
    set when invoke reads the flags, it never calls the event handler, on any queue. -/
theorem no_handler_when_canceled (v : View) (hc : v.canceled = true) (c : Q) (u : Bool) : (inv v c u).evHandler = false := by
  have := (chk_all v).2.1
  simp only [chkNoHandlerAfterCancel, hc, Bool.not_true, Bool.false_or, List.all_eq_true] at this
  have := this c (by cases c <;> simp [allQ]) u (by cases u <;> simp [allBools])
  simpa using this

/-- the cancel callout runs only for a cancelled, unregistered source, and on the target queue unless
    no handler is left to call -/
theorem cancel_callout_guard (v : View) (c : Q) (u : Bool) (h : (inv v c u).cancelCallout = true) :
    v.canceled = true ∧ (inv v c u).v.deleted = true ∧ (c = .T ∨ (v.hasH = false ∧ v.regH = false)) := by
  have := (chk_all v).2.2.1
  simp only [chkCancelCallout, List.all_eq_true] at this
  have := this c (by cases c <;> simp [allQ]) u (by cases u <;> simp [allBools])
  simp only [h, Bool.not_true, Bool.false_or, Bool.and_eq_true, Bool.or_eq_true, beq_iff_eq, Bool.not_eq_true',
    Bool.or_eq_false_iff] at this
  exact ⟨this.1.1, this.1.2, this.2⟩

end SrcP

section audit
#print axioms SrcP.wakeup_invoke_progress
#print axioms SrcP.wakeup_none_means_idle
#print axioms SrcP.no_handler_when_canceled
#print axioms SrcP.cancel_callout_guard
#print axioms SrcP.unregister_on_kevent_queue
end audit
