/-! C02 (F39): the hierarchy walk of a thread about to wait for a queue - `_dispatch_wait_compute_wlh` (src/queue.c), entered by
    `__DISPATCH_WAIT_FOR_QUEUE__` when the role bits it read from `dq_state` said "inner queue". The walk reads `dq->do_targetq`
    afresh; `dispatch_set_target_queue` on an active queue can have changed it (and the role bits) since the caller looked, so the
    walk must be safe for a queue entered with *any* stale idea of its role. Queues are numbered so that targets have smaller
    numbers (the target graph is acyclic); root queues have no target and a state word that is neither base-anon nor base-wlh. -/
namespace WlhWalk

/-- what `_dispatch_wait_prepare(tq)` finds in the state word: suspended or base of an anonymous hierarchy; base of a workloop
    hierarchy; neither -/
inductive Role | anon | wlh | neither
deriving DecidableEq, Repr

structure Q where
  role : Role
  root : Bool                 -- dx_hastypeflag(q, QUEUE_ROOT)
  target : Option Nat         -- do_targetq; NULL for a root queue
deriving DecidableEq, Repr

inductive Res | anon | wlh (q : Nat) | fault        -- fault: a NULL do_targetq handed to _dispatch_wait_prepare
deriving DecidableEq, Repr

/-- the walk stops at `tq` with the anonymous answer -/
def stops (fixed : Bool) (tq : Q) : Bool := tq.role == .anon || (fixed && tq.root)

def walk (fixed : Bool) (qs : List Q) : Nat → Nat → Res
  | 0, _ => .fault
  | f + 1, dq =>
    match qs[dq]? with
    | none => .fault
    | some q =>
      match q.target with
      | none => .fault
      | some t =>
        match qs[t]? with
        | none => .fault
        | some tq =>
          if stops fixed tq then .anon
          else if tq.role = .wlh then .wlh t
          else walk fixed qs f t

/-- a hierarchy as the library builds it: a root queue has no target and a state word of neither kind; every other queue has a
    target with a smaller number -/
def WF (qs : List Q) : Prop :=
  ∀ (i : Nat) (q : Q), qs[i]? = some q →
    (q.root = true → q.target = none) ∧ (q.root = false → ∃ t, q.target = some t ∧ t < i)

/-- **as repaired the walk never dereferences a NULL target, from whatever queue it is entered and whatever that queue's role bits
    said a moment ago** -/
theorem walk_never_faults (qs : List Q) (hwf : WF qs) :
    ∀ (dq : Nat) (q : Q), qs[dq]? = some q → q.root = false → ∀ f, dq < f → walk true qs f dq ≠ .fault := by
  intro dq
  induction dq using Nat.strongRecOn with
  | _ dq ih =>
    intro q hq hr f hf
    match f with
    | 0 => omega
    | f + 1 =>
      obtain ⟨t, ht, hlt⟩ := (hwf dq q hq).2 hr
      have htl : t < qs.length := by
        have : dq < qs.length := by
          rcases Nat.lt_or_ge dq qs.length with h | h
          · exact h
          · rw [List.getElem?_eq_none h] at hq; cases hq
        omega
      have htq : qs[t]? = some qs[t] := List.getElem?_eq_getElem htl
      simp only [walk, hq, ht, htq]
      cases hs : stops true qs[t] with
      | true => simp
      | false =>
        simp only [Bool.false_eq_true, if_false]
        by_cases h2 : qs[t].role = .wlh
        · rw [if_pos h2]; intro h; cases h
        · rw [if_neg h2]
          have hnr : qs[t].root = false := by
            cases hr' : qs[t].root
            · rfl
            · simp [stops, hr'] at hs
          exact ih t hlt qs[t] htq hnr f (by omega)

/-- F39 as found: a serial queue (1) that was an inner queue when the waiter looked and targets the global root queue (0) by the time
    the walk reads its target: the walk goes on into the root queue and hands its NULL target to `_dispatch_wait_prepare` -/
theorem F39_as_found :
    walk false [⟨.neither, true, none⟩, ⟨.anon, false, some 0⟩] 2 1 = .fault ∧
    walk true [⟨.neither, true, none⟩, ⟨.anon, false, some 0⟩] 2 1 = .anon := by decide

/-- non-vacuity: a three-level hierarchy over a serial base; the walk from the top queue stops at the base -/
example : WF [⟨.neither, true, none⟩, ⟨.anon, false, some 0⟩, ⟨.neither, false, some 1⟩, ⟨.neither, false, some 2⟩] ∧
    walk true [⟨.neither, true, none⟩, ⟨.anon, false, some 0⟩, ⟨.neither, false, some 1⟩, ⟨.neither, false, some 2⟩] 4 3 = .anon := by
  refine ⟨?_, by decide⟩
  intro i q h
  match i with
  | 0 => simp at h; subst h; exact And.intro (fun _ => rfl) (fun h => by cases h)
  | 1 => simp at h; subst h; exact And.intro (fun h => by cases h) (fun _ => Exists.intro 0 (And.intro rfl (by omega)))
  | 2 => simp at h; subst h; exact And.intro (fun h => by cases h) (fun _ => Exists.intro 1 (And.intro rfl (by omega)))
  | 3 => simp at h; subst h; exact And.intro (fun h => by cases h) (fun _ => Exists.intro 2 (And.intro rfl (by omega)))
  | n + 4 => simp at h

end WlhWalk
