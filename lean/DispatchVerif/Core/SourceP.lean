/-! C15 calibration: DISPATCH_SOURCE_TYPE_DATA_ADD coalescing — `merge_data` does an atomic add into
    ds_pending_data, the invoke path latches it with `xchg(…, 0)` and calls the handler with the
    latched value when it is non-zero. Conservation for any number of mergers and invokers,
    with the 64-bit wrap. -/
namespace SourceP

abbrev Tid := Nat
def M64 : Nat := 18446744073709551616

inductive Op | merge (v : Nat) | invoke
inductive Pc
  | idle
  | latched (v : Nat)     -- after the xchg, before the handler callout
deriving DecidableEq

structure Sh where
  pending : Nat := 0
  -- ghost history
  merged : Nat := 0                 -- sum of all values ever merged
  delivered : List Nat := []        -- values handed to the handler, most recent first
  latched : List (Tid × Nat) := []  -- values latched and not yet delivered, with the latching thread

def total (l : List (Tid × Nat)) : Nat := (l.map (·.2)).sum
def dsum (l : List Nat) : Nat := l.sum

def step (sh : Sh) (t : Tid) (pc : Pc) (op : Op) : List (Sh × Pc) :=
  match pc with
  | .idle =>
    match op with
    | .merge v => [({ sh with pending := (sh.pending + v % M64) % M64, merged := sh.merged + v % M64 }, .idle)]
    | .invoke =>
      -- prev = xchg(pending, 0)
      [({ sh with pending := 0, latched := (t, sh.pending) :: sh.latched }, .latched sh.pending)]
  | .latched v =>
    let sh' := { sh with latched := sh.latched.filter (fun p => !decide (p.1 = t)) }
    -- `if (!dispatch_assume(prev != 0)) return;`
    if v = 0 then [(sh', .idle)] else [({ sh' with delivered := v :: sh.delivered }, .idle)]

structure St where
  sh : Sh
  pcs : Tid → Pc

inductive Step : St → St → Prop
  | mk (s : St) (t : Tid) (op : Op) (sh' : Sh) (pc' : Pc)
      (h : (sh', pc') ∈ step s.sh t (s.pcs t) op) :
      Step s { sh := sh', pcs := fun t' => if t' = t then pc' else s.pcs t' }

inductive Reachable : St → Prop
  | init : Reachable { sh := {}, pcs := fun _ => .idle }
  | step {s s'} : Reachable s → Step s s' → Reachable s'

def mine (l : List (Tid × Nat)) (t : Tid) : List (Tid × Nat) := l.filter (fun p => decide (p.1 = t))
def others (l : List (Tid × Nat)) (t : Tid) : List (Tid × Nat) := l.filter (fun p => !decide (p.1 = t))

theorem total_split (l : List (Tid × Nat)) (t : Tid) : total l = total (mine l t) + total (others l t) := by
  induction l with
  | nil => rfl
  | cons p l ih =>
    by_cases e : p.1 = t <;> simp [total, mine, others, e] at ih ⊢ <;> omega

theorem mine_others (l : List (Tid × Nat)) (t u : Tid) (h : u ≠ t) : mine (others l t) u = mine l u := by
  simp only [mine, others, List.filter_filter]
  apply List.filter_congr
  intro p _
  by_cases e : p.1 = u
  · simp [e, h]
  · simp [e]

structure G (sh : Sh) : Prop where
  cons : sh.merged % M64 = (dsum sh.delivered + sh.pending + total sh.latched) % M64
  nz : ∀ v ∈ sh.delivered, v ≠ 0
  bound : sh.pending < M64

def L (sh : Sh) (t : Tid) (pc : Pc) : Prop :=
  mine sh.latched t = match pc with | .latched v => [(t, v)] | .idle => []

abbrev Post (sh sh' : Sh) (t : Tid) (pc' : Pc) : Prop :=
  G sh' ∧ L sh' t pc' ∧ ∀ t' q, t' ≠ t → L sh t' q → L sh' t' q

theorem step_local {sh : Sh} {t : Tid} {pc : Pc} {op : Op} {sh' : Sh} {pc' : Pc}
    (g : G sh) (l : L sh t pc) (h : (sh', pc') ∈ step sh t pc op) : Post sh sh' t pc' := by
  obtain ⟨gc, gn, gb⟩ := g
  cases pc with
  | idle =>
    cases op with
    | merge v =>
      simp [step] at h; obtain ⟨rfl, rfl⟩ := h
      refine ⟨⟨?_, gn, Nat.mod_lt _ (by decide)⟩, l, fun _ _ _ l' => l'⟩
      simp only; unfold M64 at *; omega
    | invoke =>
      simp [step] at h; obtain ⟨rfl, rfl⟩ := h
      refine ⟨⟨?_, gn, (by show 0 < M64; decide)⟩, ?_, ?_⟩
      · simp only [total, List.map_cons, List.sum_cons] at gc ⊢; unfold M64 at *; omega
      · simp only [L, mine] at l ⊢; simp [l]
      · intro t' q ne l'
        simp only [L, mine] at l' ⊢
        simp [Ne.symm ne, l']
  | latched v =>
    have hm : mine sh.latched t = [(t, v)] := l
    have hs := total_split sh.latched t
    rw [hm] at hs
    simp only [total, List.map_cons, List.map_nil, List.sum_cons, List.sum_nil] at hs
    have hothers : ∀ t' q, t' ≠ t → L sh t' q →
        L { sh with latched := sh.latched.filter (fun p => !decide (p.1 = t)) } t' q := by
      intro t' q ne l'
      simp only [L] at l' ⊢
      rw [← l']; exact mine_others sh.latched t t' ne
    have hmine : mine (others sh.latched t) t = [] := by
      simp [mine, others, List.filter_filter]
    simp only [step] at h
    split at h
    · rename_i hv
      simp at h; obtain ⟨rfl, rfl⟩ := h
      refine ⟨⟨?_, gn, gb⟩, hmine, hothers⟩
      simp only [total] at gc ⊢
      show sh.merged % M64 = (dsum sh.delivered + sh.pending + total (others sh.latched t)) % M64
      simp only [total] at hs ⊢; unfold M64 at *; omega
    · rename_i hv
      simp at h; obtain ⟨rfl, rfl⟩ := h
      refine ⟨⟨?_, ?_, gb⟩, hmine, hothers⟩
      · show sh.merged % M64 = (dsum (v :: sh.delivered) + sh.pending + total (others sh.latched t)) % M64
        simp only [dsum, List.sum_cons, total] at gc hs ⊢; unfold M64 at *; omega
      · intro x hx; simp at hx; rcases hx with rfl | hx
        · exact hv
        · exact gn x hx

structure Inv (s : St) : Prop where
  g : G s.sh
  l : ∀ t, L s.sh t (s.pcs t)

theorem inv_reachable {s : St} (h : Reachable s) : Inv s := by
  induction h with
  | init => exact ⟨⟨rfl, by simp, by decide⟩, fun _ => rfl⟩
  | step _ hs ih =>
    cases hs with
    | mk t op sh' pc' h =>
      obtain ⟨hg, hl, hoth⟩ := step_local ih.g (ih.l t) h
      refine ⟨hg, fun t' => ?_⟩
      by_cases e : t' = t
      · subst e; simpa using hl
      · simpa [e] using hoth t' _ e (ih.l t')

theorem latched_nil_of_idle {s : St} (i : Inv s) (hidle : ∀ t, s.pcs t = .idle) : s.sh.latched = [] := by
  cases hl : s.sh.latched with
  | nil => rfl
  | cons p l =>
    have := i.l p.1
    rw [hidle p.1] at this
    simp [L, mine, hl] at this

/-- **Conservation** (DATA_ADD): whenever no invocation is between its latch and its callout, the sum
    of everything merged equals the sum of the values delivered to the handler plus what is still
    pending (mod 2^64, the width of the accumulator); no delivered value is zero. Any number of
    concurrent mergers and invokers, any interleaving. -/
theorem add_conservation {s : St} (h : Reachable s) (hidle : ∀ t, s.pcs t = .idle) :
    s.sh.merged % M64 = (dsum s.sh.delivered + s.sh.pending) % M64 ∧ ∀ v ∈ s.sh.delivered, v ≠ 0 := by
  have i := inv_reachable h
  have := i.g.cons
  rw [latched_nil_of_idle i hidle] at this
  exact ⟨by simpa [total] using this, i.g.nz⟩

end SourceP

section audit
#print axioms SourceP.add_conservation
end audit
