import DispatchVerif.Core.Utf8F
import DispatchVerif.Core.Utf16P
/-! C20: for ARBITRARY input bytes, whatever `_dispatch_transform_to_utf16` returns is accepted by the inverse transform: its
    output is a byte-order mark followed by the UTF-16 of scalar values (a 4-byte sequence above U+10FFFF wraps into the
    surrogate range of some valid scalar; nothing else can produce a surrogate). -/
namespace Utf8P

theorem flatMap_one {α β : Type} (f : α → List β) (x : α) : [x].flatMap f = f x := by simp

theorem pair_scalar (hi lo : Nat) (h1 : hi < 1024) (h2 : lo < 1024) :
    scalar (65536 + hi * 1024 + lo) ∧ enc16 (65536 + hi * 1024 + lo) = [hi + 55296, lo + 56320] := by
  constructor
  · unfold scalar; omega
  · unfold enc16
    have : ¬ (65536 + hi * 1024 + lo < 65536) := by omega
    rw [if_neg this]
    have e1 : (65536 + hi * 1024 + lo - 65536) / 1024 = hi := by omega
    have e2 : (65536 + hi * 1024 + lo - 65536) % 1024 = lo := by omega
    rw [e1, e2]

theorem single_scalar (w : Nat) (h1 : w < 65536) (h2 : ¬ (55296 ≤ w ∧ w ≤ 57343)) : scalar w ∧ enc16 w = [w % 65536] := by
  constructor
  · unfold scalar; omega
  · unfold enc16; rw [if_pos h1]; have : w % 65536 = w := by omega
    rw [this]

theorem mem_one {c x : Nat} (h : c ∈ [x]) : c = x := List.mem_singleton.mp h

/-- everything the loop body appends is the UTF-16 of scalar values (or nothing, for the leading BOM) -/
theorem emit_shape (w : Nat) (b : Bool) (l : List Nat) (h : emit w b = some l) :
    ∃ cs : List Nat, (∀ c ∈ cs, scalar c) ∧ l = cs.flatMap enc16 := by
  unfold emit at h
  split at h
  · injection h with h; exact ⟨[], (by intro c hc; cases hc), by rw [← h]; rfl⟩
  · split at h
    · cases h
    · rename_i hs
      split at h
      · injection h with h
        obtain ⟨p1, p2⟩ := pair_scalar ((w - 0x10000) / 1024 % 1024) ((w - 0x10000) % 1024) (Nat.mod_lt _ (by decide)) (Nat.mod_lt _ (by decide))
        generalize (65536 + (w - 0x10000) / 1024 % 1024 * 1024 + (w - 0x10000) % 1024) = c' at p1 p2
        refine ⟨[c'], fun c hc => by rw [mem_one hc]; exact p1, ?_⟩
        rw [← h, flatMap_one, p2]
      · rename_i hb
        injection h with h
        obtain ⟨p1, p2⟩ := single_scalar w (by omega) hs
        refine ⟨[w], fun c hc => by rw [mem_one hc]; exact p1, ?_⟩
        rw [← h, flatMap_one, p2]


theorem step1_shape {flat : List Nat} {pos : Nat} {us : List Nat} {n : Nat} (h : step1 flat pos = .emit us n) :
    ∃ cs : List Nat, (∀ c ∈ cs, scalar c) ∧ us = cs.flatMap enc16 := by
  unfold step1 at h
  split at h
  · cases h
  · split at h
    · cases h
    · split at h
      · cases h
      · split at h
        · cases h
        · rename_i w _
          split at h
          · cases h
          · rename_i l he
            injection h with h1 _
            rw [← h1]; exact emit_shape _ _ _ he

/-- the output so far is the BOM followed by the UTF-16 of scalar values; a run keeps that shape -/
def Shape (out : List Nat) : Prop := ∃ cs : List Nat, (∀ c ∈ cs, scalar c) ∧ out = 0xfeff :: cs.flatMap enc16

theorem Shape.append {out us : List Nat} (h : Shape out) (cs : List Nat) (hs : ∀ c ∈ cs, scalar c) (hu : us = cs.flatMap enc16) :
    Shape (out ++ us) := by
  obtain ⟨c0, h0, e0⟩ := h
  refine ⟨c0 ++ cs, ?_, ?_⟩
  · intro c hc; rcases List.mem_append.mp hc with h | h
    · exact h0 c h
    · exact hs c h
  · rw [e0, hu, List.flatMap_append]; rfl

theorem runTo_shape (flat : List Nat) (e : Nat) : ∀ (f pos : Nat) (out : List Nat) {out' : List Nat} {s : Nat},
    Shape out → runTo flat e f pos out = .ok out' s → Shape out' := by
  intro f
  induction f with
  | zero => intro pos out out' s hsh h; simp [runTo] at h; rw [← h.1]; exact hsh
  | succ f ih =>
    intro pos out out' s hsh h
    simp only [runTo] at h
    by_cases he : e ≤ pos
    · simp [he] at h; rw [← h.1]; exact hsh
    · simp only [he, if_false] at h
      cases hs : step1 flat pos with
      | emit us n =>
        rw [hs] at h
        obtain ⟨cs, h1, h2⟩ := step1_shape hs
        exact ih (pos + n) (out ++ us) (hsh.append cs h1 h2) h
      | fail => rw [hs] at h; cases h
      | oob => rw [hs] at h; cases h

theorem regionsF_shape (flat : List Nat) : ∀ (lens : List Nat) (off : Nat) (out : List Nat) (skip : Nat) {out' : List Nat} {s : Nat},
    (off = 0 ∨ Shape out) → lens ≠ [] ∨ Shape out → regionsF flat off lens out skip = .ok out' s → Shape out' := by
  intro lens
  induction lens with
  | nil =>
    intro off out skip out' s _ h2 h
    simp [regionsF] at h
    rcases h2 with h2 | h2
    · exact absurd rfl h2
    · rw [← h.1]; exact h2
  | cons n ns ih =>
    intro off out skip out' s h1 _ h
    simp only [regionsF] at h
    have hin : Shape (if off = 0 then [0xfeff] else out) := by
      by_cases h0 : off = 0
      · rw [if_pos h0]; exact ⟨[], (by intro c hc; cases hc), rfl⟩
      · rw [if_neg h0]; rcases h1 with h1 | h1
        · exact absurd h1 h0
        · exact h1
    cases hr : runTo flat (off + n) (off + n) (off + skip) (if off = 0 then [0xfeff] else out) with
    | ok o2 s2 =>
      rw [hr] at h
      have hs2 := runTo_shape flat _ _ _ _ hin hr
      exact ih (off + n) o2 s2 (Or.inr hs2) (Or.inr hs2) h
    | fail => rw [hr] at h; cases h
    | oob => rw [hr] at h; cases h

/-- **whatever UTF-8 → UTF-16 returns is well-formed**: for arbitrary input bytes and any fragmentation, a successful
    conversion yields the byte-order mark followed by the UTF-16 encoding of a list of Unicode scalar values -/
theorem toUtf16F_output_wf (flat : List Nat) (lens : List Nat) (hne : lens ≠ []) {us : List Nat} {s : Nat}
    (h : toUtf16F flat lens = .ok us s) : ∃ cs : List Nat, (∀ c ∈ cs, scalar c) ∧ us = 0xfeff :: cs.flatMap enc16 :=
  regionsF_shape flat lens 0 [] 0 (Or.inl rfl) (Or.inl hne) h

end Utf8P

namespace Utf16P
open Utf8P (enc enc16 scalar)

/-- the inverse converter accepts the BOM followed by the UTF-16 of any scalar values, and returns the UTF-8 of the mark and
    of the values (the `encode` hook of the output format then drops the mark) -/
theorem fromUtf16_wf (cs : List Nat) (hs : ∀ c ∈ cs, scalar c) :
    fromUtf16 false [bytesLE (0xfeff :: cs.flatMap enc16)] = .ok (enc 0xfeff ++ cs.flatMap enc) 0 0 :=
  fromUtf16_bom_wf cs hs

/-- **UTF-8 → UTF-16 returns NULL or data the inverse transform accepts**, for arbitrary input bytes and any fragmentation -/
theorem utf8_to_utf16_output_accepted (flat : List Nat) (lens : List Nat) (hne : lens ≠ []) {us : List Nat} {s : Nat}
    (h : Utf8P.toUtf16F flat lens = .ok us s) : ∃ out, fromUtf16 false [bytesLE us] = .ok out 0 0 := by
  obtain ⟨cs, hs, rfl⟩ := Utf8P.toUtf16F_output_wf flat lens hne h
  exact ⟨_, fromUtf16_wf cs hs⟩

end Utf16P
