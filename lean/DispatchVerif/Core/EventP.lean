/-! C05: the thread event a synchronous waiter parks on (`_dispatch_thread_event_signal / _wait / _wait_slow`, shims/lock.h,
    lock.c; futex flavour). One waiter, one signaller (the event lives in the waiter's `dispatch_sync_context_s`; the drainer
    that dequeues that context is the only signaller — C01/C02). `dte_value` starts at 0; signal is `inc_orig` (release), wait is
    `dec` (acquire); the slow path re-reads the value (acquire) around a futex wait that **may return at any time** — a wake
    meant for an earlier event at the same address, a signal, EINTR — so the model lets it return unconditionally. -/
namespace EventP

inductive PcW
  | idle          -- before `_dispatch_thread_event_wait`
  | slow          -- in `_dispatch_thread_event_wait_slow`, about to load the value
  | futex         -- loaded UINT32_MAX: inside futex_wait(&dte_value, UINT32_MAX)
  | done          -- returned from the wait
  | crash         -- "Corrupt thread event value"
deriving DecidableEq, Repr

inductive PcS
  | work          -- the drainer still runs the waiter's item (async_and_wait) / has not yet handed the queue over (sync)
  | ready         -- item finished / ownership transferred: about to signal
  | wake          -- the increment did not return 0: about to futex_wake
  | done
deriving DecidableEq, Repr

structure St where
  value : Int := 0
  w : PcW := .idle
  s : PcS := .work
  handed : Bool := false     -- ghost: everything the waiter waits for has happened
deriving DecidableEq, Repr

/-- `os_atomic_dec(&dte_value, acquire) == 0 ? return : slow path` -/
@[reducible] def decW (st : St) : St := { st with value := st.value - 1, w := if st.value - 1 = 0 then .done else .slow }
/-- the slow path's `os_atomic_load(&dte_value, acquire)` and the three-way branch on it -/
@[reducible] def loadW (st : St) : St := { st with w := if st.value = 0 then .done else if st.value = -1 then .futex else .crash }
@[reducible] def futexRetW (st : St) : St := { st with w := .slow }
@[reducible] def finishS (st : St) : St := { st with s := .ready, handed := true }
/-- `os_atomic_inc_orig(&dte_value, release) == 0 ? return : signal_slow` -/
@[reducible] def incS (st : St) : St := { st with value := st.value + 1, s := if st.value = 0 then .done else .wake }
@[reducible] def wakeS (st : St) : St := { st with s := .done }

inductive Step : St → St → Prop
  | wDec (st : St) (h : st.w = .idle) : Step st (decW st)
  | wLoad (st : St) (h : st.w = .slow) : Step st (loadW st)
  | wFutexReturn (st : St) (h : st.w = .futex) : Step st (futexRetW st)
  | sFinish (st : St) (h : st.s = .work) : Step st (finishS st)
  | sInc (st : St) (h : st.s = .ready) : Step st (incS st)
  | sWake (st : St) (h : st.s = .wake) : Step st (wakeS st)

inductive Reachable : St → Prop
  | init : Reachable {}
  | step {a b} : Reachable a → Step a b → Reachable b

def signalled (st : St) : Bool := st.s == .wake || st.s == .done
def decremented (st : St) : Bool := st.w != .idle

structure Inv (st : St) : Prop where
  val : st.value = (if signalled st then 1 else 0) - (if decremented st then 1 else 0)
  dn : st.w = .done → signalled st = true
  hd : st.s ≠ .work → st.handed = true
  nc : st.w ≠ .crash

theorem inv_reachable {st : St} (h : Reachable st) : Inv st := by
  induction h with
  | init => exact ⟨by decide, (by intro h; cases h), (by intro h; exact absurd rfl h), (by intro h; cases h)⟩
  | @step st b _ hs ih =>
    obtain ⟨v, d, hh, nc⟩ := ih
    cases hs with
    | wDec h =>
      have hdec : decremented st = false := by simp [decremented, h]
      simp only [hdec] at v
      refine ⟨?_, ?_, hh, ?_⟩
      · by_cases hz : st.value - 1 = 0 <;> simp [signalled, decremented, hz] at v ⊢ <;> omega
      · by_cases hz : st.value - 1 = 0
        · intro _
          by_cases hsg : signalled st = true
          · simpa [signalled] using hsg
          · simp [hsg] at v; omega
        · simp [hz]
      · by_cases hz : st.value - 1 = 0 <;> simp [hz]
    | wLoad h =>
      have hdec : decremented st = true := by simp [decremented, h]
      refine ⟨?_, ?_, hh, ?_⟩
      · by_cases hz : st.value = 0
        · simpa [signalled, decremented, hz, h] using v
        · by_cases hm : st.value = -1 <;> simpa [signalled, decremented, hz, hm, h] using v
      · intro hd
        by_cases hz : st.value = 0
        · by_cases hsg : signalled st = true
          · simpa [signalled] using hsg
          · simp [hsg, hdec, hz] at v
        · by_cases hm : st.value = -1 <;> simp [hz, hm] at hd
      · by_cases hz : st.value = 0
        · simp [hz]
        · by_cases hm : st.value = -1
          · simp [hz, hm]
          · exfalso
            by_cases hsg : signalled st = true <;> simp [hsg, hdec] at v <;> omega
    | wFutexReturn h =>
      exact ⟨by simpa [signalled, decremented, h] using v, (by intro hd; cases hd), hh, (by simp)⟩
    | sFinish h =>
      refine ⟨by simpa [signalled, decremented, h] using v, ?_, fun _ => rfl, nc⟩
      intro hd; have := d hd; simp [signalled, h] at this
    | sInc h =>
      have hsg : signalled st = false := by simp [signalled, h]
      refine ⟨?_, ?_, fun _ => hh (by rw [h]; simp), nc⟩
      · have e1 : signalled { st with value := st.value + 1, s := if st.value = 0 then PcS.done else PcS.wake } = true := by
          by_cases hz : st.value = 0 <;> simp [signalled, hz]
        have e2 : decremented { st with value := st.value + 1, s := if st.value = 0 then PcS.done else PcS.wake } = decremented st := rfl
        rw [e1, e2]; rw [hsg] at v
        show st.value + 1 = _
        by_cases hd : decremented st = true <;> simp [hd] at v ⊢ <;> omega
      · intro _; by_cases hz : st.value = 0 <;> simp [signalled, hz]
    | sWake h =>
      refine ⟨by simpa [signalled, decremented, h] using v, fun _ => by simp [signalled], fun _ => hh (by rw [h]; simp), nc⟩

/-- **the waiter returns only after the signal**: `_dispatch_thread_event_wait` returns only once the signaller's increment has
    happened, hence only after everything the signaller did before it (the item's execution for `dispatch_async_and_wait`, the
    transfer of the queue for `dispatch_sync`) — whatever the futex does -/
theorem wait_returns_after_signal {st : St} (h : Reachable st) (hd : st.w = .done) : signalled st = true ∧ st.handed = true := by
  have i := inv_reachable h
  have hs := i.dn hd
  refine ⟨hs, i.hd ?_⟩
  intro hw; simp [signalled, hw] at hs

/-- the value only takes the three legal values and the waiter never takes the "corrupt value" trap -/
theorem value_legal {st : St} (h : Reachable st) : (st.value = 0 ∨ st.value = 1 ∨ st.value = -1) ∧ st.w ≠ .crash := by
  have i := inv_reachable h
  refine ⟨?_, i.nc⟩
  have := i.val
  by_cases a : signalled st = true <;> by_cases b : decremented st = true <;> simp [a, b] at this <;> omega

/-- no lost wake-up: once the signal has happened a waiter in the slow path is never parked for good — the value it compares
    against in `futex_wait(…, UINT32_MAX)` is then 0, so the kernel refuses to block (EWOULDBLOCK) or the wake arrives; in the
    model: the load that follows returns 0 and the wait returns -/
theorem signalled_value_zero {st : St} (h : Reachable st) (hs : signalled st = true) (hw : st.w = .slow ∨ st.w = .futex) : st.value = 0 := by
  have := (inv_reachable h).val
  have hd : decremented st = true := by rcases hw with e | e <;> simp [decremented, e]
  simpa [hs, hd] using this

end EventP
