/-! C04 calibration: a lane of any width on a root queue (async / barrier async / sync / barrier sync,
    redirecting drain, try_upgrade_full_width, drain_non_barriers, non_barrier_complete),
    thread-modular model with ghost width accounting. Same transitions as design-spikes/LaneC.lean. -/
namespace LaneW

abbrev Tid := Nat
abbrev ItemId := Nat

structure Item where
  id : ItemId
  barrier : Bool
  waiter : Option Tid
  linked : Bool
deriving DecidableEq

structure Dq where
  u : Int := 0          -- used width (incl. the pending-barrier reservation)
  B : Bool := false
  pb : Bool := false
  D : Bool := false
  E : Bool := false
  O : Option Tid := none
deriving DecidableEq

inductive Op | async (id : ItemId) (bar : Bool) | sync (id : ItemId) (bar : Bool) | worker
  | apply (k : Nat)      -- dispatch_apply from inside a running item: reserve up to k more width units

inductive K | done | toWait (id : ItemId) (bar : Bool) | workerIdle
deriving DecidableEq

inductive Own | bar | units (n : Nat)
deriving DecidableEq

/-- what to do after an item finished -/
inductive After | fastB | bc | nbcClient | drainer | nbcWorker
deriving DecidableEq

/-- is the item run in barrier mode? -/
def After.isBar : After → Bool
  | .fastB | .bc | .drainer => true
  | .nbcClient | .nbcWorker => false

inductive Pc
  | idle
  | aStart (id : ItemId) (bar : Bool)
  | aTryAsync (id : ItemId)
  | aPush (id : ItemId) (bar : Bool)
  | pPushed (id : ItemId) (wasEmpty : Bool)
  | pLinked (id : ItemId) (wasEmpty : Bool)
  | sTryB (id : ItemId)
  | sTryR (id : ItemId)
  | sTryR2 (id : ItemId)
  | run (id : ItemId) (after : After)        -- about to start the item
  | running (id : ItemId) (after : After)    -- inside the item
  | runningA (id : ItemId) (after : After) (k : Nat)   -- inside the item, holding k extra units reserved for dispatch_apply
  | sFastUnlock
  | sSlowPush (id : ItemId) (bar : Bool)
  | sSlowLink (id : ItemId) (bar : Bool) (wasEmpty : Bool)
  | sSlowRmw (id : ItemId) (bar : Bool)
  | sWait (id : ItemId) (bar : Bool)
  | nbc (c2 : Bool) (k : K)
  | bc1 (c2 : Bool) (k : K)
  | bc2 (target : Bool) (c2 : Bool) (k : K)
  | dbwPop (enq : Bool) (k : K)
  | dbwRmw (w : Tid) (enq : Bool) (k : K)
  | dbwSignal (w : Tid) (k : K)
  | dnb0 (c2 : Bool) (k : K)
  | dnbWidth (ow : Nat) (c2 : Bool) (k : K)
  | dnbPop (ow : Nat) (c2 : Bool) (k : K)
  | dnbFin (ow : Nat) (next : Option Bool) (c2 : Bool) (k : K)
  | wIdle
  | dTryLock
  | dInvoke (ow : Own)
  | dLoopHead (ow : Own)
  | dUpgrade (n : Nat)
  | dDropBarrier
  | dWidth
  | dPopNB (n : Nat)      -- owns n + 1 units, one of which goes to the popped item
  | dLoopNext (ow : Own)
  | dUnlock (ow : Own) (done : Bool)
deriving DecidableEq

/-- remove the first n occurrences of t -/
def rmN : Nat → Tid → List Tid → List Tid
  | 0, _, l => l
  | _, _, [] => []
  | n + 1, t, a :: l => if a = t then rmN n t l else a :: rmN (n + 1) t l

def rm (l : List Tid) (t : Tid) : List Tid := l.filter (fun x => !decide (x = t))

structure Sh where
  dq : Dq := {}
  items : List Item := []
  tokens : Nat := 0          -- lane tokens in the root queue
  redirects : Nat := 0       -- redirected readers sitting in the root queue (each holds one unit)
  sigB : List Tid := []      -- barrier waiters signalled (lock transferred)
  sigN : List Tid := []      -- non-barrier waiters signalled (one unit transferred)
  -- ghosts
  xfer : Option (Tid × Tid) := none
  holders : List Tid := []   -- one entry per width unit attributed to a thread

def kPc : K → Pc
  | .done => .idle
  | .toWait id bar => .sWait id bar
  | .workerIdle => .wIdle

def linkItem (items : List Item) (id : ItemId) : List Item :=
  items.map fun it => if it.id = id then { it with linked := true } else it

def canPop : List Item → Bool
  | [] => false
  | [_] => true
  | _ :: y :: _ => y.linked

def Dq.idle (d : Dq) : Bool := d.u == 0 && !d.B && !d.pb && !d.D && !d.E && d.O.isNone
def Dq.runnable (W : Nat) (d : Dq) : Bool := !d.B && d.u < W
def Dq.lockable (d : Dq) : Bool := d.pb || d.u == 0
def Dq.lock (W : Nat) (d : Dq) (t : Tid) : Dq := { d with u := W, B := true, pb := false, D := false, O := some t }
def tryAcquireAsyncOk (W : Nat) (d : Dq) : Bool := d.runnable W && !d.D && !d.pb

/-- _dispatch_lane_non_barrier_complete_try_lock on the decoded state -/
def nbcTryLock (W : Nat) (old new : Dq) (t : Tid) : Dq :=
  let free := if new.pb then new.u + 1 == W else new.u == 0
  if free then new.lock W t
  else if old.D then { new with E := true } else new

/-- dq after a reader gives back its unit (_dispatch_lane_non_barrier_complete) -/
def nbcDq (W : Nat) (d : Dq) (t : Tid) : Dq :=
  let new := { d with u := d.u - 1 }
  if d.O.isSome then { new with D := true }
  else if new.runnable W then nbcTryLock W d new t else new

/-- dq at the end of _dispatch_lane_drain_non_barriers when a next item exists -/
def dnbFinDq (W : Nat) (d : Dq) (ow : Nat) (nextBar : Bool) (t : Tid) : Dq :=
  let new := { d with u := d.u - ow, O := none, D := false }
  let new := if nextBar && W > 1 then { new with u := new.u + (W - 1), pb := true } else new
  nbcTryLock W d { new with D := true } t

/-- dq after _dispatch_queue_try_upgrade_full_width(owned = n units) -/
def upgradeDq (W : Nat) (d : Dq) (n : Nat) : Dq :=
  let new := { d with u := d.u - n }
  let new := if !d.pb then { new with u := new.u + (W - 1), pb := true } else new
  let new := if new.runnable W then { new with u := new.u + 1, B := true, pb := false } else new
  { new with D := false }

/-- `_dispatch_queue_try_reserve_apply_width` (apply.c): take `min k (available width)` units, nothing when the
    FULL bit is set (in barrier, or all width in use); `_dispatch_queue_relinquish_width` gives them back -/
def applyReserve (W : Nat) (sh : Sh) (t : Tid) (id : ItemId) (after : After) (op : Op) : List (Sh × Pc) :=
  match op with
  | .apply k =>
    if W == 1 then [] else
    let avail := if sh.dq.u ≥ W then 0 else ((W : Int) - sh.dq.u).toNat
    let k' := min k avail
    if k' = 0 then []
    else [({ sh with dq := { sh.dq with u := sh.dq.u + k' }, holders := List.replicate k' t ++ sh.holders }, .runningA id after k')]
  | _ => []

/-- hand one unit of thread t to a popped item: to the waiter w, or to a redirect token -/
def handOver (sh : Sh) (t : Tid) (h : Item) : Sh :=
  match h.waiter with
  | some w => { sh with sigN := w :: sh.sigN, holders := w :: rmN 1 t sh.holders }
  | none => { sh with redirects := sh.redirects + 1, holders := rmN 1 t sh.holders }

def step (W : Nat) (sh : Sh) (t : Tid) (pc : Pc) (op : Op) : List (Sh × Pc) :=
  let d := sh.dq
  match pc with
  | .idle =>
    match op with
    | .async id bar => [(sh, .aStart id bar)]
    | .sync id bar => [(sh, if W == 1 || bar then .sTryB id else .sTryR id)]
    | .worker => [(sh, .wIdle)]
    | .apply _ => []
  | .aStart id bar =>
    if W > 1 && sh.items.isEmpty && !bar then [(sh, .aTryAsync id)] else [(sh, .aPush id bar)]
  | .aTryAsync id =>
    if tryAcquireAsyncOk W d then
      [({ sh with dq := { d with u := d.u + 1 }, redirects := sh.redirects + 1 }, .idle)]
    else [(sh, .aPush id false)]
  | .aPush id bar =>
    [({ sh with items := sh.items ++ [{ id, barrier := bar || W == 1, waiter := none, linked := false }] },
      .pPushed id sh.items.isEmpty)]
  | .pPushed id we => [({ sh with items := linkItem sh.items id }, .pLinked id we)]
  | .pLinked _ we =>
    let enq := !d.E && d.O.isNone
    -- a push that did not find the list empty may still issue an override wakeup: ENQUEUED without
    -- DIRTY (found by replaying real traces through this model)
    if !we then [(sh, .idle),
      ({ sh with dq := { d with E := d.E || enq }, tokens := sh.tokens + (if enq then 1 else 0) }, .idle)] else
    if sh.items.isEmpty then [(sh, .idle)] else
    [({ sh with dq := { d with E := d.E || enq, D := true }, tokens := sh.tokens + (if enq then 1 else 0) }, .idle)]
  | .sTryB id =>
    if d.idle then [({ sh with dq := d.lock W t }, .run id .fastB)]
    else [(sh, .sSlowPush id true)]
  | .sTryR id => if !sh.items.isEmpty then [(sh, .sSlowPush id false)] else [(sh, .sTryR2 id)]
  | .sTryR2 id =>
    if !d.B && !d.D && !d.pb then
      [({ sh with dq := { d with u := d.u + 1 }, holders := t :: sh.holders }, .run id .nbcClient)]
    else [(sh, .sSlowPush id false)]
  | .run id after => [(sh, .running id after)]
  | .runningA id after k =>
    [({ sh with dq := { d with u := d.u - k }, holders := rmN k t sh.holders }, .running id after)]
  | .running id after =>
    applyReserve W sh t id after op ++
    match after with
    | .fastB => if W > 1 then [(sh, .bc1 false .done)] else [(sh, .sFastUnlock)]
    | .bc => [(sh, .bc1 false .done)]
    | .nbcClient => [(sh, .nbc false .done)]
    | .drainer => [(sh, .dLoopNext .bar)]
    | .nbcWorker => [(sh, .nbc true .workerIdle)]
  | .sFastUnlock =>
    if !sh.items.isEmpty then [(sh, .bc1 false .done)] else
    if d.E || d.D then [(sh, .bc1 false .done)]
    else [({ sh with dq := { d with u := d.u - W, B := false, O := none } }, .idle)]
  | .sSlowPush id bar =>
    [({ sh with items := sh.items ++ [{ id, barrier := bar || W == 1, waiter := some t, linked := false }] },
      .sSlowLink id bar sh.items.isEmpty)]
  | .sSlowLink id bar we =>
    let sh' := { sh with items := linkItem sh.items id }
    if we then [(sh', .sSlowRmw id bar)] else [(sh', .sWait id bar)]
  | .sSlowRmw id bar =>
    if d.O.isSome || !d.runnable W then [({ sh with dq := { d with D := true } }, .sWait id bar)]
    else if d.lockable then [({ sh with dq := d.lock W t }, .bc1 false (.toWait id bar))]
    else [({ sh with dq := { d with D := true } }, .sWait id bar)]
  | .sWait id bar =>
    if bar || W == 1 then
      if t ∈ sh.sigB then [({ sh with sigB := rm sh.sigB t }, .run id .bc)] else []
    else
      if t ∈ sh.sigN then [({ sh with sigN := rmN 1 t sh.sigN }, .run id .nbcClient)] else []
  | .nbc c2 k =>
    let new := nbcDq W d t
    let sh' := { sh with dq := new, holders := rmN 1 t sh.holders }
    if new.B && !d.B then [(sh', .bc1 c2 k)]
    else if new.E && !d.E then [({ sh' with tokens := sh.tokens + 1 }, kPc k)]
    else [(sh', kPc k)]
  | .bc1 c2 k =>
    match sh.items with
    | [] => [(sh, .bc2 false c2 k)]
    | h :: _ =>
      if !h.linked then [] else
      if W == 1 || h.barrier then
        if h.waiter.isSome then [(sh, .dbwPop false k)] else [(sh, .bc2 true true k)]
      else [(sh, .dnb0 c2 k)]
  | .bc2 target c2 k =>
    let base := { d with u := d.u - W, B := false, O := none }
    if target then
      [({ sh with dq := { base with E := true }, tokens := sh.tokens + (if d.E then 0 else 1) }, kPc k)]
    else if d.D then [({ sh with dq := { d with D := false } }, .bc1 c2 k)]
    else [({ sh with dq := base }, kPc k)]
  | .dbwPop enq k =>
    match sh.items with
    | h :: rest =>
      if !canPop sh.items then [] else
      match h.waiter with
      | some w => [({ sh with items := rest }, .dbwRmw w enq k)]
      | none => []
    | [] => []
  | .dbwRmw w enq k =>
    [({ sh with dq := { d with O := some w, D := false, E := if enq then false else d.E }, xfer := some (w, t) },
      .dbwSignal w k)]
  | .dbwSignal w k => [({ sh with sigB := w :: sh.sigB, xfer := none }, kPc k)]
  -- _dispatch_lane_drain_non_barriers: the barrier owner becomes the owner of W units
  | .dnb0 c2 k =>
    [({ sh with dq := { d with B := false }, holders := List.replicate W t ++ sh.holders }, .dnbPop (W - 1) c2 k)]
  | .dnbWidth ow c2 k =>
    match sh.items with
    | [] => []
    | h :: _ =>
      if ow > 0 then [(sh, .dnbPop (ow - 1) c2 k)]
      else if h.waiter.isSome then
        [({ sh with dq := { d with u := d.u + 1 }, holders := t :: sh.holders }, .dnbPop 0 c2 k)]
      else if tryAcquireAsyncOk W d then
        [({ sh with dq := { d with u := d.u + 1 }, holders := t :: sh.holders }, .dnbPop 0 c2 k)]
      else [(sh, .dnbFin 0 (some h.barrier) c2 k)]
  | .dnbPop ow c2 k =>
    match sh.items with
    | [] => []
    | h :: rest =>
      if !canPop sh.items then [] else
      let sh' := handOver { sh with items := rest } t h
      match rest with
      | [] => [(sh', .dnbFin ow none c2 k)]
      | n :: _ => if n.barrier then [(sh', .dnbFin ow (some true) c2 k)] else [(sh', .dnbWidth ow c2 k)]
  | .dnbFin ow next c2 k =>
    let hs := rmN ow t sh.holders
    match next with
    | some nb =>
      let new := dnbFinDq W d ow nb t
      let sh' := { sh with dq := new, holders := hs }
      if new.B && !d.B then [(sh', .bc1 c2 k)]
      else if new.E && !d.E then [({ sh' with tokens := sh.tokens + 1 }, kPc k)]
      else [(sh', kPc k)]
    | none =>
      if d.D then
        let sh' := { sh with dq := { d with D := false } }
        match sh.items with
        | [] => [(sh', .dnbFin ow none c2 k)]
        | h :: _ => if h.barrier then [(sh', .dnbFin ow (some true) c2 k)] else [(sh', .dnbWidth ow c2 k)]
      else [({ sh with dq := { d with u := d.u - ow, O := none, D := false }, holders := hs }, kPc k)]
  | .wIdle =>
    (if sh.tokens > 0 then [({ sh with tokens := sh.tokens - 1 }, Pc.dTryLock)] else []) ++
    (if sh.redirects > 0 then
       [({ sh with redirects := sh.redirects - 1, holders := t :: sh.holders }, Pc.run 0 .nbcWorker)] else [])
  | .dTryLock =>
    if d.runnable W && d.O.isNone then
      if d.lockable then
        [({ sh with dq := { d with u := W, B := true, pb := false, D := false, O := some t } }, .dInvoke .bar)]
      else
        let n := (W - d.u).toNat
        [({ sh with dq := { d with u := W, B := false, pb := false, D := false, O := some t },
                    holders := List.replicate n t ++ sh.holders }, .dInvoke (.units n))]
    else [({ sh with dq := { d with E := false } }, .wIdle)]
  | .dInvoke ow => if sh.items.isEmpty then [(sh, .dUnlock ow true)] else [(sh, .dLoopHead ow)]
  | .dLoopHead ow =>
    match sh.items with
    | [] => []
    | h :: rest =>
      if !h.linked then [] else
      if W == 1 || h.barrier then
        match ow with
        | .units n => [(sh, .dUpgrade n)]
        | .bar =>
          if h.waiter.isSome then [(sh, .dbwPop true .workerIdle)]
          else if !canPop sh.items then []
          else [({ sh with items := rest }, .run h.id .drainer)]
      else
        match ow with
        | .bar => [(sh, .dDropBarrier)]
        | .units 0 => [(sh, .dWidth)]
        | .units (n + 1) => [(sh, .dPopNB n)]
  | .dUpgrade n =>
    let new := upgradeDq W d n
    let sh' := { sh with dq := new, holders := rmN n t sh.holders }
    if new.B then [(sh', .dLoopHead .bar)] else [(sh', .dUnlock (.units 0) false)]
  | .dDropBarrier =>
    [({ sh with dq := { d with B := false }, holders := List.replicate W t ++ sh.holders }, .dLoopHead (.units W))]
  | .dWidth =>
    match sh.items with
    | [] => []
    | h :: _ =>
      if h.waiter.isSome then
        [({ sh with dq := { d with u := d.u + 1 }, holders := t :: sh.holders }, .dPopNB 0)]
      else if tryAcquireAsyncOk W d then
        [({ sh with dq := { d with u := d.u + 1 }, holders := t :: sh.holders }, .dPopNB 0)]
      else [(sh, .dUnlock (.units 0) false)]
  | .dPopNB n =>
    match sh.items with
    | [] => []
    | h :: rest =>
      if !canPop sh.items then [] else
      [(handOver { sh with items := rest } t h, .dLoopNext (.units n))]
  | .dLoopNext ow => if sh.items.isEmpty then [(sh, .dUnlock ow true)] else [(sh, .dLoopHead ow)]
  | .dUnlock ow done =>
    if d.D then [({ sh with dq := { d with D := false } }, .dInvoke ow)]
    else
      match ow with
      | .bar => [({ sh with dq := { d with u := d.u - W, B := false, O := none, E := false, D := !done } }, .wIdle)]
      | .units n =>
        [({ sh with dq := { d with u := d.u - n, O := none, E := false, D := !done },
                    holders := rmN n t sh.holders }, .wIdle)]

structure St where
  sh : Sh
  pcs : Tid → Pc

inductive Step (W : Nat) : St → St → Prop
  | mk (s : St) (t : Tid) (op : Op) (sh' : Sh) (pc' : Pc)
      (h : (sh', pc') ∈ step W s.sh t (s.pcs t) op) :
      Step W s { sh := sh', pcs := fun t' => if t' = t then pc' else s.pcs t' }

inductive Reachable (W : Nat) : St → Prop
  | init : Reachable W { sh := {}, pcs := fun _ => .idle }
  | step {s s'} : Reachable W s → Step W s s' → Reachable W s'

end LaneW
