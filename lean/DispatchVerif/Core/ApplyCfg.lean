/-! C10: the set-up arithmetic of `dispatch_apply_f` (src/apply.c): how many threads take part and what nesting figure
    the iterations inherit. `par` = `_dispatch_qos_max_parallelism` (≥ 1), `nested` = `dtc_apply_nesting` of the enclosing
    apply (0 = none), `iters` = iterations (> 0: zero returns before). -/
namespace ApplyCfg

def thrCnt (par nested iters : Nat) : Nat :=
  let t := if nested = 0 then par else if nested < par then par / nested else 1
  if iters < t then iters else t

def nestedNext (max nested iters : Nat) : Nat :=
  if nested = 0 then iters else if nested < max ∧ iters < max then nested * iters else max

/-- at least one participant (the caller), never more than iterations, never more than the parallelism -/
theorem thrCnt_bounds {par nested iters : Nat} (hp : 0 < par) (hi : 0 < iters) :
    1 ≤ thrCnt par nested iters ∧ thrCnt par nested iters ≤ iters ∧ thrCnt par nested iters ≤ par := by
  unfold thrCnt
  by_cases h0 : nested = 0
  · simp only [h0, if_true]; split <;> omega
  · simp only [h0, if_false]
    by_cases h1 : nested < par
    · simp only [h1, if_true]
      have hd : 1 ≤ par / nested := (Nat.le_div_iff_mul_le (by omega)).mpr (by omega)
      have hd2 : par / nested ≤ par := Nat.div_le_self _ _
      split <;> omega
    · simp only [h1, if_false]; split <;> omega

/-- nested applies share the machine: the participants of an inner apply times the nesting figure it was given stay
    within the parallelism (when the figure is below it; otherwise the inner apply runs on its caller alone) -/
theorem nested_share {par nested iters : Nat} (hn : 0 < nested) :
    (nested < par → thrCnt par nested iters * nested ≤ par) ∧ (par ≤ nested → thrCnt par nested iters ≤ 1) := by
  unfold thrCnt
  have h0 : nested ≠ 0 := by omega
  simp only [h0, if_false]
  constructor
  · intro h1
    simp only [h1, if_true]
    have hm : par / nested * nested ≤ par := Nat.div_mul_le_self _ _
    split
    · rename_i hlt
      exact Nat.le_trans (Nat.mul_le_mul_right _ (Nat.le_of_lt hlt)) hm
    · exact hm
  · intro h1
    have : ¬ nested < par := by omega
    simp only [this, if_false]; split <;> omega

/-- the nesting figure handed down never exceeds the cap once it is reached, and is the plain product below it -/
theorem nestedNext_le {max nested iters : Nat} (hn : 0 < nested) (hm : 0 < max) :
    nestedNext max nested iters ≤ max * max := by
  unfold nestedNext
  have h0 : nested ≠ 0 := by omega
  simp only [h0, if_false]
  split
  · rename_i h; exact Nat.mul_le_mul (Nat.le_of_lt h.1) (Nat.le_of_lt h.2)
  · exact Nat.le_mul_of_pos_left _ hm

end ApplyCfg
