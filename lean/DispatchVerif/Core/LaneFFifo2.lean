import DispatchVerif.Core.LaneFFifo
namespace LaneF

/-- other threads keep their claims when the in-hand ghosts do not change -/
theorem others_same {sh sh' : Sh} {t : Tid} {pc' : Pc} (hX : X sh' = X sh)
    (hitems : ∀ it, it ∈ sh'.items → (∃ it0, it0 ∈ sh.items ∧ it0.id = it.id ∧ it0.waiter = it.waiter) ∨
      (it.waiter = none ∨ (it.waiter = some t ∧ waitId0 pc' = some it.id)))
    (hsig : ∀ u, u ≠ t → u ∈ sh'.signalled → u ∈ sh.signalled ∨ (sh.handing = some u ∧ sh.preX = none))
    (hcnt : ∀ u, u ≠ t → countW sh' u ≤ countW sh u) :
    ∀ u q, u ≠ t → LF sh u q → LF sh' u q := by
  intro u q ne l
  simp only [X, Prod.mk.injEq] at hX
  obtain ⟨h1, h2, h3⟩ := hX
  refine ⟨by rw [h1, h2, h3]; exact l.p, by rw [h1, h2, h3]; exact l.a, by rw [h3]; exact l.r1,
    by rw [h1, h2, h3]; exact l.r2, by rw [h2, h3]; exact l.r3, ?_, by rw [h2, h3]; exact l.b,
    ?_, ?_, by have := hcnt u ne; have := l.d2; omega⟩
  rotate_left 1
  · intro hc; rw [h2] at hc; rw [h1]
    obtain ⟨id, c1, c2, c3⟩ := l.c hc
    exact ⟨id, c1, c2, by have := hcnt u ne; omega⟩
  · intro it hm hw
    rcases hitems it hm with ⟨it0, h0, e1, e2⟩ | hn | hn
    · rw [← e1]; exact l.d it0 h0 (by rw [e2]; exact hw)
    · rw [hn] at hw; cases hw
    · rw [hn.1] at hw; exact absurd (Option.some.inj hw).symm ne
  · intro hm; rw [h2, h3]
    rcases hsig u ne hm with hm' | hm'
    · exact l.s hm'
    · exact hm'

/-- what layer 1 says about every other thread while t is at an owner pc -/
theorem others_idle_of_holds {s : St} (inv : Inv s) {t : Tid} (ht : holds (s.pcs t) = true) :
    ∀ u, u ≠ t → holds (s.pcs u) = false ∧ u ∉ s.sh.signalled ∧ ∀ w k, s.pcs u ≠ .dbwSignal w k := by
  intro u ne
  have ⟨hl, hns, hnx⟩ := (inv.l t).own ht
  refine ⟨?_, ?_, ?_⟩
  · cases hh : holds (s.pcs u) with
    | false => rfl
    | true => exact absurd (locked_unique' ((inv.l u).own hh).1 hl) ne
  · intro hm; exact ne (locked_unique' (inv.g.sig u hm) hl)
  · intro w k e
    have hx := (inv.l u).sg w k e
    have := locked_unique' (inv.g.xf w u hx) hl
    subst this
    exact hnx u hx

/-- other threads keep their claims when the owner t changes the in-hand ghosts -/
theorem others_changed {s : St} (inv : Inv s) {t : Tid} (ht : holds (s.pcs t) = true) {sh' : Sh}
    (hsig : sh'.signalled = s.sh.signalled)
    (hpre : sh'.preX = s.sh.preX ∨ sh'.preX = some t ∨ sh'.preX = none)
    (hitems : ∀ it, it ∈ sh'.items → it ∈ s.sh.items)
    (hcnt : ∀ u, u ≠ t → countW sh' u ≤ countW s.sh u)
    (hc : ∀ u, u ≠ t → sh'.handing = some u → ∃ id, waitId (s.pcs u) = some id ∧ sh'.pend = [id] ∧ countW sh' u = 0) :
    ∀ u, u ≠ t → LF s.sh u (s.pcs u) → LF sh' u (s.pcs u) := by
  intro u ne l
  have ⟨h1, h2, h3⟩ := others_idle_of_holds inv ht u ne
  refine ⟨?_, ?_, ?_, ?_, ?_, ?_, ?_, hc u ne, ?_, by have := hcnt u ne; have := l.d2; omega⟩
  · intro hh; rw [h1] at hh; cases hh
  · intro id e; rw [e] at h1; simp [holds] at h1
  · intro hp
    rcases hpre with e | e | e
    · rw [e] at hp; exact l.r1 hp
    · rw [e] at hp; exact absurd (Option.some.inj hp).symm ne
    · rw [e] at hp; cases hp
  · intro w enq k e; rw [e] at h1; simp [holds] at h1
  · intro w k e; exact absurd e (h3 w k)
  · intro hm; rw [hsig] at hm; exact absurd hm h2
  · intro id e; rw [e] at h1; simp [holds] at h1
  · intro it hm hw; exact l.d it (hitems it hm) hw

end LaneF
