import DispatchVerif.Core.LaneR
namespace LaneR

/-- the part of the shared state the invariant looks at -/
structure Key where
  O : Option Tid
  B : Bool
  F : Bool
  signalled : List Tid
  xfer : Option (Tid × Tid)

def Sh.key (sh : Sh) : Key := ⟨sh.dq.O, sh.dq.B, sh.dq.F, sh.signalled, sh.xfer⟩

theorem G_of_key {sh sh' : Sh} (h : sh'.key = sh.key) (g : G sh) : G sh' := by
  simp [Sh.key] at h
  obtain ⟨hO, hB, hF, hs, hx⟩ := h
  constructor
  · intro w hw; rw [hs] at hw; have := g.sig w hw; simp [Locked] at *; simp [hO, hB, hF, this]
  · intro w t hw; rw [hx] at hw; have := g.xf w t hw; simp [Locked] at *; simp [hO, hB, hF, this]
  · rw [hs]; exact g.nodup
  · intro w t hw; rw [hx] at hw; rw [hs]; exact g.xsig w t hw

theorem L_of_key {sh sh' : Sh} {t : Tid} {pc : Pc} (h : sh'.key = sh.key) (l : L sh t pc) : L sh' t pc := by
  simp [Sh.key] at h
  obtain ⟨hO, hB, hF, hs, hx⟩ := h
  constructor
  · intro hh; have := l.own hh; simp [Locked] at *; simp [hO, hB, hF, hs, hx, this]
  · intro w k e; rw [hx]; exact l.sg w k e
  · intro h'; rw [hO] at h'; rw [hs, hx]; exact l.conv h'

abbrev Post (sh sh' : Sh) (t : Tid) (pc' : Pc) : Prop :=
  G sh' ∧ L sh' t pc' ∧ ∀ t' q, t' ≠ t → L sh t' q → L sh' t' q

/-- a step that does not touch the key -/
theorem frame_step {sh sh' : Sh} {t : Tid} {pc' : Pc} (g : G sh)
    (hk : sh'.key = sh.key) (l' : L sh t pc') : Post sh sh' t pc' :=
  ⟨G_of_key hk g, L_of_key hk l', fun _ _ _ h => L_of_key hk h⟩

theorem L_idle {sh : Sh} {t : Tid} {pc0 pc : Pc} (l : L sh t pc0) (h0 : holds pc0 = false) (h : holds pc = false)
    (h2 : ∀ w k, pc ≠ .dbwSignal w k) : L sh t pc :=
  ⟨fun hh => by simp [h] at hh, fun w k e => absurd e (h2 w k),
   fun hO => by
     rcases l.conv hO with h' | h'
     · simp [h0] at h'
     · exact Or.inr h'⟩

theorem L_keep {sh : Sh} {t : Tid} {pc pc' : Pc} (l : L sh t pc) (h : holds pc = true)
    (h2 : ∀ w k, pc' ≠ .dbwSignal w k) (h' : holds pc' = true := by rfl) : L sh t pc' :=
  ⟨fun _ => l.own h, fun w k e => absurd e (h2 w k), fun _ => Or.inl h'⟩

theorem kPc_not_sig (k : K) : ∀ w k', kPc k ≠ .dbwSignal w k' := by
  intro w k'; cases k <;> simp [kPc]

theorem kPc_not_holds (k : K) : holds (kPc k) = false := by
  cases k <;> simp [kPc, holds]

theorem locked_unique' {d : Dq} {t t' : Tid} (h : Locked d t) (h' : Locked d t') : t = t' :=
  Option.some.inj (h.1.symm.trans h'.1)

/-- nobody is `Locked` when the owner field is empty -/
theorem not_locked_of_none {d : Dq} (h : d.O = none) (t : Tid) : ¬ Locked d t := by
  intro hl; simp [Locked, h] at hl

/-- acquiring the lock from an unowned state -/
theorem acquire_step {sh : Sh} {t : Tid} {pc' : Pc} (sh' : Sh) (g : G sh) (hO : sh.dq.O = none)
    (hs' : sh'.signalled = sh.signalled) (hx' : sh'.xfer = sh.xfer)
    (hl : Locked sh'.dq t) (hh' : holds pc' = true) (h2 : ∀ w k, pc' ≠ .dbwSignal w k) :
    Post sh sh' t pc' := by
  have nl := not_locked_of_none hO
  have hsig : sh.signalled = [] := by
    cases hs : sh.signalled with
    | nil => rfl
    | cons w _ => exact absurd (g.sig w (by simp [hs])) (nl w)
  have hxf : sh.xfer = none := by
    cases hx : sh.xfer with
    | none => rfl
    | some p => exact absurd (g.xf p.1 p.2 (by simp [hx])) (nl p.1)
  refine ⟨⟨?_, ?_, ?_, ?_⟩, ⟨?_, ?_, ?_⟩, ?_⟩
  · intro w hw; simp [hs', hsig] at hw
  · intro w u hw; simp [hx', hxf] at hw
  · simp [hs', hsig]
  · intro w u hw; simp [hx', hxf] at hw
  · intro _; exact ⟨hl, by simp [hs', hsig], by simp [hx', hxf]⟩
  · intro w k e; exact absurd e (h2 w k)
  · intro _; exact Or.inl hh'
  · intro t' q ne l'
    refine ⟨?_, ?_, ?_⟩
    · intro hh; exact absurd (l'.own hh).1 (nl t')
    · intro w k e; have := l'.sg w k e; simp [hxf] at this
    · intro hO'; exact absurd (Option.some.inj (hO'.symm.trans hl.1)) ne

/-- the holder rewrites `dq` arbitrarily (signalled / xfer untouched) -/
theorem holder_step {sh : Sh} {t : Tid} {pc pc' : Pc} (sh' : Sh) (g : G sh) (l : L sh t pc)
    (hh : holds pc = true) (hs' : sh'.signalled = sh.signalled) (hx' : sh'.xfer = sh.xfer)
    (l' : holds pc' = true → Locked sh'.dq t)
    (ho : sh'.dq.O = none ∨ (sh'.dq.O = some t ∧ holds pc' = true))
    (h2 : ∀ w k, pc' ≠ .dbwSignal w k) :
    Post sh sh' t pc' := by
  obtain ⟨hl, hns, hnx⟩ := l.own hh
  have hsig : sh.signalled = [] := by
    cases hs : sh.signalled with
    | nil => rfl
    | cons w _ =>
      have := locked_unique' hl (g.sig w (by simp [hs])); subst this
      exact absurd (by simp [hs]) hns
  have hxf : sh.xfer = none := by
    cases hx : sh.xfer with
    | none => rfl
    | some p =>
      have := locked_unique' hl (g.xf p.1 p.2 (by simp [hx])); subst this
      exact absurd hx (hnx p.2)
  refine ⟨⟨?_, ?_, ?_, ?_⟩, ⟨?_, ?_, ?_⟩, ?_⟩
  · intro w hw; simp [hs', hsig] at hw
  · intro w u hw; simp [hx', hxf] at hw
  · simp [hs', hsig]
  · intro w u hw; simp [hx', hxf] at hw
  · intro h; exact ⟨l' h, by simp [hs', hsig], by simp [hx', hxf]⟩
  · intro w k e; exact absurd e (h2 w k)
  · intro hO'
    rcases ho with ho | ho
    · simp [ho] at hO'
    · exact Or.inl ho.2
  · intro t' q ne lq
    refine ⟨?_, ?_, ?_⟩
    · intro hq; exact absurd (locked_unique' (lq.own hq).1 hl) ne
    · intro w k e; have := lq.sg w k e; simp [hxf] at this
    · intro hO'
      rcases ho with ho | ho
      · simp [ho] at hO'
      · exact absurd (Option.some.inj (hO'.symm.trans ho.1)) ne

set_option maxHeartbeats 400000 in
/-- obligations of one step, by case analysis on the pc -/
theorem step_local {sh : Sh} {t : Tid} {pc : Pc} {op : Op} {sh' : Sh} {pc' : Pc}
    (g : G sh) (l : L sh t pc) (h : (sh', pc') ∈ step sh t pc op) : Post sh sh' t pc' := by
  cases pc with
  | idle =>
    cases op <;> simp [step] at h <;> obtain ⟨rfl, rfl⟩ := h <;>
      exact frame_step g rfl (L_idle l rfl rfl (by simp))
  | pPushed id we =>
    simp [step] at h; obtain ⟨rfl, rfl⟩ := h
    exact frame_step g rfl (L_idle l rfl rfl (by simp))
  | pLinked id we =>
    simp only [step] at h
    split at h
    · split at h <;> (simp at h; obtain ⟨rfl, rfl⟩ := h; exact frame_step g rfl (L_idle l rfl rfl (by simp)))
    · split at h
      · simp at h; obtain ⟨rfl, rfl⟩ := h; exact frame_step g rfl (L_idle l rfl rfl (by simp))
      · simp at h; obtain ⟨rfl, rfl⟩ := h; exact frame_step g rfl (L_idle l rfl rfl (by simp))
  | sTry id =>
    simp only [step] at h
    split at h
    · rename_i hi
      simp at h; obtain ⟨rfl, rfl⟩ := h
      have hO : sh.dq.O = none := by
        simp [Dq.idle] at hi; exact hi.2
      exact acquire_step _ g hO rfl rfl ⟨rfl, rfl, rfl⟩ rfl (by simp)
    · simp at h; obtain ⟨rfl, rfl⟩ := h; exact frame_step g rfl (L_idle l rfl rfl (by simp))
  | sRunFast id =>
    simp [step] at h; obtain ⟨rfl, rfl⟩ := h; exact frame_step g rfl (L_keep l rfl (by simp))
  | sRunningFast id =>
    simp [step] at h; obtain ⟨rfl, rfl⟩ := h; exact frame_step g rfl (L_keep l rfl (by simp))
  | sFastUnlock =>
    simp only [step] at h
    split at h
    · simp at h; obtain ⟨rfl, rfl⟩ := h; exact frame_step g rfl (L_keep l rfl (by simp))
    · split at h
      · simp at h; obtain ⟨rfl, rfl⟩ := h; exact frame_step g rfl (L_keep l rfl (by simp))
      · simp at h; obtain ⟨rfl, rfl⟩ := h
        exact holder_step _ g l rfl rfl rfl (by simp [holds]) (Or.inl rfl) (by simp)
  | sSlowPush id =>
    simp [step] at h; obtain ⟨rfl, rfl⟩ := h; exact frame_step g rfl (L_idle l rfl rfl (by simp))
  | sSlowLink id we =>
    simp only [step] at h
    split at h <;> (simp at h; obtain ⟨rfl, rfl⟩ := h; exact frame_step g rfl (L_idle l rfl rfl (by simp)))
  | sSlowRmw id =>
    simp only [step] at h
    split at h
    · simp at h; obtain ⟨rfl, rfl⟩ := h; exact frame_step g rfl (L_idle l rfl rfl (by simp))
    · rename_i hc
      simp at h; obtain ⟨rfl, rfl⟩ := h
      have hO : sh.dq.O = none := by
        simp at hc; cases hO : sh.dq.O with
        | none => rfl
        | some _ => simp [hO] at hc
      exact acquire_step _ g hO rfl rfl ⟨rfl, rfl, rfl⟩ rfl (by simp)
  | sWait id =>
    simp only [step] at h
    split at h
    · rename_i hc
      simp at h; obtain ⟨rfl, rfl⟩ := h
      have hmem : t ∈ sh.signalled := by simpa using hc
      have hl := g.sig t hmem
      refine ⟨⟨?_, ?_, ?_, ?_⟩, ⟨?_, ?_, ?_⟩, ?_⟩
      · intro w hw; exact g.sig w (List.mem_of_mem_erase hw)
      · intro w u hw; exact g.xf w u hw
      · exact g.nodup.erase t
      · intro w u hw hm; exact g.xsig w u hw (List.mem_of_mem_erase hm)
      · intro _
        refine ⟨hl, ?_, ?_⟩
        · exact fun hm => (List.Nodup.mem_erase_iff g.nodup).mp hm |>.1 rfl
        · intro u hx; exact g.xsig t u hx hmem
      · intro w k e; simp at e
      · intro _; exact Or.inl rfl
      · intro t' q ne lq
        refine ⟨?_, ?_, ?_⟩
        · intro hq; exact absurd (locked_unique' (lq.own hq).1 hl) ne
        · intro w k e; exact lq.sg w k e
        · intro hO'; exact absurd (Option.some.inj (hO'.symm.trans hl.1)) ne
    · simp at h
  | sRunSlow id =>
    simp [step] at h; obtain ⟨rfl, rfl⟩ := h; exact frame_step g rfl (L_keep l rfl (by simp))
  | sRunningSlow id =>
    simp [step] at h; obtain ⟨rfl, rfl⟩ := h; exact frame_step g rfl (L_keep l rfl (by simp))
  | bc1 c2 k =>
    simp only [step] at h
    split at h
    · simp at h; obtain ⟨rfl, rfl⟩ := h; exact frame_step g rfl (L_keep l rfl (by simp))
    · split at h
      · simp at h
      · split at h <;> (simp at h; obtain ⟨rfl, rfl⟩ := h; exact frame_step g rfl (L_keep l rfl (by simp)))
  | bc2 target c2 k =>
    simp only [step] at h
    split at h
    · simp at h; obtain ⟨rfl, rfl⟩ := h
      exact holder_step _ g l rfl rfl rfl (by simp [kPc_not_holds]) (Or.inl rfl) (kPc_not_sig k)
    · split at h
      · simp at h; obtain ⟨rfl, rfl⟩ := h; exact frame_step g rfl (L_keep l rfl (by simp))
      · simp at h; obtain ⟨rfl, rfl⟩ := h
        exact holder_step _ g l rfl rfl rfl (by simp [kPc_not_holds]) (Or.inl rfl) (kPc_not_sig k)
  | dbwPop enq k =>
    simp only [step] at h
    split at h
    · split at h
      · simp at h
      · split at h
        · simp at h; obtain ⟨rfl, rfl⟩ := h; exact frame_step g rfl (L_keep l rfl (by simp))
        · simp at h
    · simp at h
  | dbwRmw w enq k =>
    simp [step] at h; obtain ⟨rfl, rfl⟩ := h
    obtain ⟨hl, hns, hnx⟩ := l.own rfl
    have hsig : sh.signalled = [] := by
      cases hs : sh.signalled with
      | nil => rfl
      | cons w' _ =>
        have := locked_unique' hl (g.sig w' (by simp [hs])); subst this
        exact absurd (by simp [hs]) hns
    have hxf : sh.xfer = none := by
      cases hx : sh.xfer with
      | none => rfl
      | some p =>
        have := locked_unique' hl (g.xf p.1 p.2 (by simp [hx])); subst this
        exact absurd hx (hnx p.2)
    refine ⟨⟨?_, ?_, ?_, ?_⟩, ⟨?_, ?_, ?_⟩, ?_⟩
    · intro w' hw; simp [hsig] at hw
    · intro w' u hw; simp at hw; obtain ⟨rfl, rfl⟩ := hw
      exact ⟨rfl, hl.2.1, hl.2.2⟩
    · simp [hsig]
    · intro w' u _; simp [hsig]
    · intro hh; simp [holds] at hh
    · intro w' k' e; simp at e; obtain ⟨rfl, rfl⟩ := e; rfl
    · intro hO'; simp at hO'; subst hO'; exact Or.inr (Or.inr ⟨_, rfl⟩)
    · intro t' q ne lq
      refine ⟨?_, ?_, ?_⟩
      · intro hq; exact absurd (locked_unique' (lq.own hq).1 hl) ne
      · intro w' k' e; have := lq.sg w' k' e; simp [hxf] at this
      · intro hO'; simp at hO'; subst hO'; exact Or.inr (Or.inr ⟨_, rfl⟩)
  | dbwSignal w k =>
    simp [step] at h; obtain ⟨rfl, rfl⟩ := h
    have hx := l.sg w k rfl
    have hl := g.xf w t hx
    have hns := g.xsig w t hx
    refine ⟨⟨?_, ?_, ?_, ?_⟩, ⟨?_, ?_, ?_⟩, ?_⟩
    · intro w' hw; simp at hw; rcases hw with rfl | hw
      · exact hl
      · exact g.sig w' hw
    · intro w' u hw; simp at hw
    · exact List.nodup_cons.mpr ⟨hns, g.nodup⟩
    · intro w' u hw; simp at hw
    · intro hh; simp [kPc_not_holds] at hh
    · intro w' k' e; exact absurd e (kPc_not_sig k w' k')
    · intro hO'
      have := Option.some.inj (hO'.symm.trans hl.1); subst this
      exact Or.inr (Or.inl (by simp))
    · intro t' q ne lq
      refine ⟨?_, ?_, ?_⟩
      · intro hq
        obtain ⟨hl', _, hnx'⟩ := lq.own hq
        have := locked_unique' hl' hl; subst this
        exact absurd hx (hnx' t)
      · intro w' k' e
        have := lq.sg w' k' e
        rw [hx] at this; simp at this; exact absurd this.2.symm ne
      · intro hO'
        have := Option.some.inj (hO'.symm.trans hl.1); subst this
        exact Or.inr (Or.inl (by simp))
  | wIdle =>
    simp only [step] at h
    split at h
    · simp at h; obtain ⟨rfl, rfl⟩ := h; exact frame_step g rfl (L_idle l rfl rfl (by simp))
    · simp at h
  | dTryLock =>
    simp only [step] at h
    split at h
    · rename_i hc
      simp at h; obtain ⟨rfl, rfl⟩ := h
      have hO : sh.dq.O = none := by
        simp at hc; exact hc.2
      exact acquire_step _ g hO rfl rfl ⟨rfl, rfl, rfl⟩ rfl (by simp)
    · simp at h; obtain ⟨rfl, rfl⟩ := h; exact frame_step g rfl (L_idle l rfl rfl (by simp))
  | dInvoke =>
    simp only [step] at h
    split at h <;> (simp at h; obtain ⟨rfl, rfl⟩ := h; exact frame_step g rfl (L_keep l rfl (by simp)))
  | dLoopHead =>
    simp only [step] at h
    split at h
    · simp at h
    · split at h
      · simp at h
      · split at h
        · simp at h; obtain ⟨rfl, rfl⟩ := h; exact frame_step g rfl (L_keep l rfl (by simp))
        · split at h
          · simp at h
          · simp at h; obtain ⟨rfl, rfl⟩ := h; exact frame_step g rfl (L_keep l rfl (by simp))
  | dRun id =>
    simp [step] at h; obtain ⟨rfl, rfl⟩ := h; exact frame_step g rfl (L_keep l rfl (by simp))
  | dRunning id =>
    simp [step] at h; obtain ⟨rfl, rfl⟩ := h; exact frame_step g rfl (L_keep l rfl (by simp))
  | dLoopNext =>
    simp only [step] at h
    split at h <;> (simp at h; obtain ⟨rfl, rfl⟩ := h; exact frame_step g rfl (L_keep l rfl (by simp)))
  | dUnlock =>
    simp only [step] at h
    split at h
    · simp at h; obtain ⟨rfl, rfl⟩ := h; exact frame_step g rfl (L_keep l rfl (by simp))
    · simp at h; obtain ⟨rfl, rfl⟩ := h
      exact holder_step _ g l rfl rfl rfl (by simp [holds]) (Or.inl rfl) (by simp)

theorem inv_init : Inv { sh := {}, pcs := fun _ => .idle } :=
  ⟨⟨by intro w hw; simp at hw, by intro w t hw; simp at hw, by simp, by intro w t hw; simp at hw⟩,
   fun _ => ⟨fun hh => by simp [holds] at hh, fun w k e => by simp at e, fun hO => by simp at hO⟩⟩

theorem inv_step {s s' : St} (hinv : Inv s) (hstep : Step s s') : Inv s' := by
  cases hstep with
  | mk t op sh' pc' h =>
    obtain ⟨hg, hl, hoth⟩ := step_local hinv.g (hinv.l t) h
    refine ⟨hg, fun t' => ?_⟩
    by_cases e : t' = t
    · subst e; simpa using hl
    · simpa [e] using hoth t' _ e (hinv.l t')

theorem inv_reachable {s : St} (h : Reachable s) : Inv s := by
  induction h with
  | init => exact inv_init
  | step _ hs ih => exact inv_step ih hs

/-- **Serial exclusion**: in every reachable state, for any number of threads and any client
    program, at most one thread is inside a work item of the lane. -/
theorem serial_exclusion {s : St} (h : Reachable s) (t t' : Tid)
    (ht : isRunning (s.pcs t) = true) (ht' : isRunning (s.pcs t') = true) : t = t' := by
  have inv := inv_reachable h
  have hh : ∀ pc, isRunning pc = true → holds pc = true := by
    intro pc; cases pc <;> simp [isRunning, holds]
  exact locked_unique' ((inv.l t).own (hh _ ht)).1 ((inv.l t').own (hh _ ht')).1

end LaneR
