import DispatchVerif.Core.LaneWStep5
namespace LaneW

set_option maxHeartbeats 4000000 in
theorem step_dnb {W : Nat} (hW : 1 ≤ W) {sh : Sh} {t : Tid} {pc : Pc} {op : Op} {sh' : Sh} {pc' : Pc}
    (g : G W sh) (l : L sh t pc) (h : (sh', pc') ∈ step W sh t pc op)
    (hpc : (∃ c k, pc = .dnb0 c k) ∨ (∃ ow c k, pc = .dnbWidth ow c k) ∨ (∃ ow c k, pc = .dnbPop ow c k) ∨
           (∃ ow nx c k, pc = .dnbFin ow nx c k)) :
    Post W sh sh' t pc' := by
  rcases hpc with ⟨c2, k, rfl⟩ | ⟨ow, c2, k, rfl⟩ | ⟨ow, c2, k, rfl⟩ | ⟨ow, nx, c2, k, rfl⟩
  · -- dnb0
    simp [step] at h; obtain ⟨rfl, rfl⟩ := h
    exact ownerB_to_units g l rfl rfl rfl (by simp [unitsOf]; omega) (by simp)
  · -- dnbWidth
    have hnB := (l.ownU rfl).2
    simp only [step] at h
    split at h
    · simp at h
    · split at h
      · rename_i hpos
        simp at h; obtain ⟨rfl, rfl⟩ := h
        exact frame_step g rfl (L_same l rfl rfl (by simp [unitsOf]; omega) (by simp))
      · split at h
        · simp at h; obtain ⟨rfl, rfl⟩ := h
          have e : ow = 0 := by omega
          subst e
          exact take_unit g l hnB rfl rfl rfl (by simp) (fun _ => rfl)
        · split at h
          · simp at h; obtain ⟨rfl, rfl⟩ := h
            have e : ow = 0 := by omega
            subst e
            exact take_unit g l hnB rfl rfl rfl (by simp) (fun _ => rfl)
          · simp at h; obtain ⟨rfl, rfl⟩ := h
            have e : ow = 0 := by omega
            subst e
            exact frame_step g rfl (L_same l rfl rfl rfl (by simp))
  · -- dnbPop
    have hnB := (l.ownU rfl).2
    simp only [step] at h
    split at h
    · simp at h
    · split at h
      · simp at h
      · split at h
        · simp at h; obtain ⟨rfl, rfl⟩ := h
          exact hand_over g l hnB _ _ rfl rfl rfl (by simp) (fun _ => rfl)
        · split at h <;> (simp at h; obtain ⟨rfl, rfl⟩ := h; exact hand_over g l hnB _ _ rfl rfl rfl (by simp) (fun _ => rfl))
  · -- dnbFin
    have ⟨hOt, hnB⟩ := l.ownU rfl
    have hpb := l.npb rfl
    have ⟨kb, ku, kn, ks⟩ := kPc_props k
    have hc := l.cnt
    have hgW := g.gW
    simp only [step] at h
    split at h
    · -- a next item exists
      rename_i nb
      have hspec := dnbFinDq_spec W sh.dq ow nb t hnB hpb
      generalize dnbFinDq W sh.dq ow nb t = n at h hspec
      rcases hspec with ⟨nB, nO, nu⟩ | ⟨nB, nu, npb, nO, hfree⟩
      · simp only [nB, Bool.false_and, Bool.false_eq_true, if_false] at h
        split at h <;> (simp at h; obtain ⟨rfl, rfl⟩ := h; exact owner_units_rewrite g l rfl ow (by rw [kn]; simp [unitsOf]) _ _ nB (by rw [nu, hpb]; simp) (Or.inr ⟨nO, kb, ku⟩) ks (by intro hd; rw [kPc_notDnb] at hd; simp at hd))
      · simp [nB, hnB] at h; obtain ⟨rfl, rfl⟩ := h
        have hle : ow ≤ sh.holders.count t := by simp [unitsOf] at hc; omega
        have hlen := length_rmN ow t sh.holders hle
        have hfr : (rmN ow t sh.holders).length = 0 ∧ sh.redirects = 0 := by
          simp [hnB, hpb] at hgW; omega
        exact release_and_lock g l ow (by simp [unitsOf]) (Or.inr hOt) hnB hfr _ ⟨nu, nB, npb, nO⟩
          (by simp [holdsB]) (by simp [holdsU]) (by simp [unitsOf]) (by simp)
    · -- no next item
      split at h
      · split at h
        · simp at h; obtain ⟨rfl, rfl⟩ := h
          exact frame_step g rfl (L_same l rfl rfl rfl (by simp))
        · split at h <;> (simp at h; obtain ⟨rfl, rfl⟩ := h; exact frame_step g rfl (L_same l rfl rfl rfl (by simp)))
      · simp at h; obtain ⟨rfl, rfl⟩ := h
        have := owner_units_rewrite g l rfl ow (pc' := kPc k) (by rw [kn]; simp [unitsOf])
          { sh.dq with u := sh.dq.u - ow, O := none, D := false } sh.tokens hnB (by simp [hpb])
          (Or.inr ⟨rfl, kb, ku⟩) ks (by intro hd; rw [kPc_notDnb] at hd; simp at hd)
        exact this

end LaneW
