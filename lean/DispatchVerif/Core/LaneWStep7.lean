import DispatchVerif.Core.LaneWStep6
namespace LaneW

set_option maxHeartbeats 4000000 in
theorem step_drain {W : Nat} (hW : 1 ≤ W) {sh : Sh} {t : Tid} {pc : Pc} {op : Op} {sh' : Sh} {pc' : Pc}
    (g : G W sh) (l : L sh t pc) (h : (sh', pc') ∈ step W sh t pc op)
    (hpc : pc = .wIdle ∨ pc = .dTryLock ∨ (∃ ow, pc = .dInvoke ow) ∨ (∃ ow, pc = .dLoopHead ow) ∨
           (∃ n, pc = .dUpgrade n) ∨ pc = .dDropBarrier ∨ pc = .dWidth ∨ (∃ n, pc = .dPopNB n) ∨
           (∃ ow, pc = .dLoopNext ow) ∨ (∃ ow dn, pc = .dUnlock ow dn)) :
    Post W sh sh' t pc' := by
  have hc := l.cnt
  have hgW := g.gW
  rcases hpc with rfl | rfl | ⟨ow, rfl⟩ | ⟨ow, rfl⟩ | ⟨n, rfl⟩ | rfl | rfl | ⟨n, rfl⟩ | ⟨ow, rfl⟩ | ⟨ow, dn, rfl⟩
  · -- wIdle
    simp only [step, List.mem_append] at h
    rcases h with h | h
    · split at h
      · simp at h; obtain ⟨rfl, rfl⟩ := h
        exact frame_step g rfl (L_same l rfl rfl rfl (by simp))
      · simp at h
    · split at h
      · rename_i hr
        simp at h; obtain ⟨rfl, rfl⟩ := h
        have hnB : sh.dq.B = false := by
          cases hb : sh.dq.B with
          | false => rfl
          | true => have := (g.gB hb).2.1; omega
        refine ⟨⟨?_, ?_, ?_, ?_, g.nodup, g.xsig⟩, ⟨?_, ?_, ?_, ?_, (by ndnb)⟩,
          others_keep rfl rfl (by intro u hu; rfl) rfl (by intro u hu; simp [List.count_cons, Ne.symm hu])⟩
        · simp [hnB] at hgW ⊢; omega
        · intro hb; simp [hnB] at hb
        · intro w hw; exact g.sig w hw
        · intro w u hw; exact g.xf w u hw
        · intro hb; simp [holdsB, After.isBar] at hb
        · intro hb; simp [holdsU] at hb
        · simp [unitsOf, After.isBar, List.count_cons] at hc ⊢; omega
        · intro w k e; simp at e
      · simp at h
  · -- dTryLock
    simp only [step] at h
    split at h
    · rename_i hrun
      simp [Dq.runnable] at hrun
      obtain ⟨⟨hnB, hlt⟩, hOn⟩ := hrun
      have hOn' : sh.dq.O = none := by
        cases ho : sh.dq.O with
        | none => rfl
        | some _ => simp [ho] at hOn
      split at h
      · rename_i hlk
        simp at h; obtain ⟨rfl, rfl⟩ := h
        have hfree : sh.holders = [] ∧ sh.redirects = 0 := by
          simp [Dq.lockable] at hlk
          simp [hnB] at hgW
          have : sh.holders.length = 0 ∧ sh.redirects = 0 := by
            rcases hlk with hp | hz
            · simp [hp] at hgW; omega
            · cases hp : sh.dq.pb <;> simp [hp] at hgW <;> omega
          exact ⟨List.length_eq_zero_iff.mp this.1, this.2⟩
        exact acquireB g l hOn' hfree rfl rfl rfl rfl (by simp)
      · rename_i hlk
        simp at h; obtain ⟨rfl, rfl⟩ := h
        have hpb : sh.dq.pb = false := by
          cases hp : sh.dq.pb with
          | false => rfl
          | true => simp [Dq.lockable, hp] at hlk
        exact acquireU g l hOn' hnB hpb hlt rfl _ _ rfl rfl (by simp)
    · simp at h; obtain ⟨rfl, rfl⟩ := h
      exact frame_step g rfl (L_same l rfl rfl rfl (by simp))
  · -- dInvoke
    simp only [step] at h
    split at h <;> (simp at h; obtain ⟨rfl, rfl⟩ := h; cases ow <;> exact frame_step g rfl (L_same l rfl rfl rfl (by simp)))
  · -- dLoopHead
    simp only [step] at h
    split at h
    · simp at h
    · split at h
      · simp at h
      · split at h
        · split at h
          · simp at h; obtain ⟨rfl, rfl⟩ := h
            exact frame_step g rfl (L_same l rfl rfl rfl (by simp))
          · split at h
            · simp at h; obtain ⟨rfl, rfl⟩ := h
              exact frame_step g rfl (L_same l rfl rfl rfl (by simp))
            · split at h
              · simp at h
              · simp at h; obtain ⟨rfl, rfl⟩ := h
                exact frame_step g rfl (L_same l rfl rfl rfl (by simp))
        · split at h <;> (simp at h; obtain ⟨rfl, rfl⟩ := h; exact frame_step g rfl (L_same l rfl rfl rfl (by simp)))
  · -- dUpgrade
    have ⟨hOt, hnB⟩ := l.ownU rfl
    have hle : n ≤ sh.holders.count t := by simp [unitsOf] at hc; omega
    have hlen := length_rmN n t sh.holders hle
    have ⟨sO, hspec⟩ := upgradeDq_spec W sh.dq n hnB
    simp only [step] at h
    generalize upgradeDq W sh.dq n = r at h hspec sO
    rcases hspec with ⟨rB, rpb, ru⟩ | ⟨rB, rpb, ru, hlt⟩
    · simp [rB] at h; obtain ⟨rfl, rfl⟩ := h
      have := owner_units_rewrite g l rfl n (pc' := .dUnlock (.units 0) false) (by simp [unitsOf]) r sh.tokens rB
        (by rw [ru, rpb]; cases hp : sh.dq.pb <;> simp <;> omega)
        (Or.inl ⟨by rw [sO, hOt], rfl⟩) (by simp) (by simp [isDnb])
      exact this
    · simp [rB] at h; obtain ⟨rfl, rfl⟩ := h
      have hfr : (rmN n t sh.holders).length = 0 ∧ sh.redirects = 0 ∧ r.u = W := by
        simp [hnB] at hgW
        cases hp : sh.dq.pb <;> simp [hp] at hgW hlt ru <;> omega
      exact release_and_lock g l n (by simp [unitsOf]) (Or.inr hOt) hnB ⟨hfr.1, hfr.2.1⟩ _
        ⟨hfr.2.2, rB, rpb, by rw [sO, hOt]⟩ (by simp [holdsB]) (by simp [holdsU]) (by simp [unitsOf]) (by simp)
  · -- dDropBarrier
    simp [step] at h; obtain ⟨rfl, rfl⟩ := h
    exact ownerB_to_units g l rfl rfl rfl (by simp [unitsOf]) (by simp)
  · -- dWidth
    have hnB := (l.ownU rfl).2
    simp only [step] at h
    split at h
    · simp at h
    · split at h
      · simp at h; obtain ⟨rfl, rfl⟩ := h
        exact take_unit g l hnB rfl rfl rfl (by simp) (by simp [isDnb])
      · split at h
        · simp at h; obtain ⟨rfl, rfl⟩ := h
          exact take_unit g l hnB rfl rfl rfl (by simp) (by simp [isDnb])
        · simp at h; obtain ⟨rfl, rfl⟩ := h
          exact frame_step g rfl (L_same l rfl rfl rfl (by simp))
  · -- dPopNB
    have hnB := (l.ownU rfl).2
    simp only [step] at h
    split at h
    · simp at h
    · split at h
      · simp at h
      · simp at h; obtain ⟨rfl, rfl⟩ := h
        exact hand_over g l hnB _ _ rfl rfl rfl (by simp) (by simp [isDnb])
  · -- dLoopNext
    simp only [step] at h
    split at h <;> (simp at h; obtain ⟨rfl, rfl⟩ := h; cases ow <;> exact frame_step g rfl (L_same l rfl rfl rfl (by simp)))
  · -- dUnlock
    simp only [step] at h
    split at h
    · simp at h; obtain ⟨rfl, rfl⟩ := h
      cases ow <;> exact frame_step g rfl (L_same l rfl rfl rfl (by simp))
    · split at h
      · simp at h; obtain ⟨rfl, rfl⟩ := h
        exact ownerB_release g l rfl rfl _ _ ⟨rfl, rfl, rfl, rfl⟩ rfl rfl rfl (by simp)
      · rename_i n'
        simp at h; obtain ⟨rfl, rfl⟩ := h
        have hnB := (l.ownU rfl).2
        have := owner_units_rewrite g l rfl n' (pc' := .wIdle) (by simp [unitsOf])
          { sh.dq with u := sh.dq.u - n', O := none, E := false, D := !dn } sh.tokens hnB
          (by simp; cases hp : sh.dq.pb <;> simp <;> omega)
          (Or.inr ⟨rfl, rfl, rfl⟩) (by simp) (by simp [isDnb])
        exact this

end LaneW
