import DispatchVerif.Core.TimeB
/-! C12 model of the code as it is after the `fix:` commits for F8 and F1:
    `dispatch_time` (wall arm with the `<= 1` clamp), `dispatch_walltime` (overflow-checked base
    conversion and add, encoding through `_dispatch_clock_and_value_to_time`) and `_dispatch_timeout`.
    `TimeA` keeps the shared definitions (`decode`, `encode`, `coreRel`) and, for the record, the
    pre-fix wall arm `coreWall` with its exact characterisation. -/
namespace TimeP

instance (d : Int) : Decidable (I64 d) := by unfold I64; infer_instance

/-- `(int64_t)x <= 1` for a uint64 x -/
abbrev sle1 (x : Nat) : Prop := x ≤ 1 ∨ x ≥ 9223372036854775808

/-- the wall-clock arm of dispatch_time (current code) -/
def coreWall' (value : Nat) (delta : Int) : Nat :=
  let v := (value + u64 delta) % W
  if delta ≥ 0 then
    if sle0 v then FOREVER else encode .wall v
  else
    encode .wall (if sle1 v then 2 else v)

/-- dispatch_time(inval, delta), current code -/
def dispatchTime' (inval : Nat) (delta : Int) (nowUp nowMono nowWall : Nat) : Nat :=
  if inval = FOREVER then FOREVER else
  let (clock, value) := decode inval nowWall
  if value = FOREVER then FOREVER else
  match clock with
  | .wall => coreWall' value delta
  | c =>
    let value := if value = 0 then (if c = .up then nowUp else nowMono) else value
    coreRel c value delta

/-- the tail of dispatch_walltime once the signed base (ns since the epoch) is known:
    `os_add_overflow(nsec, delta, &nsec)`, the `<= 1` test, and the range-checked encoding -/
def walltimeCore (base delta : Int) : Nat :=
  let s := base + delta
  if ¬ I64 s then (if delta ≥ 0 then FOREVER else WALLNOW)
  else if s ≤ 1 then WALLNOW
  else encode .wall s.toNat

/-- dispatch_walltime(&{sec, nsec}, delta): `os_mul_overflow`/`os_add_overflow` on the base -/
def walltimeTs (sec nsec delta : Int) : Nat :=
  if ¬ I64 (sec * 1000000000) ∨ ¬ I64 (sec * 1000000000 + nsec) then
    (if sec < 0 then WALLNOW else FOREVER)
  else walltimeCore (sec * 1000000000 + nsec) delta

/-- `(int64_t)x` for a uint64 x -/
def toI64 (x : Nat) : Int := if x ≥ B63 then (x : Int) - 18446744073709551616 else x

/-- dispatch_walltime(NULL, delta) -/
def walltimeNow (nowWall : Nat) (delta : Int) : Nat := walltimeCore (toI64 nowWall) delta

/-- _dispatch_timeout(when) (ns; mach unit = ns on this platform); clock readings as parameters -/
def timeout (when nowUp nowMono nowWall : Nat) : Nat :=
  if when = FOREVER then FOREVER else
  if when = 0 then 0 else
  let (clock, value) := decode when nowWall
  match clock with
  | .wall => if nowWall ≥ value then 0 else value - nowWall
  | .up => if nowUp ≥ value then 0 else value - nowUp
  | .mono => if nowMono ≥ value then 0 else value - nowMono

/-! ### the wall arm after the fix: exact for every delta -/

theorem coreWall'_eq (v : Nat) (d : Int) (h1 : 2 ≤ v) (h2 : v ≤ MAXV) (hd : I64 d) :
    coreWall' v d =
      if (v : Int) + d ≥ MAXV then FOREVER
      else if (v : Int) + d ≤ 2 then WALLNOW
      else W - ((v : Int) + d).toNat := by
  unfold coreWall'
  unfold I64 at hd
  by_cases hpos : d ≥ 0
  · have hu : (u64 d : Int) = d := u64_nonneg hd hpos
    have hm : (v + u64 d) % W = v + u64 d := by unfold W MAXV at *; omega
    simp only [hpos, if_true, hm]
    by_cases hs : sle0 (v + u64 d)
    · have : (v : Int) + d ≥ MAXV := by unfold MAXV at *; omega
      simp [hs, this]
    · simp only [hs, if_false]
      by_cases hmax : (v : Int) + d ≥ MAXV
      · simp only [hmax, if_true]
        exact encode_forever _ _ (by unfold MAXV at *; omega)
      · simp only [hmax, if_false]
        unfold encode
        have : ¬ (v + u64 d ≥ MAXV) := by unfold MAXV at *; omega
        simp only [this, if_false]
        by_cases h2' : (v : Int) + d ≤ 2
        · simp only [h2', if_true]
          unfold W WALLNOW MAXV at *; omega
        · simp only [h2', if_false]
          unfold W MAXV at *; omega
  · have hneg : d < 0 := by omega
    have hu : (u64 d : Int) = d + 18446744073709551616 := u64_neg hd hneg
    have hmax : ¬ ((v : Int) + d ≥ MAXV) := by unfold MAXV at *; omega
    simp only [hpos, hmax, if_false]
    by_cases hlow : (v : Int) + d ≤ 1
    · have hs : sle1 ((v + u64 d) % W) := by unfold W MAXV at *; omega
      have h2' : (v : Int) + d ≤ 2 := by omega
      simp only [hs, h2', if_true]
      unfold encode W MAXV WALLNOW; simp
    · have hm : (v + u64 d) % W = ((v : Int) + d).toNat := by unfold W MAXV at *; omega
      have hs : ¬ sle1 (((v : Int) + d).toNat) := by unfold MAXV at *; omega
      simp only [hm, hs, if_false]
      unfold encode
      have : ¬ (((v : Int) + d).toNat ≥ MAXV) := by unfold MAXV at *; omega
      simp only [this, if_false]
      by_cases h2' : (v : Int) + d ≤ 2
      · simp only [h2', if_true]
        unfold W WALLNOW MAXV at *; omega
      · simp only [h2', if_false]
        unfold W MAXV at *; omega

/-- the value the wall result denotes: `W - x` is the encoding of wall value `x` -/
theorem encode_wall_eq (x : Nat) (h1 : 1 ≤ x) (h2 : x < MAXV) : encode .wall x = W - x := by
  unfold encode
  have : ¬ (x ≥ MAXV) := by omega
  simp only [this, if_false]
  unfold W MAXV at *; omega

theorem wallnow_eq : WALLNOW = encode .wall 2 := by
  unfold encode WALLNOW W MAXV; simp

/-- **Wall clock (after the F8 fix): exact shift with saturation, for all 2^64 deltas.** FOREVER exactly
    when the sum is beyond the representable future, the earliest representable wall time
    (`encode .wall 2`, which every consumer treats as already elapsed) when the sum is ≤ 2, else the
    exact sum, on the wall clock. -/
theorem wall_shift (v : Nat) (d : Int) (h1 : 2 ≤ v) (h2 : v ≤ MAXV) (hd : I64 d) :
    coreWall' v d =
      if (v : Int) + d ≥ MAXV then FOREVER
      else encode .wall (max 2 ((v : Int) + d)).toNat := by
  rw [coreWall'_eq v d h1 h2 hd]
  by_cases hm : (v : Int) + d ≥ MAXV
  · simp [hm]
  · simp only [hm, if_false]
    by_cases hl : (v : Int) + d ≤ 2
    · simp only [hl, if_true]
      have : (max 2 ((v : Int) + d)).toNat = 2 := by omega
      rw [this]; exact wallnow_eq
    · simp only [hl, if_false]
      have e : (max 2 ((v : Int) + d)).toNat = ((v : Int) + d).toNat := by omega
      rw [e, encode_wall_eq _ (by omega) (by unfold MAXV at *; omega)]

theorem wall_monotone (v : Nat) (d1 d2 : Int) (h1 : 2 ≤ v) (h2 : v ≤ MAXV)
    (hd1 : I64 d1) (hd2 : I64 d2) (hle : d1 ≤ d2) :
    coreWall' v d2 = FOREVER ∨
      ∃ x1 x2, coreWall' v d1 = encode .wall x1 ∧ coreWall' v d2 = encode .wall x2 ∧
        2 ≤ x1 ∧ x1 ≤ x2 ∧ x2 < MAXV := by
  rw [wall_shift v d1 h1 h2 hd1, wall_shift v d2 h1 h2 hd2]
  by_cases hm2 : (v : Int) + d2 ≥ MAXV
  · left; simp [hm2]
  · right
    have hm1 : ¬ ((v : Int) + d1 ≥ MAXV) := by omega
    simp only [hm1, hm2, if_false]
    refine ⟨_, _, rfl, rfl, ?_, ?_, ?_⟩ <;> (unfold MAXV at *; omega)

/-- the F8 point now behaves: base 3 ns, delta −2 is an elapsed wall time, not FOREVER -/
theorem wall_sum_one_fixed : coreWall' 3 (-2) = WALLNOW := by
  have a := coreWall'_eq 3 (-2) (by omega) (by unfold MAXV; omega) (by unfold I64; omega)
  unfold MAXV at a
  rw [a]; simp

/-! ### dispatch_time on every base encoding -/

theorem dt'_up (v : Nat) (d : Int) (nu nm nw : Nat) (h1 : 1 ≤ v) (h2 : v ≤ MAXV) :
    dispatchTime' v d nu nm nw = coreRel .up v d := by
  unfold dispatchTime'
  have hv1 : ¬ (v = FOREVER) := by unfold FOREVER MAXV at *; omega
  have hv0 : ¬ (v = 0) := by omega
  rw [if_neg hv1, decode_up v nw h2]
  simp only [hv1, hv0, if_false]

theorem dt'_up_now (d : Int) (nu nm nw : Nat) :
    dispatchTime' 0 d nu nm nw = coreRel .up nu d := by
  unfold dispatchTime'
  have hv1 : ¬ ((0:Nat) = FOREVER) := by unfold FOREVER; omega
  rw [if_neg hv1, decode_up 0 nw (by unfold MAXV; omega)]
  simp [FOREVER]

theorem dt'_mono (v : Nat) (d : Int) (nu nm nw : Nat) (h1 : 1 ≤ v) (h2 : v ≤ MAXV) :
    dispatchTime' (v + B63) d nu nm nw = coreRel .mono v d := by
  unfold dispatchTime'
  have hv1 : ¬ (v + B63 = FOREVER) := by unfold FOREVER MAXV B63 at *; omega
  have hvf : ¬ (v = FOREVER) := by unfold FOREVER MAXV at *; omega
  have hv0 : ¬ (v = 0) := by omega
  rw [if_neg hv1, decode_mono v nw h2]
  simp only [hvf, hv0, if_false]

theorem dt'_mono_now (d : Int) (nu nm nw : Nat) :
    dispatchTime' B63 d nu nm nw = coreRel .mono nm d := by
  unfold dispatchTime'
  have hv1 : ¬ (B63 = FOREVER) := by unfold FOREVER B63; omega
  have := decode_mono 0 nw (by unfold MAXV; omega)
  simp only [Nat.zero_add] at this
  rw [if_neg hv1, this]
  simp [FOREVER]

theorem dt'_wall (v : Nat) (d : Int) (nu nm nw : Nat) (h1 : 3 ≤ v) (h2 : v ≤ MAXV) :
    dispatchTime' (W - v) d nu nm nw = coreWall' v d := by
  unfold dispatchTime'
  have hv1 : ¬ (W - v = FOREVER) := by unfold FOREVER MAXV W at *; omega
  have hvf : ¬ (v = FOREVER) := by unfold FOREVER MAXV at *; omega
  rw [if_neg hv1, decode_wall v nw h1 h2]
  simp only [hvf, if_false]

theorem decode_wallnow (nw : Nat) : decode WALLNOW nw = (.wall, if nw > MAXV then FOREVER else nw) := by
  unfold decode WALLNOW B63 B62
  simp

theorem dt'_wall_now (d : Int) (nu nm nw : Nat) (h2 : nw ≤ MAXV) :
    dispatchTime' WALLNOW d nu nm nw = coreWall' nw d := by
  unfold dispatchTime'
  have hv1 : ¬ (WALLNOW = FOREVER) := by unfold FOREVER WALLNOW; omega
  have hvf : ¬ (nw = FOREVER) := by unfold FOREVER MAXV at *; omega
  have hgt : ¬ (nw > MAXV) := by omega
  rw [if_neg hv1, decode_wallnow]
  simp only [hgt, hvf, if_false]

theorem forever_absorbing' (d : Int) (nu nm nw : Nat) : dispatchTime' FOREVER d nu nm nw = FOREVER := by
  unfold dispatchTime'; simp

/-- bases whose value is outside the representable range are FOREVER and stay FOREVER -/
theorem dt'_out_of_range (t : Nat) (d : Int) (nu nm nw : Nat) (h : (decode t nw).2 = FOREVER) :
    dispatchTime' t d nu nm nw = FOREVER := by
  unfold dispatchTime'
  by_cases h0 : t = FOREVER
  · simp [h0]
  · rw [if_neg h0]
    cases hd : decode t nw with
    | mk c v =>
      rw [hd] at h
      simp only at h
      simp [h]

/-- every 64-bit word is one of: FOREVER; an uptime value; NOW; a monotonic value; monotonic-now;
    a wall value; WALLTIME_NOW; or an out-of-range word that decodes to FOREVER -/
theorem classify (t nw : Nat) (ht : t < W) :
    t = FOREVER ∨ t = 0 ∨ t = B63 ∨ t = WALLNOW ∨
    (1 ≤ t ∧ t ≤ MAXV) ∨
    (∃ v, 1 ≤ v ∧ v ≤ MAXV ∧ t = v + B63) ∨
    (∃ v, 3 ≤ v ∧ v ≤ MAXV ∧ t = W - v) ∨
    (decode t nw).2 = FOREVER := by
  by_cases h1 : t = FOREVER; · exact Or.inl h1
  by_cases h2 : t = 0; · exact Or.inr (Or.inl h2)
  by_cases h3 : t = B63; · exact Or.inr (Or.inr (Or.inl h3))
  by_cases h4 : t = WALLNOW; · exact Or.inr (Or.inr (Or.inr (Or.inl h4)))
  by_cases h5 : t ≤ MAXV
  · exact Or.inr (Or.inr (Or.inr (Or.inr (Or.inl ⟨by omega, h5⟩))))
  by_cases h6 : t < B63
  · refine Or.inr (Or.inr (Or.inr (Or.inr (Or.inr (Or.inr (Or.inr ?_))))))
    unfold decode
    have a : ¬ (t ≥ B63) := by omega
    have b : t > MAXV := by omega
    simp [a, b]
  by_cases h7 : t < B63 + B62
  · by_cases h8 : t - B63 ≤ MAXV
    · exact Or.inr (Or.inr (Or.inr (Or.inr (Or.inr (Or.inl ⟨t - B63, by unfold B63 at *; omega, h8, by unfold B63 at *; omega⟩)))))
    · refine Or.inr (Or.inr (Or.inr (Or.inr (Or.inr (Or.inr (Or.inr ?_))))))
      unfold decode
      have a : t ≥ B63 := by omega
      have b : ¬ ((t / B62) % 2 = 1) := by unfold B63 B62 at *; omega
      have c : t - B63 > MAXV := by omega
      simp [a, b, c]
  · by_cases h8 : W - t ≤ MAXV
    · refine Or.inr (Or.inr (Or.inr (Or.inr (Or.inr (Or.inr (Or.inl ⟨W - t, ?_, h8, ?_⟩))))))
      · unfold W FOREVER WALLNOW B63 B62 MAXV at *; omega
      · unfold W at *; omega
    · refine Or.inr (Or.inr (Or.inr (Or.inr (Or.inr (Or.inr (Or.inr ?_))))))
      unfold decode
      have a : t ≥ B63 := by unfold B63 B62 at *; omega
      have b : (t / B62) % 2 = 1 := by unfold W B63 B62 at *; omega
      have e : (W - t) % W = W - t := by unfold W B63 B62 at *; omega
      have c : W - t > MAXV := by omega
      simp [a, b, h4, e, c]

/-! ### dispatch_walltime after the fix -/

theorem walltimeCore_eq (b d : Int) (hb : I64 b) (hd : I64 d) :
    walltimeCore b d =
      if b + d ≥ MAXV then FOREVER
      else encode .wall (max 2 (b + d)).toNat := by
  unfold walltimeCore
  unfold I64 at *
  by_cases hs : (-9223372036854775808 ≤ b + d ∧ b + d < 9223372036854775808)
  · have : ¬¬ (-9223372036854775808 ≤ b + d ∧ b + d < 9223372036854775808) := by simpa using hs
    simp only [this, if_false]
    by_cases h1 : b + d ≤ 1
    · have hm : ¬ (b + d ≥ MAXV) := by unfold MAXV; omega
      simp only [h1, hm, if_true, if_false]
      have : (max 2 (b + d)).toNat = 2 := by omega
      rw [this]; exact wallnow_eq
    · simp only [h1, if_false]
      by_cases hm : b + d ≥ MAXV
      · simp only [hm, if_true]
        exact encode_forever _ _ (by unfold MAXV at *; omega)
      · simp only [hm, if_false]
        congr 1; omega
  · simp only [hs, not_false_eq_true, if_true]
    by_cases hpos : d ≥ 0
    · have hm : b + d ≥ MAXV := by unfold MAXV; omega
      simp [hpos, hm]
    · have hm : ¬ (b + d ≥ MAXV) := by unfold MAXV; omega
      simp only [hpos, hm, if_false]
      have : (max 2 (b + d)).toNat = 2 := by omega
      rw [this]; exact wallnow_eq

/-- **dispatch_walltime with a timespec whose nanosecond value fits in an int64 (±292 years around
    the epoch): always a wall-clock time, exact shift, saturating — for every delta.** -/
theorem walltime_shift (sec nsec d : Int) (hb : I64 (sec * 1000000000)) (hb' : I64 (sec * 1000000000 + nsec))
    (hd : I64 d) :
    walltimeTs sec nsec d =
      if sec * 1000000000 + nsec + d ≥ MAXV then FOREVER
      else encode .wall (max 2 (sec * 1000000000 + nsec + d)).toNat := by
  unfold walltimeTs
  have : ¬ (¬ I64 (sec * 1000000000) ∨ ¬ I64 (sec * 1000000000 + nsec)) := by simp [hb, hb']
  rw [if_neg this]
  exact walltimeCore_eq _ _ hb' hd

/-- a timespec before the int64 range (more than 292 years before the epoch) is an elapsed time whatever
    the delta — which is exact: the true sum is still negative -/
theorem walltime_far_past (sec nsec d : Int) (hs : sec < 0)
    (hb : ¬ I64 (sec * 1000000000) ∨ ¬ I64 (sec * 1000000000 + nsec)) :
    walltimeTs sec nsec d = WALLNOW := by
  unfold walltimeTs; simp [hb, hs]

/-- a timespec beyond the int64 range (more than 292 years after the epoch) is FOREVER: the base itself
    is beyond the representable future and FOREVER is absorbing -/
theorem walltime_far_future (sec nsec d : Int) (hs : 0 ≤ sec)
    (hb : ¬ I64 (sec * 1000000000) ∨ ¬ I64 (sec * 1000000000 + nsec)) :
    walltimeTs sec nsec d = FOREVER := by
  unfold walltimeTs
  have : ¬ (sec < 0) := by omega
  simp [hb, this]

theorem walltime_now_shift (nw : Nat) (d : Int) (hn : nw < B63) (hd : I64 d) :
    walltimeNow nw d =
      if (nw : Int) + d ≥ MAXV then FOREVER
      else encode .wall (max 2 ((nw : Int) + d)).toNat := by
  unfold walltimeNow
  have e : toI64 nw = nw := by unfold toI64; simp; omega
  rw [e]
  exact walltimeCore_eq _ _ (by unfold I64 B63 at *; omega) hd

/-- the result of dispatch_walltime never decodes to another clock -/
theorem walltimeCore_wall (b d : Int) (hb : I64 b) (hd : I64 d) (nw : Nat) :
    walltimeCore b d = FOREVER ∨ (decode (walltimeCore b d) nw).1 = Clock.wall := by
  rw [walltimeCore_eq b d hb hd]
  by_cases hm : b + d ≥ MAXV
  · left; simp [hm]
  · right
    simp only [hm, if_false]
    by_cases h2 : b + d ≤ 2
    · have : (max 2 (b + d)).toNat = 2 := by omega
      rw [this, ← wallnow_eq, decode_wallnow]
    · have e : (max 2 (b + d)).toNat = (b + d).toNat := by omega
      rw [e, encode_wall_eq _ (by omega) (by unfold MAXV at *; omega),
        decode_wall _ nw (by omega) (by unfold MAXV at *; omega)]

/-! ### waiting until a time that is already past does not block -/

theorem timeout_elapsed_rel_up (v nu nm nw : Nat) (h1 : 1 ≤ v) (h2 : v ≤ MAXV) (hnow : v ≤ nu) :
    timeout v nu nm nw = 0 := by
  unfold timeout
  have a : ¬ (v = FOREVER) := by unfold FOREVER MAXV at *; omega
  have b : ¬ (v = 0) := by omega
  rw [if_neg a, if_neg b, decode_up v nw h2]
  simp [hnow]

theorem timeout_elapsed_rel_mono (v nu nm nw : Nat) (h1 : 1 ≤ v) (h2 : v ≤ MAXV) (hnow : v ≤ nm) :
    timeout (v + B63) nu nm nw = 0 := by
  unfold timeout
  have a : ¬ (v + B63 = FOREVER) := by unfold FOREVER MAXV B63 at *; omega
  have b : ¬ (v + B63 = 0) := by unfold B63; omega
  rw [if_neg a, if_neg b, decode_mono v nw h2]
  simp [hnow]

theorem timeout_elapsed_wall (v nu nm nw : Nat) (h1 : 3 ≤ v) (h2 : v ≤ MAXV) (hnow : v ≤ nw) :
    timeout (W - v) nu nm nw = 0 := by
  unfold timeout
  have a : ¬ (W - v = FOREVER) := by unfold FOREVER MAXV W at *; omega
  have b : ¬ (W - v = 0) := by unfold MAXV W at *; omega
  rw [if_neg a, if_neg b, decode_wall v nw h1 h2]
  simp [hnow]

/-- the elapsed-time result of the wall arm (`WALLTIME_NOW`) never blocks -/
theorem timeout_wallnow (nu nm nw : Nat) (h : nw ≤ MAXV) : timeout WALLNOW nu nm nw = 0 := by
  unfold timeout
  have a : ¬ (WALLNOW = FOREVER) := by unfold FOREVER WALLNOW; omega
  have b : ¬ (WALLNOW = 0) := by unfold WALLNOW; omega
  have hgt : ¬ (nw > MAXV) := by omega
  rw [if_neg a, if_neg b, decode_wallnow]
  simp [hgt]

end TimeP
