import DispatchVerif.Core.GroupPC
/-! C07 / C19 calibration, layer D: `notify_not_early` is false in general (F9) but holds for
    single-use groups — every enter precedes the first notify registration and the first return to
    zero. That is exactly how `dispatch_block_create` uses its private group (one enter at creation,
    one leave at the first completion), so it gives C19's "not before that completion". -/
namespace GroupP

/-- single-use histories: `enter` only while nothing has been registered and the count never was zero
    after being positive -/
inductive StepSU : St → St → Prop
  | mk (s : St) (t : Tid) (op : Op) (sh' : Sh) (pc' : Pc)
      (h : (sh', pc') ∈ step s.sh t (s.pcs t) op)
      (hg : s.pcs t = .idle → op = .enter → s.sh.nextId = 0 ∧ s.sh.w.gen = 0) :
      StepSU s { sh := sh', pcs := fun t' => if t' = t then pc' else s.pcs t' }

inductive ReachableSU : St → Prop
  | init : ReachableSU { sh := {}, pcs := fun _ => .idle }
  | step {s s'} : ReachableSU s → StepSU s s' → ReachableSU s'

theorem su_reachable {s : St} (h : ReachableSU s) : Reachable s := by
  induction h with
  | init => exact Reachable.init
  | step _ hs ih => cases hs with | mk t op sh' pc' h hg => exact Reachable.step ih (Step.mk _ t op sh' pc' h)

structure G6 (sh : Sh) : Prop where
  z1 : sh.w.count = 0 → ∀ id, id < sh.nextId → id ∈ sh.zeroSince
  z2 : ∀ id, (id ∈ ids sh ∨ id ∈ sh.submitted) → id ∈ sh.zeroSince
  z3 : sh.nwakers ≠ [] → sh.w.count = 0 ∧ (0 < sh.nextId ∨ 0 < sh.w.gen)
  z5 : 0 < sh.w.gen → sh.w.count = 0

structure L6 (sh : Sh) (t : Tid) (pc : Pc) : Prop where
  lv : ∀ old, pc = .leave2 old → 0 < sh.w.gen
  nl : ∀ we, pc = .nLinked we → 0 < sh.nextId

abbrev Post6 (sh sh' : Sh) (t : Tid) (pc' : Pc) : Prop :=
  G6 sh' ∧ L6 sh' t pc' ∧ ∀ t' q, t' ≠ t → L6 sh t' q → L6 sh' t' q

theorem others6 {sh sh' : Sh} {t : Tid} (hg : sh.w.gen ≤ sh'.w.gen) (hn : sh.nextId ≤ sh'.nextId) :
    ∀ t' q, t' ≠ t → L6 sh t' q → L6 sh' t' q := by
  intro t' q _ l
  exact ⟨fun old e => by have := l.lv old e; omega, fun we e => by have := l.nl we e; omega⟩

/-- steps that leave everything layer D reads untouched -/
theorem keep6 {sh sh' : Sh} {t : Tid} {pc pc' : Pc} (g : G6 sh) (l : L6 sh t pc)
    (hw : sh'.w.count = sh.w.count ∧ sh'.w.gen = sh.w.gen) (hn : sh'.nextId = sh.nextId)
    (hz : sh'.zeroSince = sh.zeroSince) (hi : sh'.inflight = sh.inflight) (hs : sh'.submitted = sh.submitted)
    (hnw : sh'.nwakers = sh.nwakers)
    (hl : ∀ old, pc' = .leave2 old → ∃ o, pc = .leave2 o) (hl2 : ∀ we, pc' = .nLinked we → ∃ w, pc = .nLinked w) :
    Post6 sh sh' t pc' := by
  have hids : ids sh' = ids sh := by simp [ids, hi]
  refine ⟨⟨by rw [hw.1, hn, hz]; exact g.z1, by rw [hids, hs, hz]; exact g.z2, by rw [hnw, hw.1, hn, hw.2]; exact g.z3,
    by rw [hw.1, hw.2]; exact g.z5⟩, ⟨?_, ?_⟩, others6 (by rw [hw.2]; exact Nat.le_refl _) (by rw [hn]; exact Nat.le_refl _)⟩
  · intro old e; obtain ⟨o, ho⟩ := hl old e; rw [hw.2]; exact l.lv o ho
  · intro we e; obtain ⟨w, hw'⟩ := hl2 we e; rw [hn]; exact l.nl w hw'

theorem L6_triv {sh : Sh} {t : Tid} {pc : Pc} (h1 : ∀ old, pc ≠ .leave2 old) (h2 : ∀ we, pc ≠ .nLinked we) : L6 sh t pc :=
  ⟨fun old e => absurd e (h1 old), fun we e => absurd e (h2 we)⟩

set_option maxHeartbeats 4000000 in
theorem step_local6 {sh : Sh} {t : Tid} {pc : Pc} {op : Op} {sh' : Sh} {pc' : Pc}
    (g : G6 sh) (l : L6 sh t pc) (ga : G sh) (la : L sh t pc) (g4 : G4 sh) (l4 : L4 sh t pc)
    (hg : pc = .idle → op = .enter → sh.nextId = 0 ∧ sh.w.gen = 0)
    (h : (sh', pc') ∈ step sh t pc op) : Post6 sh sh' t pc' := by
  cases pc with
  | idle =>
    cases op with
    | enter =>
      have ⟨hn0, hg0⟩ := hg rfl rfl
      simp [step] at h; obtain ⟨rfl, rfl⟩ := h
      refine ⟨⟨by intro hc; simp at hc, g.z2, ?_, by intro hp; simp at hp; omega⟩,
        L6_triv (by simp) (by simp), others6 (Nat.le_refl _) (Nat.le_refl _)⟩
      intro hne
      have := (g.z3 hne).2
      omega
    | leave =>
      simp only [step] at h
      split at h
      · simp at h
      · rename_i h0
        split at h
        · rename_i h1
          simp at h; obtain ⟨rfl, rfl⟩ := h
          refine ⟨⟨?_, ?_, ?_, by intro _; rfl⟩, ⟨(by intro old _; simp), (by intro we e; cases e)⟩,
            others6 (by simp) (Nat.le_refl _)⟩
          · intro _ id hid; simp [hid]
          · intro id hm
            have := g4.bnd id (by rcases hm with hm | hm; exact Or.inl hm; exact Or.inr (Or.inl hm))
            simp [this]
          · intro hne; exact ⟨rfl, Or.inr (by simp)⟩
        · simp at h; obtain ⟨rfl, rfl⟩ := h
          have hg0 : sh.w.gen = 0 := by
            cases hgz : sh.w.gen with
            | zero => rfl
            | succ n => have := g.z5 (by omega); omega
          refine ⟨⟨by intro hc; simp at hc; omega, g.z2, ?_, by intro hp; simp at hp; omega⟩,
            L6_triv (by simp) (by simp), others6 (Nat.le_refl _) (Nat.le_refl _)⟩
          intro hne; have := (g.z3 hne).1; omega
    | notify =>
      simp [step] at h; obtain ⟨rfl, rfl⟩ := h
      refine ⟨⟨?_, ?_, ?_, g.z5⟩, ⟨(by intro old e; cases e), (by intro we _; simp)⟩, others6 (Nat.le_refl _) (by simp)⟩
      · intro hc id hid
        have hc' : sh.w.count = 0 := hc
        have hid' : id < sh.nextId + 1 := hid
        show id ∈ (if sh.w.count = 0 then sh.nextId :: sh.zeroSince else sh.zeroSince)
        rw [if_pos hc']
        by_cases e : id = sh.nextId
        · simp [e]
        · have := g.z1 hc' id (by omega); simp [this]
      · intro id hm
        have := g.z2 id hm
        dsimp only; split <;> simp [this]
      · intro hne; have := g.z3 hne; exact ⟨this.1, Or.inl (by simp)⟩
    | wait =>
      simp only [step] at h
      split at h
      · simp at h; obtain ⟨rfl, rfl⟩ := h
        exact keep6 g l ⟨rfl, rfl⟩ rfl rfl rfl rfl rfl (by intro old e; cases e) (by intro we e; cases e)
      · simp at h; obtain ⟨rfl, rfl⟩ := h
        exact keep6 g l ⟨rfl, rfl⟩ rfl rfl rfl rfl rfl (by intro old e; cases e) (by intro we e; cases e)
  | leave2 old =>
    have hgen := l.lv old rfl
    have hc0 := g.z5 hgen
    simp only [step] at h
    split at h
    · simp at h; obtain ⟨rfl, rfl⟩ := h
      exact keep6 g l ⟨rfl, rfl⟩ rfl rfl rfl rfl rfl (by intro o e; cases e) (by intro we e; cases e)
    · split at h
      · rename_i hw
        simp at h; obtain ⟨rfl, rfl⟩ := h
        have hcc : (cleared old).count = old.count ∧ (cleared old).gen = old.gen := by
          unfold cleared; split <;> exact ⟨rfl, rfl⟩
        refine ⟨⟨?_, g.z2, ?_, ?_⟩, L6_triv (by simp) (by simp),
          others6 (by show sh.w.gen ≤ (cleared old).gen; rw [hcc.2, ← hw]; exact Nat.le_refl _) (Nat.le_refl _)⟩
        · intro hc; show ∀ id, id < sh.nextId → id ∈ sh.zeroSince; exact g.z1 hc0
        · intro _
          show (cleared old).count = 0 ∧ (0 < sh.nextId ∨ 0 < (cleared old).gen)
          rw [hcc.1, hcc.2, ← hw]; exact ⟨hc0, Or.inr hgen⟩
        · intro _; show (cleared old).count = 0; rw [hcc.1, ← hw]; exact hc0
      · simp at h; obtain ⟨rfl, rfl⟩ := h
        exact keep6 g l ⟨rfl, rfl⟩ rfl rfl rfl rfl rfl (by intro o _; exact ⟨old, rfl⟩) (by intro we e; cases e)
  | wake st snap =>
    simp only [step] at h
    split at h
    · rename_i hN
      split at h
      · split at h
        · simp at h
        · simp at h; obtain ⟨rfl, rfl⟩ := h
          -- snapshot: the stepping thread holds the token, so the count is zero and z1 applies
          have hnc : sh.nwakers.count t = 1 := by have := la.nc; simpa [isNW, hN, b2n] using this
          have hne : sh.nwakers ≠ [] := by intro e; rw [e] at hnc; simp at hnc
          have ⟨hc0, hpos⟩ := g.z3 hne
          refine ⟨⟨g.z1, ?_, ?_, g.z5⟩, L6_triv (by simp) (by simp), others6 (Nat.le_refl _) (Nat.le_refl _)⟩
          · intro id hm
            rcases hm with hm | hm
            · have hm' : id ∈ sh.list ∨ id ∈ ids sh := by simpa [ids, Function.comp_def] using hm
              rcases hm' with hm' | hm'
              · exact g.z1 hc0 id (g4.bnd id (Or.inr (Or.inr hm')))
              · exact g.z2 id (Or.inl hm')
            · exact g.z2 id (Or.inr hm)
          · intro _; exact ⟨hc0, hpos⟩
      · simp at h; obtain ⟨rfl, rfl⟩ := h
        exact keep6 g l ⟨rfl, rfl⟩ rfl rfl rfl rfl rfl (by intro o e; cases e) (by intro we e; cases e)
      · rename_i hd r
        simp at h; obtain ⟨rfl, rfl⟩ := h
        refine ⟨⟨g.z1, ?_, g.z3, g.z5⟩, L6_triv (by simp) (by simp), others6 (Nat.le_refl _) (Nat.le_refl _)⟩
        intro id hm
        rcases hm with hm | hm
        · obtain ⟨u, hu⟩ := mem_ids.mp hm
          have : (id, u) ∈ sh.inflight := by simp [rmP] at hu; exact hu.1
          exact g.z2 id (Or.inl (mem_ids.mpr ⟨u, this⟩))
        · have hm' : id = hd ∨ id ∈ sh.submitted := by simpa using hm
          rcases hm' with e | hm'
          · subst e
            -- the popped id was in this waker's snapshot, hence in flight
            exact g.z2 id (Or.inl (mem_ids.mpr ⟨t, (l4.own id).mpr (by simp [snapOf])⟩))
          · exact g.z2 id (Or.inr hm')
    · simp at h; obtain ⟨rfl, rfl⟩ := h
      exact keep6 g l ⟨rfl, rfl⟩ rfl rfl rfl rfl rfl (by intro o e; cases e) (by intro we e; cases e)
  | wakeAddr st =>
    simp only [step] at h
    split at h <;> (simp at h; obtain ⟨rfl, rfl⟩ := h; exact keep6 g l ⟨rfl, rfl⟩ rfl rfl rfl rfl rfl (by intro o e; cases e) (by intro we e; cases e))
  | nLinked we =>
    have hpos := l.nl we rfl
    simp only [step] at h
    split at h
    · simp at h; obtain ⟨rfl, rfl⟩ := h
      exact keep6 g l ⟨rfl, rfl⟩ rfl rfl rfl rfl rfl (by intro o e; cases e) (by intro w e; cases e)
    · split at h
      · rename_i hgu
        simp at h; obtain ⟨rfl, rfl⟩ := h
        refine ⟨⟨g.z1, g.z2, fun _ => ⟨hgu.1, Or.inl hpos⟩, g.z5⟩, L6_triv (by simp) (by simp),
          others6 (Nat.le_refl _) (Nat.le_refl _)⟩
      · simp at h; obtain ⟨rfl, rfl⟩ := h
        exact keep6 g l ⟨rfl, rfl⟩ rfl rfl rfl rfl rfl (by intro o e; cases e) (by intro w e; cases e)
  | wSlow g0 gg =>
    simp only [step] at h
    split at h <;> (simp at h; obtain ⟨rfl, rfl⟩ := h; exact keep6 g l ⟨rfl, rfl⟩ rfl rfl rfl rfl rfl (by intro o e; cases e) (by intro we e; cases e))
  | wSleep g0 gg =>
    simp only [step, List.mem_append] at h
    rcases h with h | h
    · simp at h; obtain ⟨rfl, rfl⟩ := h
      exact keep6 g l ⟨rfl, rfl⟩ rfl rfl rfl rfl rfl (by intro o e; cases e) (by intro we e; cases e)
    · simp at h; obtain ⟨rfl, rfl⟩ := h
      exact keep6 g l ⟨rfl, rfl⟩ rfl rfl rfl rfl rfl (by intro o e; split at e <;> cases e) (by intro we e; split at e <;> cases e)
  | wRet ok sl =>
    simp [step] at h; obtain ⟨rfl, rfl⟩ := h
    exact keep6 g l ⟨rfl, rfl⟩ rfl rfl rfl rfl rfl (by intro o e; cases e) (by intro we e; cases e)

end GroupP

namespace GroupP

structure Inv6 (s : St) : Prop where
  g : G6 s.sh
  l : ∀ t, L6 s.sh t (s.pcs t)

theorem inv6_reachable {s : St} (h : ReachableSU s) : Inv6 s := by
  induction h with
  | init =>
    refine ⟨⟨by intro _ id hid; simp at hid, by intro id hm; simp [ids] at hm, by intro hne; simp at hne, by intro hp; simp at hp⟩,
      fun _ => L6_triv (by simp) (by simp)⟩
  | @step s0 s1 hr hs ih =>
    have hR := su_reachable hr
    have iA := GroupP.inv_reachable hR
    have iC := inv4_reachable hR
    cases hs with
    | mk t op sh' pc' h hg =>
      obtain ⟨hg6, hl, hoth⟩ := step_local6 ih.g (ih.l t) iA.g (iA.l t) iC.g (iC.l t) hg h
      refine ⟨hg6, fun t' => ?_⟩
      by_cases e : t' = t
      · subst e; simpa using hl
      · simpa [e] using hoth t' _ e (ih.l t')

/-- **notify is not early for single-use groups** (one generation; all enters precede the first
    registration): every continuation that has been submitted, or is in a waker's snapshot, was
    registered while the group was empty or has seen it become empty since. With F9 this is the
    exact boundary of the clause. It is the situation of `dispatch_block_notify` (C19). -/
theorem notify_not_early_single_use {s : St} (h : ReachableSU s) :
    ∀ id, id ∈ s.sh.submitted → id ∈ s.sh.zeroSince :=
  fun id hm => (inv6_reachable h).g.z2 id (Or.inr hm)

end GroupP

section audit
#print axioms GroupP.notify_not_early_single_use
end audit
