import DispatchVerif.Core.LaneFFifo4
namespace LaneF

theorem d_carry {sh sh' : Sh} {t : Tid} {pc pc' : Pc}
    (hit : ∀ it, it ∈ sh'.items → (∃ it0, it0 ∈ sh.items ∧ it0.id = it.id ∧ it0.waiter = it.waiter) ∨
      (it.waiter = none ∨ (it.waiter = some t ∧ waitId0 pc' = some it.id)))
    (ld : ∀ it, it ∈ sh.items → it.waiter = some t → waitId0 pc = some it.id)
    (hw : waitId0 pc' = waitId0 pc) : ∀ it, it ∈ sh'.items → it.waiter = some t → waitId0 pc' = some it.id := by
  intro it hm hwt
  rcases hit it hm with ⟨it0, h0, e1, e2⟩ | hn | ⟨_, h2⟩
  · rw [hw, ← e1]; exact ld it0 h0 (by rw [e2]; exact hwt)
  · rw [hn] at hwt; cases hwt
  · exact h2

theorem count_zero_of_d {sh : Sh} {t : Tid} {pc : Pc}
    (ld : ∀ it, it ∈ sh.items → it.waiter = some t → waitId0 pc = some it.id) (hn : waitId0 pc = none) :
    countW sh t = 0 := by
  rw [countW, cntW_zero_iff]
  intro it hm hw; have := ld it hm hw; rw [hn] at this; cases this

/-- the count of t's own waiter items after a step of t that is not the waiter push -/
theorem d2_carry {sh sh' : Sh} {t : Tid} {pc pc' : Pc} {op : Op} (h : (sh', pc') ∈ step sh t pc op)
    (ld : ∀ it, it ∈ sh.items → it.waiter = some t → waitId0 pc = some it.id) (ld2 : countW sh t ≤ 1) :
    countW sh' t ≤ 1 ∧ (countW sh t = 0 → (∀ id, pc ≠ .sSlowPush id) → countW sh' t = 0) := by
  rcases count_after h t with h1 | ⟨_, h2, id, e⟩
  · exact ⟨by omega, fun h0 _ => by omega⟩
  · have : countW sh t = 0 := count_zero_of_d ld (by rw [e]; rfl)
    exact ⟨by omega, fun _ hn => absurd e (hn id)⟩

/-- a step of t between two non-owner pcs that leaves the in-hand ghosts, the owner field and the
    ids in the list (possibly extended at the tail together with `pushed`) alone -/
theorem free_step {s : St} (inv : Inv s) (gf : GF s.sh) (lf : ∀ u, LF s.sh u (s.pcs u)) {t : Tid} {op : Op}
    {sh' : Sh} {pc' : Pc} (h : (sh', pc') ∈ step s.sh t (s.pcs t) op)
    (hX : X sh' = X s.sh) (hO : sh'.dq.O = s.sh.dq.O ∨ sh'.dq.O ≠ none)
    (hf1 : sh'.pushed = sh'.startedP ++ sh'.pend ++ sh'.items.map (·.id))
    (hh : holds pc' = false) (hns : ∀ w k, pc' ≠ .dbwSignal w k)
    (hnr : isDbwRmw (s.pcs t) = false)
    (hsg : ∀ u, u ∈ sh'.signalled → u ∈ s.sh.signalled)
    (hwc : s.sh.handing = some t → waitId pc' = waitId (s.pcs t))
    (hw0 : waitId0 pc' = waitId0 (s.pcs t) ∨ ∀ it, it ∈ s.sh.items → it.waiter ≠ some t) :
    PostF s t sh' pc' := by
  simp only [X, Prod.mk.injEq] at hX
  obtain ⟨x1, x2, x3⟩ := hX
  have lt := lf t
  refine ⟨⟨hf1, ?_⟩, ?_, oth_same lf h (by simp [X, x1, x2, x3])⟩
  · intro ho
    rcases hO with e | e
    · rw [x1, x2, x3]; exact gf.f4 (by rw [← e]; exact ho)
    · exact absurd ho e
  · have hd2 := d2_carry h lt.d lt.d2
    refine self_free hh hns ?_ ?_ ?_ ?_ hd2.1
    · rw [x3]; intro hp; have := lt.r1 hp; rw [hnr] at this; cases this
    · intro hm; rw [x2, x3]; exact lt.s (hsg t hm)
    · intro hc; rw [x2] at hc; rw [x1]
      obtain ⟨id, h1, h2, h3⟩ := lt.c hc
      refine ⟨id, by rw [hwc hc]; exact h1, h2, hd2.2 h3 ?_⟩
      intro i e; rw [e] at h1; simp [waitId, waitId0] at h1
    · rcases hw0 with e | e
      · exact d_carry (items_after h) lt.d e
      · intro it hm hwt
        rcases items_after h it hm with ⟨it0, h0, e1, e2⟩ | hn | ⟨_, h2⟩
        · exact absurd (by rw [e2]; exact hwt) (e it0 h0)
        · rw [hn] at hwt; cases hwt
        · exact h2

/-- a step of the owner t between two owner pcs with nothing in hand -/
theorem owner_step {s : St} (inv : Inv s) (gf : GF s.sh) (lf : ∀ u, LF s.sh u (s.pcs u)) {t : Tid} {op : Op}
    {sh' : Sh} {pc' : Pc} (h : (sh', pc') ∈ step s.sh t (s.pcs t) op)
    (hX : X sh' = X s.sh) (hO : sh'.dq.O ≠ none)
    (hf1 : sh'.pushed = sh'.startedP ++ sh'.pend ++ sh'.items.map (·.id))
    (h0 : holds (s.pcs t) = true) (hi0 : inHand (s.pcs t) = false)
    (hh : holds pc' = true) (hi : inHand pc' = false)
    (hsg : sh'.signalled = s.sh.signalled)
    (hw0 : waitId0 pc' = waitId0 (s.pcs t)) :
    PostF s t sh' pc' := by
  simp only [X, Prod.mk.injEq] at hX
  obtain ⟨x1, x2, x3⟩ := hX
  have lt := lf t
  have hp := lt.p h0 hi0
  have hns := ((inv.l t).own h0).2.1
  refine ⟨⟨hf1, fun ho => absurd ho hO⟩, ?_, oth_same lf h (by simp [X, x1, x2, x3])⟩
  exact self_owner hh hi (by rw [x1, x2, x3]; exact hp) (by rw [hsg]; exact hns) (d_carry (items_after h) lt.d hw0)
    (d2_carry h lt.d lt.d2).1

end LaneF
