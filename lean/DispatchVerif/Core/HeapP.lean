/-! C11 calibration: the timer heap's `resift` (event.c) on one logical heap: hole-based sift-up,
    and only when nothing moved, sift-down. Keys as a function array; `n` live slots. The two heaps of
    the real structure are this one, interleaved (index = 2·k + heap_id), see `interleave_*`. -/
namespace HeapP

abbrev Arr := Nat → Nat
def set (a : Arr) (i v : Nat) : Arr := fun j => if j = i then v else a j
def par (j : Nat) : Nat := (j - 1) / 2

@[simp] theorem set_same (a : Arr) (i v : Nat) : set a i v i = v := by simp [set]
theorem set_other (a : Arr) (i v j : Nat) (h : j ≠ i) : set a i v j = a j := by simp [set, h]

/-- `while (idx >= 1) { if (parent <= dt) break; slot = parent; idx = pidx; }` then store -/
def siftUp (a : Arr) (i x : Nat) : Arr :=
  if h : i = 0 then set a 0 x
  else if a (par i) ≤ x then set a i x
  else siftUp (set a i (a (par i))) (par i) x
termination_by i
decreasing_by unfold par; omega

/-- the sift-down loop with the hole at `i` -/
def siftDown (a : Arr) (n i x : Nat) : Arr :=
  if h : 2 * i + 1 < n then
    let c := 2 * i + 1
    let m := if c + 1 < n ∧ a c > a (c + 1) then c + 1 else c
    if x ≤ a m then set a i x
    else siftDown (set a i (a m)) n m x
  else set a i x
termination_by n - i
decreasing_by (split <;> omega)

/-- `_dispatch_timer_heap_resift(dth, dt, idx)` -/
def resift (a : Arr) (n i x : Nat) : Arr :=
  if i ≠ 0 ∧ ¬ a (par i) ≤ x then siftUp (set a i (a (par i))) (par i) x
  else siftDown a n i x

/-- min-heap order on the first n slots -/
def H (a : Arr) (n : Nat) : Prop := ∀ j, 0 < j → j < n → a (par j) ≤ a j

/-- heap order everywhere except around the hole `i` -/
structure HE (a : Arr) (n i : Nat) : Prop where
  away : ∀ j, 0 < j → j < n → j ≠ i → par j ≠ i → a (par j) ≤ a j
  skip : ∀ c, 0 < c → c < n → par c = i → 0 < i → a (par i) ≤ a c

theorem par_lt {j : Nat} (h : 0 < j) : par j < j := by unfold par; omega
theorem par_child (c i : Nat) (hc : 0 < c) : par c = i ↔ (c = 2 * i + 1 ∨ c = 2 * i + 2) := by unfold par; omega

theorem siftUp_spec (n : Nat) : ∀ (i : Nat) (a : Arr) (x : Nat), i < n → HE a n i →
    (∀ c, 0 < c → c < n → par c = i → x ≤ a c) → H (siftUp a i x) n := by
  intro i
  induction i using Nat.strongRecOn with
  | _ i ih =>
    intro a x hi he hx
    unfold siftUp
    split
    · rename_i h0; subst h0
      intro j hj hjn
      by_cases e : par j = 0
      · rw [e, set_same, set_other _ _ _ _ (by omega)]; exact hx j hj hjn e
      · rw [set_other _ _ _ _ e, set_other _ _ _ _ (by omega)]; exact he.away j hj hjn (by omega) e
    · rename_i h0
      split
      · rename_i hle
        intro j hj hjn
        by_cases e1 : j = i
        · subst e1
          rw [set_same, set_other _ _ _ _ (by have := par_lt hj; omega)]; exact hle
        · by_cases e2 : par j = i
          · rw [e2, set_same, set_other _ _ _ _ e1]; exact hx j hj hjn e2
          · rw [set_other _ _ _ _ e1, set_other _ _ _ _ e2]; exact he.away j hj hjn e1 e2
      · rename_i hgt
        have hp := par_lt (Nat.pos_of_ne_zero h0)
        apply ih (par i) hp _ x (by omega)
        · constructor
          · intro j hj hjn e1 e2
            by_cases e3 : j = i
            · exact absurd (e3 ▸ rfl) e2
            · by_cases e4 : par j = i
              · rw [e4, set_same, set_other _ _ _ _ e3]
                exact he.skip j hj hjn e4 (Nat.pos_of_ne_zero h0)
              · rw [set_other _ _ _ _ e3, set_other _ _ _ _ e4]; exact he.away j hj hjn e3 e4
          · intro c hc hcn hpc hpos
            by_cases e3 : c = i
            · subst e3
              rw [set_same, set_other _ _ _ _ (by have := par_lt hpos; omega)]
              exact he.away (par c) hpos (by omega) (by omega) (by have := par_lt hpos; omega)
            · rw [set_other _ _ _ _ e3, set_other _ _ _ _ (by have := par_lt hpos; omega)]
              have h1 := he.away c hc hcn e3 (by rw [hpc]; omega)
              have h2 := he.away (par i) hpos (by omega) (by omega) (by have := par_lt hpos; omega)
              rw [hpc] at h1; omega
        · intro c hc hcn hpc
          by_cases e3 : c = i
          · subst e3; rw [set_same]; omega
          · rw [set_other _ _ _ _ e3]
            have := he.away c hc hcn e3 (by rw [hpc]; omega)
            rw [hpc] at this; omega

theorem siftDown_spec (n : Nat) : ∀ (k i : Nat) (a : Arr) (x : Nat), n - i = k → i < n → HE a n i →
    (0 < i → a (par i) ≤ x) → H (siftDown a n i x) n := by
  intro k
  induction k using Nat.strongRecOn with
  | _ k ih =>
    intro i a x hk hi he hx
    unfold siftDown
    split
    · rename_i hc
      simp only []
      have hm : ∀ m, m = (if 2 * i + 1 + 1 < n ∧ a (2 * i + 1) > a (2 * i + 1 + 1) then 2 * i + 1 + 1 else 2 * i + 1) →
          m < n ∧ par m = i ∧ 0 < m ∧ (∀ c, 0 < c → c < n → par c = i → a m ≤ a c) := by
        intro m hm
        split at hm
        · rename_i h2
          subst hm
          refine ⟨h2.1, by unfold par; omega, by omega, ?_⟩
          intro c hc0 hcn hpc
          rcases (par_child c i hc0).mp hpc with e | e <;> subst e
          · omega
          · exact Nat.le_refl _
        · rename_i h2
          subst hm
          refine ⟨hc, by unfold par; omega, by omega, ?_⟩
          intro c hc0 hcn hpc
          rcases (par_child c i hc0).mp hpc with e | e <;> subst e
          · exact Nat.le_refl _
          · have : ¬ (a (2 * i + 1) > a (2 * i + 2)) := fun hgt => h2 ⟨hcn, hgt⟩
            omega
      generalize hmd : (if 2 * i + 1 + 1 < n ∧ a (2 * i + 1) > a (2 * i + 1 + 1) then 2 * i + 1 + 1 else 2 * i + 1) = m
      obtain ⟨hmn, hpm, hm0, hmin⟩ := hm m hmd.symm
      have hmi : m ≠ i := by have := par_lt hm0; omega
      split
      · rename_i hle
        intro j hj hjn
        by_cases e1 : j = i
        · subst e1
          rw [set_same, set_other _ _ _ _ (by have := par_lt hj; omega)]; exact hx hj
        · by_cases e2 : par j = i
          · rw [e2, set_same, set_other _ _ _ _ e1]; have := hmin j hj hjn e2; omega
          · rw [set_other _ _ _ _ e1, set_other _ _ _ _ e2]; exact he.away j hj hjn e1 e2
      · rename_i hgt
        apply ih (n - m) (by have := par_lt hm0; omega) m _ x rfl hmn
        · constructor
          · intro j hj hjn e1 e2
            by_cases e3 : j = i
            · subst e3
              rw [set_same, set_other _ _ _ _ (by have := par_lt hj; omega)]
              exact he.skip m hm0 hmn hpm hj
            · by_cases e4 : par j = i
              · rw [e4, set_same, set_other _ _ _ _ e3]; exact hmin j hj hjn e4
              · rw [set_other _ _ _ _ e3, set_other _ _ _ _ e4]; exact he.away j hj hjn e3 e4
          · intro c hc0 hcn hpc _
            have hci : c ≠ i := by have := par_lt hc0; have := par_lt hm0; omega
            rw [hpm, set_same, set_other _ _ _ _ hci]
            have := he.away c hc0 hcn hci (by rw [hpc]; exact hmi)
            rw [hpc] at this; exact this
        · intro _; rw [hpm, set_same]; omega
    · rename_i hc
      intro j hj hjn
      by_cases e1 : j = i
      · subst e1
        rw [set_same, set_other _ _ _ _ (by have := par_lt hj; omega)]; exact hx hj
      · have e2 : par j ≠ i := by
          intro e; rcases (par_child j i hj).mp e with e' | e' <;> omega
        rw [set_other _ _ _ _ e1, set_other _ _ _ _ e2]; exact he.away j hj hjn e1 e2

/-- a heap with one slot about to be overwritten is a heap-with-hole there -/
theorem HE_of_H {a : Arr} {n : Nat} (h : H a n) (i : Nat) (hi : i < n) : HE a n i := by
  constructor
  · intro j hj hjn _ _; exact h j hj hjn
  · intro c hc hcn hpc hpos
    have h1 := h c hc hcn
    have h2 := h i hpos hi
    rw [hpc] at h1; omega

/-- **resift restores heap order** wherever the changed key sits (insert at the end, replace the
    removed slot by the last element, or re-key in place on `update`). -/
theorem resift_heap {a : Arr} {n i : Nat} (x : Nat) (hi : i < n) (he : HE a n i) : H (resift a n i x) n := by
  unfold resift
  split
  · rename_i hc
    obtain ⟨h0, hgt⟩ := hc
    have hpos := Nat.pos_of_ne_zero h0
    have hp := par_lt hpos
    apply siftUp_spec n (par i) _ x (by omega)
    · constructor
      · intro j hj hjn e1 e2
        by_cases e3 : j = i
        · exact absurd (e3 ▸ rfl) e2
        · by_cases e4 : par j = i
          · rw [e4, set_same, set_other _ _ _ _ e3]; exact he.skip j hj hjn e4 hpos
          · rw [set_other _ _ _ _ e3, set_other _ _ _ _ e4]; exact he.away j hj hjn e3 e4
      · intro c hc hcn hpc hpp
        by_cases e3 : c = i
        · subst e3
          rw [set_same, set_other _ _ _ _ (by have := par_lt hpp; omega)]
          exact he.away (par c) hpp (by omega) (by omega) (by have := par_lt hpp; omega)
        · rw [set_other _ _ _ _ e3, set_other _ _ _ _ (by have := par_lt hpp; omega)]
          have h1 := he.away c hc hcn e3 (by rw [hpc]; omega)
          have h2 := he.away (par i) hpp (by omega) (by omega) (by have := par_lt hpp; omega)
          rw [hpc] at h1; omega
    · intro c hc hcn hpc
      by_cases e3 : c = i
      · subst e3; rw [set_same]; omega
      · rw [set_other _ _ _ _ e3]
        have := he.away c hc hcn e3 (by rw [hpc]; omega)
        rw [hpc] at this; omega
  · rename_i hc
    apply siftDown_spec n (n - i) i a x rfl hi he
    intro hpos
    by_cases hle : a (par i) ≤ x
    · exact hle
    · exact absurd ⟨by omega, hle⟩ hc

/-- in a heap the root is a minimum: what `dth_min[…]` reports is the earliest key -/
theorem root_min {a : Arr} {n : Nat} (h : H a n) : ∀ j, j < n → a 0 ≤ a j := by
  intro j
  induction j using Nat.strongRecOn with
  | _ j ih =>
    intro hj
    by_cases h0 : j = 0
    · subst h0; exact Nat.le_refl _
    · have hpos := Nat.pos_of_ne_zero h0
      have := ih (par j) (par_lt hpos) (by have := par_lt hpos; omega)
      have := h j hpos hj
      omega

/-! ### nothing is lost or duplicated: occurrence counts over the live slots -/

def ind (p : Prop) [Decidable p] : Nat := if p then 1 else 0

def cnt (a : Arr) : Nat → Nat → Nat
  | 0, _ => 0
  | n + 1, v => cnt a n v + ind (a n = v)

theorem cnt_set_ge (a : Arr) (n i y v : Nat) (h : n ≤ i) : cnt (set a i y) n v = cnt a n v := by
  induction n with
  | zero => rfl
  | succ n ih => simp only [cnt]; rw [ih (by omega), set_other _ _ _ _ (by omega)]

theorem cnt_set (a : Arr) (n i y v : Nat) (h : i < n) :
    cnt (set a i y) n v + ind (a i = v) = cnt a n v + ind (y = v) := by
  induction n with
  | zero => omega
  | succ n ih =>
    simp only [cnt]
    by_cases e : i = n
    · subst e; rw [cnt_set_ge _ _ _ _ _ (Nat.le_refl _), set_same]; omega
    · have := ih (by omega); rw [set_other _ _ _ _ (Ne.symm e)]; omega

theorem siftUp_cnt (n v : Nat) : ∀ (i : Nat) (a : Arr) (x : Nat), i < n →
    cnt (siftUp a i x) n v + ind (a i = v) = cnt a n v + ind (x = v) := by
  intro i
  induction i using Nat.strongRecOn with
  | _ i ih =>
    intro a x hi
    unfold siftUp
    split
    · rename_i h0; subst h0; exact cnt_set a n 0 x v hi
    · rename_i h0
      split
      · exact cnt_set a n i x v hi
      · have hp := par_lt (Nat.pos_of_ne_zero h0)
        have h1 := ih (par i) hp (set a i (a (par i))) x (by omega)
        rw [set_other _ _ _ _ (by omega)] at h1
        have h2 := cnt_set a n i (a (par i)) v hi
        omega

theorem siftDown_cnt (n v : Nat) : ∀ (k i : Nat) (a : Arr) (x : Nat), n - i = k → i < n →
    cnt (siftDown a n i x) n v + ind (a i = v) = cnt a n v + ind (x = v) := by
  intro k
  induction k using Nat.strongRecOn with
  | _ k ih =>
    intro i a x hk hi
    unfold siftDown
    split
    · rename_i hc
      simp only []
      generalize hmd : (if 2 * i + 1 + 1 < n ∧ a (2 * i + 1) > a (2 * i + 1 + 1) then 2 * i + 1 + 1 else 2 * i + 1) = m
      have hm : i < m ∧ m < n := by subst hmd; split <;> omega
      split
      · exact cnt_set a n i x v hi
      · have h1 := ih (n - m) (by omega) m (set a i (a m)) x rfl hm.2
        rw [set_other _ _ _ _ (by omega)] at h1
        have h2 := cnt_set a n i (a m) v hi
        omega
    · exact cnt_set a n i x v hi

/-- **resift permutes**: the live slots afterwards hold exactly the old contents with slot `i`
    replaced by the new key — no timer is dropped from or duplicated in the heap. -/
theorem resift_cnt (a : Arr) (n i x v : Nat) (hi : i < n) :
    cnt (resift a n i x) n v + ind (a i = v) = cnt a n v + ind (x = v) := by
  unfold resift
  split
  · rename_i hc
    have hp := par_lt (Nat.pos_of_ne_zero hc.1)
    have h1 := siftUp_cnt n v (par i) (set a i (a (par i))) x (by omega)
    rw [set_other _ _ _ _ (by omega)] at h1
    have h2 := cnt_set a n i (a (par i)) v hi
    omega
  · exact siftDown_cnt n v (n - i) i a x rfl hi

/-! interleaving of the two heaps in one array: physical index = 2·k + heap_id -/
theorem interleave_parent (k hid : Nat) (hk : 0 < k) (hh : hid < 2) :
    ((2 * k + hid - 2) / 2) / 2 * 2 + hid = 2 * par k + hid ∧
    (2 * k + hid) % 2 = hid := by unfold par; omega

theorem interleave_left_child (k hid : Nat) (hh : hid < 2) :
    2 * (2 * k + hid) + 2 - hid = 2 * (2 * k + 1) + hid := by omega

end HeapP

section audit
#print axioms HeapP.resift_heap
#print axioms HeapP.root_min
#print axioms HeapP.resift_cnt
end audit
