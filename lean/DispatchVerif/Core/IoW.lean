/-! C14: a stream WRITE operation of dispatch I/O — the write branches of `_dispatch_operation_perform` (buffer selection over the
    regions of the data object, the write() outcome) and of `_dispatch_operation_deliver_data` (low-water filter, the remainder
    handed to the handler, trimming the written buffer off the unwritten data), the result switch of `_dispatch_stream_handler`
    and the final `DOP_DONE` delivery — against every sequence of write() outcomes. The data object is a list of regions; the
    buffer of one pass is a prefix of it chosen by accumulating region sizes up to the chunk size, capped by the high-water mark. -/
namespace IoW

abbrev Byte := UInt8

structure Op where
  length : Nat                 -- size of the data submitted
  low : Nat
  high : Nat
  chunk : Nat                  -- dispatch_io_defaults.chunk_size
  data : List (List Byte)      -- op->data: what has not been trimmed off yet, as regions
  hasBuf : Bool := false       -- op->buf_data
  bufSiz : Nat := 0
  bufLen : Nat := 0            -- bytes of the current buffer already written
  total : Nat := 0
  undelivered : Nat := 0
  err : Nat := 0

/-- what write(fd, buf + buf_len, buf_siz − buf_len) may do (EINTR is retried inside perform) -/
inductive Outcome
  | wrote (n : Nat)
  | zero
  | eagain
  | error (e : Nat)

inductive Result | deliver | deliverAndComplete | complete | resume
deriving DecidableEq

/-- one handler invocation: `rem` is the data object passed (`none` = NULL) -/
structure Call where
  done : Bool
  rem : Option (List Byte)
  err : Nat
deriving DecidableEq

/-- the `dispatch_data_apply` block of the write branch: always take the first region; keep adding regions while the sum
    stays within the chunk size; stop once the chunk size is reached -/
def accum (cs : Nat) : List Nat → Nat → Nat
  | [], b => b
  | l :: ls, b =>
    let siz := b + l
    let b' := if b = 0 ∨ siz ≤ cs then siz else b
    if siz < cs then accum cs ls b' else b'

/-- `dispatch_data_create_subrange(data, n, length)` on the region list -/
def dropR : List (List Byte) → Nat → List (List Byte)
  | [], _ => []
  | r :: rs, n => if r.length ≤ n then dropR rs (n - r.length) else r.drop n :: rs

def allocBuf (op : Op) : Op :=
  if op.hasBuf then op else
  let cs := if op.chunk > op.high then op.high else op.chunk
  let b := accum cs (op.data.map List.length) 0
  { op with hasBuf := true, bufSiz := if b > op.high then op.high else b, bufLen := 0 }

def writeLen (op : Op) : Nat := (allocBuf op).bufSiz - (allocBuf op).bufLen

/-- the bytes the next write() is given: `buf + buf_len`, `buf_siz − buf_len` of them -/
def writeBuf (op : Op) : List Byte := (((allocBuf op).data.flatten).drop (allocBuf op).bufLen).take (writeLen op)

def perform (op : Op) (o : Outcome) : Op × Result :=
  let op := allocBuf op
  match o with
  | .wrote n =>
    let op := { op with bufLen := op.bufLen + n, total := op.total + n }
    (op, if op.total = op.length then .complete else .deliver)
  | .zero => (op, .deliverAndComplete)
  | .eagain => (op, .resume)
  | .error e => ({ op with err := e }, .complete)

/-- `_dispatch_operation_deliver_data` for a WRITE operation (DOP_DELIVER timer flag not modelled) -/
def deliverData (op : Op) (fDeliver fDone fNoEmpty : Bool) : Op × List Call :=
  let undel := op.undelivered + op.bufLen
  let deliver0 := fDeliver || fDone
  if !deliver0 ∧ undel < op.low ∧ op.bufLen < op.bufSiz then (op, [])
  else
    let deliver := deliver0 || decide (undel ≥ op.low)
    let err := if deliver0 then op.err else 0
    let data := dropR op.data op.bufLen                     -- subrange(op->data, buf_len, length), computed when `deliver`
    let op :=
      if op.hasBuf ∧ op.bufLen = op.bufSiz then
        -- buffer used up: release it, trim the newly written buffer from the head of the unwritten data
        { op with hasBuf := false, bufLen := 0, data := if deliver then data else dropR op.data op.bufSiz }
      else op
    if !deliver ∨ (fNoEmpty ∧ data.flatten.length = 0) then ({ op with undelivered := undel }, [])
    else
      let op := { op with undelivered := 0 }
      (op, [⟨fDone, if fDone ∧ err = 0 then none else some data.flatten, err⟩])

def handle (op : Op) (o : Outcome) : Op × List Call × Bool :=
  let (op, r) := perform op o
  match r with
  | .deliver => let (op, c) := deliverData op false false false; (op, c, false)
  | .deliverAndComplete =>
    let (op, c) := deliverData op true false true
    let (op, c2) := deliverData op false true false
    (op, c ++ c2, true)
  | .complete => let (op, c) := deliverData op false true false; (op, c, true)
  | .resume => (op, [], false)

/-- the bytes one write() takes from the buffer it was given -/
def passW (op : Op) : Outcome → List Byte
  | .wrote n => (writeBuf op).take n
  | _ => []

/-- run against a sequence of outcomes: the bytes handed to the kernel (in order), the handler calls — each tagged with the
    number of bytes written when it was made — and whether the operation completed -/
def run : Op → List Outcome → List Byte × List (Nat × Call) × Bool
  | _, [] => ([], [], false)
  | op, o :: os =>
    let w := passW op o
    let (op', c, fin) := handle op o
    let c' := c.map fun x => (op'.total, x)
    if fin then (w, c', true) else
      let (ws, cs, f) := run op' os
      (w ++ ws, c' ++ cs, f)

/-- the kernel never writes more than asked, and at least one byte when it reports progress -/
def okOutcome (op : Op) : Outcome → Prop
  | .wrote n => 0 < n ∧ n ≤ writeLen op
  | _ => True

def Legal : Op → List Outcome → Prop
  | _, [] => True
  | op, o :: os => okOutcome op o ∧ Legal (handle op o).1 os

end IoW
