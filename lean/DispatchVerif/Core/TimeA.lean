/-! C12 calibration: dispatch_time / _dispatch_time_to_clock_and_value / _dispatch_clock_and_value_to_time
    transcribed over Nat with explicit 2^64 wrap-around (x86-64: mach time unit = ns). -/
namespace TimeP

def W : Nat := 18446744073709551616          -- 2^64
def B63 : Nat := 9223372036854775808          -- 2^63
def B62 : Nat := 4611686018427387904          -- 2^62  (DISPATCH_WALLTIME_MASK)
def MAXV : Nat := 4611686018427387903         -- DISPATCH_TIME_MAX_VALUE = 2^62 - 1
def FOREVER : Nat := 18446744073709551615     -- ~0
def WALLNOW : Nat := 18446744073709551614     -- ~1

inductive Clock | up | mono | wall
deriving DecidableEq, Repr

/-- `(uint64_t)delta` for an int64 delta -/
def u64 (d : Int) : Nat := (d % 18446744073709551616).toNat

/-- `(int64_t)x <= 0` for a uint64 x -/
abbrev sle0 (x : Nat) : Prop := x = 0 ∨ x ≥ 9223372036854775808

/-- _dispatch_time_to_clock_and_value; `nowWall` is _dispatch_get_nanoseconds() -/
def decode (t nowWall : Nat) : Clock × Nat :=
  if t ≥ B63 then
    if (t / B62) % 2 = 1 then
      let v := if t = WALLNOW then nowWall else (W - t) % W
      (.wall, if v > MAXV then FOREVER else v)
    else
      let v := t - B63
      (.mono, if v > MAXV then FOREVER else v)
  else (.up, if t > MAXV then FOREVER else t)

/-- _dispatch_clock_and_value_to_time -/
def encode (c : Clock) (v : Nat) : Nat :=
  if v ≥ MAXV then FOREVER else
  match c with
  | .wall => (W - v) % W
  | .up => v
  | .mono => v + B63        -- v | (1<<63), v < 2^62

/-- the uptime / monotonic arm of dispatch_time once `value` is known -/
def coreRel (c : Clock) (value : Nat) (delta : Int) : Nat :=
  if delta ≥ 0 then
    let v := (value + u64 delta) % W
    if sle0 v then FOREVER else encode c v
  else
    let v := (value + W - u64 (-delta)) % W
    if sle0 v then encode c 1 else encode c v

/-- the wall-clock arm -/
def coreWall (value : Nat) (delta : Int) : Nat :=
  let v := (value + u64 delta) % W
  if delta ≥ 0 then
    if sle0 v then FOREVER else encode .wall v
  else
    encode .wall (if sle0 v then 2 else v)          -- `< 1` is the same test as `<= 0`

/-- dispatch_time(inval, delta) -/
def dispatchTime (inval : Nat) (delta : Int) (nowUp nowMono nowWall : Nat) : Nat :=
  if inval = FOREVER then FOREVER else
  let (clock, value) := decode inval nowWall
  if value = FOREVER then FOREVER else
  match clock with
  | .wall => coreWall value delta
  | c =>
    let value := if value = 0 then (if c = .up then nowUp else nowMono) else value
    coreRel c value delta

/-! ### specification -/

/-- a decoded time -/
inductive T | forever | at (c : Clock) (v : Nat)
deriving DecidableEq, Repr

def denote (t nowWall : Nat) : T :=
  if t = FOREVER then .forever else
  let (c, v) := decode t nowWall
  if v = FOREVER then .forever else .at c v

def I64 (d : Int) : Prop := -9223372036854775808 ≤ d ∧ d < 9223372036854775808

theorem u64_nonneg {d : Int} (h : I64 d) (hd : 0 ≤ d) : (u64 d : Int) = d := by
  unfold u64 I64 at *; omega

theorem u64_neg {d : Int} (h : I64 d) (hd : d < 0) : (u64 d : Int) = d + 18446744073709551616 := by
  unfold u64 I64 at *; omega

/-- encode/decode round trip for representable values -/
theorem decode_encode_up (v nw : Nat) (h1 : 1 ≤ v) (h2 : v < MAXV) : decode (encode .up v) nw = (.up, v) := by
  unfold encode decode MAXV B63 FOREVER at *
  have e1 : ¬ (v ≥ 4611686018427387903) := by omega
  simp only [e1, if_false]
  have e2 : ¬ (v ≥ 9223372036854775808) := by omega
  have e3 : ¬ (v > 4611686018427387903) := by omega
  simp only [e2, e3, if_false]

theorem decode_encode_mono (v nw : Nat) (h1 : 1 ≤ v) (h2 : v < MAXV) : decode (encode .mono v) nw = (.mono, v) := by
  unfold encode decode MAXV B63 B62 FOREVER at *
  have e1 : ¬ (v ≥ 4611686018427387903) := by omega
  simp only [e1, if_false]
  have e2 : v + 9223372036854775808 ≥ 9223372036854775808 := by omega
  have e3 : ¬ ((v + 9223372036854775808) / 4611686018427387904 % 2 = 1) := by omega
  have e4 : v + 9223372036854775808 - 9223372036854775808 = v := by omega
  have e5 : ¬ (v > 4611686018427387903) := by omega
  simp only [e2, e3, e4, e5, if_true, if_false]

theorem decode_encode_wall (v nw : Nat) (h1 : 3 ≤ v) (h2 : v < MAXV) : decode (encode .wall v) nw = (.wall, v) := by
  unfold encode decode MAXV B63 B62 FOREVER WALLNOW W at *
  have e1 : ¬ (v ≥ 4611686018427387903) := by omega
  simp only [e1, if_false]
  have e0 : (18446744073709551616 - v) % 18446744073709551616 = 18446744073709551616 - v := by omega
  rw [e0]
  have e2 : 18446744073709551616 - v ≥ 9223372036854775808 := by omega
  have e3 : (18446744073709551616 - v) / 4611686018427387904 % 2 = 1 := by omega
  have e4 : ¬ (18446744073709551616 - v = 18446744073709551614) := by omega
  have e5 : (18446744073709551616 - (18446744073709551616 - v)) % 18446744073709551616 = v := by omega
  have e6 : ¬ (v > 4611686018427387903) := by omega
  simp only [e2, e3, e4, e5, e6, if_true, if_false]

/-! ### what dispatch_time computes, for every base and every delta -/

theorem encode_forever (c : Clock) (v : Nat) (h : v ≥ MAXV) : encode c v = FOREVER := by
  unfold encode; simp [h]

theorem coreRel_eq (c : Clock) (v : Nat) (d : Int) (h1 : 1 ≤ v) (h2 : v ≤ MAXV) (hd : I64 d) :
    coreRel c v d =
      if (v : Int) + d ≥ MAXV then FOREVER
      else if (v : Int) + d < 1 then encode c 1
      else encode c ((v : Int) + d).toNat := by
  unfold coreRel
  unfold I64 at hd
  by_cases hpos : d ≥ 0
  · have hu : (u64 d : Int) = d := u64_nonneg hd hpos
    have hm : (v + u64 d) % W = v + u64 d := by unfold W MAXV at *; omega
    simp only [hpos, if_true, hm]
    by_cases hs : sle0 (v + u64 d)
    · have : (v : Int) + d ≥ MAXV := by unfold MAXV at *; omega
      simp [hs, this]
    · simp only [hs, if_false]
      by_cases hmax : (v : Int) + d ≥ MAXV
      · simp only [hmax, if_true]
        exact encode_forever c _ (by unfold MAXV at *; omega)
      · have hl : ¬ ((v : Int) + d < 1) := by omega
        simp only [hmax, hl, if_false]
        congr 1; omega
  · have hneg : d < 0 := by omega
    have hu : (u64 (-d) : Int) = -d := by unfold u64; omega
    have hmax : ¬ ((v : Int) + d ≥ MAXV) := by unfold MAXV at *; omega
    simp only [hpos, hmax, if_false]
    by_cases hlow : (v : Int) + d < 1
    · have hs : sle0 ((v + W - u64 (-d)) % W) := by unfold W MAXV at *; omega
      simp [hs, hlow]
    · have hm : (v + W - u64 (-d)) % W = ((v : Int) + d).toNat := by unfold W MAXV at *; omega
      have hs : ¬ sle0 (((v : Int) + d).toNat) := by unfold MAXV at *; omega
      simp only [hlow, if_false, hm, hs]

theorem coreWall_eq (v : Nat) (d : Int) (h1 : 3 ≤ v) (h2 : v ≤ MAXV) (hd : I64 d) :
    coreWall v d =
      if (v : Int) + d ≥ MAXV then FOREVER
      else if (v : Int) + d < 1 then WALLNOW
      else if (v : Int) + d = 1 then FOREVER
      else W - ((v : Int) + d).toNat := by
  unfold coreWall
  unfold I64 at hd
  by_cases hpos : d ≥ 0
  · have hu : (u64 d : Int) = d := u64_nonneg hd hpos
    have hm : (v + u64 d) % W = v + u64 d := by unfold W MAXV at *; omega
    simp only [hpos, if_true, hm]
    by_cases hs : sle0 (v + u64 d)
    · have : (v : Int) + d ≥ MAXV := by unfold MAXV at *; omega
      simp [hs, this]
    · simp only [hs, if_false]
      by_cases hmax : (v : Int) + d ≥ MAXV
      · simp only [hmax, if_true]
        exact encode_forever _ _ (by unfold MAXV at *; omega)
      · have hl : ¬ ((v : Int) + d < 1) := by omega
        have hl1 : ¬ ((v : Int) + d = 1) := by omega
        simp only [hmax, hl, hl1, if_false]
        unfold encode
        have : ¬ (v + u64 d ≥ MAXV) := by unfold MAXV at *; omega
        simp only [this, if_false]
        unfold W MAXV at *; omega
  · have hneg : d < 0 := by omega
    have hu : (u64 d : Int) = d + 18446744073709551616 := u64_neg hd hneg
    have hmax : ¬ ((v : Int) + d ≥ MAXV) := by unfold MAXV at *; omega
    simp only [hpos, hmax, if_false]
    by_cases hlow : (v : Int) + d < 1
    · have hs : sle0 ((v + u64 d) % W) := by unfold W MAXV at *; omega
      simp only [hs, hlow, if_true]
      unfold encode W MAXV WALLNOW; simp
    · have hm : (v + u64 d) % W = ((v : Int) + d).toNat := by unfold W MAXV at *; omega
      have hs : ¬ sle0 (((v : Int) + d).toNat) := by unfold MAXV at *; omega
      simp only [hlow, if_false, hm, hs]
      by_cases h1' : (v : Int) + d = 1
      · simp only [h1', if_true]
        show encode Clock.wall (Int.toNat 1) = FOREVER
        unfold encode W MAXV FOREVER; simp
      · simp only [h1', if_false]
        unfold encode
        have : ¬ (((v : Int) + d).toNat ≥ MAXV) := by unfold MAXV at *; omega
        simp only [this, if_false]
        unfold W MAXV at *; omega

end TimeP
