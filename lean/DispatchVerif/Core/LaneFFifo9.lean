import DispatchVerif.Core.LaneFFifo8
namespace LaneF

theorem no_items_of_count {sh : Sh} {t : Tid} (h : countW sh t = 0) : ∀ it, it ∈ sh.items → it.waiter ≠ some t :=
  (cntW_zero_iff sh.items t).mp h

set_option maxHeartbeats 8000000 in
theorem fifo_handoff {s : St} (inv : Inv s) (gf : GF s.sh) (lf : ∀ u, LF s.sh u (s.pcs u)) {t : Tid} {op : Op}
    {sh' : Sh} {pc' : Pc} (h : (sh', pc') ∈ step s.sh t (s.pcs t) op)
    (hpc : (∃ i, s.pcs t = .sWait i) ∨ (∃ i, s.pcs t = .sRunSlow i) ∨ (∃ enq k, s.pcs t = .dbwPop enq k) ∨
      (∃ w enq k, s.pcs t = .dbwRmw w enq k) ∨ (∃ w k, s.pcs t = .dbwSignal w k)) :
    PostF s t sh' pc' := by
  have f1 := gf.f1
  have lt := lf t
  have h' := h
  rcases hpc with ⟨i, e⟩ | ⟨i, e⟩ | ⟨enq, k, e⟩ | ⟨w, enq, k, e⟩ | ⟨w, k, e⟩ <;> rw [e] at h' lt
  · -- sWait: consume the signal
    simp only [step] at h'
    split at h'
    · rename_i hsig
      have hm : t ∈ s.sh.signalled := by simpa using hsig
      have hs := lt.s hm
      obtain ⟨id, hid, hpend, hcnt⟩ := lt.c hs.1
      have hid' : id = i := by simp [waitId, waitId0] at hid; exact hid.symm
      subst hid'
      have hOt := (inv.g.sig t hm).1
      simp at h'; obtain ⟨rfl, rfl⟩ := h'
      refine ⟨⟨f1, fun ho => by simp [hOt] at ho⟩, ?_, oth_same lf h rfl⟩
      refine ⟨fun _ hi => by simp [inHand] at hi, (by intro id e2; cases e2), ?_, (by intro w enq k e2; cases e2),
        (by intro w k e2; cases e2), ?_, ?_, ?_, ?_, lt.d2⟩
      · intro hp; rw [hs.2] at hp; cases hp
      · intro _; exact hs
      · intro id' _; exact hs
      · intro _; exact ⟨id, rfl, hpend, hcnt⟩
      · intro it hm' hw; exact absurd hw (no_items_of_count hcnt it hm')
    · simp at h'
  · -- sRunSlow: the waiter's item starts
    have ht : holds (s.pcs t) = true := by rw [e]; rfl
    have hOt := ((inv.l t).own ht).1.1
    have hnsig := ((inv.l t).own ht).2.1
    have hb := lt.b i rfl
    obtain ⟨id, hid, hpend, hcnt⟩ := lt.c hb.1
    have hid' : id = i := by simp [waitId] at hid; exact hid.symm
    subst hid'
    simp [step] at h'; obtain ⟨rfl, rfl⟩ := h'
    refine ⟨⟨by simp [f1, hpend], fun ho => by simp [hOt] at ho⟩, ?_, ?_⟩
    · exact self_owner rfl rfl ⟨by simp [hpend], rfl, hb.2⟩ hnsig
        (by intro it hm hw; exact absurd hw (no_items_of_count hcnt it hm)) lt.d2
    · intro u0 ne0; refine others_changed inv ht ?_ ?_ ?_ ?_ ?_ u0 ne0 (lf u0)
      · rfl
      · exact Or.inl rfl
      · intro it hm; exact hm
      · intro u _; exact Nat.le_refl _
      · intro u _ hc; simp at hc
  · -- dbwPop: pop a waiter's item
    have ht : holds (s.pcs t) = true := by rw [e]; rfl
    have hOt := ((inv.l t).own ht).1.1
    have hnsig := ((inv.l t).own ht).2.1
    have hp := lt.p rfl rfl
    simp only [step] at h'
    split at h'
    · rename_i hd rest heq
      split at h'
      · simp at h'
      · split at h'
        · rename_i w hw
          simp at h'; obtain ⟨rfl, rfl⟩ := h'
          have hcons : ∀ u, countW s.sh u = cntW rest u + (if hd.waiter = some u then 1 else 0) := by
            intro u; simp only [countW, heq, cntW_cons]
          refine ⟨⟨by simp [f1, heq, hp.1], fun ho => by simp [hOt] at ho⟩, ?_, ?_⟩
          · refine ⟨fun _ hi => by simp [inHand] at hi, (by intro id e2; cases e2), (by intro _; rfl), ?_,
              (by intro w' k' e2; cases e2), (by intro hm; exact absurd hm hnsig), (by intro id e2; cases e2), ?_, ?_, ?_⟩
            · intro w' enq' k' e2; cases e2; exact ⟨rfl, rfl, hd.id, by simp [hp.1]⟩
            · intro hc
              have hwt : w = t := by simpa using hc
              subst hwt
              have hk := lt.d hd (by rw [heq]; simp) hw
              refine ⟨hd.id, by simpa [waitId, waitId0] using hk, by simp [hp.1], ?_⟩
              have := hcons w; have := lt.d2; simp [hw] at *; show cntW rest w = 0; omega
            · intro it hm hwt
              have := lt.d it (by rw [heq]; exact List.mem_cons_of_mem _ hm) hwt
              simpa [waitId0] using this
            · have := hcons t; have := lt.d2; show cntW rest t ≤ 1; omega
          · intro u0 ne0; refine others_changed inv ht ?_ ?_ ?_ ?_ ?_ u0 ne0 (lf u0)
            · rfl
            · exact Or.inr (Or.inl rfl)
            · intro it hm; rw [heq]; exact List.mem_cons_of_mem _ hm
            · intro u _; have := hcons u; show cntW rest u ≤ countW s.sh u; omega
            · intro u nu hc
              have hwu : w = u := by simpa using hc
              subst hwu
              have hk := (lf w).d hd (by rw [heq]; simp) hw
              refine ⟨hd.id, waitId_of_waitId0 hk, by simp [hp.1], ?_⟩
              have := hcons w; have := (lf w).d2; simp [hw] at *; show cntW rest w = 0; omega
        · simp at h'
    · simp at h'
  · -- dbwRmw: transfer the lock
    have ht : holds (s.pcs t) = true := by rw [e]; rfl
    have hnsig := ((inv.l t).own ht).2.1
    have hr := lt.r2 w enq k rfl
    simp [step] at h'; obtain ⟨rfl, rfl⟩ := h'
    refine ⟨⟨f1, fun ho => by simp at ho⟩, ?_, ?_⟩
    · refine ⟨(by intro hh; simp [holds] at hh), (by intro id e2; cases e2), (by intro hp; simp at hp),
        (by intro w' enq' k' e2; cases e2), ?_, (by intro hm; exact absurd hm hnsig), (by intro id e2; cases e2), ?_, ?_, lt.d2⟩
      · intro w' k' e2; cases e2; exact ⟨hr.2.1, rfl⟩
      · intro hc
        obtain ⟨id, c1, c2, c3⟩ := lt.c hc
        exact ⟨id, by simpa [waitId, waitId0] using c1, c2, c3⟩
      · intro it hm hwt; have := lt.d it hm hwt; simpa [waitId0] using this
    · intro u0 ne0; refine others_changed inv ht ?_ ?_ ?_ ?_ ?_ u0 ne0 (lf u0)
      · rfl
      · exact Or.inr (Or.inr rfl)
      · intro it hm; exact hm
      · intro u _; exact Nat.le_refl _
      · intro u _ hc; exact (lf u).c hc
  · -- dbwSignal
    have hr := lt.r3 w k rfl
    simp [step] at h'; obtain ⟨rfl, rfl⟩ := h'
    refine ⟨⟨f1, gf.f4⟩, ?_, oth_same lf h rfl⟩
    refine self_free (kPc_not_holds k) (kPc_not_sig k) (by rw [hr.2]; simp) ?_ ?_ ?_ lt.d2
    · intro hm
      simp at hm
      rcases hm with rfl | hm
      · exact hr
      · exact lt.s hm
    · intro hc
      obtain ⟨id, c1, c2, c3⟩ := lt.c hc
      exact ⟨id, by rw [waitId_kPc]; simpa [waitId, waitId0] using c1, c2, c3⟩
    · intro it hm hwt; have := lt.d it hm hwt; rw [waitId0_kPc]; simpa [waitId0] using this

end LaneF
