import DispatchVerif.Core.GroupPA
/-! C07 calibration, layer B: waiters. A thread asleep on generation g is either still legitimately
    waiting (generation unchanged, HAS_WAITERS set, count > 0), already woken, or a thread that will
    call wake_by_address is on its way. Also: wait returns 0 through the slow path only after the
    generation moved. -/
namespace GroupP

theorem rm_of_not_mem {l : List Tid} {t : Tid} (h : t ∉ l) : rm l t = l := by
  unfold rm; apply List.filter_eq_self.mpr; intro a ha; simp; intro e; subst e; exact h ha

def isSlp : Pc → Bool
  | .wSleep _ _ => true
  | _ => false
def waitG : Pc → Option Nat
  | .wSlow _ g | .wSleep _ g => some g
  | _ => none
def isGood : Pc → Bool
  | .leave2 old => good old
  | _ => false
def isWW : Pc → Bool
  | .wake st _ => st.Wt
  | .wakeAddr st => st.Wt
  | _ => false
def retG : Pc → Option Nat
  | .wRet true (some (_, g)) => some g
  | _ => none

/-- somebody is going to call wake_by_address -/
def Resp (sh : Sh) : Prop := (sh.w.Wt = true ∧ sh.goodL ≠ []) ∨ sh.ww ≠ []

structure L3 (sh : Sh) (t : Tid) (pc : Pc) : Prop where
  wl : ∀ g, waitG pc = some g → g ≤ sh.w.gen ∧ (sh.w.gen = g → sh.w.Wt = true ∧ 0 < sh.w.count)
  sl : t ∈ sh.sleepers ↔ isSlp pc = true
  rs : ∀ g, isSlp pc = true → waitG pc = some g → t ∉ sh.woken → sh.w.gen ≠ g → Resp sh
  gl : t ∈ sh.goodL ↔ isGood pc = true
  wwm : t ∈ sh.ww ↔ isWW pc = true
  wr : ∀ g, retG pc = some g → g < sh.w.gen

abbrev Post3 (sh sh' : Sh) (t : Tid) (pc' : Pc) : Prop :=
  L3 sh' t pc' ∧ ∀ t' q, t' ≠ t → L3 sh t' q → L3 sh' t' q

theorem others3 {sh sh' : Sh} {t : Tid}
    (hgen : sh.w.gen ≤ sh'.w.gen)
    (hkeep : sh'.w.gen = sh.w.gen → sh.w.Wt = true → 0 < sh.w.count → sh'.w.Wt = true ∧ 0 < sh'.w.count)
    (hsl : ∀ u, u ≠ t → (u ∈ sh'.sleepers ↔ u ∈ sh.sleepers))
    (hgl : ∀ u, u ≠ t → (u ∈ sh'.goodL ↔ u ∈ sh.goodL))
    (hww : ∀ u, u ≠ t → (u ∈ sh'.ww ↔ u ∈ sh.ww))
    (R1 : Resp sh → Resp sh' ∨ ∀ u, u ∈ sh.sleepers → u ∈ sh'.woken)
    (R2 : sh'.w.gen ≠ sh.w.gen → sh.w.Wt = true → 0 < sh.w.count → Resp sh')
    (R3 : ∀ u, u ≠ t → u ∈ sh.woken → u ∈ sh'.woken) :
    ∀ t' q, t' ≠ t → L3 sh t' q → L3 sh' t' q := by
  intro t' q ne l
  refine ⟨?_, by rw [hsl t' ne]; exact l.sl, ?_, by rw [hgl t' ne]; exact l.gl, by rw [hww t' ne]; exact l.wwm, ?_⟩
  · intro g hg
    have ⟨h1, h2⟩ := l.wl g hg
    refine ⟨by omega, fun e => ?_⟩
    have e' : sh'.w.gen = sh.w.gen := by omega
    have ⟨h3, h4⟩ := h2 (by omega)
    exact hkeep e' h3 h4
  · intro g hs hg hnw hne
    have ⟨h1, h2⟩ := l.wl g hg
    have hnw0 : t' ∉ sh.woken := fun hm => hnw (R3 t' ne hm)
    by_cases e : sh.w.gen = g
    · have ⟨h3, h4⟩ := h2 e
      exact R2 (by omega) h3 h4
    · rcases R1 (l.rs g hs hg hnw0 e) with r | r
      · exact r
      · exact absurd (r t' (l.sl.mpr hs)) hnw
  · intro g hg; have := l.wr g hg; omega

/-- steps that change nothing this layer looks at -/
theorem keep3 {sh sh' : Sh} {t : Tid} (hw : sh'.w.gen = sh.w.gen ∧ sh'.w.Wt = sh.w.Wt ∧ sh'.w.count = sh.w.count)
    (hs : sh'.sleepers = sh.sleepers) (hg : sh'.goodL = sh.goodL) (hww : sh'.ww = sh.ww) (hwk : sh'.woken = sh.woken) :
    (∀ t' q, t' ≠ t → L3 sh t' q → L3 sh' t' q) ∧ (∀ q, L3 sh t q → L3 sh' t q) := by
  have key : ∀ u q, L3 sh u q → L3 sh' u q := by
    intro u q l
    refine ⟨?_, by rw [hs]; exact l.sl, ?_, by rw [hg]; exact l.gl, by rw [hww]; exact l.wwm, ?_⟩
    · intro g h; rw [hw.1, hw.2.1, hw.2.2]; exact l.wl g h
    · intro g h1 h2 h3 h4
      rw [hwk] at h3; rw [hw.1] at h4
      have := l.rs g h1 h2 h3 h4
      unfold Resp at *; rw [hw.2.1, hg, hww]; exact this
    · intro g h; rw [hw.1]; exact l.wr g h
  exact ⟨fun t' q _ l => key t' q l, fun q l => key t q l⟩

/-- the stepping thread changes pc between two pcs this layer does not distinguish -/
theorem L3_same {sh : Sh} {t : Tid} {pc pc' : Pc} (l : L3 sh t pc)
    (h1 : waitG pc' = waitG pc) (h2 : isSlp pc' = isSlp pc) (h3 : isGood pc' = isGood pc) (h4 : isWW pc' = isWW pc)
    (h5 : retG pc' = none) : L3 sh t pc' :=
  ⟨by rw [h1]; exact l.wl, by rw [h2]; exact l.sl, by rw [h1, h2]; exact l.rs, by rw [h3]; exact l.gl,
   by rw [h4]; exact l.wwm, by intro g hg; rw [h5] at hg; cases hg⟩

end GroupP
