import DispatchVerif.Core.LaneFProof
/-! C02 calibration: FIFO of a serial lane. Ghost histories: `pushed` (ids in the order of the tail
    exchange), `startedP` (pushed items in the order they start), `pend` (popped, not yet started).
    Theorem: pushed = startedP ++ pend ++ ids still queued, |pend| ≤ 1 — pushed items start in the
    order they were pushed, none is skipped, for any number of threads. -/
namespace LaneF

def kId : K → Option ItemId
  | .toWait id => some id
  | _ => none

/-- the id of the waiter item of the thread while that item may still be in the list -/
def waitId0 : Pc → Option ItemId
  | .sSlowLink id _ | .sSlowRmw id | .sWait id => some id
  | .bc1 _ k | .bc2 _ _ k | .dbwPop _ k | .dbwRmw _ _ k | .dbwSignal _ k => kId k
  | _ => none

def waitId : Pc → Option ItemId
  | .sRunSlow id => some id
  | pc => waitId0 pc

theorem waitId_of_waitId0 {pc : Pc} {id : ItemId} (h : waitId0 pc = some id) : waitId pc = some id := by
  cases pc <;> simp_all [waitId, waitId0]

@[simp] theorem waitId0_kPc (k : K) : waitId0 (kPc k) = kId k := by cases k <;> rfl
@[simp] theorem waitId_kPc (k : K) : waitId (kPc k) = kId k := by cases k <;> rfl

def inHand : Pc → Bool
  | .dRun _ | .sRunSlow _ | .dbwRmw _ _ _ => true
  | _ => false

def isDbwRmw : Pc → Bool
  | .dbwRmw _ _ _ => true
  | _ => false

/-- number of queued items whose waiter is t -/
def cntW (l : List Item) (t : Tid) : Nat := (l.filter (fun it => decide (it.waiter = some t))).length
def countW (sh : Sh) (t : Tid) : Nat := cntW sh.items t

theorem cntW_link (l : List Item) (id : ItemId) (t : Tid) : cntW (linkItem l id) t = cntW l t := by
  induction l with
  | nil => rfl
  | cons a l ih =>
    simp only [cntW, linkItem, List.map_cons] at ih ⊢
    by_cases e : a.id = id <;> by_cases w : a.waiter = some t <;> simp [e, w, List.filter_cons] at ih ⊢ <;> exact ih

theorem cntW_append (l : List Item) (a : Item) (t : Tid) :
    cntW (l ++ [a]) t = cntW l t + (if a.waiter = some t then 1 else 0) := by
  simp only [cntW, List.filter_append, List.length_append]
  by_cases w : a.waiter = some t <;> simp [w, List.filter_cons]

theorem cntW_cons (a : Item) (l : List Item) (t : Tid) :
    cntW (a :: l) t = cntW l t + (if a.waiter = some t then 1 else 0) := by
  simp only [cntW]
  by_cases w : a.waiter = some t <;> simp [w, List.filter_cons]

theorem cntW_zero_iff (l : List Item) (t : Tid) : cntW l t = 0 ↔ ∀ it, it ∈ l → it.waiter ≠ some t := by
  simp [cntW, List.filter_eq_nil_iff]

structure GF (sh : Sh) : Prop where
  f1 : sh.pushed = sh.startedP ++ sh.pend ++ sh.items.map (·.id)
  f4 : sh.dq.O = none → sh.pend = [] ∧ sh.handing = none ∧ sh.preX = none

structure LF (sh : Sh) (t : Tid) (pc : Pc) : Prop where
  p : holds pc = true → inHand pc = false → sh.pend = [] ∧ sh.handing = none ∧ sh.preX = none
  a : ∀ id, pc = .dRun id → sh.pend = [id] ∧ sh.handing = none ∧ sh.preX = none
  r1 : sh.preX = some t → isDbwRmw pc = true
  r2 : ∀ w enq k, pc = .dbwRmw w enq k → sh.preX = some t ∧ sh.handing = some w ∧ ∃ id, sh.pend = [id]
  r3 : ∀ w k, pc = .dbwSignal w k → sh.handing = some w ∧ sh.preX = none
  s : t ∈ sh.signalled → sh.handing = some t ∧ sh.preX = none
  b : ∀ id, pc = .sRunSlow id → sh.handing = some t ∧ sh.preX = none
  c : sh.handing = some t → ∃ id, waitId pc = some id ∧ sh.pend = [id] ∧ countW sh t = 0
  d : ∀ it, it ∈ sh.items → it.waiter = some t → waitId0 pc = some it.id
  d2 : countW sh t ≤ 1

/-- the three ghost fields the claims read -/
def X (sh : Sh) : List ItemId × Option Tid × Option Tid := (sh.pend, sh.handing, sh.preX)

/-- only a thread at an owner pc changes the in-hand ghosts -/
theorem X_change_holds {sh : Sh} {t : Tid} {pc : Pc} {op : Op} {sh' : Sh} {pc' : Pc}
    (h : (sh', pc') ∈ step sh t pc op) (hx : X sh' ≠ X sh) : holds pc = true := by
  cases pc <;> simp only [step] at h
  all_goals (try (repeat' split at h))
  all_goals (try simp at h)
  all_goals (try (first | (obtain ⟨rfl, rfl⟩ := h) | (rcases h with ⟨rfl, rfl⟩ | ⟨rfl, rfl⟩)))
  all_goals (try (simp [X] at hx))
  all_goals (try rfl)

/-- items that are in the list after a step were there before with the same id and waiter, or were
    just pushed by the stepping thread -/
theorem items_after {sh : Sh} {t : Tid} {pc : Pc} {op : Op} {sh' : Sh} {pc' : Pc}
    (h : (sh', pc') ∈ step sh t pc op) :
    ∀ it, it ∈ sh'.items → (∃ it0, it0 ∈ sh.items ∧ it0.id = it.id ∧ it0.waiter = it.waiter) ∨
      (it.waiter = none ∨ (it.waiter = some t ∧ waitId0 pc' = some it.id)) := by
  have hlink : ∀ (l : List Item) (id : ItemId) (it : Item), it ∈ linkItem l id →
      ∃ it0, it0 ∈ l ∧ it0.id = it.id ∧ it0.waiter = it.waiter := by
    intro l id it hm
    simp only [linkItem, List.mem_map] at hm
    obtain ⟨it0, h0, e⟩ := hm
    refine ⟨it0, h0, ?_⟩
    split at e <;> (subst e; simp)
  have hsame : sh'.items = sh.items → ∀ it, it ∈ sh'.items →
      (∃ it0, it0 ∈ sh.items ∧ it0.id = it.id ∧ it0.waiter = it.waiter) ∨
        (it.waiter = none ∨ (it.waiter = some t ∧ waitId0 pc' = some it.id)) := by
    intro e it hm; rw [e] at hm; exact Or.inl ⟨it, hm, rfl, rfl⟩
  cases pc <;> simp only [step] at h
  all_goals (try (repeat' split at h))
  all_goals (try simp at h)
  all_goals (try (first | (obtain ⟨rfl, rfl⟩ := h) | (rcases h with ⟨rfl, rfl⟩ | ⟨rfl, rfl⟩)))
  all_goals (first
    | (exact hsame rfl)
    | (intro it hm; exact Or.inl (hlink _ _ it hm))
    | (intro it hm; simp only [List.mem_append, List.mem_singleton] at hm; rcases hm with hm | rfl
       · exact Or.inl ⟨it, hm, rfl, rfl⟩
       · right; simp [waitId0])
    | (intro it hm; refine Or.inl ⟨it, ?_, rfl, rfl⟩; simp_all))

/-- how a step changes the number of queued items waiting for u -/
theorem count_after {sh : Sh} {t : Tid} {pc : Pc} {op : Op} {sh' : Sh} {pc' : Pc}
    (h : (sh', pc') ∈ step sh t pc op) :
    ∀ u, countW sh' u ≤ countW sh u ∨ (u = t ∧ countW sh' u = countW sh u + 1 ∧ ∃ id, pc = .sSlowPush id) := by
  cases pc <;> simp only [step] at h
  all_goals (try (repeat' split at h))
  all_goals (try simp at h)
  all_goals (try (first | (obtain ⟨rfl, rfl⟩ := h) | (rcases h with ⟨rfl, rfl⟩ | ⟨rfl, rfl⟩)))
  all_goals (first
    | (intro u; exact Or.inl (Nat.le_refl _))
    | (intro u; left; simp only [countW, cntW_link]; exact Nat.le_refl _)
    | (intro u; left; simp only [countW, cntW_append]; simp; done)
    | (intro u; simp only [countW, cntW_append]
       by_cases e : u = t
       · subst e; right; exact ⟨rfl, by simp, _, rfl⟩
       · left; have : ¬ (some t = some u) := fun h => e (Option.some.inj h).symm
         simp [this])
    | (intro u; left; simp only [countW]; simp_all [cntW_cons]))

end LaneF
