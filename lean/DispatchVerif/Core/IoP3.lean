import DispatchVerif.Core.IoP2
namespace IoP

theorem alloc_pre {op : Op} (h : Inv op) :
    (allocBuf op).undelivered = (allocBuf op).data.length ∧
    (allocBuf op).data.length + (allocBuf op).buf.length ≤ (allocBuf op).high ∧
    (allocBuf op).buf.length ≤ (allocBuf op).bufSiz ∧
    (allocBuf op).data ++ (allocBuf op).buf = op.data ++ op.buf := by
  have ⟨a1, a2, a3, a4, a5, a6, a7, a8, a9, a10, a11, a12, a13⟩ := alloc_spec h
  refine ⟨by rw [a7, a3]; exact h.und, by rw [a3, a11]; rw [a3] at *; omega, by omega, by rw [a3, a2]⟩

theorem handle_eagain {op : Op} (h : Inv op) : HandleSpec op .eagain := by
  have ⟨a1, a2, a3, a4, a5, a6, a7, a8, a9, a10, a11, a12, a13⟩ := alloc_spec h
  have hh : handle op .eagain = (allocBuf op, [], false) := rfl
  refine ⟨by rw [hh]; simp [delivered, bytesOf, a2, a3], by rw [hh]; simp, by rw [hh]; exact ⟨a11, a10⟩, ?_, by rw [hh]; simp⟩
  rw [hh]; intro _
  refine ⟨⟨by rw [a10, a11]; exact h.lowHigh, by rw [a11]; exact h.highPos, by rw [a12]; exact h.chunkPos,
    by rw [a7, a3]; exact h.und, by rw [a3, a11, a10]; exact h.small, fun _ => ⟨a4, by rw [a3, a11]; exact a5⟩,
    (fun hb => by rw [a1] at hb; cases hb), ?_⟩, by simp⟩
  intro l hl; rw [a9] at hl; rw [a8]
  exact ⟨(h.tot l hl).1, fun _ => by rw [a2]; exact a6 l hl⟩

/-- a delivery with DOP_DELIVER or DOP_DONE leaves nothing behind -/
theorem deliver_flush (op : Op) (fD fDn fNE : Bool) (hf : fD = true ∨ fDn = true) (hu : op.undelivered = op.data.length)
    (hsz : op.data.length + op.buf.length ≤ op.high) (hbs : op.buf.length ≤ op.bufSiz) :
    (deliverData op fD fDn fNE).1.data = [] ∧ (deliverData op fD fDn fNE).1.buf = [] := by
  have ⟨_, _, _, _, _, _, _, _, _, _, d11⟩ := deliver_spec op fD fDn fNE hu hsz hbs
  rcases d11 with ⟨_, _, _, h1, h2⟩ | ⟨_, hb, _, hd⟩
  · rcases hf with e | e <;> simp_all
  · rcases hd with hd | ⟨_, _, h1, h2⟩
    · exact ⟨hd, hb⟩
    · rcases hf with e | e <;> simp_all

theorem handle_eof {op : Op} (h : Inv op) : HandleSpec op .eof := by
  have ⟨a1, a2, a3, a4, a5, a6, a7, a8, a9, a10, a11, a12, a13⟩ := alloc_spec h
  have ⟨p1, p2, p3, p4⟩ := alloc_pre h
  let op1 := allocBuf op
  let op2 := (deliverData op1 true false true).1
  have hh : handle op .eof = ((deliverData op2 false true false).1,
      (deliverData op1 true false true).2 ++ (deliverData op2 false true false).2, true) := rfl
  have ⟨d1, d2, d3, d4, d5, d6, d7, d8, d9, d10, d11⟩ := deliver_spec op1 true false true p1 p2 p3
  simp only at d1 d2 d3 d4 d5 d6 d7 d8 d9 d10 d11
  have ⟨f1, f2⟩ := deliver_flush op1 true false true (Or.inl rfl) p1 p2 p3
  have q2 : op2.data.length + op2.buf.length ≤ op2.high := by
    show (deliverData op1 true false true).1.data.length + (deliverData op1 true false true).1.buf.length ≤ _
    rw [f1, f2]; simp
  have q3 : op2.buf.length ≤ op2.bufSiz := by
    show (deliverData op1 true false true).1.buf.length ≤ _; rw [f2]; simp
  have ⟨e1, e2, e3, e4, e5, e6, e7, e8, e9, e10, e11⟩ := deliver_spec op2 false true false d3 q2 q3
  simp only at e1 e2 e3 e4 e5 e6 e7 e8 e9 e10 e11
  have ⟨g1, g2⟩ := deliver_flush op2 false true false (Or.inr rfl) d3 q2 q3
  refine ⟨?_, ?_, ?_, ?_, ?_⟩
  · rw [hh]
    have E1 : delivered (deliverData op2 false true false).2 ++ ((deliverData op2 false true false).1.data ++
        (deliverData op2 false true false).1.buf) = op2.data ++ op2.buf := by simpa [List.append_assoc] using e1
    have D1 : delivered (deliverData op1 true false true).2 ++ (op2.data ++ op2.buf) = op1.data ++ op1.buf := by
      simpa [List.append_assoc] using d1
    simp only [delivered_append, List.append_assoc, bytesOf, List.append_nil]
    rw [E1, D1]; exact p4
  · rw [hh]; intro c hc
    rcases List.mem_append.mp hc with hc | hc
    · have := d2 c hc; show _ ≤ op.high; rw [← a11]; exact this
    · have := e2 c hc; show _ ≤ op.high; rw [← a11]
      have e : op2.high = op1.high := d7
      rw [e] at this; exact this
  · rw [hh]; refine ⟨?_, ?_⟩
    · show (deliverData op2 false true false).1.high = op.high; rw [e7]; show (deliverData op1 true false true).1.high = _; rw [d7]; exact a11
    · show (deliverData op2 false true false).1.low = op.low; rw [e6]; show (deliverData op1 true false true).1.low = _; rw [d6]; exact a10
  · rw [hh]; intro hc; simp at hc
  · rw [hh]; intro _
    obtain ⟨init, last, hi, hl, hn⟩ := deliver_done_spec op2
    refine ⟨g1, g2, (deliverData op1 true false true).2 ++ init, last, by rw [hi, List.append_assoc], hl, ?_⟩
    intro x hx
    rcases List.mem_append.mp hx with hx | hx
    · exact d4 trivial x hx
    · exact hn x hx

theorem handle_error {op : Op} (h : Inv op) (e : Nat) : HandleSpec op (.error e) := by
  have ⟨a1, a2, a3, a4, a5, a6, a7, a8, a9, a10, a11, a12, a13⟩ := alloc_spec h
  have ⟨p1, p2, p3, p4⟩ := alloc_pre h
  let op1 : Op := { allocBuf op with err := e }
  have hh : handle op (.error e) = ((deliverData op1 false true false).1, (deliverData op1 false true false).2, true) := rfl
  have ⟨d1, d2, d3, d4, d5, d6, d7, d8, d9, d10, d11⟩ := deliver_spec op1 false true false p1 p2 p3
  simp only at d1 d2 d3 d4 d5 d6 d7 d8 d9 d10 d11
  have ⟨f1, f2⟩ := deliver_flush op1 false true false (Or.inr rfl) p1 p2 p3
  refine ⟨?_, ?_, ?_, ?_, ?_⟩
  · rw [hh]; simp only [bytesOf, List.append_nil]; rw [d1]; exact p4
  · rw [hh]; intro c hc; have := d2 c hc; show _ ≤ op.high; rw [← a11]; exact this
  · rw [hh]; exact ⟨by rw [d7]; exact a11, by rw [d6]; exact a10⟩
  · rw [hh]; intro hc; simp at hc
  · rw [hh]; intro _; exact ⟨f1, f2, deliver_done_spec op1⟩

theorem handle_spec {op : Op} (h : Inv op) (o : Outcome) (hl : LegalO op o) : HandleSpec op o := by
  cases o with
  | bytes bs => exact handle_bytes h bs hl
  | eof => exact handle_eof h
  | eagain => exact handle_eagain h
  | error e => exact handle_error h e

/-- the bytes the kernel handed to this operation before it completed -/
def runBytes : Op → List Outcome → List Byte
  | _, [] => []
  | op, o :: os => bytesOf o ++ (if (handle op o).2.2 then [] else runBytes (handle op o).1 os)

theorem legal_cons {op : Op} {o : Outcome} {os : List Outcome} (h : Legal op (o :: os)) :
    LegalO op o ∧ Legal (handle op o).1 os := by
  cases o <;> exact h

/-- **I/O read conservation**: for every sequence of read() outcomes the kernel may produce, if the
    operation completes then (1) the concatenation of the data passed to the handler is exactly the
    bytes read, in order; (2) no delivery exceeds the high-water mark; (3) the handler is called with
    `done` exactly once, and that call is the last. -/
theorem read_conservation : ∀ (os : List Outcome) (op : Op), Inv op → Legal op os → (run op os).2 = true →
    delivered (run op os).1 = op.data ++ op.buf ++ runBytes op os ∧
    (∀ c ∈ (run op os).1, c.data.length ≤ op.high) ∧
    ∃ init last, (run op os).1 = init ++ [last] ∧ last.done = true ∧ ∀ x ∈ init, x.done = false := by
  intro os
  induction os with
  | nil => intro op _ _ hf; simp [run] at hf
  | cons o os ih =>
    intro op hinv hleg hfin
    have ⟨lo, lrest⟩ := legal_cons hleg
    have hs := handle_spec hinv o lo
    by_cases hf : (handle op o).2.2 = true
    · have hr : run op (o :: os) = ((handle op o).2.1, true) := by simp [run, hf]
      have ⟨fd, fb, fl⟩ := hs.fin hf
      have hc := hs.cons
      rw [fd, fb] at hc
      rw [hr]; simp only [runBytes, hf, if_true, List.append_nil] at hc ⊢
      exact ⟨hc, hs.high, fl⟩
    · have hf' : (handle op o).2.2 = false := by cases h : (handle op o).2.2 <;> simp_all
      have hr : run op (o :: os) = ((handle op o).2.1 ++ (run (handle op o).1 os).1, (run (handle op o).1 os).2) := by
        simp [run, hf']
      have ⟨hinv', hnd⟩ := hs.cont hf'
      rw [hr] at hfin
      have ⟨i1, i2, init, last, i3, i4, i5⟩ := ih (handle op o).1 hinv' lrest hfin
      rw [hr]
      refine ⟨?_, ?_, (handle op o).2.1 ++ init, last, by simp only []; rw [i3, List.append_assoc], i4, ?_⟩
      · simp only [runBytes, hf', Bool.false_eq_true, if_false]
        rw [delivered_append, i1, ← List.append_assoc, ← List.append_assoc, hs.cons]
        simp
      · intro c hc
        rcases List.mem_append.mp hc with hc | hc
        · exact hs.high c hc
        · have := i2 c hc; rw [hs.same.1] at this; exact this
      · intro x hx
        rcases List.mem_append.mp hx with hx | hx
        · exact (hnd x hx).1
        · exact i5 x hx

end IoP

section audit
#print axioms IoP.read_conservation
#print axioms IoP.read_len_pos
end audit

-- non-vacuity: the initial state of an operation satisfies the invariant
example : IoP.Inv { length := none, low := 5, high := 5, chunk := 1048576 } := by
  constructor <;> simp
example : IoP.Inv { length := some 4, low := 2, high := 8, chunk := 3 } := by
  constructor <;> simp
