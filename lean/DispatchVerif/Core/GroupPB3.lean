import DispatchVerif.Core.GroupPB2
namespace GroupP

theorem inv3_reachable {s : St} (h : Reachable s) : ∀ t, L3 s.sh t (s.pcs t) := by
  induction h with
  | init =>
    intro t
    exact ⟨by intro g hg; simp [waitG] at hg, by simp [isSlp], by intro g hs; simp [isSlp] at hs,
      by simp [isGood], by simp [isWW], by intro g hg; simp [retG] at hg⟩
  | step _ hs ih =>
    cases hs with
    | mk t op sh' pc' h =>
      obtain ⟨hl, hoth⟩ := step_local3 (ih t) h
      intro t'
      by_cases e : t' = t
      · subst e; simpa using hl
      · simpa [e] using hoth t' _ e (ih t')

/-- **wait returns 0 soundly** (slow path): the generation the waiter registered under has passed,
    i.e. a 1 → 0 transition of the count happened after it set HAS_WAITERS. (The fast path returns 0
    only in the step that reads count = 0.) -/
theorem wait_zero_sound {s : St} (h : Reachable s) (t : Tid) (g0 g : Nat)
    (hp : s.pcs t = .wRet true (some (g0, g))) : g < s.sh.w.gen := by
  have := (inv3_reachable h t).wr g (by rw [hp]; rfl)
  exact this

/-- **No stranded waiter**: a thread asleep in `wait_on_address` for generation g has been woken, or
    is still legitimately waiting (same generation, HAS_WAITERS set, count > 0), or a thread that will
    call `wake_by_address` is in flight. -/
theorem sleeper_accounted {s : St} (h : Reachable s) (u : Tid) (g0 g : Nat) (hp : s.pcs u = .wSleep g0 g) :
    u ∈ s.sh.woken ∨ (s.sh.w.gen = g ∧ s.sh.w.Wt = true ∧ 0 < s.sh.w.count) ∨ Resp s.sh := by
  have l := inv3_reachable h u
  rw [hp] at l
  by_cases hw : u ∈ s.sh.woken
  · exact Or.inl hw
  · by_cases hg : s.sh.w.gen = g
    · exact Or.inr (Or.inl ⟨hg, (l.wl g rfl).2 hg⟩)
    · exact Or.inr (Or.inr (l.rs g rfl rfl hw hg))

/-- … in particular, when no thread is inside leave's cmpxchg loop or `_dispatch_group_wake`, a sleeper
    that has not been woken is waiting for a count that really is positive. -/
theorem no_stranded_waiter {s : St} (h : Reachable s) (u : Tid) (g0 g : Nat) (hp : s.pcs u = .wSleep g0 g)
    (hq : ∀ t, isGood (s.pcs t) = false ∧ isWW (s.pcs t) = false) :
    u ∈ s.sh.woken ∨ (s.sh.w.gen = g ∧ 0 < s.sh.w.count) := by
  rcases sleeper_accounted h u g0 g hp with hw | ⟨h1, _, h3⟩ | r
  · exact Or.inl hw
  · exact Or.inr ⟨h1, h3⟩
  · exfalso
    rcases r with ⟨_, hgl⟩ | hww
    · cases hl : s.sh.goodL with
      | nil => exact hgl hl
      | cons a l =>
        have := (inv3_reachable h a).gl.mp (by simp [hl])
        rw [(hq a).1] at this; cases this
    · cases hl : s.sh.ww with
      | nil => exact hww hl
      | cons a l =>
        have := (inv3_reachable h a).wwm.mp (by simp [hl])
        rw [(hq a).2] at this; cases this

end GroupP

section audit
#print axioms GroupP.wait_zero_sound
#print axioms GroupP.no_stranded_waiter
end audit
