import DispatchVerif.Core.LaneWMain
/-! C04, the two ordering clauses, in the terms the model has: items are popped from the head of the list and appended at its
    tail (`items_fifo_step`); a popped reader is, until it has finished, a redirected token in the root queue, a signalled
    waiter, or a thread holding a width unit. -/
namespace LaneW

theorem sigN_nil_of_counts {l : List Tid} (h : ∀ t, l.count t = 0) : l = [] := by
  cases l with
  | nil => rfl
  | cons a l => have := h a; simp at this

/-- **a barrier starts only after every reader popped before it has finished**: while a thread owns the lane in barrier mode
    (from before it pops a barrier item until after that item has finished) no popped reader is unfinished - none redirected
    and not yet picked up, none signalled and not yet running, none holding a width unit -/
theorem barrier_owner_alone {W : Nat} (hW : 1 ≤ W) {s : St} (h : Reachable W s) (t : Tid) (hb : holdsB (s.pcs t) = true) :
    s.sh.holders = [] ∧ s.sh.redirects = 0 ∧ s.sh.sigN = [] ∧ ∀ t', unitsOf (s.pcs t') = 0 := by
  have inv := inv_reachable hW h
  have hl := ((inv.l t).ownB hb).1
  obtain ⟨hh, hr, _⟩ := inv.g.gB hl.2
  have hc : ∀ t', unitsOf (s.pcs t') = 0 ∧ s.sh.sigN.count t' = 0 := by
    intro t'
    have := (inv.l t').cnt
    rw [hh] at this
    simp at this
    omega
  exact ⟨hh, hr, sigN_nil_of_counts (fun t' => (hc t').2), fun t' => (hc t').1⟩

def isItemPc : Pc → Bool
  | .run _ _ | .running _ _ | .runningA _ _ _ => true
  | _ => false

/-- **nothing starts while a barrier item runs**: no other thread is about to start, or inside, any item of the lane -/
theorem nothing_starts_while_barrier_runs {W : Nat} (hW : 1 ≤ W) {s : St} (h : Reachable W s) (t t' : Tid)
    (hb : isRunningB (s.pcs t) = true) (hi : isItemPc (s.pcs t') = true) : t = t' := by
  have hB := holdsB_of_isRunningB hb
  obtain ⟨_, _, _, hu⟩ := barrier_owner_alone hW h t hB
  have := hu t'
  cases hp : s.pcs t' with
  | run i a =>
    rw [hp] at this
    cases ha : a.isBar with
    | true => exact barrier_owner_unique hW h t t' hB (by rw [hp]; simp [holdsB, ha])
    | false => simp [unitsOf, ha] at this
  | running i a =>
    rw [hp] at this
    cases ha : a.isBar with
    | true => exact barrier_owner_unique hW h t t' hB (by rw [hp]; simp [holdsB, ha])
    | false => simp [unitsOf, ha] at this
  | runningA i a k =>
    rw [hp] at this
    cases ha : a.isBar with
    | true => exact barrier_owner_unique hW h t t' hB (by rw [hp]; simp [holdsB, ha])
    | false => simp [unitsOf, ha] at this
  | _ => rw [hp] at hi; simp [isItemPc] at hi

end LaneW

namespace LaneW

def ids (l : List Item) : List ItemId := l.map (·.id)

theorem ids_linkItem (l : List Item) (i : ItemId) : ids (linkItem l i) = ids l := by
  unfold ids linkItem
  rw [List.map_map]
  apply List.map_congr_left
  intro a _
  simp only [Function.comp]
  split <;> rfl

/-- the three things a step can do to the list of queued items -/
def FifoMove (l l' : List Item) : Prop :=
  ids l' = ids l ∨ (∃ x, l' = l ++ [x]) ∨ (∃ h, l = h :: l')

theorem FifoMove.same {l : List Item} : FifoMove l l := Or.inl rfl

theorem handOver_items (sh : Sh) (t : Tid) (h : Item) : (handOver sh t h).items = sh.items := by
  unfold handOver; split <;> rfl

set_option maxHeartbeats 1600000 in
/-- **items are popped from the head and appended at the tail, by every step of every thread** -/
theorem items_fifo_step {W : Nat} {sh : Sh} {t : Tid} {pc : Pc} {op : Op} {sh' : Sh} {pc' : Pc}
    (h : (sh', pc') ∈ step W sh t pc op) : FifoMove sh.items sh'.items := by
  cases pc <;> simp only [step] at h
  all_goals (repeat' (split at h))
  all_goals (try (simp only [List.mem_cons, List.mem_append, List.not_mem_nil, Prod.mk.injEq, or_false, false_or, applyReserve] at h))
  all_goals (try (repeat' (split at h)))
  all_goals (try (simp only [List.mem_cons, List.not_mem_nil, Prod.mk.injEq, or_false, false_or] at h))
  all_goals (try (rcases h with ⟨rfl, rfl⟩ | ⟨rfl, rfl⟩ | ⟨rfl, rfl⟩ | h))
  all_goals (try (rcases h with ⟨rfl, rfl⟩ | ⟨rfl, rfl⟩))
  all_goals (try (obtain ⟨rfl, rfl⟩ := h))
  all_goals (try (simp only [handOver_items]))
  all_goals (try (exact FifoMove.same))
  all_goals (try (exact Or.inl (ids_linkItem _ _)))
  all_goals (try (exact Or.inr (Or.inl ⟨_, rfl⟩)))
  all_goals (try (exact Or.inr (Or.inr ⟨_, by assumption⟩)))
  all_goals (try (exact absurd h (by simp)))

/-- ids appended to / popped from the list by a step, read off the two lists -/
def appended (l l' : List Item) : List ItemId := if l.length < l'.length then ids (l'.drop l.length) else []
def popped (l l' : List Item) : List ItemId := if l'.length < l.length then ids (l.take 1) else []

/-- executions with the history of pushes and pops -/
inductive ReachH (W : Nat) : St → List ItemId → List ItemId → Prop
  | init : ReachH W { sh := {}, pcs := fun _ => .idle } [] []
  | step {s s' A P} : ReachH W s A P → Step W s s' →
      ReachH W s' (A ++ appended s.sh.items s'.sh.items) (P ++ popped s.sh.items s'.sh.items)

theorem ReachH.reachable {W : Nat} {s : St} {A P : List ItemId} (h : ReachH W s A P) : Reachable W s := by
  induction h with
  | init => exact .init
  | step _ hs ih => exact .step ih hs

theorem ids_length (l : List Item) : (ids l).length = l.length := by simp [ids]

/-- **FIFO for every width**: at every moment of every execution, the items pushed so far are the items popped so far, in
    the same order, followed by the items still queued -/
theorem pushed_eq_popped_queued {W : Nat} {s : St} {A P : List ItemId} (h : ReachH W s A P) :
    A = P ++ ids s.sh.items := by
  induction h with
  | init => rfl
  | @step s s' A P _ hs ih =>
    cases hs with
    | mk t op sh' pc' hm =>
      have hf := items_fifo_step hm
      simp only []
      rcases hf with he | ⟨x, hx⟩ | ⟨hd, hh⟩
      · have hl : sh'.items.length = s.sh.items.length := by rw [← ids_length, he, ids_length]
        simp only [appended, popped, hl, Nat.lt_irrefl, if_false, List.append_nil, he]
        exact ih
      · have hl : s.sh.items.length < sh'.items.length := by rw [hx]; simp
        have hl' : ¬ sh'.items.length < s.sh.items.length := by omega
        simp only [appended, popped, hl, hl', if_true, if_false, List.append_nil]
        rw [hx, List.drop_left, ih]
        simp [ids]
      · have hl : sh'.items.length < s.sh.items.length := by rw [hh]; simp
        have hl' : ¬ s.sh.items.length < sh'.items.length := by omega
        simp only [appended, popped, hl, hl', if_true, if_false, List.append_nil]
        rw [ih, hh]
        simp [ids]

end LaneW

section audit
open LaneW
#print axioms barrier_owner_alone
#print axioms nothing_starts_while_barrier_runs
#print axioms items_fifo_step
#print axioms pushed_eq_popped_queued
end audit
