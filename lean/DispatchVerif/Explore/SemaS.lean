import Std.Data.HashSet
/-! Spike: dispatch_semaphore (value + kernel semaphore) with timeouts, BFS at small scope. -/
open Std
namespace SemaS
abbrev Tid := Nat
inductive Op | signal | wait (kind : Nat)   -- 0 forever, 1 timed, 2 poll (DISPATCH_TIME_NOW)
deriving DecidableEq, Hashable, Repr, BEq
inductive Pc
  | idle
  | sPost                      -- signal saw value <= 0: must post
  | wSlow (kind : Nat)         -- wait saw value < 0
  | wSleepT                    -- in sem_timedwait
  | wUndo                      -- timed out / polling: try to re-increment
  | wDrain                     -- blocking sem_wait
deriving DecidableEq, Hashable, Repr, BEq
structure Thread where
  pc : Pc
  script : List Op
deriving DecidableEq, Hashable, Repr, BEq
structure St where
  v0 : Int
  value : Int
  ksem : Nat := 0
  threads : List Thread
  signals : Nat := 0     -- signal calls started
  okWaits : Nat := 0
  tmoWaits : Nat := 0
  bad : Option String := none
deriving DecidableEq, Hashable, Repr, BEq
def setThread (s : St) (t : Tid) (th : Thread) : St := { s with threads := s.threads.set t th }
def ret (s : St) (ok : Bool) : St :=
  let s := if ok then { s with okWaits := s.okWaits + 1 } else { s with tmoWaits := s.tmoWaits + 1 }
  if (s.okWaits : Int) > s.v0 + s.signals then { s with bad := some "more successful waits than permits" } else s
def stepThread (s : St) (t : Tid) : List St :=
  match s.threads[t]? with
  | none => []
  | some th =>
  let go (pc : Pc) (s' : St := s) : St := setThread s' t { th with pc := pc }
  match th.pc with
  | .idle =>
    match th.script with
    | [] => []
    | .signal :: rest =>
      let v := s.value + 1
      let s' := { s with value := v, signals := s.signals + 1 }
      if v > 0 then [setThread s' t { th with script := rest }]
      else [setThread s' t { pc := .sPost, script := rest }]
    | .wait k :: rest =>
      let v := s.value - 1
      let s' := { s with value := v }
      if v >= 0 then [setThread (ret s' true) t { th with script := rest }]
      else [setThread s' t { pc := .wSlow k, script := rest }]
  | .sPost => [go .idle { s with ksem := s.ksem + 1 }]
  | .wSlow k =>
    match k with
    | 0 => [go .wDrain]
    | 1 => [go .wSleepT]
    | _ => [go .wUndo]
  | .wSleepT =>
    (if s.ksem > 0 then [go .idle (ret { s with ksem := s.ksem - 1 } true)] else []) ++ [go .wUndo]   -- may time out any time
  | .wUndo =>
    if s.value < 0 then [go .idle (ret { s with value := s.value + 1 } false)]
    else [go .wDrain]
  | .wDrain =>
    if s.ksem > 0 then [go .idle (ret { s with ksem := s.ksem - 1 } true)] else []
def successors (s : St) : List St := (List.range s.threads.length).flatMap (stepThread s)
def isFinal (s : St) : Bool := s.threads.all fun th => th.pc == .idle && th.script.isEmpty
def slowUnresolved (s : St) : Int := (s.threads.filter fun th => match th.pc with | .wSlow _ | .wSleepT | .wUndo | .wDrain => true | _ => false).length
def posters (s : St) : Int := (s.threads.filter fun th => th.pc == .sPost).length
def inv (s : St) : Option String :=
  let neg : Int := if s.value < 0 then -s.value else 0
  if (s.ksem : Int) + posters s + neg != slowUnresolved s then some s!"SemaInv broken: ksem={s.ksem} posters={posters s} value={s.value} slow={slowUnresolved s}" else none
def checkTerminal (s : St) : Option String :=
  if isFinal s then
    if s.value != s.v0 + s.signals - s.okWaits then some s!"conservation broken {repr s}"
    else if s.ksem != 0 then some s!"kernel sem leaked {repr s}" else none
  else
    -- blocked: only forever-waiters (or drainers) with no permits
    if s.value >= 0 then some s!"blocked with permits available {repr s}" else none
partial def bfs (init : St) : IO Unit := do
  let mut seen : HashSet St := {}
  let mut frontier : Array St := #[init]
  seen := seen.insert init
  let mut n := 0
  while !frontier.isEmpty do
    let mut next : Array St := #[]
    for s in frontier do
      n := n + 1
      if let some b := s.bad then IO.println s!"VIOLATION {b} {repr s}"; return
      if let some b := inv s then IO.println s!"VIOLATION {b} {repr s}"; return
      let succ := successors s
      if succ.isEmpty then
        if let some e := checkTerminal s then IO.println s!"VIOLATION {e}"; return
      for s' in succ do
        if !seen.contains s' then
          seen := seen.insert s'; next := next.push s'
    frontier := next
  IO.println s!"ok: {n} states"
def mk (v0 : Int) (scripts : List (List Op)) : St :=
  { v0, value := v0, threads := scripts.map fun sc => { pc := .idle, script := sc } }
end SemaS
open SemaS in
def main : IO Unit := do
  let cfgs : List (String × St) := [
    ("v0 w / s", mk 0 [[.wait 0], [.signal]]),
    ("v0 timed / s", mk 0 [[.wait 1], [.signal]]),
    ("v0 timed,timed / s / poll", mk 0 [[.wait 1, .wait 1], [.signal], [.wait 2]]),
    ("v1 w,w / timed / s,s / poll", mk 1 [[.wait 0, .wait 0], [.wait 1], [.signal, .signal], [.wait 2]]),
    ("v0 timed / timed / forever / s,s,s", mk 0 [[.wait 1], [.wait 1], [.wait 0], [.signal, .signal, .signal]]),
    ("v2 4 threads mixed", mk 2 [[.wait 1, .signal, .wait 0], [.wait 0, .wait 2, .signal], [.signal, .wait 1], [.wait 1, .signal]])
  ]
  for (name, st) in cfgs do
    IO.print s!"{name}: "
    bfs st
