import Std.Data.HashSet
/-! Spike: executable model of a SERIAL lane on a root queue (async + barrier sync), BFS at small scope. -/
open Std

namespace LaneSpike

abbrev Tid := Nat
abbrev ItemId := Nat

structure Item where
  id : ItemId
  waiter : Option Tid      -- some t: sync waiter of thread t
  linked : Bool
deriving DecidableEq, Hashable, Repr, BEq

structure Dq where
  B : Bool := false   -- in barrier
  F : Bool := false   -- width full
  D : Bool := false   -- dirty
  E : Bool := false   -- enqueued
  O : Option Tid := none
deriving DecidableEq, Hashable, Repr, BEq

def Dq.idle (d : Dq) : Bool := !d.B && !d.F && !d.D && !d.E && d.O.isNone
def Dq.runnable (d : Dq) : Bool := !d.B && !d.F

inductive Op | async (id : ItemId) | sync (id : ItemId)
deriving DecidableEq, Hashable, Repr, BEq

/-- continuation after a barrier_complete sub-program -/
inductive K | done | toWait (id : ItemId) | workerIdle
deriving DecidableEq, Hashable, Repr, BEq

inductive Pc
  | idle
  | pPushed (id : ItemId) (wasEmpty : Bool)
  | pLinked (id : ItemId) (wasEmpty : Bool)
  | sTry (id : ItemId)
  | sRunFast (id : ItemId)
  | sRunningFast (id : ItemId)
  | sRunningSlow (id : ItemId)
  | dRunning (id : ItemId)
  | sFastUnlock
  | sSlowPush (id : ItemId)
  | sSlowLink (id : ItemId) (wasEmpty : Bool)
  | sSlowRmw (id : ItemId)
  | sWait (id : ItemId)
  | sRunSlow (id : ItemId)
  | bc1 (consume2 : Bool) (k : K)
  | bc2 (target : Bool) (consume2 : Bool) (k : K)
  | dbwPop (enq : Bool) (k : K)
  | dbwRmw (w : Tid) (enq : Bool) (k : K)
  | dbwSignal (w : Tid) (k : K)
  | wIdle
  | dTryLock
  | dInvoke
  | dLoopHead
  | dRun (id : ItemId)
  | dLoopNext
  | dUnlock
deriving DecidableEq, Hashable, Repr, BEq

structure Thread where
  pc : Pc
  script : List Op
deriving DecidableEq, Hashable, Repr, BEq

structure St where
  dq : Dq := {}
  items : List Item := []
  tokens : Nat := 0
  signalled : List Tid := []      -- thread events signalled
  threads : List Thread
  running : List ItemId := []     -- items currently executing
  started : List ItemId := []     -- start order
  ended : List ItemId := []
  bad : Option String := none
deriving DecidableEq, Hashable, Repr, BEq

def setThread (s : St) (t : Tid) (th : Thread) : St :=
  { s with threads := s.threads.set t th }

def kPc : K → Pc
  | .done => .idle
  | .toWait id => .sWait id
  | .workerIdle => .wIdle

def linkItem (items : List Item) (id : ItemId) : List Item :=
  items.map fun it => if it.id = id then { it with linked := true } else it

/-- can the head be popped? (single element, or successor already linked) -/
def canPop : List Item → Bool
  | [] => false
  | [_] => true
  | _ :: y :: _ => y.linked

def startItem (s : St) (id : ItemId) : St :=
  let s := if s.started.contains id then { s with bad := some s!"item {id} started twice" } else s
  let s := if !s.running.isEmpty then { s with bad := some s!"overlap: {id} starts while {s.running} running" } else s
  { s with running := id :: s.running, started := s.started ++ [id] }

def endItem (s : St) (id : ItemId) : St :=
  { s with running := s.running.erase id, ended := s.ended ++ [id] }

/-- all successors of thread t (deterministic per pc except where noted) -/
def stepThread (s : St) (t : Tid) : List St :=
  match s.threads[t]? with
  | none => []
  | some th =>
  let go (pc : Pc) (s' : St := s) : St := setThread s' t { th with pc := pc }
  match th.pc with
  | .idle =>
    match th.script with
    | [] => []
    | .async id :: rest =>
      -- P1: exchange tail
      let wasEmpty := s.items.isEmpty
      let s' := { s with items := s.items ++ [{ id := id, waiter := none, linked := false }] }
      [setThread s' t { pc := .pPushed id wasEmpty, script := rest }]
    | .sync id :: rest =>
      [setThread s t { pc := .sTry id, script := rest }]
  | .pPushed id we => [go (.pLinked id we) { s with items := linkItem s.items id }]
  | .pLinked _ we =>
    if !we then [go .idle] else
    -- wakeup(MAKE_DIRTY): probe tail
    if s.items.isEmpty then [go .idle] else
    let d := s.dq
    let enq := !d.E && d.O.isNone      -- not suspended (no suspension in this spike)
    let d' := { d with E := d.E || enq, D := true }
    [go .idle { s with dq := d', tokens := s.tokens + (if enq then 1 else 0) }]
  | .sTry id =>
    if s.dq.idle then [go (.sRunFast id) { s with dq := { s.dq with B := true, F := true, O := some t } }]
    else [go (.sSlowPush id)]
  | .sRunFast id => [go (.sRunningFast id) (startItem s id)]
  | .sRunningFast id => [go .sFastUnlock (endItem s id)]
  | .sFastUnlock =>
    if !s.items.isEmpty then [go (.bc1 false .done)] else
    let d := s.dq
    if d.E || d.D then [go (.bc1 false .done)]
    else [go .idle { s with dq := { d with B := false, F := false, O := none } }]
  | .sSlowPush id =>
    let wasEmpty := s.items.isEmpty
    [go (.sSlowLink id wasEmpty) { s with items := s.items ++ [{ id := id, waiter := some t, linked := false }] }]
  | .sSlowLink id we =>
    let s' := { s with items := linkItem s.items id }
    if we then [go (.sSlowRmw id) s'] else [go (.sWait id) s']
  | .sSlowRmw id =>
    let d := s.dq
    if d.O.isSome || !d.runnable then [go (.sWait id) { s with dq := { d with D := true } }]
    else -- take the lock (used == 0 for a runnable serial queue)
      [go (.bc1 false (.toWait id)) { s with dq := { d with D := false, B := true, F := true, O := some t } }]
  | .sWait id =>
    if s.signalled.contains t then [go (.sRunSlow id) { s with signalled := s.signalled.erase t }] else []
  | .sRunSlow id =>
    let s1 := if s.dq.O != some t || !s.dq.B then { s with bad := some s!"waiter {t} runs without lock" } else s
    [go (.sRunningSlow id) (startItem s1 id)]
  | .sRunningSlow id => [go (.bc1 false .done) (endItem s id)]
  | .bc1 c2 k =>
    match s.items with
    | [] => [go (.bc2 false c2 k)]
    | h :: _ =>
      if !h.linked then [] else     -- get_head spins
      if h.waiter.isSome then [go (.dbwPop false k)]
      else [go (.bc2 true true k)]
  | .bc2 target _ k =>
    let d := s.dq
    let base := { d with B := false, F := false, O := none }
    if target then
      let enq := !d.E
      [go (kPc k) { s with dq := { base with E := true }, tokens := s.tokens + (if enq then 1 else 0) }]
    else if d.D then [go (.bc1 false k) { s with dq := { d with D := false } }]   -- renew, retry
    else [go (kPc k) { s with dq := base }]
  | .dbwPop enq k =>
    match s.items with
    | h :: rest =>
      if !canPop s.items then [] else
      match h.waiter with
      | some w => [go (.dbwRmw w enq k) { s with items := rest }]
      | none => [go .idle { s with bad := some "dbw on non waiter" }]
    | [] => [go .idle { s with bad := some "dbw on empty" }]
  | .dbwRmw w enq k =>
    let d := s.dq
    [go (.dbwSignal w k) { s with dq := { d with O := some w, D := false, E := if enq then false else d.E } }]
  | .dbwSignal w k => [go (kPc k) { s with signalled := w :: s.signalled }]
  | .wIdle =>
    if s.tokens > 0 then [go .dTryLock { s with tokens := s.tokens - 1 }] else []
  | .dTryLock =>
    let d := s.dq
    let s0 := if !d.E then { s with bad := some "drainer without ENQUEUED" } else s
    if d.runnable && d.O.isNone then
      [go .dInvoke { s0 with dq := { d with B := true, F := true, O := some t, D := false } }]
    else [go .wIdle { s0 with dq := { d with E := false } }]
  | .dInvoke => if s.items.isEmpty then [go .dUnlock] else [go .dLoopHead]
  | .dLoopHead =>
    match s.items with
    | [] => [go .idle { s with bad := some "loop head on empty" }]
    | h :: rest =>
      if !h.linked then [] else
      if h.waiter.isSome then [go (.dbwPop true .workerIdle)]
      else if !canPop s.items then []
      else [go (.dRun h.id) { s with items := rest }]
  | .dRun id => [go (.dRunning id) (startItem s id)]
  | .dRunning id => [go .dLoopNext (endItem s id)]
  | .dLoopNext => if s.items.isEmpty then [go .dUnlock] else [go .dLoopHead]
  | .dUnlock =>
    let d := s.dq
    if d.D then [go .dInvoke { s with dq := { d with D := false } }]
    else [go .wIdle { s with dq := { d with B := false, F := false, O := none, E := false } }]

def successors (s : St) : List St :=
  (List.range s.threads.length).flatMap (stepThread s)

def isFinal (s : St) : Bool :=
  s.threads.all fun th => (th.pc == .idle && th.script.isEmpty) || th.pc == .wIdle

def expectedItems (threads : List Thread) : List ItemId :=
  threads.flatMap fun th => th.script.map fun | .async i => i | .sync i => i

/-- check a terminal (deadlocked or final) state -/
def checkTerminal (all : List ItemId) (s : St) : Option String :=
  if !isFinal s then some s!"STUCK: {repr s}"
  else if s.tokens != 0 then none
  else if !(all.all s.ended.contains) then some s!"STRANDED items: ended={s.ended} items={repr s.items} dq={repr s.dq}"
  else if !s.dq.idle then some s!"final dq not idle {repr s.dq}"
  else none


/-- candidate "responsibility" invariant (no lost wakeup), checked on every visited state -/
def respInv (s : St) : Option String :=
  let d := s.dq
  let anyPc (p : Pc → Bool) : Bool := s.threads.any fun th => p th.pc
  let inflight := anyPc fun
    | .pPushed _ true | .pLinked _ true | .sSlowLink _ true | .sSlowRmw _ => true
    | _ => false
  let tokenAlive := d.E && (s.tokens > 0 || anyPc fun | .dTryLock => true | _ => false)
  let ownerPastCheck : Bool := match d.O with
    | none => false
    | some o => match s.threads[o]? with
      | some th => (match th.pc with | .dUnlock => true | .bc2 false _ _ => true | _ => false)
      | none => false
  let owned := d.O.isSome && (d.D || !ownerPastCheck)
  let r1 := s.items.isEmpty || tokenAlive || inflight || owned
  let r2 := (List.range s.threads.length).all fun t =>
    match s.threads[t]? with
    | some th => (match th.pc with
      | .sWait id => s.items.any (fun it => it.id == id) || s.signalled.contains t ||
          anyPc (fun | .dbwRmw w _ _ => w == t | .dbwSignal w _ => w == t | _ => false)
      | _ => true)
    | none => true
  if !r1 then some "R1 (pending items but nobody responsible)"
  else if !r2 then some "R2 (parked waiter neither queued nor signalled)"
  else none

partial def bfs (init : St) (limit : Nat) : IO Unit := do
  let all := expectedItems init.threads
  let mut seen : HashSet St := {}
  let mut frontier : Array St := #[init]
  seen := seen.insert init
  let mut n := 0
  let mut terminals := 0
  while !frontier.isEmpty do
    let mut next : Array St := #[]
    for s in frontier do
      n := n + 1
      if let some b := s.bad then
        IO.println s!"VIOLATION {b}\n{repr s}"; return
      if let some b := respInv s then
        IO.println s!"RESPINV {b}\n{repr s}"; return
      let succ := successors s
      if succ.isEmpty then
        terminals := terminals + 1
        if let some e := checkTerminal all s then
          IO.println s!"VIOLATION {e}"; return
      for s' in succ do
        if !seen.contains s' then
          seen := seen.insert s'
          next := next.push s'
    if n > limit then IO.println s!"limit reached at {n}"; return
    frontier := next
  IO.println s!"ok: {n} states, {terminals} terminal states"

def mk (scripts : List (List Op)) (workers : Nat) : St :=
  { threads := scripts.map (fun sc => { pc := .idle, script := sc }) ++
      (List.replicate workers { pc := .wIdle, script := [] }) }

end LaneSpike

open LaneSpike in
def main (args : List String) : IO Unit := do
  let cfgs : List (String × St) := [
    ("1 async, 1 worker", mk [[.async 1]] 1),
    ("2 asyncs same thread", mk [[.async 1, .async 2]] 2),
    ("2 pushers x1, 2 workers", mk [[.async 1], [.async 2]] 2),
    ("async+sync", mk [[.async 1], [.sync 2]] 2),
    ("2 sync", mk [[.sync 1], [.sync 2]] 1),
    ("async,sync / sync / async", mk [[.async 1, .sync 2], [.sync 3], [.async 4]] 2),
    ("pingpong 2x2 asyncs, sync", mk [[.async 1, .async 2], [.async 3, .async 4], [.sync 5]] 2)
  ]
  for (name, st) in cfgs do
    IO.print s!"{name}: "
    bfs st 20000000
