import Std.Data.HashSet
/-! Spike 2: executable model of a lane of any width on a root queue
    (async / barrier async / sync / barrier sync, redirecting drain), BFS at small scope. -/
open Std

namespace LaneC

abbrev Tid := Nat
abbrev ItemId := Nat

structure Item where
  id : ItemId
  barrier : Bool
  waiter : Option Tid
  linked : Bool
deriving DecidableEq, Hashable, Repr, BEq

structure Dq where
  W : Nat
  u : Int := 0          -- used width (including the pending-barrier reservation)
  B : Bool := false
  pb : Bool := false
  D : Bool := false
  E : Bool := false
  O : Option Tid := none
deriving DecidableEq, Hashable, Repr, BEq

def Dq.idle (d : Dq) : Bool := d.u == 0 && !d.B && !d.pb && !d.D && !d.E && d.O.isNone
def Dq.runnable (d : Dq) : Bool := !d.B && d.u < d.W
def Dq.lockable (d : Dq) : Bool := d.pb || d.u == 0      -- old + pending_barrier_width < FULL
def Dq.lock (d : Dq) (t : Tid) : Dq := { d with u := d.W, B := true, pb := false, D := false, O := some t }

inductive Op | async (id : ItemId) (bar : Bool) | sync (id : ItemId) (bar : Bool)
deriving DecidableEq, Hashable, Repr, BEq

inductive Tok | lane | redirect (id : ItemId)
deriving DecidableEq, Hashable, Repr, BEq

inductive K | done | toWait (id : ItemId) (bar : Bool) | workerIdle
deriving DecidableEq, Hashable, Repr, BEq

/-- drainer-owned width: barrier (IN_BARRIER + full width) or n units -/
inductive Own | bar | units (n : Nat)
deriving DecidableEq, Hashable, Repr, BEq

inductive Pc
  | idle
  | aStart (id : ItemId) (bar : Bool)
  | aTryAsync (id : ItemId)
  | aPush (id : ItemId) (bar : Bool)
  | pPushed (id : ItemId) (wasEmpty : Bool)
  | pLinked (id : ItemId) (wasEmpty : Bool)
  | sTryB (id : ItemId)
  | sTryR (id : ItemId)
  | sTryR2 (id : ItemId)
  | run (id : ItemId) (after : Nat)       -- start item; after: 0 fast-barrier, 1 bc, 2 nbc(c2=false), 3 drainer loop, 4 nbc(c2=true, worker)
  | running (id : ItemId) (after : Nat)
  | sFastUnlock
  | sSlowPush (id : ItemId) (bar : Bool)
  | sSlowLink (id : ItemId) (bar : Bool) (wasEmpty : Bool)
  | sSlowRmw (id : ItemId) (bar : Bool)
  | sWait (id : ItemId) (bar : Bool)
  | nbc (c2 : Bool) (k : K)
  | bc1 (c2 : Bool) (k : K)
  | bc2 (target : Bool) (c2 : Bool) (k : K)
  | dbwPop (enq : Bool) (k : K)
  | dbwRmw (w : Tid) (enq : Bool) (k : K)
  | dbwSignal (w : Tid) (k : K)
  | dnb0 (c2 : Bool) (k : K)
  | dnbWidth (ow : Nat) (c2 : Bool) (k : K)          -- acquire a unit for the head item
  | dnbPop (ow : Nat) (c2 : Bool) (k : K)
  | dnbFin (ow : Nat) (next : Option Bool) (c2 : Bool) (k : K)   -- next: barrier flag of remaining dc
  | wIdle
  | dTryLock
  | dInvoke (ow : Own)
  | dLoopHead (ow : Own)
  | dUpgrade (n : Nat)
  | dDropBarrier
  | dWidth                       -- ow == 0: acquire a unit for the head
  | dPopNB (n : Nat)
  | dLoopNext (ow : Own)
  | dUnlock (ow : Own) (done : Bool)
deriving DecidableEq, Hashable, Repr, BEq

structure Thread where
  pc : Pc
  script : List Op
  own : Own := .units 0      -- drainer's owned across run
deriving DecidableEq, Hashable, Repr, BEq

structure St where
  dq : Dq
  items : List Item := []
  root : List Tok := []
  signalled : List Tid := []
  threads : List Thread
  running : List (ItemId × Bool) := []
  started : List ItemId := []
  ended : List ItemId := []
  bad : Option String := none
deriving DecidableEq, Hashable, Repr, BEq

def setThread (s : St) (t : Tid) (th : Thread) : St := { s with threads := s.threads.set t th }

def kPc : K → Pc
  | .done => .idle
  | .toWait id bar => .sWait id bar
  | .workerIdle => .wIdle

def linkItem (items : List Item) (id : ItemId) : List Item :=
  items.map fun it => if it.id = id then { it with linked := true } else it

def canPop : List Item → Bool
  | [] => false
  | [_] => true
  | _ :: y :: _ => y.linked

def insertSorted (t : Tok) (l : List Tok) : List Tok :=   -- root as a multiset (canonical order)
  let key : Tok → Nat := fun | .lane => 0 | .redirect i => i + 1
  let rec ins : List Tok → List Tok
    | [] => [t]
    | x :: xs => if key t ≤ key x then t :: x :: xs else x :: ins xs
  ins l

def addTok (s : St) (t : Tok) : St := { s with root := insertSorted t s.root }

def itemBarrier (script : List Op) (id : ItemId) : Bool := Id.run do
  for op in script do
    match op with
    | .async i b => if i == id then return b
    | .sync i b => if i == id then return b
  return false

def startItem (s : St) (id : ItemId) (isBar : Bool) : St :=
  let s := if s.started.contains id then { s with bad := some s!"item {id} started twice" } else s
  let s := if isBar && !s.running.isEmpty then { s with bad := some s!"barrier {id} starts while {s.running} running" } else s
  let s := if s.running.any (·.2) then { s with bad := some s!"{id} starts while a barrier runs: {s.running}" } else s
  let s := if isBar && s.root.any (fun | .redirect _ => true | _ => false) then
      { s with bad := some s!"barrier {id} starts while redirected readers are pending: {repr s.root}" } else s
  { s with running := (id, isBar) :: s.running, started := s.started ++ [id] }

def endItem (s : St) (id : ItemId) : St :=
  { s with running := s.running.filter (·.1 != id), ended := s.ended ++ [id] }

/-- _dispatch_lane_non_barrier_complete_try_lock on the decoded state -/
def nbcTryLock (old new : Dq) (t : Tid) : Dq :=
  let free := if new.pb then new.u + 1 == new.W else new.u == 0
  if free then new.lock t
  else if old.D then { new with E := true } else new

def tryAcquireAsyncOk (d : Dq) : Bool := d.runnable && !d.D && !d.pb

def stepThread (bars : ItemId → Bool) (s : St) (t : Tid) : List St :=
  match s.threads[t]? with
  | none => []
  | some th =>
  let W := s.dq.W
  let go (pc : Pc) (s' : St := s) : St := setThread s' t { th with pc := pc }
  let d := s.dq
  match th.pc with
  | .idle =>
    match th.script with
    | [] => []
    | .async id bar :: rest => [setThread s t { th with pc := .aStart id bar, script := rest }]
    | .sync id bar :: rest =>
      let pc := if W == 1 || bar then Pc.sTryB id else Pc.sTryR id
      [setThread s t { th with pc := pc, script := rest }]
  | .aStart id bar =>
    if W > 1 && s.items.isEmpty && !bar then [go (.aTryAsync id)] else [go (.aPush id bar)]
  | .aTryAsync id =>
    if tryAcquireAsyncOk d then [go .idle (addTok { s with dq := { d with u := d.u + 1 } } (.redirect id))]
    else [go (.aPush id false)]
  | .aPush id bar =>
    let wasEmpty := s.items.isEmpty
    [go (.pPushed id wasEmpty) { s with items := s.items ++ [{ id, barrier := bar, waiter := none, linked := false }] }]
  | .pPushed id we => [go (.pLinked id we) { s with items := linkItem s.items id }]
  | .pLinked _ we =>
    if !we then [go .idle] else
    if s.items.isEmpty then [go .idle] else
    let enq := !d.E && d.O.isNone
    let s' := { s with dq := { d with E := d.E || enq, D := true } }
    [go .idle (if enq then addTok s' .lane else s')]
  | .sTryB id =>
    if d.idle then [go (.run id 0) { s with dq := d.lock t }]
    else [go (.sSlowPush id true)]
  | .sTryR id => if !s.items.isEmpty then [go (.sSlowPush id false)] else [go (.sTryR2 id)]
  | .sTryR2 id =>
    if !d.B && !d.D && !d.pb then [go (.run id 2) { s with dq := { d with u := d.u + 1 } }]
    else [go (.sSlowPush id false)]
  | .run id after => [go (.running id after) (startItem s id (bars id || W == 1))]
  | .running id after =>
    let s' := endItem s id
    match after with
    | 0 => if W > 1 then [go (.bc1 false .done) s'] else [go .sFastUnlock s']
    | 1 => [go (.bc1 false .done) s']
    | 2 => [go (.nbc false .done) s']
    | 3 => [go (.dLoopNext th.own) s']
    | _ => [go (.nbc true .workerIdle) s']
  | .sFastUnlock =>
    if !s.items.isEmpty then [go (.bc1 false .done)] else
    if d.E || d.D then [go (.bc1 false .done)]
    else [go .idle { s with dq := { d with u := d.u - 1, B := false, O := none } }]
  | .sSlowPush id bar =>
    let wasEmpty := s.items.isEmpty
    [go (.sSlowLink id bar wasEmpty) { s with items := s.items ++ [{ id, barrier := bar || W == 1, waiter := some t, linked := false }] }]
  | .sSlowLink id bar we =>
    let s' := { s with items := linkItem s.items id }
    if we then [go (.sSlowRmw id bar) s'] else [go (.sWait id bar) s']
  | .sSlowRmw id bar =>
    if d.O.isSome || !d.runnable then [go (.sWait id bar) { s with dq := { d with D := true } }]
    else if d.lockable then [go (.bc1 false (.toWait id bar)) { s with dq := d.lock t }]
    else [go (.sWait id bar) { s with dq := { d with D := true } }]
  | .sWait id bar =>
    if s.signalled.contains t then
      let s' := { s with signalled := s.signalled.erase t }
      if bar || W == 1 then
        let s1 := if s'.dq.O != some t || !s'.dq.B then { s' with bad := some s!"barrier waiter {t} runs without lock" } else s'
        [go (.run id 1) s1]
      else [go (.run id 2) s']
    else []
  | .nbc c2 k =>
    let new := { d with u := d.u - 1 }
    let new := if d.O.isSome then { new with D := true }
               else if new.runnable then nbcTryLock d new t else new
    let s' := { s with dq := new }
    if new.B && !d.B then [go (.bc1 c2 k) s']
    else if new.E && !d.E then [go (kPc k) (addTok s' .lane)]
    else [go (kPc k) s']
  | .bc1 c2 k =>
    match s.items with
    | [] => [go (.bc2 false c2 k)]
    | h :: _ =>
      if !h.linked then [] else
      if W == 1 || h.barrier then
        if h.waiter.isSome then [go (.dbwPop false k)] else [go (.bc2 true true k)]
      else [go (.dnb0 c2 k)]
  | .bc2 target c2 k =>
    let s0 := if d.O != some t || !d.B then { s with bad := some s!"barrier_complete by non owner {t}: {repr d}" } else s
    let base := { d with u := d.u - W, B := false, O := none }
    if target then
      let enq := !d.E
      let s' := { s0 with dq := { base with E := true } }
      [go (kPc k) (if enq then addTok s' .lane else s')]
    else if d.D then [go (.bc1 c2 k) { s0 with dq := { d with D := false } }]
    else [go (kPc k) { s0 with dq := base }]
  | .dbwPop enq k =>
    match s.items with
    | h :: rest =>
      if !canPop s.items then [] else
      match h.waiter with
      | some w => [go (.dbwRmw w enq k) { s with items := rest }]
      | none => [go .idle { s with bad := some "dbw on non waiter" }]
    | [] => [go .idle { s with bad := some "dbw on empty" }]
  | .dbwRmw w enq k =>
    [go (.dbwSignal w k) { s with dq := { d with O := some w, D := false, E := if enq then false else d.E } }]
  | .dbwSignal w k => [go (kPc k) { s with signalled := w :: s.signalled }]
  -- _dispatch_lane_drain_non_barriers
  | .dnb0 c2 k => [go (.dnbPop (W - 1) c2 k) { s with dq := { d with B := false } }]
  | .dnbWidth ow c2 k =>
    match s.items with
    | [] => [go .idle { s with bad := some "dnbWidth on empty" }]
    | h :: _ =>
      if ow > 0 then [go (.dnbPop (ow - 1) c2 k)]
      else if h.waiter.isSome then [go (.dnbPop 0 c2 k) { s with dq := { d with u := d.u + 1 } }]
      else if tryAcquireAsyncOk d then [go (.dnbPop 0 c2 k) { s with dq := { d with u := d.u + 1 } }]
      else [go (.dnbFin 0 (some h.barrier) c2 k)]
  | .dnbPop ow c2 k =>
    match s.items with
    | [] => [go .idle { s with bad := some "dnbPop on empty" }]
    | h :: rest =>
      if !canPop s.items then [] else
      let s' := { s with items := rest }
      let s' := match h.waiter with
        | some w => { s' with signalled := w :: s'.signalled }
        | none => addTok s' (.redirect h.id)
      match rest with
      | [] => [go (.dnbFin ow none c2 k) s']
      | n :: _ => if n.barrier then [go (.dnbFin ow (some true) c2 k) s'] else [go (.dnbWidth ow c2 k) s']
  | .dnbFin ow next c2 k =>
    let s0 := if d.O != some t then { s with bad := some s!"dnbFin by non owner" } else s
    -- owned = ow units, adjusted for a pending barrier
    let new := { d with u := d.u - ow, O := none, D := false }
    let new := if next == some true && W > 1 then { new with u := new.u + (W - 1), pb := true } else new
    match next with
    | some _ =>
      let new := nbcTryLock d { new with D := true } t
      let s' := { s0 with dq := new }
      if new.B && !d.B then [go (.bc1 c2 k) s']
      else if new.E && !d.E then [go (kPc k) (addTok s' .lane)]
      else [go (kPc k) s']
    | none =>
      if d.D then
        -- renew: clear DIRTY, reload head, continue draining
        let s' := { s0 with dq := { d with D := false } }
        match s.items with
        | [] => [go (.dnbFin ow none c2 k) s']
        | h :: _ => if h.barrier then [go (.dnbFin ow (some true) c2 k) s'] else [go (.dnbWidth ow c2 k) s']
      else
        let s' := { s0 with dq := new }
        [go (kPc k) s']
  | .wIdle =>
    -- pop any token (workers race)
    s.root.eraseDups.map fun tok =>
      let s' := { s with root := s.root.erase tok }
      match tok with
      | .lane => go .dTryLock s'
      | .redirect id => go (.run id 4) s'
  | .dTryLock =>
    let s0 := if !d.E then { s with bad := some "drainer without ENQUEUED" } else s
    if d.runnable && d.O.isNone then
      let isBar := d.lockable
      let ow : Own := if isBar then .bar else .units (W - d.u).toNat
      let d' := { d with u := W, B := isBar, pb := false, D := false, O := some t }
      [go (.dInvoke ow) { s0 with dq := d' }]
    else [go .wIdle { s0 with dq := { d with E := false } }]
  | .dInvoke ow => if s.items.isEmpty then [go (.dUnlock ow true)] else [go (.dLoopHead ow)]
  | .dLoopHead ow =>
    match s.items with
    | [] => [go .idle { s with bad := some "loop head on empty" }]
    | h :: rest =>
      if !h.linked then [] else
      if W == 1 || h.barrier then
        match ow with
        | .units n => [go (.dUpgrade n)]
        | .bar =>
          if h.waiter.isSome then [go (.dbwPop true .workerIdle)]
          else if !canPop s.items then []
          else [setThread { s with items := rest } t { th with pc := .run h.id 3, own := .bar }]
      else
        match ow with
        | .bar => [go .dDropBarrier]
        | .units 0 => [go .dWidth]
        | .units n => [go (.dPopNB n)]
  | .dUpgrade n =>
    -- _dispatch_queue_try_upgrade_full_width
    let new := { d with u := d.u - n }
    let new := if !d.pb then { new with u := new.u + (W - 1), pb := true } else new
    let new := if new.runnable then { new with u := new.u + 1, B := true, pb := false } else new
    let new := { new with D := false }
    if new.B then [go (.dLoopHead .bar) { s with dq := new }]
    else [go (.dUnlock (.units 0) false) { s with dq := new }]
  | .dDropBarrier => [go (.dLoopHead (.units W)) { s with dq := { d with B := false } }]
  | .dWidth =>
    match s.items with
    | [] => [go .idle { s with bad := some "dWidth on empty" }]
    | h :: _ =>
      if h.waiter.isSome then [go (.dPopNB 1) { s with dq := { d with u := d.u + 1 } }]
      else if tryAcquireAsyncOk d then [go (.dPopNB 1) { s with dq := { d with u := d.u + 1 } }]
      else [go (.dUnlock (.units 0) false)]
  | .dPopNB n =>
    match s.items with
    | [] => [go .idle { s with bad := some "dPopNB on empty" }]
    | h :: rest =>
      if !canPop s.items then [] else
      let s' := { s with items := rest }
      let s' := match h.waiter with
        | some w => { s' with signalled := w :: s'.signalled }
        | none => addTok s' (.redirect h.id)
      [go (.dLoopNext (.units (n - 1))) s']
  | .dLoopNext ow => if s.items.isEmpty then [go (.dUnlock ow true)] else [go (.dLoopHead ow)]
  | .dUnlock ow done =>
    let s0 := if d.O != some t then { s with bad := some s!"unlock by non owner {repr d}" } else s
    if d.D then [go (.dInvoke ow) { s0 with dq := { d with D := false } }]
    else
      let (n, b) := match ow with | .bar => (W, true) | .units n => (n, false)
      let new := { d with u := d.u - n, B := if b then false else d.B, O := none, E := false, D := !done }
      [go .wIdle { s0 with dq := new }]

def successors (bars : ItemId → Bool) (s : St) : List St :=
  (List.range s.threads.length).flatMap (stepThread bars s)

def isFinal (s : St) : Bool :=
  s.threads.all fun th => (th.pc == .idle && th.script.isEmpty) || th.pc == .wIdle

def expectedItems (threads : List Thread) : List ItemId :=
  threads.flatMap fun th => th.script.map fun | .async i _ => i | .sync i _ => i

def checkTerminal (all : List ItemId) (s : St) : Option String :=
  if !isFinal s then some s!"STUCK: {repr s}"
  else if !s.root.isEmpty then some s!"terminal with tokens {repr s.root}"
  else if !(all.all s.ended.contains) then some s!"STRANDED: ended={s.ended} items={repr s.items} dq={repr s.dq}"
  else if !s.dq.idle then some s!"final dq not idle {repr s.dq}"
  else none

/-- width accounting invariant candidate, checked in every state -/
def widthInv (s : St) : Option String :=
  let d := s.dq
  let W : Int := d.W
  let readers : Int := (s.running.filter (fun r => !r.2)).length
  let redirects : Int := (s.root.filter (fun | .redirect _ => true | _ => false)).length
  -- threads holding reservations in their pcs
  let held : Int := s.threads.foldl (fun acc th =>
    acc + (match th.pc with
      | .run _ 2 => 1 | .run _ 4 => 1       -- reserved, not started
      | .nbc _ _ => 1                         -- finished, not yet given back
      | .dnbWidth ow _ _ => ow | .dnbPop ow _ _ => ow + 1 | .dnbFin ow _ _ _ => ow
      | .dInvoke (.units n) => n | .dLoopHead (.units n) => n | .dUpgrade n => n
      | .dWidth => 0 | .dPopNB n => n | .dLoopNext (.units n) => n | .dUnlock (.units n) _ => n
      | _ => (0:Int))) 0
  -- woken non-barrier waiters that have not yet run hold one unit each
  let woken : Int := s.threads.foldl (fun acc th =>
    acc + (match th.pc with
      | .sWait _ false => 0
      | _ => (0:Int))) 0
  let kNB : K → Bool := fun | .toWait _ bar => !(bar || d.W == 1) | _ => false
  let wokenSig : Int := (s.signalled.filter fun w =>
      match s.threads[w]? with
      | some th => (match th.pc with
        | .sWait _ bar => !(bar || d.W == 1)
        | .sSlowRmw _ bar => !(bar || d.W == 1)
        | .sSlowLink _ bar _ => !(bar || d.W == 1)
        | .nbc _ k => kNB k | .bc1 _ k => kNB k | .bc2 _ _ k => kNB k
        | .dbwPop _ k => kNB k | .dbwRmw _ _ k => kNB k | .dbwSignal _ k => kNB k
        | .dnb0 _ k => kNB k | .dnbWidth _ _ k => kNB k | .dnbPop _ _ k => kNB k | .dnbFin _ _ _ k => kNB k
        | _ => false)
      | none => false).length
  let pbr : Int := if d.pb then W - 1 else 0
  let barPart : Int := if d.B then W else 0
  let dropping : Int := s.threads.foldl (fun acc th =>
    acc + (match th.pc with | .dDropBarrier => (0:Int) | _ => 0)) 0
  let expected := barPart + readers + redirects + held + woken + wokenSig + pbr + dropping
  if d.B then
    if readers != 0 || redirects != 0 then some s!"B set with readers: {repr s.dq} running={s.running} root={repr s.root}"
    else if d.u != W then some s!"B set but u != W: {repr d}" else none
  else if d.u != expected then
    some s!"width mismatch u={d.u} expected={expected} (readers={readers} redirects={redirects} held={held} wokenSig={wokenSig} pb={pbr})"
  else none

partial def bfs (init : St) (limit : Nat) (checkWidth : Bool) : IO Unit := do
  let all := expectedItems init.threads
  let scripts := init.threads.flatMap (·.script)
  let bars := fun id => itemBarrier scripts id
  let mut seen : HashSet St := {}
  let mut frontier : Array St := #[init]
  seen := seen.insert init
  let mut n := 0
  let mut terminals := 0
  while !frontier.isEmpty do
    let mut next : Array St := #[]
    for s in frontier do
      n := n + 1
      if let some b := s.bad then
        IO.println s!"VIOLATION {b}\n{repr s}"; return
      if checkWidth then
        if let some b := widthInv s then
          IO.println s!"WIDTHINV {b}\n{repr s}"; return
      let succ := successors bars s
      if succ.isEmpty then
        terminals := terminals + 1
        if let some e := checkTerminal all s then
          IO.println s!"VIOLATION {e}"; return
      for s' in succ do
        if !seen.contains s' then
          seen := seen.insert s'
          next := next.push s'
    if n > limit then IO.println s!"limit reached at {n}"; return
    frontier := next
  IO.println s!"ok: {n} states, {terminals} terminal states"

def mk (W : Nat) (scripts : List (List Op)) (workers : Nat) : St :=
  { dq := { W := W },
    threads := scripts.map (fun sc => { pc := .idle, script := sc }) ++
      (List.replicate workers { pc := .wIdle, script := [] }) }

end LaneC

open LaneC in
def main (args : List String) : IO Unit := do
  let cw := !args.contains "nowidth"
  let cfgs : List (String × St) := [
    ("W1 async+sync", mk 1 [[.async 1 false], [.sync 2 false]] 2),
    ("W1 a,s / s / a", mk 1 [[.async 1 false, .sync 2 false], [.sync 3 false], [.async 4 false]] 2),
    ("W2 2 asyncs", mk 2 [[.async 1 false, .async 2 false]] 2),
    ("W2 a, bar-a", mk 2 [[.async 1 false, .async 2 true]] 2),
    ("W2 a / bar-a / a", mk 2 [[.async 1 false], [.async 2 true], [.async 3 false]] 2),
    ("W2 a,a,a one thread 3 workers", mk 2 [[.async 1 false, .async 2 false, .async 3 false]] 3),
    ("W2 sync / sync / barsync", mk 2 [[.sync 1 false], [.sync 2 false], [.sync 3 true]] 1),
    ("W2 a / sync / bar-a / barsync", mk 2 [[.async 1 false], [.sync 2 false], [.async 3 true], [.sync 4 true]] 2),
    ("W3 a,a / bar-a,a / sync", mk 3 [[.async 1 false, .async 2 false], [.async 3 true, .async 4 false], [.sync 5 false]] 2),
    ("W2 a,bar-a,a / sync,barsync", mk 2 [[.async 1 false, .async 2 true, .async 3 false], [.sync 4 false, .sync 5 true]] 2)
  ]
  for (name, st) in cfgs do
    IO.print s!"{name}: "
    bfs st 30000000 cw
