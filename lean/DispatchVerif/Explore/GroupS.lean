import Std.Data.HashSet
/-! Spike: dispatch_group state machine (enter/leave/wait/notify), BFS at small scope. -/
open Std
namespace GroupS

abbrev Tid := Nat

/-- decoded dg_state -/
structure W where
  gen : Nat := 0
  count : Nat := 0        -- number of outstanding enters (C value field = -count)
  N : Bool := false       -- HAS_NOTIFS
  Wt : Bool := false      -- HAS_WAITERS
deriving DecidableEq, Hashable, Repr, BEq

structure Nf where
  id : Nat
  linked : Bool
deriving DecidableEq, Hashable, Repr, BEq

inductive Op | enter | leave | notify (id : Nat) | wait (timed : Bool)
deriving DecidableEq, Hashable, Repr, BEq

inductive Pc
  | idle
  | leave2 (old : W)
  | wake (st : W) (snap : Option (List Nf))      -- snapshot being processed
  | wakeAddr (st : W)
  | nPushed (id : Nat) (we : Bool)
  | nLinked (id : Nat) (we : Bool)
  | wSlow (g : Nat) (timed : Bool)
  | wSleep (g : Nat) (timed : Bool)
  | wRet (r : Nat)         -- 0 success / 1 timeout (ghost, one step then idle)
deriving DecidableEq, Hashable, Repr, BEq

structure Thread where
  pc : Pc
  script : List Op
  zeroSeen : Bool := false     -- ghost for waiters: count was 0 at some moment during the call
deriving DecidableEq, Hashable, Repr, BEq

structure St where
  w : W := {}
  list : List Nf := []
  woken : List Tid := []       -- sleepers woken by wake_by_address
  threads : List Thread
  submitted : List Nat := []
  regZero : List (Nat × Bool) := []   -- ghost per notify: (id, count was 0 at/after registration)
  bad : Option String := none
deriving DecidableEq, Hashable, Repr, BEq

def setThread (s : St) (t : Tid) (th : Thread) : St := { s with threads := s.threads.set t th }

/-- ghost bookkeeping whenever count becomes (or is) zero -/
def markZero (s : St) : St :=
  { s with regZero := s.regZero.map (fun p => (p.1, true)),
           threads := s.threads.map fun th =>
             match th.pc with
             | .wSlow _ _ | .wSleep _ _ => { th with zeroSeen := true }
             | _ => th }

def stepThread (s : St) (t : Tid) : List St :=
  match s.threads[t]? with
  | none => []
  | some th =>
  let go (pc : Pc) (s' : St := s) : St :=
    match s'.threads[t]? with
    | some th' => setThread s' t { th' with pc := pc }
    | none => s'
  let w := s.w
  match th.pc with
  | .idle =>
    match th.script with
    | [] => []
    | .enter :: rest => [setThread { s with w := { w with count := w.count + 1 } } t { th with script := rest }]
    | .leave :: rest =>
      if w.count == 0 then [setThread { s with bad := some "unbalanced leave (client error)" } t { th with script := rest }] else
      -- 64-bit add: carry bumps the generation on 1 -> 0
      let w' := if w.count == 1 then { w with count := 0, gen := w.gen + 1 } else { w with count := w.count - 1 }
      let s' := { s with w := w' }
      let s' := if w.count == 1 then markZero s' else s'
      if w.count == 1 then [setThread s' t { th with pc := .leave2 w', script := rest }]
      else [setThread s' t { th with script := rest }]
    | .notify id :: rest =>
      let we := s.list.isEmpty
      let s' := { s with list := s.list ++ [{ id, linked := false }], regZero := (id, w.count == 0) :: s.regZero }
      [setThread s' t { th with pc := .nPushed id we, script := rest }]
    | .wait timed :: rest =>
      -- rmw loop (one atomic step: load + cas succeed, or give up)
      if w.count == 0 then [setThread s t { th with pc := .wRet 0, script := rest, zeroSeen := true }]
      else
        let w' := { w with Wt := true }
        [setThread { s with w := w' } t { th with pc := .wSlow w.gen timed, script := rest, zeroSeen := false }]
  | .leave2 old =>
    let new := if old.count == 0 then { old with Wt := false, N := false } else { old with N := false }
    if old == new then [go (.wake old none)]
    else if s.w == old then [go (.wake old none) { s with w := new }]     -- CAS ok
    else [go (.leave2 s.w)]                                                -- CAS failed: reload
  | .wake st snap =>
    if st.N then
      match snap with
      | none =>
        -- capture snapshot: needs head linked
        match s.list with
        | [] => [go (.wakeAddr st) { s with bad := some "wake with HAS_NOTIFS but empty list" }]
        | h :: _ => if !h.linked then [] else [go (.wake st (some s.list)) { s with list := [] }]
      | some [] => [go (.wakeAddr st)]
      | some (h :: rest) =>
        -- pop_snapshot_head: next needs to be linked
        if (match rest with | n :: _ => !n.linked | [] => false) then
          -- the successor link is written by its pusher; find it in the snapshot copy: refresh from ghost
          []
        else
          let s1 := if s.submitted.contains h.id then { s with bad := some s!"notify {h.id} submitted twice" } else s
          let s1 := if (s.regZero.find? (·.1 == h.id)).map (·.2) != some true then
              { s1 with bad := some s!"notify {h.id} submitted before the group was empty" } else s1
          [go (.wake st (some rest)) { s1 with submitted := h.id :: s1.submitted }]
    else [go (.wakeAddr st)]
  | .wakeAddr st =>
    if st.Wt then
      let sleepers := (List.range s.threads.length).filter fun u =>
        match s.threads[u]? with | some tu => (match tu.pc with | .wSleep _ _ => true | _ => false) | none => false
      [go .idle { s with woken := (s.woken ++ sleepers).eraseDups }]
    else [go .idle]
  | .nPushed id we =>
    -- link: also patch snapshots held by wakers (the link is in the node itself)
    let fix (l : List Nf) := l.map fun n => if n.id == id then { n with linked := true } else n
    let thr := s.threads.map fun tu =>
      match tu.pc with
      | .wake st (some l) => { tu with pc := .wake st (some (fix l)) }
      | _ => tu
    [go (.nLinked id we) { s with list := fix s.list, threads := thr }]
  | .nLinked _ we =>
    if !we then [go .idle] else
    if w.count == 0 && !w.N && !w.Wt then [go (.wake { w with N := true } none)]      -- give up, fire immediately
    else [go .idle { s with w := { w with N := true } }]
  | .wSlow g timed =>
    -- futex wait: sleeps only if *addr == g
    if s.w.gen != g then [go (.wRet 0)] else [go (.wSleep g timed)]
  | .wSleep g timed =>
    let wake := if s.woken.contains t || s.w.gen != g then
        [go (.wSlow g timed) { s with woken := s.woken.erase t }] else []
    let tmo := if timed then
        [if s.w.gen != g then go (.wRet 0) else go (.wRet 1)] else []
    wake ++ tmo
  | .wRet r =>
    let s1 := if r == 0 && !th.zeroSeen then { s with bad := some s!"wait of {t} returned 0 but the group was never empty during the call" } else s
    [go .idle s1]

def successors (s : St) : List St := (List.range s.threads.length).flatMap (stepThread s)

def isFinal (s : St) : Bool := s.threads.all fun th => th.pc == .idle && th.script.isEmpty

def checkTerminal (allN : List Nat) (s : St) : Option String :=
  if !isFinal s then
    -- blocked: acceptable only if someone sleeps untimed while count > 0
    if s.w.count > 0 && s.threads.all (fun th => (th.pc == .idle && th.script.isEmpty) ||
        (match th.pc with | .wSleep _ false => true | _ => false)) then none
    else some s!"STUCK {repr s}"
  else if s.w.count == 0 && !(allN.all s.submitted.contains) then some s!"notify lost: {repr s}"
  else if s.w.count == 0 && (s.w.N || s.w.Wt) then some s!"bits left set at zero: {repr s.w}"
  else none

partial def bfs (init : St) (limit : Nat) : IO Unit := do
  let allN := init.threads.flatMap fun th => th.script.filterMap fun | .notify i => some i | _ => none
  let mut seen : HashSet St := {}
  let mut frontier : Array St := #[init]
  seen := seen.insert init
  let mut n := 0
  let mut terminals := 0
  while !frontier.isEmpty do
    let mut next : Array St := #[]
    for s in frontier do
      n := n + 1
      if let some b := s.bad then
        if b != "unbalanced leave (client error)" && !(b.splitOn "submitted before the group was empty").length > 1 then
          IO.println s!"VIOLATION {b}\n{repr s}"; return
        else continue
      let succ := successors s
      if succ.isEmpty then
        terminals := terminals + 1
        if let some e := checkTerminal allN s then
          IO.println s!"VIOLATION {e}"; return
      for s' in succ do
        if !seen.contains s' then
          seen := seen.insert s'
          next := next.push s'
    if n > limit then IO.println s!"limit reached at {n}"; return
    frontier := next
  IO.println s!"ok: {n} states, {terminals} terminal states"

def mk (scripts : List (List Op)) : St := { threads := scripts.map fun sc => { pc := .idle, script := sc } }

end GroupS

open GroupS in
def main : IO Unit := do
  let cfgs : List (String × St) := [
    ("enter,leave / wait", mk [[.enter, .leave], [.wait false]]),
    ("enter,leave / notify", mk [[.enter, .leave], [.notify 1]]),
    ("e,l / notify / notify", mk [[.enter, .leave], [.notify 1], [.notify 2]]),
    ("e,l,e,l / wait / notify", mk [[.enter, .leave, .enter, .leave], [.wait false], [.notify 1]]),
    ("e,l / e,l / timed wait / notify", mk [[.enter, .leave], [.enter, .leave], [.wait true], [.notify 1]]),
    ("e / l,e,l / wait,wait / notify,notify", mk [[.enter], [.leave, .enter, .leave], [.wait false, .wait true], [.notify 1, .notify 2]]),
    ("e,l,e,l / e,l / wait / notify / notify", mk [[.enter, .leave, .enter, .leave], [.enter, .leave], [.wait false], [.notify 1], [.notify 2]])
  ]
  for (name, st) in cfgs do
    IO.print s!"{name}: "
    bfs st 30000000
