// workload against the hooked libdispatch: atomic trace of one dispatch_group (dg_state / dg_bits)
#define _GNU_SOURCE
#include <dispatch/dispatch.h>
#include <stdio.h>
#include <stdint.h>
#include <stdlib.h>
#include <unistd.h>
#include <pthread.h>
#include <sched.h>
#include <stdatomic.h>
#include <sys/syscall.h>
typedef void (*cb_t)(const volatile void *addr, unsigned size, int op, uint64_t o, uint64_t n, const char *func, int line);
extern cb_t _dispatch_verif_atomic_cb;
extern void (*_dispatch_verif_yield_cb)(const volatile void *addr, const char *func, int line);
static dispatch_group_t G;
typedef struct { uint64_t seq; int tid; int off; unsigned size; int op; uint64_t o, n; const char *func; int line; } ev_t;
#define MAXEV (1<<21)
static ev_t *evs; static atomic_ulong nev, seq;
static __thread int mytid; static __thread uint64_t rng; static uint64_t seed;
static inline uint64_t rnd(void){ if(!rng) rng = seed ^ (uint64_t)syscall(SYS_gettid)*0x9e3779b97f4a7c15ull; rng ^= rng<<13; rng ^= rng>>7; rng ^= rng<<17; return rng; }
static void cb(const volatile void *addr, unsigned size, int op, uint64_t o, uint64_t n, const char *func, int line){
  long d = (char*)addr - (char*)G; if (d < 0 || d >= 96) return;
  if (!mytid) mytid = (int)syscall(SYS_gettid);
  unsigned long k = atomic_fetch_add(&nev,1); if (k>=MAXEV) return;
  evs[k] = (ev_t){ atomic_fetch_add(&seq,1), mytid, (int)d, size, op, o, n, func, line }; }
static void ycb(const volatile void *addr, const char *func, int line){ (void)func;(void)line;
  long d = (char*)addr - (char*)G; if (d < 0 || d >= 96) return; uint64_t r = rnd()%12; if (r==0) sched_yield(); else if (r==1) usleep(rnd()%40); }
static atomic_int notified, waits_ok;
static void note(void *c){ (void)c; atomic_fetch_add(&notified,1); }
static void work(void *c){ (void)c; if (rnd()%3==0) sched_yield(); }
static int nops; static dispatch_queue_t cq;
static void *client(void *a){ (void)a;
  for (int i=0;i<nops;i++){ switch (rnd()%6){
    case 0: case 1: dispatch_group_enter(G); if (rnd()%2) sched_yield(); dispatch_group_leave(G); break;
    case 2: dispatch_group_async_f(G, cq, NULL, work); break;
    case 3: dispatch_group_notify_f(G, cq, NULL, note); break;
    case 4: if (dispatch_group_wait(G, dispatch_time(DISPATCH_TIME_NOW, (int64_t)(rnd()%200000))) == 0) atomic_fetch_add(&waits_ok,1); break;
    case 5: dispatch_group_enter(G); dispatch_group_enter(G); dispatch_group_leave(G); dispatch_group_leave(G); break; } }
  return NULL; }
int main(int argc, char **argv){
  seed = argc>1 ? strtoull(argv[1],0,0) : 1; int nthr = argc>2 ? atoi(argv[2]) : 4; nops = argc>3 ? atoi(argv[3]) : 300;
  evs = calloc(MAXEV, sizeof(ev_t)); G = dispatch_group_create(); cq = dispatch_queue_create("c", DISPATCH_QUEUE_CONCURRENT);
  _dispatch_verif_yield_cb = ycb; _dispatch_verif_atomic_cb = cb;
  pthread_t th[64]; for (int i=0;i<nthr;i++) pthread_create(&th[i],0,client,0);
  for (int i=0;i<nthr;i++) pthread_join(th[i],0);
  dispatch_group_wait(G, DISPATCH_TIME_FOREVER); usleep(50000);
  _dispatch_verif_atomic_cb = 0; _dispatch_verif_yield_cb = 0;
  unsigned long n = atomic_load(&nev); if (n>MAXEV) n=MAXEV;
  printf("DONE notified %d waits_ok %d events %lu\n", atomic_load(&notified), atomic_load(&waits_ok), n);
  for (unsigned long i=0;i<n;i++){ ev_t *e=&evs[i]; printf("E %lu %d %d %u %d %016lx %016lx %s %d\n", e->seq, e->tid, e->off, e->size, e->op, e->o, e->n, e->func, e->line); }
  return 0; }
