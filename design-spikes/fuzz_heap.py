import ctypes, random, sys
lib = ctypes.CDLL('/var/tmp/exp/bld2/libdispatch.so')
vp=ctypes.c_void_p; u64=ctypes.c_uint64; u32=ctypes.c_uint32
lib._dispatch_verif_heap_new.restype=vp
lib._dispatch_verif_timer_new.restype=vp; lib._dispatch_verif_timer_new.argtypes=[u64,u64]
lib._dispatch_verif_heap_insert.argtypes=[vp,vp]; lib._dispatch_verif_heap_remove.argtypes=[vp,vp]
lib._dispatch_verif_heap_update.argtypes=[vp,vp,u64,u64]
lib._dispatch_verif_heap_count.restype=u32; lib._dispatch_verif_heap_count.argtypes=[vp]
lib._dispatch_verif_heap_slot.restype=vp; lib._dispatch_verif_heap_slot.argtypes=[vp,u32]
lib._dispatch_verif_timer_entry.restype=u32; lib._dispatch_verif_timer_entry.argtypes=[vp,ctypes.c_int]
INV=0xffffffff
# ---- model: interleaved double heap, transcribed from event.c ----
class T:
    def __init__(s,k): s.key=list(k); s.entry=[INV,INV]
class H:
    def __init__(s): s.a=[]   # slots; len = count
    def parent(s,i): hid=i&1; i=(i-2)//2; return (i&~1)|hid
    def lchild(s,i): hid=i&1; return 2*i+2-hid
    def set(s,i,t): s.a[i]=t; t.entry[i&1]=i
    def resift(s,t,i):
        hid=i&1; cnt=len(s.a); up=False
        while i>=2:
            p=s.parent(i); pt=s.a[p]
            if pt.key[hid]<=t.key[hid]: break
            s.set(i,pt); i=p; up=True
        if not up:
            while True:
                c=s.lchild(i)
                if c>=cnt: break
                r=c+2; ct=s.a[c]
                if r<cnt and ct.key[hid]>s.a[r].key[hid]: c=r; ct=s.a[r]
                if t.key[hid]<=ct.key[hid]: break
                s.set(i,ct); i=c
        s.set(i,t)
    def insert(s,t):
        i=len(s.a); s.a+= [None,None]
        if i==0: s.a[0]=s.a[1]=t; t.entry=[0,1]; return
        s.resift(t,i); s.resift(t,i+1)
    def remove(s,t):
        i=len(s.a)-2
        if i==0: s.a=[]; t.entry=[INV,INV]; return
        for hid in (0,1):
            last=s.a[i+hid]; s.a[i+hid]=None
            if last is not t:
                # note: count already decremented in C before resift
                pass
        # redo faithfully: C decrements count first, then for each heap_id takes slot idx+hid
        raise NotImplementedError
def remove(h,t):
    idx=len(h.a)-2
    if idx==0:
        h.a=[]; t.entry=[INV,INV]; return
    lasts=[h.a[idx],h.a[idx+1]]
    h.a=h.a[:idx]            # dth_count -= 2 happens first
    for hid in (0,1):
        last=lasts[hid]
        if last is not t:
            h.resift(last, t.entry[hid])
    t.entry=[INV,INV]
seed=int(sys.argv[1]) if len(sys.argv)>1 else 1
rnd=random.Random(seed); N=int(sys.argv[2]) if len(sys.argv)>2 else 20000
hc=lib._dispatch_verif_heap_new(); hm=H(); live=[]  # (cptr, T)
bad=0
def keys():
    tg=rnd.choice([rnd.randrange(1,50), rnd.randrange(1,10**6)]); return (tg, tg+rnd.choice([0,1,rnd.randrange(100)]))
for it in range(N):
    op=rnd.random()
    big = len(live)
    if op<0.45 or not live:
        k=keys(); c=lib._dispatch_verif_timer_new(k[0],k[1]); t=T(k); lib._dispatch_verif_heap_insert(hc,c); hm.insert(t); live.append((c,t))
    elif op<0.75:
        j=rnd.randrange(len(live)); c,t=live.pop(j); lib._dispatch_verif_heap_remove(hc,c); remove(hm,t)
    else:
        c,t=rnd.choice(live); k=keys(); lib._dispatch_verif_heap_update(hc,c,k[0],k[1]); t.key=list(k); hm.resift(t,t.entry[0]); hm.resift(t,t.entry[1])
    cnt=lib._dispatch_verif_heap_count(hc)
    if cnt!=len(hm.a): print('COUNT',it,cnt,len(hm.a)); bad+=1; break
    cmap={c:t for c,t in live}
    for i in range(cnt):
        p=lib._dispatch_verif_heap_slot(hc,i)
        if cmap.get(p) is not hm.a[i]: print('SLOT MISMATCH it',it,'idx',i); bad+=1; break
    for c,t in live:
        for hid in (0,1):
            if lib._dispatch_verif_timer_entry(c,hid)!=t.entry[hid]: print('ENTRY MISMATCH',it); bad+=1; break
    # heap property + min
    for i in range(2,cnt):
        hid=i&1
        if hm.a[hm.parent(i)].key[hid]>hm.a[i].key[hid]: print('HEAP PROPERTY BROKEN',it,i); bad+=1
    if live:
        if hm.a[0].key[0]!=min(t.key[0] for _,t in live) or hm.a[1].key[1]!=min(t.key[1] for _,t in live): print('MIN WRONG',it); bad+=1
    if bad: break
print('seed',seed,'ops',N,'max live',max(1,len(live)),'bad',bad)
