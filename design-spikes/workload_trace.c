// workload against hooked libdispatch: records atomic trace of chosen queues' dq_state
#define _GNU_SOURCE
#include <dispatch/dispatch.h>
#include <stdio.h>
#include <stdint.h>
#include <stdlib.h>
#include <string.h>
#include <unistd.h>
#include <pthread.h>
#include <sched.h>
#include <stdatomic.h>
#include <sys/syscall.h>
typedef void (*cb_t)(const volatile void *addr, unsigned size, int op, uint64_t o, uint64_t n, const char *func, int line);
extern cb_t _dispatch_verif_atomic_cb;
extern void (*_dispatch_verif_yield_cb)(const volatile void *addr, const char *func, int line);
#define NQ 2
static dispatch_queue_t Q[NQ];
typedef struct { uint64_t seq; int tid; int q; int off; int op; uint64_t o, n; const char *func; int line; } ev_t;
#define MAXEV (1<<22)
static ev_t *evs; static atomic_ulong nev; static atomic_ulong seq;
static __thread int mytid; 
static __thread uint64_t rng;
static uint64_t seed;
static inline uint64_t rnd(void){ if(!rng) rng = seed ^ (uint64_t)syscall(SYS_gettid)*0x9e3779b97f4a7c15ull; rng ^= rng<<13; rng ^= rng>>7; rng ^= rng<<17; return rng; }
static void cb(const volatile void *addr, unsigned size, int op, uint64_t o, uint64_t n, const char *func, int line){
  for (int i=0;i<NQ;i++){ long d = (char*)addr - (char*)Q[i]; if (d >= 0 && d < 128) {
    if (!mytid) mytid = (int)syscall(SYS_gettid);
    unsigned long k = atomic_fetch_add(&nev,1); if (k>=MAXEV) return;
    evs[k] = (ev_t){ atomic_fetch_add(&seq,1), mytid, i, (int)d, op, o, n, func, line }; return; } }
}
static void ycb(const volatile void *addr, const char *func, int line){
  for (int i=0;i<NQ;i++){ long d = (char*)addr - (char*)Q[i]; if (d >= 0 && d < 128) { uint64_t r = rnd()%16; if (r==0) sched_yield(); else if (r==1) usleep(rnd()%50); return; } }
}
static atomic_int running[NQ], barrier_running[NQ], done_items, viol;
typedef struct { int q; int bar; } item_t;
static void work(void *c){ item_t *it = c; int q = it->q;
  int r = atomic_fetch_add(&running[q],1);
  if (it->bar) { if (r != 0) { viol++; fprintf(stderr,"OVERLAP barrier q%d r=%d\n", q, r);} atomic_fetch_add(&barrier_running[q],1); }
  else if (atomic_load(&barrier_running[q])) { viol++; fprintf(stderr,"OVERLAP reader with barrier q%d\n", q); }
  if (rnd()%4==0) sched_yield();
  if (it->bar) atomic_fetch_sub(&barrier_running[q],1);
  atomic_fetch_sub(&running[q],1); atomic_fetch_add(&done_items,1); free(it); }
static int nops;
static void *client(void *a){ (void)a;
  for (int i=0;i<nops;i++){ int q = rnd()%NQ; int k = rnd()%8; if (k==7 && rnd()%8) k=0; item_t *it = malloc(sizeof *it); it->q=q; it->bar = (q==0) || k==1 || k==3;
    switch(k){ case 0: case 4: case 5: dispatch_async_f(Q[q], it, work); break; case 1: dispatch_barrier_async_f(Q[q], it, work); break;
      case 6: free(it); dispatch_suspend(Q[q]); if (rnd()%2) sched_yield(); dispatch_resume(Q[q]); atomic_fetch_add(&done_items,1); break;
      case 7: free(it); for (int j=0;j<70;j++) dispatch_suspend(Q[q]); for (int j=0;j<70;j++) dispatch_resume(Q[q]); atomic_fetch_add(&done_items,1); break;
      case 2: dispatch_sync_f(Q[q], it, work); break; case 3: dispatch_barrier_sync_f(Q[q], it, work); break; } }
  return NULL; }
static void dump(void){
  unsigned long n = atomic_load(&nev); if (n>MAXEV) n=MAXEV;
  for (unsigned long i=0;i<n;i++){ ev_t *e=&evs[i]; printf("E %lu %d %d %d %d %016lx %016lx %s %d\n", e->seq, e->tid, e->q, e->off, e->op, e->o, e->n, e->func, e->line); }
  fflush(stdout); }
static void *watchdog(void *a){ (void)a; int last=-1, same=0; for(;;){ usleep(200000); int d=atomic_load(&done_items); if (d==last) same++; else same=0; last=d; if (same>=25){ printf("STUCK %d items done\n", d); _dispatch_verif_atomic_cb=0; dump(); _exit(3);} } return 0; }
int main(int argc, char **argv){
  seed = argc>1 ? strtoull(argv[1],0,0) : 1; int nthr = argc>2 ? atoi(argv[2]) : 4; nops = argc>3 ? atoi(argv[3]) : 200;
  evs = calloc(MAXEV, sizeof(ev_t));
  Q[0] = dispatch_queue_create("s", DISPATCH_QUEUE_SERIAL); Q[1] = dispatch_queue_create("c", DISPATCH_QUEUE_CONCURRENT);
  printf("Q 0 width 1\nQ 1 width 4094\n");
  _dispatch_verif_yield_cb = ycb; _dispatch_verif_atomic_cb = cb;
  pthread_t wd; pthread_create(&wd,0,watchdog,0);
  pthread_t th[64]; for (int i=0;i<nthr;i++) pthread_create(&th[i],0,client,0);
  for (int i=0;i<nthr;i++) pthread_join(th[i],0);
  for (int w=0; w<3000 && atomic_load(&done_items) < nthr*nops; w++) usleep(1000);
  usleep(20000);
  _dispatch_verif_atomic_cb = 0; _dispatch_verif_yield_cb = 0;
  printf("DONE %d of %d viol %d events %lu\n", atomic_load(&done_items), nthr*nops, atomic_load(&viol), atomic_load(&nev));
  unsigned long n = atomic_load(&nev); if (n>MAXEV) n=MAXEV;
  for (unsigned long i=0;i<n;i++){ ev_t *e=&evs[i]; printf("E %lu %d %d %d %d %016lx %016lx %s %d\n", e->seq, e->tid, e->q, e->off, e->op, e->o, e->n, e->func, e->line); }
  return 0; }
