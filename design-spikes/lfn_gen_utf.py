import random, sys
rnd = random.Random(int(sys.argv[1]) if len(sys.argv) > 1 else 1)
N = int(sys.argv[2]) if len(sys.argv) > 2 else 30000
edge = [0,1,0x41,0x7f,0x80,0x7ff,0x800,0xd7ff,0xe000,0xfeff,0xfffe,0xffff,0x10000,0x1f600,0x10ffff]
def enc(c):
    if c < 0x80: return bytes([c])
    if c < 0x800: return bytes([0xc0 | c >> 6, 0x80 | c & 63])
    if c < 0x10000: return bytes([0xe0 | c >> 12, 0x80 | (c >> 6) & 63, 0x80 | c & 63])
    return bytes([0xf0 | (c >> 18) & 7, 0x80 | (c >> 12) & 63, 0x80 | (c >> 6) & 63, 0x80 | c & 63])
def scalar():
    k = rnd.randrange(6)
    if k == 0: return rnd.choice(edge)
    if k == 1: return rnd.randrange(0x80)
    if k == 2: return rnd.randrange(0x80, 0x800)
    if k == 3:
        c = rnd.randrange(0x800, 0x10000)
        return c if not (0xd800 <= c < 0xe000) else 0x4e2d
    if k == 4: return rnd.randrange(0x10000, 0x110000)
    return rnd.randrange(0x20, 0x7f)
def split(b):
    if not b: return [b]
    k = rnd.randrange(4)
    if k == 0: return [b]
    cuts = sorted(set(rnd.randrange(1, len(b)) for _ in range(rnd.choice([1,1,2,3,5,len(b)])))) if len(b) > 1 else []
    if k == 3: cuts = list(range(1, len(b)))       # one byte per region
    parts = []; last = 0
    for c in cuts: parts.append(b[last:c]); last = c
    parts.append(b[last:])
    return parts
stats = dict(wf=0, mal=0, regions=0, split_in_seq=0)
out = []
for _ in range(N):
    malformed = rnd.random() < 0.3
    if not malformed:
        b = b"".join(enc(scalar()) for _ in range(rnd.randrange(1, 9))); stats['wf'] += 1
    else:
        stats['mal'] += 1
        k = rnd.randrange(7)
        b = bytearray(b"".join(enc(scalar()) for _ in range(rnd.randrange(1, 6))))
        if k == 0: b = bytearray(rnd.randrange(256) for _ in range(rnd.randrange(1, 8)))
        elif k == 1: b = b[:rnd.randrange(1, len(b) + 1)]                       # truncated
        elif k == 2: b += enc(rnd.randrange(0xd800, 0xe000))                    # encoded surrogate
        elif k == 3: b[rnd.randrange(len(b))] = rnd.choice([0x80,0xbf,0xc0,0xc1,0xf5,0xf8,0xfc,0xff])
        elif k == 4: b += bytes([0xc0, 0x80 | rnd.randrange(64)])               # overlong
        elif k == 5: b += bytes([0xf4 + rnd.randrange(4), 0x90 + rnd.randrange(0x30), 0x80, 0x80])  # > 10FFFF
        else: b.insert(rnd.randrange(len(b) + 1), rnd.randrange(0x80, 0x100))
        b = bytes(b)
    parts = split(b)
    stats['regions'] += len(parts)
    out.append("U16 " + "|".join(p.hex() for p in parts))
sys.stdout.write("\n".join(out) + "\n")
sys.stderr.write(str(stats) + "\n")
