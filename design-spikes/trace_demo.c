#include <dispatch/dispatch.h>
#include <stdio.h>
#include <stdint.h>
#include <string.h>
#include <unistd.h>
#include <sys/syscall.h>
typedef void (*cb_t)(const volatile void *addr, unsigned size, int op, uint64_t o, uint64_t n, const char *func, int line);
extern cb_t _dispatch_verif_atomic_cb;
static const volatile void *lo, *hi;
static const char *ops[] = {"load","store","xchg","cas_ok","cas_fail","add","sub","and","or","xor"};
static void cb(const volatile void *addr, unsigned size, int op, uint64_t o, uint64_t n, const char *func, int line){
  if (addr >= lo && addr < hi) {
    char buf[256]; int k = snprintf(buf, sizeof buf, "T%ld +%ld sz%u %-8s %016lx -> %016lx %s:%d\n", (long)syscall(SYS_gettid), (long)((char*)addr-(char*)lo), size, ops[op], o, n, func, line);
    write(1, buf, k);
  }
}
static void work(void *c){ write(1, "  [item]\n", 9); }
int main(void){
  dispatch_queue_t q = dispatch_queue_create("t", NULL);
  lo = q; hi = (char*)q + 128;
  _dispatch_verif_atomic_cb = cb;
  write(1,"== async\n",9);
  dispatch_async_f(q, NULL, work);
  usleep(100000);
  write(1,"== sync\n",8);
  dispatch_sync_f(q, NULL, work);
  write(1,"== suspend/resume\n",18);
  dispatch_suspend(q); dispatch_resume(q);
  usleep(100000);
  _dispatch_verif_atomic_cb = 0;
  return 0;
}
