import ctypes, random, sys, base64, collections
lib = ctypes.CDLL('/repo/_build/libdispatch.so')
vp = ctypes.c_void_p; sz = ctypes.c_size_t
lib.dispatch_data_create.restype = vp; lib.dispatch_data_create.argtypes = [ctypes.c_char_p, sz, vp, vp]
lib.dispatch_data_create_concat.restype = vp; lib.dispatch_data_create_concat.argtypes = [vp, vp]
lib.dispatch_data_get_size.restype = sz; lib.dispatch_data_get_size.argtypes = [vp]
lib.dispatch_data_create_map.restype = vp; lib.dispatch_data_create_map.argtypes = [vp, ctypes.POINTER(vp), ctypes.POINTER(sz)]
lib.dispatch_data_create_with_transform.restype = vp; lib.dispatch_data_create_with_transform.argtypes=[vp,vp,vp]
def fmt(n): return ctypes.addressof(ctypes.c_char.in_dll(lib,'_dispatch_data_format_type_'+n))
F={n:fmt(n) for n in ['none','base32','base32hex','base64','utf8','utf16le','utf16be']}
EMPTY=ctypes.addressof(vp.in_dll(lib,'_dispatch_data_empty'))
def mk(b,cuts):
    d=EMPTY; off=0
    for c in list(cuts)+[len(b)]:
        if c>off:
            p=lib.dispatch_data_create(b[off:c],c-off,None,None); d=lib.dispatch_data_create_concat(d,p); off=c
    return d
def get(d):
    if not d: return None
    n=lib.dispatch_data_get_size(d)
    if n>1<<30: return ('HUGE',n)
    p=vp(); m=sz(); lib.dispatch_data_create_map(d,ctypes.byref(p),ctypes.byref(m))
    return ctypes.string_at(p.value,m.value) if m.value else b''
def tf(b,cuts,a,c): return get(lib.dispatch_data_create_with_transform(mk(b,cuts),F[a],F[c]))
rnd=random.Random(int(sys.argv[1]) if len(sys.argv)>1 else 1)
fails=collections.Counter(); ex={}
def rec(kind,*info):
    fails[kind]+=1
    if kind not in ex: ex[kind]=info
def cutsfor(n):
    k=rnd.choice([0,0,1,2,3]); return sorted(rnd.sample(range(1,n),min(k,n-1))) if n>1 else []
def b32hexenc(b):
    s=base64.b32encode(b).decode(); t=str.maketrans('ABCDEFGHIJKLMNOPQRSTUVWXYZ234567','0123456789ABCDEFGHIJKLMNOPQRSTUV'); return s.translate(t).encode()
N=int(sys.argv[2]) if len(sys.argv)>2 else 3000
for it in range(N):
    n=rnd.choice([1,2,3,4,5,6,7,8,9,10,15,16,31,40]); b=bytes(rnd.randrange(256) for _ in range(n))
    for name,enc in (('base64',base64.b64encode),('base32',base64.b32encode),('base32hex',b32hexenc)):
        cuts=cutsfor(n); e=tf(b,cuts,'none',name)
        if e!=enc(b): rec(name+' encode wrong',b,cuts,e,enc(b)); continue
        cuts2=cutsfor(len(e)); r=tf(e,cuts2,name,'none')
        if r!=b: rec(name+' decode(encode) != id' + (' [fragmented]' if cuts2 else ' [contiguous]'),b,e,cuts2,r)
    # utf8 <-> utf16
    cps=[rnd.choice([rnd.randrange(1,0x80),rnd.randrange(0x80,0x800),rnd.randrange(0x800,0xd800),rnd.randrange(0xe000,0x10000),rnd.randrange(0x10000,0x110000)]) for _ in range(rnd.randrange(1,8))]
    cps=[c for c in cps if c!=0xfeff and c!=0xfffe]
    if not cps: continue
    s=''.join(map(chr,cps)); u8=s.encode('utf-8')
    for name,codec in (('utf16le','utf-16-le'),('utf16be','utf-16-be')):
        cuts=cutsfor(len(u8)); e=tf(u8,cuts,'utf8',name)
        bom=b'\xff\xfe' if name=='utf16le' else b'\xfe\xff'
        exp=bom+s.encode(codec)
        if e!=exp: rec('utf8->'+name+(' [fragmented]' if cuts else ' [contiguous]'),u8,cuts,e,exp); continue
        cuts2=cutsfor(len(e)); r=tf(e,cuts2,name,'utf8')
        if r!=u8: rec(name+'->utf8'+(' [fragmented]' if cuts2 else ' [contiguous]'),e,cuts2,r,u8)
    # malformed inputs: must be NULL or accepted by inverse, never HUGE
    junk=bytes(rnd.choice(b'ABCDabcd0123=+/ \n\xff') for _ in range(rnd.randrange(1,12)))
    for name in ('base64','base32','base32hex'):
        r=tf(junk,cutsfor(len(junk)),name,'none')
        if isinstance(r,tuple): rec(name+' malformed -> bogus size',junk,r)
    r=tf(junk,cutsfor(len(junk)),'utf8','utf16le')
    if r is not None and not isinstance(r,tuple):
        back=tf(r,[], 'utf16le','utf8')
        if back is None: rec('utf8 junk -> utf16 not accepted by inverse',junk,r)
    r=tf(junk,cutsfor(len(junk)),'utf16le','utf8')
    if r is not None and not isinstance(r,tuple):
        back=tf(r,[], 'utf8','utf16le')
        if back is None: rec('utf16 junk -> utf8 not accepted by inverse',junk,r)
for k,v in sorted(fails.items()): print('%6d  %s   e.g. %r'%(v,k,ex[k]))
print('done',N)
