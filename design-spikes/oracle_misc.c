// C06 / C08 / C09 / C10 / C19 oracle prototypes
#define _GNU_SOURCE
#include <dispatch/dispatch.h>
#include <stdio.h>
#include <stdlib.h>
#include <stdint.h>
#include <unistd.h>
#include <pthread.h>
#include <sched.h>
#include <stdatomic.h>
#include <string.h>
#include <Block.h>
static __thread uint64_t rng; static uint64_t seed;
static inline uint64_t rnd(void){ if(!rng) rng = seed ^ (uint64_t)pthread_self()*0x9e3779b97f4a7c15ull; rng ^= rng<<13; rng ^= rng>>7; rng ^= rng<<17; return rng; }
static atomic_int viol;
#define V(...) do{ atomic_fetch_add(&viol,1); fprintf(stderr,__VA_ARGS__); }while(0)
// ---- C09 once
static dispatch_once_t pred; static atomic_int initCount, initDone;
static void initfn(void *c){ (void)c; atomic_fetch_add(&initCount,1); usleep(rnd()%300); atomic_store(&initDone,1); }
static void *oncer(void *a){ (void)a; if (rnd()%2) usleep(rnd()%200); dispatch_once_f(&pred,0,initfn); if (!atomic_load(&initDone)) V("once returned before init done\n"); return 0; }
static void t_once(void){ for (int r=0;r<300;r++){ pred=0; atomic_store(&initCount,0); atomic_store(&initDone,0); pthread_t th[12]; for(int i=0;i<12;i++) pthread_create(&th[i],0,oncer,0); for(int i=0;i<12;i++) pthread_join(th[i],0); if (atomic_load(&initCount)!=1) V("once init count %d\n", atomic_load(&initCount)); } printf("once ok\n"); }
// ---- C08 semaphore with timeouts
static dispatch_semaphore_t sem; static atomic_long okw, sigs, tmo;
static void *semt(void *a){ (void)a; for(int i=0;i<3000;i++){ int k=rnd()%4; if (k==0){ atomic_fetch_add(&sigs,1); dispatch_semaphore_signal(sem);} else { dispatch_time_t t = k==1?DISPATCH_TIME_NOW: dispatch_time(DISPATCH_TIME_NOW,(int64_t)(rnd()%20000)); if (dispatch_semaphore_wait(sem,t)==0) { long o=atomic_fetch_add(&okw,1)+1; if (o > 3 + atomic_load(&sigs)) V("more successful waits than permits\n"); } else atomic_fetch_add(&tmo,1);} } return 0; }
static void t_sema(void){ sem = dispatch_semaphore_create(3); pthread_t th[8]; for(int i=0;i<8;i++) pthread_create(&th[i],0,semt,0); for(int i=0;i<8;i++) pthread_join(th[i],0);
  long remain = 3 + atomic_load(&sigs) - atomic_load(&okw); long got=0; while (dispatch_semaphore_wait(sem,DISPATCH_TIME_NOW)==0) got++; if (got!=remain) V("semaphore conservation: remaining %ld expected %ld\n", got, remain);
  for (long i=0;i<3;i++) dispatch_semaphore_signal(sem); // restore to orig for dispose
  printf("sema ok sig=%ld ok=%ld tmo=%ld remain=%ld\n", atomic_load(&sigs), atomic_load(&okw), atomic_load(&tmo), got); }
// ---- C10 apply
static atomic_int cnt[100000]; static atomic_int applyActive;
static void apf(void *c, size_t i){ size_t n=(size_t)c; if (i>=n) V("apply index out of range\n"); atomic_fetch_add(&cnt[i],1); }
static void apnest(void *c, size_t i){ (void)i; dispatch_apply_f(7, DISPATCH_APPLY_AUTO, (void*)7, apf); (void)c; }
static void t_apply(void){ size_t ns[]={0,1,2,15,16,17,33,1000,100000}; dispatch_queue_t qs[5]; qs[0]=DISPATCH_APPLY_AUTO; qs[1]=dispatch_get_global_queue(0,0); qs[2]=dispatch_queue_create("s",0); qs[3]=dispatch_queue_create("c",DISPATCH_QUEUE_CONCURRENT); qs[4]=dispatch_queue_create_with_target("c2",DISPATCH_QUEUE_CONCURRENT,qs[3]);
  for (int q=0;q<5;q++) for (unsigned k=0;k<sizeof ns/sizeof*ns;k++){ size_t n=ns[k]; for(size_t i=0;i<n;i++) atomic_store(&cnt[i],0); dispatch_apply_f(n, qs[q], (void*)n, apf); for(size_t i=0;i<n;i++) if (atomic_load(&cnt[i])!=1) { V("apply q%d n=%zu index %zu count %d\n",q,n,i,atomic_load(&cnt[i])); break; } }
  for(int i=0;i<7;i++) atomic_store(&cnt[i],0); dispatch_apply_f(5, qs[3], 0, apnest); for(int i=0;i<7;i++) if (atomic_load(&cnt[i])!=5) V("nested apply count %d\n", atomic_load(&cnt[i]));
  printf("apply ok\n"); }
// ---- C06 suspend from item
static dispatch_queue_t sq; static atomic_int suspended_flag, ranWhileSuspended, ran;
static void it(void *c){ (void)c; if (atomic_load(&suspended_flag)) atomic_fetch_add(&ranWhileSuspended,1); atomic_fetch_add(&ran,1); }
static void susp_item(void *c){ (void)c; dispatch_suspend(sq); atomic_store(&suspended_flag,1); }
static void t_suspend(void){ sq = dispatch_queue_create("sq",0); for (int r=0;r<200;r++){ atomic_store(&ran,0); for(int i=0;i<5;i++) dispatch_async_f(sq,0,it); dispatch_async_f(sq,0,susp_item); for(int i=0;i<5;i++) dispatch_async_f(sq,0,it);
    while (!atomic_load(&suspended_flag)) usleep(50); usleep(300); if (atomic_load(&ran)!=5) V("items ran after suspend from item: %d\n", atomic_load(&ran)); atomic_store(&suspended_flag,0); dispatch_resume(sq); dispatch_sync_f(sq,0,it); if (atomic_load(&ran)!=11) V("items lost after resume: %d\n", atomic_load(&ran)); }
  // inactive queue
  dispatch_queue_t iq = dispatch_queue_create("iq", dispatch_queue_attr_make_initially_inactive(0)); atomic_store(&ran,0); for(int i=0;i<5;i++) dispatch_async_f(iq,0,it); usleep(20000); if (atomic_load(&ran)) V("inactive queue ran items\n"); dispatch_activate(iq); dispatch_sync_f(iq,0,it); if (atomic_load(&ran)!=6) V("inactive queue lost items\n");
  printf("suspend ok (ran while suspended flag seen: %d)\n", atomic_load(&ranWhileSuspended)); }
// ---- C19 block objects
static void t_block(void){ dispatch_queue_t q = dispatch_queue_create("bq", DISPATCH_QUEUE_CONCURRENT);
  for (int r=0;r<500;r++){ __block atomic_int body=0, bodyDone=0, notified=0, notifiedEarly=0;
    dispatch_block_t b = dispatch_block_create(0, ^{ atomic_fetch_add(&body,1); if (rnd()%2) usleep(rnd()%100); atomic_store(&bodyDone,1); });
    int cancelFirst = rnd()%3==0; if (cancelFirst) dispatch_block_cancel(b);
    dispatch_block_notify(b, q, ^{ if (!cancelFirst && !atomic_load(&bodyDone)) atomic_store(&notifiedEarly,1); atomic_fetch_add(&notified,1); });
    switch (rnd()%3){ case 0: dispatch_async(q,b); break; case 1: dispatch_sync(q,b); break; case 2: b(); break; }
    if (dispatch_block_wait(b, DISPATCH_TIME_FOREVER)) V("block wait forever returned nonzero\n");
    if (!cancelFirst && !atomic_load(&bodyDone)) V("block_wait returned before body done\n");
    if (cancelFirst && atomic_load(&body)) V("cancelled block ran body\n");
    if (!cancelFirst && atomic_load(&body)!=1) V("body count %d\n", atomic_load(&body));
    if (!!dispatch_block_testcancel(b) != cancelFirst) V("testcancel mismatch\n");
    for (int w=0; w<2000 && !atomic_load(&notified); w++) usleep(100);
    if (atomic_load(&notified)!=1) V("notify count %d\n", atomic_load(&notified)); if (atomic_load(&notifiedEarly)) V("notify before body done\n");
    Block_release(b); }
  printf("block ok\n"); }
int main(int argc, char **argv){ seed = argc>1?strtoull(argv[1],0,0):1; const char *w = argc>2?argv[2]:"all";
  if (!strcmp(w,"all")||!strcmp(w,"once")) t_once(); if (!strcmp(w,"all")||!strcmp(w,"sema")) t_sema(); if (!strcmp(w,"all")||!strcmp(w,"apply")) t_apply();
  if (!strcmp(w,"all")||!strcmp(w,"suspend")) t_suspend(); if (!strcmp(w,"all")||!strcmp(w,"block")) t_block();
  printf("viol %d\n", atomic_load(&viol)); return 0; }
