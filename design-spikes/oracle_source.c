// C15/C16 oracle prototype: DATA_ADD/OR coalescing, handler non-reentrancy, cancel semantics
#define _GNU_SOURCE
#include <dispatch/dispatch.h>
#include <stdio.h>
#include <stdlib.h>
#include <stdint.h>
#include <unistd.h>
#include <pthread.h>
#include <sched.h>
#include <stdatomic.h>
static __thread uint64_t rng; static uint64_t seed;
static inline uint64_t rnd(void){ if(!rng) rng = seed ^ (uint64_t)pthread_self()*0x9e3779b97f4a7c15ull; rng ^= rng<<13; rng ^= rng>>7; rng ^= rng<<17; return rng; }
static dispatch_source_t ds; static atomic_ulong delivered, merged, orDelivered, orMerged; static atomic_int inhandler, viol, zero, cancelRuns, afterCancel, cancelled;
static int mode; // 0 add 1 or
static void handler(void *c){ (void)c; if (atomic_fetch_add(&inhandler,1)) { viol++; fprintf(stderr,"REENTRANT handler\n"); }
  if (atomic_load(&cancelRuns)) { afterCancel++; }
  unsigned long d = dispatch_source_get_data(ds); if (!d) zero++;
  if (mode==0) atomic_fetch_add(&delivered,d); else atomic_fetch_or(&orDelivered,d);
  if (rnd()%3==0) sched_yield(); if (rnd()%50==0) { dispatch_suspend(ds); usleep(100); dispatch_resume(ds); }
  atomic_fetch_sub(&inhandler,1); }
static void cancelh(void *c){ (void)c; if (atomic_load(&inhandler)) { viol++; fprintf(stderr,"cancel handler overlaps event handler\n"); } atomic_fetch_add(&cancelRuns,1); }
static int nops;
static void *merger(void *a){ (void)a; for (int i=0;i<nops;i++){ unsigned long v = mode==0 ? 1+rnd()%5 : 1ul<<(rnd()%40);
    if (atomic_load(&cancelled)) break;
    if (mode==0) atomic_fetch_add(&merged,v); else atomic_fetch_or(&orMerged,v);
    dispatch_source_merge_data(ds, v); if (rnd()%8==0) sched_yield(); } return 0; }
int main(int argc, char **argv){ seed = argc>1?strtoull(argv[1],0,0):1; mode = argc>2?atoi(argv[2]):0; int nthr = 4; nops = 20000; int tq = argc>3?atoi(argv[3]):0;
  dispatch_queue_t q = tq==0 ? dispatch_get_global_queue(0,0) : tq==1 ? dispatch_queue_create("c",DISPATCH_QUEUE_CONCURRENT) : dispatch_queue_create("s",NULL);
  ds = dispatch_source_create(mode==0?DISPATCH_SOURCE_TYPE_DATA_ADD:DISPATCH_SOURCE_TYPE_DATA_OR,0,0,q);
  dispatch_source_set_event_handler_f(ds, handler); dispatch_source_set_cancel_handler_f(ds, cancelh); dispatch_activate(ds);
  pthread_t th[8]; for (int i=0;i<nthr;i++) pthread_create(&th[i],0,merger,0);
  for (int i=0;i<nthr;i++) pthread_join(th[i],0);
  for (int w=0; w<5000; w++){ if (mode==0 ? atomic_load(&delivered)==atomic_load(&merged) : atomic_load(&orDelivered)==atomic_load(&orMerged)) break; usleep(1000); }
  printf("mode %d tq %d merged %lu delivered %lu | or %lx/%lx zero %d viol %d\n", mode, tq, atomic_load(&merged), atomic_load(&delivered), atomic_load(&orMerged), atomic_load(&orDelivered), atomic_load(&zero), atomic_load(&viol));
  atomic_store(&cancelled,1); dispatch_source_cancel(ds); dispatch_source_cancel(ds);
  for (int i=0;i<100;i++) dispatch_source_merge_data(ds, 1);
  usleep(200000);
  printf("cancel handler runs %d, event handler runs after cancel handler %d, testcancel %ld\n", atomic_load(&cancelRuns), atomic_load(&afterCancel), dispatch_source_testcancel(ds));
  return 0; }
