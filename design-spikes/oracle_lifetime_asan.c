// C17/C13/C11 oracle prototypes (run against the ASan build): racing last release, finalizers once, data destructors once, timers never early
#define _GNU_SOURCE
#include <dispatch/dispatch.h>
#include <stdio.h>
#include <stdlib.h>
#include <stdint.h>
#include <unistd.h>
#include <pthread.h>
#include <sched.h>
#include <stdatomic.h>
#include <time.h>
dispatch_data_t dispatch_data_create_f(const void *buffer, size_t size, dispatch_queue_t queue, dispatch_function_t destructor);
static __thread uint64_t rng; static uint64_t seed;
static inline uint64_t rnd(void){ if(!rng) rng = seed ^ (uint64_t)pthread_self()*0x9e3779b97f4a7c15ull; rng ^= rng<<13; rng ^= rng>>7; rng ^= rng<<17; return rng; }
static atomic_int viol, finals, items, destr;
#define V(...) do{ atomic_fetch_add(&viol,1); fprintf(stderr,__VA_ARGS__); }while(0)
typedef struct { atomic_int fin; atomic_int pending; } ctx_t;
static void fin(void *c){ ctx_t *x=c; if (atomic_fetch_add(&x->fin,1)) V("finalizer ran twice\n"); if (atomic_load(&x->pending)) V("finalizer ran with %d items pending\n", atomic_load(&x->pending)); atomic_fetch_add(&finals,1); }
static void item(void *c){ ctx_t *x=c; if (atomic_load(&x->fin)) V("item ran after finalizer\n"); if (rnd()%4==0) sched_yield(); atomic_fetch_sub(&x->pending,1); atomic_fetch_add(&items,1); }
static void *lifer(void *a){ (void)a; for (int r=0;r<1500;r++){ ctx_t *x = calloc(1,sizeof *x);
    dispatch_queue_t t = rnd()%2 ? dispatch_queue_create("t",0) : NULL;
    dispatch_queue_t q = t ? dispatch_queue_create_with_target("q", rnd()%2?DISPATCH_QUEUE_CONCURRENT:0, t) : dispatch_queue_create("q", rnd()%2?DISPATCH_QUEUE_CONCURRENT:0);
    dispatch_set_context(q,x); dispatch_set_finalizer_f(q,fin);
    int n = rnd()%6; for (int i=0;i<n;i++){ atomic_fetch_add(&x->pending,1); if (rnd()%5==0) { dispatch_suspend(q); dispatch_async_f(q,x,item); dispatch_resume(q);} else dispatch_async_f(q,x,item); }
    if (rnd()%3==0) { atomic_fetch_add(&x->pending,1); dispatch_sync_f(q,x,item); }
    dispatch_release(q); if (t) dispatch_release(t);   // last external reference dropped while items may be in flight
  } return 0; }
static void dfree(void *p){ atomic_fetch_add(&destr,1); free(p); }
static void t_data(void){ int made=0; for (int r=0;r<3000;r++){ char *b = malloc(8); dispatch_data_t d = dispatch_data_create_f(b,8,NULL,dfree); made++;
    dispatch_data_t s = dispatch_data_create_subrange(d,1,5), c = dispatch_data_create_concat(s,d), m = dispatch_data_create_map(c,NULL,NULL);
    dispatch_data_t arr[4]={d,s,c,m}; for (int i=3;i>0;i--){ int j=rnd()%(i+1); dispatch_data_t tmp=arr[i]; arr[i]=arr[j]; arr[j]=tmp; }
    for (int i=0;i<4;i++){ if (i==3 && atomic_load(&destr)!=made-1) { /* destructor is async on a queue; can't assert not-yet strictly */ } dispatch_release(arr[i]); } }
  for (int w=0;w<3000 && atomic_load(&destr)<made;w++) usleep(1000);
  if (atomic_load(&destr)!=made) V("data destructors %d of %d\n", atomic_load(&destr), made); printf("data destructors ok %d\n", made); }
static uint64_t nowns(clockid_t c){ struct timespec ts; clock_gettime(c,&ts); return (uint64_t)ts.tv_sec*1000000000ull+ts.tv_nsec; }
static atomic_int fired;
static void t_timers(void){ int N=300; dispatch_queue_t q = dispatch_get_global_queue(0,0);
  for (int i=0;i<N;i++){ int64_t d = (int64_t)(rnd()%200000000); int wall = rnd()%2;
    dispatch_time_t when = wall ? dispatch_walltime(NULL,d) : dispatch_time(DISPATCH_TIME_NOW,d);
    uint64_t deadline = (wall ? nowns(CLOCK_REALTIME) : nowns(CLOCK_MONOTONIC)); // lower bound: computed before? need after -> take before to be safe (deadline >= this + d - small)
    deadline += (uint64_t)d;
    // lower bound only: 'when' was computed before this clock read, so real deadline <= deadline; we assert fire >= deadline - 1ms slack for the read gap
    dispatch_after(when, q, ^{ uint64_t n = wall ? nowns(CLOCK_REALTIME) : nowns(CLOCK_MONOTONIC); if (n + 1000000 < deadline) V("dispatch_after fired early by %ld ns\n", (long)(deadline-n)); atomic_fetch_add(&fired,1); }); }
  for (int w=0; w<4000 && atomic_load(&fired)<N; w++) usleep(1000);
  if (atomic_load(&fired)!=N) V("dispatch_after fired %d of %d\n", atomic_load(&fired), N); printf("timers ok %d\n", atomic_load(&fired)); }
int main(int argc, char **argv){ seed = argc>1?strtoull(argv[1],0,0):1;
  pthread_t th[6]; for(int i=0;i<6;i++) pthread_create(&th[i],0,lifer,0); for(int i=0;i<6;i++) pthread_join(th[i],0);
  for (int w=0; w<5000 && atomic_load(&finals)<6*1500; w++) usleep(1000);
  if (atomic_load(&finals)!=6*1500) V("finalizers %d of %d\n", atomic_load(&finals), 6*1500);
  printf("lifetime ok finals=%d items=%d\n", atomic_load(&finals), atomic_load(&items));
  t_data(); t_timers();
  printf("viol %d\n", atomic_load(&viol)); return 0; }
