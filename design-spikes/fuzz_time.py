import ctypes, random
lib = ctypes.CDLL('/repo/_build/libdispatch.so')
lib.dispatch_time.restype=ctypes.c_uint64; lib.dispatch_time.argtypes=[ctypes.c_uint64, ctypes.c_int64]
M=2**64; FOREVER=M-1; MAXV=2**62-1
def dec(t):
    if t==FOREVER: return ('forever',None)
    if t>=2**63:
        if t & 2**62:
            if t==M-2: return ('wall','now')
            v=M-t
            return ('wall', v) if v<=MAXV else ('forever',None)
        v=t-2**63
        if v>MAXV: return ('forever',None)
        return ('mono', v if v else 'now')
    if t>MAXV: return ('forever',None)
    return ('up', t if t else 'now')
rnd=random.Random(7)
specials=[0,1,2,3,MAXV-1,MAXV,MAXV+1,2**62,2**63-1,2**63,2**63+1,2**63+MAXV,2**63+2**62-1,2**63+2**62,2**63+2**62+1,M-MAXV-1,M-MAXV,M-MAXV+1,M-3,M-2,M-1]
deltas=[0,1,-1,2,-2,2**62-2,2**62-1,2**62,-(2**62),2**63-1,-(2**63),-(2**63)+1,10**9]
bad=0;n=0
def chk(b,d):
    global bad,n
    n+=1
    r=lib.dispatch_time(b,d)
    cb,vb=dec(b); cr,vr=dec(r)
    if cb=='forever':
        ok = (r==FOREVER)
    elif vb=='now':
        ok = cr in (cb,'forever')   # can't know now; clock must be preserved
    else:
        s=vb+d
        if s>=MAXV: ok=(r==FOREVER)       # representable <= 2^62-2
        elif s<1 or (cb=='wall' and s<=2): ok = (cr==cb)   # elapsed time on same clock (value small / now)
        else: ok = (cr==cb and vr==s)
    if not ok:
        bad+=1
        if bad<15: print('MISMATCH base=%#x delta=%d -> %#x  (%s,%s)->(%s,%s)'%(b,d,r,cb,vb,cr,vr))
for b in specials:
    for d in deltas: chk(b,d)
for _ in range(300000):
    cls=rnd.randrange(4)
    v=rnd.choice([rnd.randrange(1,2**62), rnd.randrange(1,1000), 2**62-rnd.randrange(1,1000)])
    b=[v, v+2**63, (M-v)%M, rnd.randrange(M)][cls]
    d=rnd.choice([rnd.randrange(-2**63,2**63), rnd.randrange(-1000,1000), 2**62-rnd.randrange(2000), -(2**62)+rnd.randrange(2000)])
    chk(b,d)
print('checked',n,'bad',bad)
