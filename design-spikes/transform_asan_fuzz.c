// ASan fuzz of dispatch_data_create_with_transform: random bytes, random fragmentation, all format pairs
#include <dispatch/dispatch.h>
#include <stdio.h>
#include <stdlib.h>
#include <string.h>
#include <stdint.h>
struct dispatch_data_format_type_s; typedef const struct dispatch_data_format_type_s *fmt_t;
extern const struct dispatch_data_format_type_s _dispatch_data_format_type_none, _dispatch_data_format_type_base32, _dispatch_data_format_type_base32hex, _dispatch_data_format_type_base64, _dispatch_data_format_type_utf8, _dispatch_data_format_type_utf16le, _dispatch_data_format_type_utf16be, _dispatch_data_format_type_utf_any;
dispatch_data_t dispatch_data_create_with_transform(dispatch_data_t, fmt_t, fmt_t);
static uint64_t st; static uint64_t rnd(void){ st ^= st<<13; st ^= st>>7; st ^= st<<17; return st; }
static const char *names[] = {"none","base32","base32hex","base64","utf8","utf16le","utf16be","utfany"};
int main(int argc, char **argv){
  st = argc>1 ? strtoull(argv[1],0,0) : 88172645463325252ull; long N = argc>2 ? atol(argv[2]) : 100000; int only = argc>3 ? atoi(argv[3]) : -1;
  fmt_t F[] = {&_dispatch_data_format_type_none,&_dispatch_data_format_type_base32,&_dispatch_data_format_type_base32hex,&_dispatch_data_format_type_base64,&_dispatch_data_format_type_utf8,&_dispatch_data_format_type_utf16le,&_dispatch_data_format_type_utf16be,&_dispatch_data_format_type_utf_any};
  static const char *alph[] = { NULL, "ABCDEFGHIJKLMNOPQRSTUVWXYZ234567= \n", "0123456789ABCDEFGHIJKLMNOPQRSTUV= \n", "ABCDabcd0189+/= \n" };
  for (long it=0; it<N; it++){
    int a = rnd()%8, c = rnd()%7; if (only>=0) a = only;
    size_t n = 1 + rnd()%24; unsigned char buf[32];
    for (size_t i=0;i<n;i++){ if (a>=1 && a<=3 && rnd()%8) buf[i] = alph[a][rnd()%strlen(alph[a])]; else if (a>=4 && rnd()%2) buf[i] = "aZ\xc3\xa9\xe2\x82\xac\xf0\x9f\x98\x80\xed\xa0\x80\xff\xfe\x00\xd8\xdc"[rnd()%20]; else buf[i] = rnd(); }
    dispatch_data_t d = dispatch_data_empty; size_t off = 0;
    while (off < n){ size_t len = 1 + rnd()%(n-off); if (rnd()%3==0) len = n-off; dispatch_data_t p = dispatch_data_create(buf+off,len,NULL,DISPATCH_DATA_DESTRUCTOR_DEFAULT); dispatch_data_t cc = dispatch_data_create_concat(d,p); dispatch_release(p); dispatch_release(d); d = cc; off += len; }
    fprintf(stderr,"CASE %ld %s->%s n=%zu\n", it, names[a], names[c], n);
    dispatch_data_t r = dispatch_data_create_with_transform(d, F[a], F[c]);
    if (r) { size_t sz = dispatch_data_get_size(r); if (sz > (1u<<20)) { fprintf(stderr,"BOGUS SIZE %zu\n", sz); } else { const void *p; size_t m; dispatch_data_t mm = dispatch_data_create_map(r,&p,&m); unsigned s=0; for(size_t i=0;i<m;i++) s+=((unsigned char*)p)[i]; if (mm) dispatch_release(mm); (void)s; } }
    dispatch_release(d);
  }
  return 0; }
