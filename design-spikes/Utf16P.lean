/-! C20 (UTF part): code-shaped model of `_dispatch_transform_from_utf16` (src/transform.c:403)
    over a list of regions: `skip`, odd-sized regions with a one-unit look-ahead, surrogate pairs
    whose second half is in the next region.  Outcomes: `ok out skip wide` (`wide` counts the
    8-byte loads from a 2-byte mapping, F6), `fail` (NULL), `oob` (a `src[i]` load past the end of
    the region); both also carry the wide-load count. -/
namespace Utf16P

inductive Res where
  | ok (out : List Nat) (skip : Nat) (wide : Nat)
  | fail (wide : Nat)
  | oob (wide : Nat)
  deriving Repr, DecidableEq

def u16 (be : Bool) (a b : Nat) : Nat := if be then 256 * a + b else a + 256 * b

/-- `swap_to_host(src[k])` on the bytes from `src` to the end of the region -/
def rd16 (be : Bool) (src : List Nat) (k : Nat) : Option Nat :=
  match src.drop (2 * k) with
  | a :: b :: _ => some (u16 be a b)
  | _ => none

/-- `_dispatch_data_subrange_map(data, &p, pos, 2)` followed by the 16-bit value at `p` -/
def look (be : Bool) (flat : List Nat) (pos : Nat) : Option Nat :=
  match flat.drop pos with
  | a :: b :: _ => some (u16 be a b)
  | _ => none

def enc8 (w : Nat) : List Nat :=
  if w < 0x80 then [w]
  else if w < 0x800 then [0xc0 + w / 64, 0x80 + w % 64]
  else if w < 0x10000 then [0xe0 + w / 4096, 0x80 + w / 64 % 64, 0x80 + w % 64]
  else if w < 0x200000 then [0xf0 + w / 262144, 0x80 + w / 4096 % 64, 0x80 + w / 64 % 64, 0x80 + w % 64]
  else []

def inner (be : Bool) (flat : List Nat) (off size max : Nat) (src : List Nat) :
    Nat → Nat → List Nat → Nat → Nat → Res
  | 0, _, out, skip, wide => .ok out skip wide
  | fuel + 1, i, out, skip, wide =>
    if max ≤ i then .ok out skip wide else
    -- first unit
    let first : Option (Option Nat × Nat × Nat) :=           -- (ch or oob, skip, wide)
      if i + 1 = max ∧ size / 2 < max then
        match look be flat (off + 2 * i) with
        | none => none
        | some ch => some (some ch, skip + 1, wide + 1)
      else some (rd16 be src i, skip, wide)
    match first with
    | none => .fail wide
    | some (none, _, wide) => .oob wide
    | some (some ch, skip, wide) =>
      if ch = 0xfffe ∧ off = 0 ∧ i = 0 then .fail wide
      else if ch = 0xfeff ∧ off = 0 ∧ i = 0 then inner be flat off size max src fuel (i + 1) out skip wide
      else if 0xd800 ≤ ch ∧ ch ≤ 0xdbff then
        let i := i + 1
        let second : Option (Option Nat × Nat) :=
          if max ≤ i then
            match look be flat (off + 2 * i) with
            | none => none
            | some c2 => some (some c2, skip + 2)
          else some (rd16 be src i, skip)
        match second with
        | none => .fail wide
        | some (none, _) => .oob wide
        | some (some c2, skip) =>
          if ¬ (0xdc00 ≤ c2 ∧ c2 ≤ 0xdfff) then .fail wide
          else inner be flat off size max src fuel (i + 1)
                 (out ++ enc8 ((ch - 0xd800) * 1024 + c2 % 1024 + 0x10000)) skip wide
      else if 0xdc00 ≤ ch ∧ ch ≤ 0xdfff then .fail wide
      else inner be flat off size max src fuel (i + 1) (out ++ enc8 ch) skip wide

def region (be : Bool) (flat : List Nat) (off : Nat) (r : List Nat) (out : List Nat) (skip wide : Nat) : Res :=
  if r.length ≤ skip then .ok out (skip - r.length) wide
  else
    let size := r.length - skip
    let max := size / 2 + size % 2
    inner be flat off size max (r.drop skip) (max + 1) 0 out 0 wide

def regions (be : Bool) (flat : List Nat) : Nat → List (List Nat) → List Nat → Nat → Nat → Res
  | _, [], out, skip, wide => .ok out skip wide
  | off, r :: rs, out, skip, wide =>
    match region be flat off r out skip wide with
    | .ok out' skip' wide' => regions be flat (off + r.length) rs out' skip' wide'
    | e => e

def fromUtf16 (be : Bool) (rs : List (List Nat)) : Res := regions be rs.flatten 0 rs [] 0 0

/-- `_dispatch_transform_to_utf8_without_bom`: the `encode` hook of the UTF-8 format, applied by
    dispatch_data_create_with_transform to the result of `fromUtf16` -/
def withoutBom (out : List Nat) : List Nat :=
  if out.take 3 = [0xef, 0xbb, 0xbf] then out.drop 3 else out

/-- F5: "abcd" (UTF-16LE) cut 1|4|3: the look-ahead offset ignores the applied skip -/
theorem F5_wrong_text :
    fromUtf16 false [[0x61], [0x00, 0x62, 0x00, 0x63], [0x00, 0x64, 0x00]] ≠
    fromUtf16 false [[0x61, 0x00, 0x62, 0x00, 0x63, 0x00, 0x64, 0x00]] := by decide

/-- F6: every odd-sized region does a wide load -/
theorem F6_wide_load : fromUtf16 false [[0x61], [0x00]] = .ok [0x61] 0 1 := by decide

/-- F13: a high surrogate followed by the odd last byte of the region: `src[i]` is loaded one
    byte past the region -/
theorem F13_over_read : fromUtf16 false [[0x3d, 0xd8, 0x00], [0xde]] = .oob 0 := by decide

#print axioms F13_over_read
end Utf16P
