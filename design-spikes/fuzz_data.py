import ctypes, random, sys
lib = ctypes.CDLL('/repo/_build/libdispatch.so')
vp = ctypes.c_void_p; sz = ctypes.c_size_t
lib.dispatch_data_create.restype = vp; lib.dispatch_data_create.argtypes = [ctypes.c_char_p, sz, vp, vp]
lib.dispatch_data_create_concat.restype = vp; lib.dispatch_data_create_concat.argtypes = [vp, vp]
lib.dispatch_data_create_subrange.restype = vp; lib.dispatch_data_create_subrange.argtypes = [vp, sz, sz]
lib.dispatch_data_get_size.restype = sz; lib.dispatch_data_get_size.argtypes = [vp]
lib.dispatch_data_create_map.restype = vp; lib.dispatch_data_create_map.argtypes = [vp, ctypes.POINTER(vp), ctypes.POINTER(sz)]
lib.dispatch_data_copy_region.restype = vp; lib.dispatch_data_copy_region.argtypes = [vp, sz, ctypes.POINTER(sz)]
APPLIER = ctypes.CFUNCTYPE(ctypes.c_bool, vp, vp, sz, vp, sz)
lib.dispatch_data_apply_f.restype = ctypes.c_bool; lib.dispatch_data_apply_f.argtypes = [vp, vp, APPLIER]
lib.dispatch_release.argtypes=[vp]
empty = vp.in_dll(lib, '_dispatch_data_empty')
EMPTY = ctypes.addressof(empty)
def contents(d):
    out=[]
    def ap(ctx, region, off, buf, n):
        out.append((off, ctypes.string_at(buf, n))); return True
    cb=APPLIER(ap)
    lib.dispatch_data_apply_f(d, None, cb)
    return out
def mapped(d):
    p=vp(); n=sz()
    m=lib.dispatch_data_create_map(d, ctypes.byref(p), ctypes.byref(n))
    b=ctypes.string_at(p.value, n.value) if n.value else b''
    return b
seed=int(sys.argv[1]) if len(sys.argv)>1 else 1
rnd=random.Random(seed)
objs=[(EMPTY,b'')]
bad=0
for it in range(int(sys.argv[2]) if len(sys.argv)>2 else 20000):
    op=rnd.choice(['leaf','concat','concat','sub','sub','sub','region','check'])
    if op=='leaf':
        n=rnd.choice([0,1,2,3,5,8,16]); b=bytes(rnd.randrange(256) for _ in range(n))
        d=lib.dispatch_data_create(b,n,None,None)  # DEFAULT destructor = copy
        objs.append((d,b))
    elif op=='concat':
        (a,ba),(c,bc)=rnd.choice(objs),rnd.choice(objs)
        d=lib.dispatch_data_create_concat(a,c); objs.append((d,ba+bc))
    elif op=='sub':
        (a,ba)=rnd.choice(objs)
        L=len(ba)
        off=rnd.choice([0,1,L,L+1,max(0,L-1),rnd.randrange(L+2)])
        ln=rnd.choice([0,1,L,L+5,2**64-1,rnd.randrange(L+3)])
        d=lib.dispatch_data_create_subrange(a,off,ln)
        exp=ba[off:off+ln] if off<L else b''
        objs.append((d,exp))
    elif op=='region':
        (a,ba)=rnd.choice(objs); L=len(ba)
        loc=rnd.choice([0,L,max(0,L-1),rnd.randrange(L+2)])
        o=sz(12345)
        r=lib.dispatch_data_copy_region(a,loc,ctypes.byref(o))
        rb=mapped(r) if r else None
        if loc>=L:
            ok = (o.value==L and lib.dispatch_data_get_size(r)==0)
        else:
            ok = (o.value<=loc<o.value+len(rb) and ba[o.value:o.value+len(rb)]==rb)
        if not ok:
            print('REGION MISMATCH', seed, it, loc, L, o.value, rb); bad+=1
    d,b=objs[-1]
    if lib.dispatch_data_get_size(d)!=len(b): print('SIZE MISMATCH',seed,it,op,lib.dispatch_data_get_size(d),len(b)); bad+=1
    c=contents(d)
    pos=0; ok=True
    for off,chunk in c:
        if off!=pos or len(chunk)==0: ok=False
        pos+=len(chunk)
    if b''.join(x for _,x in c)!=b or not ok: print('APPLY MISMATCH',seed,it,op,c,b); bad+=1
    if mapped(d)!=b: print('MAP MISMATCH',seed,it,op); bad+=1
    if len(objs)>60: objs=objs[:1]+rnd.sample(objs[1:],30)
    if bad>5: break
print('seed',seed,'done bad=',bad)
