// L-fn prototype for dispatch I/O: same "I" line protocol as the Lean driver; read() on the pipe is
// interposed to cap what each call returns and to log the requested length.
#define _GNU_SOURCE
#include <dispatch/dispatch.h>
#include <stdio.h>
#include <stdlib.h>
#include <string.h>
#include <unistd.h>
#include <errno.h>
#include <dlfcn.h>
#include <pthread.h>
static int target_fd = -1; static long caps[256]; static int ncaps, kread;
static char rlog[1<<16]; static size_t rlen; static pthread_mutex_t mu = PTHREAD_MUTEX_INITIALIZER;
ssize_t read(int fd, void *buf, size_t n){
  static ssize_t (*real)(int,void*,size_t); if(!real) real = dlsym(RTLD_NEXT,"read");
  if (fd != target_fd) return real(fd,buf,n);
  pthread_mutex_lock(&mu);
  size_t want = n; long cap = kread < ncaps ? caps[kread] : 1000000000L; kread++;
  if ((long)want > cap) want = (size_t)cap;
  ssize_t r; do { r = real(fd,buf,want); } while (r < 0 && errno == EINTR);
  rlen += (size_t)snprintf(rlog+rlen, sizeof rlog - rlen, "%s%zu:%zd", rlen?",":"", n, r);
  pthread_mutex_unlock(&mu);
  return r; }
static char clog[1<<18]; static size_t clen;
int main(void){
  char line[4096];
  dispatch_queue_t q = dispatch_queue_create("h", NULL);
  while (fgets(line,sizeof line,stdin)){
    char *t = strtok(line," \n"); if(!t||strcmp(t,"I")){ puts("bad-op"); continue; }
    long length = atol(strtok(NULL," \n")), low = atol(strtok(NULL," \n")), high = atol(strtok(NULL," \n")); long n = atol(strtok(NULL," \n"));
    ncaps = 0; kread = 0; rlen = 0; clen = 0; rlog[0]=0; clog[0]=0;
    while ((t = strtok(NULL," \n"))) caps[ncaps++] = atol(t);
    int p[2]; if (pipe(p)) return 2;
    unsigned char *pay = malloc((size_t)n+1); for (long i=0;i<n;i++) pay[i]=(unsigned char)(i%251);
    if (n) { if (write(p[1],pay,(size_t)n) != n) return 3; } close(p[1]); free(pay);
    target_fd = p[0];
    dispatch_semaphore_t s = dispatch_semaphore_create(0);
    dispatch_io_t ch = dispatch_io_create(DISPATCH_IO_STREAM, p[0], q, ^(int e){ (void)e; });
    if (high >= 0) dispatch_io_set_high_water(ch,(size_t)high);
    if (low >= 0) dispatch_io_set_low_water(ch,(size_t)low);
    dispatch_io_read(ch, 0, length < 0 ? SIZE_MAX : (size_t)length, q, ^(bool done, dispatch_data_t d, int err){
      size_t sz = d ? dispatch_data_get_size(d) : 0;
      clen += (size_t)snprintf(clog+clen, sizeof clog - clen, "%s%d:%zu:%d:", clen?"|":"", done?1:0, sz, err);
      if (!sz) clen += (size_t)snprintf(clog+clen, sizeof clog - clen, "-");
      else { const void *b; size_t m; dispatch_data_t mp = dispatch_data_create_map(d,&b,&m);
        for (size_t i=0;i<m;i++) clen += (size_t)snprintf(clog+clen, sizeof clog - clen, "%02x", ((const unsigned char*)b)[i]);
        dispatch_release(mp); }
      if (done) dispatch_semaphore_signal(s); });
    dispatch_semaphore_wait(s, DISPATCH_TIME_FOREVER);
    dispatch_io_close(ch, 0); dispatch_release(ch);
    pthread_mutex_lock(&mu); target_fd = -1; pthread_mutex_unlock(&mu);
    printf("reads=%s calls=%s\n", rlog, clog); fflush(stdout);
    close(p[0]);
  }
  return 0; }
