import random, sys
rnd = random.Random(int(sys.argv[1]) if len(sys.argv) > 1 else 1)
N = int(sys.argv[2]) if len(sys.argv) > 2 else 30000
edge = [0,1,0x41,0x7f,0x80,0x7ff,0x800,0xd7ff,0xe000,0xfeff,0xfffe,0xffff,0x10000,0x1f600,0x10ffff]
def scalar():
    k = rnd.randrange(6)
    if k == 0: return rnd.choice(edge)
    if k == 1: return rnd.randrange(0x80)
    if k == 2: return rnd.randrange(0x80, 0x800)
    if k == 3:
        c = rnd.randrange(0x800, 0x10000)
        return c if not (0xd800 <= c < 0xe000) else 0x4e2d
    if k == 4: return rnd.randrange(0x10000, 0x110000)
    return rnd.randrange(0x20, 0x7f)
def units(c):
    if c < 0x10000: return [c]
    c -= 0x10000; return [0xd800 + (c >> 10), 0xdc00 + (c & 0x3ff)]
def split(b):
    if len(b) < 2: return [b]
    k = rnd.randrange(4)
    if k == 0: return [b]
    cuts = sorted(set(rnd.randrange(1, len(b)) for _ in range(rnd.choice([1,1,2,3,5,len(b)]))))
    if k == 3: cuts = list(range(1, len(b)))
    parts = []; last = 0
    for c in cuts: parts.append(b[last:c]); last = c
    parts.append(b[last:]); return parts
out = []
for _ in range(N):
    be = rnd.random() < 0.3
    us = []
    if rnd.random() < 0.2: us.append(rnd.choice([0xfeff, 0xfeff, 0xfffe]))
    for _ in range(rnd.randrange(1, 8)): us += units(scalar())
    if rnd.random() < 0.25:
        k = rnd.randrange(4)
        if k == 0: us.insert(rnd.randrange(len(us)+1), rnd.randrange(0xd800, 0xe000))   # lone surrogate
        elif k == 1: us = us[:rnd.randrange(1, len(us)+1)]
        elif k == 2: us = [rnd.randrange(0x10000) for _ in range(rnd.randrange(1, 6))]
        else: us.append(rnd.randrange(0xd800, 0xdc00))                                     # high surrogate at the end
    b = b"".join(u.to_bytes(2, 'big' if be else 'little') for u in us)
    if rnd.random() < 0.1: b = b[:-1]                                                       # odd total size
    if not b: b = b"a"
    out.append(("U8B " if be else "U8L ") + "|".join(p.hex() for p in split(b)))
sys.stdout.write("\n".join(out) + "\n")
