#include <dispatch/dispatch.h>
#include <stdio.h>
#include <string.h>
#include <stdlib.h>
extern const struct dispatch_data_format_type_s _dispatch_data_format_type_none, _dispatch_data_format_type_base32, _dispatch_data_format_type_base32hex, _dispatch_data_format_type_base64, _dispatch_data_format_type_utf8, _dispatch_data_format_type_utf16le, _dispatch_data_format_type_utf16be;
dispatch_data_t dispatch_data_create_with_transform(dispatch_data_t, const struct dispatch_data_format_type_s*, const struct dispatch_data_format_type_s*);
#define F(x) (&_dispatch_data_format_type_##x)
static dispatch_data_t frag(const void *b, size_t n, const size_t *cuts, int nc){
  dispatch_data_t d = dispatch_data_empty; size_t off=0;
  for (int i=0;i<=nc;i++){ size_t end = i<nc?cuts[i]:n; if(end>off){ dispatch_data_t p = dispatch_data_create((char*)b+off,end-off,NULL,DISPATCH_DATA_DESTRUCTOR_DEFAULT); dispatch_data_t c = dispatch_data_create_concat(d,p); d=c; off=end;} }
  return d;
}
static void show(const char *tag, dispatch_data_t d){
  if(!d){ printf("%s: NULL\n",tag); return;} size_t n; const void *p; dispatch_data_t m = dispatch_data_create_map(d,&p,&n);
  printf("%s: size=%zu [", tag, dispatch_data_get_size(d)); if (n < 64) for(size_t i=0;i<n;i++) printf("%02x",((unsigned char*)p)[i]); printf("]\n");
}
int main(void){
  const char *s="foobar";
  dispatch_data_t d = dispatch_data_create(s,6,NULL,DISPATCH_DATA_DESTRUCTOR_DEFAULT);
  dispatch_data_t e = dispatch_data_create_with_transform(d,F(none),F(base32hex)); show("b32hex enc",e);
  dispatch_data_t r = dispatch_data_create_with_transform(e,F(base32hex),F(none)); show("b32hex dec",r);
  e = dispatch_data_create_with_transform(d,F(none),F(base32)); show("b32 enc",e);
  r = dispatch_data_create_with_transform(e,F(base32),F(none)); show("b32 dec",r);
  dispatch_data_t bad = dispatch_data_create("====",4,NULL,DISPATCH_DATA_DESTRUCTOR_DEFAULT);
  r = dispatch_data_create_with_transform(bad,F(base64),F(none)); printf("b64 '====': %s size=%zu\n", r?"obj":"NULL", r?dispatch_data_get_size(r):0);
  size_t c1[]={4}; dispatch_data_t f = frag("Zm8=\n",5,c1,1);
  r = dispatch_data_create_with_transform(f,F(base64),F(none)); printf("b64 'Zm8='|'\\n': %s size=%zu\n", r?"obj":"NULL", r?dispatch_data_get_size(r):0);
  // UTF16LE "abc" (6 bytes) split as 1|4|1
  unsigned char u16[] = {'a',0,'b',0,'c',0,'d',0};
  size_t c2[]={1,5}; f = frag(u16,8,c2,2);
  r = dispatch_data_create_with_transform(f,F(utf16le),F(utf8)); show("utf16 1|4|3 -> utf8", r);
  dispatch_data_t whole = dispatch_data_create(u16,8,NULL,DISPATCH_DATA_DESTRUCTOR_DEFAULT);
  r = dispatch_data_create_with_transform(whole,F(utf16le),F(utf8)); show("utf16 whole -> utf8", r);
  unsigned char u8[] = {0xed,0xbf,0xbf};
  d = dispatch_data_create(u8,3,NULL,DISPATCH_DATA_DESTRUCTOR_DEFAULT);
  e = dispatch_data_create_with_transform(d,F(utf8),F(utf16le)); show("utf8 EDBFBF -> utf16", e);
  if (e) { r = dispatch_data_create_with_transform(e,F(utf16le),F(utf8)); show(" back", r); }
  return 0;
}
