// C03 oracle prototype: random hierarchies with a serial bottom; async/sync at every level; overlap + per-serial FIFO
#define _GNU_SOURCE
#include <dispatch/dispatch.h>
#include <stdio.h>
#include <stdlib.h>
#include <stdint.h>
#include <unistd.h>
#include <pthread.h>
#include <sched.h>
#include <stdatomic.h>
static __thread uint64_t rng; static uint64_t seed;
static inline uint64_t rnd(void){ if(!rng) rng = seed ^ (uint64_t)pthread_self()*0x9e3779b97f4a7c15ull; rng ^= rng<<13; rng ^= rng>>7; rng ^= rng<<17; return rng; }
#define MAXQ 12
static dispatch_queue_t Q[MAXQ]; static int serial[MAXQ], nq;
static atomic_int in_flight, viol, done_items; static atomic_long stamp;
typedef struct { int q; long seq; } item_t;
static atomic_long last_seq[MAXQ][64];  // per (queue, submitting thread) last executed seq
static __thread int tix;
typedef struct { int q; int thr; long seq; } it2;
static void work(void *c){ it2 *it = c;
  int r = atomic_fetch_add(&in_flight,1);
  if (r != 0) { atomic_fetch_add(&viol,1); fprintf(stderr,"OVERLAP in hierarchy (q%d) r=%d\n", it->q, r); }
  if (serial[it->q]) { long prev = atomic_exchange(&last_seq[it->q][it->thr], it->seq); if (prev >= it->seq) { atomic_fetch_add(&viol,1); fprintf(stderr,"FIFO violation q%d thr%d prev=%ld seq=%ld\n", it->q, it->thr, prev, it->seq); } }
  if (rnd()%4==0) sched_yield();
  atomic_fetch_sub(&in_flight,1); atomic_fetch_add(&done_items,1); free(it); }
static int nops;
static void *client(void *a){ tix = (int)(intptr_t)a; long seq[MAXQ] = {0};
  for (int i=0;i<nops;i++){ int q = rnd()%nq; it2 *it = malloc(sizeof *it); it->q=q; it->thr=tix; it->seq=++seq[q];
    switch (rnd()%4){ case 0: case 1: dispatch_async_f(Q[q], it, work); break; case 2: dispatch_sync_f(Q[q], it, work); break; case 3: dispatch_barrier_async_f(Q[q], it, work); break; } }
  return NULL; }
int main(int argc, char **argv){
  seed = argc>1 ? strtoull(argv[1],0,0) : 1; int nthr = argc>2 ? atoi(argv[2]) : 4; nops = argc>3 ? atoi(argv[3]) : 300;
  rng = seed*7+1;
  nq = 3 + rnd()%(MAXQ-3);
  Q[0] = dispatch_queue_create("bottom", DISPATCH_QUEUE_SERIAL); serial[0]=1;
  for (int i=1;i<nq;i++){ int conc = rnd()%2; int parent = rnd()%i; serial[i] = !conc;
    dispatch_queue_attr_t attr = conc ? DISPATCH_QUEUE_CONCURRENT : DISPATCH_QUEUE_SERIAL;
    if (rnd()%3==0) { attr = dispatch_queue_attr_make_initially_inactive(attr); Q[i] = dispatch_queue_create("q", attr); dispatch_set_target_queue(Q[i], Q[parent]); dispatch_activate(Q[i]); }
    else Q[i] = dispatch_queue_create_with_target("q", attr, Q[parent]); }
  pthread_t th[64]; for (int i=0;i<nthr;i++) pthread_create(&th[i],0,client,(void*)(intptr_t)i);
  for (int i=0;i<nthr;i++) pthread_join(th[i],0);
  for (int w=0; w<10000 && atomic_load(&done_items) < nthr*nops; w++) usleep(1000);
  printf("seed %lu nq %d done %d of %d viol %d\n", (unsigned long)seed, nq, atomic_load(&done_items), nthr*nops, atomic_load(&viol));
  return atomic_load(&viol) || atomic_load(&done_items) < nthr*nops; }
