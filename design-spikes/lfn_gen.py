import random, sys
rnd = random.Random(int(sys.argv[1]) if len(sys.argv) > 1 else 1)
M = 2**64; MAXV = 2**62 - 1
out = []
# --- dispatch_time: non-"now" bases on every clock, boundary-biased
specials = [1,2,3,MAXV-1,MAXV,MAXV+1,2**62,2**63-1,2**63+1,2**63+MAXV,2**63+2**62-1,2**63+2**62,2**63+2**62+1,M-MAXV-1,M-MAXV,M-MAXV+1,M-4,M-3,M-1]
deltas = [0,1,-1,2,-2,3,-3,2**62-2,2**62-1,2**62,-(2**62),2**63-1,-(2**63),-(2**63)+1,10**9,-(10**9)]
for b in specials:
    for d in deltas: out.append(f"T {b} {d}")
def rbase():
    k = rnd.randrange(6)
    if k == 0: return rnd.randrange(1, MAXV+1)
    if k == 1: return 2**63 + rnd.randrange(1, MAXV+1)
    if k == 2: return M - rnd.randrange(3, MAXV+1)
    if k == 3: return rnd.choice(specials)
    if k == 4: return rnd.randrange(1, M-2) if rnd.random() < .5 else M - rnd.randrange(3, 200)
    return rnd.randrange(1, 1000)
def rdelta():
    k = rnd.randrange(5)
    if k == 0: return rnd.randrange(-2**63, 2**63)
    if k == 1: return rnd.choice(deltas)
    if k == 2: return rnd.randrange(-1000, 1000)
    if k == 3: return rnd.choice([1,-1]) * (2**rnd.randrange(1,63) + rnd.randrange(-2,3))
    return rnd.randrange(-2**62, 2**62)
for _ in range(60000):
    b = rbase()
    if b in (0, M-2, 2**63): continue
    out.append(f"T {b} {rdelta()}")
# --- dispatch_walltime with a timespec
for _ in range(20000):
    k = rnd.randrange(4)
    b = [rnd.randrange(0, 2**63), rnd.randrange(0, 5), rnd.randrange(2**62-5, 2**62+5), rnd.randrange(2**63-10**10, 2**63)][k]
    d = rdelta()
    out.append(f"W {b} {d}")
# --- base64
import base64
def hx(b): return b.hex() if b else "-"
for _ in range(10000):
    n = rnd.choice([0,1,2,3,4,5,6,7,8,9,10,15,16,17,30,31,32,40])
    out.append("E " + hx(bytes(rnd.randrange(256) for _ in range(n))))
alphabet = b"ABCDEFGHIJKLMNOPQRSTUVWXYZabcdefghijklmnopqrstuvwxyz0123456789+/"
for _ in range(10000):
    n = rnd.randrange(0, 24)
    enc = bytearray(base64.b64encode(bytes(rnd.randrange(256) for _ in range(n))))
    k = rnd.randrange(6)
    if k == 1 and enc:   # whitespace
        for _ in range(rnd.randrange(1,4)): enc.insert(rnd.randrange(len(enc)+1), rnd.choice(b" \t\n"))
    elif k == 2 and enc: # invalid char
        enc[rnd.randrange(len(enc))] = rnd.choice(b"!#$%-_.~\x00\x7f\x80\xff{")
    elif k == 3 and enc: # misplaced padding
        enc[rnd.randrange(len(enc))] = ord('=')
    elif k == 4:         # truncated / odd length
        enc = enc[:rnd.randrange(len(enc)+1)]
    elif k == 5:
        enc = bytearray(rnd.choice(alphabet + b"= \n") for _ in range(rnd.randrange(1, 12)))
    out.append("D " + hx(bytes(enc)))
# --- attribute constructors: every table slot
for idx in range(4032):
    out.append(f"AI {idx}"); out.append(f"AO {idx} 0"); out.append(f"AO {idx} 1")
    for f in range(3): out.append(f"AF {idx} {f}")
    for _ in range(8): out.append(f"AQ {idx} {rnd.randrange(7)} {rnd.randrange(16)}")
# --- dispatch_data programs
for _ in range(6000):
    toks = []; depth = 0; size_hint = 0
    for _ in range(rnd.randrange(1, 14)):
        k = rnd.randrange(10)
        if depth == 0 or k < 3:
            n = rnd.choice([0,1,1,2,3,4,5,8,12]); toks.append(f"L{n}"); depth += 1; size_hint += n
        elif k < 6 and depth >= 2:
            toks.append("C"); depth -= 1
        elif k < 8:
            o = rnd.choice([0,0,1,2,size_hint//2,max(size_hint-1,0),size_hint,size_hint+1,rnd.randrange(0,size_hint+2)])
            l = rnd.choice([0,1,2,size_hint,size_hint+3,max(size_hint-o,0),rnd.randrange(0,size_hint+2)])
            toks.append(f"S{o},{l}")
        elif k == 8 and depth < 8:
            toks.append("D"); depth += 1
        else:
            toks.append(f"R{rnd.randrange(0,size_hint+2)}")
    while depth >= 2 and rnd.random() < .7: toks.append("C"); depth -= 1
    out.append("X " + " ".join(toks))
rnd.shuffle(out)
sys.stdout.write("\n".join(out) + "\n")
