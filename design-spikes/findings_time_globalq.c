#include <dispatch/dispatch.h>
#include <stdio.h>
#include <time.h>
int main(void){
  long ids[] = {2,0,-2,-32768, 0x21,0x19,0x15,0x11,0x09,0x05,0x00, 7, 1};
  for (unsigned i=0;i<sizeof(ids)/sizeof(*ids);i++){
    dispatch_queue_t q = dispatch_get_global_queue(ids[i],0);
    dispatch_queue_t qo = dispatch_get_global_queue(ids[i],2);
    printf("%#lx -> %s | %s\n", ids[i], q?dispatch_queue_get_label(q):"NULL", qo?dispatch_queue_get_label(qo):"NULL");
  }
  struct timespec ts = { .tv_sec = 4700000000LL, .tv_nsec = 0 };
  dispatch_time_t t = dispatch_walltime(&ts, 0);
  printf("walltime(4.7e9 s) = %#llx\n", (unsigned long long)t);
  t = dispatch_walltime(NULL, 3000000000000000000LL);
  printf("walltime(now+3e18) = %#llx\n", (unsigned long long)t);
  t = dispatch_walltime(NULL, INT64_MAX - 1800000000000000000LL);
  printf("walltime(now+(max-1.8e18)) = %#llx\n", (unsigned long long)t);
  t = dispatch_time(0x3fffffffffffffffULL, 0);
  printf("dispatch_time(2^62-1,0) = %#llx\n", (unsigned long long)t);
  t = dispatch_time(0x3ffffffffffffffeULL, 0);
  printf("dispatch_time(2^62-2,0) = %#llx\n", (unsigned long long)t);
  return 0;
}
