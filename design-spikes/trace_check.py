import sys, collections
SUSP=0xfc00000000000000; SIDE=1<<57; INACT=1<<56; NACT=1<<55; INB=1<<54; FULLB=1<<53
WMASK=0x003ffe0000000000; WSHIFT=41; PB=1<<40; DIRTY=1<<39; EMGR=1<<38; ROLE=3<<36; OVR=1<<35; QOS=7<<32
OWNER=0x3fffffff; XFER=0x40000000; ENQ=0x80000000
FULL=0x1000
class D: pass
def dec(x,W):
    d=D(); d.raw=x; d.W=W
    d.susp=(x&SUSP)>>58; d.side=bool(x&SIDE); d.inact=bool(x&INACT); d.nact=bool(x&NACT)
    d.B=bool(x&INB); f=(x&WMASK)>>WSHIFT; d.f=f; d.u=f-(FULL-W); d.pb=bool(x&PB); d.D=bool(x&DIRTY)
    d.emgr=bool(x&EMGR); d.role=(x&ROLE)>>36; d.E=bool(x&ENQ); d.O=x&OWNER; d.xfer=bool(x&XFER)
    d.suspended = x >= NACT
    return d
def runnable(d): return d.raw < FULLB
def show(d): return "susp=%d B=%d u=%d pb=%d D=%d E=%d O=%d%s"%(d.susp,d.B,d.u,d.pb,d.D,d.E,d.O," XFER" if d.xfer else "")
def same(a,b,fields):
    return all(getattr(a,f)==getattr(b,f) for f in fields)
ALL=['susp','side','inact','nact','B','u','pb','D','emgr','role','E','O','xfer']
def lockable(o): return o.pb or o.u==0
def ks(o,n,W):
    c=set(range(0,9))
    for d in (o.u-n.u, o.u-n.u+W-1, o.u-n.u+W, o.u-n.u+1, o.u+W-1-n.u+1):
        if 0<=d<=W: c.add(d)
    return sorted(c)
errs=collections.Counter(); seen=collections.Counter()
def check(func,op,o,n,tid,W):
    """return None if ok else message"""
    W_=W
    if op==4: return None   # failed CAS: no change
    if func=='_dispatch_queue_wakeup':
        ok_enq = (not o.suspended) and not o.E and not o.emgr and o.O==0
        outs=[]
        for dirty in (False,True):
            for want in (True,):
                e = o.E or ok_enq
                outs.append((e, o.D or dirty))
        if (n.E,n.D) in outs and same(o,n,['susp','B','u','pb','O','xfer','emgr','role']): return None
        return "wakeup"
    if func=='_dispatch_queue_drain_try_lock':
        if runnable(o) and o.O==0 and not o.emgr:
            exp_B = lockable(o)
            if n.O==tid and n.u==W and n.B==exp_B and not n.pb and not n.D and n.E==o.E and n.susp==0: return None
            return "try_lock success shape"
        else:
            if n.E==False and o.E and same(o,n,['susp','B','u','pb','D','O','xfer']): return None
            return "try_lock fail shape"
    if func=='_dispatch_queue_try_acquire_barrier_sync_and_suspend':
        if o.u==0 and not (o.B or o.pb or o.D or o.E or o.O or o.susp or o.xfer or o.emgr) and n.B and n.u==W and n.O==tid and not n.D and not n.E: return None
        return "barrier_sync acquire"
    if func=='_dispatch_lane_barrier_sync_invoke_and_complete':
        if o.O==tid and o.B and o.u==W and not(o.E or o.D or o.suspended or o.xfer) and n.O==0 and not n.B and n.u==0 and not n.D and not n.E: return None
        return "barrier_sync fast unlock"
    if func=='_dispatch_queue_try_reserve_sync_width':
        if (not o.B) and (not o.suspended) and not o.D and not o.pb and n.u==o.u+1 and same(o,n,['susp','B','pb','D','E','O']): return None
        return "reserve_sync_width"
    if func=='_dispatch_queue_try_acquire_async':
        if runnable(o) and not o.D and not o.pb and n.u==o.u+1 and same(o,n,['susp','B','pb','D','E','O']): return None
        return "acquire_async"
    if func=='_dispatch_queue_reserve_sync_width' or (func in('_dispatch_lane_drain','_dispatch_lane_drain_non_barriers') and op==5):
        if n.u==o.u+1 and same(o,n,['susp','B','pb','D','E','O']): return None
        return "reserve (add)"
    if func=='_dispatch_queue_try_upgrade_full_width':
        if o.O!=tid: return "upgrade by non owner"
        # exists owned k in 0..W
        for k in ks(o,n,W):
            u=o.u-k; pb=o.pb
            if not o.pb: u+=W-1; pb=True
            B=o.B
            if (not o.B) and u<W and not o.suspended:
                u+=1; B=True; pb=False
            if (n.u,n.pb,n.B,n.D)==(u,pb,B,False) and same(o,n,['susp','E','O']): return None
        return "upgrade"
    if func=='_dispatch_lane_drain' and op==9:   # xor IN_BARRIER
        if o.B and not n.B and o.O==tid and same(o,n,['susp','u','pb','D','E','O']): return None
        return "drop barrier"
    if func=='_dispatch_lane_drain_non_barriers' and op==7: # and ~IN_BARRIER
        if o.B and not n.B and o.O==tid and same(o,n,['susp','u','pb','D','E','O']): return None
        return "dnb drop barrier"
    if func in('_dispatch_queue_drain_try_unlock',):
        if op==9:  # xor DIRTY
            if o.D and not n.D and same(o,n,['susp','B','u','pb','E','O']): return None
            return "unlock xor dirty"
        if o.O!=tid: return "unlock by non owner"
        if o.D and not o.suspended: return "unlock succeeded with DIRTY set"
        for k in ks(o,n,W):
            for b in (False,True):
                if b and not o.B: continue
                u=o.u-(k if not b else W)
                for e in (False,True):
                    if e and not o.E: continue
                    E = False if e else o.E
                    if n.u==u and n.B==(False if b else o.B) and n.E==E and n.O==0 and n.pb==o.pb and n.susp==o.susp: return None
        return "unlock shape"
    if func=='_dispatch_lane_non_barrier_complete':
        u=o.u-1
        if o.O!=0:
            if n.u==u and n.D and same(o,n,['susp','B','pb','E','O']): return None
            return "nbc locked"
        new_runnable = (not o.B) and u<W and not o.suspended
        if new_runnable:
            free = (u+1==W) if o.pb else (u==0)
            if free:
                if n.B and n.u==W and not n.pb and not n.D and n.O==tid and n.E==o.E: return None
                return "nbc take lock"
            E = o.E or o.D
            if n.u==u and n.E==E and n.D==o.D and same(o,n,['susp','B','pb','O']): return None
            return "nbc runnable"
        if n.u==u and same(o,n,['susp','B','pb','D','E','O']): return None
        return "nbc not runnable"
    if func=='_dispatch_lane_drain_barrier_waiter':
        if o.O==tid and o.B and n.B and n.u==o.u and n.O!=0 and n.O!=tid or (n.O==tid):
            if not n.D and (n.E==o.E or (o.E and not n.E)) and n.pb==o.pb: return None
        return "dbw"
    if func=='_dispatch_lane_class_barrier_complete':
        if op==9:
            if o.D and not n.D and same(o,n,['susp','B','u','pb','E','O']): return None
            return "bc xor dirty"
        if o.O!=tid or not o.B or o.u!=W: return "bc by non owner / not full"
        if n.O!=0 or n.B or n.u!=0: return "bc result"
        if o.suspended: return None
        if n.E and not o.E: return None     # enqueue
        if n.E==o.E:
            if (not o.E) and o.D: return "bc: released with DIRTY and no enqueue"
            return None
        return "bc E"
    if func=='_dispatch_lane_drain_non_barriers':
        if op==9:
            if o.D and not n.D and same(o,n,['susp','B','u','pb','E','O']): return None
            return "dnb xor dirty"
        if o.O!=tid: return "dnb fin by non owner"
        for k in ks(o,n,W):
            for nextbar in (False,True):
                for hasdc in (False,True):
                    if nextbar and not hasdc: continue
                    u=o.u-k; pb=o.pb
                    if nextbar and W>1: u+=W-1; pb=True
                    D=False
                    if hasdc:
                        D=True
                        free=(u+1==W) if pb else (u==0)
                        if free:
                            if n.B and n.u==W and not n.pb and not n.D and n.O==tid and n.E==o.E: return None
                            continue
                        E=o.E or o.D
                        if (n.u,n.pb,n.D,n.E,n.O,n.B)==(u,pb,True,E,0,False): return None
                    else:
                        if o.D: continue
                        if (n.u,n.pb,n.D,n.E,n.O,n.B)==(u,pb,False,o.E,0,False): return None
        return "dnb fin shape"
    if func=='_dispatch_lane_push_waiter':
        if o.O!=0 or not runnable(o):
            if n.D and same(o,n,['susp','B','u','pb','E','O']): return None
            return "push_waiter not runnable"
        if lockable(o):
            if n.B and n.u==W and n.O==tid and not n.D and not n.pb and n.E==o.E: return None
            return "push_waiter lock"
        if n.D and same(o,n,['susp','B','u','pb','E','O']): return None
        return "push_waiter dirty"
    if func=='_dispatch_lane_suspend':
        if n.susp==o.susp+1 and same(o,n,['side','B','u','pb','D','E','O','xfer']): return None
        return "suspend"
    if func=='_dispatch_lane_suspend_slow':
        if n.susp==o.susp-31 and n.side and same(o,n,['B','u','pb','D','E','O','xfer']): return None
        return "suspend_slow"
    if func=='_dispatch_lane_resume_slow':
        if n.susp==o.susp+31 and o.side and same(o,n,['B','u','pb','D','E','O','xfer']): return None
        return "resume_slow"
    if func=='_dispatch_lane_resume':
        if o.susp==0: return "resume with zero count"
        susp=o.susp-1
        still = susp>0 or o.side or o.inact or o.nact
        nr_runnable = (not still) and (not o.B) and o.u<W
        if not nr_runnable:
            if n.susp==susp and n.D and same(o,n,['side','B','u','pb','E','O']): return None
            return "resume not runnable"
        if o.O!=0:
            if n.susp==susp and n.D and same(o,n,['B','u','pb','E','O']): return None
            return "resume locked"
        if lockable(o):
            if n.susp==0 and n.B and n.u==W and n.O==tid and not n.pb and not n.D and n.E==o.E: return None
            return "resume take lock"
        if n.susp==0 and n.O==0 and same(o,n,['B','u','pb','D','E']): return None
        return "resume wakeup"
    if func=='_dispatch_queue_invoke_finish':
        return None
    return "UNMODELLED "+func
W={}
n=0
for line in open(sys.argv[1]):
    p=line.split()
    if p[0]=='Q': W[int(p[1])]=int(p[3]); continue
    if p[0]!='E': continue
    seq,tid,q,off,op=int(p[1]),int(p[2]),int(p[3]),int(p[4]),int(p[5])
    if off!=56: continue
    o=dec(int(p[6],16),W[q]); nn=dec(int(p[7],16),W[q]); func=p[8]
    tidm=tid & OWNER
    n+=1; seen[(func,op)]+=1
    r=check(func,op,o,nn,tidm,W[q])
    if r:
        errs[r]+=1
        if errs[r]<=3: print("MISMATCH",r,"q",q,"tid",tidm,func,"op",op,"\n   old",show(o),"\n   new",show(nn))
print("checked",n,"transitions;",sum(errs.values()),"mismatches",dict(errs))
for k,v in sorted(seen.items()): print("  ",k,v)
