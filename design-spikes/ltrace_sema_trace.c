// workload against the hooked libdispatch: atomic trace of one dispatch_semaphore (dsema_value)
#define _GNU_SOURCE
#include <dispatch/dispatch.h>
#include <stdio.h>
#include <stdint.h>
#include <stdlib.h>
#include <unistd.h>
#include <pthread.h>
#include <sched.h>
#include <stdatomic.h>
#include <sys/syscall.h>
typedef void (*cb_t)(const volatile void *addr, unsigned size, int op, uint64_t o, uint64_t n, const char *func, int line);
extern cb_t _dispatch_verif_atomic_cb;
extern void (*_dispatch_verif_yield_cb)(const volatile void *addr, const char *func, int line);
static dispatch_semaphore_t S;
typedef struct { uint64_t seq; int tid; int off; unsigned size; int op; uint64_t o, n; const char *func; int line; } ev_t;
#define MAXEV (1<<21)
static ev_t *evs; static atomic_ulong nev, seq;
static __thread int mytid; static __thread uint64_t rng; static uint64_t seed;
static inline uint64_t rnd(void){ if(!rng) rng = seed ^ (uint64_t)syscall(SYS_gettid)*0x9e3779b97f4a7c15ull; rng ^= rng<<13; rng ^= rng>>7; rng ^= rng<<17; return rng; }
static void cb(const volatile void *addr, unsigned size, int op, uint64_t o, uint64_t n, const char *func, int line){
  long d = (char*)addr - (char*)S; if (d < 0 || d >= 96) return;
  if (!mytid) mytid = (int)syscall(SYS_gettid);
  unsigned long k = atomic_fetch_add(&nev,1); if (k>=MAXEV) return;
  evs[k] = (ev_t){ atomic_fetch_add(&seq,1), mytid, (int)d, size, op, o, n, func, line }; }
static void ycb(const volatile void *addr, const char *func, int line){ (void)func;(void)line;
  long d = (char*)addr - (char*)S; if (d < 0 || d >= 96) return; uint64_t r = rnd()%12; if (r==0) sched_yield(); else if (r==1) usleep(rnd()%40); }
static int nops; static atomic_long okw, tmo, sig;
static void *client(void *a){ long role = (long)a;
  for (int i=0;i<nops;i++){
    if (role % 2 == 0) { dispatch_semaphore_signal(S); atomic_fetch_add(&sig,1); if (rnd()%3==0) usleep(rnd()%60); }
    else { int k = (int)(rnd()%3);
      dispatch_time_t t = k==0 ? DISPATCH_TIME_NOW : dispatch_time(DISPATCH_TIME_NOW,(int64_t)(rnd()%300000));
      if (dispatch_semaphore_wait(S,t)==0) atomic_fetch_add(&okw,1); else atomic_fetch_add(&tmo,1); } }
  return NULL; }
int main(int argc, char **argv){
  seed = argc>1 ? strtoull(argv[1],0,0) : 1; int nthr = argc>2 ? atoi(argv[2]) : 4; nops = argc>3 ? atoi(argv[3]) : 300; long init = argc>4 ? atol(argv[4]) : 2;
  evs = calloc(MAXEV, sizeof(ev_t)); S = dispatch_semaphore_create(init);
  _dispatch_verif_yield_cb = ycb; _dispatch_verif_atomic_cb = cb;
  pthread_t th[64]; for (long i=0;i<nthr;i++) pthread_create(&th[i],0,client,(void*)i);
  for (int i=0;i<nthr;i++) pthread_join(th[i],0);
  _dispatch_verif_atomic_cb = 0; _dispatch_verif_yield_cb = 0;
  unsigned long n = atomic_load(&nev); if (n>MAXEV) n=MAXEV;
  printf("DONE init %ld signals %ld ok_waits %ld timeouts %ld events %lu\n", init, atomic_load(&sig), atomic_load(&okw), atomic_load(&tmo), n);
  for (unsigned long i=0;i<n;i++){ ev_t *e=&evs[i]; printf("E %lu %d %d %u %d %016lx %016lx %s %d\n", e->seq, e->tid, e->off, e->size, e->op, e->o, e->n, e->func, e->line); }
  // keep the semaphore balanced so that dispose does not crash: signal back what is missing
  return 0; }
