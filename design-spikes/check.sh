#!/bin/sh
# Re-check every design-phase Lean spike from scratch (not part of the framework, not in MANIFEST.json).
# Usage: sh check.sh   -- builds a scratch lake project under /var/tmp, compiles each file in
# dependency order, fails on any error / sorry, prints the axioms reported by the files' audit sections.
set -e
HERE=$(cd "$(dirname "$0")" && pwd)
W=/var/tmp/design-spikes-check.$$
rm -rf "$W"; mkdir -p "$W"; cd "$W"
lake new spike lib >/dev/null 2>&1
cd spike; mkdir -p Spike
cp "$HERE"/*.lean Spike/
lake build >/dev/null 2>&1 || true
mkdir -p .lake/build/lib/lean/Spike
ORDER="Lane LaneC GroupS SemaS LaneR LaneRProof LaneRResp SemaP OnceP ApplyP TimeA TimeB \
LaneW LaneWProof LaneWStep1 LaneWStep2 LaneWStep3 LaneWStep4 LaneWStep5 LaneWStep6 LaneWStep7 LaneWMain \
DataP Base64P Base32P Utf8P Utf8F Utf16P AttrP SuspendP SourceP HeapP IoP IoP2 IoP3 \
GroupP GroupPA GroupPF9 GroupPB GroupPB2 GroupPB3 GroupPC GroupPD HierP HbP \
LaneF LaneFProof LaneFFifo LaneFFifo2 LaneFFifo3 LaneFFifo4 LaneFFifo5 LaneFFifo6 LaneFFifo7 LaneFFifo8 LaneFFifo9 LaneFFifoMain \
RefP SrcP BlockP CancelP"
rc=0
for m in $ORDER; do
  if [ ! -f Spike/$m.lean ]; then echo "MISSING $m"; rc=1; continue; fi
  out=$(lake env lean -o .lake/build/lib/lean/Spike/$m.olean Spike/$m.lean 2>&1) || true
  if echo "$out" | grep -q "error"; then echo "FAIL $m"; echo "$out" | grep -A5 error | head -20; rc=1
  elif echo "$out" | grep -q "sorryAx\|declaration uses 'sorry'"; then echo "SORRY $m"; rc=1
  else echo "ok   $m $(echo "$out" | grep -c 'depends on axioms') audited"; fi
  echo "$out" | grep "depends on axioms" | grep -v "propext\|Classical.choice\|Quot.sound" | grep -v "does not depend" || true
done
grep -n "sorry\|admit\|native_decide\|^axiom " Spike/*.lean | grep -v "^.*--" && rc=1 || true
cd /; rm -rf "$W"
exit $rc
