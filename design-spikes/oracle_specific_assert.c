// C18 oracle prototype: dispatch_get_specific along target chains for every submission path; assert_queue via fork
#define _GNU_SOURCE
#include <dispatch/dispatch.h>
#include <stdio.h>
#include <stdlib.h>
#include <stdint.h>
#include <unistd.h>
#include <sys/wait.h>
#include <stdatomic.h>
void dispatch_async_and_wait_f(dispatch_queue_t, void*, dispatch_function_t);
static uint64_t rng; static inline uint64_t rnd(void){ rng ^= rng<<13; rng ^= rng>>7; rng ^= rng<<17; return rng; }
#define MAXQ 10
#define NK 4
static dispatch_queue_t Q[MAXQ]; static int parent[MAXQ], conc[MAXQ], nq; static void *val[MAXQ][NK]; static char keys[NK];
static atomic_int viol, checks;
static void *expect(int q, int k){ for (int c=q; c>=0; c=parent[c]) if (val[c][k]) return val[c][k]; return NULL; }
static void check(void *c){ int q = (int)(intptr_t)c; for (int k=0;k<NK;k++){ void *g = dispatch_get_specific(&keys[k]); atomic_fetch_add(&checks,1);
    if (g != expect(q,k)) { atomic_fetch_add(&viol,1); fprintf(stderr,"get_specific mismatch q%d key%d got %p want %p\n", q,k,g,expect(q,k)); } } }
static void apply_check(void *c, size_t i){ (void)i; check(c); }
static void nested(void *c){ int q = (int)(intptr_t)c; int q2 = rnd()%nq; // from inside an item on q, sync to unrelated queue q2 and check there, then re-check here
  int ok = 1; for (int a=q; a>=0; a=parent[a]) for (int b=q2; b>=0; b=parent[b]) if (a==b) ok=0;  // avoid deadlock: only disjoint chains
  if (ok) dispatch_sync_f(Q[q2], (void*)(intptr_t)q2, check);
  check(c); }
int main(int argc, char **argv){
  rng = (argc>1 ? strtoull(argv[1],0,0) : 1)*0x9e3779b97f4a7c15ull + 1;
  int roots = 2; nq = 4 + rnd()%(MAXQ-4);
  for (int i=0;i<nq;i++){ conc[i] = rnd()%2; parent[i] = i<roots ? -1 : (int)(rnd()%i);
    dispatch_queue_attr_t attr = conc[i] ? DISPATCH_QUEUE_CONCURRENT : DISPATCH_QUEUE_SERIAL;
    Q[i] = parent[i]<0 ? dispatch_queue_create("r", attr) : dispatch_queue_create_with_target("q", attr, Q[parent[i]]);
    for (int k=0;k<NK;k++) if (rnd()%3==0) { val[i][k] = (void*)(uintptr_t)(0x1000 + i*16 + k); dispatch_queue_set_specific(Q[i], &keys[k], val[i][k], NULL); } }
  dispatch_group_t g = dispatch_group_create();
  for (int it=0; it<400; it++){ int q = rnd()%nq; void *c = (void*)(intptr_t)q;
    switch (rnd()%8){ case 0: dispatch_async_f(Q[q], c, check); break; case 1: dispatch_sync_f(Q[q], c, check); break;
      case 2: dispatch_barrier_async_f(Q[q], c, check); break; case 3: dispatch_barrier_sync_f(Q[q], c, check); break;
      case 4: dispatch_group_async_f(g, Q[q], c, check); break; case 5: dispatch_apply_f(3, Q[q], c, apply_check); break;
      case 6: dispatch_async_and_wait_f(Q[q], c, check); break; case 7: dispatch_async_f(Q[q], c, nested); break; } }
  for (int i=0;i<nq;i++) dispatch_barrier_sync_f(Q[i], (void*)(intptr_t)i, check);
  dispatch_group_wait(g, DISPATCH_TIME_FOREVER); usleep(100000);
  // assert_queue / assert_queue_not through child processes
  int abad = 0, atests = 0;
  for (int t=0;t<24;t++){ int q = rnd()%nq, a = rnd()%nq; int in_chain = 0; for (int c=q;c>=0;c=parent[c]) if (c==a) in_chain=1;
    int neg = rnd()%2; fflush(stdout); pid_t pid = fork();
    if (pid==0){ dispatch_queue_t qq = Q[q], aa = Q[a]; freopen("/dev/null","w",stderr);
      // fresh queues are needed post-fork? use sync on existing queue (no threads needed for sync fast path)
      if (neg) dispatch_sync(qq, ^{ dispatch_assert_queue_not(aa); }); else dispatch_sync(qq, ^{ dispatch_assert_queue(aa); });
      _exit(0); }
    int st; waitpid(pid,&st,0); int crashed = !(WIFEXITED(st) && WEXITSTATUS(st)==0); int want_crash = neg ? in_chain : !in_chain; atests++;
    if (crashed != want_crash) { abad++; fprintf(stderr,"assert_queue%s mismatch: item on q%d, asserted q%d, in_chain=%d crashed=%d\n", neg?"_not":"", q,a,in_chain,crashed); } }
  printf("nq %d checks %d viol %d ; assert tests %d bad %d\n", nq, atomic_load(&checks), atomic_load(&viol), atests, abad);
  return 0; }
