#define _GNU_SOURCE
#include <dispatch/dispatch.h>
#include <stdio.h>
#include <unistd.h>
#include <errno.h>
#include <dlfcn.h>
#include <string.h>
#include <stdatomic.h>
static atomic_int nreads; static int target_fd = -1;
ssize_t read(int fd, void *buf, size_t n){
  static ssize_t (*real)(int,void*,size_t); if(!real) real = dlsym(RTLD_NEXT,"read");
  if (fd == target_fd) { int k = atomic_fetch_add(&nreads,1); 
    if (0 && k % 3 == 1) { errno = EAGAIN; fprintf(stderr,"[read#%d fd%d len%zu -> EAGAIN injected]\n",k,fd,n); return -1; }
    if (n > 3) n = 3; ssize_t r = real(fd,buf,n); fprintf(stderr,"[read#%d fd%d -> %zd]\n",k,fd,r); return r; }
  return real(fd,buf,n); }
int main(void){
  int p[2]; pipe(p); target_fd = p[0];
  write(p[1], "hello world!", 12); close(p[1]);
  dispatch_semaphore_t s = dispatch_semaphore_create(0);
  dispatch_io_t ch = dispatch_io_create(DISPATCH_IO_STREAM, p[0], dispatch_get_global_queue(0,0), ^(int e){});
  dispatch_io_set_high_water(ch, 5);
  dispatch_io_read(ch, 0, SIZE_MAX, dispatch_get_global_queue(0,0), ^(bool done, dispatch_data_t d, int err){
    fprintf(stderr,"handler done=%d size=%zu err=%d\n", done, d?dispatch_data_get_size(d):0, err);
    if (done) dispatch_semaphore_signal(s); });
  dispatch_semaphore_wait(s, DISPATCH_TIME_FOREVER);
  return 0; }
