#define _GNU_SOURCE
#include <dispatch/dispatch.h>
#include <stdio.h>
#include <stdint.h>
#include <string.h>
#include <unistd.h>
#include <pthread.h>
#include <stdatomic.h>
extern void (*_dispatch_verif_yield_cb)(const volatile void *addr, const char *func, int line);
static dispatch_group_t g; static dispatch_queue_t q;
static atomic_int in_window, go_on, ran1, ran2;
static __thread int is_b;
static void ycb(const volatile void *addr, const char *func, int line){
  if (is_b && !strcmp(func, "_dispatch_group_wake") && !atomic_load(&in_window)) {
    atomic_store(&in_window, 1);
    while (!atomic_load(&go_on)) usleep(100);
  }
}
static void n1(void *c){ atomic_store(&ran1,1); }
static void n2(void *c){ atomic_store(&ran2,1); }
static void *tb(void *a){ is_b = 1; dispatch_group_notify_f(g, q, NULL, n1); return 0; }
int main(void){
  g = dispatch_group_create(); q = dispatch_get_global_queue(0,0);
  _dispatch_verif_yield_cb = ycb;
  pthread_t b; pthread_create(&b,0,tb,0);
  while (!atomic_load(&in_window)) usleep(100);
  dispatch_group_enter(g);                  // work entered BEFORE the second notify call
  dispatch_group_notify_f(g, q, NULL, n2);  // must wait for the leave below
  atomic_store(&go_on,1);
  pthread_join(b,0);
  usleep(300000);
  printf("before leave: ran1=%d ran2=%d  (ran2 must be 0)\n", atomic_load(&ran1), atomic_load(&ran2));
  dispatch_group_leave(g);
  usleep(300000);
  printf("after leave:  ran1=%d ran2=%d\n", atomic_load(&ran1), atomic_load(&ran2));
  return 0; }
