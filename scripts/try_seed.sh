#!/bin/sh
# Applies a seeded change to /repo's working tree, runs the property's check, and restores the tree.
# usage: try_seed.sh <id> <dir with patch.diff> [tier]; prints the tail of the check output; exit status = that of the check
ID=$1; D=$(cd "$2" && pwd); TIER=${3:-quick}
cd /verif
git -C /repo diff --quiet || { echo "/repo working tree is not clean"; exit 2; }
git -C /repo apply "$D/patch.diff" || { echo "patch does not apply"; exit 2; }
VERIF_FAILFAST=${VERIF_FAILFAST:-} ./check $ID --tier $TIER > "$D/check.$TIER.log" 2>&1; rc=$?
git -C /repo checkout -- .
grep -E "VIOLATION|KNOWN-FINDING|^$ID " "$D/check.$TIER.log" | tail -8
exit $rc
