#!/bin/sh
# Builds /repo's working tree WITHOUT the verification guard into a scratch directory and runs the
# repository's pinned test suite there (same ctest invocation as /root/.vp/BASELINE.json).
set -e
REPO=${REPO:-/repo}
B=${DVERIF_SCRATCH:-/var/tmp}/dverif-baseline-off.$$
trap 'rm -rf "$B"' EXIT
cmake -G Ninja -S "$REPO" -B "$B" -DCMAKE_BUILD_TYPE=RelWithDebInfo -DCMAKE_C_COMPILER=clang-16 \
  -DCMAKE_CXX_COMPILER=clang++-16 -DCMAKE_C_FLAGS=-Wno-error -DBUILD_TESTING=ON >"$B.cfg.log" 2>&1 || { cat "$B.cfg.log"; rm -f "$B.cfg.log"; exit 2; }
rm -f "$B.cfg.log"
cmake --build "$B" >/dev/null 2>&1 || { cmake --build "$B" 2>&1 | tail -30; exit 2; }
if nm -D "$B/libdispatch.so" | grep -q _dispatch_verif; then echo "guard leak: verification symbols present with the guard off"; exit 3; fi
ctest --test-dir "$B" -j8 --timeout 900 >"$B.ctest.log" 2>&1; rc=$?
tail -40 "$B.ctest.log"; rm -f "$B.ctest.log"
exit $rc
