#!/usr/bin/env python3
"""Development-time helper: Core/Base32HexP.lean is Core/Base32P.lean with the two Base32Hex tables
(the proofs only use table facts established by `decide`, so they carry over verbatim)."""
import re, os
HERE = os.path.dirname(os.path.dirname(os.path.abspath(__file__)))
src = open(os.path.join(HERE, "lean/DispatchVerif/Core/Base32P.lean")).read()
enc = [ord(c) for c in "0123456789ABCDEFGHIJKLMNOPQRSTUV"]
dec = [-1] * 87
for i, c in enumerate(enc): dec[c] = i
dec[ord('=')] = -2
s = src.replace("namespace B32", "namespace B32H").replace("end B32", "end B32H").replace("open B32", "open B32H")
s = re.sub(r"def encTbl : List Nat := \[[^\]]*\]", "def encTbl : List Nat := " + str(enc), s)
s = re.sub(r"def decTbl : List Int := \[[^\]]*\]", "def decTbl : List Int := " + str(dec), s)
s = s.replace("def decSize : Nat := 91", "def decSize : Nat := 87")
s = s[:s.index("section audit")]
s = "/- derived from Base32P.lean by scripts/mk_b32hex.py: the same loops with the Base32Hex tables -/\n" + s
open(os.path.join(HERE, "lean/DispatchVerif/Core/Base32HexP.lean"), "w").write(s)
