#!/usr/bin/env python3
"""Writes seeded/<id>/meta.json for every kept seeded change (what it breaks, what it needs, how it was confirmed, which check catches it)."""
import json, os
M = {
 "C01": ("pool thread request (dgq_pending) leaked by a hoisted early return in _dispatch_root_queue_poke_slow", "a non-overcommit root queue poked while its pthread pool is full; later submissions then never get a worker", "c01_pool oracle phase 2 (pool saturated, then new work must still run) + root-pool trace replay", False),
 "C02": ("sync fast path accepts a queue whose state has ENQUEUED / max-QoS bits set (wrong mask in try_acquire_barrier_sync_and_suspend)", "dispatch_sync racing an async submission that has enqueued but whose drain has not started", "tr_lane order oracle (serial FIFO w.r.t. returned submissions) and L-trace (transition not a step of LaneW / LaneR)", False),
 "C04": ("reader fast path of dispatch_sync on a concurrent queue no longer looks at dq_items_tail", "a barrier queued behind a drainer in non-barrier mode while a sync reader arrives", "tr_lane barrier order oracle", False),
 "C06": ("side suspend count bit cleared too early in _dispatch_lane_resume_slow", "more than 95 nested suspensions (two overflows into the side count), then resumes", "c06_suspend oracle at nesting depth 96+, L-trace through SuspendP.step", False),
 "C07": ("dispatch_group_enter made a 64-bit subtract: the borrow reaches the generation", "a waiter blocked across leave / enter back-to-back (group re-entered immediately)", "tr_group reenter mode (added after the first run only reported no-failing-input-found) + L-trace through GroupP.step", True),
 "C08": ("unconditional re-increment in the timed-out path of _dispatch_semaphore_wait_slow", "a timed wait expiring while a signal is in flight", "tr_sema permit-count oracle + L-trace through SemaP.step", False),
 "C09": ("gate broadcast wakes one sleeper instead of all", "two or more threads asleep in _dispatch_once_wait when the initialiser completes", "tr_once oracle (every caller returns) + trace", False),
 "C12": ("dispatch_time wall arm: <= 1 became < 1 (result FOREVER for a finite base)", "wall-clock base B and negative delta with B + delta == 1 exactly", "L-fn differential against Core/Time.lean (boundary inputs in the generator)", False),
 "C13": ("subrange clamp rewritten as offset + length > size (size_t wrap)", "length > SIZE_MAX - offset", "L-fn differential against DataP; python byte-string oracle added after the first run only reported no-failing-input-found", True),
 "C15": ("merge_data skips the wakeup when data was already pending (check-then-act)", "a latch between the merger's load and its add", "tr_source conservation oracle with yield perturbation at the merge / latch sites (added after the quick tier missed it)", True),
 "C16": ("flags load hoisted above the registration-handler callout in _dispatch_source_invoke2", "cancel from the registration handler with an event already pending", "c16_cancel oracle scenario 2 (cancel from the registration handler with pending data)", False),
 "C20": ("wrong skip when a low surrogate straddles regions in UTF-16 -> UTF-8", "a surrogate pair split across regions with the low unit starting in the next region", "L-fn differential on fragmented inputs against Utf16P", False),
 "C03": ("sync waiter woken without being re-queued on a concurrent target whose width reservation failed", "two consecutive concurrent queues above a serial bottom, non-barrier sync on the upper one taking the slow path while the middle one has an item queued", "c03_hier oracle (exclusion across the hierarchy: overlap / hang)", False),
 "C05": ("thread event wait returns as soon as FUTEX_WAIT returns 0 (no re-read of the value)", "a stale FUTEX_WAKE aimed at an earlier event at the same stack address (signaller delayed between increment and wake)", "L-trace through EventP (deterministic: the thread leaves the wait without reading 0) and c05_hb oracle under injected futex delays (library trap / overlap)", False),
 "C10": ("apply participants check da_index with a relaxed load, then increment (check-then-act)", "several helpers entering the claim prologue with fewer indices left than helpers", "tr_apply oracle (index out of range / hang) once yield perturbation was added inside _dispatch_apply_invoke2 (missed before)", True),
 "C11": ("resift skips _dispatch_timer_heap_set when the timer did not move: dth_needs_program not raised", "the earliest timer re-armed to an earlier time while it stays the heap root", "heap L-fn with the dth_needs_program flag modelled (added: missed before) + c11_timers re-arm-earlier scenario (added)", True),
 "C14": ("read buffer sized as a whole chunk although data is parked (dead else-if)", "low-water mark above the chunk size, high-water not a multiple of the chunk", "L-fn io read differential with a small chunk size via _dispatch_iocntl (added: missed before) + direct oracle on handler deliveries (size > high water)", True),
 "C17": ("_dispatch_async_redirect_invoke consumes the item's +2 on the top queue before walking the intermediate queues", "concurrent top -> concurrent mid, mid released early by the application, last release of top while an item of top runs, top without finalizer", "c17_life oracle (library trap 'corrupt state' / finalizer missing) on hooked and ASan builds", False),
 "C18": ("thread frame walk pops a saved frame on every hop (dropped dq == dtf_queue test)", "dispatch_sync from inside another queue context, assertion about a submitting queue that is not drain-locked by the caller", "L-fn assert differential (QueueP.assertAccepts)", False),
 "C19": ("timed-out dispatch_block_wait stores the flag snapshot back (overwrites DBF_CANCELED)", "cancel from another thread during a timed wait that times out", "tr_block oracle (testcancel 0 after cancel); L-trace (flags transition by a store instead of an and)", False),
}
M2 = {
 "C01": ("DC_FLAG_BARRIER kept on a dispatch_sync waiter redirected to a concurrent target whose width could not be reserved", "a queue whose target is a non-root concurrent queue, a parked dispatch_sync caller handed the queue while the target is not reservable", "lane storm with chained queues (serial queue targeting the concurrent one): hang / stranded items", True),
 "C02": ("dispatch_async_and_wait of a block object created without DISPATCH_BLOCK_BARRIER reaches a serial queue without the barrier flag", "dispatch_async_and_wait (block form) with dispatch_block_create blocks on an idle serial queue from two threads", "lane storm with block-object submissions: library trap / overlap", True),
 "C03": ("queues whose target is a workloop or the main queue get role BASE instead of INNER", "hierarchy whose bottom is a workloop / the main queue, dispatch_sync slow path on the queue directly above it", "hierarchy storm with workloop bottoms (possible only after the F16 repair): overlap / hang", True),
 "C04": ("_dispatch_apply_redirect relinquishes more width than it reserved", "dispatch_apply on a concurrent queue with fewer free reader slots than it wants, then a barrier", "lane storm: barrier order oracle", False),
 "C05": ("timed-out / polling dispatch_semaphore_wait re-increments unconditionally (a signal yields two permits)", "a signal landing between the waiter's decrement and its undo, then a blocking wait", "c05_hb polling consumer over sequentially written slots", True),
 "C06": ("_dispatch_lane_barrier_complete ignores suspension when handing the queue to the waiter at the head", "a synchronously running barrier item suspends its own queue while a blocked dispatch_sync caller / async items are queued", "c06_suspend scenarios 4 and 5", True),
 "C07": ("a dispatch_group_wait that times out clears DISPATCH_GROUP_HAS_WAITERS", "two waiters on one generation, one timing out before the count reaches zero", "tr_group mixed mode; GroupP replay (transition not a step)", True),
 "C08": ("_dispatch_sema4_timedwait treats EINTR as a timeout", "a timed wait interrupted by a signal handler installed without SA_RESTART", "tr_sema with interruptions: non-zero before the timeout elapsed", False),
 "C09": ("_dispatch_once_wait does a single compare-and-swap instead of the retry loop", "an owner inside the initialiser and two waiters racing to set the waiters bit", "tr_once racing-callers oracle", False),
 "C10": ("_dispatch_apply_redirect does not relinquish the width reserved on upper levels when a lower level grants none", "dispatch_apply on a concurrent queue targeting a serial one, then a barrier and another apply", "tr_apply with barriers on the chained queues: hang", True),
 "C11": ("_dispatch_timer_unote_configure clears pending data only when the timer is not armed", "dispatch_source_set_timer while one firing of the old schedule is latched behind a busy target queue", "c11_timers latched-firing scenario (single firing, timer still armed)", True),
 "C12": ("dispatch_time wall arm returns -(int64_t)value without the range check", "wall-clock base plus a positive delta of 89 to 292 years", "L-fn differential against Core/Time.lean", False),
 "C13": ("_dispatch_data_copy_region accumulates the 'from' of skipped records", "copy_region at a location in a later record of a concatenation whose earlier record is a front-trimmed subrange", "L-fn differential against DataP", False),
 "C14": ("write branch of deliver_data trims by buf_len (already zeroed) instead of buf_siz", "a multi-buffer write of a fragmented data object where a buffer is used up below the low-water mark", "c14_io write rounds with fragmented data and water marks; L-fn write differential against IoW", True),
 "C15": ("latch by load + store instead of an atomic exchange", "a merge from another CPU between the load and the store", "tr_source conservation oracle", False),
 "C16": ("dispatch_source_cancel wakes the source without DISPATCH_WAKEUP_MAKE_DIRTY", "a cancel from a foreign thread while the manager holds the source's drain lock, on a descriptor that stays quiet", "c16_cancel quiet-descriptor trials with perturbation on the source's atomic sites", True),
 "C17": ("the new target is retained only when the deferred change of target runs", "dispatch_set_target_queue on a busy queue, the new target released before the deferred barrier runs", "c17_life retarget scenario on hooked and ASan builds (use after free / trap)", True),
 "C18": ("sync waiter context records the waited-on queue instead of the submitted-to queue", "dispatch_sync onto a queue above a thread-bound queue (main queue drained run-loop style) from another thread", "c18_bound oracle", True),
 "C19": ("a cancelled block object invoked directly returns without counting as performed", "a block cancelled before it starts, executed by a plain call, observed by wait / notify", "tr_block oracle", False),
 "C20": ("_dispatch_data_subrange_map accepts a short sub-range", "input whose final element is cut short by the end of the data", "L-fn differential (NULL expected) + ASan", False),
}
M3 = {
 "C01": ("os_mpsc_pop_head stores the new head after the tail compare-and-swap instead of before (one store instead of two)", "the popped item is the last one and another submission lands between the tail CAS and the late head store", "lane storm with yield perturbation at the atomic sites: stranded items / hang (STUCK)", False),
 "C02": ("main queue callback: a refused nested call clears the outer drain's re-entrancy guard; the drain adopts the anonymous wlh recursively", "the main queue drained run-loop style and an item spinning a nested run loop that calls the drain callback at least twice", "c02_mainq (added): run-loop drained main queue with nested callback calls inside items: overlap / order", True),
 "C03": ("stop_dq test of _dispatch_sync_complete_recurse hoisted out of the per-level loop", "dispatch_async_and_wait through an upper queue of a hierarchy whose serial bottom is busy, then a dispatch_sync", "c03_hier with async_and_wait / barrier_async_and_wait submissions (added): overlap across the hierarchy, then hang (watchdog added)", True),
 "C04": ("retry path of _dispatch_lane_drain_non_barriers does not test the new head for being a barrier", "a barrier landing between the list becoming empty and the unlock of a dispatch_barrier_sync that redirects queued readers", "lane storm: the library traps (barrier redirected as a reader)", False),
 "C05": ("dispatch_group_wait computes the generation to wait on from new_state only when it set the waiters bit itself (otherwise generation 0)", "a re-used group (generation != 0), waiters bit already set by another waiter or an expired timed wait, group not empty", "c05_hb re-used group with a timed-out wait followed by two concurrent waits (added); also tr_group storm (C07)", True),
 "C06": ("_dispatch_queue_invoke_finish decides not to re-enqueue from a read of dq_state made before its compare-and-swap loop", "the last resume, from another thread, landing between that read and the compare-and-swap", "c06_suspend hand-over scenario with the drainer held after reads of dq_state (added); FinishW replay of every invoke_finish compare-and-swap (added: the written word is runnable and not enqueued)", True),
 "C07": ("_dispatch_group_wait_slow treats any non-zero return of the address wait as a timeout (EINTR)", "a timed wait interrupted by a signal handler installed without SA_RESTART", "tr_group mixed mode with signals sent to the blocked waiters (added): non-zero before the timeout elapsed", True),
 "C08": ("a timed-out / polling waiter that finds a signal already posted consumes it but still returns the timeout result", "a signal landing between the waiter's decrement (or expiry) and its undo compare-and-swap", "tr_sema permit-count oracle", False),
 "C09": ("_futex_blocking_op maps EINTR of an untimed wait to 0, and _dispatch_once_wait takes a 0 return as 'the gate is DONE'", "a signal (handler without SA_RESTART) or a spurious futex return at a caller parked on the gate while the initialiser runs", "tr_once with signals at the parked callers and injected spurious futex returns (added); OnceP now lets the futex wait return at any time", True),
 "C10": ("_dispatch_queue_try_reserve_apply_width no longer refuses width-1 queues", "dispatch_apply on a concurrent queue whose target is a thread-bound serial queue (the main queue drained run-loop style)", "tr_apply with a concurrent queue targeting the main queue, drained by the main thread through the run-loop callback (added): index order", True),
 "C11": ("_dispatch_source_timer_data calls compute_missed without the now >= target re-check", "a repeating timer that fires while its source is suspended, resumed before the next boundary", "c11_timers suspended-across-one-boundary scenario (added): total reported exceeds the boundaries passed", True),
 "C12": ("dispatch_time: the NOW test of the non-wall arm masks bit 62 instead of bit 63 (DISPATCH_MONOTONICTIME_NOW not resolved)", "base exactly 1<<63", "L-fn differential against Core/Time.lean (base 1<<63 with the clock reading passed in)", False),
 "C13": ("dispatch_data_create_map passes &dd to _dispatch_data_map_direct: the returned object is the backing leaf", "mapping a trivial subrange (one record into a leaf) and using the returned object as data", "c13_rc / data oracle (size mismatch) and L-fn against DataP", False),
 "C14": ("dispatch_group_enter of the barrier group moved from _dispatch_operation_enqueue to _dispatch_operation_should_enqueue (one hop later)", "dispatch_io_barrier right after an operation on an otherwise idle descriptor", "c14_io barrier-order oracle", False),
 "C15": ("_dispatch_queue_wakeup does not set DIRTY for a MAKE_DIRTY wakeup when the drain lock is held by the caller", "dispatch_source_merge_data from the source's own handler, source targeting NULL / an overcommit global queue, no later external merge", "tr_source self-retriggering chains on NULL / overcommit / global / serial / concurrent targets (added)", True),
 "C16": ("dispatch_source_cancel_and_wait skips the wakeup and the activation when DSF_CANCELED was already set", "a never-activated source: dispatch_source_cancel, then dispatch_source_cancel_and_wait", "c16_cancel scenarios 7 and 8 (never activated; cancel_and_wait with and without a prior cancel) (added)", True),
 "C17": ("_dispatch_timer_unote_resume releases the heap's +2 on disarm and does not retain on re-arm when the timer was armed (stale was_armed)", "an armed timer re-programmed onto another clock (another heap), then firing", "c17_life re-clocked timer rounds (added): finalizer while referenced / library trap", True),
 "C18": ("_dispatch_qos_class_valid: relative priority range check rewritten as one unsigned comparison, off by one (-15 rejected)", "dispatch_queue_attr_make_with_qos_class(attr, cls, QOS_MIN_RELATIVE_PRIORITY)", "L-fn attribute constructor differential against AttrP (all relative priorities)", False),
 "C19": ("dispatch_block_cancel returns early when the block object has already been performed", "cancel after the block's first execution completed, then testcancel / another execution", "tr_block oracle (testcancel after cancel; body ran after cancel)", False),
 "C20": ("base32 decoder: pad count became local to the per-region block (restarts at 0 for every region)", "Base32 / Base32Hex text whose trailing '=' run is cut by a region boundary", "L-fn differential on fragmented inputs against B32 / B32H; round-trip oracle", False),
}
M4 = {
 "C01": ("_dispatch_queue_class_invoke passes done=true to drain_try_unlock also for WAIT_FOR_EVENT (out of width): DIRTY is not left", "a concurrent queue with more unfinished asynchronous items than width, refilled at least twice, one in-flight item waiting for a later one", "lane storm in narrow mode (dispatch_queue_set_width 2 / 5, flooded, first item waits for the last) (added): stranded items; the unlock transition is then also not a step of LaneW", True),
 "C02": ("_dispatch_runloop_root_queue_perform_4CF holds an internal instead of an external reference across the item", "a run-loop queue whose last external reference is released by the running item while more items are queued", "c02_mainq run-loop queue rounds (added): overlap / order", True),
 "C03": ("_dispatch_thread_event_wait_slow returns as soon as the futex wait reports 0 (no re-read of the event word)", "a parked synchronous caller and a stray FUTEX_WAKE / spurious futex return", "c03_hier with spurious futex returns injected at the parked callers (added): overlap in the hierarchy", True),
 "C04": ("_dispatch_lane_resume tests 'suspended' instead of 'not runnable' before taking the barrier lock", "reader running, barrier parked behind it (PENDING_BARRIER), queue suspended and resumed", "lane storm: barrier order oracle / library trap", False),
 "C05": ("_dispatch_sema4_timedwait returns 'acquired' on EINTR", "a timed semaphore wait interrupted by a signal handler installed without SA_RESTART", "c05_hb with signals sent to the thread that runs the semaphore / group / once edges (added)", True),
 "C06": ("dispatch_activate on an inactive queue with an outstanding suspension clears NEEDS_ACTIVATION too (gives one suspension back)", "queue created inactive, suspended, then activated before the resumes", "c06_suspend scenario 7 (inactive, suspended, activated first) (added); the transition is not a step of ActP", True),
 "C07": ("the leave that empties the group wakes with the state saved before its compare-and-swap (a HAS_NOTIFS set in between is cleared without being served)", "waiters bit pending, empty notification list, dispatch_group_notify landing between the leave's add and its compare-and-swap", "tr_group 'wn' mode (added): the notification is never submitted", True),
 "C08": ("_dispatch_sema4_timedwait tests errno == ETIMEDOUT without ret == -1 (stale errno from an earlier timeout)", "a thread whose errno is ETIMEDOUT from an earlier timed-out wait, then a timed wait that is woken by a signal", "tr_sema: waiter never released (no-progress watchdog added: the first detection took 20 minutes of time-outs)", False),
 "C09": ("the DONE test of _dispatch_once_wait hoisted in front of its rmw loop", "the owner's exchange landing between a waiter's load and its compare-and-swap: the waiter sleeps on the DONE word for ever", "tr_once: callers never released", False),
 "C10": ("_futex_blocking_op returns EINTR for untimed waits and _dispatch_thread_event_wait_slow treats any return but EWOULDBLOCK as a wake-up", "a signal (handler without SA_RESTART) at the thread that called dispatch_apply while it waits for the helpers", "tr_apply with signals sent to the calling threads (added): return before all invocations finished", True),
 "C11": ("_dispatch_timeout_program never clears det_registered when the timerfd is removed from the epoll set", "a lone pending timer cancelled / parked at FOREVER before it fires (the clock's heap empties), then any later timer on that clock", "c11_timers lone-timer scenario run first, while nothing else wakes the manager (added; an unrelated wake-up services every clock's heap and hid it when the scenario ran later)", True),
 "C12": ("dispatch_walltime merges the overflow test with the nsec <= 1 test and picks the saturation side by the sign of delta", "a timespec at or before the epoch with a small non-negative delta", "L-fn differential against Core/Time.lean (WT lines)", False),
 "C13": ("_dispatch_data_apply maps the leaf at `from` and then adds `from` again", "apply / map over a composite with a record that starts inside its leaf", "L-fn differential against DataP + byte-string oracle", False),
 "C14": ("_dispatch_operation_create ignores a plain close (the check is left to enqueue, which zero-length operations never reach)", "a zero-length read or a write of the empty data object on a closed channel", "c14_io degenerate operations on a closed channel (added) - caught on the tree of its round; since the F25 repair the zero-length shortcut decides on the barrier queue whether the channel is closed, so this change no longer alters behaviour (the property holds with it) and the check is rightly quiet", True),
 "C15": ("_dispatch_lane_class_barrier_complete re-evaluates a DIRTY queue through _dispatch_lane_wakeup instead of the object's own wakeup", "a merge landing while another thread re-installs the event handler of the active source (which holds its drain lock), then quiet", "tr_source single merge vs handler re-installation rounds with the lock holder delayed (added)", True),
 "C16": ("_dispatch_source_activate no longer marks a source cancelled before activation as installed (it is registered with the kernel after the cancel)", "read / write / signal source cancelled while inactive, then activated", "c16_cancel scenario 1 (cancel before activation): cancel handler count / library trap", False),
 "C17": ("_dispatch_lane_suspend decides 'first suspension' from the inline count alone (takes a second +2 when the side count or INACTIVE holds the suspension)", "64+ nested suspensions brought back to inline count 0, then another suspend; or a suspend of a still inactive queue", "c17_life balanced deep-suspension rounds (added): finalizer never runs", True),
 "C18": ("a single-threaded dispatch_apply on a root queue calls the body without the synchronous frame push", "dispatch_apply with one iteration onto a global queue from inside an item of a keyed queue", "L-fn get_specific probes through single-iteration apply paths (added)", True),
 "C19": ("_dispatch_block_async_invoke2 compares the flag word with DBF_CANCELED instead of testing the bit", "a block cancelled before it starts and dequeued while a dispatch_block_wait on it is in progress (CANCELED|WAITING)", "tr_block oracle (body ran after cancel)", False),
 "C20": ("to_utf16 surrogate branch without the 10-bit mask (values above U+10FFFF decoded from ill-formed UTF-8 yield a low surrogate in lead position)", "ill-formed UTF-8 encoding a value in 0x110000..0x1FFFFF", "L-fn differential; inverse-accepts oracle on the real results (added: the first run only said no-failing-input-found)", True),
}
root = os.path.join(os.path.dirname(os.path.dirname(os.path.abspath(__file__))), "seeded")
M5 = {
 "C01": ("_dispatch_async_redirect_invoke stops its width-return walk one hop early (rq->do_targetq != old_dq)", "an asynchronous item redirected through two concurrent queues above a root queue: the lower one never gets its unit of width back", "lane storm with chain=2 (concurrent queue targeting a second concurrent queue) and the at-rest check (added): a barrier item on the lower queue never runs / width bits differ at rest", True),
 "C02": ("_dispatch_lane_inherit_wlh_from_target clears only ROLE_BASE_WLH, the anon role bit survives a retarget under a serial queue", "a serial queue moved under a serial queue while active, then a contended dispatch_sync on it: the completion walk releases the target's drain lock it never held", "c02_retarget (added for F24): hang / overlap on the target", True),
 "C04": ("_dispatch_object_is_barrier tests the metatype for lanes only: DQF_BARRIER_BIT of a source is never consulted", "a DISPATCH_BLOCK_BARRIER block delivered by a source (dispatch_after with a future time) to a concurrent queue", "lane storm with block objects delivered by dispatch_after (added): a barrier overlapped another item", True),
 "C05": ("_dispatch_lane_push_waiter: 'no width in use' rewritten with an off-by-one on the available width", "a concurrent queue with exactly one unit of width in use and an empty list when dispatch_barrier_sync arrives", "c05_hb / lane storms: barrier_sync returned while the earlier item was still running", False),
 "C06": ("_dq_state_is_sync_runnable tests the inline suspend count only (misses INACTIVE / NEEDS_ACTIVATION)", "a non-barrier dispatch_sync on an idle, empty, initially-inactive concurrent queue", "c06_suspend scenarios 9 / 10 (inactive concurrent queue, sync caller first) (added); C01's DQ differential reports the function (no-failing-input-found)", True),
 "C07": ("_dispatch_group_wait_slow returns 0 as soon as the futex wait returns 0 (no re-read of the generation)", "a stale wake-up of the previous generation (or a spurious futex return) reaching a waiter of the new one", "tr_group with spurious futex returns / reused generations: wait returned 0 with work outstanding", False),
 "C08": ("_dispatch_semaphore_signal_slow skips the post when it re-reads a positive counter", "a sleeping waiter and two racing signals (slow path then fast path)", "tr_sema: waiter never released", False),
 "C09": ("_dispatch_once_gate_broadcast compares the owner bits only (waiters bit ignored): the wake-up is never issued", "one caller asleep on the gate when the initialiser completes", "tr_once: callers never released", False),
 "C10": ("_dispatch_apply_redirect restarts the thread count from the original value at every level (earlier excess forgotten)", "apply through two width-limited concurrent levels, the lower granting less than the upper", "tr_apply width-limited chains (added): more invocations at once than the narrowest queue admits", True),
 "C03": ("_dispatch_lane_drain no longer stops when the queue's target changed under it (orig_tq re-check removed)", "dispatch_set_target_queue on a busy queue from dispatch_queue_create with a backlog behind the change: the backlog runs outside the new serial target's lock", "C03's quantifier only has retargeting of inactive queues, so its check is rightly quiet; the overlap on the serial target (an ordinary serial queue) is reported by C02's c02_retarget (run lengthened)", True),
 "C11": ("_dispatch_timers_program no longer dirties the heap when the new minimum is already due", "a timer moved to a lower-index clock by dispatch_source_set_timer from its own overrunning handler, new start already due", "c11_timers re-clock-from-handler scenario, run first (added): the timer stops firing", True),
 "C12": ("_dispatch_timeout reads the clock twice (test, then subtraction)", "a deadline that falls between the two readings: the difference wraps to about 2^64 ns", "TOS differential (clocks that move on at every reading) (added): time-out larger than what was left", True),
 "C13": ("_dispatch_data_copy_region builds sliced regions with dispatch_data_create_subrange and keeps its own retain: the leaf is retained twice", "copy_region on a composite at a location inside a strict slice of a leaf", "c13_rc with copy_region among the derived operations (added): destructor never runs; DataRc replay", True),
 "C14": ("stream->source_running not cleared when the readiness source is suspended, recomputed at re-arm", "an operation that had to wait, the source fired, the stream drained, then DISPATCH_IO_STOP: the source is suspended twice", "c14_io / tr_iohold: operation never completes / cleanup handler never runs / trap (patch.diff rebased onto the F32 repair, which touches the same lines; the agent's patch is kept as patch.as-delivered.diff)", False),
 "C15": ("_dispatch_source_latch_and_call returns without the callout when the source is suspended - after the pending value was taken", "a suspension landing between invoke2's test and the callout with data pending", "tr_source storms with suspend / resume: merged sum lost", False),
 "C16": ("_dispatch_unote_unregister_muxed skips EPOLL_CTL_DEL for the last source when nothing is armed", "a read / write source cancelled from its own handler (one-shot event disarmed), descriptor kept open, then a second source on it", "c16_hangup self-cancel-then-again scenario (added): the second source never fires", True),
 "C17": ("dispatch_block_wait with a zero timeout takes the queue out of the block object but skips the wake-up that gives the +2 back", "a submitted, not yet started block object polled with DISPATCH_TIME_NOW", "c19_waitrace (written for F26): the queue's finalizer never runs", True),
 "C18": ("dispatch_get_specific stops its walk before root queues", "a key set on a global queue, read from an item on a queue targeting it", "SQ differential with a global queue as hierarchy member carrying keys (added)", True),
 "C19": ("_dispatch_group_wait_slow treats every non-zero futex return as the time-out", "a finite dispatch_block_wait (or group wait) interrupted by a signal", "c12_waits under signals, now also run by C19 / C07 (added): non-zero before the deadline", True),
 "C20": ("surrogate-pair branch of the UTF-8 to UTF-16 transform asks the buffer helper for 2 bytes plus 2 instead of 4", "a region ending with the first byte of a 4-byte sequence after ASCII only", "fragmented differential on the sanitizer build: heap overflow", False),
}
M10 = {
 "C06": ("_dispatch_lane_suspend_slow counts the caller's own suspension only on the first spill into the side count", "96 or more outstanding suspensions (second spill of the inline count)", "c06_suspend deep counts / SuspendP replay: runs one resume early", False),
 "C11": ("_dispatch_interval_config_create rounds the first fire of an interval source to the closest interval boundary instead of the next", "a DISPATCH_SOURCE_TYPE_INTERVAL source created in the first half of its period", "c11_interval (added) with C11.interval_source_first_fire: fired before its first boundary", True),
 "C13": ("_dispatch_data_copy_region stops its record walk with > instead of >= at offset + length", "dispatch_data_copy_region at the first byte of a record other than the first, on a composite", "L-fn region differential: region does not contain the location", False),
 "C15": ("_dispatch_source_install stores 0 into ds_pending_data before registering", "values merged into a data source before it is activated", "c15_regsusp: values merged before the registration handler were not delivered", False),
 "C16": ("_dispatch_source_wakeup no longer counts the cancel handler among the reasons to send a cancelled, unregistered source to its target queue", "a source with a cancellation handler and no event handler, cancelled before activation or after a peer hang-up", "c16_cancel cancel_only_unreg (added): cancellation handler never ran", True),
 "C20": ("single-record shortcut of dispatch_data_create_subrange drops the record's own starting offset", "a transform input with a region that is a sub-range (non-zero start) of a larger buffer", "X2 differential and round trip: every other region is now a sub-range of a larger leaf (added)", True),
}
M9 = {
 "C02": ("_dispatch_lane_resume decides to run the lock hand-off by 'drain lock owned by self' instead of the IN_BARRIER transition", "a running item of a serial queue suspends and resumes its own queue while other work is queued or parked", "c02_selfresume (added)", True),
 "C04": ("_dispatch_sync_block_with_privdata builds dc_flags from the block object's flags only, dropping the caller's DC_FLAG_BARRIER", "dispatch_barrier_sync with a dispatch_block_create object that has no DISPATCH_BLOCK_BARRIER flag, on a concurrent queue", "c04_width syncer: flag-less block objects through dispatch_barrier_sync (added)", True),
 "C05": ("_dispatch_continuation_with_group_invoke re-reads dc_data after the callout for the implied leave (the change of seeded7/C07)", "a dispatch_group_async item that itself submits into another group first", "tr_group nest now also run by C05 (added)", True),
 "C07": ("os_mpsc_pop_snapshot_head reads the next link without waiting for a push in flight", "two or more notifications in one snapshot while another thread is between its tail exchange and its link store", "tr_group push mode (pusher held after the tail exchange; added): notifications lost", True),
 "C08": ("a DISPATCH_TIME_NOW fast path in dispatch_semaphore_wait that re-tries its compare-and-swap without re-checking the value", "two pollers racing for the last permit", "tr_sema permit oracle / SemaP replay", False),
 "C09": ("dispatch_once_f spins on 'gate word != owner' before parking and returns when the word changes", "three or more callers: a second loser sets the waiters bit while the first is still spinning", "tr_once: returned before the initialiser had completed", False),
 "C12": ("dispatch_time drops its leading FOREVER test, relying on the decoded value", "dispatch_time(DISPATCH_TIME_FOREVER, non-zero delta)", "T differential and oracle (FOREVER not absorbing)", False),
 "C18": ("_dispatch_queue_init_specific publishes the list head with a plain store instead of a compare-and-swap", "two or more threads storing the first queue-specific values of a fresh queue at the same moment", "c18_firstset (added): a value stored is not found", True),
}
M8 = {
 "C01": ("_dispatch_queue_drain_try_lock leaves ENQUEUED set when a pool thread that popped the queue cannot take the drain lock because another thread owns it", "a synchronous caller owns the queue while the enqueued bit is set and a pool thread pops it in that window (readers + barrier_sync + barrier_async on one concurrent queue)", "lane storm / hierarchy oracles: items stranded", False),
 "C03": ("_dispatch_wait_compute_wlh takes a workloop for the wlh of its hierarchy by type", "two threads contending for an inner queue above a workloop bottom", "hierarchy oracle with a workloop bottom: overlap", False),
 "C06": ("suspended test of _dispatch_lane_drain moved into the serial / barrier arm", "a concurrent queue suspended by its own barrier item with non-barrier items pending behind it", "c06_suspend: item started after the barrier item had suspended the queue", False),
 "C10": ("loop index of _dispatch_apply_serial declared uint32_t", "2^32 or more iterations on the in-order path", "tr_apply big_serial (2^32 + 3 iterations on a serial queue; added)", True),
 "C11": ("_dispatch_timer_unote_resume keeps an armed timer in its old heap when set_timer moves it to another clock", "an armed timer re-set with a start on another clock", "c11_timers re-clock scenarios: fired before its start / never fired", False),
 "C13": ("dispatch_data_create_concat coalesces adjacent pieces of one leaf with the test tail.length == head.from", "concat of two pieces of one buffer where the left piece does not start at offset 0", "X differential / c13 oracle", False),
 "C14": ("the handler-call block of deliver_data releases the channel and the descriptor-entry hold before the handler call", "handler queue and cleanup queue differ, channel closed before the last handler returns", "tr_iohold / IoHold replay: cleanup handler before the handler returned", False),
 "C15": ("unconditional return after the registration-handler callout in _dispatch_source_invoke2", "values merged before the pass that runs the registration handler, none afterwards", "c15_regsusp merges-before-registration (added)", True),
 "C16": ("final wait loop of dispatch_source_cancel_and_wait no longer sets DSF_CANCEL_WAITER", "cancel_and_wait on a data source while its handler is in progress", "c16_cancel cw_busy (added): did not return", True),
 "C17": ("'needs to be uninstalled' branch of _dispatch_source_wakeup tests DSF_CANCELED only", "the last reference of an uncancelled source dropped from outside its handlers", "c17_life uncancelled_release_round (added): never finalised", True),
 "C19": ("_dispatch_group_notify splits its compare-and-swap into load, test and or", "dispatch_block_notify racing with the block's first completion", "tr_block / c19 oracle: notification lost", False),
 "C20": ("the two skip-consuming branches of the UTF-8 reader merged, keeping skip = 0", "a 3- or 4-byte sequence spanning three or more regions", "fragmented differential", False),
}
M7 = {
 "C01": ("_dispatch_main_queue_drain re-arms the main queue's wake-up handle only when an override was received", "a main-queue item spins a nested run-loop iteration that consumes the wake-up token; an item submitted during that item", "c01_mainq_wake (event-driven run loop on the main-queue handle; added): items stranded", True),
 "C02": ("stop_dq test of _dispatch_sync_complete_recurse moved after the step down to the target", "dispatch_async_and_wait item queued on a busy serial queue and run in place by its drainer", "order / overlap oracle of the lane storm; c02_retarget", False),
 "C03": ("_dispatch_lane_create_with_target takes the main queue for a global root queue (_dispatch_object_is_global)", "a hierarchy built with dispatch_queue_create_with_target on the main queue", "hierarchy oracle over the main queue (c03_hier / tr_apply bottoms)", False),
 "C04": ("_dispatch_lane_drain computes the queue's full width once at entry", "dispatch_queue_set_width on a busy concurrent queue (the setter is a barrier item run by the drainer), then a barrier while a reader runs", "c04_width (width changes on a busy queue; added): a reader started while a barrier item was running", True),
 "C05": ("_dispatch_lane_legacy_set_target_queue inherits the wlh role from the OLD target", "an active queue moved from a root queue under a serial queue, then contended synchronous submission", "c02_retarget now also run by C05 (added): items of the serial target overlapped", True),
 "C06": ("_futex_blocking_op returns EINTR to untimed waiters and _dispatch_thread_event_wait_slow takes it for the wake-up", "a signal (no SA_RESTART) at a thread blocked in dispatch_sync on a suspended / inactive queue", "c06_inactive part B (signals at blocked synchronous callers; added)", True),
 "C07": ("_dispatch_continuation_with_group_invoke re-reads dc_data after the callout for the implied leave", "a dispatch_group_async block whose first submission goes to another group / dispatch_after (the continuation is recycled)", "tr_group nest mode (added): trap / group never empty", True),
 "C08": ("timed branch of _dispatch_semaphore_wait_slow returns 0 when the value is non-negative again, without consuming the sem_post", "a signal landing between a timed waiter's decrement and its re-check", "tr_sema permit oracle and SemaP replay", False),
 "C09": ("_dispatch_once_wait sleeps on a re-read of the gate word instead of the value it published", "the initialiser completing between a waiter's CAS and its re-read", "tr_once with short initialisers and waiters held after their CAS (added); OnceChk now checks the value a waiter sleeps on", True),
 "C10": ("single-participant exit of dispatch_apply_f calls dispatch_barrier_sync_f", "dispatch_apply(1) on a custom concurrent queue while a reader runs / nested in an item of that queue", "tr_apply single_not_barrier (added)", True),
 "C11": ("_dispatch_timers_run marks the pending count DISARMED with load / or / store instead of one atomic or", "a microsecond repeating timer whose handler lags, many timers in the heap", "c11_fast (added): more firings reported than boundaries passed", True),
 "C12": ("underflow branch of dispatch_time's up-time/monotonic arm returns the literal 1 (an up-time value)", "a monotonic base with a negative delta reaching before the clock's origin", "T differential (clock changed)", False),
 "C13": ("avoid-boxing shortcut of dispatch_data_create_subrange compares with the leaf's size instead of the record's length", "a subrange of a composite that starts inside a partial record and crosses its end", "X differential / c13 oracle", False),
 "C14": ("final error delivery of a read hands the held-back bytes over with done instead of false", "a read that ends with an error (stop) while it holds bytes below the low-water mark", "c14_io / io oracle: done seen twice", False),
 "C15": ("_dispatch_source_latch_and_call loses its prev != 0 re-check", "DATA_ADD merges that cancel modulo 2^64 between the decision to deliver and the latch", "c15_wrap (added): a handler invocation reported zero", True),
 "C16": ("_dispatch_source_invoke2 tests the registration handler twice instead of the cancel handler when deciding to move to the target queue", "a source with a cancel handler and no event handler, cancelled from another thread", "c16_cancel cancel_only (added): cancel handler not on the target queue", True),
 "C17": ("dispatch_queue_set_specific uses the list head returned by _dispatch_queue_init_specific (freed by the loser of the publication race)", "two threads installing the first queue-specific values of a fresh queue at the same moment", "c17_life specific_race_round (added)", True),
 "C18": ("dispatch_get_global_queue clamps the QoS by range before the UNSPECIFIED test", "an undefined identifier", "GQ differential; generated global-queue map theorems", False),
 "C19": ("dispatch_group_leave clears the bits on a separate variable and wakes with the state read before the loop", "the first dispatch_block_notify landing inside the completing leave of a block object that has a waiter bit set", "tr_block / c19 oracle: notification lost", False),
 "C20": ("from_base64 sizes its per-region output (size * 3) / 4 instead of howmany(size, 4) * 3", "base64 text split so that a region completes a carried group", "sanitizer build / fragmented differential", False),
}
M6 = {
 "C01": ("_dispatch_async_and_wait_invoke records which queue ran the item while the thread frame still fakes the top queue", "dispatch_async_and_wait on a queue whose serial target is being drained: the caller returns without unlocking the upper queue", "hierarchy storms (c03_hier) now also run by C01 (added): later items stranded", True),
 "C03": ("_dispatch_queue_try_reserve_apply_width loses its width-1 test", "dispatch_apply on a concurrent queue whose hierarchy ends in the thread-bound main queue", "tr_apply (concurrent queue over the run-loop drained main queue) now also run by C03 (added)", True),
 "C04": ("_dispatch_lane_drain wakes a queued sync waiter without reserving a reader slot when the drainer has none left", "a saturated width-limited concurrent queue (or 4094 readers behind a barrier), then one reader in flight when a barrier arrives", "lane storm in narrow mode with barriers (added): a barrier started while a reader was running", True),
 "C05": ("stop_dq test of _dispatch_sync_complete_recurse hoisted out of the loop (the change of seeded3/C03)", "dispatch_async_and_wait run by the drainer of the target", "hierarchy hand-off storm (c03_hier) now also run by C05 (added)", True),
 "C06": ("_dispatch_lane_suspend_slow reads dq_side_suspend_cnt before taking the side lock", "two threads spilling into the side counter at the same moment", "c06_suspend scenario 11 (three threads suspend at once with the inline counter full) (added); a harness that dies without a verdict is now a violation", True),
 "C07": ("_dispatch_wake_by_address wakes -1 (= one) waiter instead of all", "two or more threads in dispatch_group_wait", "tr_group: waiters left behind", False),
 "C08": ("_dispatch_sema4_wait: 'continue' inside do-while(0) - an interrupted sem_wait is neither retried nor reported", "a signal handler without SA_RESTART interrupting an untimed wait", "tr_sema forced interrupted wait (added)", True),
 "C09": ("_dispatch_once_gate_tryenter takes the gate with load-compare-store while libdispatch has created no thread yet", "plain pthreads racing on a fresh predicate before any dispatch worker exists", "tr_once: initialiser ran twice", False),
 "C10": ("an apply with a single participant calls _dispatch_apply_serial directly instead of through dispatch_sync_f", "dispatch_apply of one iteration on a custom concurrent queue that has a running barrier, is suspended, or targets a busy serial queue", "tr_apply single-participant scenarios (added)", True),
 "C12": ("dispatch_walltime clamps an overflowing timespec to INT64_MAX / INT64_MIN and goes on to add delta", "a timespec beyond the int64 nanosecond range with a delta below -2^62", "WT differential and oracle", False),
 "C13": ("dispatch_data_create_subrange retains the source's leading records instead of the copied ones", "a subrange that skips a whole leading record and spans two or more", "c13_rc / DataRc replay: destructor ran while a derived object was alive", False),
 "C20": ("look-ahead branch of the UTF-16 reader assembles the straddling unit little-endian whatever the byte order", "UTF-16BE input cut inside a code unit", "fragmented differential", False),
 "C02": ("_futex_blocking_op returns EINTR to untimed FUTEX_WAIT callers and _dispatch_thread_event_wait_slow takes any return other than EWOULDBLOCK as 'woken'", "a signal (handler without SA_RESTART) delivered to a thread parked in dispatch_sync / dispatch_async_and_wait on a busy serial queue", "c02_retarget with a signal pinger: two items of a serial queue overlapped", True),
 "C11": ("_dispatch_timer_unote_needs_rearm tests the deadline instead of the target against INT64_MAX", "a one-shot timer with an unbounded leeway (DISPATCH_TIME_FOREVER, INT64_MAX): target + leeway saturates", "c11_timers with unbounded leeways: armed timer never fired", True),
 "C14": ("dispatch_io_close(DISPATCH_IO_STOP) returns early on a channel that is already closed (mask DIO_CLOSED|DIO_STOPPED)", "an operation in flight, a plain close that has taken effect, then a stop", "c14_stopclose: the operation in flight did not complete within 3 s of the stop", True),
 "C15": ("dispatch_source_get_data masks every source's value to 32 bits", "a merged / coalesced value with bits above 2^32", "c15 source oracle (a handler invocation reported zero) and c15_regsusp", False),
 "C16": ("dispatch_source_cancel skips the wake-up when the source is already DSF_DELETED", "a read source unregistered by a peer hang-up (or a failed registration), idle, then cancelled from outside its handler", "c16 cancel oracle: the cancel handler did not run exactly once", False),
 "C17": ("_dispatch_group_wake gives back one reference per pending notification instead of one per batch", "two or more notifications pending when a group (or a block object's private group) becomes empty", "c17_life group_round: a group finalised while the application still held its reference", True),
 "C18": ("_dispatch_queue_attr_to_info computes the table index before the copy-relocation fallback redirects the pointer", "a position-dependent executable (-fno-pie -no-pie), where DISPATCH_QUEUE_CONCURRENT is a COPY-relocated duplicate of the table entry", "L-fn attribute lines through a non-PIE build of harness/lfn.c", True),
 "C19": ("_dispatch_block_sync_invoke records dbpd_thread", "dispatch_block_wait racing with dispatch_sync of the block object (boost thread and boost queue both set: the library's misuse trap)", "c19_waitrace: trap while dispatch_block_wait raced with the submission", False),
}
for k, (what, needs, caught, strengthened) in sorted(M.items()):
    d = os.path.join(root, k)
    lines = open(os.path.join(d, "confirm.log")).read().strip().splitlines() if os.path.exists(os.path.join(d, "confirm.log")) else []
    json.dump({"property": k, "change": what, "needs_to_manifest": needs,
               "produced_by": "sub-agent given only the property text and its own scratch worktree",
               "confirmed": {"how": "scripts/confirm_seed.sh %s seeded/%s: patch applies to HEAD in a scratch worktree, library builds, ctest (22 programs) passes with the "
                                    "patch, demo fails with it (>= 2 of 3 runs) and passes without it (3 of 3)" % (k, k), "result": " | ".join(lines[-2:]) or "not confirmed"},
               "check_run": "git -C /repo apply /verif/seeded/%s/patch.diff; ./check %s; git -C /repo checkout -- ." % (k, k),
               "caught_by": caught, "tier": "quick", "check_strengthened_because_of_this_seed": strengthened},
              open(os.path.join(d, "meta.json"), "w"), indent=1)
root2 = os.path.join(os.path.dirname(root), "seeded2")
for k, (what, needs, caught, strengthened) in sorted(M2.items()):
    d = os.path.join(root2, k)
    lines = open(os.path.join(d, "confirm.log")).read().strip().splitlines() if os.path.exists(os.path.join(d, "confirm.log")) else []
    json.dump({"property": k, "round": 2, "change": what, "needs_to_manifest": needs,
               "produced_by": "sub-agent given the property text, its own scratch worktree, and a one-line description of the first-round seed to avoid",
               "confirmed": {"how": "scripts/confirm_seed.sh %s seeded2/%s" % (k, k), "result": " | ".join(lines[-2:]) or "not confirmed"},
               "check_run": "git -C /repo apply /verif/seeded2/%s/patch.diff; ./check %s; git -C /repo checkout -- ." % (k, k),
               "caught_by": caught, "tier": "quick", "missed_at_first_and_check_strengthened": strengthened},
              open(os.path.join(d, "meta.json"), "w"), indent=1)
root3 = os.path.join(os.path.dirname(root), "seeded3")
for k, (what, needs, caught, strengthened) in sorted(M3.items()):
    d = os.path.join(root3, k)
    if not os.path.isdir(d): continue
    lines = open(os.path.join(d, "confirm.log")).read().strip().splitlines() if os.path.exists(os.path.join(d, "confirm.log")) else []
    json.dump({"property": k, "round": 3, "change": what, "needs_to_manifest": needs,
               "produced_by": "sub-agent given the property text, its own scratch worktree, and one-line descriptions of the two earlier seeds to avoid",
               "confirmed": {"how": "scripts/confirm_seed.sh %s /verif/seeded3/%s" % (k, k), "result": " | ".join(lines[-2:]) or "not confirmed"},
               "check_run": "scripts/try_seed.sh %s seeded3/%s" % (k, k),
               "caught_by": caught, "tier": "quick", "missed_at_first_and_check_strengthened": strengthened},
              open(os.path.join(d, "meta.json"), "w"), indent=1)
root4 = os.path.join(os.path.dirname(root), "seeded4")
for k, (what, needs, caught, strengthened) in sorted(M4.items()):
    d = os.path.join(root4, k)
    if not os.path.isdir(d): continue
    lines = open(os.path.join(d, "confirm.log")).read().strip().splitlines() if os.path.exists(os.path.join(d, "confirm.log")) else []
    json.dump({"property": k, "round": 4, "change": what, "needs_to_manifest": needs,
               "produced_by": "sub-agent given the property text, its own scratch worktree, and one-line descriptions of the three earlier seeds to avoid",
               "confirmed": {"how": "scripts/confirm_seed.sh %s /verif/seeded4/%s" % (k, k), "result": " | ".join(lines[-2:]) or "not confirmed"},
               "check_run": "scripts/try_seed.sh %s seeded4/%s" % (k, k),
               "caught_by": caught, "tier": "quick", "missed_at_first_and_check_strengthened": strengthened},
              open(os.path.join(d, "meta.json"), "w"), indent=1)
root5 = os.path.join(os.path.dirname(root), "seeded5")
for k, (what, needs, caught, strengthened) in sorted(M5.items()):
    d = os.path.join(root5, k)
    if not os.path.isdir(d): continue
    lines = open(os.path.join(d, "confirm.log")).read().strip().splitlines() if os.path.exists(os.path.join(d, "confirm.log")) else []
    json.dump({"property": k, "round": 5, "change": what, "needs_to_manifest": needs,
               "produced_by": "sub-agent given the property text, its own scratch worktree, and one-line descriptions of the four earlier seeds to avoid; asked for side observations on the unchanged code with reproducers (side_*.c)",
               "confirmed": {"how": "scripts/confirm_seed.sh %s /verif/seeded5/%s" % (k, k), "result": " | ".join(lines[-2:]) or "not confirmed"},
               "check_run": "scripts/try_seed.sh %s seeded5/%s" % (k, k),
               "caught_by": caught, "tier": "quick", "missed_at_first_and_check_strengthened": strengthened},
              open(os.path.join(d, "meta.json"), "w"), indent=1)
root6 = os.path.join(os.path.dirname(root), "seeded6")
for k, (what, needs, caught, strengthened) in sorted(M6.items()):
    d = os.path.join(root6, k)
    if not os.path.isdir(d): continue
    lines = open(os.path.join(d, "confirm.log")).read().strip().splitlines() if os.path.exists(os.path.join(d, "confirm.log")) else []
    json.dump({"property": k, "round": 6, "change": what, "needs_to_manifest": needs,
               "produced_by": "sub-agent given the property text, its own scratch worktree, and one-line descriptions of the five earlier seeds to avoid; asked for side observations on the unchanged code with reproducers (side_*.c)",
               "confirmed": {"how": "scripts/confirm_seed.sh %s /verif/seeded6/%s" % (k, k), "result": " | ".join(lines[-2:]) or "not confirmed"},
               "check_run": "scripts/try_seed.sh %s seeded6/%s" % (k, k),
               "caught_by": caught, "tier": "quick", "missed_at_first_and_check_strengthened": strengthened},
              open(os.path.join(d, "meta.json"), "w"), indent=1)
root7 = os.path.join(os.path.dirname(root), "seeded7")
for k, (what, needs, caught, strengthened) in sorted(M7.items()):
    d = os.path.join(root7, k)
    if not os.path.isdir(d): continue
    lines = open(os.path.join(d, "confirm.log")).read().strip().splitlines() if os.path.exists(os.path.join(d, "confirm.log")) else []
    json.dump({"property": k, "round": 7, "change": what, "needs_to_manifest": needs,
               "produced_by": "sub-agent given the property text, its own scratch worktree, and one-line descriptions of the six earlier seeds to avoid; asked for side observations on the unchanged code with reproducers (side_*.c), each also run with poisoned frees",
               "confirmed": {"how": "scripts/confirm_seed.sh %s /verif/seeded7/%s" % (k, k), "result": " | ".join(lines[-2:]) or "not confirmed"},
               "check_run": "scripts/try_seed.sh %s seeded7/%s" % (k, k),
               "caught_by": caught, "tier": "quick", "missed_at_first_and_check_strengthened": strengthened},
              open(os.path.join(d, "meta.json"), "w"), indent=1)
root8 = os.path.join(os.path.dirname(root), "seeded8")
for k, (what, needs, caught, strengthened) in sorted(M8.items()):
    d = os.path.join(root8, k)
    if not os.path.isdir(d): continue
    lines = open(os.path.join(d, "confirm.log")).read().strip().splitlines() if os.path.exists(os.path.join(d, "confirm.log")) else []
    json.dump({"property": k, "round": 8, "change": what, "needs_to_manifest": needs,
               "produced_by": "sub-agent given the property text, its own scratch worktree, and one-line descriptions of the seven earlier seeds to avoid; asked for side observations on the unchanged code with reproducers (side_*.c), each also run with poisoned frees",
               "confirmed": {"how": "scripts/confirm_seed.sh %s /verif/seeded8/%s" % (k, k), "result": " | ".join(lines[-2:]) or "not confirmed"},
               "check_run": "scripts/try_seed.sh %s seeded8/%s" % (k, k),
               "caught_by": caught, "tier": "quick", "missed_at_first_and_check_strengthened": strengthened},
              open(os.path.join(d, "meta.json"), "w"), indent=1)
root9 = os.path.join(os.path.dirname(root), "seeded9")
for k, (what, needs, caught, strengthened) in sorted(M9.items()):
    d = os.path.join(root9, k)
    if not os.path.isdir(d): continue
    lines = open(os.path.join(d, "confirm.log")).read().strip().splitlines() if os.path.exists(os.path.join(d, "confirm.log")) else []
    json.dump({"property": k, "round": 9, "change": what, "needs_to_manifest": needs,
               "produced_by": "sub-agent given the property text, its own scratch worktree, and one-line descriptions of the seven earlier seeds to avoid; asked for side observations on the unchanged code with reproducers (side_*.c), each also run with poisoned frees",
               "confirmed": {"how": "scripts/confirm_seed.sh %s /verif/seeded9/%s" % (k, k), "result": " | ".join(lines[-2:]) or "not confirmed"},
               "check_run": "scripts/try_seed.sh %s seeded9/%s" % (k, k),
               "caught_by": caught, "tier": "quick", "missed_at_first_and_check_strengthened": strengthened},
              open(os.path.join(d, "meta.json"), "w"), indent=1)
root10 = os.path.join(os.path.dirname(root), "seeded10")
for k, (what, needs, caught, strengthened) in sorted(M10.items()):
    d = os.path.join(root10, k)
    if not os.path.isdir(d): continue
    lines = open(os.path.join(d, "confirm.log")).read().strip().splitlines() if os.path.exists(os.path.join(d, "confirm.log")) else []
    json.dump({"property": k, "round": 10, "change": what, "needs_to_manifest": needs,
               "produced_by": "sub-agent given the property text, its own scratch worktree, and one-line descriptions of the eight earlier seeds to avoid; asked for side observations on the unchanged code with reproducers (side_*.c), each also run with poisoned frees",
               "confirmed": {"how": "scripts/confirm_seed.sh %s /verif/seeded10/%s" % (k, k), "result": " | ".join(lines[-2:]) or "not confirmed"},
               "check_run": "scripts/try_seed.sh %s seeded10/%s" % (k, k),
               "caught_by": caught, "tier": "quick", "missed_at_first_and_check_strengthened": strengthened},
              open(os.path.join(d, "meta.json"), "w"), indent=1)
import glob
for mf in glob.glob(os.path.join(os.path.dirname(root), "seeded*", "C*", "meta.json")):
    if os.path.exists(os.path.join(os.path.dirname(mf), "patch.as-delivered.diff")):
        m = json.load(open(mf)); m["rebased"] = "patch.diff was rebased onto later fix: commits that changed its context lines; the change itself is the same. As delivered: patch.as-delivered.diff"
        json.dump(m, open(mf, "w"), indent=1)
print("meta.json written for", len(M), "+", len(M2), "+", len(M3), "+", len(M4), "+", len(M5), "+", len(M6), "+", len(M7), "+", len(M8), "+", len(M9), "+", len(M10), "seeds")
