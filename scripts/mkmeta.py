#!/usr/bin/env python3
"""Writes seeded/<id>/meta.json for every kept seeded change (what it breaks, what it needs, how it was confirmed, which check catches it)."""
import json, os
M = {
 "C01": ("pool thread request (dgq_pending) leaked by a hoisted early return in _dispatch_root_queue_poke_slow", "a non-overcommit root queue poked while its pthread pool is full; later submissions then never get a worker", "c01_pool oracle phase 2 (pool saturated, then new work must still run) + root-pool trace replay", False),
 "C02": ("sync fast path accepts a queue whose state has ENQUEUED / max-QoS bits set (wrong mask in try_acquire_barrier_sync_and_suspend)", "dispatch_sync racing an async submission that has enqueued but whose drain has not started", "tr_lane order oracle (serial FIFO w.r.t. returned submissions) and L-trace (transition not a step of LaneW / LaneR)", False),
 "C04": ("reader fast path of dispatch_sync on a concurrent queue no longer looks at dq_items_tail", "a barrier queued behind a drainer in non-barrier mode while a sync reader arrives", "tr_lane barrier order oracle", False),
 "C06": ("side suspend count bit cleared too early in _dispatch_lane_resume_slow", "more than 95 nested suspensions (two overflows into the side count), then resumes", "c06_suspend oracle at nesting depth 96+, L-trace through SuspendP.step", False),
 "C07": ("dispatch_group_enter made a 64-bit subtract: the borrow reaches the generation", "a waiter blocked across leave / enter back-to-back (group re-entered immediately)", "tr_group reenter mode (added after the first run only reported no-failing-input-found) + L-trace through GroupP.step", True),
 "C08": ("unconditional re-increment in the timed-out path of _dispatch_semaphore_wait_slow", "a timed wait expiring while a signal is in flight", "tr_sema permit-count oracle + L-trace through SemaP.step", False),
 "C09": ("gate broadcast wakes one sleeper instead of all", "two or more threads asleep in _dispatch_once_wait when the initialiser completes", "tr_once oracle (every caller returns) + trace", False),
 "C12": ("dispatch_time wall arm: <= 1 became < 1 (result FOREVER for a finite base)", "wall-clock base B and negative delta with B + delta == 1 exactly", "L-fn differential against Core/Time.lean (boundary inputs in the generator)", False),
 "C13": ("subrange clamp rewritten as offset + length > size (size_t wrap)", "length > SIZE_MAX - offset", "L-fn differential against DataP; python byte-string oracle added after the first run only reported no-failing-input-found", True),
 "C15": ("merge_data skips the wakeup when data was already pending (check-then-act)", "a latch between the merger's load and its add", "tr_source conservation oracle with yield perturbation at the merge / latch sites (added after the quick tier missed it)", True),
 "C16": ("flags load hoisted above the registration-handler callout in _dispatch_source_invoke2", "cancel from the registration handler with an event already pending", "c16_cancel oracle scenario 2 (cancel from the registration handler with pending data)", False),
 "C20": ("wrong skip when a low surrogate straddles regions in UTF-16 -> UTF-8", "a surrogate pair split across regions with the low unit starting in the next region", "L-fn differential on fragmented inputs against Utf16P", False),
 "C03": ("sync waiter woken without being re-queued on a concurrent target whose width reservation failed", "two consecutive concurrent queues above a serial bottom, non-barrier sync on the upper one taking the slow path while the middle one has an item queued", "c03_hier oracle (exclusion across the hierarchy: overlap / hang)", False),
 "C05": ("thread event wait returns as soon as FUTEX_WAIT returns 0 (no re-read of the value)", "a stale FUTEX_WAKE aimed at an earlier event at the same stack address (signaller delayed between increment and wake)", "L-trace through EventP (deterministic: the thread leaves the wait without reading 0) and c05_hb oracle under injected futex delays (library trap / overlap)", False),
 "C10": ("apply participants check da_index with a relaxed load, then increment (check-then-act)", "several helpers entering the claim prologue with fewer indices left than helpers", "tr_apply oracle (index out of range / hang) once yield perturbation was added inside _dispatch_apply_invoke2 (missed before)", True),
 "C11": ("resift skips _dispatch_timer_heap_set when the timer did not move: dth_needs_program not raised", "the earliest timer re-armed to an earlier time while it stays the heap root", "heap L-fn with the dth_needs_program flag modelled (added: missed before) + c11_timers re-arm-earlier scenario (added)", True),
 "C14": ("read buffer sized as a whole chunk although data is parked (dead else-if)", "low-water mark above the chunk size, high-water not a multiple of the chunk", "L-fn io read differential with a small chunk size via _dispatch_iocntl (added: missed before) + direct oracle on handler deliveries (size > high water)", True),
 "C17": ("_dispatch_async_redirect_invoke consumes the item's +2 on the top queue before walking the intermediate queues", "concurrent top -> concurrent mid, mid released early by the application, last release of top while an item of top runs, top without finalizer", "c17_life oracle (library trap 'corrupt state' / finalizer missing) on hooked and ASan builds", False),
 "C18": ("thread frame walk pops a saved frame on every hop (dropped dq == dtf_queue test)", "dispatch_sync from inside another queue context, assertion about a submitting queue that is not drain-locked by the caller", "L-fn assert differential (QueueP.assertAccepts)", False),
 "C19": ("timed-out dispatch_block_wait stores the flag snapshot back (overwrites DBF_CANCELED)", "cancel from another thread during a timed wait that times out", "tr_block oracle (testcancel 0 after cancel); L-trace (flags transition by a store instead of an and)", False),
}
M2 = {
 "C01": ("DC_FLAG_BARRIER kept on a dispatch_sync waiter redirected to a concurrent target whose width could not be reserved", "a queue whose target is a non-root concurrent queue, a parked dispatch_sync caller handed the queue while the target is not reservable", "lane storm with chained queues (serial queue targeting the concurrent one): hang / stranded items", True),
 "C02": ("dispatch_async_and_wait of a block object created without DISPATCH_BLOCK_BARRIER reaches a serial queue without the barrier flag", "dispatch_async_and_wait (block form) with dispatch_block_create blocks on an idle serial queue from two threads", "lane storm with block-object submissions: library trap / overlap", True),
 "C03": ("queues whose target is a workloop or the main queue get role BASE instead of INNER", "hierarchy whose bottom is a workloop / the main queue, dispatch_sync slow path on the queue directly above it", "hierarchy storm with workloop bottoms (possible only after the F16 repair): overlap / hang", True),
 "C04": ("_dispatch_apply_redirect relinquishes more width than it reserved", "dispatch_apply on a concurrent queue with fewer free reader slots than it wants, then a barrier", "lane storm: barrier order oracle", False),
 "C05": ("timed-out / polling dispatch_semaphore_wait re-increments unconditionally (a signal yields two permits)", "a signal landing between the waiter's decrement and its undo, then a blocking wait", "c05_hb polling consumer over sequentially written slots", True),
 "C06": ("_dispatch_lane_barrier_complete ignores suspension when handing the queue to the waiter at the head", "a synchronously running barrier item suspends its own queue while a blocked dispatch_sync caller / async items are queued", "c06_suspend scenarios 4 and 5", True),
 "C07": ("a dispatch_group_wait that times out clears DISPATCH_GROUP_HAS_WAITERS", "two waiters on one generation, one timing out before the count reaches zero", "tr_group mixed mode; GroupP replay (transition not a step)", True),
 "C08": ("_dispatch_sema4_timedwait treats EINTR as a timeout", "a timed wait interrupted by a signal handler installed without SA_RESTART", "tr_sema with interruptions: non-zero before the timeout elapsed", False),
 "C09": ("_dispatch_once_wait does a single compare-and-swap instead of the retry loop", "an owner inside the initialiser and two waiters racing to set the waiters bit", "tr_once racing-callers oracle", False),
 "C10": ("_dispatch_apply_redirect does not relinquish the width reserved on upper levels when a lower level grants none", "dispatch_apply on a concurrent queue targeting a serial one, then a barrier and another apply", "tr_apply with barriers on the chained queues: hang", True),
 "C11": ("_dispatch_timer_unote_configure clears pending data only when the timer is not armed", "dispatch_source_set_timer while one firing of the old schedule is latched behind a busy target queue", "c11_timers latched-firing scenario (single firing, timer still armed)", True),
 "C12": ("dispatch_time wall arm returns -(int64_t)value without the range check", "wall-clock base plus a positive delta of 89 to 292 years", "L-fn differential against Core/Time.lean", False),
 "C13": ("_dispatch_data_copy_region accumulates the 'from' of skipped records", "copy_region at a location in a later record of a concatenation whose earlier record is a front-trimmed subrange", "L-fn differential against DataP", False),
 "C14": ("write branch of deliver_data trims by buf_len (already zeroed) instead of buf_siz", "a multi-buffer write of a fragmented data object where a buffer is used up below the low-water mark", "c14_io write rounds with fragmented data and water marks; L-fn write differential against IoW", True),
 "C15": ("latch by load + store instead of an atomic exchange", "a merge from another CPU between the load and the store", "tr_source conservation oracle", False),
 "C16": ("dispatch_source_cancel wakes the source without DISPATCH_WAKEUP_MAKE_DIRTY", "a cancel from a foreign thread while the manager holds the source's drain lock, on a descriptor that stays quiet", "c16_cancel quiet-descriptor trials with perturbation on the source's atomic sites", True),
 "C17": ("the new target is retained only when the deferred change of target runs", "dispatch_set_target_queue on a busy queue, the new target released before the deferred barrier runs", "c17_life retarget scenario on hooked and ASan builds (use after free / trap)", True),
 "C18": ("sync waiter context records the waited-on queue instead of the submitted-to queue", "dispatch_sync onto a queue above a thread-bound queue (main queue drained run-loop style) from another thread", "c18_bound oracle", True),
 "C19": ("a cancelled block object invoked directly returns without counting as performed", "a block cancelled before it starts, executed by a plain call, observed by wait / notify", "tr_block oracle", False),
 "C20": ("_dispatch_data_subrange_map accepts a short sub-range", "input whose final element is cut short by the end of the data", "L-fn differential (NULL expected) + ASan", False),
}
M3 = {
 "C01": ("os_mpsc_pop_head stores the new head after the tail compare-and-swap instead of before (one store instead of two)", "the popped item is the last one and another submission lands between the tail CAS and the late head store", "lane storm with yield perturbation at the atomic sites: stranded items / hang (STUCK)", False),
 "C02": ("main queue callback: a refused nested call clears the outer drain's re-entrancy guard; the drain adopts the anonymous wlh recursively", "the main queue drained run-loop style and an item spinning a nested run loop that calls the drain callback at least twice", "c02_mainq (added): run-loop drained main queue with nested callback calls inside items: overlap / order", True),
 "C03": ("stop_dq test of _dispatch_sync_complete_recurse hoisted out of the per-level loop", "dispatch_async_and_wait through an upper queue of a hierarchy whose serial bottom is busy, then a dispatch_sync", "c03_hier with async_and_wait / barrier_async_and_wait submissions (added): overlap across the hierarchy, then hang (watchdog added)", True),
 "C04": ("retry path of _dispatch_lane_drain_non_barriers does not test the new head for being a barrier", "a barrier landing between the list becoming empty and the unlock of a dispatch_barrier_sync that redirects queued readers", "lane storm: the library traps (barrier redirected as a reader)", False),
 "C05": ("dispatch_group_wait computes the generation to wait on from new_state only when it set the waiters bit itself (otherwise generation 0)", "a re-used group (generation != 0), waiters bit already set by another waiter or an expired timed wait, group not empty", "c05_hb re-used group with a timed-out wait followed by two concurrent waits (added); also tr_group storm (C07)", True),
 "C06": ("_dispatch_queue_invoke_finish decides not to re-enqueue from a read of dq_state made before its compare-and-swap loop", "the last resume, from another thread, landing between that read and the compare-and-swap", "c06_suspend hand-over scenario with the drainer held after reads of dq_state (added); FinishW replay of every invoke_finish compare-and-swap (added: the written word is runnable and not enqueued)", True),
 "C07": ("_dispatch_group_wait_slow treats any non-zero return of the address wait as a timeout (EINTR)", "a timed wait interrupted by a signal handler installed without SA_RESTART", "tr_group mixed mode with signals sent to the blocked waiters (added): non-zero before the timeout elapsed", True),
 "C08": ("a timed-out / polling waiter that finds a signal already posted consumes it but still returns the timeout result", "a signal landing between the waiter's decrement (or expiry) and its undo compare-and-swap", "tr_sema permit-count oracle", False),
 "C09": ("_futex_blocking_op maps EINTR of an untimed wait to 0, and _dispatch_once_wait takes a 0 return as 'the gate is DONE'", "a signal (handler without SA_RESTART) or a spurious futex return at a caller parked on the gate while the initialiser runs", "tr_once with signals at the parked callers and injected spurious futex returns (added); OnceP now lets the futex wait return at any time", True),
 "C10": ("_dispatch_queue_try_reserve_apply_width no longer refuses width-1 queues", "dispatch_apply on a concurrent queue whose target is a thread-bound serial queue (the main queue drained run-loop style)", "tr_apply with a concurrent queue targeting the main queue, drained by the main thread through the run-loop callback (added): index order", True),
 "C11": ("_dispatch_source_timer_data calls compute_missed without the now >= target re-check", "a repeating timer that fires while its source is suspended, resumed before the next boundary", "c11_timers suspended-across-one-boundary scenario (added): total reported exceeds the boundaries passed", True),
 "C12": ("dispatch_time: the NOW test of the non-wall arm masks bit 62 instead of bit 63 (DISPATCH_MONOTONICTIME_NOW not resolved)", "base exactly 1<<63", "L-fn differential against Core/Time.lean (base 1<<63 with the clock reading passed in)", False),
 "C13": ("dispatch_data_create_map passes &dd to _dispatch_data_map_direct: the returned object is the backing leaf", "mapping a trivial subrange (one record into a leaf) and using the returned object as data", "c13_rc / data oracle (size mismatch) and L-fn against DataP", False),
 "C14": ("dispatch_group_enter of the barrier group moved from _dispatch_operation_enqueue to _dispatch_operation_should_enqueue (one hop later)", "dispatch_io_barrier right after an operation on an otherwise idle descriptor", "c14_io barrier-order oracle", False),
 "C15": ("_dispatch_queue_wakeup does not set DIRTY for a MAKE_DIRTY wakeup when the drain lock is held by the caller", "dispatch_source_merge_data from the source's own handler, source targeting NULL / an overcommit global queue, no later external merge", "tr_source self-retriggering chains on NULL / overcommit / global / serial / concurrent targets (added)", True),
 "C16": ("dispatch_source_cancel_and_wait skips the wakeup and the activation when DSF_CANCELED was already set", "a never-activated source: dispatch_source_cancel, then dispatch_source_cancel_and_wait", "c16_cancel scenarios 7 and 8 (never activated; cancel_and_wait with and without a prior cancel) (added)", True),
 "C17": ("_dispatch_timer_unote_resume releases the heap's +2 on disarm and does not retain on re-arm when the timer was armed (stale was_armed)", "an armed timer re-programmed onto another clock (another heap), then firing", "c17_life re-clocked timer rounds (added): finalizer while referenced / library trap", True),
 "C18": ("_dispatch_qos_class_valid: relative priority range check rewritten as one unsigned comparison, off by one (-15 rejected)", "dispatch_queue_attr_make_with_qos_class(attr, cls, QOS_MIN_RELATIVE_PRIORITY)", "L-fn attribute constructor differential against AttrP (all relative priorities)", False),
 "C19": ("dispatch_block_cancel returns early when the block object has already been performed", "cancel after the block's first execution completed, then testcancel / another execution", "tr_block oracle (testcancel after cancel; body ran after cancel)", False),
 "C20": ("base32 decoder: pad count became local to the per-region block (restarts at 0 for every region)", "Base32 / Base32Hex text whose trailing '=' run is cut by a region boundary", "L-fn differential on fragmented inputs against B32 / B32H; round-trip oracle", False),
}
M4 = {
 "C01": ("_dispatch_queue_class_invoke passes done=true to drain_try_unlock also for WAIT_FOR_EVENT (out of width): DIRTY is not left", "a concurrent queue with more unfinished asynchronous items than width, refilled at least twice, one in-flight item waiting for a later one", "lane storm in narrow mode (dispatch_queue_set_width 2 / 5, flooded, first item waits for the last) (added): stranded items; the unlock transition is then also not a step of LaneW", True),
 "C02": ("_dispatch_runloop_root_queue_perform_4CF holds an internal instead of an external reference across the item", "a run-loop queue whose last external reference is released by the running item while more items are queued", "c02_mainq run-loop queue rounds (added): overlap / order", True),
 "C03": ("_dispatch_thread_event_wait_slow returns as soon as the futex wait reports 0 (no re-read of the event word)", "a parked synchronous caller and a stray FUTEX_WAKE / spurious futex return", "c03_hier with spurious futex returns injected at the parked callers (added): overlap in the hierarchy", True),
 "C04": ("_dispatch_lane_resume tests 'suspended' instead of 'not runnable' before taking the barrier lock", "reader running, barrier parked behind it (PENDING_BARRIER), queue suspended and resumed", "lane storm: barrier order oracle / library trap", False),
 "C05": ("_dispatch_sema4_timedwait returns 'acquired' on EINTR", "a timed semaphore wait interrupted by a signal handler installed without SA_RESTART", "c05_hb with signals sent to the thread that runs the semaphore / group / once edges (added)", True),
 "C06": ("dispatch_activate on an inactive queue with an outstanding suspension clears NEEDS_ACTIVATION too (gives one suspension back)", "queue created inactive, suspended, then activated before the resumes", "c06_suspend scenario 7 (inactive, suspended, activated first) (added); the transition is not a step of ActP", True),
 "C07": ("the leave that empties the group wakes with the state saved before its compare-and-swap (a HAS_NOTIFS set in between is cleared without being served)", "waiters bit pending, empty notification list, dispatch_group_notify landing between the leave's add and its compare-and-swap", "tr_group 'wn' mode (added): the notification is never submitted", True),
 "C08": ("_dispatch_sema4_timedwait tests errno == ETIMEDOUT without ret == -1 (stale errno from an earlier timeout)", "a thread whose errno is ETIMEDOUT from an earlier timed-out wait, then a timed wait that is woken by a signal", "tr_sema: waiter never released (no-progress watchdog added: the first detection took 20 minutes of time-outs)", False),
 "C09": ("the DONE test of _dispatch_once_wait hoisted in front of its rmw loop", "the owner's exchange landing between a waiter's load and its compare-and-swap: the waiter sleeps on the DONE word for ever", "tr_once: callers never released", False),
 "C10": ("_futex_blocking_op returns EINTR for untimed waits and _dispatch_thread_event_wait_slow treats any return but EWOULDBLOCK as a wake-up", "a signal (handler without SA_RESTART) at the thread that called dispatch_apply while it waits for the helpers", "tr_apply with signals sent to the calling threads (added): return before all invocations finished", True),
}
root = os.path.join(os.path.dirname(os.path.dirname(os.path.abspath(__file__))), "seeded")
for k, (what, needs, caught, strengthened) in sorted(M.items()):
    d = os.path.join(root, k)
    lines = open(os.path.join(d, "confirm.log")).read().strip().splitlines() if os.path.exists(os.path.join(d, "confirm.log")) else []
    json.dump({"property": k, "change": what, "needs_to_manifest": needs,
               "produced_by": "sub-agent given only the property text and its own scratch worktree",
               "confirmed": {"how": "scripts/confirm_seed.sh %s seeded/%s: patch applies to HEAD in a scratch worktree, library builds, ctest (22 programs) passes with the "
                                    "patch, demo fails with it (>= 2 of 3 runs) and passes without it (3 of 3)" % (k, k), "result": " | ".join(lines[-2:]) or "not confirmed"},
               "check_run": "git -C /repo apply /verif/seeded/%s/patch.diff; ./check %s; git -C /repo checkout -- ." % (k, k),
               "caught_by": caught, "tier": "quick", "check_strengthened_because_of_this_seed": strengthened},
              open(os.path.join(d, "meta.json"), "w"), indent=1)
root2 = os.path.join(os.path.dirname(root), "seeded2")
for k, (what, needs, caught, strengthened) in sorted(M2.items()):
    d = os.path.join(root2, k)
    lines = open(os.path.join(d, "confirm.log")).read().strip().splitlines() if os.path.exists(os.path.join(d, "confirm.log")) else []
    json.dump({"property": k, "round": 2, "change": what, "needs_to_manifest": needs,
               "produced_by": "sub-agent given the property text, its own scratch worktree, and a one-line description of the first-round seed to avoid",
               "confirmed": {"how": "scripts/confirm_seed.sh %s seeded2/%s" % (k, k), "result": " | ".join(lines[-2:]) or "not confirmed"},
               "check_run": "git -C /repo apply /verif/seeded2/%s/patch.diff; ./check %s; git -C /repo checkout -- ." % (k, k),
               "caught_by": caught, "tier": "quick", "missed_at_first_and_check_strengthened": strengthened},
              open(os.path.join(d, "meta.json"), "w"), indent=1)
root3 = os.path.join(os.path.dirname(root), "seeded3")
for k, (what, needs, caught, strengthened) in sorted(M3.items()):
    d = os.path.join(root3, k)
    if not os.path.isdir(d): continue
    lines = open(os.path.join(d, "confirm.log")).read().strip().splitlines() if os.path.exists(os.path.join(d, "confirm.log")) else []
    json.dump({"property": k, "round": 3, "change": what, "needs_to_manifest": needs,
               "produced_by": "sub-agent given the property text, its own scratch worktree, and one-line descriptions of the two earlier seeds to avoid",
               "confirmed": {"how": "scripts/confirm_seed.sh %s /verif/seeded3/%s" % (k, k), "result": " | ".join(lines[-2:]) or "not confirmed"},
               "check_run": "scripts/try_seed.sh %s seeded3/%s" % (k, k),
               "caught_by": caught, "tier": "quick", "missed_at_first_and_check_strengthened": strengthened},
              open(os.path.join(d, "meta.json"), "w"), indent=1)
root4 = os.path.join(os.path.dirname(root), "seeded4")
for k, (what, needs, caught, strengthened) in sorted(M4.items()):
    d = os.path.join(root4, k)
    if not os.path.isdir(d): continue
    lines = open(os.path.join(d, "confirm.log")).read().strip().splitlines() if os.path.exists(os.path.join(d, "confirm.log")) else []
    json.dump({"property": k, "round": 4, "change": what, "needs_to_manifest": needs,
               "produced_by": "sub-agent given the property text, its own scratch worktree, and one-line descriptions of the three earlier seeds to avoid",
               "confirmed": {"how": "scripts/confirm_seed.sh %s /verif/seeded4/%s" % (k, k), "result": " | ".join(lines[-2:]) or "not confirmed"},
               "check_run": "scripts/try_seed.sh %s seeded4/%s" % (k, k),
               "caught_by": caught, "tier": "quick", "missed_at_first_and_check_strengthened": strengthened},
              open(os.path.join(d, "meta.json"), "w"), indent=1)
print("meta.json written for", len(M), "+", len(M2), "+", len(M3), "+", len(M4), "seeds")
