#!/bin/sh
# Regression over every seeded change: applies each patch to /repo's working tree, runs the property's quick check, restores the tree.
# Prints one line per seed: caught / MISSED / does-not-apply. Do not touch /repo or run checks while this runs.
# IDS="C02 C14" restricts the run to the seeds of those properties; DIRS="seeded6 seeded7" to those rounds.
cd /verif
export VERIF_FAILFAST=1      # a seed that makes workloads hang would otherwise sit out every time-out
for d in ${DIRS:-seeded seeded2 seeded3 seeded4 seeded5 seeded6 seeded7 seeded8 seeded9 seeded10}; do for i in 01 02 03 04 05 06 07 08 09 10 11 12 13 14 15 16 17 18 19 20; do
  id=C$i; [ -f $d/$id/patch.diff ] || continue
  [ -z "${IDS:-}" ] || echo " $IDS " | grep -q " $id " || continue
  chk=$id; [ "$d/$id" = "seeded5/C03" ] && chk=C02
  out=$(sh scripts/try_seed.sh $chk $d/$id 2>&1)
  if echo "$out" | grep -q "does not apply"; then r="does-not-apply"; elif echo "$out" | grep -q "VIOLATION"; then r=caught; else r=MISSED; fi
  echo "$d/$id $r"
done; done
echo DONE
