#!/bin/sh
# Run once in /verif after a fresh restore, offline: builds the Lean library (all models, proofs, property
# theorems), the line-protocol driver, and the hooked scratch build of /repo. Everything comes from files on disk.
set -e
cd "$(dirname "$0")/.."
python3 - <<'PY'
import sys
sys.path.insert(0, "lib")
import gen
print("generators:", gen.run_generators())
PY
cd lean
lake build DispatchVerif dvdriver 2>&1 | grep -v "depends on axioms" | tail -5
