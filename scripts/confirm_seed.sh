#!/bin/sh
# Confirms a seeded change produced by a sub-agent: in a scratch worktree of /repo's HEAD the patch applies, the
# library builds, the pinned ctest suite passes with it, and the agent's demonstration fails with it and passes
# without it. usage: confirm_seed.sh <id> <dir with patch.diff and demo.c> ; writes <dir>/confirm.log; exit 0 if confirmed.
set -u
ID=$1; SRC=$2
W=/tmp/confirm-$ID; C=/var/tmp/seedclean
LOG=$SRC/confirm.log; : > "$LOG"
cfg() { cmake -G Ninja -S "$1" -B "$1/_build" -DCMAKE_BUILD_TYPE=RelWithDebInfo -DCMAKE_C_COMPILER=clang-16 -DCMAKE_CXX_COMPILER=clang++-16 -DCMAKE_C_FLAGS=-Wno-error -DBUILD_TESTING=$2 >/dev/null 2>&1 && cmake --build "$1/_build" >/dev/null 2>&1; }
HEAD=$(git -C /repo rev-parse HEAD)
if [ ! -f $C/.head ] || [ "$(cat $C/.head)" != "$HEAD" ]; then rm -rf $C; mkdir -p $C; git -C /repo archive HEAD | tar -x -C $C; cfg $C OFF || { echo "clean build failed" >>"$LOG"; exit 2; }; echo $HEAD > $C/.head; fi
git -C /repo worktree remove --force $W >/dev/null 2>&1; rm -rf $W
git -C /repo worktree add -q --detach $W HEAD || exit 2
trap 'git -C /repo worktree remove --force '$W' >/dev/null 2>&1' EXIT
git -C $W apply "$SRC/patch.diff" || { echo "patch does not apply" >>"$LOG"; exit 1; }
cfg $W ON || { echo "patched tree does not build" >>"$LOG"; exit 1; }
ctest --test-dir $W/_build -j4 --timeout 900 >"$SRC/ctest.log" 2>&1; rc=$?
tail -3 "$SRC/ctest.log" >>"$LOG"
[ $rc -eq 0 ] || { echo "ctest FAILED with the patch" >>"$LOG"; exit 1; }
DEMO=$(ls "$SRC"/demo.c "$SRC"/demo.cpp 2>/dev/null | head -1)
INC=/tmp/confirm-$ID-inc; mkdir -p $INC; ln -sfn $C/private $INC/dispatch     # <dispatch/private.h>
for T in patched clean; do
  [ $T = patched ] && B=$W/_build || B=$C/_build
  clang-16 -O1 -fblocks -I$C -I$C/private -I$INC $( [ -f "$SRC/demo.flags" ] && cat "$SRC/demo.flags" ) -o /tmp/confirm-$ID-demo-$T "$DEMO" -L$B -ldispatch -lBlocksRuntime -lpthread -Wl,-rpath,$B >>"$LOG" 2>&1 || { echo "demo does not compile" >>"$LOG"; exit 1; }
done
pf=0; cf=0
for i in 1 2 3; do timeout 120 /tmp/confirm-$ID-demo-patched >/dev/null 2>&1 || pf=$((pf+1)); timeout 120 /tmp/confirm-$ID-demo-clean >/dev/null 2>&1 || cf=$((cf+1)); done
echo "demo failed $pf/3 with the patch, $cf/3 without" >>"$LOG"
rm -rf /tmp/confirm-$ID-demo-* $INC
[ $pf -ge 2 ] && [ $cf -eq 0 ] && { echo CONFIRMED >>"$LOG"; exit 0; }
echo NOT-CONFIRMED >>"$LOG"; exit 1
