#!/usr/bin/env python3
"""Regenerates /verif/MANIFEST.json from the property modules (props/Cxx.py: META dict)."""
import importlib, json, os, sys
HERE = os.path.dirname(os.path.dirname(os.path.abspath(__file__)))
sys.path.insert(0, os.path.join(HERE, "lib")); sys.path.insert(0, HERE)
props = [json.loads(l) for l in open(os.path.join(HERE, "properties.jsonl"))]
hooks_commits = os.popen("git -C /repo log --format=%h --grep='^verif hook'").read().split()
checks, na = [], []
for p in props:
    pid = p["id"]
    try:
        mod = importlib.import_module("props." + pid)
        meta = mod.META
    except (ImportError, AttributeError):
        na.append({"property_id": pid, "reason": "check not built yet (planned: Lean proof + correspondence, DESIGN.md section 7)"})
        continue
    checks.append({
        "property_id": pid,
        "quick_cmd": "./check %s --tier quick" % pid,
        "thorough_cmd": "./check %s --tier thorough" % pid,
        "evidence_file": "/verif/evidence/%s.json" % pid,
        "replay_cmd_template": "./check %s --replay {path}" % pid,
        "engine": "lean4-proof+correspondence",
        "level_claimed": {"category": "proof", "text": meta["text"], "design_ref": "DESIGN.md section 7, " + pid},
        "level_note": meta["note"],
        "technique": meta["technique"],
    })
m = {
    "version": 1,
    "setup_cmd": "sh scripts/setup.sh",
    "hooks": {
        "guard": "DISPATCH_VERIF",
        "enable": "cmake -DCMAKE_C_FLAGS='-Wno-error -DDISPATCH_VERIF=1' -DCMAKE_CXX_FLAGS=-DDISPATCH_VERIF=1 (scratch build under /var/tmp/dverif, done by every check from /repo's working tree)",
        "baseline_off_cmd": "sh scripts/baseline_off.sh",
        "source_commits": hooks_commits,
        "add_only": True,
    },
    "engines": [{"name": "lean4-proof+correspondence", "path": "/verif/check",
                 "serves_properties": [c["property_id"] for c in checks],
                 "kind_free_text": "Lean 4 theorems over executable models (lean/DispatchVerif), tied to /repo on every run by generated constants/tables/atomic-site table (gen/) and by differential runs of the model's own definitions against the library built from the working tree (harness/, lean/Driver)"}],
    "checks": checks,
    "not_applicable": na,
    "notes": "All checks: `./check <id> --tier quick|thorough`; VERIF_SEED honoured. Known findings: known_findings.json. See DESIGN.md.",
}
json.dump(m, open(os.path.join(HERE, "MANIFEST.json"), "w"), indent=1)
print("claimed:", [c["property_id"] for c in checks], "not claimed:", [x["property_id"] for x in na])
