// G3: prints the static table of atomic sites (file, function, primitive, memory order, expression)
// that the hooked build of the library carries in its "dva_sites" section.
#include <stdio.h>
#include <stddef.h>
#include <string.h>
struct site { const char *file; int line; int op; const char *order; const char *expr; const char *func; };
extern const struct site *_dispatch_verif_sites(size_t *n);
static const char *opn[] = {"load","store","xchg","cmpxchg","cmpxchg","add","sub","and","or","xor","fence"};
int main(void){ size_t n; const struct site *s = _dispatch_verif_sites(&n);
  for (size_t i=0;i<n;i++){ const char *f = strrchr(s[i].file,'/');
    printf("%s\t%s\t%s\t%s\t%d\t%s\n", f?f+1:s[i].file, s[i].func, opn[s[i].op], s[i].order, s[i].line, s[i].expr); }
  return 0; }
