// G2: the codec tables of transform.c, obtained by compiling the file itself (the compiler, not a
// regex, evaluates the initialisers and the sizeof expressions) and printing them as Lean lists.
#include "internal.h"
#include <stdio.h>
#include "transform.c"
static void arrU(const char *n, const unsigned char *p, size_t k){ printf("def %s : List Nat := [", n); for(size_t i=0;i<k;i++) printf("%s%u", i?", ":"", p[i]); puts("]"); }
static void arrS(const char *n, const signed char *p, size_t k){ printf("def %s : List Int := [", n); for(size_t i=0;i<k;i++) printf("%s%d", i?", ":"", p[i]); puts("]"); }
int main(void){
  puts("/-! generated from /repo/src/transform.c by gen/tables.c on every check run — do not edit -/\nnamespace Gen");
  arrU("base64_encode_table", base64_encode_table, sizeof(base64_encode_table)-1);
  arrS("base64_decode_table", base64_decode_table, sizeof(base64_decode_table));
  printf("def base64_decode_table_size : Nat := %zd\n", (ssize_t)base64_decode_table_size);
  arrU("base32_encode_table", base32_encode_table, sizeof(base32_encode_table)-1);
  arrS("base32_decode_table", base32_decode_table, sizeof(base32_decode_table));
  printf("def base32_decode_table_size : Nat := %zd\n", (ssize_t)base32_decode_table_size);
  arrU("base32hex_encode_table", base32hex_encode_table, sizeof(base32hex_encode_table)-1);
  arrS("base32hex_decode_table", base32hex_decode_table, sizeof(base32hex_decode_table));
  printf("def base32hex_decode_table_size : Nat := %zd\n", (ssize_t)base32hex_decode_table_size);
  printf("def BUFFER_MALLOC_MAX : Nat := %zu\n", (size_t)BUFFER_MALLOC_MAX);
  puts("end Gen"); return 0; }
