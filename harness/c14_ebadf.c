// C14 oracle, fault sequence "one operation fails with EBADF": a dispatch_io_read on a descriptor that is open for writing only (or a
// write on one open for reading only) fails with EBADF - the library then gives up the descriptor and completes what is queued on
// it. Conservation has to survive that: (a) stream: a write of 1000 bytes waiting on a full pipe, then a read on the same (write-only)
// descriptor; the write's handler sees done once and "bytes that reached the pipe + bytes reported unwritten = 1000" (an error with the
// 1000 bytes reported unwritten; not "done, no error, nothing unwritten" with nothing written). (b) files: a long read / write on file B
// while a read on file A (same device, opened write-only) fails with EBADF: B is another descriptor - its operation is not affected and
// transfers everything.
// usage: c14_ebadf <seed> <rounds>
#define _GNU_SOURCE
#include <dispatch/dispatch.h>
#include <stdio.h>
#include <stdint.h>
#include <stdlib.h>
#include <string.h>
#include <errno.h>
#include <fcntl.h>
#include <unistd.h>
#include <signal.h>
#include <stdatomic.h>
#include <sys/stat.h>
#include <sys/ioctl.h>
static uint64_t seed, rs; static uint64_t rnd(void){ rs += 0x9E3779B97F4A7C15ull; uint64_t z=rs; z=(z^(z>>30))*0xBF58476D1CE4E5B9ull; z=(z^(z>>27))*0x94D049BB133111EBull; return z^(z>>31); }
static atomic_int viol; static char vmsg[400];
static void fail(const char *m, long a, long b, long c){ if(!atomic_exchange(&viol,1)) snprintf(vmsg,sizeof vmsg,"%s %ld %ld %ld",m,a,b,c); }
static void on_crash(int sig){ char b[200]; int n=snprintf(b,sizeof b,"ORACLE VIOL seed=%llu the library trapped or crashed (signal %d) after an operation failed with EBADF\n",(unsigned long long)seed,sig); if(n>0) (void)!write(1,b,(size_t)n); _exit(1); }
static long stream_round(int it){ int p[2]; if(pipe(p)) return 0; fcntl(p[1],F_SETFL,O_NONBLOCK); char buf[4096]; memset(buf,'x',sizeof buf); long filled=0; for(;;){ ssize_t w=write(p[1],buf,sizeof buf); if(w<=0) break; filled+=w; }
  dispatch_queue_t q=dispatch_queue_create("eb.q",NULL); __block _Atomic int wdone=0, werr=-1, rdone=0, rerr=-1; __block _Atomic long unwritten=-1;
  dispatch_io_t ch=dispatch_io_create(DISPATCH_IO_STREAM,p[1],q,^(int e){ (void)e; }); if(!ch) return 0;
  char *msg=malloc(1000); memset(msg,'m',1000); dispatch_data_t w=dispatch_data_create(msg,1000,NULL,DISPATCH_DATA_DESTRUCTOR_FREE);
  dispatch_io_write(ch,0,w,q,^(bool done,dispatch_data_t d,int e){ if(done){ atomic_store(&unwritten,d?(long)dispatch_data_get_size(d):0); atomic_store(&werr,e); atomic_fetch_add(&wdone,1); } }); dispatch_release(w);
  usleep((useconds_t)(500+rnd()%3000));
  dispatch_io_read(ch,0,16,q,^(bool done,dispatch_data_t d,int e){ (void)d; if(done){ atomic_store(&rerr,e); atomic_fetch_add(&rdone,1); } });
  for(int k=0; k<30000 && !(atomic_load(&wdone)&&atomic_load(&rdone)); k++) usleep(100);
  if(!atomic_load(&rdone)) fail("a read on a write-only descriptor did not complete within 3 s: round",it,0,0);
  else if(atomic_load(&rerr)!=EBADF) fail("a read on a write-only descriptor completed with another error than EBADF: round/error",it,atomic_load(&rerr),0);
  if(!atomic_load(&wdone)) fail("a write waiting on a full pipe did not complete within 3 s of an EBADF failure on its descriptor: round",it,0,0);
  else { int avail=0; ioctl(p[0],FIONREAD,&avail); long reached=(long)avail-filled;
    if(reached+atomic_load(&unwritten)!=1000) fail("write conservation after an EBADF failure on the descriptor: of 1000 bytes submitted, bytes that reached the pipe / bytes reported unwritten / error reported (done with no error and nothing unwritten although nothing was written)",reached,atomic_load(&unwritten),atomic_load(&werr));
    else if(atomic_load(&unwritten) && !atomic_load(&werr)) fail("a write that was cut short reported no error: round/unwritten",it,atomic_load(&unwritten),0); }
  if(atomic_load(&wdone)>1) fail("a write's handler saw done more than once: round/times",it,atomic_load(&wdone),0);
  dispatch_io_close(ch,0); dispatch_release(ch); dispatch_sync(q,^{}); dispatch_release(q); close(p[0]); close(p[1]); return 1; }
static long file_round(int it, const char *dir){ char pa[256], pb[256]; snprintf(pa,sizeof pa,"%s/eb-a-%d-%d",dir,(int)getpid(),it); snprintf(pb,sizeof pb,"%s/eb-b-%d-%d",dir,(int)getpid(),it);
  int do_write=(int)(rnd()%2); size_t total=(size_t)(8+rnd()%8)<<20;
  int fa=open(pa,O_WRONLY|O_CREAT|O_TRUNC,0600); int fb=open(pb,O_RDWR|O_CREAT|O_TRUNC,0600); if(fa<0||fb<0) return 0;
  char *big=malloc(total); for(size_t i=0;i<total;i++) big[i]=(char)(i*31+7);
  if(!do_write){ size_t off=0; while(off<total){ ssize_t w=write(fb,big+off,total-off); if(w<=0) break; off+=(size_t)w; } lseek(fb,0,SEEK_SET); }
  dispatch_queue_t q=dispatch_queue_create("eb.f",NULL); __block _Atomic int bdone=0, berr=-1, adone=0, aerr=-1; __block _Atomic long got=0, unwritten=-1;
  dispatch_io_t cb=dispatch_io_create(DISPATCH_IO_RANDOM,fb,q,^(int e){ (void)e; }), ca=dispatch_io_create(DISPATCH_IO_RANDOM,fa,q,^(int e){ (void)e; });
  if(!ca||!cb) return 0; dispatch_io_set_high_water(cb,64*1024); if(rnd()%2) dispatch_io_set_interval(cb,(uint64_t)(100+rnd()%900)*1000ull, rnd()%2?DISPATCH_IO_STRICT_INTERVAL:0);      // deliveries on a timer as well
  if(do_write){ dispatch_data_t w=dispatch_data_create(big,total,NULL,DISPATCH_DATA_DESTRUCTOR_DEFAULT);
    dispatch_io_write(cb,0,w,q,^(bool done,dispatch_data_t d,int e){ if(done){ atomic_store(&unwritten,d?(long)dispatch_data_get_size(d):0); atomic_store(&berr,e); atomic_fetch_add(&bdone,1); } }); dispatch_release(w); }
  else dispatch_io_read(cb,0,total,q,^(bool done,dispatch_data_t d,int e){ if(d) atomic_fetch_add(&got,(long)dispatch_data_get_size(d)); if(done){ atomic_store(&berr,e); atomic_fetch_add(&bdone,1); } });
  usleep((useconds_t)(rnd()%1500));
  dispatch_io_read(ca,0,16,q,^(bool done,dispatch_data_t d,int e){ (void)d; if(done){ atomic_store(&aerr,e); atomic_fetch_add(&adone,1); } });
  for(int k=0; k<200000 && !(atomic_load(&adone)&&atomic_load(&bdone)); k++) usleep(100);
  if(!atomic_load(&adone) || atomic_load(&aerr)!=EBADF) fail("a read on a file opened write-only did not fail with EBADF within 20 s: round/completed/error",it,atomic_load(&adone),atomic_load(&aerr));
  if(!atomic_load(&bdone)) fail("an operation on another file of the same device did not complete within 20 s: round",it,0,0);
  else if(do_write){ struct stat st; fstat(fb,&st);
    if((long)st.st_size+atomic_load(&unwritten)!=(long)total || atomic_load(&berr)) fail("a write to file B was cut short when a read on file A failed with EBADF (another descriptor on the same device): bytes in the file / bytes reported unwritten / error - of a write of (see round)",(long)st.st_size,atomic_load(&unwritten),atomic_load(&berr)); }
  else if(atomic_load(&got)!=(long)total || atomic_load(&berr)) fail("a read of file B was cut short, reported as complete without end of file, when a read on file A failed with EBADF (another descriptor on the same device): bytes delivered / bytes requested / error",atomic_load(&got),(long)total,atomic_load(&berr));
  dispatch_io_close(ca,0); dispatch_io_close(cb,0); dispatch_release(ca); dispatch_release(cb); dispatch_sync(q,^{}); usleep(2000); dispatch_release(q); close(fa); close(fb); unlink(pa); unlink(pb); free(big); return 1; }
// (c) the victim on the SAME descriptor of a regular file, already picked by the disk (active) when the read fails: a large write W0 under
// way, a read (EBADF: the descriptor is open for writing only), a small write W1 elsewhere in the file, a plain close. Every handler
// sees done exactly once; for each write, bytes in the file + bytes reported unwritten = bytes submitted; nothing traps (F45: the
// cleanup completed the active operation, whose own perform then completed it again).
static long file_same_fd_round(int it, const char *dir){ char pa[256]; snprintf(pa,sizeof pa,"%s/eb-s-%d-%d",dir,(int)getpid(),it); int fd=open(pa,O_WRONLY|O_CREAT|O_TRUNC,0600); if(fd<0) return 0;
  size_t w0=(size_t)(512+rnd()%1024)<<10; char *b0=malloc(w0); memset(b0,'a',w0);
  dispatch_queue_t q=dispatch_queue_create("eb.s",NULL); __block _Atomic int d0=0,d1=0,d2=0,e0=-1,e1=-1,e2=-1,cl=0; __block _Atomic long u0=-1,u2=-1;
  dispatch_io_t ch=dispatch_io_create(DISPATCH_IO_RANDOM,fd,q,^(int e){ (void)e; atomic_fetch_add(&cl,1); }); if(!ch) return 0; dispatch_io_set_high_water(ch,4096);
  dispatch_data_t x0=dispatch_data_create(b0,w0,NULL,DISPATCH_DATA_DESTRUCTOR_FREE), x1=dispatch_data_create("WWWWWWWWWW",10,NULL,DISPATCH_DATA_DESTRUCTOR_DEFAULT);
  dispatch_io_write(ch,0,x0,q,^(bool dn,dispatch_data_t d,int e){ if(dn){ atomic_store(&u0,d?(long)dispatch_data_get_size(d):0); atomic_store(&e0,e); atomic_fetch_add(&d0,1); } });
  if(rnd()%4==0) usleep((useconds_t)(rnd()%300));
  dispatch_io_read(ch,0,10,q,^(bool dn,dispatch_data_t d,int e){ (void)d; if(dn){ atomic_store(&e1,e); atomic_fetch_add(&d1,1); } });
  dispatch_io_write(ch,(off_t)(4<<20),x1,q,^(bool dn,dispatch_data_t d,int e){ if(dn){ atomic_store(&u2,d?(long)dispatch_data_get_size(d):0); atomic_store(&e2,e); atomic_fetch_add(&d2,1); } });
  dispatch_release(x0); dispatch_release(x1); dispatch_io_close(ch,0);
  for(int k=0; k<100000 && !(atomic_load(&d0)&&atomic_load(&d1)&&atomic_load(&d2)&&atomic_load(&cl)); k++) usleep(100);
  usleep(3000);
  if(atomic_load(&d0)!=1||atomic_load(&d1)!=1||atomic_load(&d2)!=1||atomic_load(&cl)!=1) fail("write, failing read (EBADF), write on one write-only file descriptor, then close: the handlers did not each see done exactly once / the cleanup handler did not run once (10 s): done counts of the large write, the read, the small write",atomic_load(&d0),atomic_load(&d1),atomic_load(&d2));
  else { struct stat st; fstat(fd,&st); long in_file = st.st_size > (off_t)w0 ? (long)w0 : (long)st.st_size;        // W0 writes [0, w0)
    if(atomic_load(&e0)==0 && atomic_load(&u0)!=0) fail("a write reported unwritten data without an error",atomic_load(&u0),0,0);
    if(atomic_load(&u0)>=0 && in_file+atomic_load(&u0) < (long)w0) fail("write conservation on a descriptor where another operation failed with EBADF: bytes of the large write in the file / reported unwritten / submitted",in_file,atomic_load(&u0),(long)w0); }
  dispatch_release(ch); dispatch_sync(q,^{}); dispatch_release(q); close(fd); unlink(pa); return 1; }
int main(int argc,char**argv){ seed=argc>1?strtoull(argv[1],0,0):1; int rounds=argc>2?atoi(argv[2]):20; rs=seed; const char *dir=argc>3?argv[3]:"/var/tmp";
  signal(SIGILL,on_crash); signal(SIGSEGV,on_crash); signal(SIGABRT,on_crash); signal(SIGBUS,on_crash); signal(SIGPIPE,SIG_IGN);
  long n=0; for(int i=0;i<rounds && !viol;i++){ n+=stream_round(i); if(i%4==0 && !viol) n+=file_round(i,dir); if(!viol) n+=file_same_fd_round(i,dir); if(!viol) n+=file_same_fd_round(i+1000,dir); }
  if(viol){ printf("ORACLE VIOL seed=%llu %s\n",(unsigned long long)seed,vmsg); fflush(stdout); _exit(1); }
  printf("ORACLE ok items=%ld\n",n); fflush(stdout); _exit(0); }
