// L-fn prototype for the timer heap: drives the real heap through the exported shim with seeded random
// operations and prints a transcript (operation with the victim's heap entries, then the key stored in
// every slot) that the Lean driver replays through HeapP.resift.
#include <stdio.h>
#include <stdlib.h>
#include <stdint.h>
extern void *_dispatch_verif_heap_new(void);
extern void *_dispatch_verif_timer_new(uint64_t target, uint64_t deadline);
extern void _dispatch_verif_heap_insert(void *h, void *dt);
extern void _dispatch_verif_heap_remove(void *h, void *dt);
extern void _dispatch_verif_heap_update(void *h, void *dt, uint64_t target, uint64_t deadline);
extern uint32_t _dispatch_verif_heap_count(void *h);
extern void *_dispatch_verif_heap_slot(void *h, uint32_t idx);
extern uint32_t _dispatch_verif_timer_entry(void *dt, int hid);
extern int _dispatch_verif_heap_take_needs_program(void *h);
static uint64_t s; static uint64_t rnd(void){ s += 0x9e3779b97f4a7c15ull; uint64_t z=s; z=(z^(z>>30))*0xbf58476d1ce4e5b9ull; z=(z^(z>>27))*0x94d049bb133111ebull; return z^(z>>31); }
struct tm { void *dt; uint64_t k[2]; };
static struct tm live[4096]; static int nlive;
static uint64_t key_of(void *dt, int hid){ for(int i=0;i<nlive;i++) if(live[i].dt==dt) return live[i].k[hid]; return 0; }
static void dump(void *h){ uint32_t c=_dispatch_verif_heap_count(h); printf(" | %d %u", _dispatch_verif_heap_take_needs_program(h), c);
  for(uint32_t i=0;i<c;i++) printf(" %llu",(unsigned long long)key_of(_dispatch_verif_heap_slot(h,i), (int)(i&1))); puts(""); }
int main(int argc,char**argv){ s = argc>1? strtoull(argv[1],0,10):1; int N = argc>2? atoi(argv[2]):3000; int cap = argc>3? atoi(argv[3]):60;
  void *h=_dispatch_verif_heap_new();
  for(int it=0; it<N; it++){
    uint64_t r=rnd()%100; uint64_t tg = (rnd()%2)? rnd()%50+1 : rnd()%1000000+1; uint64_t dl = tg + ((rnd()%3)? rnd()%100 : 0);
    if (nlive==0 || (r<45 && nlive<cap)) { void *dt=_dispatch_verif_timer_new(tg,dl); live[nlive].dt=dt; live[nlive].k[0]=tg; live[nlive].k[1]=dl; nlive++;
      printf("INS %llu %llu",(unsigned long long)tg,(unsigned long long)dl); _dispatch_verif_heap_insert(h,dt); dump(h); }
    else if (r<75) { int j=(int)(rnd()%(uint64_t)nlive); void *dt=live[j].dt;
      printf("REM %u %u", _dispatch_verif_timer_entry(dt,0), _dispatch_verif_timer_entry(dt,1));
      _dispatch_verif_heap_remove(h,dt); live[j]=live[--nlive]; dump(h); }
    else { int j=(int)(rnd()%(uint64_t)nlive); void *dt=live[j].dt;
      printf("UPD %u %u %llu %llu", _dispatch_verif_timer_entry(dt,0), _dispatch_verif_timer_entry(dt,1),(unsigned long long)tg,(unsigned long long)dl);
      live[j].k[0]=tg; live[j].k[1]=dl; _dispatch_verif_heap_update(h,dt,tg,dl); dump(h); }
  }
  return 0; }
