// C18 oracle: the FIRST queue-specific values of a fresh queue stored by several threads at the same moment (the list that holds them is
// created and published by whoever comes first). Every value stored is then found - directly (dispatch_queue_get_specific), from an
// item of the queue (dispatch_get_specific), and from an item of a queue that targets it.
// usage: c18_firstset <seed> <rounds>
#define _GNU_SOURCE
#include <dispatch/dispatch.h>
#include <stdio.h>
#include <stdint.h>
#include <stdlib.h>
#include <unistd.h>
#include <pthread.h>
#include <stdatomic.h>
static uint64_t seed, rs; static uint64_t rnd(void){ rs += 0x9E3779B97F4A7C15ull; uint64_t z=rs; z=(z^(z>>30))*0xBF58476D1CE4E5B9ull; z=(z^(z>>27))*0x94D049BB133111EBull; return z^(z>>31); }
static atomic_int viol; static char vmsg[300];
static void fail(const char *m, long a, long b, long c){ if(!atomic_exchange(&viol,1)) snprintf(vmsg,sizeof vmsg,"%s %ld %ld %ld",m,a,b,c); }
static char keys[4]; struct rd { dispatch_queue_t q; atomic_int go, ready; }; struct ta { struct rd *r; int k; };
static void *setter(void *a){ struct ta *p=a; atomic_fetch_add(&p->r->ready,1); while(!atomic_load(&p->r->go)){} dispatch_queue_set_specific(p->r->q,&keys[p->k],(void*)(intptr_t)(100+p->k),NULL); return 0; }
int main(int argc,char**argv){ seed=argc>1?strtoull(argv[1],0,0):1; int rounds=argc>2?atoi(argv[2]):3000; rs=seed; long n=0;
  for(int r=0;r<rounds && !viol;r++){ struct rd x; x.q=dispatch_queue_create("fs.q",rnd()%2?DISPATCH_QUEUE_CONCURRENT:NULL); atomic_store(&x.go,0); atomic_store(&x.ready,0); int nt=2+(int)(rnd()%3);
    pthread_t t[4]; struct ta a[4]; for(int k=0;k<nt;k++){ a[k].r=&x; a[k].k=k; pthread_create(&t[k],0,setter,&a[k]); }
    while(atomic_load(&x.ready)<nt){} atomic_store(&x.go,1); for(int k=0;k<nt;k++) pthread_join(t[k],0);
    dispatch_queue_t up=dispatch_queue_create_with_target("fs.up",DISPATCH_QUEUE_CONCURRENT,x.q);
    for(int k=0;k<nt && !viol;k++){ void *want=(void*)(intptr_t)(100+k);
      if(dispatch_queue_get_specific(x.q,&keys[k])!=want) fail("a queue-specific value stored on a fresh queue at the same moment as the queue's other first values is not returned by dispatch_queue_get_specific: round / key / threads",r,k,nt);
      __block void *g1=0,*g2=0; const void *kp=&keys[k]; dispatch_sync(x.q,^{ g1=dispatch_get_specific(kp); }); dispatch_sync(up,^{ g2=dispatch_get_specific(kp); });
      if(!viol && (g1!=want || g2!=want)) fail("dispatch_get_specific inside an item did not find a value stored at the same moment as the queue's other first values: round / key / found on the queue itself (1) and through a queue that targets it (2)",r,k,(g1==want)+2*(g2==want)); n++; }
    dispatch_release(up); dispatch_release(x.q); }
  if(viol){ printf("ORACLE VIOL seed=%llu %s\n",(unsigned long long)seed,vmsg); return 1; }
  printf("ORACLE ok items=%ld\n",n); return 0; }
