// C16 L-api oracle: cancellation of sources of every type available on the platform (data-add, timer, read, write, signal)
// at every point of the life cycle: before activation, from the registration handler with an event already pending, from
// the event handler, from an item on the serial target queue, from another thread while events flow, twice, and with
// dispatch_source_cancel_and_wait. Checks: no event handler after a cancel issued on the target queue / from the handler;
// at most one (already committed) start after a cancel from elsewhere; cancel handler exactly once, on the target queue,
// never overlapping or preceding an event handler invocation; all variants converge (testcancel set, handler ran).
// usage: c16_cancel <seed> <rounds>
#define _GNU_SOURCE
#include <dispatch/dispatch.h>
#include <stdio.h>
#include <stdlib.h>
#include <stdint.h>
#include <string.h>
#include <unistd.h>
#include <signal.h>
#include <pthread.h>
#include <stdatomic.h>
#include <sys/syscall.h>
void dispatch_source_cancel_and_wait(dispatch_source_t);
static __thread uint64_t rng; static uint64_t seed;
static inline uint64_t rnd(void){ if(!rng) rng = seed ^ (uint64_t)syscall(SYS_gettid)*0x9e3779b97f4a7c15ull; rng ^= rng<<13; rng ^= rng>>7; rng ^= rng<<17; return rng; }
extern void (*_dispatch_verif_source_cb)(int kind, void *ds, void *ctxt, uint32_t view, long result, uint64_t aux);
// ---- decision-view trace (hook in source.c): printed as "SW"/"SI" lines for replay through SrcP.wake / SrcP.inv
struct S;
static int det_phase; static atomic_long ntr; static char *trbuf; static atomic_ulong trlen; 
#define TRMAX (1<<24)
static void tr(const char *fmt, ...);
static atomic_int viol; static char vmsg[300];
static void fail(const char *m, long a, long b, long c){ if(!atomic_exchange(&viol,1)) snprintf(vmsg,sizeof vmsg,"%s %ld %ld %ld",m,a,b,c); }
static char qkey;
struct S { int kind, scen; dispatch_source_t ds; dispatch_queue_t q; _Atomic int ev_runs, ev_inside, cancel_runs, cancel_returned_on_q, ev_after_qcancel, ev_after_return, ev_after_ch; int p[2]; int from_handler_done; _Atomic int cw_done; };
#include <stdarg.h>
static pthread_mutex_t trm = PTHREAD_MUTEX_INITIALIZER;
static void tr(const char *fmt, ...){ va_list ap; va_start(ap,fmt); pthread_mutex_lock(&trm); if(trlen+256<TRMAX){ trlen+=(unsigned long)vsnprintf(trbuf+trlen,256,fmt,ap); } pthread_mutex_unlock(&trm); va_end(ap); }
static __thread uint32_t tl_view; static __thread int tl_ev, tl_cc; static __thread uint64_t tl_cur;
static void srccb(int kind, void *ds, void *ctxt, uint32_t view, long result, uint64_t aux){ (void)ds; struct S *s=ctxt; if(!s) return;
  if(kind==0) tr("SW %d %u %ld %d %d\n", det_phase, view, result, (int)((aux>>4)&1), (int)((aux>>31)&1));      // DISPATCH_WAKEUP_EVENT = 0x10
  else if(kind==1){ tl_view=view; tl_cur=aux; tl_ev=atomic_load(&s->ev_runs); tl_cc=atomic_load(&s->cancel_runs); }
  else tr("SI %d %u %d %d %ld %u %d %d\n", det_phase, tl_view, (int)(tl_cur&3), (int)((tl_cur>>31)&1), result, view, atomic_load(&s->ev_runs)-tl_ev, atomic_load(&s->cancel_runs)-tl_cc); }
static void fire(struct S *s){ // make one more event available
  switch(s->kind){ case 0: dispatch_source_merge_data(s->ds,1); break; case 2: { char c=1; if(s->p[1]>=0 && write(s->p[1],&c,1)){} break; } case 4: kill(getpid(),SIGUSR2); break; default: break; } }
static void ev(void *c){ struct S *s=c; if(atomic_fetch_add(&s->ev_inside,1)) fail("event handler on two threads at once: kind/scenario",s->kind,s->scen,0);
  if(dispatch_get_specific(&qkey)!=s) fail("event handler not on the target queue: kind/scenario",s->kind,s->scen,0);
  atomic_fetch_add(&s->ev_runs,1);
  if(atomic_load(&s->cancel_runs)) atomic_fetch_add(&s->ev_after_ch,1);
  if(atomic_load(&s->cancel_returned_on_q)) atomic_fetch_add(&s->ev_after_qcancel,1);
  if(s->kind==2){ char b[8]; if(read(s->p[0],b,1)){} }
  if(s->scen==3 && !s->from_handler_done){ s->from_handler_done=1; fire(s); fire(s); dispatch_source_cancel(s->ds); atomic_store(&s->cancel_returned_on_q,1); }
  atomic_fetch_sub(&s->ev_inside,1); }
static void ch(void *c){ struct S *s=c; if(atomic_load(&s->ev_inside)) fail("cancel handler overlapped an event handler invocation: kind/scenario",s->kind,s->scen,0);
  if(dispatch_get_specific(&qkey)!=s) fail("cancel handler not on the target queue: kind/scenario",s->kind,s->scen,0);
  if(atomic_fetch_add(&s->cancel_runs,1)) fail("cancel handler ran more than once: kind/scenario",s->kind,s->scen,0); }
static void regh(void *c){ struct S *s=c; if(s->scen==2){ dispatch_source_cancel(s->ds); atomic_store(&s->cancel_returned_on_q,1); } }
static void *cw_thread(void *c){ struct S *s=c; dispatch_source_cancel_and_wait(s->ds); atomic_store(&s->cw_done,1); return 0; }
static void one(int kind, int scen){ struct S *s=calloc(1,sizeof *s); s->kind=kind; s->scen=scen; s->q=dispatch_queue_create("tq",NULL); dispatch_queue_set_specific(s->q,&qkey,s,NULL);
  if(pipe(s->p)){} 
  switch(kind){ case 0: s->ds=dispatch_source_create(DISPATCH_SOURCE_TYPE_DATA_ADD,0,0,s->q); break;
    case 1: s->ds=dispatch_source_create(DISPATCH_SOURCE_TYPE_TIMER,0,0,s->q); dispatch_source_set_timer(s->ds,dispatch_time(DISPATCH_TIME_NOW,200000),300000,0); break;
    case 2: s->ds=dispatch_source_create(DISPATCH_SOURCE_TYPE_READ,(uintptr_t)s->p[0],0,s->q); break;
    case 3: s->ds=dispatch_source_create(DISPATCH_SOURCE_TYPE_WRITE,(uintptr_t)s->p[1],0,s->q); break;
    default: s->ds=dispatch_source_create(DISPATCH_SOURCE_TYPE_SIGNAL,SIGUSR2,0,s->q); break; }
  dispatch_source_set_event_handler_f(s->ds,ev); if(scen<6 || scen==9) dispatch_source_set_cancel_handler_f(s->ds,ch); /* cancel_and_wait requires a source without cancel handler */ dispatch_set_context(s->ds,s);
  if(scen==2) dispatch_source_set_registration_handler_f(s->ds,regh);
  if(scen==7 || scen==8){ // never activated: (7) cancel, then cancel_and_wait; (8) cancel_and_wait alone. Both return and leave the cancelled, never-fired source
    if(scen==7) dispatch_source_cancel(s->ds);
    pthread_t t; pthread_create(&t,0,cw_thread,s); for(int w=0; w<5000 && !atomic_load(&s->cw_done); w++) usleep(1000);
    if(!atomic_load(&s->cw_done)){ fail("dispatch_source_cancel_and_wait on a source that was never activated did not return within 5 s: kind/cancelled-before",kind,scen==7,0); return; }
    pthread_join(t,0);
    if(!dispatch_source_testcancel(s->ds)) fail("testcancel not set after cancel_and_wait on a never-activated source: kind/scenario",kind,scen,0);
    for(int i=0;i<3;i++) fire(s); usleep(3000); dispatch_sync(s->q,^{});
    if(atomic_load(&s->ev_runs)) fail("event handler ran although the source was cancelled before activation (cancel_and_wait): kind/scenario",kind,scen,0);
    dispatch_release(s->ds); close(s->p[0]); close(s->p[1]); dispatch_release(s->q); return; }
  if(scen==1){ dispatch_source_cancel(s->ds); }                       // before activation
  if(scen==2){ fire(s); if(kind==0) fire(s); }                          // an event is pending when the registration handler runs
  dispatch_activate(s->ds);
  if(scen!=1 && scen!=2){ fire(s); fire(s); usleep(500+rnd()%1500); }
  int before;
  switch(scen){
  case 3: { for(int w=0; w<3000 && !s->from_handler_done; w++){ if(w%50==0) fire(s); usleep(1000); } break; }   // the handler cancels itself
  case 4: dispatch_sync(s->q,^{ fire(s); dispatch_source_cancel(s->ds); atomic_store(&s->cancel_returned_on_q,1); fire(s); }); break;
  case 5: { for(int i=0;i<20;i++) fire(s); dispatch_source_cancel(s->ds); before=atomic_load(&s->ev_runs); for(int i=0;i<5;i++) fire(s); usleep(30000);
      // `before` was read after cancel returned: an invocation that had started just before is counted; allow the one committed start
      if(atomic_load(&s->ev_runs)>before+1) fail("more than one event handler start after dispatch_source_cancel returned (cancel from another thread): kind/before/after",kind,before,atomic_load(&s->ev_runs));
      break; }
  case 6: { for(int i=0;i<10;i++) fire(s); dispatch_source_cancel(s->ds); dispatch_source_cancel(s->ds); dispatch_source_cancel_and_wait(s->ds);
      before=atomic_load(&s->ev_runs); for(int i=0;i<5;i++) fire(s); usleep(20000); if(atomic_load(&s->ev_runs)!=before) fail("event handler ran after dispatch_source_cancel_and_wait returned: kind",kind,0,0); break; }
  case 9: { // the peer hangs up while the source is active (EPOLLHUP: the library unregisters the descriptor on its own and delivers a last event), then cancel from this thread
      for(int i=0;i<3;i++) fire(s); close(s->p[1]); s->p[1]=-1; usleep(500+rnd()%3000); dispatch_source_cancel(s->ds); if(rnd()%2) dispatch_source_cancel(s->ds); break; }
  default: break; }
  // convergence
  for(int w=0; w<5000 && scen!=6 && atomic_load(&s->cancel_runs)==0; w++) usleep(1000);
  if(scen!=6 && atomic_load(&s->cancel_runs)!=1) fail("cancel handler did not run exactly once: kind/scenario/runs",kind,scen,atomic_load(&s->cancel_runs));
  if(!dispatch_source_testcancel(s->ds)) fail("testcancel not set: kind/scenario",kind,scen,0);
  for(int i=0;i<3;i++) fire(s); usleep(3000); dispatch_sync(s->q,^{});
  if(atomic_load(&s->ev_after_ch)) fail("an event handler invocation started after the cancel handler: kind/scenario",kind,scen,0);
  if(atomic_load(&s->ev_after_qcancel)) fail("event handler invoked after dispatch_source_cancel had returned on the target queue / in its own handler: kind/scenario/count",kind,scen,atomic_load(&s->ev_after_qcancel));
  if(scen==1 && atomic_load(&s->ev_runs)) fail("event handler ran although the source was cancelled before activation: kind",kind,0,0);
  dispatch_release(s->ds); close(s->p[0]); if(s->p[1]>=0) close(s->p[1]); dispatch_release(s->q); /* s is leaked on purpose: late callbacks must not touch freed memory */ }
// deterministic life cycles of a data-add source driven from one thread with quiescence between steps: the views seen by
// wakeup / invoke2 are stable, so the decisions can be compared exactly with the model
static void quiesce(struct S *s){ dispatch_sync(s->q,^{}); usleep(1500); dispatch_sync(s->q,^{}); }
static void det(int variant){ struct S *s=calloc(1,sizeof *s); s->kind=0; s->scen=10+variant; s->q=dispatch_queue_create("dq",NULL); dispatch_queue_set_specific(s->q,&qkey,s,NULL);
  s->ds=dispatch_source_create(DISPATCH_SOURCE_TYPE_DATA_ADD,0,0,s->q); dispatch_set_context(s->ds,s);
  dispatch_source_set_event_handler_f(s->ds,ev); if(variant&1) dispatch_source_set_cancel_handler_f(s->ds,ch); if(variant&2) dispatch_source_set_registration_handler_f(s->ds,regh);
  if(variant&4) dispatch_source_merge_data(s->ds,1);
  dispatch_activate(s->ds); quiesce(s);
  for(int i=0;i<3;i++){ dispatch_source_merge_data(s->ds,1); quiesce(s); }
  if(variant&8){ dispatch_suspend(s->ds); dispatch_source_merge_data(s->ds,1); quiesce(s); dispatch_resume(s->ds); quiesce(s); }
  dispatch_source_cancel(s->ds); quiesce(s); dispatch_source_merge_data(s->ds,1); quiesce(s); dispatch_source_cancel(s->ds); quiesce(s);
  if((variant&1) && atomic_load(&s->cancel_runs)!=1) fail("cancel handler did not run exactly once (deterministic life cycle): variant/runs",variant,atomic_load(&s->cancel_runs),0);
  dispatch_release(s->ds); dispatch_release(s->q); }
// the same for a timer (not direct: configuration and unregistration happen on the manager queue)
static void quiesce_m(struct S *s){ for(int i=0;i<3;i++){ dispatch_sync(s->q,^{}); usleep(4000); } }
static void det_timer(int variant){ struct S *s=calloc(1,sizeof *s); s->kind=1; s->scen=30+variant; s->q=dispatch_queue_create("dq",NULL); dispatch_queue_set_specific(s->q,&qkey,s,NULL);
  s->ds=dispatch_source_create(DISPATCH_SOURCE_TYPE_TIMER,0,0,s->q); dispatch_set_context(s->ds,s);
  dispatch_source_set_event_handler_f(s->ds,ev); if(variant&1) dispatch_source_set_cancel_handler_f(s->ds,ch); if(variant&2) dispatch_source_set_registration_handler_f(s->ds,regh);
  if(variant&4) dispatch_source_set_timer(s->ds,dispatch_time(DISPATCH_TIME_NOW,3600*NSEC_PER_SEC),DISPATCH_TIME_FOREVER,0);
  dispatch_activate(s->ds); quiesce_m(s);
  dispatch_source_set_timer(s->ds,dispatch_time(DISPATCH_TIME_NOW,7200*NSEC_PER_SEC),DISPATCH_TIME_FOREVER,0); quiesce_m(s);
  if(variant&8){ dispatch_source_set_timer(s->ds,dispatch_time(DISPATCH_TIME_NOW,2*NSEC_PER_MSEC),DISPATCH_TIME_FOREVER,0); usleep(30000); quiesce_m(s); }
  dispatch_source_cancel(s->ds); quiesce_m(s); dispatch_source_cancel(s->ds); quiesce_m(s);
  if((variant&1) && atomic_load(&s->cancel_runs)!=1) fail("cancel handler did not run exactly once (deterministic timer life cycle): variant/runs",variant,atomic_load(&s->cancel_runs),0);
  dispatch_release(s->ds); dispatch_release(s->q); }
// cancel from a foreign thread right after a handler finished, on a descriptor that stays quiet afterwards: the cancellation must
// not be lost while the manager re-arms the registration (nothing else will ever wake the source again)
extern void (*_dispatch_verif_yield_cb)(const volatile void *addr, const char *func, int line);
static _Atomic(void*) q_ds; static __thread uint64_t yrng;
static void q_ycb(const volatile void *addr, const char *func, int line){ (void)func;(void)line; char *d=atomic_load(&q_ds); if(!d) return; long off=(const volatile char*)addr-d; if(off<0||off>=160) return;
  if(!yrng) yrng=seed*0x9e3779b97f4a7c15ull+(uint64_t)(uintptr_t)&yrng; yrng^=yrng<<13; yrng^=yrng>>7; yrng^=yrng<<17; if(yrng%6==0){ struct timespec ts={0,(long)(yrng%30000)}; nanosleep(&ts,0); } }
static void quiet_cancel(int trials){ _dispatch_verif_yield_cb=q_ycb;
  for(int t=0;t<trials && !viol;t++){ int p[2]; if(pipe(p)) return; dispatch_queue_t q=dispatch_queue_create("qc",NULL);
    dispatch_source_t ds=dispatch_source_create(DISPATCH_SOURCE_TYPE_READ,(uintptr_t)p[0],0,q); atomic_store(&q_ds,(void*)ds);
    __block _Atomic int evs=0, ch=0; int rfd=p[0];
    dispatch_source_set_event_handler(ds,^{ char b[8]; if(read(rfd,b,sizeof b)>0) atomic_fetch_add(&evs,1); });
    dispatch_source_set_cancel_handler(ds,^{ atomic_fetch_add(&ch,1); });
    dispatch_activate(ds); if(write(p[1],"x",1)!=1) return;
    for(int w=0; w<20000 && !atomic_load(&evs); w++) usleep(50);
    { struct timespec ts={0,(long)(rnd()%60000)}; nanosleep(&ts,0); }
    dispatch_source_cancel(ds);                                           // from this (foreign) thread; the pipe stays silent from now on
    for(int w=0; w<4000 && !atomic_load(&ch); w++) usleep(500);
    if(atomic_load(&ch)!=1) fail("the cancel handler of a read source cancelled from another thread on a descriptor that stays quiet was not invoked within 2 s: trial/events/runs",t,atomic_load(&evs),atomic_load(&ch));
    atomic_store(&q_ds,(void*)0); dispatch_release(ds); dispatch_release(q); close(p[0]); close(p[1]); }
  _dispatch_verif_yield_cb=0; }
// a source that has a cancellation handler and NO event handler (a legal shape: the handler may be installed later, or never), of
// every kind, cancelled from another thread while its serial target queue is busy: the cancellation handler still runs exactly once,
// on the target queue (not on the manager thread, alongside the block the target queue is running)
static void cancel_only(int kind){ struct S *s=calloc(1,sizeof *s); s->kind=kind; s->scen=40; s->q=dispatch_queue_create("tq",NULL); dispatch_queue_set_specific(s->q,&qkey,s,NULL);
  if(pipe(s->p)){}
  switch(kind){ case 0: s->ds=dispatch_source_create(DISPATCH_SOURCE_TYPE_DATA_ADD,0,0,s->q); break;
    case 1: s->ds=dispatch_source_create(DISPATCH_SOURCE_TYPE_TIMER,0,0,s->q); dispatch_source_set_timer(s->ds,dispatch_time(DISPATCH_TIME_NOW,30ll*1000000000ll),DISPATCH_TIME_FOREVER,0); break;
    case 2: s->ds=dispatch_source_create(DISPATCH_SOURCE_TYPE_READ,(uintptr_t)s->p[0],0,s->q); break;
    case 3: s->ds=dispatch_source_create(DISPATCH_SOURCE_TYPE_WRITE,(uintptr_t)s->p[1],0,s->q); break;
    default: s->ds=dispatch_source_create(DISPATCH_SOURCE_TYPE_SIGNAL,SIGUSR2,0,s->q); break; }
  dispatch_source_set_cancel_handler_f(s->ds,ch); dispatch_set_context(s->ds,s); dispatch_activate(s->ds); usleep(3000);
  __block _Atomic int busy=0, overl=0; _Atomic int *bp=&busy, *op=&overl;
  dispatch_async(s->q,^{ atomic_store(bp,1); for(int w=0; w<400; w++){ usleep(50); if(atomic_load(&s->cancel_runs)) atomic_store(op,1); } atomic_store(bp,2); });
  for(int w=0; w<20000 && !atomic_load(&busy); w++) usleep(50);
  dispatch_source_cancel(s->ds); if(rnd()%2) dispatch_source_cancel(s->ds);
  for(int w=0; w<5000 && !atomic_load(&s->cancel_runs); w++) usleep(1000);
  for(int w=0; w<2000 && atomic_load(&busy)!=2; w++) usleep(100);
  if(atomic_load(&overl)) fail("the cancel handler of a source without event handler ran while its serial target queue was running another block: kind",kind,0,0);
  if(atomic_load(&s->cancel_runs)!=1) fail("the cancel handler of a source without event handler did not run exactly once (5 s): kind/runs",kind,atomic_load(&s->cancel_runs),0);
  dispatch_release(s->ds); dispatch_sync(s->q,^{}); dispatch_release(s->q); close(s->p[0]); close(s->p[1]); }
// a source that has a cancellation handler and NO event handler, cancelled when the library holds no registration for it: cancelled before
// it was activated (how 0: cancel, then activate; how 1: cancel_before + a second cancel after the activation), or - a read source on a
// pipe - after the peer has hung up and the library has dropped the registration by itself (how 2). The cancellation handler runs exactly once.
static void cancel_only_unreg(int kind, int how){ struct S *s=calloc(1,sizeof *s); s->kind=kind; s->scen=41+how; s->q=dispatch_queue_create("tq",NULL); dispatch_queue_set_specific(s->q,&qkey,s,NULL);
  if(pipe(s->p)){} int wclosed=0;
  switch(kind){ case 0: s->ds=dispatch_source_create(DISPATCH_SOURCE_TYPE_DATA_ADD,0,0,s->q); break;
    case 1: s->ds=dispatch_source_create(DISPATCH_SOURCE_TYPE_TIMER,0,0,s->q); dispatch_source_set_timer(s->ds,dispatch_time(DISPATCH_TIME_NOW,30ll*1000000000ll),DISPATCH_TIME_FOREVER,0); break;
    case 2: s->ds=dispatch_source_create(DISPATCH_SOURCE_TYPE_READ,(uintptr_t)s->p[0],0,s->q); break;
    case 3: s->ds=dispatch_source_create(DISPATCH_SOURCE_TYPE_WRITE,(uintptr_t)s->p[1],0,s->q); break;
    default: s->ds=dispatch_source_create(DISPATCH_SOURCE_TYPE_SIGNAL,SIGUSR2,0,s->q); break; }
  dispatch_source_set_cancel_handler_f(s->ds,ch); dispatch_set_context(s->ds,s);
  if(how<2){ dispatch_source_cancel(s->ds); usleep(500); dispatch_activate(s->ds); if(how==1) dispatch_source_cancel(s->ds); }
  else { dispatch_activate(s->ds); usleep(3000); close(s->p[1]); wclosed=1; usleep(20000); dispatch_source_cancel(s->ds); }
  for(int w=0; w<5000 && !atomic_load(&s->cancel_runs); w++) usleep(1000);
  usleep(2000);
  if(atomic_load(&s->cancel_runs)!=1) fail("the cancellation handler of a source without event handler, cancelled while the library held no registration for it, did not run exactly once (5 s): kind / how (0 cancelled before activation, 1 and again after it, 2 after a peer hang-up) / runs",kind,how,atomic_load(&s->cancel_runs));
  dispatch_release(s->ds); dispatch_sync(s->q,^{}); dispatch_release(s->q); close(s->p[0]); if(!wclosed) close(s->p[1]); }
// dispatch_source_cancel_and_wait called from another thread while the event handler is IN PROGRESS (the caller cannot take the source's
// lock and has to be told when the cancellation is complete): it returns - after the handler has returned - and no invocation follows
struct cwb { dispatch_source_t ds; _Atomic int in, out, ret, after; };
static void cwb_ev(void *c){ struct cwb *x=c; if(atomic_load(&x->ret)) atomic_fetch_add(&x->after,1); atomic_store(&x->in,1); usleep(30000); atomic_store(&x->out,1); }
static void *cwb_thread(void *a){ struct cwb *x=a; dispatch_source_cancel_and_wait(x->ds); atomic_store(&x->ret, atomic_load(&x->out) ? 1 : 2); return 0; }
static void cw_busy(int kind){ struct cwb *x=calloc(1,sizeof *x); int p[2]; if(pipe(p)){} dispatch_queue_t q=dispatch_queue_create("cwb",NULL);
  switch(kind){ case 0: x->ds=dispatch_source_create(DISPATCH_SOURCE_TYPE_DATA_ADD,0,0,q); break;
    case 1: x->ds=dispatch_source_create(DISPATCH_SOURCE_TYPE_TIMER,0,0,q); dispatch_source_set_timer(x->ds,dispatch_time(DISPATCH_TIME_NOW,1000000),DISPATCH_TIME_FOREVER,0); break;
    default: x->ds=dispatch_source_create(DISPATCH_SOURCE_TYPE_READ,(uintptr_t)p[0],0,q); break; }
  dispatch_set_context(x->ds,x); dispatch_source_set_event_handler_f(x->ds,cwb_ev); dispatch_activate(x->ds);
  if(kind==0) dispatch_source_merge_data(x->ds,1); else if(kind==2){ char c=1; if(write(p[1],&c,1)){} }
  for(int w=0; w<30000 && !atomic_load(&x->in); w++) usleep(100);
  if(!atomic_load(&x->in)){ fail("a source never fired (3 s): kind",kind,0,0); return; }
  pthread_t t; pthread_create(&t,0,cwb_thread,x);
  for(int w=0; w<50000 && !atomic_load(&x->ret); w++) usleep(100);
  if(!atomic_load(&x->ret)) fail("dispatch_source_cancel_and_wait called while the event handler was in progress did not return within 5 s although the handler had returned: kind (0 data, 1 timer, 2 read) / handler returned",kind,atomic_load(&x->out),0);
  else if(atomic_load(&x->ret)==2) fail("dispatch_source_cancel_and_wait returned while the event handler was still running: kind",kind,0,0);
  else { pthread_join(t,0); usleep(3000); if(atomic_load(&x->after)) fail("the event handler was invoked after dispatch_source_cancel_and_wait had returned: kind",kind,0,0);
    dispatch_release(x->ds); dispatch_sync(q,^{}); dispatch_release(q); close(p[0]); close(p[1]); } }
int main(int argc,char**argv){ seed=argc>1?strtoull(argv[1],0,0):1; int rounds=argc>2?atoi(argv[2]):3; signal(SIGUSR2,SIG_IGN); signal(SIGPIPE,SIG_IGN); long n=0;
  trbuf=malloc(TRMAX); _dispatch_verif_source_cb=srccb;
  det_phase=1; for(int v=0; v<16 && !viol; v++){ det(v); n++; } for(int v=0; v<16 && !viol; v++){ det_timer(v); n++; } det_phase=0;
  for(int r=0;r<rounds && !viol;r++) for(int kind=0;kind<5 && !viol;kind++) for(int scen=1;scen<=9 && !viol;scen++){ if(scen==9 && kind!=2) continue;
    if(kind==1 && scen==2) continue;      // a timer is armed only after its registration handler ran: nothing can be pending
    if(kind==3 && (scen==5||scen==6)) {}  // a write source on an empty pipe fires continuously: fine
    one(kind,scen); n++; }
  _dispatch_verif_source_cb=0;
  for(int r=0;r<rounds && !viol;r++) for(int kind=0;kind<5 && !viol;kind++){ cancel_only(kind); n++; }
  for(int r=0;r<rounds && !viol;r++) for(int kind=0;kind<5 && !viol;kind++) for(int how=0; how<3 && !viol; how++){ if(how==2 && kind!=2) continue; cancel_only_unreg(kind,how); n++; }
  for(int r=0;r<rounds && !viol;r++) for(int kind=0;kind<3 && !viol;kind++){ cw_busy(kind); n++; }
  if(!viol){ quiet_cancel(rounds*150); n+=rounds*150; }
  if(viol) printf("ORACLE VIOL seed=%llu %s\n",(unsigned long long)seed,vmsg); else printf("ORACLE ok items=%ld\n",n);
  fwrite(trbuf,1,trlen,stdout);
  return viol?1:0; }
