// Forced history for finding F41 (C18): inside the iterations of one dispatch_apply, dispatch_assert_queue(A) - A the serial queue
// whose item called dispatch_apply - is answered differently depending on which thread runs the iteration: accepted in an iteration
// run by the calling thread (it still has A's frame below the apply), trapped in an iteration run by a helper thread. Whichever
// way "the submitting context for synchronous submissions" is read for dispatch_apply, one of the two answers contradicts
// "dispatch_assert_queue accepts exactly ...". Each question is asked in a forked child (a rejected assertion traps).
// output: "ORACLE VIOL F41 ..." (exit 1) if the two answers differ, "ORACLE ok ..." if they agree, exit 2 if no helper thread took part.
#define _GNU_SOURCE
#include <dispatch/dispatch.h>
#include <stdio.h>
#include <stdlib.h>
#include <unistd.h>
#include <pthread.h>
#include <stdatomic.h>
#include <sys/wait.h>
// answer: 1 accepted, 0 trapped, -1 no iteration of the wanted kind
static int ask(int want_caller, int target_kind){ int pf[2]; if(pipe(pf)) return -1; fflush(stdout); pid_t pid=fork();
  int wfd=pf[1];
  if(pid==0){ close(pf[0]); alarm(20);
    dispatch_queue_t A=dispatch_queue_create("f41.A",NULL); dispatch_queue_t T = target_kind ? dispatch_queue_create("f41.C",DISPATCH_QUEUE_CONCURRENT) : (dispatch_queue_t)dispatch_get_global_queue(0,0);
    __block _Atomic int probed=0, started=0; __block pthread_t caller;
    dispatch_sync(A,^{ caller=pthread_self();
      dispatch_apply(16,T,^(size_t i){ (void)i; atomic_fetch_add(&started,1); int mine=pthread_equal(pthread_self(),caller)!=0;
        if(mine==want_caller && !atomic_exchange(&probed,1)){ if(write(wfd,"q",1)!=1){} dispatch_assert_queue(A); if(write(wfd,"a",1)!=1){} atomic_store(&probed,2); }
        else for(int w=0; w<3000 && atomic_load(&probed)!=2; w++) usleep(100); }); });      // the other iterations wait so that both kinds of thread get one
    _exit(0); }
  close(pf[1]); char buf[4]; int n=0; for(;;){ ssize_t r=read(pf[0],buf+n,(size_t)(2-n)); if(r<=0) break; n+=(int)r; if(n>=2) break; }
  int st; waitpid(pid,&st,0); close(pf[0]);
  if(n==0) return -1; return n>=2 ? 1 : 0; }
int main(void){ int differ=0, asked=0; char line[400]=""; 
  for(int kind=0; kind<2; kind++){ int c=-1, h=-1; for(int tries=0; tries<5 && (c<0||h<0); tries++){ if(c<0) c=ask(1,kind); if(h<0) h=ask(0,kind); }
    if(c<0 || h<0) continue; asked++;
    if(c!=h){ differ++; snprintf(line+strlen(line),sizeof line-strlen(line)," [apply onto %s: iteration on the calling thread %s, iteration on a helper thread %s]",kind?"a concurrent queue":"a global queue",c?"accepted":"trapped",h?"accepted":"trapped"); } }
  if(!asked){ printf("ORACLE skip no dispatch_apply used both the calling thread and a helper thread\n"); return 2; }
  if(differ){ printf("ORACLE VIOL F41 dispatch_assert_queue(A) inside the iterations of one dispatch_apply called from an item of the serial queue A gives different answers depending on the thread that runs the iteration:%s\n",line); return 1; }
  printf("ORACLE ok dispatch_assert_queue(A) answered alike on the calling thread and on helper threads in %d dispatch_apply shapes\n",asked); return 0; }
