// L-trace + L-api harness for C05: synchronous submission returns after completion; the API's hand-off edges order memory.
//  * contended dispatch_sync / dispatch_barrier_sync / dispatch_async_and_wait on a serial and a concurrent queue from several
//    threads, each passing a check-summed plain payload in and reading a plain result back after the call returns; serial
//    items chain a plain counter (each must see exactly its predecessor's value); group wait / notify, semaphore and once
//    hand plain data over the same way.
//  * the futex wake-ups of the library are delayed at random (the harness interposes syscall(): a signaller preempted between
//    its increment and its FUTEX_WAKE is a legal schedule), which produces stale wake-ups at re-used event addresses.
//  * every transition of a thread event word (dte_value) is recorded, with a marker when the waiting thread is seen outside
//    the wait again, for replay through EventP.
// usage: c05_hb <seed> <threads> <ops per thread>
// output: "ORACLE ok|VIOL ...", then "V tid addr func op old new" / "R tid" records
#define _GNU_SOURCE
#include <dispatch/dispatch.h>
#include <stdio.h>
#include <stdint.h>
#include <stdlib.h>
#include <string.h>
#include <unistd.h>
#include <pthread.h>
#include <signal.h>
#include <sched.h>
#include <stdarg.h>
#include <dlfcn.h>
#include <stdatomic.h>
#include <linux/futex.h>
#include <sys/syscall.h>
typedef void (*cb_t)(const volatile void *addr, unsigned size, int op, uint64_t o, uint64_t n, const char *func, int line);
extern cb_t _dispatch_verif_atomic_cb, _dispatch_verif_load_cb;
void dispatch_async_and_wait_f(dispatch_queue_t, void*, dispatch_function_t);
void dispatch_barrier_async_and_wait_f(dispatch_queue_t, void*, dispatch_function_t);
static uint64_t seed; static __thread uint64_t rng; static __thread int mytid;
static long (*real_syscall)(long, ...);
static long raw_gettid(void){ long r; __asm__ volatile("syscall" : "=a"(r) : "0"((long)SYS_gettid) : "rcx","r11","memory"); return r; }
static inline uint64_t rnd(void){ if(!rng) rng = seed ^ (uint64_t)raw_gettid()*0x9e3779b97f4a7c15ull; rng ^= rng<<13; rng ^= rng>>7; rng ^= rng<<17; return rng; }
static atomic_long wakes, delayed; static int inject;
long syscall(long n, ...){ va_list ap; va_start(ap,n); long a0=va_arg(ap,long),a1=va_arg(ap,long),a2=va_arg(ap,long),a3=va_arg(ap,long),a4=va_arg(ap,long),a5=va_arg(ap,long); va_end(ap);
  if(!real_syscall) real_syscall=(long(*)(long,...))dlsym(RTLD_NEXT,"syscall");
  if(n==SYS_futex && (a1&FUTEX_CMD_MASK)==FUTEX_WAKE){ atomic_fetch_add(&wakes,1);
    if(inject && rnd()%2==0){ atomic_fetch_add(&delayed,1); uint64_t k=rnd()%4; if(k==0) sched_yield(); else { struct timespec ts={0,(long)(k==1 ? 20000+rnd()%150000 : 200000+rnd()%1500000)}; nanosleep(&ts,0); } } }
  // a waiter preempted between reading the event value and entering futex_wait (the thread event waits with value UINT32_MAX)
  if(n==SYS_futex && (a1&FUTEX_CMD_MASK)==FUTEX_WAIT && (uint32_t)a2==UINT32_MAX && inject && rnd()%3==0){ struct timespec ts={0,(long)(20000+rnd()%200000)}; nanosleep(&ts,0); }
  return real_syscall(n,a0,a1,a2,a3,a4,a5); }
// ---- thread event trace
typedef struct { uint64_t seq; int tid; int kind; uintptr_t addr; int op; uint64_t o, n; const char *func; } ev_t;
#define MAXEV (1<<21)
static ev_t *evs; static atomic_ulong nev, seq; static __thread int in_wait;
static void rec(int kind, const volatile void *addr, int op, uint64_t o, uint64_t n, const char *func){ unsigned long k=atomic_fetch_add(&nev,1); if(k>=MAXEV) return;
  evs[k]=(ev_t){ atomic_fetch_add(&seq,1), mytid, kind, (uintptr_t)addr, op, o, n, func }; }
static void cb(const volatile void *addr, unsigned size, int op, uint64_t o, uint64_t n, const char *func, int line){ (void)size;(void)line;
  if(!mytid) mytid=(int)raw_gettid();
  int ev = !strncmp(func,"_dispatch_thread_event_",23);
  if(!ev){ if(in_wait){ in_wait=0; rec(1,0,0,0,0,""); } return; }
  if(!strcmp(func,"_dispatch_thread_event_signal")){ if(in_wait){ in_wait=0; rec(1,0,0,0,0,""); } rec(0,addr,op,o,n,func); return; }
  // wait / wait_slow
  if(!strcmp(func,"_dispatch_thread_event_wait")){ if(in_wait){ in_wait=0; rec(1,0,0,0,0,""); } }
  rec(0,addr,op,o,n,func); in_wait=1; }
static atomic_int viol; static char vmsg[300];
static void fail(const char *m, long a, long b, long c){ if(!atomic_exchange(&viol,1)) snprintf(vmsg,sizeof vmsg,"%s %ld %ld %ld",m,a,b,c); }
// ---- payloads
struct pay { uint64_t w[6]; uint64_t sum; };
static void fill(struct pay *p, uint64_t x){ uint64_t s=0; for(int i=0;i<6;i++){ p->w[i]=x*0x9e3779b97f4a7c15ull+(uint64_t)i; s^=p->w[i]; } p->sum=s; }
static int okp(const struct pay *p){ uint64_t s=0; for(int i=0;i<6;i++) s^=p->w[i]; return s==p->sum; }
static dispatch_queue_t SQ, CQ;
static long chain;                 // plain: only touched by items of SQ
static atomic_int running_sq;
struct item { struct pay in; int q; volatile long result; volatile long done; long saw_chain; };
static void work(void *c){ struct item *it=c;
  if(!okp(&it->in)) fail("an item saw a torn / stale payload written by its submitter before the submission",0,0,0);
  if(it->q==0){ if(atomic_fetch_add(&running_sq,1)) fail("two items of the serial queue ran at once (a synchronous caller ran its item without owning the queue)",0,0,0);
    long c0=chain; it->saw_chain=c0; if(rnd()%4==0) sched_yield(); if(chain!=c0) fail("the serial queue's plain counter changed under a running item",0,0,0); chain=c0+1;
    atomic_fetch_sub(&running_sq,1); }
  it->result=(long)it->in.w[0]; it->done=1; }
static int nops; static atomic_long items;
static void nop(void *c){ (void)c; }
static void *client2(void *a){ struct item *its=0; (void)a; its=calloc((size_t)nops,sizeof *its);
  for(int i=0;i<nops && !viol;i++){ struct item *it=&its[i]; int cq=(rnd()%4==0); dispatch_queue_t q=cq?CQ:SQ; it->q=cq;
    fill(&it->in, rnd()); int k=(int)(rnd()%6);
    switch(k){ case 0: case 1: dispatch_sync_f(q,it,work); break; case 2: dispatch_barrier_sync_f(q,it,work); break;
      case 3: dispatch_async_and_wait_f(q,it,work); break; case 4: dispatch_barrier_async_and_wait_f(q,it,work); break;
      default: { dispatch_async_f(q,it,work); atomic_fetch_add(&items,1); continue; } }
    atomic_fetch_add(&items,1);
    if(!it->done) fail("a synchronous submission returned before its item had finished: api",k,0,0);
    else if(it->result!=(long)it->in.w[0]) fail("the result written by the item was not visible after the synchronous call returned",k,0,0); }
  dispatch_barrier_sync_f(CQ,0,nop); dispatch_sync_f(SQ,0,nop); return its; }
// ---- group / semaphore / once edges
static long *rg_slot;
static void *rg_waiter(void *a){ dispatch_group_t g=a; if(dispatch_group_wait(g, DISPATCH_TIME_FOREVER)) return (void*)-1L; return (void*)*(volatile long*)rg_slot; }
// signals with a handler (no SA_RESTART) interrupt the waits of the thread that runs the edges: an interrupted wait is not a satisfied one
static pthread_t edge_thread; static atomic_int ping_stop; static atomic_long pings;
static void on_usr1(int sig){ (void)sig; }
static void *pinger(void *a){ (void)a; while(!atomic_load(&ping_stop)){ pthread_kill(edge_thread,SIGUSR1); atomic_fetch_add(&pings,1); usleep(150+(useconds_t)(atomic_load(&pings)%7)*40); } return 0; }
static void edges_inner(int rounds);
static void edges(int rounds){ struct sigaction sa; memset(&sa,0,sizeof sa); sa.sa_handler=on_usr1; sigaction(SIGUSR1,&sa,0);
  edge_thread=pthread_self(); pthread_t pg; pthread_create(&pg,0,pinger,0);
  edges_inner(rounds);
  atomic_store(&ping_stop,1); pthread_join(pg,0); }
static void edges_inner(int rounds){ dispatch_queue_t gq=dispatch_get_global_queue(0,0);
  for(int r=0;r<rounds && !viol;r++){
    // group: n items write plain slots; wait and a notify block read them
    enum { N=12 }; static long slots[N]; memset(slots,0,sizeof slots); dispatch_group_t g=dispatch_group_create(); long tag=r*1000+7;
    __block _Atomic int noted=0;
    for(int i=0;i<N;i++) dispatch_group_async(g, (i&1)?gq:CQ, ^{ if(rnd()%3==0) sched_yield(); slots[i]=tag+i; });
    dispatch_group_notify(g, gq, ^{ for(int i=0;i<N;i++) if(slots[i]!=tag+i) fail("a group notify block did not see the memory written by the group's items: round/slot",r,i,0); atomic_store(&noted,1); });
    if(dispatch_group_wait(g, DISPATCH_TIME_FOREVER)) fail("group wait FOREVER returned non-zero",0,0,0);
    for(int i=0;i<N;i++) if(slots[i]!=tag+i) fail("dispatch_group_wait returned before the memory written by the group's items was visible: round/slot",r,i,0);
    for(int w=0;w<5000 && !atomic_load(&noted);w++) usleep(200);
    if(!atomic_load(&noted)) fail("group notify block never ran",r,0,0);
    dispatch_release(g);
    // a group that is REUSED across rounds (its generation advances), waited on by a timed wait that expires and then by two
    // concurrent unbounded waits: whichever of them returns 0 must see the item's plain write
    { static dispatch_group_t rg; static long rslot; if(!rg) rg=dispatch_group_create(); rslot=0; rg_slot=&rslot;
      dispatch_group_async(rg, gq, ^{ usleep(300+(unsigned)(rnd()%500)); rslot=tag; });
      if(dispatch_group_wait(rg, dispatch_time(DISPATCH_TIME_NOW,(int64_t)(20000+rnd()%60000)))==0 && rslot!=tag) fail("a timed dispatch_group_wait on a reused group returned 0 before the item's write was visible: round",r,0,0);
      pthread_t wt; pthread_create(&wt,0,rg_waiter,(void*)rg);
      if(rnd()%2) usleep(rnd()%100);
      if(dispatch_group_wait(rg, DISPATCH_TIME_FOREVER)) fail("group wait FOREVER returned non-zero (reused group)",r,0,0);
      if(rslot!=tag) fail("dispatch_group_wait on a reused group (waiters bit already set by another waiter) returned 0 before the item's write was visible: round",r,0,0);
      void *seen; pthread_join(wt,&seen); if((long)seen!=tag) fail("a second concurrent dispatch_group_wait on a reused group returned before the item's write was visible: round/saw",r,(long)seen,0);
      }
    // semaphore: producer writes plain, then signals
    static long box; dispatch_semaphore_t s=dispatch_semaphore_create(0); box=0;
    dispatch_async(gq, ^{ if(rnd()%2) usleep(rnd()%200); box=tag; dispatch_semaphore_signal(s); });
    dispatch_semaphore_wait(s, DISPATCH_TIME_FOREVER);
    if(box!=tag) fail("a wait satisfied by a signal did not see the memory written before the signal: round",r,0,0);
    dispatch_release(s);
    // semaphore, polling consumer: the producer writes slot k (plain) and then signals, k = 1..M; the consumer mixes polls, short
    // timed waits and unbounded waits: its k-th satisfied wait needs k signals, so slot k must be visible - a wait satisfied
    // without a signal behind it (a permit created out of nothing) reads a slot that has not been written
    { enum { M=24 }; static long slot[M+1]; memset(slot,0,sizeof slot); dispatch_semaphore_t ps=dispatch_semaphore_create(0); __block _Atomic int pdone=0;
      dispatch_async(gq, ^{ for(int k=1;k<=M;k++){ if(rnd()%2) usleep(rnd()%150); slot[k]=tag+k; dispatch_semaphore_signal(ps); } atomic_store(&pdone,1); });
      int got=0; while(got<M && !viol){ int m=(int)(rnd()%3); long r;
        if(m==0) r=dispatch_semaphore_wait(ps,DISPATCH_TIME_NOW); else if(m==1) r=dispatch_semaphore_wait(ps,dispatch_time(DISPATCH_TIME_NOW,(int64_t)(rnd()%60000)));
        else r=dispatch_semaphore_wait(ps,DISPATCH_TIME_FOREVER);
        if(r==0){ got++; if(slot[got]!=tag+got) fail("a dispatch_semaphore_wait was satisfied although the signal it stands for had not been issued (the memory written before that signal is not there): round/wait number",r,got,0); } }
      for(int w=0;w<5000 && !atomic_load(&pdone);w++) usleep(200);
      if(!viol && dispatch_semaphore_wait(ps,DISPATCH_TIME_NOW)==0) fail("a permit was left over after every signal had been consumed: round",r,0,0);
      dispatch_release(ps); }
    // once: every caller sees the initialiser's writes after dispatch_once_f returns
    static dispatch_once_t *pred; static long inited[4]; pred=calloc(1,sizeof *pred); memset(inited,0,sizeof inited);
    dispatch_group_t og=dispatch_group_create();
    for(int i=0;i<6;i++) dispatch_group_async(og, gq, ^{ dispatch_once(pred, ^{ for(int j=0;j<4;j++){ inited[j]=tag+j; if(j==1 && rnd()%2) sched_yield(); } });
        for(int j=0;j<4;j++) if(inited[j]!=tag+j) fail("dispatch_once returned before the initialiser's writes were visible: round/word",r,j,0); });
    dispatch_group_wait(og, DISPATCH_TIME_FOREVER); dispatch_release(og); } }
static void dump(void){ unsigned long n=atomic_load(&nev); if(n>MAXEV) n=MAXEV;
  for(unsigned long i=0;i<n;i++){ ev_t *e=&evs[i]; if(e->kind==1) printf("R %d\n",e->tid); else printf("V %d %lx %s %d %lx %lx\n",e->tid,(unsigned long)e->addr,e->func,e->op,(unsigned long)e->o,(unsigned long)e->n); } fflush(stdout); }
static void *watchdog(void *a){ (void)a; long last=-1; int same=0; for(;;){ usleep(200000); long d=atomic_load(&items); if(d==last) same++; else same=0; last=d; if(same>=150){
   printf("STUCK after %ld items: a synchronous submission never returned\n",d); _dispatch_verif_atomic_cb=0; _dispatch_verif_load_cb=0; dump(); _exit(3);} } return 0; }
static void on_crash(int sig){ char b[200]; int n=snprintf(b,sizeof b,"ORACLE VIOL seed=%llu the library trapped or crashed (signal %d) during contended synchronous submissions (a trap here is the library's own ownership / corruption check firing)\n",(unsigned long long)seed,sig); if(n>0) (void)!write(1,b,(size_t)n); _exit(1); }
// ---- a barrier behind exactly one running reader (deterministic): the concurrent queue's list is empty and one unit of its width is in use
// (one asynchronous item, or one dispatch_sync reader, is running) when dispatch_barrier_sync / dispatch_barrier_async_and_wait
// arrives: the barrier item runs after the reader has finished and sees what it wrote; the call returns after the barrier item.
void dispatch_barrier_async_and_wait(dispatch_queue_t, dispatch_block_t);
struct rdr { dispatch_queue_t q; _Atomic int *started, *go; long *slot; };
static void *sync_reader(void *a){ struct rdr *r=a; dispatch_sync(r->q,^{ atomic_store(r->started,1); for(int w=0; w<40000 && !atomic_load(r->go); w++) usleep(50); *r->slot=41; }); return 0; }
static void one_reader_then_barrier(int rounds){ for(int r=0;r<rounds && !viol;r++) for(int kind=0;kind<4 && !viol;kind++){
    dispatch_queue_t q=dispatch_queue_create("c05.one",DISPATCH_QUEUE_CONCURRENT); __block _Atomic int started=0, go=0; __block long slot=0; long *sp=&slot; _Atomic int *stp=&started, *gp=&go;
    pthread_t th; int have_th=0; struct rdr ra={q,stp,gp,sp};
    if(kind&1){ pthread_create(&th,0,sync_reader,&ra); have_th=1; }
    else dispatch_async(q,^{ atomic_store(stp,1); for(int w=0; w<40000 && !atomic_load(gp); w++) usleep(50); *sp=41; });
    for(int w=0; w<40000 && !atomic_load(&started); w++) usleep(50);
    dispatch_after(dispatch_time(DISPATCH_TIME_NOW,3000000),dispatch_get_global_queue(0,0),^{ atomic_store(gp,1); });     // the reader finishes 3 ms later
    __block long seen=-1; void (^bar)(void)=^{ seen=*sp; *sp=42; };
    if(kind&2) dispatch_barrier_async_and_wait(q,bar); else dispatch_barrier_sync(q,bar);
    if(seen!=41) fail("a barrier item submitted synchronously to a concurrent queue with one running reader and an empty list ran before that reader had finished (it did not see the reader's write): round / kind (bit 0: the reader is a dispatch_sync, bit 1: dispatch_barrier_async_and_wait) / value seen",r,kind,seen);
    else if(slot!=42) fail("a synchronous barrier submission returned before its item had finished: round/kind",r,kind,0);
    if(have_th) pthread_join(th,0); dispatch_barrier_sync(q,^{}); dispatch_release(q); atomic_fetch_add(&items,2); } }
int main(int argc,char**argv){ signal(SIGILL,on_crash); signal(SIGSEGV,on_crash); signal(SIGABRT,on_crash); signal(SIGBUS,on_crash); seed=argc>1?strtoull(argv[1],0,0):1; int nthr=argc>2?atoi(argv[2]):6; nops=argc>3?atoi(argv[3]):2000;
  evs=calloc(MAXEV,sizeof(ev_t)); SQ=dispatch_queue_create("s",DISPATCH_QUEUE_SERIAL); CQ=dispatch_queue_create("c",DISPATCH_QUEUE_CONCURRENT);
  inject=1; _dispatch_verif_load_cb=cb; _dispatch_verif_atomic_cb=cb;
  pthread_t wd; pthread_create(&wd,0,watchdog,0);
  pthread_t th[64]; for(int i=0;i<nthr;i++) pthread_create(&th[i],0,client2,0);
  for(int i=0;i<nthr;i++) pthread_join(th[i],0);
  dispatch_barrier_sync_f(CQ,0,nop); dispatch_sync_f(SQ,0,nop);
  one_reader_then_barrier(3);
  edges(argc>4?atoi(argv[4]):40);
  _dispatch_verif_atomic_cb=0; _dispatch_verif_load_cb=0; inject=0;
  if(viol) printf("ORACLE VIOL seed=%llu %s\n",(unsigned long long)seed,vmsg);
  else printf("ORACLE ok items=%ld chain=%ld futex_wakes=%ld delayed=%ld signals_at_waits=%ld\n",atomic_load(&items),chain,atomic_load(&wakes),atomic_load(&delayed),atomic_load(&pings));
  dump(); return viol?1:0; }
