// C14 L-fn harness for a dispatch I/O stream write: write() on the pipe is interposed to cap what each call accepts (short
// writes) and to log (requested length, result, first byte handed over); the data object is built from regions of the given
// sizes. Line in:  "W <low> <high> <chunk pages> <region sizes, comma> | <caps>"     (low / high -1 = default)
// Line out: "writes=<req>:<ret>:<first byte>,... calls=<done>:<size or -1 for NULL>:<err>|... fd=<ok|BAD pos>"
#define _GNU_SOURCE
#include <dispatch/dispatch.h>
#include <stdio.h>
#include <stdlib.h>
#include <string.h>
#include <unistd.h>
#include <errno.h>
#include <dlfcn.h>
#include <pthread.h>
#include <signal.h>
#include <fcntl.h>
void _dispatch_iocntl(uint32_t param, uint64_t value);
static int target_fd = -1; static long caps[512]; static int ncaps, kw;
static char wlog[1<<20]; static size_t wlen; static pthread_mutex_t mu = PTHREAD_MUTEX_INITIALIZER;
ssize_t write(int fd, const void *buf, size_t n){
  static ssize_t (*real)(int,const void*,size_t); if(!real) real = dlsym(RTLD_NEXT,"write");
  if (fd != target_fd) return real(fd,buf,n);
  pthread_mutex_lock(&mu);
  size_t want = n; long cap = kw < ncaps ? caps[kw] : 1000000000L; kw++;
  if ((long)want > cap) want = (size_t)cap;
  ssize_t r; int e; do { r = real(fd,buf,want); e = errno; } while (r < 0 && e == EINTR);
  if (wlen + 64 < sizeof wlog) wlen += (size_t)snprintf(wlog+wlen, sizeof wlog - wlen, "%s%zu:%ld:%u", wlen?",":"", n, r < 0 ? -(long)e : (long)r, n?((const unsigned char*)buf)[0]:0u);
  pthread_mutex_unlock(&mu);
  errno = e;
  return r; }
static char clog[1<<16]; static size_t clen;
int main(void){ static char line[1<<16]; dispatch_queue_t q = dispatch_queue_create("h", NULL); signal(SIGPIPE, SIG_IGN);
  while (fgets(line,sizeof line,stdin)){
    char *bar = strchr(line,'|'); if(bar){ *bar=0; bar++; }
    char *t = strtok(line," \n"); if(!t||strcmp(t,"W")){ puts("bad-op"); continue; }
    long low = atol(strtok(NULL," \n")), high = atol(strtok(NULL," \n")); long pages = atol(strtok(NULL," \n")); char *regs = strtok(NULL," \n");
    _dispatch_iocntl(1 /* DISPATCH_IOCNTL_CHUNK_PAGES */, (uint64_t)pages);
    ncaps = 0; kw = 0; wlen = 0; clen = 0; wlog[0]=0; clog[0]=0;
    if(bar){ char *sv=NULL; for(char *s=strtok_r(bar," \n",&sv); s && ncaps<512; s=strtok_r(NULL," \n",&sv)) caps[ncaps++]=atol(s); }
    dispatch_data_t d = dispatch_data_empty; size_t total=0;
    { char *sv=NULL; for(char *s=strtok_r(regs,",",&sv); s; s=strtok_r(NULL,",",&sv)){ size_t m=(size_t)atol(s); if(!m) continue; unsigned char *b=malloc(m); for(size_t j=0;j<m;j++) b[j]=(unsigned char)((total+j)%251); total+=m;
        dispatch_data_t piece=dispatch_data_create(b,m,NULL,DISPATCH_DATA_DESTRUCTOR_FREE); dispatch_data_t c=dispatch_data_create_concat(d,piece); dispatch_release(piece); if(d!=dispatch_data_empty) dispatch_release(d); d=c; } }
    int p[2]; if (pipe(p)) return 2; fcntl(p[1],F_SETPIPE_SZ,1<<20);
    target_fd = p[1];
    dispatch_semaphore_t s = dispatch_semaphore_create(0), cl = dispatch_semaphore_create(0);
    dispatch_io_t ch = dispatch_io_create(DISPATCH_IO_STREAM, p[1], q, ^(int e){ (void)e; dispatch_semaphore_signal(cl); });
    if (high >= 0) dispatch_io_set_high_water(ch,(size_t)high);
    if (low >= 0) dispatch_io_set_low_water(ch,(size_t)low);
    dispatch_io_write(ch, 0, d, q, ^(bool done, dispatch_data_t rem, int err){
      if (clen + 64 < sizeof clog) clen += (size_t)snprintf(clog+clen, sizeof clog - clen, "%s%d:%ld:%d", clen?"|":"", done?1:0, rem ? (long)dispatch_data_get_size(rem) : -1L, err);
      if (done) dispatch_semaphore_signal(s); });
    dispatch_release(d);
    if (dispatch_semaphore_wait(s, dispatch_time(DISPATCH_TIME_NOW, 20ll*1000000000ll))) { printf("STUCK writes=%s calls=%s\n", wlog, clog); fflush(stdout); _exit(3); }
    dispatch_io_close(ch, 0); dispatch_release(ch);
    dispatch_semaphore_wait(cl, dispatch_time(DISPATCH_TIME_NOW, 20ll*1000000000ll));
    pthread_mutex_lock(&mu); target_fd = -1; pthread_mutex_unlock(&mu);
    // what arrived at the descriptor: the submitted bytes, each once, in order
    close(p[1]); unsigned char *rb=malloc(total+16); size_t got=0; for(;;){ ssize_t n=read(p[0],rb+got,total+16-got); if(n<=0) break; got+=(size_t)n; }
    long badpos=-1; for(size_t j=0;j<got;j++) if(rb[j]!=(unsigned char)(j%251)){ badpos=(long)j; break; }
    free(rb); close(p[0]);
    if(badpos>=0) printf("writes=%s calls=%s fd=BAD:%ld\n", wlog, clog, badpos); else printf("writes=%s calls=%s fd=%zu\n", wlog, clog, got); fflush(stdout);
  }
  return 0; }
