// L-trace + L-api harness for dispatch_apply (C10): iteration counts {0,1,2,cpus-1,cpus,cpus+1,100,1000,20000}, targets
// {DISPATCH_APPLY_AUTO, global, custom serial, custom concurrent, serial chain, concurrent -> concurrent chain, concurrent ->
// thread-bound main queue drained run-loop style by the main thread}, nesting up
// to depth 3, several applies racing from different threads, barriers racing with applies on the concurrent queue.
// Oracle: every index invoked exactly once, no other value, return only after all invocations finished, index order and
// no overlap on serial targets, no overlap with a barrier of the target. Atomic transitions of _dispatch_apply_invoke2 recorded.
// usage: tr_apply <seed> <rounds>
#define _GNU_SOURCE
#include <dispatch/dispatch.h>
#include <stdio.h>
#include <stdint.h>
#include <stdlib.h>
#include <string.h>
#include <unistd.h>
#include <pthread.h>
#include <signal.h>
#include <poll.h>
#include <sched.h>
#include <stdatomic.h>
#include <sys/syscall.h>
typedef void (*cb_t)(const volatile void *addr, unsigned size, int op, uint64_t o, uint64_t n, const char *func, int line);
extern cb_t _dispatch_verif_atomic_cb;
typedef struct { uint64_t seq; int tid; uintptr_t addr; unsigned size; int op; uint64_t o, n; } ev_t;
#define MAXEV (1<<21)
static ev_t *evs; static atomic_ulong nev, seq; static __thread int mytid;
static void cb(const volatile void *addr, unsigned size, int op, uint64_t o, uint64_t n, const char *func, int line){ (void)line;
  if(strcmp(func,"_dispatch_apply_invoke2")) return; if(!mytid) mytid=(int)syscall(SYS_gettid);
  unsigned long k=atomic_fetch_add(&nev,1); if(k>=MAXEV) return; evs[k]=(ev_t){atomic_fetch_add(&seq,1),mytid,(uintptr_t)addr,size,op,o,n}; }
static __thread uint64_t rng; static uint64_t seed;
static inline uint64_t rnd(void){ if(!rng) rng = seed ^ (uint64_t)syscall(SYS_gettid)*0x9e3779b97f4a7c15ull; rng ^= rng<<13; rng ^= rng>>7; rng ^= rng<<17; return rng; }
extern void (*_dispatch_verif_yield_cb)(const volatile void *addr, const char *func, int line);
// perturbation inside the claim / completion protocol of _dispatch_apply_invoke2 (between any two of its atomic operations)
static void ycb(const volatile void *addr, const char *func, int line){ (void)addr;(void)line;
  if(strcmp(func,"_dispatch_apply_invoke2")) return; uint64_t r=rnd()%6; if(r==0) sched_yield(); else if(r==1) usleep(rnd()%80); }
static atomic_int viol; static char vmsg[300];
static void fail(const char *m, long a, long b, long c){ if(!atomic_exchange(&viol,1)) snprintf(vmsg,sizeof vmsg,"%s %ld %ld %ld",m,a,b,c); }
struct app { size_t n; _Atomic unsigned char *cnt; _Atomic long finished; _Atomic long running; _Atomic long last; int serial; int kind; int depth; dispatch_queue_t q; _Atomic int *barrier_running; };
static atomic_long invocations;
static void do_apply(int kind, size_t n, int depth);
static void work(void *c, size_t i){ struct app *a=c; atomic_fetch_add(&invocations,1);
  if(i>=a->n){ fail("work invoked with an index outside 0..n-1: index/n",(long)i,(long)a->n,a->kind); return; }
  if(atomic_fetch_add(&a->cnt[i],1)) fail("index invoked more than once: index/n/kind",(long)i,(long)a->n,a->kind);
  long r=atomic_fetch_add(&a->running,1);
  if(a->serial){ if(r!=0) fail("invocations overlapped on a serial target: index/kind",(long)i,a->kind,0); long l=atomic_exchange(&a->last,(long)i); if(l!=(long)i-1) fail("invocations out of index order on a serial target: previous/index/kind",l,(long)i,a->kind); }
  if(a->barrier_running && atomic_load(a->barrier_running)) fail("an apply invocation ran while a barrier item of the target queue was running: kind",a->kind,0,0);
  if(a->depth<2 && a->n<=8 && rnd()%4==0) do_apply((int)(rnd()%2), rnd()%5, a->depth+1);   // nested apply (AUTO / global only: a nested apply onto the custom queue it runs on, with a barrier in between, is a client wait-for cycle)
  if(rnd()%8==0) sched_yield();
  atomic_fetch_sub(&a->running,1); atomic_fetch_add(&a->finished,1); }
extern void _dispatch_main_queue_callback_4CF(void *msg);
extern int _dispatch_get_main_queue_handle_4CF(void);
static dispatch_queue_t QS, QC, QSS, QCC, QCM; static atomic_int clients_done; static _Atomic int bar_c; static _Atomic long chain_barriers, chain_barriers_ran;
static void do_apply(int kind, size_t n, int depth){ struct app a; memset(&a,0,sizeof a); a.n=n; a.kind=kind; a.depth=depth; a.cnt=calloc(n+1,1); atomic_store(&a.last,-1);
  dispatch_queue_t q;
  switch(kind){ case 0: q=DISPATCH_APPLY_AUTO; break; case 1: q=(dispatch_queue_t)dispatch_get_global_queue(0,0); break;
    case 2: q=QS; a.serial=1; break; case 3: q=QC; a.barrier_running=&bar_c; break; case 4: q=QSS; a.serial=1; break; case 6: q=QCM; a.serial=1; break; default: q=QCC; break; }
  // a serial target reached from inside one of its own items would deadlock (client wait-for cycle): nested applies avoid serial targets
  if(depth>0 && a.serial){ q=DISPATCH_APPLY_AUTO; a.serial=0; a.kind=0; }
  if(depth>0 && kind==3){ a.barrier_running=NULL; }
  a.q=q; dispatch_apply_f(n,q,&a,work);
  if(atomic_load(&a.finished)!=(long)n) fail("dispatch_apply returned before all invocations had finished: finished/n/kind",atomic_load(&a.finished),(long)n,kind);
  for(size_t i=0;i<n;i++) if(a.cnt[i]!=1){ fail("index not invoked exactly once: index/count/kind",(long)i,a.cnt[i],kind); break; }
  free((void*)a.cnt); }
static int ncpu; static int rounds;
static size_t pick_n(void){ size_t c[]={0,1,2,(size_t)ncpu-1,(size_t)ncpu,(size_t)ncpu+1,3,7,100,1000,20000}; return c[rnd()%11]; }
// signals with a handler (no SA_RESTART) reach the threads that call dispatch_apply while they wait for the helpers: an
// interrupted wait is not a completed one
static void on_usr1(int sig){ (void)sig; }
static pthread_t cl_th[4]; static int cl_n; static atomic_int ping_stop, cl_release; static atomic_long pings;
static void *pinger(void *a){ (void)a; while(!atomic_load(&ping_stop)){ for(int i=0;i<cl_n;i++) pthread_kill(cl_th[i],SIGUSR1); atomic_fetch_add(&pings,1); usleep(300); } return 0; }
static void *client(void *x){ (void)x; for(int r=0;r<rounds && !viol;r++){ int kind=(int)(rnd()%7); do_apply(kind,pick_n(),0);
    if(rnd()%5==0){ dispatch_barrier_async(QC,^{ atomic_store(&bar_c,1); for(volatile int k=0;k<3000;k++){} atomic_store(&bar_c,0); }); }
    // barriers on the chained queues too: width that an apply failed to give back on an upper level shows as a barrier (and
    // everything behind it) that never runs
    if(rnd()%4==0){ atomic_fetch_add(&chain_barriers,1); dispatch_barrier_async(rnd()%2?QSS:QCC,^{ atomic_fetch_add(&chain_barriers_ran,1); }); } } atomic_fetch_add(&clients_done,1); while(!atomic_load(&cl_release)) usleep(200);   /* stay alive while the pinger may still signal this thread */ return NULL; }
// ---- width-limited chains: an apply on a concurrent queue behaves as non-barrier items of that queue, so no more of its invocations
// run at once than the narrowest queue of the target chain admits (every level grants the apply only part of what it asks for, and
// what each level did not grant has to stay subtracted).
extern void dispatch_queue_set_width(dispatch_queue_t dq, long width);
struct nw { _Atomic long running, peak, finished; _Atomic unsigned char *cnt; size_t n; };
static void nw_work(void *c, size_t i){ struct nw *a=c; atomic_fetch_add(&invocations,1); if(i>=a->n){ fail("work invoked with an index outside 0..n-1 (width-limited chain): index/n",(long)i,(long)a->n,0); return; }
  if(atomic_fetch_add(&a->cnt[i],1)) fail("index invoked more than once (width-limited chain): index/n",(long)i,(long)a->n,0);
  long r=atomic_fetch_add(&a->running,1)+1; long p=atomic_load(&a->peak); while(r>p && !atomic_compare_exchange_weak(&a->peak,&p,r)){}
  usleep(300); atomic_fetch_sub(&a->running,1); atomic_fetch_add(&a->finished,1); }
static void narrow_chains(void){ static const int shapes[][3]={{8,4,0},{6,3,0},{12,5,2},{4,8,0},{10,6,3},{3,0,0}};   // widths top / middle / bottom (0 = level absent)
  for(unsigned k=0;k<sizeof shapes/sizeof *shapes && !viol;k++){ dispatch_queue_t lv[3]={0,0,0}; int narrowest=1<<30; dispatch_queue_t below=NULL;
    for(int l=2;l>=0;l--){ int w=shapes[k][l]; if(!w) continue; lv[l]= below ? dispatch_queue_create_with_target("nw",DISPATCH_QUEUE_CONCURRENT,below) : dispatch_queue_create("nw",DISPATCH_QUEUE_CONCURRENT);
      dispatch_queue_set_width(lv[l],w); dispatch_barrier_sync(lv[l],^{}); if(w<narrowest) narrowest=w; below=lv[l]; }
    for(int rep=0; rep<2 && !viol; rep++){ struct nw a; memset(&a,0,sizeof a); a.n=(size_t)(40+rnd()%60); a.cnt=calloc(a.n+1,1);
      dispatch_apply_f(a.n,lv[0],&a,nw_work);
      if(atomic_load(&a.finished)!=(long)a.n) fail("dispatch_apply on a width-limited chain returned before all invocations had finished: finished/n/shape",atomic_load(&a.finished),(long)a.n,(long)k);
      for(size_t i=0;i<a.n && !viol;i++) if(a.cnt[i]!=1) fail("index not invoked exactly once (width-limited chain): index/count/shape",(long)i,a.cnt[i],(long)k);
      if(atomic_load(&a.peak)>narrowest) fail("more invocations of one dispatch_apply ran at once than the narrowest queue of its target chain admits non-barrier items: peak/narrowest width/shape",atomic_load(&a.peak),narrowest,(long)k);
      free((void*)a.cnt); }
    for(int l=0;l<3;l++) if(lv[l]){ __block atomic_int ran=0; atomic_int *rp=&ran; dispatch_barrier_async(lv[l],^{ atomic_store(rp,1); }); for(int w=0; w<5000 && !atomic_load(&ran); w++) usleep(1000);
      if(!atomic_load(&ran) && !viol) fail("a barrier item submitted to a width-limited queue after dispatch_apply calls through it never ran (5 s): shape/level",(long)k,l,0); } } }
// ---- an apply with a single participant (one iteration, or more with every other thread of the machine already taken by enclosing
// applies): its invocations are still items of the queue - not before a running barrier item has finished, not while the queue is
// suspended, not while the serial queue the concurrent queue targets runs another item.
struct sp { dispatch_queue_t q; size_t n; _Atomic int ran, returned; };
static void sp_work(void *c, size_t i){ (void)i; struct sp *x=c; atomic_fetch_add(&invocations,1); atomic_fetch_add(&x->ran,1); }
static void *sp_thread(void *a){ struct sp *x=a; dispatch_apply_f(x->n,x->q,x,sp_work); atomic_store(&x->returned,1); return 0; }
static void single_participant(void){ for(int rep=0; rep<2 && !viol; rep++) for(int sc=0; sc<3 && !viol; sc++){ size_t n = rep ? 1 : 1+(size_t)(rnd()%2);
    dispatch_queue_t s=dispatch_queue_create("sp.s",NULL), q = sc==2 ? dispatch_queue_create_with_target("sp.c",DISPATCH_QUEUE_CONCURRENT,s) : dispatch_queue_create("sp.c",DISPATCH_QUEUE_CONCURRENT);
    __block _Atomic int gate=0, inside=0; _Atomic int *gp=&gate, *ip=&inside; struct sp x; memset(&x,0,sizeof x); x.q=q; x.n=1; (void)n;
    if(sc==0){ dispatch_barrier_async(q,^{ atomic_store(ip,1); for(int w=0; w<40000 && !atomic_load(gp); w++) usleep(50); }); for(int w=0; w<40000 && !atomic_load(&inside); w++) usleep(50); }
    else if(sc==1) dispatch_suspend(q);
    else { dispatch_async(s,^{ atomic_store(ip,1); for(int w=0; w<40000 && !atomic_load(gp); w++) usleep(50); }); for(int w=0; w<40000 && !atomic_load(&inside); w++) usleep(50); }
    pthread_t t; pthread_create(&t,0,sp_thread,&x); usleep(20000);
    if(atomic_load(&x.ran) || atomic_load(&x.returned)) fail("a dispatch_apply of one iteration on a concurrent queue invoked its work (or returned) while the queue could not run items: 0 a barrier item was running, 1 the queue was suspended, 2 the serial queue it targets was running another item / invocations / returned",sc,atomic_load(&x.ran),atomic_load(&x.returned));
    if(sc==1) dispatch_resume(q); else atomic_store(&gate,1);
    for(int w=0; w<5000 && !atomic_load(&x.returned); w++) usleep(1000);
    if(!viol && (!atomic_load(&x.returned) || atomic_load(&x.ran)!=1)) fail("a dispatch_apply of one iteration did not complete with exactly one invocation after the queue could run items again: scenario / invocations / returned",sc,atomic_load(&x.ran),atomic_load(&x.returned));
    if(!viol){ pthread_join(t,0); dispatch_barrier_sync(q,^{}); dispatch_release(q); dispatch_release(s); } } }
// a dispatch_apply with a single participant is a NON-barrier item of a concurrent queue: it runs alongside a running reader of that
// queue, and from inside an item of the queue (a nested apply on the same queue) it returns
static void single_not_barrier(void){ for(int sc=0; sc<3 && !viol; sc++){ dispatch_queue_t t = sc==1 ? dispatch_queue_create("nb.t",DISPATCH_QUEUE_CONCURRENT) : NULL;
    dispatch_queue_t q = t ? dispatch_queue_create_with_target("nb.c",DISPATCH_QUEUE_CONCURRENT,t) : dispatch_queue_create("nb.c",DISPATCH_QUEUE_CONCURRENT);
    __block _Atomic int a_in=0, applied=0, a_saw=0, a_out=0, nested_ret=0;
    if(sc<2){ dispatch_async(q,^{ atomic_store(&a_in,1); for(int w=0; w<30000 && !atomic_load(&applied); w++) usleep(100); atomic_store(&a_saw,atomic_load(&applied)); atomic_store(&a_out,1); });
      for(int w=0; w<30000 && !atomic_load(&a_in); w++) usleep(100);
      dispatch_apply(1,q,^(size_t i){ (void)i; atomic_store(&applied,1); });
      for(int w=0; w<40000 && !atomic_load(&a_out); w++) usleep(100);
      if(!atomic_load(&a_saw)) fail("a dispatch_apply of one iteration on a concurrent queue did not run while a non-barrier item of that queue was running (it waited for it: it behaved as a barrier item): shape 0 plain, 1 concurrent over concurrent",sc,0,0); }
    else { dispatch_async(q,^{ dispatch_apply(1,q,^(size_t i){ (void)i; atomic_store(&applied,1); }); atomic_store(&nested_ret,1); });
      for(int w=0; w<50000 && !atomic_load(&nested_ret); w++) usleep(100);
      if(!atomic_load(&nested_ret)) fail("a dispatch_apply of one iteration called from an item of the same concurrent queue did not return within 5 s",atomic_load(&applied),0,0); }
    if(!viol){ dispatch_barrier_sync(q,^{}); dispatch_release(q); if(t) dispatch_release(t); } } }
// "for all iteration counts": more iterations than a 32-bit index can count, on the in-order path (a serial queue): the indices arrive
// as 0, 1, 2, ... n-1, each once, and the call returns (about 2^32 trivial invocations, some 9 s)
static _Atomic uint64_t big_next; static atomic_int big_bad;
static void big_work(void *c, size_t i){ (void)c; uint64_t e=atomic_load_explicit(&big_next,memory_order_relaxed); if(i!=e && !atomic_exchange(&big_bad,1)) fail("dispatch_apply on a serial queue did not invoke the indices in order, each once: expected index / got (low 31 bits)",(long)(e&0x7fffffff),(long)(i&0x7fffffff),(long)(e>>32)); atomic_store_explicit(&big_next,e+1,memory_order_relaxed); }
static int big_serial(void){ dispatch_queue_t s=dispatch_queue_create("big.s",NULL); uint64_t n=(1ull<<32)+3; atomic_store(&big_next,0);
  __block _Atomic int ret=0; _Atomic int *rp=&ret; pthread_t t; struct { dispatch_queue_t q; uint64_t n; _Atomic int *r; } a={s,n,rp};
  dispatch_async(dispatch_get_global_queue(0,0),^{ dispatch_apply_f((size_t)a.n,a.q,NULL,big_work); atomic_store(a.r,1); }); (void)t;
  for(int w=0; w<1800 && !atomic_load(&ret) && !viol; w++) usleep(100000);
  if(!viol && !atomic_load(&ret)) fail("dispatch_apply of 2^32 + 3 iterations on a serial queue did not return within 3 minutes: invocations so far (high, low 31 bits)",(long)(atomic_load(&big_next)>>31),(long)(atomic_load(&big_next)&0x7fffffff),0);
  else if(!viol && atomic_load(&big_next)!=n) fail("dispatch_apply of 2^32 + 3 iterations returned after another number of invocations: low 31 bits / high",(long)(atomic_load(&big_next)&0x7fffffff),(long)(atomic_load(&big_next)>>31),0);
  return 1; }
int main(int argc,char**argv){ seed=argc>1?strtoull(argv[1],0,0):1; rounds=argc>2?atoi(argv[2]):40; ncpu=(int)sysconf(_SC_NPROCESSORS_ONLN);
  evs=calloc(MAXEV,sizeof *evs);
  if(argc>3 && atoi(argv[3])){ big_serial(); if(viol) printf("ORACLE VIOL seed=%llu %s\n",(unsigned long long)seed,vmsg); else printf("ORACLE ok items=1\n"); fflush(stdout); _exit(viol?1:0); }
  QS=dispatch_queue_create("s",NULL); QC=dispatch_queue_create("c",DISPATCH_QUEUE_CONCURRENT);
  dispatch_queue_t s2=dispatch_queue_create("s2",NULL); QSS=dispatch_queue_create_with_target("ss",DISPATCH_QUEUE_CONCURRENT,s2);   // concurrent queue targeting a serial one
  dispatch_queue_t c2=dispatch_queue_create("c2",DISPATCH_QUEUE_CONCURRENT); QCC=dispatch_queue_create_with_target("cc",DISPATCH_QUEUE_CONCURRENT,c2);
  // a concurrent queue whose target is the thread-bound main queue, which the main thread drains the way a run loop does
  QCM=dispatch_queue_create_with_target("cm",DISPATCH_QUEUE_CONCURRENT,dispatch_get_main_queue()); int mh=_dispatch_get_main_queue_handle_4CF();
  _dispatch_verif_yield_cb=ycb; _dispatch_verif_atomic_cb=cb;
  narrow_chains();
  single_participant(); single_not_barrier();
  struct sigaction sa; memset(&sa,0,sizeof sa); sa.sa_handler=on_usr1; sigaction(SIGUSR1,&sa,0);
  pthread_t th[4]; int nt=3; for(int i=0;i<nt;i++){ pthread_create(&th[i],0,client,0); cl_th[i]=th[i]; } cl_n=nt;
  pthread_t pg; pthread_create(&pg,0,pinger,0);
  while(atomic_load(&clients_done)<nt){ struct pollfd pf={mh,POLLIN,0}; poll(&pf,1,2); _dispatch_main_queue_callback_4CF(NULL); }
  atomic_store(&ping_stop,1); pthread_join(pg,0); atomic_store(&cl_release,1);
  for(int i=0;i<nt;i++) pthread_join(th[i],0);
  dispatch_barrier_sync(QC,^{});
  for(int w=0; w<10000 && atomic_load(&chain_barriers_ran)<atomic_load(&chain_barriers); w++) usleep(1000);
  if(!viol && atomic_load(&chain_barriers_ran)<atomic_load(&chain_barriers)) fail("barrier items submitted to a concurrent queue of a chain after dispatch_apply calls on it never ran (10 s): ran/submitted",atomic_load(&chain_barriers_ran),atomic_load(&chain_barriers),0);
  _dispatch_verif_atomic_cb=0;
  if(viol) printf("ORACLE VIOL seed=%llu %s\n",(unsigned long long)seed,vmsg); else printf("ORACLE ok items=%ld events=%lu signal_rounds=%ld\n",atomic_load(&invocations),atomic_load(&nev),atomic_load(&pings));
  unsigned long n=atomic_load(&nev); if(n>MAXEV) n=MAXEV;
  for(unsigned long i=0;i<n;i++){ ev_t *e=&evs[i]; printf("E %lu %d %lx %u %d %lu %lu\n",e->seq,e->tid,(unsigned long)e->addr,e->size,e->op,(unsigned long)e->o,(unsigned long)e->n); }
  return viol?1:0; }
