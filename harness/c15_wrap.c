// C15 oracle for DATA_ADD at its wrap-around: merged values add modulo 2^64, so merges can cancel (x, then 2^64 - x) and the pending
// value can be back at zero between the moment an invocation is decided and the moment the value is latched. "A handler invocation
// never reports zero" and "the values reported sum to the values merged" (modulo 2^64) must still hold.
// usage: c15_wrap <seed> <milliseconds>
#define _GNU_SOURCE
#include <dispatch/dispatch.h>
#include <stdio.h>
#include <stdint.h>
#include <stdlib.h>
#include <unistd.h>
#include <string.h>
#include <pthread.h>
#include <stdatomic.h>
#include <sys/syscall.h>
static uint64_t seed; static __thread uint64_t rng;
static inline uint64_t rnd(void){ if(!rng) rng = seed ^ (uint64_t)syscall(SYS_gettid)*0x9e3779b97f4a7c15ull; rng ^= rng<<13; rng ^= rng>>7; rng ^= rng<<17; return rng; }
static atomic_int viol, stop; static char vmsg[300];
extern void (*_dispatch_verif_yield_cb)(const volatile void *addr, const char *func, int line);
// the invoking thread is held for a moment just before it takes the pending value: the cancelling merge lands between its decision to deliver and the latch
static void ycb(const volatile void *addr, const char *func, int line){ (void)addr;(void)line; if(strcmp(func,"_dispatch_source_latch_and_call")) return; if(rnd()%2) usleep((useconds_t)(rnd()%120)); }
static void fail(const char *m, long a, long b, long c){ if(!atomic_exchange(&viol,1)) snprintf(vmsg,sizeof vmsg,"%s %ld %ld %ld",m,a,b,c); }
#define NS 4
static dispatch_source_t ds[NS]; static _Atomic uint64_t merged[NS], delivered[NS]; static atomic_long calls[NS], inside[NS];
static void handler(void *c){ long i=(long)c; if(atomic_fetch_add(&inside[i],1)) fail("the event handler of a source ran on two threads at once: source",i,0,0);
  uint64_t d=dispatch_source_get_data(ds[i]); atomic_fetch_add(&calls[i],1); if(!d) fail("a handler invocation reported zero (DATA_ADD source whose merged values cancel modulo 2^64): source / invocation",i,atomic_load(&calls[i]),0);
  atomic_fetch_add(&delivered[i],d); atomic_fetch_sub(&inside[i],1); }
static void *merger(void *a){ long i=(long)a%NS; while(!atomic_load(&stop) && !viol){ uint64_t x = rnd()%4==0 ? (1ull<<63) : 1+rnd()%1000;
    atomic_fetch_add(&merged[i],x); dispatch_source_merge_data(ds[i],x); if(rnd()%2) usleep((useconds_t)(rnd()%100)); else if(rnd()%8==0) sched_yield();
    atomic_fetch_add(&merged[i],(uint64_t)0-x); dispatch_source_merge_data(ds[i],(uint64_t)0-x);
    if(rnd()%16==0){ uint64_t y=1+rnd()%7; atomic_fetch_add(&merged[i],y); dispatch_source_merge_data(ds[i],y); } } return 0; }
int main(int argc,char**argv){ seed=argc>1?strtoull(argv[1],0,0):1; int ms=argc>2?atoi(argv[2]):1000;
  if(!freopen("/dev/null","w",stderr)){}                      // the library logs a line each time it finds the pending value back at zero
  dispatch_queue_t sq=dispatch_queue_create("w.s",NULL);
  for(long i=0;i<NS;i++){ ds[i]=dispatch_source_create(DISPATCH_SOURCE_TYPE_DATA_ADD,0,0, i%2? sq : dispatch_get_global_queue(0,0)); dispatch_set_context(ds[i],(void*)i); dispatch_source_set_event_handler_f(ds[i],handler); dispatch_activate(ds[i]); }
  _dispatch_verif_yield_cb=ycb;
  pthread_t th[NS]; for(long i=0;i<NS;i++) pthread_create(&th[i],0,merger,(void*)i);      // one merging thread per source: its pairs really bring the pending value back to zero
  for(int e=0; e<ms/10 && !viol; e++) usleep(10000);
  atomic_store(&stop,1); for(int i=0;i<NS;i++) pthread_join(th[i],0); for(long i=0;i<NS;i++){ atomic_fetch_add(&merged[i],1); dispatch_source_merge_data(ds[i],1); }
  for(int w=0; w<3000 && !viol; w++){ int ok=1; for(int i=0;i<NS;i++) if(atomic_load(&merged[i])!=atomic_load(&delivered[i])) ok=0; if(ok) break; usleep(1000); }
  for(long i=0;i<NS && !viol;i++) if(atomic_load(&merged[i])!=atomic_load(&delivered[i])) fail("the values reported by a DATA_ADD source do not sum (modulo 2^64) to the values merged, 3 s after the last merge: source / difference",i,(long)(atomic_load(&merged[i])-atomic_load(&delivered[i])),0);
  _dispatch_verif_yield_cb=0; long n=0; for(int i=0;i<NS;i++) n+=atomic_load(&calls[i]);
  if(viol){ printf("ORACLE VIOL seed=%llu %s\n",(unsigned long long)seed,vmsg); fflush(stdout); _exit(1); }
  printf("ORACLE ok items=%ld\n",n); fflush(stdout); _exit(0); }
