// C04 oracle beyond the property's own histories: the width of a busy concurrent queue is changed while readers and barriers run
// (dispatch_queue_set_width, a private legacy setter, is itself a barrier item run by the drainer: the drainer that gives the queue
// back afterwards must give back the width the queue has NOW). Widths 2 and up and the automatic constants only (width 1 turns the
// queue serial, which is another code path). Oracle: a barrier item never overlaps any other item, every item runs, nothing hangs.
// usage: c04_width <seed> <milliseconds>
#define _GNU_SOURCE
#include <dispatch/dispatch.h>
#include <stdio.h>
#include <stdint.h>
#include <stdlib.h>
#include <string.h>
#include <unistd.h>
#include <signal.h>
#include <pthread.h>
#include <stdatomic.h>
#include <sys/syscall.h>
extern void dispatch_queue_set_width(dispatch_queue_t dq, long width);
extern void _Block_release(const void *);
static uint64_t seed; static __thread uint64_t rng;
static inline uint64_t rnd(void){ if(!rng) rng = seed ^ (uint64_t)syscall(SYS_gettid)*0x9e3779b97f4a7c15ull; rng ^= rng<<13; rng ^= rng>>7; rng ^= rng<<17; return rng; }
static atomic_int viol; static char vmsg[300];
static void fail(const char *m, long a, long b, long c){ if(!atomic_exchange(&viol,1)) snprintf(vmsg,sizeof vmsg,"%s %ld %ld %ld",m,a,b,c); }
static void on_crash(int sig){ char b[200]; int n=snprintf(b,sizeof b,"ORACLE VIOL seed=%llu the library trapped or crashed (signal %d) while the width of a busy concurrent queue was changed\n",(unsigned long long)seed,sig); if(n>0) (void)!write(1,b,(size_t)n); _exit(1); }
static dispatch_queue_t q; static atomic_int readers, in_barrier, stop; static atomic_long done, outstanding, progress, changes;
static void reader(void *c){ (void)c; atomic_fetch_add(&readers,1); if(atomic_load(&in_barrier)) fail("a reader started while a barrier item was running (after a width change of the busy queue): width changes so far",atomic_load(&changes),0,0);
  for(volatile int k=0;k<(int)(300+rnd()%4000);k++){} atomic_fetch_sub(&readers,1); atomic_fetch_add(&done,1); atomic_fetch_add(&progress,1); atomic_fetch_sub(&outstanding,1); }
static void barrier(void *c){ (void)c; if(atomic_exchange(&in_barrier,1)) fail("two barrier items overlapped",0,0,0); int r=atomic_load(&readers); if(r) fail("a barrier item started while readers were still running (after a width change of the busy queue): readers / width changes so far",r,atomic_load(&changes),0);
  for(volatile int k=0;k<1500;k++){} r=atomic_load(&readers); if(r) fail("a reader ran during a barrier item: readers",r,0,0); atomic_store(&in_barrier,0); atomic_fetch_add(&done,1); atomic_fetch_add(&progress,1); atomic_fetch_sub(&outstanding,1); }
static void *flood(void *a){ (void)a; while(!atomic_load(&stop) && !viol){ if(atomic_load(&outstanding)>400){ usleep(100); continue; } atomic_fetch_add(&outstanding,1); dispatch_async_f(q,0,reader); if(rnd()%16==0) usleep(rnd()%100); } return 0; }
static void *syncer(void *a){ long me=(long)a; while(!atomic_load(&stop) && !viol){ atomic_fetch_add(&outstanding,1);
    switch((int)((rnd()+ (uint64_t)me)%6)){ case 0: dispatch_sync_f(q,0,reader); break; case 1: dispatch_barrier_sync_f(q,0,barrier); break; case 2: dispatch_barrier_async_f(q,0,barrier); break;
      case 3: { // the barrier-ness comes from the API call, not from the block object: a block object WITHOUT the BARRIER flag handed to dispatch_barrier_sync is still a barrier item
        dispatch_block_t b=dispatch_block_create(rnd()%2?0:DISPATCH_BLOCK_ASSIGN_CURRENT,^{ barrier(NULL); }); dispatch_barrier_sync(q,b); _Block_release(b); break; }
      case 4: { dispatch_block_t b=dispatch_block_create(DISPATCH_BLOCK_BARRIER,^{ barrier(NULL); }); if(rnd()%2) dispatch_sync(q,b); else dispatch_async(q,b); _Block_release(b); break; }      // ... and the flag alone makes one, through any API
      default: dispatch_async_f(q,0,reader); break; }
    usleep((useconds_t)(rnd()%200)); } return 0; }
static void *changer(void *a){ (void)a; static const long W[]={2,3,4,7,16,-1,-2,-3}; while(!atomic_load(&stop) && !viol){ dispatch_queue_set_width(q,W[rnd()%8]); atomic_fetch_add(&changes,1); usleep((useconds_t)(300+rnd()%1500)); } return 0; }
int main(int argc,char**argv){ seed=argc>1?strtoull(argv[1],0,0):1; int ms=argc>2?atoi(argv[2]):1500;
  signal(SIGILL,on_crash); signal(SIGSEGV,on_crash); signal(SIGABRT,on_crash); signal(SIGBUS,on_crash);
  q=dispatch_queue_create("w.c",DISPATCH_QUEUE_CONCURRENT); pthread_t th[5]; pthread_create(&th[0],0,flood,0); for(long i=1;i<4;i++) pthread_create(&th[i],0,syncer,(void*)i); pthread_create(&th[4],0,changer,0);
  long last=-1; int idle=0; for(int e=0; e<ms/50 && !viol; e++){ usleep(50000); long p=atomic_load(&progress); if(p==last){ if(++idle>=100) break; } else { idle=0; last=p; } }
  atomic_store(&stop,1);
  for(int w=0; w<400 && !viol && atomic_load(&outstanding)>0; w++){ usleep(50000); long p=atomic_load(&progress); if(p==last){ if(++idle>=100) break; } else { idle=0; last=p; } }
  if(!viol && atomic_load(&outstanding)>0) fail("no item of the concurrent queue ran for 5 s although items are outstanding (after width changes of the busy queue): outstanding / width changes / items run",atomic_load(&outstanding),atomic_load(&changes),atomic_load(&done));
  if(viol){ printf("ORACLE VIOL seed=%llu %s\n",(unsigned long long)seed,vmsg); fflush(stdout); _exit(1); }
  for(int i=0;i<5;i++) pthread_join(th[i],0);
  printf("ORACLE ok items=%ld width_changes=%ld\n",atomic_load(&done),atomic_load(&changes)); fflush(stdout); _exit(0); }
