// C15 oracle, suspension clause: "merges made while the source is suspended ... are delivered afterwards". The source is suspended
// from its own registration handler or from its own event handler (dispatch_suspend has returned on that thread), a value is merged
// right afterwards; nothing may be delivered until dispatch_resume, and then exactly what was merged is.
// Third history (forced): another thread's dispatch_suspend lands after the invocation has decided to deliver and before the handler
// is called - the invoking thread is held just before it takes the pending value. The value is then delivered by that committed
// invocation or after the resume, never lost.
// usage: c15_regsusp <seed>
#define _GNU_SOURCE
#include <dispatch/dispatch.h>
#include <stdio.h>
#include <stdint.h>
#include <stdlib.h>
#include <unistd.h>
#include <stdatomic.h>
#include <string.h>
#include <pthread.h>
extern void (*_dispatch_verif_yield_cb)(const volatile void *addr, const char *func, int line);
static atomic_int y_arm, y_held, y_go; static pthread_t main_th;
static void ycb(const volatile void *addr, const char *func, int line){ (void)addr;(void)line; if(strcmp(func,"_dispatch_source_latch_and_call") || pthread_equal(pthread_self(),main_th)) return;
  if(atomic_exchange(&y_arm,0)){ atomic_store(&y_held,1); for(int w=0; w<20000 && !atomic_load(&y_go); w++) usleep(50); } }
static atomic_int viol; static char vmsg[300];
static void fail(const char *m, long a, long b, long c){ if(!atomic_exchange(&viol,1)) snprintf(vmsg,sizeof vmsg,"%s %ld %ld %ld",m,a,b,c); }
int main(int argc,char**argv){ uint64_t seed=argc>1?strtoull(argv[1],0,0):1; long n=0;
  static const dispatch_source_type_t *unused; (void)unused;
  for(int rep=0; rep<3 && !viol; rep++) for(int type=0; type<3 && !viol; type++) for(int tq=0; tq<4 && !viol; tq++) for(int where=0; where<2 && !viol; where++){
    dispatch_queue_t q = tq==0? dispatch_queue_create("rs.s",NULL) : tq==1? dispatch_queue_create("rs.c",DISPATCH_QUEUE_CONCURRENT) : tq==2? (dispatch_queue_t)dispatch_get_global_queue(0,0) : NULL;
    dispatch_source_t ds=dispatch_source_create(type==0?DISPATCH_SOURCE_TYPE_DATA_ADD: type==1?DISPATCH_SOURCE_TYPE_DATA_OR: DISPATCH_SOURCE_TYPE_DATA_REPLACE,0,0,q);
    __block _Atomic int resumed=0, early=0, suspended=0, calls=0; __block _Atomic unsigned long got=0, last=0;
    unsigned long v1 = 1+(unsigned long)((seed*7+(uint64_t)rep*13+(uint64_t)type*5+(uint64_t)tq)%6), v2 = 8;
    dispatch_source_set_event_handler(ds,^{ unsigned long d=dispatch_source_get_data(ds); int c=atomic_fetch_add(&calls,1);
      if(atomic_load(&suspended) && !atomic_load(&resumed)) atomic_fetch_add(&early,1);
      if(type==1) atomic_fetch_or(&got,d); else atomic_fetch_add(&got,d); atomic_store(&last,d);
      if(where==1 && c==0){ dispatch_suspend(ds); atomic_store(&suspended,1); dispatch_source_merge_data(ds,v2); } });     // suspended from the event handler, then a merge
    if(where==0) dispatch_source_set_registration_handler(ds,^{ dispatch_suspend(ds); atomic_store(&suspended,1); dispatch_source_merge_data(ds,v1); });   // suspended from the registration handler, then a merge
    dispatch_activate(ds);
    if(where==1) dispatch_source_merge_data(ds,v1);
    for(int w=0; w<5000 && !atomic_load(&suspended); w++) usleep(1000);
    if(!atomic_load(&suspended)){ fail("the handler that suspends the source never ran (5 s): type/target/where",type,tq,where); break; }
    usleep(30000);
    if(atomic_load(&early)) fail("the event handler was invoked while the source was suspended (dispatch_suspend had returned, dispatch_resume not yet called): type / target queue kind / suspended from (0 registration handler, 1 event handler)",type,tq,where);
    atomic_store(&resumed,1); dispatch_resume(ds);
    unsigned long want = where==0 ? v1 : (type==0? v1+v2 : type==1? (v1|v2) : v2);
    for(int w=0; w<5000 && !viol; w++){ unsigned long g = type==2 ? atomic_load(&last) : atomic_load(&got); if(g==want) break; usleep(1000); }
    unsigned long g = type==2 ? atomic_load(&last) : atomic_load(&got);
    if(!viol && g!=want) fail("a value merged while the source was suspended was not delivered after dispatch_resume (5 s): type / delivered / expected",type,(long)g,(long)want);
    dispatch_source_cancel(ds); dispatch_release(ds); if(tq<2) dispatch_release(q); n++; usleep(1000); }
  // values merged BEFORE the pass that runs the registration handler (while the source is still inactive, or right after
  // dispatch_activate) and nothing merged afterwards: they are delivered all the same, without a later merge to shake them loose
  for(int rep=0; rep<2 && !viol; rep++) for(int type=0; type<3 && !viol; type++) for(int tq=0; tq<3 && !viol; tq++){
    dispatch_queue_t q = tq==0? dispatch_queue_create("rg.s",NULL) : tq==1? dispatch_queue_create("rg.c",DISPATCH_QUEUE_CONCURRENT) : (dispatch_queue_t)dispatch_get_global_queue(0,0);
    dispatch_source_t ds=dispatch_source_create(type==0?DISPATCH_SOURCE_TYPE_DATA_ADD: type==1?DISPATCH_SOURCE_TYPE_DATA_OR: DISPATCH_SOURCE_TYPE_DATA_REPLACE,0,0,q);
    __block _Atomic unsigned long got=0, last=0; __block _Atomic int reg=0;
    dispatch_source_set_event_handler(ds,^{ unsigned long d=dispatch_source_get_data(ds); if(type==1) atomic_fetch_or(&got,d); else atomic_fetch_add(&got,d); atomic_store(&last,d); });
    dispatch_source_set_registration_handler(ds,^{ atomic_store(&reg,1); });
    unsigned long a = 3+(unsigned long)((seed+(uint64_t)type+(uint64_t)tq)%5), b = 16;
    dispatch_source_merge_data(ds,a);                       // while inactive
    dispatch_activate(ds); if(rep) dispatch_source_merge_data(ds,b);      // right after the activation (rep 1)
    unsigned long want = rep ? (type==0? a+b : type==1? (a|b) : b) : a;
    for(int w=0; w<3000; w++){ unsigned long g = type==2 ? atomic_load(&last) : atomic_load(&got); if(g==want && atomic_load(&reg)) break; usleep(1000); }
    unsigned long g = type==2 ? atomic_load(&last) : atomic_load(&got);
    if(g!=want) fail("values merged before the registration handler of a source had run were not delivered (3 s; nothing was merged afterwards): type / delivered / expected",type,(long)g,(long)want);
    dispatch_source_cancel(ds); dispatch_release(ds); if(tq<2) dispatch_release(q); n++; usleep(1000); }
  main_th=pthread_self();
  for(int rep=0; rep<4 && !viol; rep++) for(int type=0; type<3 && !viol; type++){ dispatch_queue_t q=dispatch_queue_create("rs.x",NULL);
    dispatch_source_t ds=dispatch_source_create(type==0?DISPATCH_SOURCE_TYPE_DATA_ADD: type==1?DISPATCH_SOURCE_TYPE_DATA_OR: DISPATCH_SOURCE_TYPE_DATA_REPLACE,0,0,q);
    __block _Atomic unsigned long got=0, last=0; dispatch_source_set_event_handler(ds,^{ unsigned long d=dispatch_source_get_data(ds); if(type==1) atomic_fetch_or(&got,d); else atomic_fetch_add(&got,d); atomic_store(&last,d); });
    dispatch_activate(ds); dispatch_sync(q,^{}); usleep(1000);
    atomic_store(&y_held,0); atomic_store(&y_go,0); _dispatch_verif_yield_cb=ycb; atomic_store(&y_arm,1);
    dispatch_source_merge_data(ds,5);
    for(int w=0; w<4000 && !atomic_load(&y_held); w++) usleep(50);
    dispatch_suspend(ds); atomic_store(&y_go,1); usleep(3000); _dispatch_verif_yield_cb=0; atomic_store(&y_arm,0);
    dispatch_resume(ds);
    for(int w=0; w<3000; w++){ unsigned long g = type==2 ? atomic_load(&last) : atomic_load(&got); if(g==5) break; usleep(1000); }
    unsigned long g = type==2 ? atomic_load(&last) : atomic_load(&got);
    if(g!=5) fail("a value merged before a suspension that landed between the decision to deliver and the handler call was lost (not delivered by that invocation, not delivered after dispatch_resume; 3 s): type / delivered / invocation was held",type,(long)g,atomic_load(&y_held));
    dispatch_source_cancel(ds); dispatch_release(ds); dispatch_release(q); n++; }
  if(viol){ printf("ORACLE VIOL seed=%llu %s\n",(unsigned long long)seed,vmsg); return 1; }
  printf("ORACLE ok items=%ld\n",n); return 0; }
