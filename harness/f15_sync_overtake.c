// Forced schedule for finding F15 (C02 / C04): a synchronous submission that takes the fast path overtakes an asynchronous item
// whose submission has already returned.
//   worker W: has drained item0, found the list empty and is held right before the compare-and-swap that unlocks the queue;
//   thread P: dispatch_async(q, item1) on the empty list: exchanges the tail, links the head, and is held before its wake-up
//             (so dq_state does not become DIRTY);
//   main:     dispatch_async(q, A): appended behind item1, not responsible for the wake-up; its override wake-up finds the queue
//             owned and only merges the QoS; the call returns;
//   W:        released: the word is not DIRTY, the unlock succeeds and leaves the idle word although two items are queued;
//   main:     dispatch_sync(q, B): the fast path sees the idle word, takes the queue and runs B - before A.
// Each hold is a delay a preemption could cause. Run for a serial queue (C02) and, with dispatch_barrier_sync, for a concurrent
// queue (C04: "every item whose submission completed before the barrier was submitted finishes before the barrier starts").
// output: one "ORACLE ..." line per queue kind; exit 1 if B ran before A on either.
#define _GNU_SOURCE
#include <dispatch/dispatch.h>
#include <stdio.h>
#include <stdint.h>
#include <stdlib.h>
#include <string.h>
#include <unistd.h>
#include <pthread.h>
#include <stdatomic.h>
extern void (*_dispatch_verif_yield_cb)(const volatile void *addr, const char *func, int line);
extern volatile void *_dispatch_verif_queue_state_addr(dispatch_queue_t dq);
static dispatch_queue_t Q; static volatile void *QS;
static atomic_int item0_done, heldW, goW, heldP, goP, a_ran, b_before_a; static __thread int is_p;
static void spin_until(atomic_int *f){ for(int w=0; w<50000 && !atomic_load(f); w++) usleep(100); }
static void ycb(const volatile void *addr, const char *func, int line){ (void)line; if(addr!=QS) return;
  if(is_p){ if(!strcmp(func,"_dispatch_queue_wakeup") && !atomic_load(&heldP)){ atomic_store(&heldP,1); spin_until(&goP); } return; }
  if(!strcmp(func,"_dispatch_queue_drain_try_unlock") && atomic_load(&item0_done) && !atomic_load(&heldW)){ atomic_store(&heldW,1); spin_until(&goW); } }
static void *t_p(void *a){ (void)a; is_p=1; dispatch_async(Q, ^{}); return 0; }
int main(void){ int viol=0;
  for(int concurrent=0; concurrent<2; concurrent++){
    atomic_store(&item0_done,0); atomic_store(&heldW,0); atomic_store(&goW,0); atomic_store(&heldP,0); atomic_store(&goP,0); atomic_store(&a_ran,0); atomic_store(&b_before_a,0);
    Q=dispatch_queue_create("f15", concurrent?DISPATCH_QUEUE_CONCURRENT:DISPATCH_QUEUE_SERIAL); QS=_dispatch_verif_queue_state_addr(Q);
    _dispatch_verif_yield_cb=ycb;
    if(concurrent) dispatch_barrier_async(Q, ^{ atomic_store(&item0_done,1); }); else dispatch_async(Q, ^{ atomic_store(&item0_done,1); });
    spin_until(&heldW);
    pthread_t p; pthread_create(&p,0,t_p,0); spin_until(&heldP);
    int forced = atomic_load(&heldW) && atomic_load(&heldP);
    dispatch_async(Q, ^{ atomic_store(&a_ran,1); });                     // A: its submission returns here
    atomic_store(&goW,1); usleep(20000);                                 // W unlocks
    uint64_t st=*(volatile uint64_t*)QS;
    if(concurrent) dispatch_barrier_sync(Q, ^{ if(!atomic_load(&a_ran)) atomic_store(&b_before_a,1); });
    else dispatch_sync(Q, ^{ if(!atomic_load(&a_ran)) atomic_store(&b_before_a,1); });
    atomic_store(&goP,1); pthread_join(p,0);
    for(int w=0; w<50 && !atomic_load(&a_ran); w++) usleep(100000);
    _dispatch_verif_yield_cb=0;
    const char *k=concurrent?"concurrent":"serial";
    if(!forced) printf("ORACLE ok F15 schedule could not be forced (%s queue: %d %d)\n",k,atomic_load(&heldW),atomic_load(&heldP));
    else if(atomic_load(&b_before_a)){ viol=1; printf("ORACLE VIOL F15 forced schedule (%s queue): %s ran its item before an asynchronous item whose submission had returned before the synchronous call began (dq_state %016lx looked idle with two items queued: the first pusher had not yet woken the queue)\n",k,concurrent?"dispatch_barrier_sync":"dispatch_sync",(unsigned long)st); }
    else printf("ORACLE ok F15 forced schedule (%s queue): the synchronous item ran after the queued item (dq_state %016lx)\n",k,(unsigned long)st);
    if(!atomic_load(&a_ran)) printf("ORACLE note: item A never ran\n");
    dispatch_release(Q); }
  fflush(stdout); _exit(viol); }
