// C06 L-api oracle + L-trace: inactive and suspended queues run nothing; N suspends need exactly N resumes (any depth,
// including depths that overflow the inline counter into the side counter several times); after the last resume /
// the activation every pending item and every blocked dispatch_sync caller runs.
// Scenarios per depth: (4)/(5) serial / concurrent queue suspended from an item that runs synchronously as a barrier while a
// blocked dispatch_sync caller and asynchronous items are already queued behind it, (0) serial queue suspended from outside, (1) serial queue suspended from its own item,
// (2) concurrent queue suspended from a barrier item, (3) queue created inactive, suspended depth-1 times, activate last,
// (7) queue created inactive, suspended depth times, activated first (nothing may start), then resumed depth times.
// (9)/(10) scenarios (3)/(7) on a concurrent queue. (11) see scenario_spill_race.
// (6) hand-over of the last resume to another thread while the drainer leaves (see scenario_handover).
// (8) a property setter that runs on the idle queue under its own temporary suspension (dispatch_set_target_queue /
//     dispatch_queue_set_width on an active queue: _dispatch_barrier_trysync_or_async_f) while another thread nests suspensions into
//     the side counter and takes part of them back; the setter is held just before it gives its suspension back (see scenario_setter).
// usage: c06_suspend <seed> [handover trials]; output as harness/tr_lane.c ("Q ..." header, "ORACLE ok|VIOL", "E ..." events)
#define _GNU_SOURCE
#include <dispatch/dispatch.h>
#include <stdio.h>
#include <stdlib.h>
#include <stdint.h>
#include <string.h>
#include <unistd.h>
#include <pthread.h>
#include <stdatomic.h>
#include <sys/syscall.h>
typedef void (*cb_t)(const volatile void *addr, unsigned size, int op, uint64_t o, uint64_t n, const char *func, int line);
extern cb_t _dispatch_verif_atomic_cb;
extern volatile void *_dispatch_verif_queue_state_addr(dispatch_queue_t dq);
typedef struct { uint64_t seq; int tid; int q; int off; int op; uint64_t o, n; const char *func; int line; } ev_t;
#define MAXEV (1<<20)
static ev_t *evs; static atomic_ulong nev, evseq; static __thread int mytid; static dispatch_queue_t CUR; static int curq;
static void cb(const volatile void *addr, unsigned size, int op, uint64_t o, uint64_t n, const char *func, int line){ (void)size;
  long d=(char*)addr-(char*)CUR; if(!CUR||d<0||d>=128) return; if(!mytid) mytid=(int)syscall(SYS_gettid);
  unsigned long k=atomic_fetch_add(&nev,1); if(k>=MAXEV) return; evs[k]=(ev_t){atomic_fetch_add(&evseq,1),mytid,curq,(int)d,op,o,n,func,line}; }
static void dump(void){ unsigned long n=atomic_load(&nev); if(n>MAXEV) n=MAXEV; for(unsigned long i=0;i<n;i++){ ev_t *e=&evs[i];
  printf("E %lu %d %d %d %d %016lx %016lx %s %d\n", e->seq, e->tid, e->q, e->off, e->op, e->o, e->n, e->func, e->line); } fflush(stdout); }
static uint64_t rs; static uint64_t rnd(void){ rs += 0x9E3779B97F4A7C15ull; uint64_t z=rs; z=(z^(z>>30))*0xBF58476D1CE4E5B9ull; z=(z^(z>>27))*0x94D049BB133111EBull; return z^(z>>31); }
static char vmsg[300]; static int viol;
static void fail(const char *m, long a, long b, long c){ if(!viol){ viol=1; snprintf(vmsg,sizeof vmsg,"%s %ld %ld %ld",m,a,b,c);} }
struct sync_arg { dispatch_queue_t q; atomic_int *ran; };
static void *sync_caller(void *c){ struct sync_arg *a=c; dispatch_sync(a->q,^{ atomic_store(a->ran,1); }); return NULL; }
struct susp_arg { dispatch_queue_t q; int depth; int conc; atomic_int *en, *g; };
static void *sync_suspender(void *c){ struct susp_arg *a=c; void (^blk)(void)=^{ atomic_store(a->en,1); for(int w=0; w<50000 && !atomic_load(a->g); w++) usleep(100); for(int i=0;i<a->depth;i++) dispatch_suspend(a->q); };
  if(a->conc) dispatch_barrier_sync(a->q,blk); else dispatch_sync(a->q,blk); return NULL; }
static void scenario(int kind, int depth, int qidx){
  atomic_int a_ran=0, s_ran=0, extra=0; __block atomic_int *ar=&a_ran, *sr=&s_ran, *ex=&extra;
  int conc = (kind==2||kind==5||kind==9||kind==10); if(kind==9) kind=3; if(kind==10) kind=7;       // 9 / 10: scenarios 3 / 7 on a concurrent queue (the blocked caller is a non-barrier dispatch_sync)
  dispatch_queue_attr_t attr = conc? DISPATCH_QUEUE_CONCURRENT : DISPATCH_QUEUE_SERIAL; if(kind==3||kind==7) attr=dispatch_queue_attr_make_initially_inactive(attr);
  dispatch_queue_t q=dispatch_queue_create("c06",attr); curq=qidx; CUR=q;
  printf("Q %d width %d stateoff %ld\n", qidx, conc?4094:1, (long)((char*)_dispatch_verif_queue_state_addr(q)-(char*)q));
  int need = depth;   // resumes (or resumes + activate) needed
  if(kind==0){ for(int i=0;i<depth;i++) dispatch_suspend(q); }
  else if(kind==1 || kind==2){ dispatch_semaphore_t done=dispatch_semaphore_create(0);
    void (^blk)(void)=^{ for(int i=0;i<depth;i++) dispatch_suspend(q); dispatch_semaphore_signal(done); };
    if(kind==2) dispatch_barrier_async(q,blk); else dispatch_async(q,blk);
    dispatch_semaphore_wait(done,DISPATCH_TIME_FOREVER); }
  else if(kind==4 || kind==5){ // the suspending item runs synchronously as a barrier; the work that must wait is queued behind it while it runs
    __block atomic_int entered=0, go=0; atomic_int *en=&entered, *g=&go;
    pthread_t ts; struct { dispatch_queue_t q; int depth; int conc; atomic_int *en, *g; } *sa2=malloc(sizeof *sa2); sa2->q=q; sa2->depth=depth; sa2->conc=(kind==5); sa2->en=en; sa2->g=g;
    pthread_create(&ts,NULL,sync_suspender,sa2);
    for(int w=0; w<5000 && !atomic_load(en); w++) usleep(200);
    dispatch_async(q,^{ atomic_store(ar,1); });
    if(kind==5) dispatch_async(q,^{ atomic_fetch_add(ex,1); });
    pthread_t th2; struct sync_arg *sb=malloc(sizeof *sb); sb->q=q; sb->ran=&s_ran; pthread_create(&th2,NULL,sync_caller,sb);
    usleep(3000); atomic_store(g,1); pthread_join(ts,NULL); usleep(2000);
    for(int i=0;i<need;i++){
      if(a_ran||s_ran||extra) { fail("an item started while the queue was suspended by a synchronously running barrier item: kind/depth/resumes-issued",kind,depth,i); break; }
      dispatch_resume(q); if(i<need-1 && (i%16==15 || i>=need-3)) usleep(1500); }
    if(!viol){ for(int w=0; w<5000 && !(a_ran&&s_ran); w++) usleep(1000);
      if(!a_ran) fail("pending async item did not run after the last resume: kind/depth",kind,depth,0);
      else if(!s_ran) fail("blocked dispatch_sync caller did not run after the last resume: kind/depth",kind,depth,0); }
    if(!viol){ pthread_join(th2,NULL); dispatch_barrier_sync(q,^{}); CUR=NULL; dispatch_release(q); } else CUR=NULL;
    return; }
  else if(kind==7){ for(int i=0;i<depth;i++) dispatch_suspend(q); need=depth+1; }    // created inactive, suspended, ACTIVATED FIRST: the suspensions are still owed
  else { for(int i=0;i<depth-1;i++) dispatch_suspend(q); }
  // work that must not start yet
  pthread_t th; struct sync_arg sa={q,&s_ran}; int sync_first = conc && (kind==3||kind==7);   // a non-barrier dispatch_sync arriving at the inactive queue while it is still empty
  if(sync_first){ pthread_create(&th,NULL,sync_caller,&sa); usleep(3000); }
  dispatch_async(q,^{ atomic_store(ar,1); });
  if(kind==2) dispatch_async(q,^{ atomic_fetch_add(ex,1); });
  if(!sync_first) pthread_create(&th,NULL,sync_caller,&sa);
  usleep(3000);
  for(int i=0;i<need;i++){
    if(a_ran||s_ran||extra) { fail("an item started while the queue was still suspended/inactive: kind/depth/resumes-issued",kind,depth,i); break; }
    if((kind==3 && i==need-1) || (kind==7 && i==0)) dispatch_activate(q); else dispatch_resume(q);
    if(i<need-1 && (i%16==15 || i>=need-3)) usleep(1500); }
  if(!viol){ for(int w=0; w<5000 && !(a_ran&&s_ran); w++) usleep(1000);
    if(!a_ran) fail("pending async item did not run after the last resume/activate: kind/depth",kind,depth,0);
    else if(!s_ran) fail("blocked dispatch_sync caller did not run after the last resume/activate: kind/depth",kind,depth,0); }
  if(!viol){ pthread_join(th,NULL); dispatch_barrier_sync(q,^{}); CUR=NULL; dispatch_release(q); } else CUR=NULL; }
// a suspend from another thread lets at most the one item a serial queue had already committed to start
static void scenario_external(int qidx){ dispatch_queue_t q=dispatch_queue_create("c06x",NULL); curq=qidx; CUR=q;
  printf("Q %d width 1 stateoff %ld\n", qidx, (long)((char*)_dispatch_verif_queue_state_addr(q)-(char*)q));
  __block atomic_long started=0; int n=200; for(int i=0;i<n;i++) dispatch_async(q,^{ atomic_fetch_add(&started,1); for(volatile int k=0;k<2000;k++){} });
  usleep((useconds_t)(rnd()%300)); dispatch_suspend(q); long s0=started; usleep(20000); long s1=started;
  if(s1>s0+1) fail("more than one item started after dispatch_suspend returned: before/after",s0,s1,0);
  dispatch_resume(q); dispatch_sync(q,^{}); if(started!=n) fail("items lost across suspend/resume: started/expected",started,n,0);
  CUR=NULL; dispatch_release(q); }
// (6) hand-over: an item suspends its own serial queue with another item pending; the matching resume comes from another thread
// while the drainer is on its way out (held for a random time after each read of dq_state it makes there - a preemption). Neither side
// may assume the other re-drives the queue: the pending item must run.
extern cb_t _dispatch_verif_load_cb; static volatile void *CURS; static __thread uint64_t lrng; static atomic_long lholds;
static void lcb(const volatile void *addr, unsigned size, int op, uint64_t o, uint64_t n, const char *func, int line){ (void)size;(void)op;(void)o;(void)n;(void)line;
  if(addr!=CURS || !CURS) return; if(strcmp(func,"_dispatch_queue_invoke_finish") && strcmp(func,"_dispatch_lane_resume") && strcmp(func,"_dispatch_queue_drain_try_unlock")) return;
  if(!lrng) lrng=0x9e3779b97f4a7c15ull ^ (uint64_t)syscall(SYS_gettid)*0xbf58476d1ce4e5b9ull; lrng^=lrng<<13; lrng^=lrng>>7; lrng^=lrng<<17;
  if(lrng%3==0){ atomic_fetch_add(&lholds,1); usleep((useconds_t)(10+(lrng>>8)%250)); } }
static void scenario_handover(int qidx, int trial){ dispatch_queue_t q=dispatch_queue_create("c06h",NULL); curq=qidx; CUR=q; CURS=_dispatch_verif_queue_state_addr(q);
  printf("Q %d width 1 stateoff %ld\n", qidx, (long)((char*)CURS-(char*)q));
  __block atomic_int susp=0, b_ran=0; atomic_int *sp=&susp, *br=&b_ran;
  _dispatch_verif_load_cb=lcb;
  dispatch_async(q,^{ dispatch_suspend(q); atomic_store(sp,1); }); dispatch_async(q,^{ atomic_store(br,1); });
  for(int w=0; w<200000 && !atomic_load(sp); w++) usleep(10);
  if(atomic_load(br)) fail("an item started while its queue was suspended by the previous item: trial",trial,0,0);
  usleep((useconds_t)((trial*37)%400));
  dispatch_resume(q);
  for(int w=0; w<3000 && !atomic_load(br); w++) usleep(1000);
  _dispatch_verif_load_cb=0;
  if(!atomic_load(br)){ fail("pending item did not run within 3 s of the last resume, issued by another thread while the drainer was leaving the suspended queue: trial",trial,0,0); CUR=NULL; CURS=NULL; return; }
  dispatch_sync(q,^{}); CUR=NULL; CURS=NULL; dispatch_release(q); }
// (8) the setter's temporary suspension against the side counter. dispatch_set_target_queue / dispatch_queue_set_width on an active
// idle queue run their change under the barrier plus one suspension of their own and give that suspension back when the change is
// made. While the setter thread is held just before that give-back (a preemption), this thread suspends the queue `depth` times and
// resumes it until the inline count is 0 with the rest in the side counter (or `back` times), lets the setter finish, and issues the
// remaining resumes: exactly `depth` resumes restart the queue, nothing starts before the last one.
extern void (*_dispatch_verif_yield_cb)(const volatile void *addr, const char *func, int line);
static volatile void *SETQ; static atomic_int set_in, set_go, set_held;
static void ycb(const volatile void *addr, const char *func, int line){ (void)line;
  if(addr!=SETQ || !SETQ || strcmp(func,"_dispatch_barrier_trysync_or_async_f_complete")) return;
  if(atomic_exchange(&set_held,1)) return;            // hold once (a compare-and-swap loop comes here again after a failed attempt)
  atomic_store(&set_in,1); for(int w=0; w<100000 && !atomic_load(&set_go); w++) usleep(100); }
struct set_arg { dispatch_queue_t q, t; int width; };
static void *setter(void *c){ struct set_arg *a=c; if(a->width) dispatch_queue_set_width(a->q,a->width); else dispatch_set_target_queue(a->q,a->t); return NULL; }
static void scenario_setter(int qidx, int depth, int variant){ int conc=variant&1;
  dispatch_queue_t q=dispatch_queue_create("c06s",conc?DISPATCH_QUEUE_CONCURRENT:DISPATCH_QUEUE_SERIAL), t=dispatch_queue_create("c06st",NULL); curq=qidx; CUR=q;
  volatile uint64_t *st=(volatile uint64_t*)_dispatch_verif_queue_state_addr(q);
  printf("Q %d width %d stateoff %ld\n", qidx, conc?4094:1, (long)((char*)st-(char*)q));
  dispatch_sync(q,^{});
  atomic_store(&set_in,0); atomic_store(&set_go,0); atomic_store(&set_held,0); SETQ=st; _dispatch_verif_yield_cb=ycb;
  struct set_arg sa={q,t,(variant&2)?8:0}; if(sa.width && !conc) sa.width=0;
  if(sa.width) CUR=NULL;      // the recorded words are decoded with the width announced above: a queue whose width changes is judged by the oracle only
  pthread_t th; pthread_create(&th,NULL,setter,&sa);
  for(int w=0; w<50000 && !atomic_load(&set_in); w++) usleep(100);
  if(!atomic_load(&set_in)){ atomic_store(&set_go,1); pthread_join(th,NULL); _dispatch_verif_yield_cb=0; SETQ=NULL; CUR=NULL; return; }   // setter took the asynchronous path: nothing to observe
  for(int i=0;i<depth;i++) dispatch_suspend(q);
  int back=0; if(variant&4){ back=(int)(rnd()%(uint64_t)(depth+1)); for(int i=0;i<back;i++) dispatch_resume(q); }
  else while(back<depth && ((*st>>58)&63)!=0){ dispatch_resume(q); back++; }     // inline count 0: everything that is left is in the side counter (or nothing is left)
  atomic_store(&set_go,1); pthread_join(th,NULL); _dispatch_verif_yield_cb=0; SETQ=NULL;
  atomic_int a_ran=0; atomic_int *ar=&a_ran; dispatch_async(q,^{ atomic_store(ar,1); });
  usleep(2000);
  for(int i=back;i<depth;i++){
    if(a_ran){ fail("an item started on a queue with suspensions outstanding after a property setter ran on it: depth/resumed before the setter finished/resumes issued",depth,back,i); break; }
    dispatch_resume(q); if(i>=depth-2) usleep(1500); }
  if(!viol){ for(int w=0; w<3000 && !a_ran; w++) usleep(1000);
    if(!a_ran){ int extra=0; while(!a_ran && extra<300){ dispatch_resume(q); extra++; for(int w=0; w<20 && !a_ran; w++) usleep(500); }
      fail("a queue suspended N times and resumed N times did not restart after a property setter gave its own temporary suspension back while the inline count was in the side counter: N/resumed before the setter finished/extra resumes it took",depth,back,extra); } }
  if(!viol){ dispatch_barrier_sync(q,^{}); CUR=NULL; dispatch_release(q); dispatch_release(t); } else CUR=NULL; }
// (11) several threads cross the boundary between the inline counter and the side counter at the same moment: the queue has been
// suspended 63 times (the inline counter is full); three threads, released together, suspend it once more each; then 66 resumes -
// nothing starts before the last one, the pending item runs after it.
extern void (*_dispatch_verif_yield_cb)(const volatile void *addr, const char *func, int line);
static dispatch_queue_t xq; static atomic_int x_go, x_ready; static __thread int x_slow;
// one of the three is held for a moment just before it takes the queue's side lock (the only lock these threads take here): whatever it
// has read of the side counter before that is stale by the time it holds the lock - another thread has completed a whole transfer
static void xycb(const volatile void *addr, const char *func, int line){ (void)addr;(void)line; if(x_slow && !strcmp(func,"_dispatch_unfair_lock_lock")){ x_slow=0; usleep(400); } }
static void *x_suspender(void *a){ x_slow=(a!=NULL); atomic_fetch_add(&x_ready,1); while(!atomic_load(&x_go)){} dispatch_suspend(xq); return 0; }
static void scenario_spill_race(int qidx, int round){ dispatch_queue_t q=dispatch_queue_create("c06x",round%2?DISPATCH_QUEUE_CONCURRENT:DISPATCH_QUEUE_SERIAL); curq=qidx; CUR=q; xq=q;
  printf("Q %d width %d stateoff %ld\n", qidx, round%2?4094:1, (long)((char*)_dispatch_verif_queue_state_addr(q)-(char*)q));
  for(int i=0;i<63;i++) dispatch_suspend(q);
  atomic_int ran=0; atomic_int *rp=&ran; dispatch_async(q,^{ atomic_store(rp,1); });
  atomic_store(&x_go,0); atomic_store(&x_ready,0); pthread_t th[3]; _dispatch_verif_yield_cb=xycb; for(long i=0;i<3;i++) pthread_create(&th[i],0,x_suspender,(void*)(long)(i==0 && round%4!=3));
  while(atomic_load(&x_ready)<3){} atomic_store(&x_go,1); for(int i=0;i<3;i++) pthread_join(th[i],0); _dispatch_verif_yield_cb=0;
  for(int i=0;i<66;i++){ if(atomic_load(&ran)){ fail("an item started on a queue with suspensions outstanding after three threads had suspended it at the same moment with the inline counter full: resumes issued of 66 / round",i,round,0); break; }
    dispatch_resume(q); if(i%8==7 || i>=63) usleep(300); }
  if(!viol){ for(int w=0; w<3000 && !atomic_load(&ran); w++) usleep(1000); if(!atomic_load(&ran)) fail("the pending item did not run after 66 resumes for 66 suspensions (three of them issued at the same moment with the inline counter full): round",round,0,0); }
  if(!viol){ dispatch_barrier_sync(q,^{}); CUR=NULL; dispatch_release(q); } else CUR=NULL; }
#include <signal.h>
static uint64_t g_seed;
static void on_crash(int sig){ char b[260]; int n=snprintf(b,sizeof b,"ORACLE VIOL seed=%llu the library trapped or crashed (signal %d) during suspend / resume / activate histories (its own over-resume or corrupt-state check): scenario on queue %d\n",(unsigned long long)g_seed,sig,curq); if(n>0) (void)!write(1,b,(size_t)n); _exit(1); }
int main(int argc,char**argv){ uint64_t seed=argc>1?strtoull(argv[1],0,0):1; rs=seed; g_seed=seed; signal(SIGILL,on_crash); signal(SIGSEGV,on_crash); signal(SIGABRT,on_crash); signal(SIGBUS,on_crash); evs=calloc(MAXEV,sizeof *evs);
  _dispatch_verif_atomic_cb=cb;
  static const int depths[]={1,2,31,32,33,63,64,65,95,96,97,127,128,129,200}; int nd=(int)(sizeof depths/sizeof *depths); int qi=0, sc=0;
  for(int k=0;k<11 && !viol;k++) for(int d=0; d<nd && !viol; d++){ if(k==6||k==8) continue; if(((seed+ (uint64_t)k*7 + (uint64_t)d)%3)==0 && depths[d]<96 && !(k>=9 && d<2)) continue; scenario(k,depths[d],qi++); sc++; }
  for(int i=0;i<6 && !viol;i++){ scenario_external(qi++); sc++; }
  for(int i=0;i<40 && !viol;i++){ scenario_spill_race(qi++,i); sc++; }
  { static const int sd[]={1,31,32,62,63,64,95,96,127,130}; for(int d=0; d<10 && !viol; d++) for(int v=0; v<8 && !viol; v++){ if((seed+(uint64_t)d+(uint64_t)v)%2 && sd[d]!=63) continue; scenario_setter(qi++,sd[d],v); sc++; } }
  { int nt=argc>2?atoi(argv[2]):60; for(int i=0;i<nt && !viol;i++){ scenario_handover(qi++,i+(int)(seed%7)); sc++; } }
  _dispatch_verif_atomic_cb=0;
  if(viol) printf("ORACLE VIOL seed=%llu %s\n",(unsigned long long)seed,vmsg); else printf("ORACLE ok items=%d events=%lu\n",sc,atomic_load(&nev));
  dump(); return viol?1:0; }
