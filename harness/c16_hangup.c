// C16 / C14 oracle for the peer hang-up: several read and write sources on one descriptor (a socket, a pipe), each on its own
// serial queue, all registered; the target queues are parked for a moment so that the sources are invoked together once the
// manager thread has merged the event; then the peer closes (hang-up: every source of the descriptor is told to give up its
// registration). Afterwards every source is cancelled (from another thread, or from its own handler on the hang-up event).
// Oracle: every source is told about the hang-up (at least one handler invocation), the cancellation handler of every source runs
// exactly once and after the last handler invocation, no handler invocation starts after it, a later source on the re-used
// descriptor number still gets events (the library really stopped monitoring the old descriptor), nothing traps or corrupts memory.
// usage: c16_hangup <seed> <iterations>
#define _GNU_SOURCE
#include <dispatch/dispatch.h>
#include <stdio.h>
#include <stdint.h>
#include <stdlib.h>
#include <string.h>
#include <unistd.h>
#include <fcntl.h>
#include <signal.h>
#include <stdatomic.h>
#include <sys/socket.h>
#include <time.h>
static uint64_t seed, rs; static uint64_t rnd(void){ rs += 0x9E3779B97F4A7C15ull; uint64_t z=rs; z=(z^(z>>30))*0xBF58476D1CE4E5B9ull; z=(z^(z>>27))*0x94D049BB133111EBull; return z^(z>>31); }
static atomic_int viol; static char vmsg[300];
static void fail(const char *m, long a, long b, long c){ if(!atomic_exchange(&viol,1)) snprintf(vmsg,sizeof vmsg,"%s %ld %ld %ld",m,a,b,c); }
static void on_crash(int sig){ char b[240]; int n=snprintf(b,sizeof b,"ORACLE VIOL seed=%llu the library trapped, crashed or corrupted the heap (signal %d) after a peer hang-up on a descriptor with several sources\n",(unsigned long long)seed,sig); if(n>0) (void)!write(1,b,(size_t)n); _exit(1); }
#define KMAX 8
struct src { dispatch_source_t s; _Atomic int fired, running, cancels, after_cancel; int self_cancel; };
static long iteration(int it, dispatch_queue_t *q){ int s[2]; int K=1+(int)(rnd()%3), pipe_shape=(int)(rnd()%4==0), align=(int)(rnd()%4!=0);
  if(pipe_shape){ if(pipe(s)) return 0; int t=s[0]; (void)t; } else if(socketpair(AF_UNIX,SOCK_STREAM,0,s)) return 0;
  fcntl(s[0],F_SETFL,O_NONBLOCK); int nsrc = pipe_shape ? K : 2*K;
  struct src *S=calloc((size_t)nsrc,sizeof *S); dispatch_group_t reg=dispatch_group_create(), fired=dispatch_group_create(), canc=dispatch_group_create();
  for(int k=0;k<nsrc;k++){ struct src *x=&S[k]; x->self_cancel=(int)(rnd()%3==0);
    x->s=dispatch_source_create((pipe_shape||k<K)?DISPATCH_SOURCE_TYPE_READ:DISPATCH_SOURCE_TYPE_WRITE,(uintptr_t)s[0],0,q[k]);
    dispatch_group_enter(fired); dispatch_group_enter(reg); dispatch_group_enter(canc);
    dispatch_source_set_event_handler(x->s,^{ if(atomic_fetch_add(&x->running,1)) fail("the event handler of a source ran on two threads at once: iteration/source",it,k,0);
        if(atomic_load(&x->cancels)) atomic_fetch_add(&x->after_cancel,1);
        if(atomic_fetch_add(&x->fired,1)==0) dispatch_group_leave(fired);
        if(x->self_cancel && dispatch_source_get_data(x->s)==0) dispatch_source_cancel(x->s);      // end of file reported: cancel from the handler
        atomic_fetch_sub(&x->running,1); });
    dispatch_source_set_registration_handler(x->s,^{ dispatch_group_leave(reg); });
    dispatch_source_set_cancel_handler(x->s,^{ if(atomic_load(&x->running)) fail("the cancellation handler ran while the event handler was running: iteration/source",it,k,0);
        if(atomic_fetch_add(&x->cancels,1)) fail("the cancellation handler of a source ran more than once: iteration/source",it,k,0); else dispatch_group_leave(canc); });
    dispatch_activate(x->s); }
  if(dispatch_group_wait(reg,dispatch_time(DISPATCH_TIME_NOW,10ll*1000000000ll))){ fail("sources were not registered within 10 s: iteration",it,0,0); return 0; }
  __block _Atomic int ready=0, go=0; _Atomic int *rp=&ready, *gp=&go;
  for(int k=0;k<nsrc;k++) dispatch_async(q[k],^{ atomic_fetch_add(rp,1); if(align){ struct timespec t0,t1; clock_gettime(CLOCK_MONOTONIC,&t0); while(!atomic_load(gp)){ clock_gettime(CLOCK_MONOTONIC,&t1); if((t1.tv_sec-t0.tv_sec)*1000000000l+(t1.tv_nsec-t0.tv_nsec)>50000000l) break; } } });
  for(int w=0; w<100000 && atomic_load(&ready)!=nsrc; w++) usleep(50);
  close(s[1]);                                          // the peer goes away
  usleep((useconds_t)(500+rnd()%2500)); atomic_store(&go,1);
  if(dispatch_group_wait(fired,dispatch_time(DISPATCH_TIME_NOW,5ll*1000000000ll))){ long m=0; for(int k=0;k<nsrc;k++) m|=(long)(atomic_load(&S[k].fired)?1:0)<<k;
    fail("a source was never told about the hang-up of its descriptor (5 s): iteration / sources on the descriptor / bit mask of those that were",it,nsrc,m); return 0; }
  for(int k=0;k<nsrc;k++) if(!S[k].self_cancel || rnd()%2) dispatch_source_cancel(S[k].s);
  for(int k=0;k<nsrc;k++) if(S[k].self_cancel) dispatch_source_cancel(S[k].s);
  if(dispatch_group_wait(canc,dispatch_time(DISPATCH_TIME_NOW,10ll*1000000000ll))){ fail("the cancellation handlers of the sources of a hung-up descriptor did not all run within 10 s: iteration/sources",it,nsrc,0); return 0; }
  usleep(300);
  for(int k=0;k<nsrc;k++){ if(atomic_load(&S[k].after_cancel)) fail("an event handler invocation started after the source's cancellation handler: iteration/source",it,k,0); }
  close(s[0]);
  // the descriptor number is free again: a fresh source on it must work (the old registration is really gone)
  if(it%8==0 && !viol){ int p[2]; if(!pipe(p)){ __block _Atomic int got=0; _Atomic int *gp2=&got; dispatch_source_t n=dispatch_source_create(DISPATCH_SOURCE_TYPE_READ,(uintptr_t)p[0],0,q[0]);
      dispatch_semaphore_t cs=dispatch_semaphore_create(0);
      dispatch_source_set_event_handler(n,^{ atomic_store(gp2,1); }); dispatch_source_set_cancel_handler(n,^{ dispatch_semaphore_signal(cs); }); dispatch_activate(n);
      if(write(p[1],"x",1)!=1){} for(int w=0; w<5000 && !atomic_load(&got); w++) usleep(1000);
      if(!atomic_load(&got)) fail("a new source on a descriptor number re-used after a hang-up never got an event (5 s): iteration/descriptor",it,p[0],0);
      dispatch_source_cancel(n); dispatch_semaphore_wait(cs,dispatch_time(DISPATCH_TIME_NOW,5ll*1000000000ll)); dispatch_release(n); dispatch_release(cs); close(p[0]); close(p[1]); } }
  for(int k=0;k<nsrc;k++) dispatch_release(S[k].s);
  dispatch_release(reg); dispatch_release(fired); dispatch_release(canc);
  for(int k=0;k<nsrc;k++) dispatch_sync(q[k],^{});      // the blocks above refer to S
  free(S); return nsrc; }
// a source cancelled from its own handler (its one-shot kernel event is disarmed at that moment), the descriptor kept open: once the
// cancellation handler has run the library has stopped monitoring the descriptor, so a second source on the same descriptor gets
// events again (a registration left behind would answer EEXIST to the new one and it would never fire)
static long self_cancel_then_again(int it, dispatch_queue_t *q){ int s[2]; int kind=(int)(rnd()%3);       // 0 pipe/read 1 socket/read 2 socket/write
  if(kind==0){ if(pipe(s)) return 0; } else if(socketpair(AF_UNIX,SOCK_STREAM,0,s)) return 0;
  fcntl(s[0],F_SETFL,O_NONBLOCK); if(kind!=2 && write(s[1],"abc",3)!=3){}
  for(int gen=0; gen<2 && !viol; gen++){ __block _Atomic int fired=0, cancelled=0; _Atomic int *fp=&fired, *cp=&cancelled;
    __block dispatch_source_t x=dispatch_source_create(kind==2?DISPATCH_SOURCE_TYPE_WRITE:DISPATCH_SOURCE_TYPE_READ,(uintptr_t)s[0],0,q[gen]);
    dispatch_source_set_event_handler(x,^{ atomic_fetch_add(fp,1); dispatch_source_cancel(x); });
    dispatch_source_set_cancel_handler(x,^{ atomic_fetch_add(cp,1); });
    dispatch_activate(x);
    for(int w=0; w<5000 && !atomic_load(&cancelled); w++) usleep(1000);
    if(!atomic_load(&fired)) fail(gen? "a second source on a descriptor whose first source had been cancelled from its own handler never got an event (5 s; the descriptor stayed open and ready): iteration/kind" : "a source on a ready descriptor never got an event (5 s): iteration/kind",it,kind,0);
    else if(atomic_load(&cancelled)!=1) fail("the cancellation handler of a source cancelled from its own handler did not run exactly once (5 s): iteration/kind/count",it,kind,atomic_load(&cancelled));
    dispatch_release(x); dispatch_sync(q[gen],^{}); }
  close(s[0]); close(s[1]); return 2; }
int main(int argc,char**argv){ seed=argc>1?strtoull(argv[1],0,0):1; int iters=argc>2?atoi(argv[2]):300; rs=seed;
  signal(SIGILL,on_crash); signal(SIGSEGV,on_crash); signal(SIGABRT,on_crash); signal(SIGBUS,on_crash); signal(SIGPIPE,SIG_IGN);
  dispatch_queue_t q[KMAX]; for(int k=0;k<KMAX;k++) q[k]=dispatch_queue_create("hup.q",NULL);
  long n=0; for(int i=0;i<iters && !viol;i++){ n+=iteration(i,q); if(i%5==0 && !viol) n+=self_cancel_then_again(i,q); }
  if(viol){ printf("ORACLE VIOL seed=%llu %s\n",(unsigned long long)seed,vmsg); fflush(stdout); _exit(1); }
  printf("ORACLE ok items=%ld\n",n); fflush(stdout); _exit(0); }
