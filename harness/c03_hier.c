// C03 L-api oracle + L-trace: random target-queue hierarchies with a serial bottom (depth and fan-in random, serial and
// concurrent inner queues, some retargeted while inactive); async / sync / barrier_async / async_and_wait / barrier_async_and_wait at every level from several
// threads; at most one item of the whole hierarchy may run at a time, and every serial member delivers the items of one
// submitting thread in submission order. Every dq_state transition of every queue is recorded for replay through the
// single-lane model (projection theorem). Output format as harness/tr_lane.c.
#define _GNU_SOURCE
#include <dispatch/dispatch.h>
#include <stdio.h>
#include <stdlib.h>
#include <stdint.h>
#include <unistd.h>
#include <pthread.h>
#include <sched.h>
#include <stdatomic.h>
#include <sys/syscall.h>
#include <stdarg.h>
#include <dlfcn.h>
#include <linux/futex.h>
typedef void (*cb_t)(const volatile void *addr, unsigned size, int op, uint64_t o, uint64_t n, const char *func, int line);
extern cb_t _dispatch_verif_atomic_cb;
// the environment of a parked synchronous caller: FUTEX_WAIT on its thread event (expected value UINT32_MAX) may return 0 without the
// hand-over having happened (futex(2): spurious wake-ups, a stray FUTEX_WAKE on a re-used stack word); the caller must re-read the word
static long (*real_syscall)(long, ...); static int inject; static atomic_long spurious; static __thread uint64_t srng;
long syscall(long n, ...){ va_list ap; va_start(ap,n); long a0=va_arg(ap,long),a1=va_arg(ap,long),a2=va_arg(ap,long),a3=va_arg(ap,long),a4=va_arg(ap,long),a5=va_arg(ap,long); va_end(ap);
  if(!real_syscall) real_syscall=(long(*)(long,...))dlsym(RTLD_NEXT,"syscall");
  if(n==SYS_futex && inject && (a1&FUTEX_CMD_MASK)==FUTEX_WAIT && (uint32_t)a2==UINT32_MAX){ if(!srng) srng=0x9e3779b97f4a7c15ull^(uint64_t)(uintptr_t)&srng; srng^=srng<<13; srng^=srng>>7; srng^=srng<<17;
    if(srng%3==0){ atomic_fetch_add(&spurious,1); return 0; } }
  return real_syscall(n,a0,a1,a2,a3,a4,a5); }
extern volatile void *_dispatch_verif_queue_state_addr(dispatch_queue_t dq);
typedef struct { uint64_t seq; int tid; int q; int off; int op; uint64_t o, n; const char *func; int line; } ev_t;
#define MAXEV (1<<21)
static ev_t *evs; static atomic_ulong nev; static atomic_ulong evseq; static __thread int mytid;
static __thread uint64_t rng; static uint64_t seed;
static inline uint64_t rnd(void){ if(!rng) rng = seed ^ (uint64_t)pthread_self()*0x9e3779b97f4a7c15ull; rng ^= rng<<13; rng ^= rng>>7; rng ^= rng<<17; return rng; }
#define MAXQ 12
static dispatch_queue_t Q[MAXQ]; static int serial[MAXQ], nq;
static atomic_int in_flight, viol, done_items; static atomic_long stamp; static char vmsg[200];
static int wl_bottom;
static void cb(const volatile void *addr, unsigned size, int op, uint64_t o, uint64_t n, const char *func, int line){ (void)size;
  for (int i=wl_bottom;i<nq;i++){ long d = (char*)addr - (char*)Q[i]; if (d >= 0 && d < 128) {   /* a workloop's own state word is not replayed */ if (!mytid) mytid = (int)syscall(SYS_gettid);
    unsigned long k = atomic_fetch_add(&nev,1); if (k>=MAXEV) return;
    evs[k] = (ev_t){ atomic_fetch_add(&evseq,1), mytid, i, (int)d, op, o, n, func, line }; return; } } }
static void dump(void){ unsigned long n = atomic_load(&nev); if (n>MAXEV) n=MAXEV;
  for (unsigned long i=0;i<n;i++){ ev_t *e=&evs[i]; printf("E %lu %d %d %d %d %016lx %016lx %s %d\n", e->seq, e->tid, e->q, e->off, e->op, e->o, e->n, e->func, e->line); } fflush(stdout); }
typedef struct { int q; long seq; } item_t;
static atomic_long last_seq[MAXQ][64];  // per (queue, submitting thread) last executed seq
static __thread int tix;
typedef struct { int q; int thr; long seq; } it2;
static void work(void *c){ it2 *it = c;
  int r = atomic_fetch_add(&in_flight,1);
  if (r != 0 && !atomic_exchange(&viol,1)) snprintf(vmsg,sizeof vmsg,"two items of one hierarchy with a serial bottom ran at the same time: queue/others %d %d", it->q, r);
  if (serial[it->q]) { long prev = atomic_exchange(&last_seq[it->q][it->thr], it->seq); if (prev >= it->seq && !atomic_exchange(&viol,1)) snprintf(vmsg,sizeof vmsg,"serial member delivered one thread's items out of submission order: queue/thread/prev/seq %d %d %ld %ld", it->q, it->thr, prev, it->seq); }
  if (rnd()%4==0) sched_yield();
  atomic_fetch_sub(&in_flight,1); atomic_fetch_add(&done_items,1); free(it); }
static int nops;
extern dispatch_queue_t dispatch_workloop_create(const char *label);
// a thread that hands a parked synchronous caller down to the workloop at the bottom is delayed for a moment after it has linked the
// caller's (stack-allocated) context into the workloop: by then the workloop's drainer may have woken the caller and the caller
// may have returned - the pushing thread must not touch the context any more
extern void (*_dispatch_verif_yield_cb)(const volatile void *addr, const char *func, int line);
static atomic_long push_holds;
static void ycb(const volatile void *addr, const char *func, int line){ (void)addr;(void)line; if(strcmp(func,"_dispatch_workloop_push_waiter")) return;
  if(rnd()%2){ atomic_fetch_add(&push_holds,1); usleep((useconds_t)(50+rnd()%300)); } }
void dispatch_async_and_wait_f(dispatch_queue_t, void*, dispatch_function_t);
void dispatch_barrier_async_and_wait_f(dispatch_queue_t, void*, dispatch_function_t);
static void *client(void *a){ tix = (int)(intptr_t)a; long seq[MAXQ] = {0};
  for (int i=0;i<nops;i++){ int q = rnd()%nq; it2 *it = malloc(sizeof *it); it->q=q; it->thr=tix; it->seq=++seq[q];
    int k=(int)(rnd()%6); if(wl_bottom && q==0) k=0;      // a workloop takes asynchronous submissions only
    switch (k){ case 0: case 1: dispatch_async_f(Q[q], it, work); break; case 2: dispatch_sync_f(Q[q], it, work); break; case 3: dispatch_barrier_async_f(Q[q], it, work); break;
      // async_and_wait: the item may be run inline by whichever thread drains a level below; the caller then completes only the levels above
      case 4: dispatch_async_and_wait_f(Q[q], it, work); break; default: dispatch_barrier_async_and_wait_f(Q[q], it, work); break; } }
  return NULL; }
// no item finished for 20 s while submitters are still blocked: a synchronous submission never returned / items were stranded
static void *watchdog(void *a){ int total=(int)(intptr_t)a; int last=-1, same=0; for(;;){ usleep(200000); int d=atomic_load(&done_items); if(d>=total) return 0; if(d==last) same++; else same=0; last=d;
  if(same>=100){ _dispatch_verif_atomic_cb=0; if(viol) printf("ORACLE VIOL seed=%lu %s\n",(unsigned long)seed,vmsg); printf("STUCK %d of %d items done: no item of the hierarchy finished for 20 s\n", d, total); dump(); _exit(3); } } return 0; }
#include <signal.h>
static void on_crash(int sig){ char b[200]; int n=snprintf(b,sizeof b,"ORACLE VIOL seed=%lu the library trapped or crashed (signal %d) while draining the hierarchy\n",(unsigned long)seed,sig); if(n>0) (void)!write(1,b,(size_t)n); _exit(1); }
int main(int argc, char **argv){
  signal(SIGILL,on_crash); signal(SIGSEGV,on_crash); signal(SIGABRT,on_crash); signal(SIGBUS,on_crash);
  seed = argc>1 ? strtoull(argv[1],0,0) : 1; int nthr = argc>2 ? atoi(argv[2]) : 4; nops = argc>3 ? atoi(argv[3]) : 300;
  rng = seed*7+1;
  nq = 3 + rnd()%(MAXQ-3);
  wl_bottom = argc>4 ? atoi(argv[4]) : 0;      // 1: the bottom of the hierarchy is a workloop
  Q[0] = wl_bottom ? dispatch_workloop_create("bottom-wl") : dispatch_queue_create("bottom", DISPATCH_QUEUE_SERIAL); serial[0]=1;
  for (int i=1;i<nq;i++){ int conc = rnd()%2; int parent = rnd()%i; serial[i] = !conc;
    dispatch_queue_attr_t attr = conc ? DISPATCH_QUEUE_CONCURRENT : DISPATCH_QUEUE_SERIAL;
    if (rnd()%3==0) { attr = dispatch_queue_attr_make_initially_inactive(attr); Q[i] = dispatch_queue_create("q", attr); dispatch_set_target_queue(Q[i], Q[parent]); dispatch_activate(Q[i]); }
    else Q[i] = dispatch_queue_create_with_target("q", attr, Q[parent]); }
  evs = calloc(MAXEV, sizeof(ev_t));
  for (int i=wl_bottom;i<nq;i++) printf("Q %d width %d stateoff %ld\n", i, serial[i]?1:4094, (long)((char*)_dispatch_verif_queue_state_addr(Q[i])-(char*)Q[i]));
  _dispatch_verif_atomic_cb = cb; inject = 1; if(wl_bottom) _dispatch_verif_yield_cb = ycb;
  pthread_t wd; pthread_create(&wd,0,watchdog,(void*)(intptr_t)(nthr*nops));
  pthread_t th[64]; for (int i=0;i<nthr;i++) pthread_create(&th[i],0,client,(void*)(intptr_t)i);
  for (int i=0;i<nthr;i++) pthread_join(th[i],0);
  for (int w=0; w<30000 && atomic_load(&done_items) < nthr*nops; w++) usleep(1000);
  _dispatch_verif_atomic_cb = 0; _dispatch_verif_yield_cb = 0;
  if (atomic_load(&done_items) < nthr*nops) { printf("STUCK %d of %d items done\n", atomic_load(&done_items), nthr*nops); dump(); return 3; }
  if (viol) printf("ORACLE VIOL seed=%lu %s\n", (unsigned long)seed, vmsg); else printf("ORACLE ok items=%d events=%lu queues=%d spurious_futex_returns=%ld\n", nthr*nops, atomic_load(&nev), nq, atomic_load(&spurious));
  dump(); return viol?1:0; }
