// C18 oracle for hierarchies whose bottom is a thread-bound queue: the main queue drained run-loop style by the main thread
// (_dispatch_main_queue_callback_4CF, the CoreFoundation integration path). Items submitted synchronously and asynchronously to
// queues above it must see the queue-specific values of the chain that starts at the queue they were submitted to, and that
// queue's label as the current one - also when the item is run by the thread the bottom queue is bound to.
// usage: c18_bound <seed> <ops>
#define _GNU_SOURCE
#include <dispatch/dispatch.h>
#include <stdio.h>
#include <stdint.h>
#include <stdlib.h>
#include <string.h>
#include <unistd.h>
#include <poll.h>
#include <pthread.h>
#include <stdatomic.h>
extern void _dispatch_main_queue_callback_4CF(void *msg);
extern int _dispatch_get_main_queue_handle_4CF(void);
static uint64_t rs; static uint64_t rnd(void){ rs += 0x9E3779B97F4A7C15ull; uint64_t z=rs; z=(z^(z>>30))*0xBF58476D1CE4E5B9ull; z=(z^(z>>27))*0x94D049BB133111EBull; return z^(z>>31); }
static char K_TOP, K_MID, K_SH; static dispatch_queue_t TOP, MID;
static atomic_int viol, done, finished; static char vmsg[300]; static atomic_long items;
static void fail(const char *m, long a, long b, long c){ if(!atomic_exchange(&viol,1)) snprintf(vmsg,sizeof vmsg,"%s %ld %ld %ld",m,a,b,c); }
static void check(int on_top, int how){ void *t=dispatch_get_specific(&K_TOP), *m=dispatch_get_specific(&K_MID), *s=dispatch_get_specific(&K_SH);
  const char *lab=dispatch_queue_get_label(DISPATCH_CURRENT_QUEUE_LABEL); atomic_fetch_add(&items,1);
  if(on_top){ if(t!=(void*)0x71) fail("dispatch_get_specific missed the value set on the queue the item was submitted to: path/value",how,(long)t,0);
    if(m!=(void*)0x72) fail("dispatch_get_specific missed the value set on the target of the submitted-to queue: path/value",how,(long)m,0);
    if(s!=(void*)0x81) fail("dispatch_get_specific did not return the nearest value in the chain: path/value",how,(long)s,0);
    if(!lab||strcmp(lab,"c18.top")) fail("current queue label is not the submitted-to queue: path",how,0,0); }
  else { if(t!=NULL) fail("dispatch_get_specific returned a value set on a queue that is not in the item's chain: path/value",how,(long)t,0);
    if(m!=(void*)0x72) fail("dispatch_get_specific missed the value set on the queue the item was submitted to (mid): path/value",how,(long)m,0);
    if(s!=(void*)0x82) fail("dispatch_get_specific did not return the nearest value in the chain (mid): path/value",how,(long)s,0);
    if(!lab||strcmp(lab,"c18.mid")) fail("current queue label is not the submitted-to queue (mid): path",how,0,0); } }
static int nops;
static void *worker(void *a){ (void)a; dispatch_group_t g=dispatch_group_create();
  for(int i=0;i<nops && !viol;i++){ int on_top=(int)(rnd()%2); dispatch_queue_t q=on_top?TOP:MID; int how=(int)(rnd()%4);
    switch(how){ case 0: dispatch_sync(q,^{ check(on_top,0); }); break; case 1: dispatch_barrier_sync(q,^{ check(on_top,1); }); break;
      case 2: dispatch_group_async(g,q,^{ check(on_top,2); }); break; default: dispatch_group_async(g,q,^{ check(on_top,3); }); dispatch_sync(q,^{ check(on_top,0); }); break; } }
  dispatch_group_wait(g,DISPATCH_TIME_FOREVER); atomic_store(&done,1); return 0; }
int main(int argc,char**argv){ rs=argc>1?strtoull(argv[1],0,0):1; nops=argc>2?atoi(argv[2]):400;
  dispatch_queue_t mq=dispatch_get_main_queue();
  MID=dispatch_queue_create_with_target("c18.mid",DISPATCH_QUEUE_SERIAL,mq);
  TOP=dispatch_queue_create_with_target("c18.top",rnd()%2?DISPATCH_QUEUE_SERIAL:DISPATCH_QUEUE_CONCURRENT,MID);
  dispatch_queue_set_specific(TOP,&K_TOP,(void*)0x71,NULL); dispatch_queue_set_specific(MID,&K_MID,(void*)0x72,NULL);
  dispatch_queue_set_specific(TOP,&K_SH,(void*)0x81,NULL); dispatch_queue_set_specific(MID,&K_SH,(void*)0x82,NULL);
  int h=_dispatch_get_main_queue_handle_4CF();
  pthread_t w; pthread_create(&w,0,worker,0);
  // the main thread services the main queue the way a run loop does
  for(int spins=0; spins<400000 && !atomic_load(&done); spins++){ struct pollfd pf={h,POLLIN,0}; poll(&pf,1,5); _dispatch_main_queue_callback_4CF(NULL); }
  if(!atomic_load(&done)) fail("the workload over a run-loop drained main queue did not finish",atomic_load(&items),0,0);
  else pthread_join(w,0);
  if(viol){ printf("ORACLE VIOL seed=%llu %s\n",(unsigned long long)rs,vmsg); return 1; }
  printf("ORACLE ok items=%ld\n",atomic_load(&items)); return 0; }
