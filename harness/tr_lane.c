// L-trace + L-api harness for the lane protocol (C01, C02, C04, C05 first clause, C06 transitions):
// client threads issue random async / barrier_async / sync / barrier_sync / async_and_wait / group_async /
// apply / suspend+resume on one serial and one concurrent queue of the hooked library, with seeded
// sched_yield / usleep perturbation at the atomic sites of those queues. Every atomic transition on the two
// queue objects is recorded (thread, offset, op, old, new, C function) for replay through the Lean model,
// and the properties' observable statements are checked on the stamps taken by the work items.
// usage: tr_lane <seed> <threads> <ops per thread> [serial-only]
// output: "Q <i> width <w> stateoff <off>" lines, "ORACLE ok|VIOL ..." line, "STUCK ..." on no progress, then "E ..." events.
#define _GNU_SOURCE
#include <dispatch/dispatch.h>
#include <stdio.h>
#include <stdint.h>
#include <stdlib.h>
#include <string.h>
#include <unistd.h>
#include <pthread.h>
#include <sched.h>
#include <stdatomic.h>
#include <sys/syscall.h>
typedef void (*cb_t)(const volatile void *addr, unsigned size, int op, uint64_t o, uint64_t n, const char *func, int line);
extern cb_t _dispatch_verif_atomic_cb;
extern void (*_dispatch_verif_yield_cb)(const volatile void *addr, const char *func, int line);
extern volatile void *_dispatch_verif_queue_state_addr(dispatch_queue_t dq);
void dispatch_async_and_wait_f(dispatch_queue_t, void*, dispatch_function_t);
void dispatch_barrier_async_and_wait_f(dispatch_queue_t, void*, dispatch_function_t);
void dispatch_async_and_wait(dispatch_queue_t, dispatch_block_t);
extern void _Block_release(const void *);
#define NQ 2
static dispatch_queue_t Q[NQ];
typedef struct { uint64_t seq; int tid; int q; int off; int op; uint64_t o, n; const char *func; int line; } ev_t;
#define MAXEV (1<<22)
static ev_t *evs; static atomic_ulong nev; static atomic_ulong seq;
static __thread int mytid;
static __thread uint64_t rng;
static uint64_t seed;
static inline uint64_t rnd(void){ if(!rng) rng = seed ^ (uint64_t)syscall(SYS_gettid)*0x9e3779b97f4a7c15ull; rng ^= rng<<13; rng ^= rng>>7; rng ^= rng<<17; return rng; }
// ---- F15 classification: a first pusher between its tail exchange and its wake-up leaves dq_state idle while the list is
// not empty ("window"); a synchronous submission that takes the fast path while a window is open may overtake items whose
// submission has already returned (known finding F15). Windows are opened before the tail exchange and closed after the
// pusher's next modification of dq_state (or when its call returns), so they are never shorter than the real ones.
static long stateoff[NQ]; static atomic_int open_windows[NQ]; static __thread int win[NQ], tl_pre_open, tl_overtake;
static void win_close(int q){ if(win[q]){ win[q]=0; atomic_fetch_sub(&open_windows[q],1); } }
static void cb(const volatile void *addr, unsigned size, int op, uint64_t o, uint64_t n, const char *func, int line){
  (void)size;
  for (int i=0;i<NQ;i++){ long d = (char*)addr - (char*)Q[i];
    if (d==stateoff[i]-8 && op==2 && o!=0) win_close(i);                       // not the first pusher: not responsible for the wake-up
    else if (d==stateoff[i] && op!=4 && op!=0){
      if (win[i]) win_close(i);
      if (op==3 && !strcmp(func,"_dispatch_queue_try_acquire_barrier_sync_and_suspend") && (tl_pre_open || atomic_load(&open_windows[i])>0)) tl_overtake=1; } }
  for (int i=0;i<NQ;i++){ long d = (char*)addr - (char*)Q[i]; if (d >= 0 && d < 128) {
    if (!mytid) mytid = (int)syscall(SYS_gettid);
    unsigned long k = atomic_fetch_add(&nev,1); if (k>=MAXEV) return;
    evs[k] = (ev_t){ atomic_fetch_add(&seq,1), mytid, i, (int)d, op, o, n, func, line }; return; } }
}
static int marks;
static void mark(const char *what, int q, long idx){ if(!marks) return; if (!mytid) mytid = (int)syscall(SYS_gettid); unsigned long k = atomic_fetch_add(&nev,1); if (k>=MAXEV) return;
  evs[k] = (ev_t){ atomic_fetch_add(&seq,1), mytid, q, 999, 0, (uint64_t)idx, 0, what, 0 }; }
static void ycb(const volatile void *addr, const char *func, int line){ (void)line;
  for (int i=0;i<NQ;i++){ long d = (char*)addr - (char*)Q[i];
    if (d==stateoff[i]-8 && strstr(func,"push") && !win[i]){ win[i]=1; atomic_fetch_add(&open_windows[i],1); }
    if (d==stateoff[i] && !strcmp(func,"_dispatch_queue_try_acquire_barrier_sync_and_suspend")) tl_pre_open = atomic_load(&open_windows[i])>0; }
  for (int i=0;i<NQ;i++){ long d = (char*)addr - (char*)Q[i]; if (d >= 0 && d < 128) { uint64_t r = rnd()%16; if (r==0) sched_yield(); else if (r==1) usleep(rnd()%50); return; } }
}
// ---- items and stamps
typedef struct { int q; int bar; int sync; int thread; int kind; int overtook; _Atomic long call, ret, start, end; _Atomic int runs; } item_t;
#define MAXIT (1<<17)
static item_t *items; static atomic_int nitems;
static atomic_long clk;
static atomic_int running[NQ], barrier_running[NQ], done_items, viol; static char vmsg[256];
static void fail(const char *m, long a, long b, long c){ if(!atomic_exchange(&viol,1)) snprintf(vmsg,sizeof vmsg,"%s %ld %ld %ld",m,a,b,c); }
static void work(void *c){ item_t *it = c; int q = it->q; if(it->sync && tl_overtake) it->overtook=1;
  atomic_store(&it->start, atomic_fetch_add(&clk,1)+1); mark("MARK_start", q, (long)(it-items));
  if (atomic_fetch_add(&it->runs,1)) fail("item ran more than once: item", (long)(it-items),0,0);
  int r = atomic_fetch_add(&running[q],1);
  if (it->bar) { if (r != 0) fail("barrier/serial item started while another item of its queue was running: queue/running", q, r, 0); atomic_fetch_add(&barrier_running[q],1); }
  else if (atomic_load(&barrier_running[q])) fail("item started while a barrier of its queue was running: queue", q,0,0);
  if (rnd()%4==0) sched_yield();
  if (it->bar) atomic_fetch_sub(&barrier_running[q],1);
  atomic_fetch_sub(&running[q],1);
  atomic_store(&it->end, atomic_fetch_add(&clk,1)+1); atomic_fetch_add(&done_items,1); }
static void work_apply(void *c, size_t i){ (void)i; item_t *it=c; // apply invocations behave as non-barrier items of the queue
  int q=it->q; int r=atomic_fetch_add(&running[q],1); if(q==0 && r!=0) fail("apply invocation overlapped an item of the serial queue",r,0,0);
  if (atomic_load(&barrier_running[q])) fail("apply invocation ran while a barrier of its queue was running: queue", q,0,0);
  if (rnd()%4==0) sched_yield(); atomic_fetch_sub(&running[q],1); }
static int nops, serial_only; static atomic_int expected;
static void *client(void *a){ int me=(int)(intptr_t)a; dispatch_group_t g=dispatch_group_create();
  for (int i=0;i<nops;i++){ int q = serial_only? 0 : (int)(rnd()%NQ); int k = (int)(rnd()%16); if (k==7 && rnd()%8) k=0; if (k==15 && rnd()%3) k=0;
    if (k==6){ dispatch_suspend(Q[q]); if (rnd()%2) sched_yield(); dispatch_resume(Q[q]); continue; }
    if (k==7){ int depth = (rnd()%3==0) ? 130 : 70; for (int j=0;j<depth;j++) dispatch_suspend(Q[q]); for (int j=0;j<depth;j++) dispatch_resume(Q[q]); continue; }
    if (k==11){ item_t tmp={ .q=q }; dispatch_apply_f(1+rnd()%4, Q[q], &tmp, work_apply); continue; }
    int idx=atomic_fetch_add(&nitems,1); if(idx>=MAXIT) break; item_t *it=&items[idx]; it->q=q; it->thread=me;
    int bflag = (k>=12) && (rnd()%2);      // block objects: with or without DISPATCH_BLOCK_BARRIER
    it->bar = (q==0) || k==1 || k==3 || k==9 || bflag; it->sync = (k==2||k==3||k==8||k==9||k==12||k==13); it->kind=k;
    atomic_fetch_add(&expected,1);
    tl_overtake=0; tl_pre_open=0; atomic_store(&it->call, atomic_fetch_add(&clk,1)+1); mark("MARK_call", q, idx);
    switch(k){ case 1: dispatch_barrier_async_f(Q[q], it, work); break;
      case 2: dispatch_sync_f(Q[q], it, work); break; case 3: dispatch_barrier_sync_f(Q[q], it, work); break;
      case 8: dispatch_async_and_wait_f(Q[q], it, work); break; case 9: dispatch_barrier_async_and_wait_f(Q[q], it, work); break;
      case 10: dispatch_group_async_f(g, Q[q], it, work); break;
      case 12: case 13: case 14: { dispatch_block_t bo=dispatch_block_create(bflag?DISPATCH_BLOCK_BARRIER:0, ^{ work(it); });
        if(k==12) dispatch_async_and_wait(Q[q],bo); else if(k==13) dispatch_sync(Q[q],bo); else dispatch_async(Q[q],bo);
        _Block_release(bo); break; }
      case 15: { dispatch_block_t bo=dispatch_block_create(bflag?DISPATCH_BLOCK_BARRIER:0, ^{ work(it); });      // delivered by a timer source: the block reaches the queue when the timer fires
        dispatch_after(dispatch_time(DISPATCH_TIME_NOW,(int64_t)(200000+rnd()%2000000)), Q[q], bo); _Block_release(bo); break; }
      default: dispatch_async_f(Q[q], it, work); break; }
    for(int w=0;w<NQ;w++) win_close(w); mark("MARK_ret", q, idx); atomic_store(&it->ret, k==15 ? 0 : atomic_fetch_add(&clk,1)+1);   // (an item delivered later has no "submission returned" moment)
    if (it->sync && !atomic_load(&it->end)) fail("synchronous submission returned before its item finished: item/kind", idx, k, 0); }
  dispatch_group_wait(g, DISPATCH_TIME_FOREVER); dispatch_release(g);
  return NULL; }
static void dump(void){
  unsigned long n = atomic_load(&nev); if (n>MAXEV) n=MAXEV;
  for (unsigned long i=0;i<n;i++){ ev_t *e=&evs[i]; printf("E %lu %d %d %d %d %016lx %016lx %s %d\n", e->seq, e->tid, e->q, e->off, e->op, e->o, e->n, e->func, e->line); }
  fflush(stdout); }
static long known_overtakes;
static int cmp_start(const void *a, const void *b){ long x=(*(item_t**)a)->start, y=(*(item_t**)b)->start; return x<y?-1:x>y; }
static void oracle(void){ int n=atomic_load(&nitems); if(n>MAXIT) n=MAXIT;
  for(int i=0;i<n;i++){ item_t *a=&items[i]; if(a->runs!=1) { fail("item run count != 1 at quiescence: item/runs/queue",i,a->runs,a->q); return; } }
  // serial queue: no overlap, FIFO with respect to returned submissions
  item_t **s=malloc(sizeof(*s)*(size_t)(n+1)); int ns=0; for(int i=0;i<n;i++) if(items[i].q==0) s[ns++]=&items[i];
  qsort(s,(size_t)ns,sizeof *s,cmp_start);
  for(int i=0;i+1<ns;i++) if(!(s[i]->end < s[i+1]->start)) { fail("serial queue: two items overlapped: items",(long)(s[i]-items),(long)(s[i+1]-items),0); break; }
  // order in which they started must respect "submission of A returned before submission of B began"
  { long maxcall_started = 0; (void)maxcall_started;
    for(int i=0;i<ns;i++) for(int j=i+1;j<ns;j++){ item_t *a=s[j], *b=s[i]; // b started before a
        if(a->ret && a->ret < b->call && b->overtook) { known_overtakes++; continue; }
        if(a->ret && a->ret < b->call) { fail("serial queue: item B started before item A although A's submission had returned before B's began: A/B",(long)(a-items),(long)(b-items),0);
          if(getenv("TR_LANE_DEBUG")) fprintf(stderr,"A: kind %d thread %d call %ld ret %ld start %ld end %ld | B: kind %d thread %d call %ld ret %ld start %ld end %ld\n",a->kind,a->thread,a->call,a->ret,a->start,a->end,b->kind,b->thread,b->call,b->ret,b->start,b->end);
          i=ns; break; } } }
  // concurrent queue: barriers exclude and order
  for(int i=0;i<n && !viol;i++){ item_t *b=&items[i]; if(b->q!=1 || !b->bar) continue;
    for(int j=0;j<n;j++){ item_t *x=&items[j]; if(x==b || x->q!=1) continue;
      if(!(x->end < b->start || b->end < x->start)) { fail("concurrent queue: a barrier overlapped another item: barrier/item",i,j,0); break; }
      if(x->ret && x->ret < b->call && !(x->end < b->start) && x->end && b->overtook && x->start > b->end) { known_overtakes++; continue; }
      if(x->ret && x->ret < b->call && !(x->end < b->start)) { fail("concurrent queue: item submitted before the barrier did not finish before it started: item/barrier",j,i,0);
        if(getenv("TR_LANE_DEBUG")) fprintf(stderr,"X: kind %d bar %d thread %d call %ld ret %ld start %ld end %ld | B: kind %d thread %d call %ld ret %ld start %ld end %ld\n",x->kind,x->bar,x->thread,x->call,x->ret,x->start,x->end,b->kind,b->thread,b->call,b->ret,b->start,b->end);
        break; }
      if(b->ret && b->ret < x->call && !(b->end < x->start) && x->overtook && x->end < b->start) { known_overtakes++; continue; }   // F15: x ran entirely before the queued barrier
      if(b->ret && b->ret < x->call && !(b->end < x->start)) { fail("concurrent queue: item submitted after the barrier returned started before it finished: barrier/item",i,j,0);
        if(getenv("TR_LANE_DEBUG")) fprintf(stderr,"B: kind %d thread %d call %ld ret %ld start %ld end %ld | X: kind %d bar %d overtook %d thread %d call %ld ret %ld start %ld end %ld\n",b->kind,b->thread,b->call,b->ret,b->start,b->end,x->kind,x->bar,x->overtook,x->thread,x->call,x->ret,x->start,x->end);
        break; } } }
  free(s); }
static void *watchdog(void *a){ (void)a; int last=-1, same=0; for(;;){ usleep(200000); int d=atomic_load(&done_items); if (d==last) same++; else same=0; last=d; if (same>=100){ // 20 s without progress
      printf("STUCK %d of %d items done: accepted work items never ran or synchronous submissions never returned (dq_state serial %016lx concurrent %016lx)\n", d, atomic_load(&expected),
        *(volatile uint64_t*)_dispatch_verif_queue_state_addr(Q[0]), *(volatile uint64_t*)_dispatch_verif_queue_state_addr(Q[1])); _dispatch_verif_atomic_cb=0; dump(); _exit(3);} } return 0; }
#include <signal.h>
static void on_crash(int sig){ char b[240]; int n=snprintf(b,sizeof b,"ORACLE VIOL seed=%llu the library trapped or crashed (signal %d) during the lane workload (a trap is the library's own ownership / corruption / over-release check firing)\n",(unsigned long long)seed,sig); if(n>0) (void)!write(1,b,(size_t)n); _exit(1); }
// ---- narrow mode: a concurrent queue whose width is limited (dispatch_queue_set_width), flooded with more asynchronous items than it
// has width, so that drainers keep running out of width; the first item waits for the last one (legitimate: no barrier is ever
// submitted to this queue, and the width is at least 2), two threads add synchronous readers. Everything must run.
extern void dispatch_queue_set_width(dispatch_queue_t dq, long width);
static atomic_int nd_last_ran; static int nd_n;
static void nd_item(void *c){ long i=(long)c;
  if(i==0){ for(int w=0; w<150000 && !atomic_load(&nd_last_ran); w++) usleep(100); }
  else { for(volatile int k=0;k<(int)(rnd()%4000);k++){} if(rnd()%16==0) sched_yield(); }
  if(i==nd_n-1) atomic_store(&nd_last_ran,1);
  atomic_fetch_add(&done_items,1); }
static void nd_sync_item(void *c){ (void)c; for(volatile int k=0;k<500;k++){} atomic_fetch_add(&done_items,1); }
static void *nd_sync_client(void *a){ long n=(long)a; for(long i=0;i<n;i++){ atomic_fetch_add(&expected,1); dispatch_sync_f(Q[1],0,nd_sync_item); if(rnd()%8==0) usleep(rnd()%100); } return 0; }
static int narrow(int width, int n){ nd_n=n; atomic_fetch_add(&expected,n);
  pthread_t sc[2]; for(int i=0;i<2;i++) pthread_create(&sc[i],0,nd_sync_client,(void*)(long)(n/8));
  for(long i=0;i<n;i++){ dispatch_async_f(Q[1],(void*)i,nd_item); if(i%64==0 && rnd()%4==0) usleep(rnd()%200); }
  for(int i=0;i<2;i++) pthread_join(sc[i],0);
  (void)width; return n; }
// ---- narrow mode with barriers (width given negative): the width-limited concurrent queue is kept saturated with asynchronous readers
// while two threads add dispatch_sync readers (a drainer that has run out of width hands them on) and one thread submits
// dispatch_barrier_sync items: a barrier never runs while a reader does, whatever the drainer's own width accounting is at that moment.
static atomic_int nb_readers, nb_in_barrier, nb_stop; static atomic_long nb_done;
static void nb_reader(void *c){ (void)c; atomic_fetch_add(&nb_readers,1); if(atomic_load(&nb_in_barrier)) fail("narrow concurrent queue: a reader started while a barrier item was running",0,0,0);
  for(volatile int k=0;k<(int)(500+rnd()%3000);k++){} atomic_fetch_sub(&nb_readers,1); atomic_fetch_add(&nb_done,1); atomic_fetch_add(&done_items,1); }
static void nb_barrier(void *c){ (void)c; atomic_store(&nb_in_barrier,1); int r=atomic_load(&nb_readers); if(r) fail("narrow concurrent queue: a barrier item started while readers were still running: readers",r,0,0);
  for(volatile int k=0;k<800;k++){} r=atomic_load(&nb_readers); if(r) fail("narrow concurrent queue: a reader started while a barrier item was running: readers",r,0,0); atomic_store(&nb_in_barrier,0); atomic_fetch_add(&done_items,1); }
static void *nb_sync_client(void *a){ long n=(long)a; for(long i=0;i<n && !viol;i++){ atomic_fetch_add(&expected,1); dispatch_sync_f(Q[1],0,nb_reader); if(rnd()%4==0) usleep(rnd()%60); } return 0; }
static void *nb_barrier_client(void *a){ long n=(long)a; for(long i=0;i<n && !viol;i++){ atomic_fetch_add(&expected,1); dispatch_barrier_sync_f(Q[1],0,nb_barrier); usleep(50+rnd()%300); } return 0; }
static int narrow_barriers(int width, int n){ (void)width; pthread_t sc[3]; for(int i=0;i<2;i++) pthread_create(&sc[i],0,nb_sync_client,(void*)(long)(n/4)); pthread_create(&sc[2],0,nb_barrier_client,(void*)(long)(n/16));
  for(long i=0;i<n && !viol;i++){ atomic_fetch_add(&expected,1); dispatch_async_f(Q[1],0,nb_reader); if(i%32==0 && rnd()%3==0) usleep(rnd()%150); }
  for(int i=0;i<3;i++) pthread_join(sc[i],0); return n; }
int main(int argc, char **argv){
  signal(SIGILL,on_crash); signal(SIGSEGV,on_crash); signal(SIGABRT,on_crash); signal(SIGBUS,on_crash);
  seed = argc>1 ? strtoull(argv[1],0,0) : 1; int nthr = argc>2 ? atoi(argv[2]) : 4; nops = argc>3 ? atoi(argv[3]) : 200; serial_only = argc>4 ? atoi(argv[4]) : 0;
  marks = getenv("TR_LANE_MARKS")!=NULL; evs = calloc(MAXEV, sizeof(ev_t)); items=calloc(MAXIT,sizeof(item_t));
  int chain = argc>5 ? atoi(argv[5]) : 0;     // 1: the serial queue targets the concurrent one (a hierarchy whose inner level is concurrent and not a root queue)
                                              // 2: as 1, and the concurrent queue targets a second concurrent queue (asynchronous items are redirected through two levels)
  dispatch_queue_t MID = chain==2 ? dispatch_queue_create("m", DISPATCH_QUEUE_CONCURRENT) : NULL;
  Q[1] = MID ? dispatch_queue_create_with_target("c", DISPATCH_QUEUE_CONCURRENT, MID) : dispatch_queue_create("c", DISPATCH_QUEUE_CONCURRENT);
  Q[0] = chain ? dispatch_queue_create_with_target("s", DISPATCH_QUEUE_SERIAL, Q[1]) : dispatch_queue_create("s", DISPATCH_QUEUE_SERIAL);
  int width = argc>6 ? atoi(argv[6]) : 0;     // > 0: narrow mode (the concurrent queue is limited to this width); < 0: narrow mode with barriers
  int with_barriers = width<0; if(with_barriers) width=-width;
  if(width>0){ dispatch_queue_set_width(Q[1],width); dispatch_barrier_sync(Q[1],^{}); }
  for(int i=0;i<NQ;i++){ stateoff[i]=(long)((char*)_dispatch_verif_queue_state_addr(Q[i])-(char*)Q[i]); printf("Q %d width %d stateoff %ld\n", i, i==0?1:(width>0?width:4094), stateoff[i]); }
  // what the queues look like at rest: suspension, barrier, width in use, pending barrier
  const uint64_t REST = 0xff80000000000000ull | 0x0040000000000000ull | 0x0020000000000000ull | 0x003ffe0000000000ull | 0x0000010000000000ull;
  dispatch_queue_t RQ[3] = { Q[0], Q[1], MID }; uint64_t rest0[3] = {0,0,0};
  for(int i=0;i<3;i++) if(RQ[i]){ dispatch_barrier_sync(RQ[i],^{}); rest0[i] = *(volatile uint64_t*)_dispatch_verif_queue_state_addr(RQ[i]) & REST; }
  _dispatch_verif_yield_cb = ycb; _dispatch_verif_atomic_cb = cb;
  pthread_t wd; pthread_create(&wd,0,watchdog,0);
  pthread_t th[64];
  if(width>0){ if(with_barriers) narrow_barriers(width,nops*nthr); else narrow(width,nops*nthr); nthr=0; }
  for (int i=0;i<nthr;i++) pthread_create(&th[i],0,client,(void*)(intptr_t)i);
  for (int i=0;i<nthr;i++) pthread_join(th[i],0);
  for (int w=0; w<20000 && atomic_load(&done_items) < atomic_load(&expected); w++) usleep(1000);
  usleep(20000);
  _dispatch_verif_atomic_cb = 0; _dispatch_verif_yield_cb = 0;
  if (atomic_load(&done_items) < atomic_load(&expected)) { printf("STUCK %d of %d items done\n", atomic_load(&done_items), atomic_load(&expected)); dump(); return 3; }
  oracle();
  // at rest again: every queue of the chain still accepts and runs a barrier item, and its state word shows the same width in use,
  // barrier and suspension bits as before the run (a unit of width or a suspension that is not given back shows here long before
  // the queue runs out of it)
  for(int i=2;i>=0 && !viol;i--) if(RQ[i]){ __block atomic_int ran=0; atomic_int *rp=&ran; dispatch_barrier_async(RQ[i],^{ atomic_store(rp,1); });
    for(int w=0; w<10000 && !atomic_load(&ran); w++) usleep(1000);
    if(!atomic_load(&ran)){ printf("STUCK a barrier item submitted after the run to queue %d of the chain (0 serial, 1 concurrent, 2 the concurrent queue's concurrent target) never ran\n", i); dump(); return 3; }
    uint64_t now=0; for(int w=0; w<2000; w++){ now = *(volatile uint64_t*)_dispatch_verif_queue_state_addr(RQ[i]) & REST; if(now==rest0[i]) break; usleep(1000); }
    if(now!=rest0[i]) fail("a queue at rest after the run does not show the width / barrier / suspension bits it showed at rest before the run: queue (0 serial, 1 concurrent, 2 its concurrent target) / bits before >> 40 / bits after >> 40", i, (long)(rest0[i]>>40), (long)(now>>40)); }
  if (viol) printf("ORACLE VIOL seed=%llu %s\n",(unsigned long long)seed,vmsg); else printf("ORACLE ok items=%d events=%lu sync_fastpath_overtakes=%ld\n", atomic_load(&nitems), atomic_load(&nev), known_overtakes);
  dump();
  return viol?1:0; }
