// C19: "leaves the private group on the first completion only", for a block object that is executed more often than its 32-bit
// execution counter can count: 2^32 + 2 direct executions of one block object (no hook involved), then a wait and a notification.
// Oracle: nothing traps (a second dispatch_group_leave on the private group does), the body ran every time.
// usage: c19_wrap <executions beyond 2^32>      (about a minute)
#define _GNU_SOURCE
#include <dispatch/dispatch.h>
#include <stdio.h>
#include <stdint.h>
#include <stdlib.h>
#include <unistd.h>
#include <signal.h>
static volatile uint64_t body;
static void on_crash(int sig){ char b[200]; int n=snprintf(b,sizeof b,"ORACLE VIOL the library trapped (signal %d) at execution %llu of one block object (a second leave of its private group)\n",sig,(unsigned long long)body); if(n>0) (void)!write(1,b,(size_t)n); _exit(1); }
int main(int argc,char**argv){ uint64_t beyond=argc>1?strtoull(argv[1],0,0):2; uint64_t n=(1ull<<32)+beyond;
  signal(SIGILL,on_crash); signal(SIGSEGV,on_crash); signal(SIGABRT,on_crash);
  dispatch_block_t b=dispatch_block_create(0,^{ body++; });
  for(uint64_t i=0;i<n;i++) b();
  if(body!=n){ printf("ORACLE VIOL the body of a block object ran %llu times in %llu executions\n",(unsigned long long)body,(unsigned long long)n); return 1; }
  printf("ORACLE ok items=%llu\n",(unsigned long long)n); return 0; }
