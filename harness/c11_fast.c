// C11 oracle for the count clause under overrun: a repeating timer whose interval (5 - 40 us) is shorter than its handler now and then
// needs, so that the next boundary passes while the previous count is still waiting to be taken - the manager thread then marks the
// pending count "disarmed" while the handler's thread takes it. Next to it a few thousand far-future timers share the heap. The manager
// thread is delayed now and then inside _dispatch_timers_run (through the yield hook), which stretches its window on the pending count.
// Oracle, at every handler call: the counts reported so far never exceed the interval boundaries that have passed (now read AFTER the
// count was taken); never a zero; never before the start.
// usage: c11_fast <seed> <milliseconds>
#define _GNU_SOURCE
#include <dispatch/dispatch.h>
#include <stdio.h>
#include <stdint.h>
#include <stdlib.h>
#include <string.h>
#include <unistd.h>
#include <time.h>
#include <stdatomic.h>
#include <sys/syscall.h>
extern void (*_dispatch_verif_yield_cb)(const volatile void *addr, const char *func, int line);
static uint64_t seed; static __thread uint64_t rng;
static inline uint64_t rnd(void){ if(!rng) rng = seed ^ (uint64_t)syscall(SYS_gettid)*0x9e3779b97f4a7c15ull; rng ^= rng<<13; rng ^= rng>>7; rng ^= rng<<17; return rng; }
static void ycb(const volatile void *addr, const char *func, int line){ (void)addr;(void)line; if(strcmp(func,"_dispatch_timers_run")) return; if(rnd()%3==0) usleep((useconds_t)(rnd()%40)); }
static atomic_int viol; static char vmsg[300];
static void fail(const char *m, long a, long b, long c){ if(!atomic_exchange(&viol,1)) snprintf(vmsg,sizeof vmsg,"%s %ld %ld %ld",m,a,b,c); }
static uint64_t now_ns(void){ struct timespec t; clock_gettime(CLOCK_MONOTONIC,&t); return (uint64_t)t.tv_sec*1000000000ull+(uint64_t)t.tv_nsec; }
#define NT 3
struct ft { dispatch_source_t ds; uint64_t start, interval; _Atomic uint64_t total; _Atomic long calls; };
static struct ft T[NT];
static void handler(void *c){ struct ft *t=c; uint64_t n=dispatch_source_get_data(t->ds); uint64_t now=now_ns(); long k=atomic_fetch_add(&t->calls,1)+1;
  if(!n) fail("a timer handler invocation reported zero: timer / call",(long)(t-T),k,0);
  if(now<t->start) fail("a timer fired before its start: timer / early ns",(long)(t-T),(long)(t->start-now),0);
  uint64_t tot=atomic_fetch_add(&t->total,n)+n; uint64_t bounds = now<t->start ? 0 : (now-t->start)/t->interval+1;
  if(tot>bounds) fail("a repeating timer reported more firings than interval boundaries have passed: timer / reported so far / boundaries passed",(long)(t-T),(long)tot,(long)bounds);
  if(rnd()%3==0) usleep((useconds_t)(rnd()%(3*t->interval/1000+30))); }
int main(int argc,char**argv){ seed=argc>1?strtoull(argv[1],0,0):1; int ms=argc>2?atoi(argv[2]):1200;
  dispatch_queue_t q=dispatch_queue_create("ft.q",NULL); int nfar=3000; dispatch_source_t *far=calloc((size_t)nfar,sizeof *far);
  for(int i=0;i<nfar;i++){ far[i]=dispatch_source_create(DISPATCH_SOURCE_TYPE_TIMER,0,0,q); dispatch_source_set_event_handler(far[i],^{ fail("a timer set an hour ahead fired",0,0,0); });
    dispatch_source_set_timer(far[i],dispatch_time(DISPATCH_TIME_NOW,(int64_t)(3600+i)*1000000000ll),DISPATCH_TIME_FOREVER,0); dispatch_activate(far[i]); }
  _dispatch_verif_yield_cb=ycb;
  for(int i=0;i<NT;i++){ struct ft *t=&T[i]; t->interval=(uint64_t)(5+rnd()%36)*1000ull; t->ds=dispatch_source_create(DISPATCH_SOURCE_TYPE_TIMER,0,0, i==0? q : dispatch_queue_create("ft.t",NULL));
    dispatch_set_context(t->ds,t); dispatch_source_set_event_handler_f(t->ds,handler);
    uint64_t before=now_ns(); t->start=before+2000000; dispatch_source_set_timer(t->ds,dispatch_time(DISPATCH_TIME_NOW,2000000),t->interval,0); dispatch_activate(t->ds); }
  for(int e=0; e<ms/10 && !viol; e++) usleep(10000);
  for(int i=0;i<NT;i++) dispatch_source_cancel(T[i].ds); usleep(5000); _dispatch_verif_yield_cb=0;
  long calls=0; for(int i=0;i<NT;i++){ calls+=atomic_load(&T[i].calls); if(!viol && !atomic_load(&T[i].calls)) fail("a repeating timer of a few microseconds never fired: timer / interval ns",i,(long)T[i].interval,0); }
  if(viol){ printf("ORACLE VIOL seed=%llu %s\n",(unsigned long long)seed,vmsg); fflush(stdout); _exit(1); }
  printf("ORACLE ok items=%ld\n",calls); fflush(stdout); _exit(0); }
