// C13 L-api oracle: destructor of every buffer runs exactly once, and only after every object whose byte
// string contains bytes of that buffer has been released. Random trees of create/concat/subrange/map/
// copy_region with random retain/release order; run on the normal and on the sanitizer build.
// usage: c13_rc <seed> <rounds>; prints one line "ok ..." or "VIOL ...".
#include <dispatch/dispatch.h>
#include <stdio.h>
#include <stdlib.h>
#include <string.h>
#include <stdint.h>
#include <stdatomic.h>
#include <unistd.h>
#include <stdarg.h>
#include <sys/mman.h>
#include <signal.h>
#include <errno.h>
static uint64_t rs; static uint64_t rnd(void){ rs += 0x9E3779B97F4A7C15ull; uint64_t z=rs; z=(z^(z>>30))*0xBF58476D1CE4E5B9ull; z=(z^(z>>27))*0x94D049BB133111EBull; return z^(z>>31); }
#define MAXL 64
#define MAXO 256
#define MAXSEG 64
static _Atomic int destroyed[MAXL]; static unsigned char *lbuf[MAXL]; static size_t lsize[MAXL]; static int nleaf;
struct seg { int leaf; size_t from, len; };
struct obj { dispatch_data_t d; int refs; int nseg; struct seg s[MAXSEG]; int ok; };
static struct obj O[MAXO]; static int nobj;
static _Atomic int viol; static char vmsg[256];
static void fail(const char *m, int a, int b){ if(!atomic_exchange(&viol,1)) snprintf(vmsg,sizeof vmsg,"%s %d %d",m,a,b); }
// `destroyed[l]` is what the main thread waits for before it starts the next round (and re-uses the slot): it is set LAST
static _Atomic int dstarted[MAXL];
// ---- operation log for the replay through DataRc (dvdriver datarc): "C" new leaf object, "U" new object the harness does not
// track a destructor for, "D <sources> / <leaf objects of the records>" derived object, "R o" retain, "L o" release,
// "X o" the destructor of leaf object o ran, "E" end of round (everything released and awaited)
#include <pthread.h>
static char *logbuf; static size_t loglen, logcap; static pthread_mutex_t logm=PTHREAD_MUTEX_INITIALIZER; static int logging; static int oidx[MAXL];
static void lg(const char *fmt, ...){ if(!logging) return; va_list ap; va_start(ap,fmt); pthread_mutex_lock(&logm);
  if(loglen+4096>logcap){ logcap=logcap?logcap*2:(1<<20); logbuf=realloc(logbuf,logcap); }
  loglen+=(size_t)vsnprintf(logbuf+loglen,4096,fmt,ap); pthread_mutex_unlock(&logm); va_end(ap); }
static void on_destroy(int l){ unsigned char *b=lbuf[l]; size_t n=lsize[l]; int c = atomic_fetch_add(&dstarted[l],1); if(c){ fail("destructor ran twice for leaf",l,c+1); return; }
  for(int i=0;i<nobj;i++) if(O[i].refs>0 && O[i].ok) for(int k=0;k<O[i].nseg;k++) if(O[i].s[k].leaf==l) fail("destructor ran while a derived object is alive: leaf/object",l,i);
  lg("X %d\n",oidx[l]); memset(b,0xDD,n); free(b); atomic_fetch_add(&destroyed[l],1); }
static void lg_derive(int a, int b, struct obj *c){ if(!logging) return; char t[4096]; int n=0; n+=snprintf(t+n,sizeof t-(size_t)n,"D %d",a); if(b>=0) n+=snprintf(t+n,sizeof t-(size_t)n," %d",b); n+=snprintf(t+n,sizeof t-(size_t)n," /");
  for(int k=0;k<c->nseg && n<4000;k++) n+=snprintf(t+n,sizeof t-(size_t)n," %d",oidx[c->s[k].leaf]); lg("%s\n",t); }
static size_t osize(struct obj *o){ size_t n=0; for(int k=0;k<o->nseg;k++) n+=o->s[k].len; return n; }
static int add(dispatch_data_t d){ if(nobj>=MAXO) return -1; O[nobj].d=d; O[nobj].refs=1; O[nobj].nseg=0; O[nobj].ok=1; return nobj++; }
static void verify(struct obj *o){ // bytes through the public API must be the tracked segments
  if(!o->ok) return; size_t n=osize(o); if(dispatch_data_get_size(o->d)!=n){ fail("size mismatch",(int)dispatch_data_get_size(o->d),(int)n); return; }
  unsigned char *exp=malloc(n+1); size_t p=0; for(int k=0;k<o->nseg;k++){ memcpy(exp+p, lbuf[o->s[k].leaf]+o->s[k].from, o->s[k].len); p+=o->s[k].len; }
  __block size_t pos=0; __block int bad=0;
  dispatch_data_apply(o->d, ^bool(dispatch_data_t r, size_t off, const void *b, size_t len){ (void)r; if(off!=pos||pos+len>n||memcmp(b,exp+pos,len)) bad=1; pos+=len; return true; });
  if(bad||pos!=n) fail("bytes/tiling mismatch",(int)pos,(int)n); free(exp); }
// the predefined destructors of dispatch/data.h: DISPATCH_DATA_DESTRUCTOR_FREE (buffer from malloc) and
// DISPATCH_DATA_DESTRUCTOR_MUNMAP (buffer from mmap): the buffer stays intact while anything derived from it lives and is
// given back (the mapping is gone) once everything has been released
static uint64_t pd_seed;
static void pd_crash(int sig){ char b[200]; int n=snprintf(b,sizeof b,"VIOL seed=%llu the library crashed (signal %d) while releasing a buffer created with a predefined destructor (DISPATCH_DATA_DESTRUCTOR_MUNMAP / FREE)\n",(unsigned long long)pd_seed,sig); if(n>0) (void)!write(1,b,(size_t)n); _exit(1); }
static int mapped(void *p, size_t n){ return msync(p,n,MS_ASYNC)==0 || errno!=ENOMEM; }
// is the mapping at p still OURS (the pattern is there)? The address range may be re-used by an unrelated mapping (a new thread's
// stack or arena) right after the library unmapped it: read through a pipe, which fails with EFAULT instead of faulting
static int still_ours(unsigned char *p, int r){ int fd[2]; if(pipe(fd)) return 0; unsigned char v[16]; int ours=0;
  if(write(fd[1],p,16)==16 && read(fd[0],v,16)==16){ ours=1; for(int i=0;i<16;i++) if(v[i]!=(unsigned char)(i*7+r)) ours=0; }
  close(fd[0]); close(fd[1]); return ours; }
extern dispatch_data_t dispatch_data_create_f(const void *buffer, size_t size, dispatch_queue_t queue, dispatch_function_t destructor);
static void predefined(int rounds){ signal(SIGILL,pd_crash); signal(SIGSEGV,pd_crash); signal(SIGABRT,pd_crash); long pg=sysconf(_SC_PAGESIZE);
  for(int r=0;r<rounds && !viol;r++){ int kind=(int)(rnd()%2); size_t n = kind? (size_t)pg*(1+rnd()%3) : 1+rnd()%4000; unsigned char *b;
    if(kind){ b=mmap(NULL,n,PROT_READ|PROT_WRITE,MAP_PRIVATE|MAP_ANONYMOUS,-1,0); if(b==MAP_FAILED) return; } else b=malloc(n);
    for(size_t i=0;i<n;i++) b[i]=(unsigned char)(i*7+r);
    dispatch_block_t pdd = kind?DISPATCH_DATA_DESTRUCTOR_MUNMAP:DISPATCH_DATA_DESTRUCTOR_FREE;      // through the block and through the function-pointer entry point
    dispatch_data_t d = (rnd()%2) ? dispatch_data_create_f(b,n,NULL,(dispatch_function_t)pdd) : dispatch_data_create(b,n,NULL,pdd);
    size_t off=rnd()%n, len=1+rnd()%(n-off); dispatch_data_t sub=dispatch_data_create_subrange(d,off,len); dispatch_data_t cat=dispatch_data_create_concat(sub,d);
    if(rnd()%2){ dispatch_release(d); dispatch_release(cat); } else { dispatch_release(cat); dispatch_release(d); }
    usleep(500);
    // only `sub` is left: its bytes are the buffer's
    if(kind && !mapped(b,n)) fail("a buffer with DISPATCH_DATA_DESTRUCTOR_MUNMAP was unmapped while an object derived from it is alive: round",r,0);
    __block int bad=0; dispatch_data_apply(sub,^bool(dispatch_data_t rg, size_t o, const void *p, size_t sz){ (void)rg; for(size_t i=0;i<sz;i++) if(((const unsigned char*)p)[i]!=(unsigned char)((off+o+i)*7+r)) bad=1; return true; });
    if(bad) fail("bytes of a buffer with a predefined destructor changed while a derived object is alive: round/kind",r,kind);
    dispatch_release(sub);
    if(kind){ int gone=0; for(int w=0; w<2000 && !gone; w++){ if(!mapped(b,n) || !still_ours(b,r)) gone=1; else usleep(500); }
      if(!gone) fail("a buffer with DISPATCH_DATA_DESTRUCTOR_MUNMAP was still mapped 1 s after everything derived from it had been released: round",r,0); } } }
int main(int argc,char**argv){ uint64_t seed=argc>1?strtoull(argv[1],0,0):1; int rounds=argc>2?atoi(argv[2]):50; long ops=0, maxdepth=0;
  logging = argc>3 && atoi(argv[3])==2;   // 2: record the operations for the replay through DataRc (and skip what the log cannot express)
  dispatch_queue_t dq = dispatch_queue_create("destructors", NULL);
  for(int r=0;r<rounds && !viol;r++){ rs=seed*1000003+r; nobj=0; nleaf=0; memset(destroyed,0,sizeof destroyed); memset(dstarted,0,sizeof dstarted);
    int steps=20+rnd()%120;
    for(int st=0;st<steps;st++){ int k=rnd()%10; ops++;
      int live[MAXO], nl=0; for(int i=0;i<nobj;i++) if(O[i].refs>0) live[nl++]=i;
      if((k<3 || nl==0) && nleaf<MAXL && nobj<MAXO){ size_t n=1+rnd()%24; int l=nleaf++; lbuf[l]=malloc(n); lsize[l]=n; for(size_t i=0;i<n;i++) lbuf[l][i]=(unsigned char)rnd();
        int onq = rnd()%2; dispatch_data_t d=dispatch_data_create(lbuf[l],n, onq?dq:NULL, ^{ on_destroy(l); });
        int o=add(d); O[o].nseg=1; O[o].s[0]=(struct seg){l,0,n}; oidx[l]=o; lg("C\n"); }
      else if(k<5 && nl>=1 && nobj<MAXO){ struct obj *a=&O[live[rnd()%nl]], *b=&O[live[rnd()%nl]];
        if(a->nseg+b->nseg<=MAXSEG){ int o=add(dispatch_data_create_concat(a->d,b->d)); struct obj *c=&O[o]; c->ok=a->ok&&b->ok;
          memcpy(c->s,a->s,sizeof(struct seg)*a->nseg); memcpy(c->s+a->nseg,b->s,sizeof(struct seg)*b->nseg); c->nseg=a->nseg+b->nseg; lg_derive((int)(a-O),(int)(b-O),c); } }
      else if(k<7 && nl>=1 && nobj<MAXO){ struct obj *a=&O[live[rnd()%nl]]; size_t n=osize(a); size_t off=rnd()%(n+2), len=rnd()%(n+3);
        int o=add(dispatch_data_create_subrange(a->d,off,len)); struct obj *c=&O[o]; c->ok=a->ok; size_t p=0;
        size_t end = off>n? off : (len>n-off? n : off+len);
        for(int q=0;q<a->nseg;q++){ size_t s0=p, s1=p+a->s[q].len; p=s1; size_t lo=s0>off?s0:off, hi=s1<end?s1:end; if(lo<hi) c->s[c->nseg++]=(struct seg){a->s[q].leaf,a->s[q].from+(lo-s0),hi-lo}; } lg_derive((int)(a-O),-1,c); }
      else if(k==7 && nl>=1 && nobj<MAXO && rnd()%2){ struct obj *a=&O[live[rnd()%nl]]; size_t n=osize(a); if(!n || !a->ok) continue;     // the region that contains a location: an object of its own
        size_t loc=rnd()%n, off=(size_t)-1; dispatch_data_t rg=dispatch_data_copy_region(a->d,loc,&off); size_t rn=rg?dispatch_data_get_size(rg):0;
        if(!rg || off>loc || loc-off>=rn || off+rn>n){ fail("copy_region: the region returned does not contain the requested location: location/offset",(int)loc,(int)off); continue; }
        int o=add(rg); struct obj *c=&O[o]; c->ok=a->ok; size_t p2=0, end=off+rn;
        for(int q=0;q<a->nseg;q++){ size_t s0=p2, s1=p2+a->s[q].len; p2=s1; size_t lo=s0>off?s0:off, hi=s1<end?s1:end; if(lo<hi) c->s[c->nseg++]=(struct seg){a->s[q].leaf,a->s[q].from+(lo-s0),hi-lo}; } lg_derive((int)(a-O),-1,c); }
      else if(k==7 && nl>=1 && nobj<MAXO){ struct obj *a=&O[live[rnd()%nl]]; if(logging && a->nseg>1) continue;   /* a flattening map copies into a buffer of the library's own: not tracked in the log */
        const void *p; size_t n; dispatch_data_t m=dispatch_data_create_map(a->d,&p,&n);
        int o=add(m); struct obj *c=&O[o]; *c=*a; c->d=m; c->refs=1; // a map keeps its source bytes alive or copies them: track as dependent (conservative for the oracle only if it shares); mark not-checked for the alive test when it is a copy
        if(n!=osize(a)) fail("map size",(int)n,(int)osize(a)); c->ok = (a->nseg<=1) ? a->ok : 0; lg_derive((int)(a-O),-1,c); }
      else if(k==8 && nl>=1){ struct obj *a=&O[live[rnd()%nl]]; if(a->refs<5){ dispatch_retain(a->d); a->refs++; lg("R %d\n",(int)(a-O)); } }
      else if(nl>=1){ struct obj *a=&O[live[rnd()%nl]]; verify(a); a->refs--; lg("L %d\n",(int)(a-O)); dispatch_release(a->d); }
      if(nl>maxdepth) maxdepth=nl; }
    for(int i=0;i<nobj;i++){ if(O[i].refs>0) verify(&O[i]); }
    for(int i=0;i<nobj;i++){ while(O[i].refs>0){ O[i].refs--; lg("L %d\n",i); dispatch_release(O[i].d); } }
    dispatch_sync(dq, ^{}); for(int t=0;t<200;t++){ int all=1; for(int l=0;l<nleaf;l++) if(!destroyed[l]) all=0; if(all) break; dispatch_sync(dq, ^{}); usleep(1000); }
    for(int l=0;l<nleaf;l++) if(destroyed[l]!=1) fail("destructor count != 1 after all releases: leaf/count",l,destroyed[l]);
    lg("E\n"); }
  if(!viol && !(argc>3 && atoi(argv[3])!=1)){ pd_seed=seed; rs=seed*77+5; predefined(rounds); }
  if(viol){ printf("VIOL seed=%llu %s\n",(unsigned long long)seed,vmsg); return 1; }
  printf("ok rounds=%d ops=%ld maxlive=%ld\n",rounds,ops,maxdepth); if(logging && logbuf) fwrite(logbuf,1,loglen,stdout); return 0; }
