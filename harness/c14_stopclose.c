// C14 oracle for "all placements of close / stop relative to in-flight operations": an operation in flight (a read on an empty pipe or
// socket, a write on a full pipe), then a plain dispatch_io_close, then - at once, or after the close has taken effect (the channel
// no longer reports its descriptor) - dispatch_io_close(DISPATCH_IO_STOP); or the stop alone; or the stop first and the close after.
// A plain close lets the operation go on; the stop is what cancels it. Oracle: after the stop the operation's handler sees done exactly
// once, promptly (3 s; no byte ever arrives), with ECANCELED and no data consumed after the stop; the cleanup handler runs exactly once
// after it; a second channel on the same descriptor is not affected by the first one's stop.
// usage: c14_stopclose <seed> <rounds>
#define _GNU_SOURCE
#include <dispatch/dispatch.h>
#include <stdio.h>
#include <stdint.h>
#include <stdlib.h>
#include <string.h>
#include <errno.h>
#include <fcntl.h>
#include <unistd.h>
#include <signal.h>
#include <stdatomic.h>
#include <sys/socket.h>
static uint64_t seed, rs; static uint64_t rnd(void){ rs += 0x9E3779B97F4A7C15ull; uint64_t z=rs; z=(z^(z>>30))*0xBF58476D1CE4E5B9ull; z=(z^(z>>27))*0x94D049BB133111EBull; return z^(z>>31); }
static atomic_int viol; static char vmsg[300];
static void fail(const char *m, long a, long b, long c){ if(!atomic_exchange(&viol,1)) snprintf(vmsg,sizeof vmsg,"%s %ld %ld %ld",m,a,b,c); }
static void on_crash(int sig){ char b[200]; int n=snprintf(b,sizeof b,"ORACLE VIOL seed=%llu the library trapped or crashed (signal %d) while a channel with an operation in flight was closed and stopped\n",(unsigned long long)seed,sig); if(n>0) (void)!write(1,b,(size_t)n); _exit(1); }
static long round_(int it){ int s[2]; int kind=(int)(rnd()%3);          // 0 pipe read, 1 socket read, 2 pipe write (full)
  if(kind==1){ if(socketpair(AF_UNIX,SOCK_STREAM,0,s)) return 0; } else if(pipe(s)) return 0;
  int fd = kind==2 ? s[1] : s[0];
  if(kind==2){ fcntl(fd,F_SETFL,O_NONBLOCK); char buf[4096]; memset(buf,'x',sizeof buf); while(write(fd,buf,sizeof buf)>0){} }
  int order=(int)(rnd()%4);                                              // 0 close, (effect), stop   1 close, stop at once   2 stop alone   3 stop, close
  dispatch_queue_t q=dispatch_queue_create("sc.q",NULL);
  __block _Atomic int dones=0, cleanups=0, after_stop_bytes=0, stopped=0, derr=-1, order_bad=0;
  dispatch_io_t ch=dispatch_io_create(DISPATCH_IO_STREAM,fd,q,^(int e){ (void)e; if(!atomic_load(&dones)) atomic_store(&order_bad,1); atomic_fetch_add(&cleanups,1); });
  if(!ch){ close(s[0]); close(s[1]); return 0; }
  // a bystander channel on the same descriptor with its own operation in flight
  int with_other=(int)(rnd()%3==0) && kind!=2; __block _Atomic int odone=0, oerr=-1; dispatch_io_t other=NULL;
  if(with_other){ other=dispatch_io_create(DISPATCH_IO_STREAM,fd,q,^(int e){ (void)e; });
    if(other) dispatch_io_read(other,0,8,q,^(bool done,dispatch_data_t d,int e){ (void)d; if(done){ atomic_store(&oerr,e); atomic_fetch_add(&odone,1); } }); }
  dispatch_io_handler_t h=^(bool done,dispatch_data_t d,int e){ if(d && atomic_load(&stopped)) atomic_fetch_add(&after_stop_bytes,(int)dispatch_data_get_size(d)); if(done){ atomic_store(&derr,e); atomic_fetch_add(&dones,1); } };
  if(kind==2){ dispatch_data_t w=dispatch_data_create("0123456789",10,NULL,DISPATCH_DATA_DESTRUCTOR_DEFAULT); dispatch_io_write(ch,0,w,q,h); dispatch_release(w); }
  else dispatch_io_read(ch,0,64,q,h);
  usleep((useconds_t)(rnd()%3000));
  if(order==0 || order==1){ dispatch_io_close(ch,0);
    if(order==0){ for(int w=0; w<20000 && dispatch_io_get_descriptor(ch)!=-1; w++) usleep(100); usleep((useconds_t)(rnd()%2000)); } }
  if(atomic_load(&dones)) fail("an operation that can make no progress completed before the channel was stopped (a plain close lets it go on): round/kind/error",it,kind,atomic_load(&derr));
  atomic_store(&stopped,1); dispatch_io_close(ch,DISPATCH_IO_STOP);
  if(order==3) dispatch_io_close(ch,0);
  for(int w=0; w<30000 && !atomic_load(&dones); w++) usleep(100);
  if(!atomic_load(&dones)) fail("an operation in flight did not complete within 3 s of dispatch_io_close(DISPATCH_IO_STOP): round / kind (0 pipe read, 1 socket read, 2 write on a full pipe) / order (0 stop after a close that had taken effect, 1 close then stop at once, 2 stop alone, 3 stop then close)",it,kind,order);
  else if(atomic_load(&derr)!=ECANCELED) fail("an operation cancelled by DISPATCH_IO_STOP completed with another error than ECANCELED: round/order/error",it,order,atomic_load(&derr));
  dispatch_release(ch);
  if(other){ usleep(500); if(atomic_load(&odone)) fail("stopping one channel completed the operation of another channel on the same descriptor: round/error",it,atomic_load(&oerr),0);
    if(write(s[1],"12345678",8)!=8){} for(int w=0; w<30000 && !atomic_load(&odone); w++) usleep(100);
    if(!atomic_load(&odone) || atomic_load(&oerr)) fail("the operation of a second channel on a descriptor did not complete normally after the first channel was stopped and its bytes arrived: round/completed/error",it,atomic_load(&odone),atomic_load(&oerr));
    dispatch_io_close(other,0); dispatch_release(other); }
  for(int w=0; w<30000 && !atomic_load(&cleanups); w++) usleep(100);
  if(!viol && atomic_load(&cleanups)!=1) fail("the cleanup handler of a stopped channel did not run exactly once within 3 s: round/order/runs",it,order,atomic_load(&cleanups));
  if(!viol && atomic_load(&order_bad)) fail("the cleanup handler ran before the operation's handler had seen done: round/order",it,order,0);
  if(!viol && atomic_load(&dones)!=1) fail("an operation's handler saw done more than once: round/times",it,atomic_load(&dones),0);
  if(!viol && atomic_load(&after_stop_bytes) && kind!=2) fail("a read consumed bytes after its channel had been stopped: round/bytes",it,atomic_load(&after_stop_bytes),0);
  dispatch_sync(q,^{}); dispatch_release(q); close(s[0]); close(s[1]); return 1; }
int main(int argc,char**argv){ seed=argc>1?strtoull(argv[1],0,0):1; int rounds=argc>2?atoi(argv[2]):60; rs=seed;
  signal(SIGILL,on_crash); signal(SIGSEGV,on_crash); signal(SIGABRT,on_crash); signal(SIGBUS,on_crash); signal(SIGPIPE,SIG_IGN);
  long n=0; for(int i=0;i<rounds && !viol;i++) n+=round_(i);
  if(viol){ printf("ORACLE VIOL seed=%llu %s\n",(unsigned long long)seed,vmsg); fflush(stdout); _exit(1); }
  printf("ORACLE ok items=%ld\n",n); fflush(stdout); _exit(0); }
