// C01 oracle for the main queue served by an EVENT-DRIVEN run loop (the CoreFoundation integration: the loop sleeps on
// _dispatch_get_main_queue_handle_4CF(), consumes the wake-up token when the handle is readable and only then calls
// _dispatch_main_queue_callback_4CF). Items of the main queue spin a nested run-loop iteration now and then (which consumes a token and
// whose nested callback is refused: the queue is being drained by this thread); other threads submit asynchronous and synchronous
// items all the while - also exactly while such an item runs. No timer rescues a lost wake-up here: an item whose token was consumed
// and never given back is stranded.
// Oracle: every item runs exactly once, every dispatch_sync returns, the queue never sits with items outstanding for 3 s.
// usage: c01_mainq_wake <seed> <items per thread>
#define _GNU_SOURCE
#include <dispatch/dispatch.h>
#include <stdio.h>
#include <stdint.h>
#include <stdlib.h>
#include <unistd.h>
#include <poll.h>
#include <pthread.h>
#include <stdatomic.h>
#include <time.h>
#include <sys/syscall.h>
extern void _dispatch_main_queue_callback_4CF(void *msg);
extern int _dispatch_get_main_queue_handle_4CF(void);
static uint64_t seed; static __thread uint64_t rng;
static inline uint64_t rnd(void){ if(!rng) rng = seed ^ (uint64_t)syscall(SYS_gettid)*0x9e3779b97f4a7c15ull; rng ^= rng<<13; rng ^= rng>>7; rng ^= rng<<17; return rng; }
static int mh; static atomic_long submitted, ran, nested, in_item; static atomic_int subs_done, viol; static char vmsg[300];
static void fail(const char *m, long a, long b, long c){ if(!atomic_exchange(&viol,1)) snprintf(vmsg,sizeof vmsg,"%s %ld %ld %ld",m,a,b,c); }
static uint64_t now_ms(void){ struct timespec t; clock_gettime(CLOCK_MONOTONIC,&t); return (uint64_t)t.tv_sec*1000+(uint64_t)t.tv_nsec/1000000; }
static void item(void *c){ long nest=(long)c; atomic_store(&in_item,1);
  if(nest){ for(int k=0;k<(int)(1+rnd()%3);k++){ struct pollfd pf={mh,POLLIN,0}; if(poll(&pf,1,1)>0){ uint64_t v; if(read(mh,&v,8)<0){} _dispatch_main_queue_callback_4CF(NULL); atomic_fetch_add(&nested,1); } else usleep(300); } }
  else if(rnd()%4==0) usleep(rnd()%200);
  atomic_store(&in_item,0); atomic_fetch_add(&ran,1); }
static void *submitter(void *a){ long n=(long)a; dispatch_queue_t mq=dispatch_get_main_queue();
  for(long i=0;i<n && !viol;i++){ if(rnd()%3==0){ for(int w=0; w<2000 && !atomic_load(&in_item); w++) usleep(50); }      // often: while an item is running
    atomic_fetch_add(&submitted,1); long nest=(long)(rnd()%3==0);
    if(rnd()%5==0) dispatch_sync_f(mq,(void*)nest,item); else dispatch_async_f(mq,(void*)nest,item);
    if(rnd()%2) usleep(rnd()%2000); else if(rnd()%8==0) usleep(20000+rnd()%30000); }      // now and then the queue falls quiet
  atomic_fetch_add(&subs_done,1); return 0; }
int main(int argc,char**argv){ seed=argc>1?strtoull(argv[1],0,0):1; long per=argc>2?atol(argv[2]):150; int nthr=3;
  mh=_dispatch_get_main_queue_handle_4CF(); pthread_t th[3]; for(int i=0;i<nthr;i++) pthread_create(&th[i],0,submitter,(void*)per);
  uint64_t last_progress=now_ms(); long last_ran=0;
  while(!viol){ struct pollfd pf={mh,POLLIN,0}; int r=poll(&pf,1,100);
    if(r>0){ uint64_t v; if(read(mh,&v,8)<0){} _dispatch_main_queue_callback_4CF(NULL); }
    long rn=atomic_load(&ran); if(rn!=last_ran){ last_ran=rn; last_progress=now_ms(); }
    if(atomic_load(&subs_done)==nthr && rn==atomic_load(&submitted)) break;
    if(atomic_load(&submitted)>rn && now_ms()-last_progress>3000) fail("items of the main queue were stranded: an event-driven run loop was not woken for 3 s although items are outstanding (submitted / run / nested run-loop iterations so far)",atomic_load(&submitted),rn,atomic_load(&nested)); }
  if(viol){ printf("ORACLE VIOL seed=%llu %s\n",(unsigned long long)seed,vmsg); fflush(stdout); _exit(1); }
  for(int i=0;i<nthr;i++) pthread_join(th[i],0);
  printf("ORACLE ok items=%ld nested_iterations=%ld\n",atomic_load(&ran),atomic_load(&nested)); fflush(stdout); _exit(0); }
