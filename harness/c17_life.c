// L-trace + L-api harness for object lifetime (C17).
// Rounds of object life cycles driven from several threads:
//  * queue hierarchies (depth 1-3, serial / concurrent levels), each level optionally with a context + finalizer and a
//    queue-specific value with destructor; inner levels released by the application early (kept alive only by the queues that
//    target them); items submitted asynchronously (some long-running), suspend/resume, dispatch_after, a timer source and a
//    group targeting the hierarchy; the application's last release of the top queue races with running and pending items;
//    extra retain/release pairs from other threads while that happens;
//  * timer sources with context + finalizer, cancelled and released while armed;
//  * data objects with custom destructors, sub-ranges and concatenations released in random order.
// Oracle: every finalizer / destructor runs exactly once, not before the last item of its queue finished and not before the
// application dropped its last reference, on its target queue, with the context current at that time; nothing runs twice;
// everything is finalised in the end (no leak). Memory safety is judged by running the same program on the ASan build.
// Every transition of the reference-count words of the tracked queues is recorded for replay through RefP.
// usage: c17_life <seed> <rounds> <threads>
// output: "ORACLE ok|VIOL ...", then "F id tid word op old new func" records (word 0 = os_obj_ref_cnt, 1 = os_obj_xref_cnt)
#define _GNU_SOURCE
#include <dispatch/dispatch.h>
#include <fcntl.h>
extern void _Block_release(const void *);
#include <stdio.h>
#include <stdint.h>
#include <stdlib.h>
#include <string.h>
#include <unistd.h>
#include <pthread.h>
#include <sched.h>
#include <signal.h>
#include <stdatomic.h>
#include <sys/syscall.h>
typedef void (*cb_t)(const volatile void *addr, unsigned size, int op, uint64_t o, uint64_t n, const char *func, int line);
extern cb_t _dispatch_verif_atomic_cb;
extern void (*_dispatch_verif_yield_cb)(const volatile void *addr, const char *func, int line);
extern void _dispatch_verif_object_ref_addrs(void *obj, volatile void **ref, volatile void **xref);
static uint64_t seed; static __thread uint64_t rng; static __thread int mytid;
static inline uint64_t rnd(void){ if(!rng) rng = seed ^ (uint64_t)syscall(SYS_gettid)*0x9e3779b97f4a7c15ull; rng ^= rng<<13; rng ^= rng>>7; rng ^= rng<<17; return rng; }
static atomic_int viol; static char vmsg[300];
static void fail(const char *m, long a, long b, long c){ if(!atomic_exchange(&viol,1)) snprintf(vmsg,sizeof vmsg,"%s %ld %ld %ld",m,a,b,c); }
static atomic_long clk; static long stamp(void){ return atomic_fetch_add(&clk,1)+1; }
// ---- trace of the reference-count words of tracked objects
#define MAXTR 64
static struct { _Atomic(volatile void*) ref, xref; _Atomic int id; } tr[MAXTR];
static atomic_int next_id;
typedef struct { int id, tid, word, op; uint64_t o, n; const char *func; } ev_t;
#define MAXEV (1<<21)
static ev_t *evs; static atomic_ulong nev;
static void track(void *obj){ volatile void *r,*x; _dispatch_verif_object_ref_addrs(obj,&r,&x); int id=atomic_fetch_add(&next_id,1)+1; int s=id%MAXTR;
  atomic_store(&tr[s].id,0); atomic_store(&tr[s].ref,r); atomic_store(&tr[s].xref,x); atomic_store(&tr[s].id,id); }
static int lookup(const volatile void *addr, int *word){ for(int i=0;i<MAXTR;i++){ int id=atomic_load(&tr[i].id); if(!id) continue;
    if(atomic_load(&tr[i].ref)==addr){ *word=0; return id; } if(atomic_load(&tr[i].xref)==addr){ *word=1; return id; } } return 0; }
static void cb(const volatile void *addr, unsigned size, int op, uint64_t o, uint64_t n, const char *func, int line){ (void)line; if(size!=4) return;
  int w; int id=lookup(addr,&w); if(!id) return; if(!mytid) mytid=(int)syscall(SYS_gettid);
  unsigned long k=atomic_fetch_add(&nev,1); if(k>=MAXEV) return; evs[k]=(ev_t){ id, mytid, w, op, o, n, func };
  if(w==0 && op==6 && (int32_t)n<0){ for(int i=0;i<MAXTR;i++) if(atomic_load(&tr[i].id)==id) atomic_store(&tr[i].id,0); } }   // disposed: the words may be re-used
static void ycb(const volatile void *addr, const char *func, int line){ (void)func;(void)line; int w; if(!lookup(addr,&w)) return; uint64_t r=rnd()%8; if(r==0) sched_yield(); else if(r==1) usleep(rnd()%60); }
static void dump(void){ unsigned long n=atomic_load(&nev); if(n>MAXEV) n=MAXEV; for(unsigned long i=0;i<n;i++){ ev_t *e=&evs[i];
  printf("F %d %d %d %d %x %x %s\n",e->id,e->tid,e->word,e->op,(unsigned)e->o,(unsigned)e->n,e->func); } fflush(stdout); }
// ---- one queue level
static char KEY_LEVEL, KEY_SPEC;
struct lvl { dispatch_queue_t q; int has_fin, has_spec; _Atomic int fin_runs, spec_runs; _Atomic long fin_stamp, app_released; _Atomic int pending; _Atomic long last_item_end;
  long ctx_expected; _Atomic long ctx_seen; struct lvl *target; int depth; _Atomic int fin_on_wrong_queue; };
struct ctx { struct lvl *l; long val; };
static void fin(void *c){ struct ctx *x=c; struct lvl *l=x->l; long st=stamp();
  if(atomic_fetch_add(&l->fin_runs,1)) fail("a queue finalizer ran more than once: depth",l->depth,0,0);
  atomic_store(&l->fin_stamp,st); atomic_store(&l->ctx_seen,x->val);
  if(atomic_load(&l->pending)>0) fail("a queue was finalised while items submitted to it were still pending or running: depth/pending",l->depth,atomic_load(&l->pending),0);
  if(!atomic_load(&l->app_released)) fail("a queue was finalised while the application still held its reference: depth",l->depth,0,0);
  // the finalizer runs on the queue's target queue
  if(l->target && dispatch_get_specific(&KEY_LEVEL)!=l->target) atomic_store(&l->fin_on_wrong_queue,1); }
static void spec_dtor(void *c){ struct lvl *l=c; if(atomic_fetch_add(&l->spec_runs,1)) fail("a queue-specific destructor ran more than once: depth",l->depth,0,0);
  if(!atomic_load(&l->app_released)) fail("a queue-specific destructor ran while the application still held the queue: depth",l->depth,0,0); }
struct it { struct lvl *l; int slow; };
static void item(void *c){ struct it *i=c; struct lvl *l=i->l; if(atomic_load(&l->fin_runs)) fail("an item ran on a queue that had already been finalised: depth",l->depth,0,0);
  if(i->slow) usleep(200+rnd()%800); else if(rnd()%4==0) sched_yield();
  dispatch_queue_t cur=l->q; (void)cur; atomic_store(&l->last_item_end,stamp()); atomic_fetch_sub(&l->pending,1); free(i); }
static void submit(struct lvl *l, int slow){ struct it *i=malloc(sizeof *i); i->l=l; i->slow=slow; atomic_fetch_add(&l->pending,1); dispatch_async_f(l->q,i,item); }
static void *bouncer(void *a){ dispatch_queue_t q=a; for(int i=0;i<20;i++){ dispatch_retain(q); if(rnd()%2) sched_yield(); dispatch_release(q); } dispatch_release(q); return 0; }
static long rounds_done;
static void hierarchy(int trace){ int depth=1+(int)(rnd()%3); struct lvl *L=calloc(3,sizeof *L); struct ctx *C=calloc(6,sizeof *C);
  dispatch_queue_t bottom = rnd()%2 ? dispatch_get_global_queue(0,0) : NULL;
  for(int d=depth-1; d>=0; d--){ struct lvl *l=&L[d]; l->depth=d; l->target = d+1<depth ? &L[d+1] : NULL;
    dispatch_queue_t tq = l->target ? l->target->q : bottom;
    l->q=dispatch_queue_create_with_target("lvl", rnd()%2?DISPATCH_QUEUE_SERIAL:DISPATCH_QUEUE_CONCURRENT, tq);
    if(trace) track(l->q);
    dispatch_queue_set_specific(l->q,&KEY_LEVEL,l,NULL);
    l->has_fin = rnd()%3!=0; l->has_spec = rnd()%2;
    if(l->has_fin){ C[2*d].l=l; C[2*d].val=1; dispatch_set_context(l->q,&C[2*d]); dispatch_set_finalizer_f(l->q,fin); l->ctx_expected=1; }
    if(l->has_spec) dispatch_queue_set_specific(l->q,&KEY_SPEC,l,spec_dtor); }
  // inner levels are released by the application early: only the queues targeting them keep them alive
  for(int d=1; d<depth; d++) if(rnd()%2){ atomic_store(&L[d].app_released,stamp()); dispatch_release(L[d].q); }
  int n=(int)(rnd()%12); for(int i=0;i<n;i++) submit(&L[0], rnd()%5==0);
  for(int d=0; d<depth; d++) if(!atomic_load(&L[d].app_released)){ int k=(int)(rnd()%6); for(int i=0;i<k;i++) submit(&L[d], rnd()%6==0); }
  struct lvl *top=&L[0];
  if(rnd()%3==0){ dispatch_suspend(top->q); submit(top,0); if(rnd()%2) usleep(rnd()%200); dispatch_resume(top->q); }
  if(rnd()%3==0){ struct it *i=malloc(sizeof *i); i->l=top; i->slow=0; atomic_fetch_add(&top->pending,1); dispatch_after_f(dispatch_time(DISPATCH_TIME_NOW,(int64_t)(rnd()%3000000)),top->q,i,item); }
  dispatch_source_t tm=NULL; if(rnd()%3==0){ tm=dispatch_source_create(DISPATCH_SOURCE_TYPE_TIMER,0,0,top->q); dispatch_source_set_event_handler(tm,^{});
    dispatch_source_set_timer(tm,dispatch_time(DISPATCH_TIME_NOW,1000000),1000000,0); dispatch_activate(tm); }
  dispatch_group_t g=NULL; if(rnd()%3==0){ g=dispatch_group_create(); struct lvl *l=top; atomic_fetch_add(&l->pending,1); dispatch_group_async(g,top->q,^{ atomic_store(&l->last_item_end,stamp()); atomic_fetch_sub(&l->pending,1); }); }
  // the context may be replaced before the last release: the finalizer must see the one current at that time
  if(top->has_fin && rnd()%2){ C[1].l=top; C[1].val=2; dispatch_set_context(top->q,&C[1]); top->ctx_expected=2; }
  pthread_t b[2]; int nb=(int)(rnd()%3); for(int i=0;i<nb;i++){ dispatch_retain(top->q); pthread_create(&b[i],0,bouncer,top->q); }
  if(rnd()%2) usleep(rnd()%300);
  // last application references, top last or first at random (both legal)
  int order = (int)(rnd()%2);
  for(int k=0;k<depth;k++){ int d = order ? k : depth-1-k; if(atomic_load(&L[d].app_released)) continue;
    if(nb && d==0){ for(int i=0;i<nb;i++) pthread_join(b[i],0); nb=0; }
    atomic_store(&L[d].app_released,stamp()); dispatch_release(L[d].q); }
  for(int i=0;i<nb;i++) pthread_join(b[i],0);
  if(tm){ usleep(2000); dispatch_source_cancel(tm); dispatch_release(tm); }
  if(g){ dispatch_group_wait(g,DISPATCH_TIME_FOREVER); dispatch_release(g); }
  // everything must be finalised eventually
  for(int w=0; w<10000; w++){ int all=1; for(int d=0;d<depth;d++){ if(L[d].has_fin && !atomic_load(&L[d].fin_runs)) all=0; if(L[d].has_spec && !atomic_load(&L[d].spec_runs)) all=0; if(atomic_load(&L[d].pending)) all=0; } if(all||viol) break; usleep(1000); }
  usleep(500);
  for(int d=0;d<depth && !viol;d++){ struct lvl *l=&L[d];
    if(atomic_load(&l->pending)) fail("items submitted to a queue never ran after the application released it: depth/pending",d,atomic_load(&l->pending),0);
    if(l->has_fin && atomic_load(&l->fin_runs)!=1) fail("a queue's finalizer did not run exactly once after its last reference was dropped and its work finished: depth/runs",d,atomic_load(&l->fin_runs),depth);
    if(l->has_spec && atomic_load(&l->spec_runs)!=1) fail("a queue-specific destructor did not run exactly once: depth/runs",d,atomic_load(&l->spec_runs),0);
    if(l->has_fin && atomic_load(&l->ctx_seen)!=l->ctx_expected) fail("the finalizer did not receive the context current at the time: depth/seen/expected",d,atomic_load(&l->ctx_seen),l->ctx_expected);
    if(l->has_fin && atomic_load(&l->fin_stamp) < atomic_load(&l->last_item_end)) fail("a queue's finalizer ran before its last item had finished: depth",d,0,0);
    if(atomic_load(&l->fin_on_wrong_queue)) fail("a queue's finalizer did not run on its target queue: depth",d,0,0);
    if(l->has_fin && l->target && l->target->has_fin && atomic_load(&l->target->fin_stamp) < atomic_load(&l->fin_stamp)) fail("a queue was finalised before a queue that still targeted it: depth of the target",d+1,0,0); }
  rounds_done++; /* L and C are intentionally not freed before the finalizers have run; leak them (small) */ }
// ---- retargeting a busy queue (the change of target is deferred behind the running item) and dropping the new target at once:
// the new target must stay alive from the moment dispatch_set_target_queue returns until the retargeted queue is gone
struct rt { _Atomic int fins; _Atomic long stamp; _Atomic long released; };
static void rt_fin(void *c){ struct rt *r=c; long st=stamp(); if(!atomic_load(&r->stamp)) atomic_store(&r->stamp,st);      // stamped first, announced last: the main thread compares the stamps as soon as both counts are set
  if(atomic_fetch_add(&r->fins,1)) fail("a retarget scenario finalizer ran twice",0,0,0); }
static void retarget_round(int trace){ struct rt *RQ=calloc(1,sizeof *RQ), *RT=calloc(1,sizeof *RT);
  dispatch_queue_t q=dispatch_queue_create("rq", rnd()%2?DISPATCH_QUEUE_SERIAL:DISPATCH_QUEUE_CONCURRENT); dispatch_set_context(q,RQ); dispatch_set_finalizer_f(q,rt_fin);
  dispatch_queue_t tq=dispatch_queue_create("rt", NULL); dispatch_set_context(tq,RT); dispatch_set_finalizer_f(tq,rt_fin);
  if(trace){ track(q); track(tq); }
  __block _Atomic int busy=0, go=0, ran=0; int busy_mode=(int)(rnd()%3);
  if(busy_mode) dispatch_async(q, ^{ atomic_store(&busy,1); for(int w=0; w<20000 && !atomic_load(&go); w++) usleep(50); });
  if(busy_mode) for(int w=0; w<20000 && !atomic_load(&busy); w++) usleep(50);
  dispatch_set_target_queue(q,tq);                       // q is busy: the change is queued behind the running item
  atomic_store(&RT->released,stamp()); dispatch_release(tq);   // the application's only reference to the new target
  if(rnd()%2) usleep(rnd()%500);
  if(atomic_load(&RT->fins)) fail("a queue was finalised while another queue's change of target to it was pending or in effect",0,0,0);
  atomic_store(&go,1);
  for(int i=0;i<4;i++) dispatch_async(q, ^{ if(atomic_load(&RT->fins)) fail("an item ran on a queue whose target had already been finalised",0,0,0); atomic_fetch_add(&ran,1); });
  dispatch_barrier_sync(q, ^{});
  if(atomic_load(&ran)!=4) fail("items submitted after a retarget did not all run: ran",atomic_load(&ran),0,0);
  atomic_store(&RQ->released,stamp()); dispatch_release(q);
  for(int w=0; w<5000 && !(atomic_load(&RQ->fins) && atomic_load(&RT->fins)); w++) usleep(500);
  if(atomic_load(&RQ->fins)!=1 || atomic_load(&RT->fins)!=1) fail("retarget scenario: finalizers did not each run exactly once: queue/target",atomic_load(&RQ->fins),atomic_load(&RT->fins),0);
  else if(atomic_load(&RT->stamp) < atomic_load(&RQ->stamp)) fail("the new target was finalised before the queue retargeted to it",0,0,0); }
// ---- sources and data
static void source_round(void){ dispatch_queue_t q=dispatch_queue_create("sq",NULL); __block _Atomic int fins=0, cancels=0;
  dispatch_source_t s=dispatch_source_create(DISPATCH_SOURCE_TYPE_TIMER,0,0,q);
  _Atomic int *pf=malloc(sizeof *pf); atomic_store(pf,0); dispatch_set_context(s,pf);
  dispatch_set_finalizer_f(s,(dispatch_function_t)free);   // finalizer frees the context: a double run is a double free (ASan), a missing one a leak
  dispatch_source_set_event_handler(s,^{ (void)fins; }); dispatch_source_set_cancel_handler(s,^{ atomic_fetch_add(&cancels,1); });
  dispatch_source_set_timer(s,dispatch_time(DISPATCH_TIME_NOW,(int64_t)(rnd()%2000000)),500000,0); dispatch_activate(s);
  if(rnd()%2) usleep(rnd()%2000); dispatch_source_cancel(s); dispatch_release(s); dispatch_release(q);
  for(int w=0; w<5000 && !atomic_load(&cancels); w++) usleep(200);
  if(atomic_load(&cancels)!=1) fail("a released source's cancel handler did not run exactly once: runs",atomic_load(&cancels),0,0); }
// a timer source re-programmed onto another clock while it is armed (it moves to another timer heap; the heap's references move
// with it), then left to fire / cancelled: never finalised while the application holds its reference, finalised exactly once after
struct trc { _Atomic int fins, held, fired; };
static void trc_fin(void *c){ struct trc *x=c; if(atomic_fetch_add(&x->fins,1)) fail("a timer source's finalizer ran more than once (re-clocked timer)",0,0,0);
  if(atomic_load(&x->held)) fail("a timer source was finalised while the application still held its reference (re-programmed onto another clock while armed): fired",atomic_load(&x->fired),0,0); }
static dispatch_time_t on_clock(int k, int64_t ns){ return k==0 ? dispatch_time(DISPATCH_TIME_NOW,ns) : k==1 ? dispatch_walltime(NULL,ns) : dispatch_time(0x8000000000000000ull /* DISPATCH_MONOTONICTIME_NOW */,ns); }
static void timer_reclock_round(void){ struct trc *x=calloc(1,sizeof *x); dispatch_queue_t q=dispatch_queue_create("tq",NULL);
  dispatch_source_t s=dispatch_source_create(DISPATCH_SOURCE_TYPE_TIMER,0,0,q); dispatch_set_context(s,x); dispatch_set_finalizer_f(s,trc_fin); atomic_store(&x->held,1);
  dispatch_source_set_event_handler(s,^{ atomic_fetch_add(&x->fired,1); });
  int k0=(int)(rnd()%3), oneshot=(int)(rnd()%2); uint64_t iv=oneshot?DISPATCH_TIME_FOREVER:(uint64_t)(300000+rnd()%700000);
  dispatch_source_set_timer(s,on_clock(k0,(int64_t)(20000000+rnd()%30000000)),iv,0); dispatch_activate(s);
  if(rnd()%2) usleep(rnd()%500);
  int hops=1+(int)(rnd()%3), k=k0; for(int h=0;h<hops;h++){ k=(k+1+(int)(rnd()%2))%3; dispatch_source_set_timer(s,on_clock(k,(int64_t)(500000+rnd()%1500000)),iv,0); if(rnd()%2) usleep(rnd()%300); }
  for(int w=0; w<3000 && !atomic_load(&x->fired); w++) usleep(500);
  usleep(1500);
  if(!atomic_load(&x->fired)) fail("a re-clocked timer never fired: first clock/last clock",k0,k,0);
  if(atomic_load(&x->fins)) fail("a timer source was finalised while the application still held its reference: fired/finalizer runs",atomic_load(&x->fired),atomic_load(&x->fins),0);
  atomic_store(&x->held,0); dispatch_source_cancel(s); dispatch_release(s); dispatch_release(q);
  for(int w=0; w<5000 && !atomic_load(&x->fins); w++) usleep(200);
  if(atomic_load(&x->fins)!=1) fail("a cancelled and released timer source was not finalised exactly once: runs",atomic_load(&x->fins),0,0); }
// suspension takes and gives back internal references: after nests that use the side suspend count (64 and more), or a suspension
// of a still inactive queue, the balance must be exact - the queue is finalised once after the last release, not never
struct sq { _Atomic int fins; };
static void sq_fin(void *c){ struct sq *x=c; atomic_fetch_add(&x->fins,1); }
static void suspend_round(void){ struct sq *x=calloc(1,sizeof *x); int variant=(int)(rnd()%3);
  dispatch_queue_attr_t a = variant==2 ? dispatch_queue_attr_make_initially_inactive(DISPATCH_QUEUE_SERIAL) : (rnd()%2?DISPATCH_QUEUE_CONCURRENT:DISPATCH_QUEUE_SERIAL);
  dispatch_queue_t q=dispatch_queue_create("sq",a); dispatch_set_context(q,x); dispatch_set_finalizer_f(q,sq_fin);
  if(variant==2){ dispatch_suspend(q); dispatch_resume(q); dispatch_activate(q); }
  else { int deep=64+(int)(rnd()%70), back=32+(int)(rnd()%(unsigned)(deep-32)), more=1+(int)(rnd()%3);
    for(int i=0;i<deep;i++) dispatch_suspend(q); for(int i=0;i<back;i++) dispatch_resume(q);      // inline count low or 0, side count in use
    for(int i=0;i<more;i++) dispatch_suspend(q); for(int i=0;i<deep-back+more;i++) dispatch_resume(q); }
  __block _Atomic int ran=0; dispatch_async(q,^{ atomic_store(&ran,1); }); for(int w=0; w<5000 && !atomic_load(&ran); w++) usleep(200);
  if(!atomic_load(&ran)) fail("an item did not run after balanced suspensions: variant",variant,0,0);
  dispatch_release(q);
  for(int w=0; w<25000 && !atomic_load(&x->fins); w++) usleep(200);
  if(atomic_load(&x->fins)!=1) fail("a queue was not finalised exactly once within 5 s of its last release after balanced suspensions (0 deep nest through the side count, 2 suspended while inactive): variant/finalizer runs",variant,atomic_load(&x->fins),0); }
static void data_round(void){ enum { N=5 }; _Atomic int *d=calloc(N,sizeof *d); dispatch_queue_t dq=dispatch_get_global_queue(0,0); dispatch_data_t leaf[N];
  for(int i=0;i<N;i++){ size_t sz=64+rnd()%4096; void *buf=malloc(sz); memset(buf,i,sz); leaf[i]=dispatch_data_create(buf,sz,dq,^{ if(atomic_fetch_add(&d[i],1)) fail("a data destructor ran more than once: leaf",i,0,0); free(buf); }); }
  dispatch_data_t objs[16]; int no=0;
  int used[N]; memset(used,0,sizeof used);
  for(int k=0;k<8;k++){ int a=(int)(rnd()%N), b=(int)(rnd()%N); dispatch_data_t c=dispatch_data_create_concat(leaf[a],leaf[b]); objs[no++]=c; used[a]=used[b]=1;
    if(rnd()%2){ size_t sz=dispatch_data_get_size(c); objs[no++]=dispatch_data_create_subrange(c, rnd()%sz, 1+rnd()%sz); } }
  for(int i=0;i<N;i++){ for(int j=i;j<N;j++) if(atomic_load(&d[j])) fail("a data destructor ran while the application still held its data object: leaf",j,0,0); dispatch_release(leaf[i]); }
  usleep(300); for(int j=0;j<N;j++) if(used[j] && atomic_load(&d[j])) fail("a data destructor ran while a concatenation made of its data object was still referenced: leaf",j,0,0);
  // composite objects still reference the leaves they were made of
  while(no>0){ int k=(int)(rnd()%(uint64_t)no); const void *p; size_t sz; dispatch_data_t m=dispatch_data_create_map(objs[k],&p,&sz); if(sz) (void)*(volatile const char*)p; dispatch_release(m);
    dispatch_release(objs[k]); objs[k]=objs[--no]; }
  for(int w=0; w<5000; w++){ int all=1; for(int j=0;j<N;j++) if(!atomic_load(&d[j])) all=0; if(all) break; usleep(200); }
  for(int j=0;j<N && !viol;j++) if(atomic_load(&d[j])!=1) fail("a data destructor did not run exactly once after the last reference to its data was dropped: leaf/runs",j,atomic_load(&d[j]),0); }
// a group with several notifications pending when it becomes empty (the notification list owns ONE reference of the group, whatever its
// length), several times over; the application's reference outlives them; then the last release
static void group_round(void){ struct sq *x=calloc(1,sizeof *x); dispatch_group_t g=dispatch_group_create(); dispatch_set_context(g,x); dispatch_set_finalizer_f(g,sq_fin);
  dispatch_queue_t q1=dispatch_queue_create("gq",NULL), q2=dispatch_get_global_queue(0,0); __block _Atomic int ran=0; int total=0;
  for(int cycle=0; cycle<2 && !viol; cycle++){ int n=1+(int)(rnd()%4), enters=1+(int)(rnd()%3); total+=n;
    for(int i=0;i<enters;i++) dispatch_group_enter(g);
    for(int i=0;i<n;i++) dispatch_group_notify(g, rnd()%2?q1:q2, ^{ atomic_fetch_add(&ran,1); });
    if(atomic_load(&ran)!=total-n) fail("a group notification ran while the group was not empty: ran/expected",atomic_load(&ran),total-n,0);
    for(int i=0;i<enters;i++) dispatch_group_leave(g);
    for(int w=0; w<25000 && atomic_load(&ran)<total; w++) usleep(200);
    if(atomic_load(&ran)!=total) fail("the notifications of a group that became empty did not each run exactly once within 5 s: pending / ran in total / expected in total",n,atomic_load(&ran),total);
    usleep(200);
    if(atomic_load(&x->fins)) fail("a group was finalised while the application still held its reference (several notifications were pending when it became empty): notifications/finalizer runs",n,atomic_load(&x->fins),0); }
  dispatch_release(g); dispatch_release(q1);
  for(int w=0; w<25000 && !atomic_load(&x->fins); w++) usleep(200);
  if(!viol && atomic_load(&x->fins)!=1) fail("a group was not finalised exactly once within 5 s of its last release: finalizer runs",atomic_load(&x->fins),0,0);
  // the same through a block object's private group: two or three notifications on one block object
  if(!viol){ __block _Atomic int body=0, nn=0; dispatch_block_t b=dispatch_block_create(0,^{ atomic_fetch_add(&body,1); }); int n=2+(int)(rnd()%2);
    for(int i=0;i<n;i++) dispatch_block_notify(b,q2,^{ atomic_fetch_add(&nn,1); });
    dispatch_async(q2,b); for(int w=0; w<25000 && atomic_load(&nn)<n; w++) usleep(200);
    if(atomic_load(&nn)!=n || atomic_load(&body)!=1) fail("the notifications of a block object did not each run exactly once after its execution (5 s): expected/ran/body runs",n,atomic_load(&nn),atomic_load(&body));
    if(!viol && dispatch_block_wait(b,dispatch_time(DISPATCH_TIME_NOW,1000000000ll))) fail("dispatch_block_wait on a completed block object with several notifications timed out",n,0,0);
    _Block_release(b); } }
// an I/O channel's target queue replaced while a barrier is pending behind another barrier: the pending barrier was given the old target
// queue when it was scheduled; the channel's reference to it is dropped by the change, the application's was dropped before. The old
// queue must stay alive until that barrier has run (F46), and is finalised exactly once afterwards.
static void iobarrier_round(void){ int fd=open("/dev/null",O_WRONLY); if(fd<0) return; struct sq *x=calloc(1,sizeof *x);
  dispatch_io_t ch=dispatch_io_create(DISPATCH_IO_STREAM,fd,dispatch_get_global_queue(0,0),^(int e){ (void)e; close(fd); }); if(!ch){ close(fd); return; }
  dispatch_queue_t t0=dispatch_queue_create("iob.t0",NULL); dispatch_set_target_queue(ch,t0);
  __block _Atomic int b1_in=0, b1_go=0, b2_ran=0, fin_at_b2=-1;
  dispatch_io_barrier(ch,^{ atomic_store(&b1_in,1); for(int w=0; w<20000 && !atomic_load(&b1_go); w++) usleep(100); });
  for(int w=0; w<30000 && !atomic_load(&b1_in); w++) usleep(100);
  dispatch_queue_t t1=dispatch_queue_create("iob.t1",NULL); dispatch_set_context(t1,x); dispatch_set_finalizer_f(t1,sq_fin);
  dispatch_set_target_queue(ch,t1); dispatch_release(t1);                       // the channel owns t1 now
  dispatch_io_barrier(ch,^{ atomic_store(&fin_at_b2,atomic_load(&x->fins)); atomic_store(&b2_ran,1); });      // scheduled while the channel targets t1
  usleep((useconds_t)(2000+rnd()%3000));                                        // ... and sits behind the first barrier
  dispatch_set_target_queue(ch,t0);                                             // the channel lets go of t1
  usleep((useconds_t)(2000+rnd()%3000));
  if(atomic_load(&x->fins) && !atomic_load(&b2_ran)) fail("the target queue an I/O barrier was scheduled with was finalised while that barrier was still pending (the channel had been given another target queue)",0,0,0);
  atomic_store(&b1_go,1);
  for(int w=0; w<30000 && !atomic_load(&b2_ran); w++) usleep(100);
  if(!atomic_load(&b2_ran)) fail("an I/O barrier scheduled behind another one never ran (3 s) after the channel's target queue had been replaced",0,0,0);
  else if(atomic_load(&fin_at_b2)>0) fail("an I/O barrier ran on a target queue that had already been finalised",0,0,0);
  dispatch_io_close(ch,0); dispatch_release(ch); dispatch_release(t0);
  for(int w=0; w<25000 && !atomic_load(&x->fins); w++) usleep(200);
  if(!viol && atomic_load(&x->fins)!=1) fail("the replaced target queue of an I/O channel was not finalised exactly once within 5 s: finalizer runs",atomic_load(&x->fins),0,0); }
// the FIRST queue-specific values of a fresh queue installed by several threads at the same moment (the list head is allocated and
// published by whoever comes first; the others throw theirs away): every value is found afterwards, and every destructor runs exactly
// once when the queue goes away
struct spr { dispatch_queue_t q; pthread_barrier_t bar; _Atomic int dtor[4]; };
static struct spr *spr_cur[64]; static char spr_keys[4];
static void spr_d0(void *c){ struct spr *x=c; atomic_fetch_add(&x->dtor[0],1); } static void spr_d1(void *c){ struct spr *x=c; atomic_fetch_add(&x->dtor[1],1); }
static void spr_d2(void *c){ struct spr *x=c; atomic_fetch_add(&x->dtor[2],1); } static void spr_d3(void *c){ struct spr *x=c; atomic_fetch_add(&x->dtor[3],1); }
struct spa { struct spr *x; int k; };
static void *spr_thread(void *a){ struct spa *p=a; static dispatch_function_t D[4]={spr_d0,spr_d1,spr_d2,spr_d3}; pthread_barrier_wait(&p->x->bar); dispatch_queue_set_specific(p->x->q,&spr_keys[p->k],p->x,D[p->k]); return 0; }
static void specific_race_round(void){ for(int rep=0; rep<6 && !viol; rep++){ struct spr *x=calloc(1,sizeof *x); int n=2+(int)(rnd()%3); x->q=dispatch_queue_create("spr",rnd()%2?DISPATCH_QUEUE_CONCURRENT:NULL);
    pthread_barrier_init(&x->bar,NULL,(unsigned)n); pthread_t t[4]; struct spa pa[4]; for(int k=0;k<n;k++){ pa[k].x=x; pa[k].k=k; pthread_create(&t[k],0,spr_thread,&pa[k]); } for(int k=0;k<n;k++) pthread_join(t[k],0);
    for(int k=0;k<n;k++) if(dispatch_queue_get_specific(x->q,&spr_keys[k])!=x) fail("a queue-specific value installed on a fresh queue at the same moment as others was lost: key / threads",k,n,0);
    for(int k=0;k<n;k++) if(atomic_load(&x->dtor[k])) fail("a queue-specific destructor ran while the value was still installed: key",k,0,0);
    dispatch_release(x->q);
    for(int w=0; w<25000; w++){ int all=1; for(int k=0;k<n;k++) if(!atomic_load(&x->dtor[k])) all=0; if(all) break; usleep(200); }
    for(int k=0;k<n && !viol;k++) if(atomic_load(&x->dtor[k])!=1) fail("a queue-specific destructor did not run exactly once after the queue's last release (the value had been installed at the same moment as the queue's first other values): key / runs / threads",k,atomic_load(&x->dtor[k]),n);
    pthread_barrier_destroy(&x->bar); } }
// dispatch_write / dispatch_read on a descriptor that is not open: the handler is called once with the error, the data object handed to
// dispatch_write is reported back as unwritten and is released - its destructor runs exactly once (F47: it never ran)
static void badfd_round(void){ int bad=2147483000+(int)(rnd()%600);      // a descriptor number that cannot be open (a just-closed one could be re-used by another thread of this program)
  _Atomic int *dt=calloc(1,sizeof *dt); __block _Atomic int calls=0, err=0; __block _Atomic long unw=-1; size_t sz=64+rnd()%4000; void *buf=malloc(sz);
  dispatch_data_t d=dispatch_data_create(buf,sz,dispatch_get_global_queue(0,0),^{ atomic_fetch_add(dt,1); free(buf); });
  dispatch_write(bad,d,dispatch_get_global_queue(0,0),^(dispatch_data_t rest,int e){ atomic_store(&unw,rest?(long)dispatch_data_get_size(rest):0); atomic_store(&err,e); atomic_fetch_add(&calls,1); });
  dispatch_release(d);
  for(int w=0; w<25000 && !(atomic_load(&calls) && atomic_load(dt)); w++) usleep(200);
  if(atomic_load(&calls)!=1 || !atomic_load(&err)) fail("dispatch_write on a descriptor that is not open did not call its handler exactly once with an error (5 s): calls / error",atomic_load(&calls),atomic_load(&err),0);
  else if(atomic_load(&unw)!=(long)sz) fail("dispatch_write on a descriptor that is not open did not report its data as unwritten: reported / submitted",atomic_load(&unw),(long)sz,0);
  else if(atomic_load(dt)!=1) fail("the destructor of a data object handed to dispatch_write on a descriptor that is not open did not run exactly once after the application's release (5 s): runs",atomic_load(dt),0,0); }
// the last reference of a source that was NOT cancelled is dropped (from outside its handlers, nothing else pending on it): the library
// tears the source down by itself - its finalizer runs exactly once, on its target queue, and then the target queue (which only the
// source kept alive) is finalised as well
struct usr { _Atomic int sfin, qfin, sfin_on_q; dispatch_queue_t q; }; static char usr_key;
static void usr_sfin(void *c){ struct usr *x=c; if(dispatch_get_specific(&usr_key)==x) atomic_store(&x->sfin_on_q,1); if(atomic_fetch_add(&x->sfin,1)) fail("the finalizer of an uncancelled, released source ran more than once",0,0,0); }
static void usr_qfin(void *c){ struct usr *x=c; if(!atomic_load(&x->sfin)) fail("the target queue of a released source was finalised before the source",0,0,0); atomic_fetch_add(&x->qfin,1); }
static void uncancelled_release_round(void){ for(int kind=0; kind<3 && !viol; kind++){ struct usr *x=calloc(1,sizeof *x); int p[2]; if(pipe(p)){}
    dispatch_queue_t q=dispatch_queue_create("usr.q",NULL); dispatch_set_context(q,x); dispatch_set_finalizer_f(q,usr_qfin); dispatch_queue_set_specific(q,&usr_key,x,NULL);
    dispatch_source_t s = kind==0 ? dispatch_source_create(DISPATCH_SOURCE_TYPE_DATA_ADD,0,0,q) : kind==1 ? dispatch_source_create(DISPATCH_SOURCE_TYPE_TIMER,0,0,q) : dispatch_source_create(DISPATCH_SOURCE_TYPE_READ,(uintptr_t)p[0],0,q);
    if(kind==1) dispatch_source_set_timer(s,dispatch_time(DISPATCH_TIME_NOW,3600ll*1000000000ll),DISPATCH_TIME_FOREVER,0);
    dispatch_set_context(s,x); dispatch_set_finalizer_f(s,usr_sfin); dispatch_source_set_event_handler(s,^{ });
    dispatch_activate(s); if(rnd()%2) usleep(rnd()%3000);
    dispatch_release(s); dispatch_release(q);
    for(int w=0; w<25000 && !(atomic_load(&x->sfin) && atomic_load(&x->qfin)); w++) usleep(200);
    if(atomic_load(&x->sfin)!=1) fail("an activated source released without having been cancelled was not finalised exactly once within 5 s: kind (0 data, 1 timer, 2 read) / finalizer runs",kind,atomic_load(&x->sfin),0);
    else if(!atomic_load(&x->sfin_on_q)) fail("the finalizer of a released source did not run on its target queue: kind",kind,0,0);
    else if(atomic_load(&x->qfin)!=1) fail("the target queue of a released source was not finalised once the source was gone (5 s): kind / runs",kind,atomic_load(&x->qfin),0);
    close(p[0]); close(p[1]); } }
static int nrounds, do_trace;
static void *worker(void *a){ long me=(long)a; for(int r=0;r<nrounds && !viol;r++){ hierarchy(do_trace && me==0); if(r%4==0) source_round(); if(r%5==1) timer_reclock_round(); if(r%4==2) suspend_round(); if(r%3==0) data_round(); if(r%3==1) group_round(); if(r%4==3) iobarrier_round(); if(r%2==1) specific_race_round(); if(r%3==2) badfd_round(); if(r%3==0) uncancelled_release_round(); if(r%2==0) retarget_round(do_trace && me==0); } return 0; }
static void on_crash(int sig){ char b[220]; int n=snprintf(b,sizeof b,"ORACLE VIOL seed=%llu the library trapped or crashed (signal %d) during object life cycles (its own over-release / resurrection / corrupt-state check, or a use after free)\n",(unsigned long long)seed,sig); if(n>0) (void)!write(1,b,(size_t)n); _exit(1); }
int main(int argc,char**argv){ seed=argc>1?strtoull(argv[1],0,0):1; nrounds=argc>2?atoi(argv[2]):60; int nthr=argc>3?atoi(argv[3]):3; do_trace=1;
  signal(SIGPIPE,SIG_IGN);
  if(!getenv("ASAN_OPTIONS")){ signal(SIGILL,on_crash); signal(SIGSEGV,on_crash); signal(SIGABRT,on_crash); signal(SIGBUS,on_crash); }
  evs=calloc(MAXEV,sizeof(ev_t)); _dispatch_verif_yield_cb=ycb; _dispatch_verif_atomic_cb=cb;
  pthread_t th[16]; for(long i=0;i<nthr;i++) pthread_create(&th[i],0,worker,(void*)i);
  for(int i=0;i<nthr;i++) pthread_join(th[i],0);
  usleep(20000); _dispatch_verif_atomic_cb=0; _dispatch_verif_yield_cb=0;
  if(viol) printf("ORACLE VIOL seed=%llu %s\n",(unsigned long long)seed,vmsg); else printf("ORACLE ok items=%ld\n",(long)nrounds*nthr);
  dump(); return viol?1:0; }
