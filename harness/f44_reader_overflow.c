// Forced history for finding F44 (C04): more simultaneous dispatch_sync readers on one concurrent queue than the reader count in
// dq_state can hold. The queue is first held by a barrier item; N threads call dispatch_sync (they queue up behind the barrier); the
// barrier ends and the drainer lets every waiter in (synchronous readers are not limited by the queue's width), each adding one
// interval to the width field: with N >= 8190 the count carries into the IN_BARRIER bit. When readers leave, the borrow clears the bit
// and the leaving reader completes a barrier that never was: a waiting dispatch_barrier_sync runs while readers are still inside.
// output: "ORACLE VIOL F44 ..." (exit 1) when the barrier item saw readers inside, "ORACLE ok ..." otherwise; exit 2 when the N threads
// could not be created.
// usage: f44_reader_overflow [N]      (default 8200; a control with N well below 8190 must pass)
#define _GNU_SOURCE
#include <dispatch/dispatch.h>
#include <pthread.h>
#include <stdatomic.h>
#include <stdio.h>
#include <stdlib.h>
#include <unistd.h>
static dispatch_queue_t C; static atomic_int gate, release_readers, readers_in, entered, writer_saw=-1, writer_done;
static void blocker(void *c){ (void)c; while(!atomic_load(&gate)) usleep(1000); }
static void reader(void *c){ (void)c; atomic_fetch_add(&readers_in,1); atomic_fetch_add(&entered,1); while(!atomic_load(&release_readers)) usleep(2000); atomic_fetch_sub(&readers_in,1); }
static void *rthread(void *a){ (void)a; dispatch_sync_f(C,NULL,reader); return 0; }
static void writer(void *c){ (void)c; atomic_store(&writer_saw,atomic_load(&readers_in)); }
static void *wthread(void *a){ (void)a; dispatch_barrier_sync_f(C,NULL,writer); atomic_store(&writer_done,1); return 0; }
int main(int argc,char**argv){ int N=argc>1?atoi(argv[1]):8200; C=dispatch_queue_create("f44.c",DISPATCH_QUEUE_CONCURRENT);
  pthread_attr_t at; pthread_attr_init(&at); pthread_attr_setstacksize(&at,64*1024); pthread_t *th=calloc((size_t)N+1,sizeof *th);
  dispatch_barrier_async_f(C,NULL,blocker); usleep(20000);
  for(int i=0;i<N;i++) if(pthread_create(&th[i],&at,rthread,0)){ printf("ORACLE skip thread %d of %d could not be created\n",i,N); atomic_store(&gate,1); atomic_store(&release_readers,1); return 2; }
  usleep(300000);                                   // all N queued behind the barrier item
  atomic_store(&gate,1);                            // the barrier item ends: the drainer lets the readers in
  for(int w=0; w<30000 && atomic_load(&entered)<N; w++) usleep(1000);
  int in=atomic_load(&entered);
  pthread_create(&th[N],&at,wthread,0); usleep(200000);         // a barrier item now waits for the readers
  atomic_store(&release_readers,1);                 // the readers leave, a few at a time
  for(int w=0; w<30000 && !atomic_load(&writer_done); w++) usleep(1000);
  for(int i=0;i<=N;i++) pthread_join(th[i],0);
  int saw=atomic_load(&writer_saw);
  if(saw>0){ printf("ORACLE VIOL F44 a barrier item of a concurrent queue ran while %d dispatch_sync readers were still inside it: %d threads were inside the queue at once (of %d), more than the reader count in dq_state can hold\n",saw,in,N); return 1; }
  printf("ORACLE ok %d dispatch_sync readers inside one concurrent queue at once, the barrier item ran with none inside\n",in); return 0; }
