// C19 / C17 oracle: dispatch_block_wait racing with the SUBMISSION of the same block object from another thread. A waiter polls
// dispatch_block_wait(b, DISPATCH_TIME_NOW) (a wait that times out does not count as the one wait a block object allows) from the
// moment the block object exists, while the submitting thread hands it to a queue through one of the submission APIs; the thread
// that has just recorded the queue in the block object (for the waiter's priority boost) is delayed for a moment now and then (a
// preemption; through the atomic hook). Also a finite wait that times out, then a second wait.
// Oracle: the wait returns zero only after the body has run (or was skipped: not used here), every body runs exactly once, nothing
// traps; the queue the blocks went through is finalised exactly once after its last release - not earlier (a reference dropped
// twice) and not never (a reference the waiter took out of the block object and never gave back).
// usage: c19_waitrace <seed> <rounds>
#define _GNU_SOURCE
#include <dispatch/dispatch.h>
extern void _Block_release(const void *);
#include <stdio.h>
#include <stdint.h>
#include <stdlib.h>
#include <string.h>
#include <unistd.h>
#include <signal.h>
#include <pthread.h>
#include <stdatomic.h>
#include <sys/syscall.h>
typedef void (*cb_t)(const volatile void *addr, unsigned size, int op, uint64_t o, uint64_t n, const char *func, int line);
extern cb_t _dispatch_verif_atomic_cb;
extern void dispatch_async_and_wait(dispatch_queue_t, dispatch_block_t);
static uint64_t seed; static __thread uint64_t rng;
static inline uint64_t rnd(void){ if(!rng) rng = seed ^ (uint64_t)syscall(SYS_gettid)*0x9e3779b97f4a7c15ull; rng ^= rng<<13; rng ^= rng>>7; rng ^= rng<<17; return rng; }
static atomic_int viol; static char vmsg[300];
static void fail(const char *m, long a, long b, long c){ if(!atomic_exchange(&viol,1)) snprintf(vmsg,sizeof vmsg,"%s %ld %ld %ld",m,a,b,c); }
static atomic_long holds;
static void cb(const volatile void *addr, unsigned size, int op, uint64_t o, uint64_t n, const char *func, int line){ (void)addr;(void)o;(void)n;(void)line;
  if(op!=3 || size!=8) return;
  if(strcmp(func,"_dispatch_continuation_init_slow") && strcmp(func,"_dispatch_sync_block_with_privdata") && strcmp(func,"_dispatch_async_and_wait_block_with_privdata")) return;
  if(rnd()%2){ atomic_fetch_add(&holds,1); usleep((useconds_t)(20+rnd()%150)); } }
static void on_crash(int sig){ char b[200]; int n=snprintf(b,sizeof b,"ORACLE VIOL seed=%llu the library trapped or crashed (signal %d) while dispatch_block_wait raced with the submission of the block object (its over-release / resurrection check, or a use after free)\n",(unsigned long long)seed,sig); if(n>0) (void)!write(1,b,(size_t)n); _exit(1); }
struct rd { dispatch_queue_t q; _Atomic(dispatch_block_t) b; _Atomic int ran, w_done, stop, fin; _Atomic long polls, zero_early; };
static void fin(void *c){ struct rd *r=c; if(atomic_fetch_add(&r->fin,1)) fail("the finalizer of a queue ran twice",0,0,0); }
static void *waiter(void *a){ struct rd *r=a;
  while(!atomic_load(&r->stop)){ dispatch_block_t b=atomic_load(&r->b); if(!b){ sched_yield(); continue; }
    int kind=(int)(rnd()%4);
    if(kind==0){ // a finite wait that may time out, then polling
      long rc=dispatch_block_wait(b,dispatch_time(DISPATCH_TIME_NOW,(int64_t)(rnd()%200000)));
      if(rc==0){ if(!atomic_load(&r->ran)) atomic_fetch_add(&r->zero_early,1); goto done; } }
    for(;;){ long rc=dispatch_block_wait(b,DISPATCH_TIME_NOW); atomic_fetch_add(&r->polls,1);
      if(rc==0){ if(!atomic_load(&r->ran)) atomic_fetch_add(&r->zero_early,1); break; }
      if(rnd()%8==0) sched_yield(); }
  done: atomic_store(&r->b,NULL); atomic_store(&r->w_done,1); }
  return 0; }
static long round_(int id){ struct rd *r=calloc(1,sizeof *r); int shape=(int)(rnd()%4);
  dispatch_queue_t t = shape==3 ? dispatch_queue_create("wr.t",NULL) : NULL;
  r->q = shape==1 ? dispatch_queue_create("wr.c",DISPATCH_QUEUE_CONCURRENT) : (shape==3 ? dispatch_queue_create_with_target("wr.q",NULL,t) : dispatch_queue_create("wr.s",NULL));
  dispatch_set_context(r->q,r); dispatch_set_finalizer_f(r->q,fin);
  dispatch_group_t g=dispatch_group_create();
  pthread_t w; pthread_create(&w,0,waiter,r); int n=20+(int)(rnd()%30);
  for(int i=0;i<n && !viol;i++){ atomic_store(&r->ran,0); atomic_store(&r->w_done,0);
    dispatch_block_t b=dispatch_block_create(0,^{ if(rnd()%4==0) usleep(rnd()%200); atomic_fetch_add(&r->ran,1); });
    atomic_store(&r->b,b);                                  // the waiter may begin before the submission
    if(rnd()%3==0) usleep(rnd()%60);
    switch((int)(rnd()%6)){ case 0: dispatch_async(r->q,b); break; case 1: dispatch_sync(r->q,b); break; case 2: dispatch_barrier_async(r->q,b); break;
      case 3: dispatch_group_async(g,r->q,b); break; case 4: dispatch_async_and_wait(r->q,b); break; default: dispatch_barrier_sync(r->q,b); break; }
    for(int k=0; k<200000 && !atomic_load(&r->w_done); k++) usleep(50);
    if(!atomic_load(&r->w_done)){ fail("dispatch_block_wait polled with a zero timeout never reported the completion of a block that was submitted (10 s): round/block",id,i,0); break; }
    if(atomic_load(&r->ran)!=1) fail("the body of a block object submitted once did not run exactly once: round/block/runs",id,i,atomic_load(&r->ran));
    _Block_release(b); }
  atomic_store(&r->stop,1); pthread_join(w,0);
  if(atomic_load(&r->zero_early)) fail("dispatch_block_wait returned zero before the block's execution had completed: round/times",id,atomic_load(&r->zero_early),0);
  dispatch_group_wait(g,DISPATCH_TIME_FOREVER); dispatch_release(g);
  if(!viol){ if(atomic_load(&r->fin)) fail("a queue was finalised while the application still held its reference (a reference was dropped twice): round",id,0,0);
    dispatch_barrier_sync(r->q,^{}); dispatch_release(r->q); if(t) dispatch_release(t);
    for(int k=0; k<5000 && !atomic_load(&r->fin); k++) usleep(1000);
    if(!atomic_load(&r->fin)) fail("the finalizer of a queue did not run within 5 s of its last release after block objects submitted to it had been waited for with a zero timeout (a reference taken out of the block object was never given back): round/shape",id,shape,0); }
  long p=atomic_load(&r->polls); return n + (p>0); }
int main(int argc,char**argv){ seed=argc>1?strtoull(argv[1],0,0):1; int rounds=argc>2?atoi(argv[2]):20;
  signal(SIGILL,on_crash); signal(SIGSEGV,on_crash); signal(SIGABRT,on_crash); signal(SIGBUS,on_crash);
  _dispatch_verif_atomic_cb=cb; long n=0; for(int r=0;r<rounds && !viol;r++) n+=round_(r); _dispatch_verif_atomic_cb=0;
  if(viol){ printf("ORACLE VIOL seed=%llu %s\n",(unsigned long long)seed,vmsg); return 1; }
  printf("ORACLE ok items=%ld holds=%ld\n",n,atomic_load(&holds)); return 0; }
