// C02 oracle for serial queues that are the target of a queue whose target is being changed. q is a serial queue from
// dispatch_queue_create() (its target may be changed while it is active: the change runs as a barrier item of q); one thread moves
// q between the serial queues t[0] and t[1] with dispatch_set_target_queue(); two threads submit to q (dispatch_sync,
// dispatch_async_and_wait, dispatch_async), the others submit directly to t[0] and t[1]. An item of q learns which target it runs
// under from a queue-specific value. A thread that has just released q on its way out of a synchronous item is delayed for a moment
// now and then (a preemption; through the atomic hook), which gives the pending target change time to run.
// Oracle: items submitted to t[i] (directly, or through q while it targets t[i]) never overlap; items of q never overlap; every
// synchronous call returns after its item has run; every asynchronous item runs; no call hangs (5 s without progress).
// With a fourth argument of 1 the global queue is a third target (q then runs on its own, under no serial target): a thread about to
// wait for q may have read q's role in the hierarchy just before the change and q's target just after it.
// usage: c02_retarget <seed> <threads> <milliseconds> [<with global queue>]
#define _GNU_SOURCE
#include <dispatch/dispatch.h>
#include <stdio.h>
#include <stdint.h>
#include <stdlib.h>
#include <string.h>
#include <unistd.h>
#include <pthread.h>
#include <signal.h>
#include <stdatomic.h>
#include <sys/syscall.h>
typedef void (*cb_t)(const volatile void *addr, unsigned size, int op, uint64_t o, uint64_t n, const char *func, int line);
extern cb_t _dispatch_verif_atomic_cb;
extern volatile void *_dispatch_verif_queue_state_addr(dispatch_queue_t dq);
extern void dispatch_async_and_wait_f(dispatch_queue_t, void *, dispatch_function_t);
static uint64_t seed; static __thread uint64_t rng; static __thread int is_client;
static inline uint64_t rnd(void){ if(!rng) rng = seed ^ (uint64_t)syscall(SYS_gettid)*0x9e3779b97f4a7c15ull; rng ^= rng<<13; rng ^= rng>>7; rng ^= rng<<17; return rng; }
static atomic_int viol; static char vmsg[300];
static void fail(const char *m, long a, long b, long c){ if(!atomic_exchange(&viol,1)) snprintf(vmsg,sizeof vmsg,"%s %ld %ld %ld",m,a,b,c); }
static dispatch_queue_t q, t[3]; static int with_root; static char key; static volatile void *QS;
static atomic_int in_q, in_t[2], stop, thr_done; static atomic_long n_items, async_out, flips, holds, progress;
extern void (*_dispatch_verif_yield_cb)(const volatile void *addr, const char *func, int line);
// a waiter has read q's role in the hierarchy and is about to take q's side lock to read q's target: now and then it is delayed there
static void ycb(const volatile void *addr, const char *func, int line){ (void)addr;(void)line; if(!is_client || strcmp(func,"_dispatch_unfair_lock_lock")) return;
  if(rnd()%2){ atomic_fetch_add(&holds,1); usleep((useconds_t)(30+rnd()%150)); } }
static void cb(const volatile void *addr, unsigned size, int op, uint64_t o, uint64_t n, const char *func, int line){ (void)size;(void)o;(void)n;(void)line;
  if(addr!=QS || op!=3 || !is_client) return;      // a client thread's successful compare-and-swap on q's state
  if(strcmp(func,"_dispatch_lane_class_barrier_complete") && strcmp(func,"_dispatch_lane_non_barrier_complete")) return;
  if(with_root==2 || rnd()%3==0){ atomic_fetch_add(&holds,1); usleep((useconds_t)(20+rnd()%200)); } }
struct item { int which, is_async; long input, output; atomic_int done; unsigned spin; };
static void work(void *c){ struct item *it=c; int d;
  if(it->which==2){ if(atomic_fetch_add(&in_q,1)) fail("two items of the serial queue whose target is being changed overlapped",0,0,0);
    d=(int)(intptr_t)dispatch_get_specific(&key)-1; if(d==-1 && with_root==1) d=2; else if(d!=0 && d!=1){ fail("an item of the retargeted queue ran under neither of its targets: queue-specific value",d+1,0,0); d=0; } }
  else d=it->which;
  if(d==2){ for(volatile unsigned i=it->spin;i;i--){} atomic_fetch_sub(&in_q,1); it->output=it->input+1; atomic_fetch_add(&n_items,1); atomic_fetch_add(&progress,1);      // under the global queue: only q's own exclusion applies
    if(it->is_async){ free(it); atomic_fetch_sub(&async_out,1); } else atomic_store(&it->done,1); return; }
  if(atomic_fetch_add(&in_t[d],1)) fail("two items of a serial queue overlapped (the queue is, or just was, the target of a queue whose target was changed): queue / item came through the retargeted queue",d,it->which==2,0);
  for(volatile unsigned i=it->spin;i;i--){}
  atomic_fetch_sub(&in_t[d],1); if(it->which==2) atomic_fetch_sub(&in_q,1);
  it->output=it->input+1; atomic_fetch_add(&n_items,1); atomic_fetch_add(&progress,1);
  if(it->is_async){ free(it); atomic_fetch_sub(&async_out,1); } else atomic_store(&it->done,1); }
static void *submitter(void *a){ long me=(long)a; long serial=0; is_client=1;
  while(!atomic_load(&stop) && !viol){ int which = (me<2 || with_root==2) ? 2 : (int)(rnd()%2); int op=(int)(rnd()%4); dispatch_queue_t dq = which==2 ? q : t[which];
    if(op==3){ if(atomic_load(&async_out)>1000) continue; struct item *it=calloc(1,sizeof *it); it->which=which; it->is_async=1; it->spin=(unsigned)(rnd()%30000);
      atomic_fetch_add(&async_out,1); dispatch_async_f(dq,it,work); continue; }
    struct item it; memset(&it,0,sizeof it); it.which=which; it.spin=(unsigned)(rnd()%30000); it.input=++serial;
    if(op==2) dispatch_async_and_wait_f(dq,&it,work); else dispatch_sync_f(dq,&it,work);
    if(!atomic_load(&it.done)) fail("a synchronous submission returned before its item had run: queue (2 = the retargeted one)",which,0,0);
    else if(it.output!=it.input+1) fail("the result of a synchronously submitted item was not visible after the call returned",which,0,0); }
  atomic_fetch_add(&thr_done,1); return 0; }
static void *retargeter(void *a){ (void)a; int next=1; is_client=1;
  while(!atomic_load(&stop) && !viol){ if(with_root==2){      // every new target is a fresh queue that q alone owns: the old one goes away with the change (F50: while a returning dispatch_sync still held its lock)
      dispatch_queue_t f=dispatch_queue_create("rt.f",NULL); dispatch_queue_set_specific(f,&key,(void*)1,NULL); dispatch_set_target_queue(q,f); dispatch_release(f);
      atomic_fetch_add(&flips,1); usleep((useconds_t)(rnd()%40)); continue; }
    if(with_root==1 && rnd()%2) next=2; dispatch_set_target_queue(q,t[next]);
    struct item s; memset(&s,0,sizeof s); s.which=2; dispatch_sync_f(q,&s,work);       // q is known to have moved before it is flipped again
    atomic_fetch_add(&flips,1); next = next==2 ? (int)(rnd()%2) : next^1; usleep((useconds_t)(with_root ? 20+rnd()%60 : 100+rnd()%300)); }
  atomic_fetch_add(&thr_done,1); return 0; }
// signals without SA_RESTART to the submitting threads: a thread parked in a synchronous submission is interrupted in its wait and
// has to go back to it - being woken by a signal is not being handed the queue
static pthread_t th[16]; static int nthr_g; static atomic_long pings; static void on_usr1(int s){ (void)s; }
static void *pinger(void *a){ (void)a; int k=0; while(!atomic_load(&stop) && !viol){ pthread_kill(th[k++%nthr_g],SIGUSR1); atomic_fetch_add(&pings,1); usleep(150); } return 0; }
static void on_crash(int sig){ char b[240]; int n=snprintf(b,sizeof b,"ORACLE VIOL seed=%llu the library trapped or crashed (signal %d) while threads submitted to a serial queue whose target was being changed\n",(unsigned long long)seed,sig); if(n>0) (void)!write(1,b,(size_t)n); _exit(1); }
int main(int argc,char**argv){ seed=argc>1?strtoull(argv[1],0,0):1; int nthr=argc>2?atoi(argv[2]):6; int ms=argc>3?atoi(argv[3]):1500; if(nthr>16) nthr=16;
  signal(SIGSEGV,on_crash); signal(SIGILL,on_crash); signal(SIGBUS,on_crash); signal(SIGABRT,on_crash);
  with_root = argc>4 ? atoi(argv[4]) : 0; t[2]=(dispatch_queue_t)dispatch_get_global_queue(0,0);
  t[0]=dispatch_queue_create("rt.t0",NULL); t[1]=dispatch_queue_create("rt.t1",NULL); q=dispatch_queue_create("rt.q",NULL);
  dispatch_queue_set_specific(t[0],&key,(void*)1,NULL); dispatch_queue_set_specific(t[1],&key,(void*)2,NULL); dispatch_set_target_queue(q,t[0]);
  QS=_dispatch_verif_queue_state_addr(q); _dispatch_verif_atomic_cb=cb; if(with_root==1) _dispatch_verif_yield_cb=ycb;
  struct sigaction sa; memset(&sa,0,sizeof sa); sa.sa_handler=on_usr1; sigaction(SIGUSR1,&sa,0); nthr_g=nthr;
  pthread_t rt, pg; for(long i=0;i<nthr;i++) pthread_create(&th[i],0,submitter,(void*)i); pthread_create(&rt,0,retargeter,0); pthread_create(&pg,0,pinger,0);
  long last=-1; int idle=0;
  for(int e=0; e<ms/50 && !viol; e++){ usleep(50000); long p=atomic_load(&progress); if(p==last){ if(++idle>=100) break; } else { idle=0; last=p; } }
  atomic_store(&stop,1);
  for(int w=0; w<200 && !viol; w++){ if(atomic_load(&thr_done)==nthr+1 && !atomic_load(&async_out)) break; usleep(50000); long p=atomic_load(&progress); if(p==last){ if(++idle>=100) break; } else { idle=0; last=p; } }
  if(idle>=100 && !viol && !(atomic_load(&thr_done)==nthr+1 && !atomic_load(&async_out))) fail("no item ran for 5 s although submissions are outstanding (a synchronous submission never returned or the queue stalled): items run / target changes",atomic_load(&n_items),atomic_load(&flips),0);
  _dispatch_verif_atomic_cb=0; _dispatch_verif_yield_cb=0;
  if(viol){ printf("ORACLE VIOL seed=%llu %s\n",(unsigned long long)seed,vmsg); fflush(stdout); _exit(1); }
  // all threads return once stop is set and nothing hangs
  pthread_join(pg,0); for(int i=0;i<nthr;i++) pthread_join(th[i],0); pthread_join(rt,0);
  for(int w=0; w<200 && atomic_load(&async_out); w++) usleep(10000);
  if(atomic_load(&async_out)){ printf("ORACLE VIOL seed=%llu asynchronous items never ran: outstanding %ld\n",(unsigned long long)seed,atomic_load(&async_out)); fflush(stdout); _exit(1); }
  printf("ORACLE ok items=%ld target_changes=%ld holds=%ld signals=%ld\n",atomic_load(&n_items),atomic_load(&flips),atomic_load(&holds),atomic_load(&pings)); fflush(stdout); _exit(0); }
