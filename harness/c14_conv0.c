// C14 oracle for the convenience calls with nothing to transfer: dispatch_read(fd, 0, ...) and dispatch_write(fd, <empty data>, ...),
// alone and mixed with ordinary reads and writes on the same descriptor. The descriptor entry of a convenience call is held only by
// the look-up and by the operations / handler calls on it (the convenience channel holds nothing): a hold taken after the look-up has
// given its own back finds the entry torn down and freed. The run poisons freed memory (MALLOC_PERTURB_) and now and then delays the
// thread that is about to suspend a queue (the hold is a suspension of the entry's close queue), so that a late hold lands on freed memory.
// Also two reads on a pipe that has data for the first only: the first completes on EAGAIN with the second queued behind it and no
// readiness source yet (F38: the source was created from the completed, freed operation).
// Oracle: every handler is called exactly once with no error, a read of zero bytes delivers empty data, a write of nothing reports
// nothing unwritten, the bytes of the ordinary transfers arrive, nothing traps.
// usage: c14_conv0 <seed> <iterations>
#define _GNU_SOURCE
#include <dispatch/dispatch.h>
#include <stdio.h>
#include <stdint.h>
#include <stdlib.h>
#include <string.h>
#include <unistd.h>
#include <signal.h>
#include <stdatomic.h>
#include <sys/syscall.h>
extern void (*_dispatch_verif_yield_cb)(const volatile void *addr, const char *func, int line);
static uint64_t seed; static __thread uint64_t rng;
static inline uint64_t rnd(void){ if(!rng) rng = seed ^ (uint64_t)syscall(SYS_gettid)*0x9e3779b97f4a7c15ull; rng ^= rng<<13; rng ^= rng>>7; rng ^= rng<<17; return rng; }
static atomic_long delays;
static void ycb(const volatile void *addr, const char *func, int line){ (void)addr;(void)line; if(!strstr(func,"suspend")) return; if(rnd()%8==0){ atomic_fetch_add(&delays,1); usleep((useconds_t)(20+rnd()%200)); } }
static atomic_int viol; static char vmsg[300];
static void fail(const char *m, long a, long b, long c){ if(!atomic_exchange(&viol,1)) snprintf(vmsg,sizeof vmsg,"%s %ld %ld %ld",m,a,b,c); }
static void on_crash(int sig){ char b[300]; int n=snprintf(b,sizeof b,"ORACLE VIOL seed=%llu the library trapped or crashed (signal %d) during convenience dispatch_read / dispatch_write calls (freed memory is poisoned in this run: a descriptor entry or an operation was used after it had been freed)\n",(unsigned long long)seed,sig); if(n>0) (void)!write(1,b,(size_t)n); _exit(1); }
int main(int argc,char**argv){ seed=argc>1?strtoull(argv[1],0,0):1; int iters=argc>2?atoi(argv[2]):4000;
  if(!getenv("MALLOC_PERTURB_")){ setenv("MALLOC_PERTURB_","165",1); execv("/proc/self/exe",argv); }
  signal(SIGILL,on_crash); signal(SIGSEGV,on_crash); signal(SIGABRT,on_crash); signal(SIGBUS,on_crash); signal(SIGPIPE,SIG_IGN);
  dispatch_queue_t q=dispatch_get_global_queue(0,0), sq=dispatch_queue_create("conv0.s",NULL); dispatch_group_t g=dispatch_group_create();
  __block _Atomic long calls=0, want=0; _dispatch_verif_yield_cb=ycb;
  for(int i=0;i<iters && !viol;i++){ int pp[2]; if(pipe(pp)) break; int p0=pp[0], p1=pp[1]; int shape=(int)(rnd()%7); dispatch_queue_t hq = rnd()%2 ? q : sq;
    _Atomic int *lp=calloc(1,sizeof *lp);      // never freed: a few bytes per iteration
    void (^fin)(void) = ^{ if(atomic_fetch_sub(lp,1)==1){ close(p0); close(p1); } dispatch_group_leave(g); };
    int n = shape==4 ? 2 : shape==5 ? 3 : 1; atomic_store(lp,n); atomic_fetch_add(&want,n);
    for(int k=0;k<n;k++) dispatch_group_enter(g);
    if(shape==0 || shape==4 || shape==5)   // a read of zero bytes
      dispatch_read(p0,0,hq,^(dispatch_data_t d,int err){ atomic_fetch_add(&calls,1); if(err||!d||dispatch_data_get_size(d)) fail("dispatch_read of zero bytes: error / size delivered",err,d?(long)dispatch_data_get_size(d):-1,i); fin(); });
    if(shape==1 || shape==4)               // a write of nothing
      dispatch_write(p1,dispatch_data_empty,hq,^(dispatch_data_t d,int err){ atomic_fetch_add(&calls,1); if(err||(d&&dispatch_data_get_size(d))) fail("dispatch_write of empty data: error / size reported unwritten",err,d?(long)dispatch_data_get_size(d):0,i); fin(); });
    if(shape==2 || shape==5){              // an ordinary write, then a read of what it wrote, next to the empty ones
      dispatch_data_t w=dispatch_data_create("abcdefgh",8,NULL,DISPATCH_DATA_DESTRUCTOR_DEFAULT);
      dispatch_write(p1,w,hq,^(dispatch_data_t d,int err){ atomic_fetch_add(&calls,1); if(err||d) fail("dispatch_write of 8 bytes to an empty pipe: error / unwritten",err,d?(long)dispatch_data_get_size(d):0,i);
        if(shape==5){ dispatch_read(p0,8,hq,^(dispatch_data_t r,int e2){ atomic_fetch_add(&calls,1); if(e2||!r||dispatch_data_get_size(r)!=8) fail("dispatch_read of the 8 bytes written: error / size",e2,r?(long)dispatch_data_get_size(r):-1,i); fin(); }); }
        fin(); });
      dispatch_release(w); }
    if(shape==3){                          // two reads of zero bytes on one descriptor, back to back
      atomic_store(lp,2); atomic_fetch_add(&want,1); dispatch_group_enter(g);
      for(int k=0;k<2;k++) dispatch_read(p0,0,hq,^(dispatch_data_t d,int err){ atomic_fetch_add(&calls,1); if(err||!d||dispatch_data_get_size(d)) fail("dispatch_read of zero bytes (second of two): error / size",err,d?(long)dispatch_data_get_size(d):-1,i); fin(); }); }
    if(shape==6){                          // two reads of up to 16 bytes with 8 in the pipe: the first takes them and completes on EAGAIN with the second queued behind it (no readiness source yet); 8 more bytes, then end of file
      atomic_store(lp,2); atomic_fetch_add(&want,1); dispatch_group_enter(g); if(write(p1,"abcdefgh",8)!=8){}
      _Atomic long *tot=calloc(1,sizeof *tot);
      for(int k=0;k<2;k++) dispatch_read(p0,16,hq,^(dispatch_data_t d,int err){ atomic_fetch_add(&calls,1); long n=d?(long)dispatch_data_get_size(d):0; long t=atomic_fetch_add(tot,n)+n;
        if(err) fail("dispatch_read of up to 16 bytes from a pipe: error / size / iteration",err,n,i);
        if(atomic_load(lp)==1 && t!=16) fail("two dispatch_read calls on a pipe that carried 16 bytes before end of file delivered another total: total / iteration",t,i,0);
        if(atomic_fetch_sub(lp,1)==1) close(p0); dispatch_group_leave(g); });
      usleep((useconds_t)(rnd()%7*100)); if(write(p1,"ijklmnop",8)!=8){} usleep((useconds_t)(rnd()%5*100)); close(p1); }
    if((i&31)==31 && dispatch_group_wait(g,dispatch_time(DISPATCH_TIME_NOW,20ll*1000000000ll))){ fail("handlers of convenience calls were not all called within 20 s: iteration / called / expected",i,atomic_load(&calls),atomic_load(&want)); break; } }
  if(!viol && dispatch_group_wait(g,dispatch_time(DISPATCH_TIME_NOW,20ll*1000000000ll))) fail("handlers of convenience calls were not all called within 20 s: called / expected",atomic_load(&calls),atomic_load(&want),0);
  _dispatch_verif_yield_cb=0; usleep(20000);
  if(!viol && atomic_load(&calls)!=atomic_load(&want)) fail("a handler of a convenience call was called more than once: called / expected",atomic_load(&calls),atomic_load(&want),0);
  if(viol){ printf("ORACLE VIOL seed=%llu %s\n",(unsigned long long)seed,vmsg); fflush(stdout); _exit(1); }
  printf("ORACLE ok items=%ld delays=%ld\n",atomic_load(&want),atomic_load(&delays)); fflush(stdout); _exit(0); }
