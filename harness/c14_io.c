// C14 L-api oracle on real pipes and files: per-operation handler contract (never re-entered, done exactly once
// and last, sizes <= high water), stream operations of one direction complete in submission order and partition the
// byte stream in that order, a barrier runs between the operations submitted before and after it, write
// conservation under short writes (write() interposed with caps), operations on a closed channel complete with
// ECANCELED, the cleanup handler runs exactly once after all handlers.
// usage: c14_io <seed> <rounds>; prints "ok ..." or "VIOL ..."
#define _GNU_SOURCE
#include <dispatch/dispatch.h>
#include <stdio.h>
#include <stdlib.h>
#include <string.h>
#include <unistd.h>
#include <errno.h>
#include <fcntl.h>
#include <dlfcn.h>
#include <pthread.h>
#include <stdatomic.h>
static uint64_t rs; static uint64_t rnd(void){ rs += 0x9E3779B97F4A7C15ull; uint64_t z=rs; z=(z^(z>>30))*0xBF58476D1CE4E5B9ull; z=(z^(z>>27))*0x94D049BB133111EBull; return z^(z>>31); }
static _Atomic int viol; static char vmsg[300];
static void fail(const char *m, long a, long b, long c){ if(!atomic_exchange(&viol,1)) snprintf(vmsg,sizeof vmsg,"%s %ld %ld %ld",m,a,b,c); }
static _Atomic int wcap_fd = -1; static _Atomic long wcap = 0; static _Atomic long short_writes;
ssize_t write(int fd, const void *buf, size_t n){
  static ssize_t (*real)(int,const void*,size_t); if(!real) real = dlsym(RTLD_NEXT,"write");
  if (fd == wcap_fd && wcap > 0 && (long)n > wcap) { n = (size_t)wcap; atomic_fetch_add(&short_writes,1); }
  return real(fd,buf,n); }
#define MAXOP 12
struct opst { int idx; size_t want; _Atomic int inside; _Atomic int done; _Atomic int calls_after_done; size_t got; int err; unsigned char *buf; long done_stamp; int is_barrier; };
static _Atomic long stamp;
static unsigned char pat(size_t i){ return (unsigned char)((i*131+7)%253); }
static int round_read(int r){ // k reads + maybe a barrier on one channel fed by a writer thread
  int p[2]; if(pipe(p)) return 0; int p0=p[0]; size_t total=0; int k=2+(int)(rnd()%(MAXOP-2)); struct opst *S=calloc((size_t)k,sizeof *S);
  for(int i=0;i<k;i++){ S[i].idx=i; S[i].is_barrier = (i>0 && i<k-1 && rnd()%5==0); S[i].want = S[i].is_barrier?0:1+rnd()%3000; total+=S[i].want; S[i].buf=malloc(S[i].want+1); }
  size_t extra = rnd()%2? 0 : rnd()%500; // bytes beyond what the reads ask for stay in the pipe
  int qserial = rnd()%2; dispatch_queue_t q=dispatch_queue_create("rq", qserial? NULL : DISPATCH_QUEUE_CONCURRENT);
  __block _Atomic int cleanup=0; __block _Atomic int handlers_live=0; __block _Atomic int zsub=0, zran=0;
  dispatch_semaphore_t cs=dispatch_semaphore_create(0);
  dispatch_io_t ch=dispatch_io_create(DISPATCH_IO_STREAM,p[0],q,^(int e){ (void)e; if(atomic_fetch_add(&cleanup,1)) fail("cleanup handler ran twice: round",r,0,0);
      if(handlers_live) fail("cleanup handler ran while an I/O handler was running: round",r,0,0);
      if(atomic_load(&zsub) && !atomic_load(&zran)) fail("cleanup handler ran before the handler of a (zero-length) operation scheduled before the channel was closed: round",r,0,0);
      close(p0); dispatch_semaphore_signal(cs); });
  size_t high = rnd()%3? 1+rnd()%700 : SIZE_MAX; size_t low = rnd()%3? 1+rnd()%64 : 0; if(high!=SIZE_MAX) dispatch_io_set_high_water(ch,high); if(low) dispatch_io_set_low_water(ch,low);
  size_t eff_high = high; if(low>eff_high) eff_high=low;
  // "water marks and intervals": every third round the channel also delivers on a timer (1-5 ms), strictly or not
  if(rnd()%3==0) dispatch_io_set_interval(ch,(uint64_t)(1+rnd()%5)*1000000ull, rnd()%2 ? DISPATCH_IO_STRICT_INTERVAL : 0);
  dispatch_group_t g=dispatch_group_create();
  for(int i=0;i<k;i++){ struct opst *o=&S[i]; dispatch_group_enter(g);
    if(o->is_barrier){ dispatch_io_barrier(ch,^{ o->done_stamp=atomic_fetch_add(&stamp,1); atomic_store(&o->done,1);
        // the barrier waits for the earlier *operations*; their last handler call has been submitted to the handler queue by then
        // (not necessarily run): on a serial handler queue it is ahead of anything submitted from here
        if(qserial){ dispatch_sync(q,^{}); for(int j=0;j<i;j++) if(!S[j].done) fail("barrier ran before an earlier operation completed: round/barrier/op",r,i,j); }
        for(int j=i+1;j<k;j++) if(S[j].got||S[j].done) fail("an operation submitted after the barrier made progress before it: round/barrier/op",r,i,j);
        dispatch_group_leave(g); }); continue; }
    dispatch_io_read(ch,0,o->want,q,^(bool done, dispatch_data_t d, int err){ atomic_fetch_add(&handlers_live,1);
      if(atomic_fetch_add(&o->inside,1)) fail("I/O handler re-entered: round/op",r,i,0);
      if(o->done) fail("handler invoked after done: round/op",r,i,0);
      if(cleanup) fail("handler invoked after the cleanup handler: round/op",r,i,0);
      size_t sz=d?dispatch_data_get_size(d):0; if(sz>eff_high) fail("delivery larger than the high-water mark: round/size/high",r,(long)sz,(long)eff_high);
      if(o->got+sz>o->want) fail("more bytes than requested: round/op",r,i,0);
      else if(sz){ __block size_t pos=o->got; dispatch_data_apply(d,^bool(dispatch_data_t rg,size_t off,const void*b,size_t n){ (void)rg;(void)off; memcpy(o->buf+pos,b,n); pos+=n; return true; }); o->got+=sz; }
      if(err){ o->err=err; }
      if(done){ o->done_stamp=atomic_fetch_add(&stamp,1); atomic_store(&o->done,1); dispatch_group_leave(g); }
      atomic_fetch_sub(&o->inside,1); atomic_fetch_sub(&handlers_live,1); }); }
  // writer: staged arrival
  size_t all=total+extra, sent=0; while(sent<all){ size_t m=1+rnd()%1500; if(m>all-sent) m=all-sent; unsigned char b[1500]; for(size_t j=0;j<m;j++) b[j]=pat(sent+j);
    if(write(p[1],b,m)!=(ssize_t)m) break; sent+=m; if(rnd()%3==0) usleep((useconds_t)(rnd()%800)); }
  if(dispatch_group_wait(g,dispatch_time(DISPATCH_TIME_NOW,20ll*1000000000ll))){ fail("read operations did not complete within 20s: round",r,0,0); return 0; }
  close(p[1]);
  size_t off=0; long last=-1; for(int i=0;i<k;i++){ struct opst *o=&S[i];
    if(o->is_barrier) continue;
    // completion order is observable through the handlers only when they run on a serial queue
    if(qserial){ if(o->done_stamp<last) fail("stream operations completed out of submission order: round/op",r,i,0); last=o->done_stamp; }
    if(o->err) fail("read reported an error: round/op/err",r,i,o->err);
    if(o->got!=o->want) fail("read delivered fewer bytes than requested although the stream had them: round/op/got",r,i,(long)o->got);
    for(size_t j=0;j<o->got;j++) if(o->buf[j]!=pat(off+j)){ fail("bytes delivered out of order or corrupted: round/op/pos",r,i,(long)j); break; }
    off+=o->got; }
  // a zero-length read scheduled BEFORE the close, its handler on a serial queue that is busy for a few milliseconds: the cleanup
  // handler runs after all handlers of the channel, this one included
  // (a plain close only: DISPATCH_IO_STOP marks the channel at once, the operation is then one "scheduled on a closed channel")
  dispatch_queue_t zq=dispatch_queue_create("zq",NULL); int stop=(int)(rnd()%2);
  if(!stop && rnd()%2){ dispatch_async(zq,^{ usleep(5000); }); atomic_store(&zsub,1);
    dispatch_io_read(ch,0,0,zq,^(bool done, dispatch_data_t d, int err){ (void)d;(void)err; if(done) atomic_store(&zran,1); }); }
  // operations scheduled after close complete with ECANCELED
  dispatch_io_close(ch, stop? DISPATCH_IO_STOP : 0);
  dispatch_semaphore_t s2=dispatch_semaphore_create(0); __block int e2=-1; __block int n2=0;
  dispatch_io_read(ch,0,10,q,^(bool done, dispatch_data_t d, int err){ (void)d; if(done){ e2=err; n2++; dispatch_semaphore_signal(s2);} });
  if(dispatch_semaphore_wait(s2,dispatch_time(DISPATCH_TIME_NOW,10ll*1000000000ll))) fail("operation on a closed channel never completed: round",r,0,0);
  else if(e2!=ECANCELED) fail("operation on a closed channel completed with another error than ECANCELED: round/err",r,e2,0);
  // ... also the degenerate ones: a read of length 0, a write of the empty data object, a one-byte write
  for(int v=0; v<3 && !viol; v++){ dispatch_semaphore_t s3=dispatch_semaphore_create(0); __block int e3=-1;
    dispatch_io_handler_t h3=^(bool done, dispatch_data_t d, int err){ (void)d; if(done){ e3=err; dispatch_semaphore_signal(s3);} };
    if(v==0) dispatch_io_read(ch,0,0,q,h3); else if(v==1) dispatch_io_write(ch,0,dispatch_data_empty,q,h3);
    else { dispatch_data_t one=dispatch_data_create("x",1,NULL,DISPATCH_DATA_DESTRUCTOR_DEFAULT); dispatch_io_write(ch,0,one,q,h3); dispatch_release(one); }
    if(dispatch_semaphore_wait(s3,dispatch_time(DISPATCH_TIME_NOW,10ll*1000000000ll))) fail("operation on a closed channel never completed: round/variant",r,v,0);
    else if(e3!=ECANCELED) fail("operation scheduled on a closed channel completed with another error than ECANCELED: round/variant (0 read of length 0, 1 write of empty data, 2 one-byte write)/err",r,v,e3);
    dispatch_release(s3); }
  dispatch_release(ch);
  if(dispatch_semaphore_wait(cs,dispatch_time(DISPATCH_TIME_NOW,10ll*1000000000ll))) fail("cleanup handler never ran: round",r,0,0);
  usleep(2000); if(cleanup!=1) fail("cleanup handler count != 1: round/count",r,cleanup,0);
  dispatch_sync(zq,^{}); dispatch_release(zq);
  for(int i=0;i<k;i++) free(S[i].buf); free(S); dispatch_release(q); dispatch_release(g); return k; }
static int round_write(int r){ // several writes with interposed short writes; the reader drains the pipe
  int p[2]; if(pipe(p)) return 0; int p1=p[1]; int k=1+(int)(rnd()%5); size_t total=0; size_t lenv[8]; size_t *len=lenv;
  for(int i=0;i<k;i++){ len[i]=1+rnd()%20000; total+=len[i]; }
  dispatch_queue_t q=dispatch_queue_create("wq",NULL);
  dispatch_semaphore_t cs=dispatch_semaphore_create(0);
  dispatch_io_t ch=dispatch_io_create(DISPATCH_IO_STREAM,p[1],q,^(int e){ (void)e; close(p1); dispatch_semaphore_signal(cs); });
  atomic_store(&wcap,(long)(1+rnd()%4000)); atomic_store(&wcap_fd,p[1]);
  dispatch_group_t g=dispatch_group_create(); __block size_t unwritten=0; __block _Atomic int dones=0; size_t off=0;
  // water marks: the write path cuts the data into buffers of at most the high-water mark and reports progress by the low-water mark
  { static const long HW[]={-1,-1,10,64,1000,4096}; long hw=HW[rnd()%6]; static const long LW[]={-1,-1,8,100,5000}; long lw=LW[rnd()%5];
    if(hw>0) dispatch_io_set_high_water(ch,(size_t)hw); if(lw>0) dispatch_io_set_low_water(ch,(size_t)lw); }
  for(int i=0;i<k;i++){ dispatch_data_t d=dispatch_data_empty; size_t left=len[i]; int frag = rnd()%2;
    // fragmented data objects: regions that do not line up with the write buffers
    while(left>0){ size_t m = frag ? 1+rnd()%(left<37?left:37+rnd()%3000) : left; if(m>left) m=left;
      unsigned char *b=malloc(m); for(size_t j=0;j<m;j++) b[j]=pat(off+j); off+=m; left-=m;
      dispatch_data_t piece=dispatch_data_create(b,m,NULL,DISPATCH_DATA_DESTRUCTOR_FREE); dispatch_data_t c=dispatch_data_create_concat(d,piece); dispatch_release(piece); if(d!=dispatch_data_empty) dispatch_release(d); d=c; }
    dispatch_group_enter(g);
    dispatch_io_write(ch,0,d,q,^(bool done, dispatch_data_t rem, int err){ if(done){ if(rem) unwritten+=dispatch_data_get_size(rem); if(err) fail("write error: round/err",r,err,0); atomic_fetch_add(&dones,1); dispatch_group_leave(g);} });
    dispatch_release(d); }
  // drain
  unsigned char *rb=malloc(total+16); size_t got=0; fcntl(p[0],F_SETFL,O_NONBLOCK);
  for(int spin=0; spin<200000 && got<total; spin++){ ssize_t n=read(p[0],rb+got,total+16-got); if(n>0) got+=(size_t)n; else usleep(100); }
  if(dispatch_group_wait(g,dispatch_time(DISPATCH_TIME_NOW,20ll*1000000000ll))) fail("write operations did not complete within 20s: round",r,0,0);
  atomic_store(&wcap_fd,-1);
  if(got+unwritten!=total) fail("write conservation: bytes at the descriptor + reported unwritten != submitted: round/got/total",r,(long)got,(long)total);
  for(size_t j=0;j<got;j++) if(rb[j]!=pat(j)){ fail("written bytes out of order or corrupted: round/pos",r,(long)j,0); break; }
  if(dones!=k) fail("write done count: round/dones/k",r,dones,k);
  dispatch_io_close(ch,0); dispatch_release(ch);
  if(dispatch_semaphore_wait(cs,dispatch_time(DISPATCH_TIME_NOW,10ll*1000000000ll))) fail("cleanup handler never ran (write channel): round",r,0,0);
  free(rb); close(p[0]); dispatch_release(q); dispatch_release(g); return k; }
int main(int argc,char**argv){ uint64_t seed=argc>1?strtoull(argv[1],0,0):1; int rounds=argc>2?atoi(argv[2]):30; long ops=0;
  for(int r=0;r<rounds && !viol;r++){ rs=seed*7919+ (uint64_t)r; ops += (r%3==2)? round_write(r) : round_read(r); }
  if(viol){ printf("VIOL seed=%llu %s\n",(unsigned long long)seed,vmsg); return 1; }
  printf("ok rounds=%d ops=%ld short_writes=%ld\n",rounds,ops,(long)short_writes); return 0; }
