// L-trace + L-api harness for the cleanup clause of C14: who keeps the descriptor entry of a dispatch I/O channel alive. The entry's
// close queue is suspended once per holder (a lookup, each open channel, each operation object, each handler call until it has
// returned, each stream source being cancelled) and the cleanup handlers sit on it. Recorded with one global sequence counter:
// every successful suspension / resumption of the close queue (compare-and-swap of _dispatch_lane_suspend / _dispatch_lane_resume on
// its dq_state), the beginning and end of every handler call of an operation scheduled before its channel was closed, and every
// cleanup handler. The record is replayed through IoHold.astep (dvdriver iohold).
// Per round: a pipe (read end: data arrives late or never; write end), a regular file, or a file the channel opens by path itself
// (dispatch_io_create_with_path); one or two channels on the same descriptor (the second by dispatch_io_create or dispatch_io_create_with_io),
// reads / writes / zero-length operations with handlers on a serial and on a concurrent queue, close or stop of each channel at a
// random point, operations scheduled after the close (they complete with ECANCELED and hold nothing).
// Oracle on the same run: a cleanup handler runs exactly once per channel, with no handler call of a held operation in progress or
// still to come; operations scheduled on a closed channel complete with ECANCELED.
// usage: tr_iohold <seed> <rounds>
#define _GNU_SOURCE
#include <dispatch/dispatch.h>
#include <stdio.h>
#include <stdint.h>
#include <stdlib.h>
#include <string.h>
#include <errno.h>
#include <unistd.h>
#include <fcntl.h>
#include <pthread.h>
#include <stdatomic.h>
#include <sys/syscall.h>
#include <signal.h>
#include <execinfo.h>
typedef void (*cb_t)(const volatile void *addr, unsigned size, int op, uint64_t o, uint64_t n, const char *func, int line);
extern cb_t _dispatch_verif_atomic_cb;
extern volatile void *_dispatch_verif_queue_state_addr(dispatch_queue_t dq);
extern dispatch_queue_t _dispatch_verif_io_close_queue(dispatch_io_t channel);
static uint64_t rs; static uint64_t rnd(void){ rs += 0x9E3779B97F4A7C15ull; uint64_t z=rs; z=(z^(z>>30))*0xBF58476D1CE4E5B9ull; z=(z^(z>>27))*0x94D049BB133111EBull; return z^(z>>31); }
typedef struct { uint64_t seq; int kind; int tid; } ev_t;   // kind: 0 suspend 1 resume 2 handler begins 3 handler ends 4 cleanup handler 5/6 handler of an operation scheduled after the close
#define MAXEV (1<<18)
static ev_t evs[MAXEV]; static atomic_ulong nev, seq; static volatile void *CQS; static atomic_int tracing, slow_seen; static __thread int mytid;
static void rec(int kind){ if(!atomic_load(&tracing)) return; if(!mytid) mytid=(int)syscall(SYS_gettid); unsigned long k=atomic_fetch_add(&nev,1); if(k>=MAXEV) return; evs[k]=(ev_t){atomic_fetch_add(&seq,1),kind,mytid}; }
static void cb(const volatile void *addr, unsigned size, int op, uint64_t o, uint64_t n, const char *func, int line){ (void)size;(void)o;(void)n;(void)line;
  if(addr!=CQS || !CQS) return;
  if(strstr(func,"_slow")) { atomic_store(&slow_seen,1); return; }
  if(op!=3) return;
  if(!strcmp(func,"_dispatch_lane_suspend")) rec(0); else if(!strcmp(func,"_dispatch_lane_resume")) rec(1); }
static atomic_int viol; static char vmsg[300];
static void fail(const char *m, long a, long b, long c){ if(!atomic_exchange(&viol,1)) snprintf(vmsg,sizeof vmsg,"%s %ld %ld %ld",m,a,b,c); }
struct round { _Atomic int cleanups[2], held_running, held_pending, cleaned; int id; };
static long total_ops, late_ops, zero_ops;
static void one_op(struct round *R, dispatch_io_t ch, int closed, int kind, int file, dispatch_queue_t hq){
  size_t len = (rnd()%6==0) ? 0 : 1+(size_t)(rnd()%700); int slow = (int)(rnd()%4==0); total_ops++; if(!len) zero_ops++; if(closed) late_ops++;
  if(!closed) atomic_fetch_add(&R->held_pending,1);
  dispatch_io_handler_t h=^(bool done, dispatch_data_t d, int e){ (void)d;
    if(closed){ rec(5); if(done && e!=ECANCELED) fail("an operation scheduled on a closed channel did not complete with ECANCELED: round/error",R->id,e,0); rec(6); return; }
    rec(2); atomic_fetch_add(&R->held_running,1);
    if(atomic_load(&R->cleaned)) fail("a handler call of an operation scheduled before the close began after a cleanup handler of the descriptor had run: round",R->id,0,0);
    if(slow) usleep((useconds_t)(100+rnd()%900));
    atomic_fetch_sub(&R->held_running,1); if(done) atomic_fetch_sub(&R->held_pending,1); rec(3); };
  if(kind==0) dispatch_io_read(ch, file?(off_t)(rnd()%20000):0, len, hq, h);
  else { void *b=malloc(len?len:1); memset(b,7,len?len:1); dispatch_data_t d = len? dispatch_data_create(b,len,NULL,DISPATCH_DATA_DESTRUCTOR_FREE) : dispatch_data_empty; if(!len) free(b);
    dispatch_io_write(ch, file?(off_t)(rnd()%20000):0, d, hq, h); if(len) dispatch_release(d); } }
static long round_(int id, int shape){ struct round *R=calloc(1,sizeof *R); R->id=id; int p[2]={-1,-1}; int fd; char path[64]=""; int file=(shape>=2), rd=(shape==0), bypath=(shape==3);
  if(file){ snprintf(path,sizeof path,"/var/tmp/tr_iohold.%d",(int)getpid()); fd=open(path,O_RDWR|O_CREAT|O_TRUNC,0600); if(fd<0) return 0; if(ftruncate(fd,1<<16)){} if(bypath){ close(fd); fd=-1; } }
  else { if(pipe(p)) return 0; fd = rd ? p[0] : p[1]; (void)fcntl(p[1],F_SETPIPE_SZ,1<<20); }
  dispatch_queue_t hq=dispatch_queue_create("h",NULL), cq=dispatch_queue_create("c",NULL), gq=dispatch_get_global_queue(0,0);
  dispatch_semaphore_t cs=dispatch_semaphore_create(0);
  void (^cleanup)(int) = ^(int e){ if(e){ fail("a channel created on an open descriptor / channel reported an error to its cleanup handler: round/error",id,e,0); dispatch_semaphore_signal(cs); return; } rec(4); if(atomic_load(&R->held_running)) fail("a cleanup handler ran while a handler call of an operation of the descriptor was in progress: round",id,0,0);
      if(atomic_load(&R->held_pending)) fail("a cleanup handler ran before the last handler call of an operation scheduled before the close: round/operations not yet done",id,atomic_load(&R->held_pending),0);
      atomic_store(&R->cleaned,1); dispatch_semaphore_signal(cs); };
  void (^cleanupA)(int) = ^(int e){ if(atomic_fetch_add(&R->cleanups[0],1)) fail("the cleanup handler of a channel ran twice: round",id,0,0); cleanup(e); };
  // a channel on the descriptor, or (shape 3) a channel that opens the file by path itself
  dispatch_io_t A = bypath ? dispatch_io_create_with_path(DISPATCH_IO_RANDOM,path,O_RDWR,0,cq,cleanupA) : dispatch_io_create(file?DISPATCH_IO_RANDOM:DISPATCH_IO_STREAM,fd,cq,cleanupA);
  dispatch_semaphore_t s0=dispatch_semaphore_create(0); dispatch_io_barrier(A,^{ dispatch_semaphore_signal(s0); }); dispatch_semaphore_wait(s0,DISPATCH_TIME_FOREVER); usleep(2000);
  dispatch_queue_t clq=_dispatch_verif_io_close_queue(A); if(!clq){ fail("channel has no descriptor entry: round",id,0,0); return 0; }
  CQS=_dispatch_verif_queue_state_addr(clq); uint64_t st=*(volatile uint64_t*)CQS;
  atomic_store(&slow_seen,0);
  printf("N %d %lu %d\n", id, (unsigned long)((st>>58)&63), (int)((st>>57)&1));
  unsigned long k0=atomic_load(&nev); atomic_store(&tracing,1);
  dispatch_io_t B=NULL; int nact=6+(int)(rnd()%18), closeA=(int)(rnd()%(uint64_t)(nact+1)), openB=(rnd()%2)?(int)(rnd()%(uint64_t)nact):-1, closeB=-1, aClosed=0, bClosed=0; int two=0;
  if(bypath) openB=-1;                                  // a second channel on a path channel gets a descriptor entry of its own
  if(openB>=closeA) openB = closeA>0 ? (int)(rnd()%(uint64_t)closeA) : -1;      // the second channel joins the descriptor entry while the first still holds it (afterwards it would get an entry of its own)
  if(rd && rnd()%2){ char buf[512]; memset(buf,3,sizeof buf); if(write(p[1],buf,sizeof buf)<0){} }     // some data is there at once, the rest late or never
  for(int a=0;a<=nact && !viol;a++){
    if(a==openB){ void (^cleanupB)(int) = ^(int e){ if(atomic_fetch_add(&R->cleanups[1],1)) fail("the cleanup handler of a channel ran twice: round",id,1,0); cleanup(e); };
      if(rnd()%2){ B=dispatch_io_create_with_io(file?DISPATCH_IO_RANDOM:DISPATCH_IO_STREAM,A,cq,cleanupB);
        // the new channel attaches on the first channel's queues; a stop of the first one issued before that makes it an error channel
        // (legitimately): let it attach first
        for(int w=0; w<20000 && !_dispatch_verif_io_close_queue(B); w++) usleep(100); }
      else B=dispatch_io_create(file?DISPATCH_IO_RANDOM:DISPATCH_IO_STREAM,fd,cq,cleanupB);
      two=1; closeB=a+1+(int)(rnd()%(uint64_t)(nact-a+1)); }
    if(a==closeA){ dispatch_io_close(A, (rnd()%2)?DISPATCH_IO_STOP:0); aClosed=1; }
    if(B && a==closeB){ dispatch_io_close(B, (rnd()%3==0)?DISPATCH_IO_STOP:0); bClosed=1; }
    if(a==nact) break;
    int onB = B && (rnd()%2); dispatch_io_t ch = onB?B:A; int closed = onB?bClosed:aClosed;
    int kind = rd ? 0 : (file ? (int)(rnd()%2) : 1);
    one_op(R,ch,closed,kind,file,(rnd()%3==0)?gq:hq);
    if(rd && rnd()%5==0){ char buf[300]; memset(buf,5,sizeof buf); if(write(p[1],buf,(size_t)(1+rnd()%sizeof buf))<0){} }
    if(rnd()%4==0) usleep(rnd()%300); }
  if(!aClosed) dispatch_io_close(A,DISPATCH_IO_STOP); if(B && !bClosed) dispatch_io_close(B,DISPATCH_IO_STOP);
  if(rd) close(p[1]);                                   // end of file for reads still waiting (a plain close lets them finish)
  dispatch_release(A); if(B) dispatch_release(B);
  for(int c=0;c<1+two;c++) if(dispatch_semaphore_wait(cs,dispatch_time(DISPATCH_TIME_NOW,10ll*1000000000ll))){ fail("a cleanup handler never ran (10 s): round/channels",id,1+two,0); break; }
  usleep(5000); atomic_store(&tracing,0); CQS=NULL;
  if(!viol && (R->cleanups[0]!=1 || (two && R->cleanups[1]!=1))) fail("cleanup handler count is not one per channel: round/first/second",id,R->cleanups[0],R->cleanups[1]);
  if(atomic_load(&slow_seen)) printf("X %d\n", id);      // the suspension count went through the side counter: this round is judged by the oracle only
  (void)k0; if(file){ if(fd>=0) close(fd); unlink(path); } else { close(p[0]); if(!rd) close(p[1]); }
  dispatch_release(hq); dispatch_release(cq);
  return nact; }
static uint64_t g_seed;
static void on_crash(int sig){ char b[200]; int n=snprintf(b,sizeof b,"ORACLE VIOL seed=%llu the library trapped or crashed (signal %d) during channel life cycles\n",(unsigned long long)g_seed,sig); if(n>0) (void)!write(1,b,(size_t)n);
  void *bt[40]; int k=backtrace(bt,40); backtrace_symbols_fd(bt,k,2); _exit(1); }
int main(int argc,char**argv){ signal(SIGILL,on_crash); signal(SIGSEGV,on_crash); signal(SIGABRT,on_crash); signal(SIGBUS,on_crash); uint64_t seed=argc>1?strtoull(argv[1],0,0):1; int rounds=argc>2?atoi(argv[2]):30; rs=seed; g_seed=seed;
  _dispatch_verif_atomic_cb=cb; long n=0;
  unsigned long starts[4096]; int ns=0;
  for(int r=0;r<rounds && !viol && r<4096;r++){ starts[ns++]=atomic_load(&nev); n+=round_(r,(int)(rnd()%4)); }
  _dispatch_verif_atomic_cb=0;
  if(viol) printf("ORACLE VIOL seed=%llu %s\n",(unsigned long long)seed,vmsg); else printf("ORACLE ok items=%ld events=%lu zero_length=%ld scheduled_after_close=%ld\n",total_ops,atomic_load(&nev),zero_ops,late_ops);
  unsigned long ne=atomic_load(&nev); if(ne>MAXEV) ne=MAXEV;
  for(unsigned long i=1;i<ne;i++){ ev_t e=evs[i]; long j=(long)i-1; while(j>=0 && evs[j].seq>e.seq){ evs[j+1]=evs[j]; j--; } evs[j+1]=e; }
  int r=0; for(unsigned long i=0;i<ne;i++){ while(r<ns && starts[r]<=i){ printf("R %d\n",r); r++; } printf("E %d %d\n",evs[i].kind,evs[i].tid); }
  return viol?1:0; }
