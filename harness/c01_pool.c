// C01 (thread pool): L-trace of dgq_pending / dgq_thread_pool_size of a global queue + the scenario the property
// names: every pool thread blocked inside a work item that waits for a later item of the same global queue.
//  phase 1  burst of busy items: pokes while the pool is saturated ("pthread pool is full")
//  phase 2  ncpu + 4 items block on a semaphore that only a later item of the same queue signals: progress needs
//           the pool to grow beyond its size (the monitor's poke with a negative floor)
//  phase 3  quiescence: dgq_pending must be 0 again (nothing in flight), and a fresh item must still run
// usage: c01_pool <seed> [thread name]; output: "OFF pending <o> pool <o>", "ORACLE ok|VIOL ...", then "E ..." events
#define _GNU_SOURCE
#include <dispatch/dispatch.h>
#include <stdio.h>
#include <stdlib.h>
#include <stdint.h>
#include <string.h>
#include <unistd.h>
#include <stdatomic.h>
#include <sys/syscall.h>
#include <time.h>
#include <sys/prctl.h>
typedef void (*cb_t)(const volatile void *addr, unsigned size, int op, uint64_t o, uint64_t n, const char *func, int line);
extern cb_t _dispatch_verif_atomic_cb;
extern void _dispatch_verif_root_peek(dispatch_queue_global_t dq, int *pending, int *pool_size, long *off_pending, long *off_pool_size);
typedef struct { uint64_t seq; int tid; int off; int op; uint64_t o, n; const char *func; } ev_t;
#define MAXEV (1<<18)
static ev_t *evs; static atomic_ulong nev, evseq; static char *rootq; static long offp, offs; static __thread int mytid;
static void cb(const volatile void *addr, unsigned size, int op, uint64_t o, uint64_t n, const char *func, int line){ (void)size;(void)line;
  long d=(char*)addr-rootq; if(d!=offp && d!=offs) return; if(!mytid) mytid=(int)syscall(SYS_gettid);
  unsigned long k=atomic_fetch_add(&nev,1); if(k>=MAXEV) return; evs[k]=(ev_t){atomic_fetch_add(&evseq,1),mytid,(int)d,op,o,n,func}; }
static void dump(void){ unsigned long n=atomic_load(&nev); if(n>MAXEV) n=MAXEV; for(unsigned long i=0;i<n;i++){ ev_t *e=&evs[i];
  printf("E %lu %d %d %d %d %ld %ld %s\n", e->seq, e->tid, e->off==offp?0:1, e->off, e->op, (long)(int32_t)e->o, (long)(int32_t)e->n, e->func); } fflush(stdout); }
static uint64_t now_ms(void){ struct timespec ts; clock_gettime(CLOCK_MONOTONIC,&ts); return (uint64_t)ts.tv_sec*1000+ts.tv_nsec/1000000; }
static void spin_ms(int ms){ uint64_t e=now_ms()+(uint64_t)ms; while(now_ms()<e){} }
int main(int argc,char**argv){ uint64_t seed=argc>1?strtoull(argv[1],0,0):1; (void)seed;
  // the name threads inherit (a client may name its threads freely; it shows in /proc/<tid>/stat, which the pool monitor reads)
  if(argc>2 && argv[2][0]) prctl(PR_SET_NAME,argv[2],0,0,0);
  evs=calloc(MAXEV,sizeof *evs); dispatch_queue_global_t gq=dispatch_get_global_queue(0,0); rootq=(char*)gq;
  int pend,pool; _dispatch_verif_root_peek(gq,&pend,&pool,&offp,&offs); printf("OFF pending %ld pool %ld initial %d %d\n",offp,offs,pend,pool);
  _dispatch_verif_atomic_cb=cb;
  int ncpu=(int)sysconf(_SC_NPROCESSORS_ONLN); const char *viol=NULL; static char vbuf[200];
  // phase 1
  { int n=3*ncpu+(int)(seed%7); __block atomic_int done=0; for(int i=0;i<n;i++) dispatch_async((dispatch_queue_t)gq,^{ spin_ms(15); atomic_fetch_add(&done,1); });
    for(int w=0; w<3000 && done<n; w++) usleep(10000); if(done<n){ snprintf(vbuf,sizeof vbuf,"phase 1: %d of %d busy items ran within 30 s",done,n); viol=vbuf; } }
  // phase 2
  if(!viol){ int n=ncpu+4; dispatch_semaphore_t s=dispatch_semaphore_create(0); __block atomic_int done=0;
    for(int i=0;i<n;i++) dispatch_async((dispatch_queue_t)gq,^{ dispatch_semaphore_wait(s,DISPATCH_TIME_FOREVER); atomic_fetch_add(&done,1); });
    dispatch_async((dispatch_queue_t)gq,^{ for(int i=0;i<n;i++) dispatch_semaphore_signal(s); atomic_fetch_add(&done,1); });
    for(int w=0; w<3000 && done<n+1; w++) usleep(10000);
    if(done<n+1){ snprintf(vbuf,sizeof vbuf,"phase 2: every pool thread blocked on a later item of the same global queue: %d of %d items ran within 30 s (accepted items never invoked)",done,n+1); viol=vbuf; } }
  // phase 3
  if(!viol){ usleep(300000); _dispatch_verif_root_peek(gq,&pend,&pool,&offp,&offs);
    for(int w=0; w<50 && pend!=0; w++){ usleep(100000); _dispatch_verif_root_peek(gq,&pend,&pool,&offp,&offs); }
    if(pend!=0){ snprintf(vbuf,sizeof vbuf,"phase 3: dgq_pending is %d at quiescence (no thread request in flight): later thread requests will be refused",pend); viol=vbuf; }
    else { __block atomic_int ran=0; dispatch_async((dispatch_queue_t)gq,^{ atomic_store(&ran,1); }); for(int w=0; w<1000 && !ran; w++) usleep(10000); if(!ran){ viol="phase 3: an item submitted after quiescence did not run within 10 s"; } } }
  _dispatch_verif_atomic_cb=0;
  if(viol) printf("ORACLE VIOL seed=%llu %s\n",(unsigned long long)seed,viol); else printf("ORACLE ok events=%lu ncpu=%d\n",atomic_load(&nev),ncpu);
  dump(); return viol?1:0; }
