// C11 L-api oracle: dispatch_after blocks run exactly once and never before their deadline on the clock the
// deadline was expressed in; timer handlers are never early; the total count reported so far never exceeds the
// interval boundaries passed; every armed timer fires although many others are pending / re-armed / cancelled;
// a timer whose settings are replaced follows only the new settings.
// One-sided comparisons only (never "fired too late" except a generous liveness bound).
// usage: c11_timers <seed> <nafter> <ntimers>; prints "ok ..." or "VIOL ..."; exit 1 on violation.
#include <dispatch/dispatch.h>
#include <stdio.h>
#include <stdlib.h>
#include <stdint.h>
#include <stdatomic.h>
#include <string.h>
#include <time.h>
#include <unistd.h>
static uint64_t rs; static uint64_t rnd(void){ rs += 0x9E3779B97F4A7C15ull; uint64_t z=rs; z=(z^(z>>30))*0xBF58476D1CE4E5B9ull; z=(z^(z>>27))*0x94D049BB133111EBull; return z^(z>>31); }
// all leeways, the unbounded ones included (target + leeway saturates: the timer has a start time and no latest time; it still has to fire)
static uint64_t leeway_pick(void){ switch(rnd()%8){ case 0: return DISPATCH_TIME_FOREVER; case 1: return (uint64_t)INT64_MAX; case 2: return 1000000000ull; case 3: case 4: return rnd()%20000000; default: return 0; } }
static uint64_t clk(clockid_t id){ struct timespec ts; clock_gettime(id,&ts); return (uint64_t)ts.tv_sec*1000000000ull+(uint64_t)ts.tv_nsec; }
static const clockid_t CLK[3] = { CLOCK_MONOTONIC /* uptime base 0 */, CLOCK_BOOTTIME /* monotonic base 1<<63 */, CLOCK_REALTIME /* wall */ };
static _Atomic int viol; static char vmsg[300];
static void fail(const char *m, long a, long b, long c){ if(!atomic_exchange(&viol,1)) snprintf(vmsg,sizeof vmsg,"%s %ld %ld %ld",m,a,b,c); }
struct after { int clock; uint64_t deadline; _Atomic int runs; };
struct tmr { dispatch_source_t ds; int clock; uint64_t start, interval; _Atomic long total; _Atomic int fires; _Atomic int cancelled; int replaced; uint64_t new_start; };
int main(int argc,char**argv){ uint64_t seed=argc>1?strtoull(argv[1],0,0):1; int na=argc>2?atoi(argv[2]):200, nt=argc>3?atoi(argv[3]):40; rs=seed;
  dispatch_queue_t q=dispatch_queue_create("c11", DISPATCH_QUEUE_CONCURRENT);
  // very first as well: a repeating timer whose handler overruns its interval and then replaces the settings by ones on ANOTHER clock whose
  // start is already due ("follows only the new settings"): the pending configuration is applied by the manager thread while the
  // timer cannot come back to it, the new heap's minimum is due at once - the timer must go on firing on its new clock
  { dispatch_queue_t sq=dispatch_queue_create("c11.reclock",NULL);
    for(int from=0; from<3 && !viol; from++) for(int to=0; to<3 && !viol; to++){ if(from==to) continue;
      dispatch_time_t b0 = from==0? DISPATCH_TIME_NOW : from==1? (1ull<<63) : DISPATCH_WALLTIME_NOW, b1 = to==0? DISPATCH_TIME_NOW : to==1? (1ull<<63) : DISPATCH_WALLTIME_NOW;
      __block _Atomic int calls=0, after=0; __block dispatch_source_t t=dispatch_source_create(DISPATCH_SOURCE_TYPE_TIMER,0,0,sq);
      dispatch_source_set_event_handler(t,^{ int c=atomic_fetch_add(&calls,1); if(atomic_load(&after)) atomic_fetch_add(&after,1);
          if(c==0){ dispatch_source_set_timer(t,dispatch_time(b1,0),4000000ull,0); atomic_store(&after,1); usleep(12000); } });   // the handler goes on for three more intervals: the old timer expires meanwhile
      dispatch_source_set_timer(t,dispatch_time(b0,3000000ll),4000000ull,0); dispatch_activate(t);
      for(int w=0; w<300 && atomic_load(&after)<4; w++) usleep(1000);
      if(!atomic_load(&after)) fail("a repeating timer never fired at all (300 ms, 3 ms start): clock",from,0,0);
      else if(atomic_load(&after)<4) fail("a repeating timer whose settings were replaced from its own handler by ones on another clock (start already due, 4 ms interval) stopped firing: fired after the replacement within 300 ms / from clock / to clock",atomic_load(&after)-1,from,to);
      dispatch_source_cancel(t); dispatch_sync(sq,^{}); dispatch_release(t); usleep(3000); }
    dispatch_release(sq); }
  // very first, while nothing else wakes the manager thread (any wake-up services the heaps of all clocks and would hide a dead kernel timer):
  // a lone pending timer is cancelled (or parked at FOREVER) before it fires: the clock's heap empties and the kernel timer is
  // disarmed; timers armed on that clock afterwards must still fire
  for(int c=0;c<3 && !viol;c++) for(int how=0; how<2 && !viol; how++){
    dispatch_time_t base = c==0? DISPATCH_TIME_NOW : c==1? (1ull<<63) : DISPATCH_WALLTIME_NOW;
    dispatch_source_t lone=dispatch_source_create(DISPATCH_SOURCE_TYPE_TIMER,0,0,q); dispatch_source_set_event_handler(lone,^{});
    dispatch_source_set_timer(lone,dispatch_time(base,30ll*1000000000ll),DISPATCH_TIME_FOREVER,0); dispatch_activate(lone); usleep(60000);
    if(how==0) dispatch_source_cancel(lone); else dispatch_source_set_timer(lone,DISPATCH_TIME_FOREVER,DISPATCH_TIME_FOREVER,0);
    usleep(60000);
    __block _Atomic int aran=0, tran=0; dispatch_after(dispatch_time(base,80000000ll),q,^{ atomic_store(&aran,1); });
    dispatch_source_t ds=dispatch_source_create(DISPATCH_SOURCE_TYPE_TIMER,0,0,q); dispatch_source_set_event_handler(ds,^{ atomic_store(&tran,1); });
    dispatch_source_set_timer(ds,dispatch_time(base,120000000ll),DISPATCH_TIME_FOREVER,0); dispatch_activate(ds);
    for(int w=0; w<60 && !(atomic_load(&aran)&&atomic_load(&tran)); w++) usleep(50000);
    if(!atomic_load(&aran)) fail("a dispatch_after block armed after the clock's only pending timer had been cancelled / parked never ran (3 s, 80 ms deadline): clock/how",c,how,0);
    else if(!atomic_load(&tran)) fail("a timer armed after the clock's only pending timer had been cancelled / parked never fired (3 s, 120 ms start): clock/how",c,how,0);
    dispatch_source_cancel(ds); dispatch_release(ds); if(how==1) dispatch_source_cancel(lone); dispatch_release(lone); }
  // first, while the manager thread has nothing else to do: re-arming the earliest timer to an earlier time: it must follow the new settings (fire within a generous 5 s of a 150 ms start,
  // not at the old start two minutes out) — alone in its heap, or with later timers below it
  for(int c=0;c<3 && !viol;c++) for(int others=0; others<2 && !viol; others++){
    dispatch_time_t base = c==0? DISPATCH_TIME_NOW : c==1? (1ull<<63) : DISPATCH_WALLTIME_NOW;
    dispatch_source_t later[4]; for(int j=0;j<(others?4:0);j++){ later[j]=dispatch_source_create(DISPATCH_SOURCE_TYPE_TIMER,0,0,q); dispatch_source_set_event_handler(later[j],^{});
      dispatch_source_set_timer(later[j],dispatch_time(base,(int64_t)(200+j)*1000000000ll),DISPATCH_TIME_FOREVER,0); dispatch_activate(later[j]); }
    dispatch_source_t ds=dispatch_source_create(DISPATCH_SOURCE_TYPE_TIMER,0,0,q); __block _Atomic int fired=0; __block uint64_t ns=0;
    dispatch_source_set_event_handler(ds,^{ uint64_t tn=clk(CLK[c]); if(tn<ns) fail("re-armed timer fired before its new start: clock/early_ns",c,(long)(ns-tn),0); atomic_fetch_add(&fired,1); });
    dispatch_source_set_timer(ds,dispatch_time(base,120ll*1000000000ll),DISPATCH_TIME_FOREVER,0); dispatch_activate(ds);
    usleep(100000);
    ns=clk(CLK[c])+150000000ull; dispatch_source_set_timer(ds,dispatch_time(base,150000000ll),DISPATCH_TIME_FOREVER,0);
    for(int w=0; w<100 && !atomic_load(&fired); w++) usleep(50000);
    if(!atomic_load(&fired)) fail("a timer re-armed to an earlier start did not fire within 5 s of its new start (150 ms): clock/later-timers-pending",c,others,0);
    dispatch_source_cancel(ds); for(int j=0;j<(others?4:0);j++) dispatch_source_cancel(later[j]); }
  // settings replaced while a firing of the old settings is latched but not yet delivered (the target queue is busy): the handler
  // must follow only the new settings - not before the new start, count bounded by the boundaries of the new schedule
  for(int c=0;c<6 && !viol;c++){ int once=c/3; c%=3;     /* once: the old schedule fires a single time before it is replaced (the timer stays armed); otherwise several times (it is disarmed) */
    dispatch_queue_t tq=dispatch_queue_create("c11t",NULL); dispatch_semaphore_t gate=dispatch_semaphore_create(0);
    dispatch_time_t base = c==0? DISPATCH_TIME_NOW : c==1? (1ull<<63) : DISPATCH_WALLTIME_NOW;
    dispatch_source_t ds=dispatch_source_create(DISPATCH_SOURCE_TYPE_TIMER,0,0,tq); __block uint64_t ns=0; __block _Atomic long tot=0; __block _Atomic int inv=0; uint64_t iv=40000000ull;
    dispatch_source_set_event_handler(ds,^{ uint64_t tn=clk(CLK[c]); unsigned long n=dispatch_source_get_data(ds); atomic_fetch_add(&inv,1);
      if(ns && tn<ns) fail("a timer whose settings were replaced ran its handler before the new start (a firing of the old settings survived): clock/early_ns",c,(long)(ns-tn),0);
      long t=atomic_fetch_add(&tot,(long)n)+(long)n; long bounds = (ns && tn>=ns) ? (long)((tn-ns)/iv)+1 : 0;
      if(ns && t>bounds) fail("a timer whose settings were replaced reported more firings than boundaries of the new schedule passed: clock/total/boundaries",c,t,bounds); });
    dispatch_source_set_timer(ds,dispatch_time(base,10000000ll),once?10000000000ull:15000000ull,0); dispatch_activate(ds);
    dispatch_async(tq,^{ dispatch_semaphore_wait(gate,DISPATCH_TIME_FOREVER); });       // the target queue is busy: firings latch
    usleep(120000);
    ns=clk(CLK[c])+400000000ull; atomic_store(&tot,0); dispatch_source_set_timer(ds,dispatch_time(base,400000000ll),iv,0);
    usleep(20000); dispatch_semaphore_signal(gate);
    for(int w=0; w<40 && !atomic_load(&inv); w++) usleep(50000);
    if(!atomic_load(&inv)) fail("a timer whose settings were replaced never fired within 2 s of its new start (400 ms): clock",c,0,0);
    dispatch_source_cancel(ds); dispatch_release(ds); dispatch_release(tq); c+=once*3; }
  // a repeating timer suspended across exactly one interval boundary and resumed in the middle of the next interval: the firing that
  // happened while it was suspended is delivered after the resume; the total reported never exceeds the boundaries that have passed
  for(int c=0;c<3 && !viol;c++){ dispatch_queue_t tq=dispatch_queue_create("c11s",NULL);
    dispatch_time_t base = c==0? DISPATCH_TIME_NOW : c==1? (1ull<<63) : DISPATCH_WALLTIME_NOW; uint64_t iv=120000000ull;
    dispatch_source_t ds=dispatch_source_create(DISPATCH_SOURCE_TYPE_TIMER,0,0,tq); __block _Atomic long tot=0; __block _Atomic int inv=0;
    uint64_t st=clk(CLK[c])+60000000ull;
    dispatch_source_set_event_handler(ds,^{ uint64_t tn=clk(CLK[c]); unsigned long n=dispatch_source_get_data(ds); atomic_fetch_add(&inv,1);
      long t=atomic_fetch_add(&tot,(long)n)+(long)n; long bounds = tn>=st ? (long)((tn-st)/iv)+1 : 0;
      if(t>bounds) fail("a repeating timer suspended across one boundary and resumed mid-interval reported more firings than interval boundaries passed: clock/total/boundaries",c,t,bounds); });
    dispatch_source_set_timer(ds,dispatch_time(base,60000000ll),iv,0); dispatch_activate(ds);
    for(int w=0; w<100 && !atomic_load(&inv); w++) usleep(10000);          // the first firing, at +60 ms
    usleep(15000); dispatch_suspend(ds);                                   // ~ +85 ms
    uint64_t until=st+iv+25000000ull; while(clk(CLK[c])<until) usleep(2000);   // the boundary at +180 ms passes while suspended
    int before=atomic_load(&inv); dispatch_resume(ds);                     // ~ +205 ms: before the boundary at +300 ms
    for(int w=0; w<100 && atomic_load(&inv)==before; w++) usleep(10000);
    if(atomic_load(&inv)==before) fail("a repeating timer that fired while suspended did not run its handler within 1 s of the resume: clock",c,0,0);
    usleep(150000);
    dispatch_source_cancel(ds); dispatch_release(ds); dispatch_release(tq); }
  struct after *A=calloc((size_t)na,sizeof *A);
  uint64_t horizon_ms = 1500;
  for(int i=0;i<na;i++){ struct after *a=&A[i]; a->clock=(int)(rnd()%3); int64_t d;
    switch(rnd()%6){ case 0: d=-(int64_t)(rnd()%1000000000); break; case 1: d=0; break; case 2: d=(int64_t)(rnd()%1000000); break; default: d=(int64_t)(rnd()%(horizon_ms*1000000)); }
    dispatch_time_t base = a->clock==0? DISPATCH_TIME_NOW : a->clock==1? (1ull<<63) : DISPATCH_WALLTIME_NOW;
    uint64_t now=clk(CLK[a->clock]); dispatch_time_t when=dispatch_time(base,d);
    // the deadline on its own clock, computed from a reading taken BEFORE dispatch_time read the clock: a lower bound
    a->deadline = d<0 && (uint64_t)(-d)>now ? 0 : now+(uint64_t)d;
    dispatch_after(when,q,^{ uint64_t t=clk(CLK[a->clock]); if(t<a->deadline) fail("dispatch_after block ran before its deadline: idx/early_ns/clock",i,(long)(a->deadline-t),a->clock);
      if(atomic_fetch_add(&a->runs,1)) fail("dispatch_after block ran twice: idx",i,0,0); }); }
  struct tmr *T=calloc((size_t)nt,sizeof *T);
  for(int i=0;i<nt;i++){ struct tmr *t=&T[i]; t->clock=(int)(rnd()%3); t->ds=dispatch_source_create(DISPATCH_SOURCE_TYPE_TIMER,0,0,q);
    dispatch_time_t base = t->clock==0? DISPATCH_TIME_NOW : t->clock==1? (1ull<<63) : DISPATCH_WALLTIME_NOW;
    uint64_t delay=rnd()%(400*1000000ull); t->interval = (rnd()%3==0)? DISPATCH_TIME_FOREVER : 5000000ull+rnd()%(120*1000000ull);
    uint64_t now=clk(CLK[t->clock]); t->start=now+delay;
    dispatch_source_set_event_handler(t->ds,^{ uint64_t tn=clk(CLK[t->clock]); unsigned long n=dispatch_source_get_data(t->ds);
      uint64_t st = t->replaced? t->new_start : t->start;
      if(tn<st) fail("timer handler invoked before its start time: idx/early_ns/clock",i,(long)(st-tn),t->clock);
      if(n==0) fail("timer handler saw data 0: idx",i,0,0);
      long tot=atomic_fetch_add(&t->total,(long)n)+(long)n; atomic_fetch_add(&t->fires,1);
      long bounds = tn<st?0 : (t->interval==DISPATCH_TIME_FOREVER? 1 : (long)((tn-st)/t->interval)+1);
      if(!t->replaced && tot>bounds) fail("timer reported more firings than interval boundaries passed: idx/total/boundaries",i,tot,bounds); });
    dispatch_source_set_timer(t->ds,dispatch_time(base,(int64_t)delay),t->interval, leeway_pick());
    dispatch_activate(t->ds); }
  // churn: cancel some, replace settings of some, suspend/resume some
  usleep(50000);
  for(int i=0;i<nt;i++){ struct tmr *t=&T[i]; switch(rnd()%6){
    case 0: atomic_store(&t->cancelled,1); dispatch_source_cancel(t->ds); break;
    case 1: { dispatch_suspend(t->ds); // replace settings while suspended so that no firing of the old settings can race the bookkeeping
        dispatch_time_t base = t->clock==0? DISPATCH_TIME_NOW : t->clock==1? (1ull<<63) : DISPATCH_WALLTIME_NOW; uint64_t delay=300*1000000ull+rnd()%(300*1000000ull);
        dispatch_barrier_sync(q,^{}); uint64_t now=clk(CLK[t->clock]); t->new_start=now+delay; t->replaced=1; atomic_store(&t->total,0); atomic_store(&t->fires,0);
        dispatch_source_set_timer(t->ds,dispatch_time(base,(int64_t)delay),t->interval,leeway_pick()); dispatch_resume(t->ds); break; }
    case 2: dispatch_suspend(t->ds); usleep(1000); dispatch_resume(t->ds); break;
    default: break; } }
  // liveness: everything must have fired within horizon + generous slack
  for(int w=0; w<600; w++){ int pend=0; for(int i=0;i<na;i++) if(!A[i].runs) pend++; for(int i=0;i<nt;i++) if(!T[i].cancelled && !T[i].fires) pend++; if(!pend||viol) break; usleep(50000); }
  for(int i=0;i<na;i++) if(A[i].runs!=1) fail("dispatch_after block run count != 1 after 30s: idx/runs",i,A[i].runs,0);
  for(int i=0;i<nt;i++) if(!T[i].cancelled && !T[i].fires) fail("armed timer never fired within 30s: idx/clock",i,T[i].clock,0);
  long fires=0; for(int i=0;i<nt;i++){ fires+=T[i].fires; if(!T[i].cancelled) dispatch_source_cancel(T[i].ds); }
  if(viol){ printf("VIOL seed=%llu %s\n",(unsigned long long)seed,vmsg); return 1; }
  printf("ok after=%d timers=%d fires=%ld\n",na,nt,fires); return 0; }
