// C02 oracle for a serial queue that is suspended and resumed by its OWN running item: the item suspends the queue, further work arrives
// (an asynchronous item, or a thread that parks in dispatch_sync / dispatch_async_and_wait), the item resumes the queue and goes on
// running for a while. The resume must not hand the queue on: nothing else of that queue starts before the item has returned.
// usage: c02_selfresume <seed> <rounds>
#define _GNU_SOURCE
#include <dispatch/dispatch.h>
#include <stdio.h>
#include <stdint.h>
#include <stdlib.h>
#include <unistd.h>
#include <pthread.h>
#include <stdatomic.h>
extern void dispatch_async_and_wait(dispatch_queue_t, dispatch_block_t);
static uint64_t seed, rs; static uint64_t rnd(void){ rs += 0x9E3779B97F4A7C15ull; uint64_t z=rs; z=(z^(z>>30))*0xBF58476D1CE4E5B9ull; z=(z^(z>>27))*0x94D049BB133111EBull; return z^(z>>31); }
static atomic_int viol; static char vmsg[300];
static void fail(const char *m, long a, long b, long c){ if(!atomic_exchange(&viol,1)) snprintf(vmsg,sizeof vmsg,"%s %ld %ld %ld",m,a,b,c); }
static dispatch_queue_t q; static atomic_int inside, second_ran, parked; static int shape;
static void second(void){ if(atomic_load(&inside)) fail("an item of a serial queue started while another item of that queue - one that had suspended and resumed the queue itself - was still running: shape (0 async item queued, 1 dispatch_sync parked, 2 dispatch_async_and_wait parked) / submitted by dispatch_sync",shape,0,0); atomic_store(&second_ran,1); }
static void *parker(void *a){ (void)a; atomic_store(&parked,1); if(shape==1) dispatch_sync(q,^{ second(); }); else dispatch_async_and_wait(q,^{ second(); }); return 0; }
static void first(void){ atomic_store(&inside,1); dispatch_suspend(q); pthread_t t; int have=0;
  if(shape==0) dispatch_async(q,^{ second(); }); else { pthread_create(&t,0,parker,0); have=1; for(int w=0; w<20000 && !atomic_load(&parked); w++) usleep(50); usleep(2000); }
  dispatch_resume(q); usleep((useconds_t)(3000+rnd()%5000)); atomic_store(&inside,0);
  if(have) pthread_detach(t); }
int main(int argc,char**argv){ seed=argc>1?strtoull(argv[1],0,0):1; int rounds=argc>2?atoi(argv[2]):30; rs=seed; long n=0;
  for(int r=0;r<rounds && !viol;r++){ shape=(int)(rnd()%3); int how=(int)(rnd()%2); q=dispatch_queue_create("sr.q",NULL); atomic_store(&second_ran,0); atomic_store(&parked,0); atomic_store(&inside,0);
    if(how) dispatch_sync(q,^{ first(); }); else dispatch_async(q,^{ first(); });
    for(int w=0; w<5000 && !atomic_load(&second_ran) && !viol; w++) usleep(1000);
    if(!viol && !atomic_load(&second_ran)) fail("the work that arrived while a serial queue was suspended by its own item never ran after the resume (5 s): shape",shape,0,0);
    dispatch_sync(q,^{}); dispatch_release(q); n++; }
  if(viol){ printf("ORACLE VIOL seed=%llu %s\n",(unsigned long long)seed,vmsg); fflush(stdout); _exit(1); }
  printf("ORACLE ok items=%ld\n",n); fflush(stdout); _exit(0); }
