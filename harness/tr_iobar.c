// L-trace + L-api harness for the barrier clause of C14: one dispatch I/O channel (a pipe's write end as a stream, then a regular
// file with random access), one submitting thread issuing operations and barriers in a seeded random order. Recorded, with one
// global sequence counter: each submission (before the API call), every operation entering / leaving the descriptor's barrier
// group (the atomic operations of dispatch_group_enter / dispatch_group_leave on its state word), every suspension / resumption
// of the barrier queue (successful compare-and-swap of _dispatch_lane_suspend / _dispatch_lane_resume on its dq_state), and each
// barrier block running. The record is replayed through IoCh.exec (dvdriver iobar).
// Oracle on the same run: when a barrier block runs, the handlers of all operations submitted before it have been given done (the
// serial handler queue is flushed first: completion of the operation, not of its handler, is what the barrier waits for), and no
// operation submitted after it has had a handler call.
// usage: tr_iobar <seed> <actions>
#define _GNU_SOURCE
#include <dispatch/dispatch.h>
#include <stdio.h>
#include <stdint.h>
#include <stdlib.h>
#include <string.h>
#include <unistd.h>
#include <fcntl.h>
#include <pthread.h>
#include <stdatomic.h>
#include <sys/syscall.h>
typedef void (*cb_t)(const volatile void *addr, unsigned size, int op, uint64_t o, uint64_t n, const char *func, int line);
extern cb_t _dispatch_verif_atomic_cb;
extern volatile void *_dispatch_verif_queue_state_addr(dispatch_queue_t dq);
extern void _dispatch_verif_io_peek(dispatch_io_t channel, dispatch_queue_t *bq, dispatch_group_t *bg, volatile void **group_state);
static uint64_t rs; static uint64_t rnd(void){ rs += 0x9E3779B97F4A7C15ull; uint64_t z=rs; z=(z^(z>>30))*0xBF58476D1CE4E5B9ull; z=(z^(z>>27))*0x94D049BB133111EBull; return z^(z>>31); }
typedef struct { uint64_t seq; int kind; long id; int tid; } ev_t;   // kind: 0 sub-op 1 sub-bar 2 enter 3 leave 4 suspend 5 ran 6 resume
#define MAXEV (1<<18)
static ev_t evs[MAXEV]; static atomic_ulong nev, seq; static volatile void *GS, *QS; static atomic_int tracing;
static __thread int mytid;
static void rec(int kind, long id){ if(!mytid) mytid=(int)syscall(SYS_gettid); unsigned long k=atomic_fetch_add(&nev,1); if(k>=MAXEV) return; evs[k]=(ev_t){atomic_fetch_add(&seq,1),kind,id,mytid}; }
static void cb(const volatile void *addr, unsigned size, int op, uint64_t o, uint64_t n, const char *func, int line){ (void)size;(void)o;(void)n;(void)line;
  if(!atomic_load(&tracing)) return;
  if(addr==GS){ if(!strcmp(func,"dispatch_group_enter")) rec(2,0); else if(!strcmp(func,"dispatch_group_leave") && op==5) rec(3,0); }
  else if(addr==QS && op==3){ if(!strcmp(func,"_dispatch_lane_suspend")) rec(4,0); else if(!strcmp(func,"_dispatch_lane_resume")) rec(6,0); } }
static atomic_int viol; static char vmsg[300];
static void fail(const char *m, long a, long b, long c){ if(!atomic_exchange(&viol,1)) snprintf(vmsg,sizeof vmsg,"%s %ld %ld %ld",m,a,b,c); }
#define MAXA 4096
static _Atomic int op_done[MAXA], op_calls[MAXA]; static int is_bar[MAXA]; static atomic_int bars_ran;
static long scenario(int file, int nact, long base){ int p[2]={-1,-1}; int fd; char path[64]="";
  if(file){ snprintf(path,sizeof path,"/var/tmp/tr_iobar.%d",(int)getpid()); fd=open(path,O_RDWR|O_CREAT|O_TRUNC,0600); if(fd<0) return 0; if(ftruncate(fd,1<<16)){} }
  else { if(pipe(p)) return 0; fd=p[1]; (void)fcntl(p[1],F_SETPIPE_SZ,1<<20); }
  dispatch_queue_t hq=dispatch_queue_create("h",NULL), tq=dispatch_queue_create("t",NULL);
  dispatch_io_t ch=dispatch_io_create(file?DISPATCH_IO_RANDOM:DISPATCH_IO_STREAM,fd,tq,^(int e){ (void)e; });
  dispatch_semaphore_t s0=dispatch_semaphore_create(0); dispatch_io_barrier(ch,^{ dispatch_semaphore_signal(s0); }); dispatch_semaphore_wait(s0,DISPATCH_TIME_FOREVER);
  dispatch_queue_t bq; dispatch_group_t bg; _dispatch_verif_io_peek(ch,&bq,&bg,&GS); QS=_dispatch_verif_queue_state_addr(bq); usleep(2000);
  atomic_store(&tracing,1);
  for(int a=0;a<nact && !viol;a++){ long id=base+a; int k=(int)(rnd()%5);
    if(k==0){ is_bar[id]=1; rec(1,id); dispatch_io_barrier(ch,^{ rec(5,id); atomic_fetch_add(&bars_ran,1);
        dispatch_sync(hq,^{});   // an operation's last handler call is submitted to the (serial) handler queue before the operation leaves the group: let it run
        for(long i=base;i<id;i++) if(!is_bar[i] && !atomic_load(&op_done[i])){ fail("a barrier block ran before an operation submitted before it had completed: barrier/operation",id,i,0); break; }
        for(long i=id+1;i<base+nact;i++) if(!is_bar[i] && atomic_load(&op_calls[i])){ fail("an operation submitted after a barrier had a handler call before the barrier block ran: barrier/operation",id,i,0); break; }
        if(rnd()%3==0) usleep(rnd()%300); }); }
    else { rec(0,id); size_t len=1+(size_t)(rnd()%600);
      dispatch_io_handler_t h=^(bool done, dispatch_data_t d, int e){ (void)d;(void)e; atomic_fetch_add(&op_calls[id],1); if(done) atomic_store(&op_done[id],1); };
      if(file && k==1) dispatch_io_read(ch,(off_t)(rnd()%30000),len,hq,h);
      else { void *b=malloc(len); memset(b,(int)id,len); dispatch_data_t d=dispatch_data_create(b,len,NULL,DISPATCH_DATA_DESTRUCTOR_FREE); dispatch_io_write(ch,(off_t)(rnd()%30000),d,hq,h); dispatch_release(d); } }
    if(rnd()%4==0) usleep(rnd()%200); }
  // quiesce: a final barrier
  dispatch_semaphore_t s1=dispatch_semaphore_create(0); long fin=base+nact; is_bar[fin]=1; rec(1,fin); dispatch_io_barrier(ch,^{ rec(5,fin); dispatch_semaphore_signal(s1); });
  if(dispatch_semaphore_wait(s1,dispatch_time(DISPATCH_TIME_NOW,20ll*1000000000ll))) fail("the final barrier of the channel never ran (20 s)",file,0,0);
  usleep(5000); atomic_store(&tracing,0);
  for(long i=base;i<base+nact && !viol;i++) if(!is_bar[i] && !atomic_load(&op_done[i])) fail("an operation had not completed when the last barrier ran: operation",i,0,0);
  dispatch_io_close(ch,0); dispatch_release(ch); usleep(3000); if(file){ close(fd); unlink(path); } else { close(p[0]); close(p[1]); }
  return nact+1; }
int main(int argc,char**argv){ uint64_t seed=argc>1?strtoull(argv[1],0,0):1; int nact=argc>2?atoi(argv[2]):300; if(nact>MAXA/2-2) nact=MAXA/2-2; rs=seed;
  _dispatch_verif_atomic_cb=cb; long n=0;
  printf("S 0\n"); n+=scenario(0,nact,0);
  unsigned long k0=atomic_load(&nev);
  if(!viol){ n+=scenario(1,nact,MAXA/2); }
  _dispatch_verif_atomic_cb=0;
  if(viol) printf("ORACLE VIOL seed=%llu %s\n",(unsigned long long)seed,vmsg); else printf("ORACLE ok items=%ld events=%lu barriers_ran=%d\n",n,atomic_load(&nev),atomic_load(&bars_ran));
  unsigned long ne=atomic_load(&nev); if(ne>MAXEV) ne=MAXEV;
  // events of one scenario are contiguous in seq order; sort by seq (insertion into a copy is fine: nearly sorted)
  for(unsigned long i=1;i<ne;i++){ ev_t e=evs[i]; long j=(long)i-1; while(j>=0 && evs[j].seq>e.seq){ evs[j+1]=evs[j]; j--; } evs[j+1]=e; }
  for(unsigned long i=0;i<ne;i++){ if(i==k0) printf("S 1\n"); printf("E %d %ld %d\n",evs[i].kind,evs[i].id,evs[i].tid); }
  return viol?1:0; }
