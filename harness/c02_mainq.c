// C02 oracle for the main queue drained run-loop style (_dispatch_get_main_queue_handle_4CF + _dispatch_main_queue_callback_4CF, the
// CoreFoundation integration path taken by programs that do not call dispatch_main()). Several threads submit asynchronous and
// synchronous items; items submit further items; some items spin a NESTED run loop that calls the drain callback again, several
// times (a nested call must be refused: the queue is already being drained by this very thread).
// Oracle: no two items of the main queue overlap; an asynchronous item X starts before an asynchronous item Y whenever the
// submission of X returned before the submission of Y began; every item runs exactly once; a synchronous call returns after its item.
// usage: c02_mainq <seed> <threads> <ops>
#define _GNU_SOURCE
#include <dispatch/dispatch.h>
#include <stdio.h>
#include <stdint.h>
#include <stdlib.h>
#include <string.h>
#include <unistd.h>
#include <poll.h>
#include <pthread.h>
#include <stdatomic.h>
#include <sys/syscall.h>
extern void _dispatch_main_queue_callback_4CF(void *msg);
extern int _dispatch_get_main_queue_handle_4CF(void);
static uint64_t seed; static __thread uint64_t rng;
static inline uint64_t rnd(void){ if(!rng) rng = seed ^ (uint64_t)syscall(SYS_gettid)*0x9e3779b97f4a7c15ull; rng ^= rng<<13; rng ^= rng>>7; rng ^= rng<<17; return rng; }
static atomic_int viol; static char vmsg[300];
static void fail(const char *m, long a, long b, long c){ if(!atomic_exchange(&viol,1)) snprintf(vmsg,sizeof vmsg,"%s %ld %ld %ld",m,a,b,c); }
#define MAXI 20000
struct it { long sub_begin, sub_done, start; _Atomic int runs; int sync; int nest; };
static struct it *its; static atomic_long nits, ticket, running, nested_calls, started_n;
static int mh; static int nops, nthr; static atomic_int subs_done;
static struct it *new_item(int sync){ long k=atomic_fetch_add(&nits,1); if(k>=MAXI) return NULL; its[k].sync=sync; its[k].sub_done=-1; its[k].start=-1; return &its[k]; }
static void submit_async(int depth);
static void body(void *c){ struct it *x=c; int depth = x->nest;
  if(atomic_fetch_add(&running,1)) fail("two items of the main queue overlapped (an item started while another was running): item",(long)(x-its),0,0);
  if(atomic_fetch_add(&x->runs,1)) fail("an item of the main queue ran more than once: item",(long)(x-its),0,0);
  x->start=atomic_fetch_add(&ticket,1); atomic_fetch_add(&started_n,1);
  if(depth==0 && rnd()%5==0){          // a nested run loop inside the item
    int n=2+(int)(rnd()%3);
    for(int j=0;j<n;j++){ if(rnd()%2) submit_async(1); struct pollfd pf={mh,POLLIN,0}; poll(&pf,1,1); _dispatch_main_queue_callback_4CF(NULL); atomic_fetch_add(&nested_calls,1); } }
  else if(rnd()%6==0) submit_async(1);
  atomic_fetch_sub(&running,1); }
static void submit_async(int depth){ struct it *x=new_item(0); if(!x) return; x->nest=depth; x->sub_begin=atomic_fetch_add(&ticket,1);
  dispatch_async_f(dispatch_get_main_queue(), x, body); x->sub_done=atomic_fetch_add(&ticket,1); }
static void *submitter(void *a){ (void)a;
  for(int i=0;i<nops && !viol;i++){ uint64_t k=rnd()%8;
    if(k<6) submit_async(0);
    else { struct it *x=new_item(1); if(!x) break; x->nest=1; x->sub_begin=atomic_fetch_add(&ticket,1); dispatch_sync_f(dispatch_get_main_queue(), x, body); x->sub_done=atomic_fetch_add(&ticket,1);
      if(atomic_load(&x->runs)!=1) fail("dispatch_sync on the main queue returned without its item having run exactly once: runs",atomic_load(&x->runs),0,0); }
    if(rnd()%4==0) usleep(rnd()%300); }
  atomic_fetch_add(&subs_done,1); return 0; }
// ---- run-loop queues (_dispatch_runloop_root_queue_create_4CF): thread-bound serial queues drained one item per call of
// _dispatch_runloop_root_queue_perform_4CF by their thread. An item may give back the client's last reference to the queue while it
// runs; the items still queued are then run by the pool - after the running item has finished, one at a time, in order.
extern dispatch_queue_serial_t _dispatch_runloop_root_queue_create_4CF(const char *label, unsigned long flags);
extern bool _dispatch_runloop_root_queue_perform_4CF(dispatch_queue_t queue);
struct rl { _Atomic int running, next, done; int n, rel_at; dispatch_queue_t q; };
struct rli { struct rl *r; int idx; };
static void rl_item(void *c){ struct rli *x=c; struct rl *r=x->r;
  if(atomic_fetch_add(&r->running,1)) fail("two items of a run-loop queue overlapped (an item started while another was running): item/released-at",x->idx,r->rel_at,0);
  int s=atomic_fetch_add(&r->next,1); if(s!=x->idx) fail("items of a run-loop queue started out of submission order: item/position",x->idx,s,0);
  if(x->idx==r->rel_at) dispatch_release(r->q);            // the client does not need the queue any more
  usleep((useconds_t)(x->idx==r->rel_at ? 3000+rnd()%20000 : rnd()%1500));
  atomic_fetch_sub(&r->running,1); atomic_fetch_add(&r->done,1); free(x); }
static void *rl_thread(void *a){ struct rl *r=a; r->q=_dispatch_runloop_root_queue_create_4CF("c02.rl",0);
  for(int i=0;i<r->n;i++){ struct rli *x=malloc(sizeof *x); x->r=r; x->idx=i; dispatch_async_f(r->q,x,rl_item); }
  for(int i=0;i<=r->rel_at;i++) (void)_dispatch_runloop_root_queue_perform_4CF(r->q);   // one item per turn, up to and including the releasing one
  for(int w=0; w<50000 && atomic_load(&r->done)<r->n; w++) usleep(100);
  if(atomic_load(&r->done)<r->n) fail("items queued on a run-loop queue behind the item that released it never ran (5 s): done/items",atomic_load(&r->done),r->n,0);
  return 0; }
static long runloop_rounds(int rounds){ long n=0; for(int k=0;k<rounds && !viol;k++){ struct rl *r=calloc(1,sizeof *r); r->n=2+(int)(rnd()%5); r->rel_at=(int)(rnd()%(unsigned)(r->n-1));
    pthread_t t; pthread_create(&t,0,rl_thread,r); pthread_join(t,0); n+=r->n; usleep(2000); } return n; }
int main(int argc,char**argv){ seed=argc>1?strtoull(argv[1],0,0):1; nthr=argc>2?atoi(argv[2]):3; nops=argc>3?atoi(argv[3]):300;
  its=calloc(MAXI,sizeof *its); mh=_dispatch_get_main_queue_handle_4CF();
  long rl_items=runloop_rounds(12);
  pthread_t th[16]; for(int i=0;i<nthr;i++) pthread_create(&th[i],0,submitter,0);
  int idle=0;
  for(long spins=0; spins<2000000 && !viol; spins++){ struct pollfd pf={mh,POLLIN,0}; poll(&pf,1,2); _dispatch_main_queue_callback_4CF(NULL);
    long n=atomic_load(&nits); if(n>MAXI) n=MAXI;
    if(atomic_load(&subs_done)==nthr && atomic_load(&started_n)>=n){ if(++idle>3) break; } else idle=0; }
  if(!viol && atomic_load(&subs_done)<nthr) fail("the workload over the run-loop drained main queue did not finish: submitters done/items started",atomic_load(&subs_done),atomic_load(&started_n),0);
  long n=atomic_load(&nits); if(n>MAXI) n=MAXI;
  for(long i=0;i<n && !viol;i++) if(atomic_load(&its[i].runs)!=1) fail("an item submitted to the main queue did not run exactly once: item/runs",i,atomic_load(&its[i].runs),0);
  // submission order among asynchronous items: sort by start ticket, then every item's sub_begin must exceed the largest sub_done-bound
  // of items that started AFTER it ... checked directly on pairs (n is a few thousand)
  for(long i=0;i<n && !viol;i++){ if(its[i].sync) continue;
    for(long j=0;j<n;j++){ if(its[j].sync || i==j) continue;
      if(its[i].sub_done>=0 && its[i].sub_done<its[j].sub_begin && its[i].start>its[j].start){ fail("asynchronous items of the main queue started out of submission order: item submitted first (returned) / item submitted later but started earlier",i,j,0); break; } } }
  if(viol){ printf("ORACLE VIOL seed=%llu %s\n",(unsigned long long)seed,vmsg); fflush(stdout); _exit(1); }
  printf("ORACLE ok items=%ld nested_callback_calls=%ld runloop_queue_items=%ld\n",n+rl_items,atomic_load(&nested_calls),rl_items); fflush(stdout); _exit(0); }
