// L-trace + L-api harness for custom data sources (C15): DATA_ADD / DATA_OR / DATA_REPLACE sources on global / concurrent /
// serial target queues, 4 merging threads racing the handler, the handler occasionally suspending/resuming its own source.
// Oracle: sum / union / last-value conservation once merging stops, handler never reports 0, never runs on two threads at
// once, merges made while suspended or while the handler runs are delivered. ds_pending_data transitions are recorded.
// usage: tr_source <seed> <merges per thread>
#define _GNU_SOURCE
#include <dispatch/dispatch.h>
#include <stdio.h>
#include <stdlib.h>
#include <stdint.h>
#include <string.h>
#include <unistd.h>
#include <pthread.h>
#include <sched.h>
#include <stdatomic.h>
#include <sys/syscall.h>
typedef void (*cb_t)(const volatile void *addr, unsigned size, int op, uint64_t o, uint64_t n, const char *func, int line);
extern cb_t _dispatch_verif_atomic_cb;
extern void (*_dispatch_verif_yield_cb)(const volatile void *addr, const char *func, int line);
typedef struct { uint64_t seq; int tid; int mode; int op; uint64_t o, n; const char *func; } ev_t;
#define MAXEV (1<<21)
static ev_t *evs; static atomic_ulong nev, seq; static __thread int mytid; static int cur_mode;
static void cb(const volatile void *addr, unsigned size, int op, uint64_t o, uint64_t n, const char *func, int line){ (void)addr;(void)size;(void)line;
  if(strcmp(func,"dispatch_source_merge_data") && strcmp(func,"_dispatch_source_latch_and_call")) return; if(!mytid) mytid=(int)syscall(SYS_gettid);
  unsigned long k=atomic_fetch_add(&nev,1); if(k>=MAXEV) return; evs[k]=(ev_t){atomic_fetch_add(&seq,1),mytid,cur_mode,op,o,n,func}; }
static __thread uint64_t rng; static uint64_t seed;
static inline uint64_t rnd(void){ if(!rng) rng = seed ^ (uint64_t)syscall(SYS_gettid)*0x9e3779b97f4a7c15ull; rng ^= rng<<13; rng ^= rng>>7; rng ^= rng<<17; return rng; }
static void ycb(const volatile void *addr, const char *func, int line){ (void)addr;(void)line;
  if(strcmp(func,"dispatch_source_merge_data") && strcmp(func,"_dispatch_source_latch_and_call")) return; uint64_t r=rnd()%24; if(r==0) sched_yield(); else if(r==1) usleep(rnd()%80); }
static atomic_int viol; static char vmsg[300];
static void fail(const char *m, long a, long b, long c){ if(!atomic_exchange(&viol,1)) snprintf(vmsg,sizeof vmsg,"%s %ld %ld %ld",m,a,b,c); }
static dispatch_source_t ds; static int mode, tq; static atomic_ulong delivered, merged, orDelivered, orMerged, lastDelivered; static atomic_int inhandler; static atomic_long handler_runs;
static atomic_ulong lastMerged; static pthread_mutex_t lm = PTHREAD_MUTEX_INITIALIZER;
#define MAXV (1<<20)
static _Atomic unsigned char *was_merged;   // REPLACE: values merged so far (values < MAXV)
static void handler(void *c){ (void)c; if (atomic_fetch_add(&inhandler,1)) fail("event handler running on two threads at once: mode/target",mode,tq,0);
  unsigned long d = dispatch_source_get_data(ds); atomic_fetch_add(&handler_runs,1);
  if (!d) fail("handler invocation reported zero: mode/target",mode,tq,0);
  if (mode==0) atomic_fetch_add(&delivered,d); else if(mode==1) atomic_fetch_or(&orDelivered,d);
  else { if(d<MAXV && !was_merged[d]) fail("DATA_REPLACE delivered a value that was never merged: value",(long)d,0,0); atomic_store(&lastDelivered,d); }
  if (rnd()%3==0) sched_yield(); if (rnd()%50==0) { dispatch_suspend(ds); usleep(100); dispatch_resume(ds); }
  atomic_fetch_sub(&inhandler,1); }
static int nops;
static void *merger(void *a){ (void)a; for (int i=0;i<nops;i++){ unsigned long v = mode==0 ? 1+rnd()%5 : mode==1 ? 1ul<<(rnd()%40) : 1+rnd()%(MAXV-1);
    if (mode==0) atomic_fetch_add(&merged,v); else if(mode==1) atomic_fetch_or(&orMerged,v);
    if(mode==2){ atomic_store(&was_merged[v],1); pthread_mutex_lock(&lm); dispatch_source_merge_data(ds, v); atomic_store(&lastMerged,v); pthread_mutex_unlock(&lm); }
    else dispatch_source_merge_data(ds, v);
    if (rnd()%8==0) sched_yield(); if(rnd()%200==0) usleep(rnd()%300); } return 0; }
// a thread that keeps re-installing the (same) event handler of the ACTIVE source: each call takes the source's drain lock from
// outside the invoke path; a merge that lands while it is held must still be delivered
static atomic_int reinst_stop; static atomic_long reinstalls;
static void *reinstaller(void *a){ (void)a; while(!atomic_load(&reinst_stop)){ dispatch_source_set_event_handler_f(ds, handler); atomic_fetch_add(&reinstalls,1); if(rnd()%4==0) usleep(rnd()%80); } return 0; }
static long round_(int m, int t){ mode=m; tq=t; cur_mode=m; atomic_store(&delivered,0); atomic_store(&merged,0); atomic_store(&orDelivered,0); atomic_store(&orMerged,0); atomic_store(&lastDelivered,0); atomic_store(&lastMerged,0); atomic_store(&handler_runs,0);
  if(m==2) memset((void*)was_merged,0,MAXV);
  dispatch_queue_t q = t==0 ? (dispatch_queue_t)dispatch_get_global_queue(0,0) : t==1 ? dispatch_queue_create("c",DISPATCH_QUEUE_CONCURRENT) : dispatch_queue_create("s",NULL);
  ds = dispatch_source_create(m==0?DISPATCH_SOURCE_TYPE_DATA_ADD:m==1?DISPATCH_SOURCE_TYPE_DATA_OR:DISPATCH_SOURCE_TYPE_DATA_REPLACE,0,0,q);
  dispatch_source_set_event_handler_f(ds, handler); dispatch_activate(ds);
  pthread_t th[8]; int nthr=4; for (int i=0;i<nthr;i++) pthread_create(&th[i],0,merger,0);
  pthread_t ri; int with_ri = (m+t)%2==0; atomic_store(&reinst_stop,0); if(with_ri) pthread_create(&ri,0,reinstaller,0);
  // merges while suspended must be delivered after the resume
  usleep(2000); dispatch_suspend(ds); usleep(3000); dispatch_resume(ds);
  for (int i=0;i<nthr;i++) pthread_join(th[i],0);
  // the last merges race the last re-installations; then everything is quiet
  if(with_ri){ usleep(1000); atomic_store(&reinst_stop,1); pthread_join(ri,0); }
  int ok=0; for (int w=0; w<10000; w++){ if (m==0 ? atomic_load(&delivered)==atomic_load(&merged) : m==1 ? atomic_load(&orDelivered)==atomic_load(&orMerged) : atomic_load(&lastDelivered)==atomic_load(&lastMerged)) { ok=1; break; } usleep(1000); }
  if(!ok){ if(m==0) fail("DATA_ADD: values delivered do not sum to the values merged (10 s after the last merge): delivered/merged/target",(long)atomic_load(&delivered),(long)atomic_load(&merged),t);
    else if(m==1) fail("DATA_OR: union delivered differs from the union merged: delivered/merged/target",(long)atomic_load(&orDelivered),(long)atomic_load(&orMerged),t);
    else fail("DATA_REPLACE: the final merged value was not the last value delivered: last delivered/last merged/target",(long)atomic_load(&lastDelivered),(long)atomic_load(&lastMerged),t); }
  long runs=atomic_load(&handler_runs);
  dispatch_source_cancel(ds); usleep(2000); dispatch_release(ds); if(t) dispatch_release(q); return runs; }
// self-retriggering chain: the only merges after the first are made by the handler itself, into its own source, while it runs
// ("merges made while the handler is running are delivered afterwards") - on the default target (NULL), overcommit and plain
// global queues, serial and concurrent queues. If one is stranded the chain stops.
static atomic_long ch_left, ch_calls; static atomic_ulong ch_m, ch_d;
static void ch_record(atomic_ulong *w, unsigned long v){ if(mode==0) atomic_fetch_add(w,v); else if(mode==1) atomic_fetch_or(w,v); else atomic_store(w,v); }
static void chain_handler(void *c){ (void)c; if (atomic_fetch_add(&inhandler,1)) fail("event handler running on two threads at once (chain): mode/target",mode,tq,0);
  unsigned long d = dispatch_source_get_data(ds); atomic_fetch_add(&ch_calls,1); if(!d) fail("handler invocation reported zero (chain): mode/target",mode,tq,0);
  ch_record(&ch_d,d);
  if(atomic_fetch_sub(&ch_left,1)>1){ unsigned long v = mode==0 ? 1+rnd()%5 : mode==1 ? 1ul<<(rnd()%40) : 1+rnd()%(MAXV-1); ch_record(&ch_m,v); dispatch_source_merge_data(ds,v); }
  atomic_fetch_sub(&inhandler,1); }
static long chain_round(int m, int t){ mode=m; tq=10+t; cur_mode=m; int K=40; atomic_store(&ch_left,K); atomic_store(&ch_calls,0); atomic_store(&ch_m,0); atomic_store(&ch_d,0);
  dispatch_queue_t q = t==0 ? NULL : t==1 ? (dispatch_queue_t)dispatch_get_global_queue(0,2 /* DISPATCH_QUEUE_OVERCOMMIT */) : t==2 ? (dispatch_queue_t)dispatch_get_global_queue(0,0)
    : t==3 ? dispatch_queue_create("s",NULL) : dispatch_queue_create("c",DISPATCH_QUEUE_CONCURRENT);
  ds = dispatch_source_create(m==0?DISPATCH_SOURCE_TYPE_DATA_ADD:m==1?DISPATCH_SOURCE_TYPE_DATA_OR:DISPATCH_SOURCE_TYPE_DATA_REPLACE,0,0,q);
  dispatch_source_set_event_handler_f(ds, chain_handler); dispatch_activate(ds);
  unsigned long v0 = m==1 ? 1ul<<41 : 7; ch_record(&ch_m,v0); dispatch_source_merge_data(ds,v0);
  for(int w=0; w<5000 && atomic_load(&ch_left)>0; w++) usleep(1000);
  usleep(2000);
  if(atomic_load(&ch_left)>0) fail("a merge made by the handler into its own source while it was running was never delivered (the chain stopped): handler calls/mode/target",atomic_load(&ch_calls),m,t);
  else if(atomic_load(&ch_d)!=atomic_load(&ch_m)) fail("self-retriggering chain: delivered differs from merged (sum / union / last value): delivered/merged/mode",(long)atomic_load(&ch_d),(long)atomic_load(&ch_m),m);
  long runs=atomic_load(&ch_calls);
  dispatch_source_cancel(ds); usleep(2000); dispatch_release(ds); if(t>=3) dispatch_release(q); return runs; }
// one merge racing one re-installation of the event handler of the active source, then quiet: the merge must be delivered although
// nothing else ever wakes the source again (the re-installation holds the source's drain lock; the thread is held there at random)
extern volatile void *_dispatch_verif_queue_state_addr(dispatch_queue_t dq);
static volatile void *rh_state;
static void rh_ycb(const volatile void *addr, const char *func, int line){ (void)line; if(addr!=rh_state) return;
  if(!strcmp(func,"dispatch_source_merge_data")) return; uint64_t r=rnd()%3; if(r==0) usleep(rnd()%60); else if(r==1) sched_yield(); }
static atomic_long rh_deliv; static void rh_handler(void *c){ (void)c; atomic_fetch_add(&rh_deliv,(long)dispatch_source_get_data(ds)); }
static void *rh_merger(void *a){ (void)a; if(rnd()%2) usleep(rnd()%40); dispatch_source_merge_data(ds,1); return 0; }
static long rh_rounds(int rounds){ mode=0; tq=20; cur_mode=0; dispatch_queue_t q=dispatch_queue_create("rh",NULL);
  ds=dispatch_source_create(DISPATCH_SOURCE_TYPE_DATA_ADD,0,0,q); dispatch_source_set_event_handler_f(ds,rh_handler); dispatch_activate(ds);
  rh_state=_dispatch_verif_queue_state_addr((dispatch_queue_t)ds); _dispatch_verif_yield_cb=rh_ycb; atomic_store(&rh_deliv,0);
  for(int r=0;r<rounds && !viol;r++){ pthread_t t; pthread_create(&t,0,rh_merger,0); if(rnd()%2) usleep(rnd()%40);
    dispatch_source_set_event_handler_f(ds,rh_handler); pthread_join(t,0);
    int ok=0; for(int w=0; w<1000; w++){ if(atomic_load(&rh_deliv)==r+1){ ok=1; break; } usleep(500); }
    if(!ok) fail("a merge that raced a re-installation of the event handler of the active source was never delivered (0.5 s, source idle): round/delivered",r,atomic_load(&rh_deliv),0); }
  _dispatch_verif_yield_cb=0; rh_state=0; dispatch_source_cancel(ds); usleep(2000); dispatch_release(ds); dispatch_release(q); return rounds; }
int main(int argc, char **argv){ seed = argc>1?strtoull(argv[1],0,0):1; nops = argc>2?atoi(argv[2]):20000;
  evs=calloc(MAXEV,sizeof *evs); was_merged=calloc(MAXV,1); _dispatch_verif_atomic_cb=cb; _dispatch_verif_yield_cb=ycb; long runs=0;
  for(int m=0;m<3 && !viol;m++) for(int t=0;t<5 && !viol;t++) runs+=chain_round(m,t);
  if(!viol) runs+=rh_rounds(nops>=20000?3000:600);
  _dispatch_verif_yield_cb=ycb;
  for(int m=0;m<3 && !viol;m++) for(int t=0;t<3 && !viol;t++) runs+=round_(m,t);
  _dispatch_verif_atomic_cb=0; _dispatch_verif_yield_cb=0;
  if(viol) printf("ORACLE VIOL seed=%llu %s\n",(unsigned long long)seed,vmsg); else printf("ORACLE ok items=%ld events=%lu\n",runs,atomic_load(&nev));
  unsigned long n=atomic_load(&nev); if(n>MAXEV) n=MAXEV;
  for(unsigned long i=0;i<n;i++){ ev_t *e=&evs[i]; printf("E %lu %d %d %d %lu %lu %s\n",e->seq,e->tid,e->mode,e->op,(unsigned long)e->o,(unsigned long)e->n,e->func); }
  return viol?1:0; }
