// L-trace + L-api harness for dispatch_group (C07):
//  mode "storm <seed> <threads> <ops>": random enter/leave (nested), group_async, notify, timed waits on one group from
//     several threads with perturbation at the group's atomic sites; oracle on wait-0 soundness, wait timeout, notify
//     exactly once, notify not early (classified: with / without another wake in flight during the registration),
//     nothing left behind at quiescence; every dg_state / dg_bits transition is recorded.
//  mode "quiet <seed> <rounds>": notify registered while nobody else is inside a group call, then concurrent leaves:
//     the block must not start before the last leave started, must run exactly once; repeated over generations.
//  mode "f9": the forced schedule of finding F9 (notification registered during another notification's wake).
// output: "OFF state <o>", "ORACLE ok|VIOL|EARLY-OVERLAP ...", then "E ..." events
#define _GNU_SOURCE
#include <dispatch/dispatch.h>
#include <stdio.h>
#include <stdint.h>
#include <stdlib.h>
#include <string.h>
#include <unistd.h>
#include <pthread.h>
#include <signal.h>
#include <sched.h>
#include <stdatomic.h>
#include <time.h>
#include <sys/syscall.h>
typedef void (*cb_t)(const volatile void *addr, unsigned size, int op, uint64_t o, uint64_t n, const char *func, int line);
extern cb_t _dispatch_verif_atomic_cb;
extern void (*_dispatch_verif_yield_cb)(const volatile void *addr, const char *func, int line);
static dispatch_group_t G;
typedef struct { uint64_t seq; int tid; int off; unsigned size; int op; uint64_t o, n; const char *func; int line; } ev_t;
#define MAXEV (1<<21)
static ev_t *evs; static atomic_ulong nev, seq;
static __thread int mytid; static __thread uint64_t rng; static uint64_t seed;
static inline uint64_t rnd(void){ if(!rng) rng = seed ^ (uint64_t)syscall(SYS_gettid)*0x9e3779b97f4a7c15ull; rng ^= rng<<13; rng ^= rng>>7; rng ^= rng<<17; return rng; }
static void cb(const volatile void *addr, unsigned size, int op, uint64_t o, uint64_t n, const char *func, int line){
  long d = (char*)addr - (char*)G; if (!G || d < 0 || d >= 96) return;
  if (!mytid) mytid = (int)syscall(SYS_gettid);
  unsigned long k = atomic_fetch_add(&nev,1); if (k>=MAXEV) return;
  evs[k] = (ev_t){ atomic_fetch_add(&seq,1), mytid, (int)d, size, op, o, n, func, line }; }
static void ycb(const volatile void *addr, const char *func, int line){ (void)func;(void)line;
  long d = (char*)addr - (char*)G; if (!G || d < 0 || d >= 96) return; uint64_t r = rnd()%12; if (r==0) sched_yield(); else if (r==1) usleep(rnd()%40); }
static void dump(void){ unsigned long n = atomic_load(&nev); if (n>MAXEV) n=MAXEV;
  for (unsigned long i=0;i<n;i++){ ev_t *e=&evs[i]; printf("E %lu %d %d %u %d %016lx %016lx %s %d\n", e->seq, e->tid, e->off, e->size, e->op, e->o, e->n, e->func, e->line); } fflush(stdout); }
static uint64_t now_ns(void){ struct timespec ts; clock_gettime(CLOCK_MONOTONIC,&ts); return (uint64_t)ts.tv_sec*1000000000ull+(uint64_t)ts.tv_nsec; }
static atomic_int viol; static char vmsg[300];
static void fail(const char *m, long a, long b, long c){ if(!atomic_exchange(&viol,1)) snprintf(vmsg,sizeof vmsg,"%s %ld %ld %ld",m,a,b,c); }
// ---- bookkeeping. lowerOut = enters returned - leaves started  (a lower bound of the group's count)
//                   upperOut = enters started - leaves returned  (an upper bound)
static int nops, use_ga;
static atomic_long lowerOut, upperOut, zeroSeen, leavesStarted, inWake; static atomic_long early_overlap;
static void h_enter(void){ atomic_fetch_add(&upperOut,1); dispatch_group_enter(G); atomic_fetch_add(&lowerOut,1); }
static void h_leave(void){ atomic_fetch_add(&inWake,1); atomic_fetch_add(&leavesStarted,1); if(atomic_fetch_sub(&lowerOut,1)-1<=0) atomic_fetch_add(&zeroSeen,1);
  dispatch_group_leave(G); atomic_fetch_sub(&upperOut,1); atomic_fetch_sub(&inWake,1); }
#define MAXN (1<<16)
typedef struct { _Atomic int runs; long out_at_reg; long leaves_needed; long zero_at_reg; int overlap; } note_t;
static note_t *notes; static atomic_int nnotes;
static void note_fn(void *c){ note_t *n=c; if(atomic_fetch_add(&n->runs,1)) fail("notify block ran more than once: note",(long)(n-notes),0,0);
  // not early: if work was outstanding when the registration began, the count must have been observed at 0 since
  if(n->out_at_reg>0 && atomic_load(&zeroSeen)==n->zero_at_reg && atomic_load(&lowerOut)>0){
    if(n->overlap) atomic_fetch_add(&early_overlap,1);
    else fail("notify block started before the work entered before its registration had left (no other wake in flight at registration): note/outstanding",(long)(n-notes),n->out_at_reg,0); } }
static void h_notify(dispatch_queue_t q){ int i=atomic_fetch_add(&nnotes,1); if(i>=MAXN) return; note_t *n=&notes[i];
  // with dispatch_group_async in the mix the implied leaves cannot be bracketed: every registration may overlap a wake
  n->overlap = use_ga || atomic_load(&inWake)>0; n->zero_at_reg=atomic_load(&zeroSeen); n->out_at_reg=atomic_load(&lowerOut);
  atomic_fetch_add(&inWake,1); dispatch_group_notify_f(G,q,n,note_fn); if(atomic_load(&inWake)>1) n->overlap=1; atomic_fetch_sub(&inWake,1); }
// group_async = enter + async(work; leave): account the implied enter/leave around it
static dispatch_queue_t cq;
static void work_done(void *c){ (void)c; }
static void *client(void *a){ (void)a;
  for (int i=0;i<nops && !viol;i++){ int k=(int)(rnd()%7); if(k==2 && !use_ga) k=0; switch (k){
    case 0: case 1: h_enter(); if (rnd()%2) sched_yield(); h_leave(); break;
    case 2: { // group_async = enter + async(work; leave): the implied enter is counted once the call has returned (lower bound),
              // the implied leave as started when the work block ends
              dispatch_group_async(G, cq, ^{ if(rnd()%3==0) sched_yield(); atomic_fetch_add(&leavesStarted,1);
                  if(atomic_fetch_sub(&lowerOut,1)-1<=0) atomic_fetch_add(&zeroSeen,1); });
              atomic_fetch_add(&lowerOut,1); break; }
    case 3: h_notify(cq); break;
    case 4: { uint64_t to=rnd()%200000; long z0=atomic_load(&zeroSeen), l0=atomic_load(&lowerOut); uint64_t t0=now_ns();
        long r=dispatch_group_wait(G, dispatch_time(DISPATCH_TIME_NOW,(int64_t)to)); uint64_t t1=now_ns();
        if(r==0){ if(!(l0<=0 || atomic_load(&zeroSeen)>z0 || atomic_load(&lowerOut)<=0)) fail("dispatch_group_wait returned 0 although the group was never empty during the call: outstanding",l0,0,0); }
        else if(t1-t0<to) fail("dispatch_group_wait returned non-zero before its timeout elapsed: ns early",(long)(to-(t1-t0)),0,0);
        break; }
    case 5: h_enter(); h_enter(); h_leave(); h_leave(); break;
    case 6: { long r=dispatch_group_wait(G,DISPATCH_TIME_NOW); (void)r; break; } } }
  return NULL; }
static int storm(int nthr){
  G = dispatch_group_create(); cq = dispatch_queue_create("c", DISPATCH_QUEUE_CONCURRENT);
  _dispatch_verif_yield_cb = ycb; _dispatch_verif_atomic_cb = cb;
  pthread_t th[64]; for (int i=0;i<nthr;i++) pthread_create(&th[i],0,client,0);
  for (int i=0;i<nthr;i++) pthread_join(th[i],0);
  if(dispatch_group_wait(G, dispatch_time(DISPATCH_TIME_NOW, 20ll*1000000000ll))) fail("a waiter was left behind: dispatch_group_wait did not return within 20 s of the count reaching zero",0,0,0);
  for(int w=0; w<2000; w++){ int all=1, n=atomic_load(&nnotes); if(n>MAXN) n=MAXN; for(int i=0;i<n;i++) if(!notes[i].runs) all=0; if(all) break; usleep(1000); }
  _dispatch_verif_atomic_cb = 0; _dispatch_verif_yield_cb = 0;
  int n=atomic_load(&nnotes); if(n>MAXN) n=MAXN; for(int i=0;i<n && !viol;i++) if(notes[i].runs!=1) fail("a notification was left behind (never submitted) although the count returned to zero: note/runs",i,notes[i].runs,0);
  return n; }
// ---- quiet registration
static atomic_long q_last_leave_started; static atomic_int q_ran; static int q_k; static atomic_int q_left;
// the check comes first: the main thread starts the next round (and rewrites q_k / q_left) as soon as q_ran is set
static void q_note(void *c){ (void)c;
  if(atomic_load(&q_left) < q_k) fail("notify block started before every enter that preceded its registration had been left (quiet registration): left/needed",atomic_load(&q_left),q_k,0);
  if(atomic_fetch_add(&q_ran,1)) fail("notify block ran more than once (quiet scenario)",0,0,0); }
static void *q_leaver(void *a){ (void)a; if(rnd()%2) usleep(rnd()%300); atomic_fetch_add(&q_left,1); dispatch_group_leave(G); return NULL; }
static int quiet(int rounds){ G=dispatch_group_create(); cq=dispatch_queue_create("c",DISPATCH_QUEUE_CONCURRENT);
  _dispatch_verif_yield_cb = ycb; _dispatch_verif_atomic_cb = cb;
  for(int r=0;r<rounds && !viol;r++){ q_k=1+(int)(rnd()%6); atomic_store(&q_left,0); atomic_store(&q_ran,0);
    for(int i=0;i<q_k;i++) dispatch_group_enter(G);
    dispatch_group_notify_f(G,cq,NULL,q_note);
    pthread_t th[8]; for(int i=0;i<q_k;i++) pthread_create(&th[i],0,q_leaver,0); for(int i=0;i<q_k;i++) pthread_join(th[i],0);
    for(int w=0; w<5000 && !q_ran; w++) usleep(1000);
    if(q_ran!=1) fail("notification not delivered exactly once after the count returned to zero (quiet scenario): runs",q_ran,0,0);
    if(dispatch_group_wait(G,DISPATCH_TIME_NOW)) fail("group not empty after all leaves",0,0,0); }
  _dispatch_verif_atomic_cb = 0; _dispatch_verif_yield_cb = 0; return rounds; }
// ---- waiters across generations: a thread blocked in wait(FOREVER) while the group empties and is immediately re-entered
static atomic_int rw_ret;
static void *rw_waiter(void *a){ (void)a; long r=dispatch_group_wait(G,DISPATCH_TIME_FOREVER); atomic_store(&rw_ret, r==0?1:2); return NULL; }
static int reenter(int rounds){ G=dispatch_group_create();
  _dispatch_verif_yield_cb = ycb; _dispatch_verif_atomic_cb = cb;
  for(int r=0;r<rounds && !viol;r++){ atomic_store(&rw_ret,0); dispatch_group_enter(G);
    int nw=1+(int)(rnd()%3); pthread_t th[4]; for(int i=0;i<nw;i++) pthread_create(&th[i],0,rw_waiter,0);
    usleep(500+rnd()%1500);               // let them block
    int k=(int)(rnd()%4);
    dispatch_group_leave(G);              // count reaches zero: every waiter of this generation must be released
    if(k>0){ dispatch_group_enter(G); if(k>1) usleep(rnd()%200); dispatch_group_leave(G); }   // immediate re-use
    int ok=0; for(int w=0; w<5000; w++){ if(atomic_load(&rw_ret)){ ok=1; break; } usleep(1000); }
    if(!ok){ fail("a thread blocked in dispatch_group_wait(FOREVER) was left behind although the count reached zero (group re-entered right after): round/reuse-kind",r,k,0); break; }
    for(int i=0;i<nw;i++) pthread_join(th[i],0); }
  _dispatch_verif_atomic_cb = 0; _dispatch_verif_yield_cb = 0; return rounds; }
// ---- waiters with and without timeout on the same generation: the ones whose timeout expires must not take the others' wake-up away
static atomic_int mx_forever_ret, mx_timed_ret, mx_release; static atomic_long mx_pings;
static void on_usr1(int sig){ (void)sig; }
static void *mx_forever(void *a){ (void)a; long r=dispatch_group_wait(G,DISPATCH_TIME_FOREVER); if(r) fail("dispatch_group_wait(FOREVER) returned non-zero",r,0,0); atomic_fetch_add(&mx_forever_ret,1); return NULL; }
static void *mx_timed(void *a){ uint64_t to=(uint64_t)(uintptr_t)a; uint64_t t0=now_ns(); long r=dispatch_group_wait(G,dispatch_time(DISPATCH_TIME_NOW,(int64_t)to)); uint64_t t1=now_ns();
  if(r && t1-t0<to) fail("dispatch_group_wait returned non-zero before its timeout elapsed: ns early",(long)(to-(t1-t0)),0,0); atomic_fetch_add(&mx_timed_ret,1);
  while(!atomic_load(&mx_release)) usleep(100);   // stay alive while the main thread may still signal this thread
  return NULL; }
static int mixed(int rounds){ G=dispatch_group_create();
  _dispatch_verif_yield_cb = ycb; _dispatch_verif_atomic_cb = cb;
  // signals with a handler interrupt the blocked waiters: an interrupted wait is neither a timeout nor a wake-up
  struct sigaction sa; memset(&sa,0,sizeof sa); sa.sa_handler=on_usr1; sigaction(SIGUSR1,&sa,0);
  for(int r=0;r<rounds && !viol;r++){ atomic_store(&mx_forever_ret,0); atomic_store(&mx_timed_ret,0); atomic_store(&mx_release,0); dispatch_group_enter(G);
    int nf=1+(int)(rnd()%3), nt=1+(int)(rnd()%3); pthread_t tf[4], tt[4];
    for(int i=0;i<nf;i++) pthread_create(&tf[i],0,mx_forever,0);
    for(int i=0;i<nt;i++) pthread_create(&tt[i],0,mx_timed,(void*)(uintptr_t)(500000+rnd()%2500000));   // 0.5 - 3 ms
    for(int w=0; w<4000 && atomic_load(&mx_timed_ret)<nt; w++){                                            // every timed waiter has timed out
      if(r%2){ for(int i=0;i<nt;i++) pthread_kill(tt[i],SIGUSR1); for(int i=0;i<nf;i++) pthread_kill(tf[i],SIGUSR1); atomic_fetch_add(&mx_pings,1); }
      usleep(r%2 ? 200 : 500); }
    if(rnd()%2) usleep(rnd()%1000);
    dispatch_group_leave(G);                                                                               // the count reaches zero
    int ok=0; for(int w=0; w<5000; w++){ if(atomic_load(&mx_forever_ret)==nf){ ok=1; break; } usleep(1000); }
    if(!ok){ fail("a thread blocked in dispatch_group_wait(FOREVER) was left behind although the count reached zero (other waiters of the same generation had timed out before): round/forever/timed",r,nf,nt); atomic_store(&mx_release,1); break; }
    atomic_store(&mx_release,1);
    for(int i=0;i<nf;i++) pthread_join(tf[i],0); for(int i=0;i<nt;i++) pthread_join(tt[i],0); }
  printf("NOTE mixed: signal rounds sent %ld pings\n", atomic_load(&mx_pings));
  _dispatch_verif_atomic_cb = 0; _dispatch_verif_yield_cb = 0; return rounds; }
// ---- a notification registered while the leave that empties the group is in progress, with the waiters bit pending from an
// expired timed wait and an empty notification list: it must be submitted (by the leave or by the registration itself)
static atomic_int wn_ran; static void wn_note(void *c){ (void)c; atomic_fetch_add(&wn_ran,1); }
static void wn_ycb(const volatile void *addr, const char *func, int line){ (void)line;
  long d = (char*)addr - (char*)G; if (!G || d < 0 || d >= 96) return; if(strcmp(func,"dispatch_group_leave")) { if(rnd()%16==0) sched_yield(); return; }
  uint64_t r=rnd()%3; if(r==0) usleep(rnd()%120); else if(r==1) sched_yield(); }
static void *wn_leaver(void *a){ (void)a; if(rnd()%2) usleep(rnd()%40); dispatch_group_leave(G); return 0; }
static int wn(int rounds){ G=dispatch_group_create(); cq=dispatch_queue_create("c",DISPATCH_QUEUE_CONCURRENT);
  _dispatch_verif_yield_cb = wn_ycb; _dispatch_verif_atomic_cb = cb;
  for(int r=0;r<rounds && !viol;r++){ atomic_store(&wn_ran,0); dispatch_group_enter(G);
    if(dispatch_group_wait(G,dispatch_time(DISPATCH_TIME_NOW,(int64_t)(20000+rnd()%30000)))==0) fail("dispatch_group_wait returned 0 on an entered group",r,0,0);   // expires: the waiters bit stays
    pthread_t t; pthread_create(&t,0,wn_leaver,0); if(rnd()%2) usleep(rnd()%60);
    dispatch_group_notify_f(G,cq,NULL,wn_note); pthread_join(t,0);
    for(int w=0; w<3000 && !atomic_load(&wn_ran); w++) usleep(1000);
    if(atomic_load(&wn_ran)!=1) fail("a notification registered while the leave that empties the group was in progress (waiters bit pending, empty list) was not submitted exactly once within 3 s: round/runs",r,atomic_load(&wn_ran),0); }
  _dispatch_verif_atomic_cb = 0; _dispatch_verif_yield_cb = 0; return rounds; }
// ---- forced F9 schedule
static atomic_int in_window, go_on, ran1, ran2; static __thread int is_b;
static void ycb9(const volatile void *addr, const char *func, int line){ (void)addr;(void)line;
  if (is_b && !strcmp(func, "_dispatch_group_wake") && !atomic_load(&in_window)) { atomic_store(&in_window, 1); for(int w=0; w<50000 && !atomic_load(&go_on); w++) usleep(100); } }
static void n1(void *c){ (void)c; atomic_store(&ran1,1); }
static void n2(void *c){ (void)c; atomic_store(&ran2,1); }
static void *tb(void *a){ (void)a; is_b = 1; dispatch_group_notify_f(G, cq, NULL, n1); return 0; }
static int f9(void){ G = dispatch_group_create(); cq = dispatch_get_global_queue(0,0);
  _dispatch_verif_yield_cb = ycb9; _dispatch_verif_atomic_cb = cb;
  pthread_t b; pthread_create(&b,0,tb,0);
  for(int w=0; w<50000 && !atomic_load(&in_window); w++) usleep(100);
  int forced = atomic_load(&in_window);
  dispatch_group_enter(G); dispatch_group_notify_f(G, cq, NULL, n2);
  atomic_store(&go_on,1); pthread_join(b,0); usleep(300000);
  int early = atomic_load(&ran2);
  dispatch_group_leave(G); usleep(200000);
  _dispatch_verif_atomic_cb = 0; _dispatch_verif_yield_cb = 0;
  if(!forced) printf("ORACLE ok f9 schedule could not be forced\n");
  else if(early) printf("ORACLE VIOL F9 forced schedule: notify n2 registered after dispatch_group_enter ran before the matching leave (registration raced with the wake of notify n1)\n");
  else printf("ORACLE ok f9 schedule forced, n2 waited for the leave (ran2 after leave = %d)\n", atomic_load(&ran2));
  return early; }
// mode "nest <seed> <rounds>": the implied enter / leave of dispatch_group_async when the block itself submits elsewhere first - into
// ANOTHER group (dispatch_group_async, dispatch_group_notify), with dispatch_after, or plainly: the leave implied for group A must
// go to A (A completes: wait returns 0, its notification runs once), and B must not be left on A's behalf (B's wait / notification
// not before B's own work is done).
static int nest(int rounds){ dispatch_queue_t cq2=dispatch_queue_create("n.c",DISPATCH_QUEUE_CONCURRENT), sq=dispatch_queue_create("n.s",NULL); int items=0;
  for(int r=0;r<rounds && !viol;r++){ dispatch_group_t A=dispatch_group_create(), B=dispatch_group_create(); int inner=(int)(rnd()%4); dispatch_queue_t qa = rnd()%2?cq2:sq, qb = rnd()%2?cq2:sq;
    __block _Atomic int bwork_done=0, bnote=0, bnote_early=0, anote=0, after_ran=0;
    dispatch_group_async(A,qa,^{
      if(inner==0) dispatch_group_async(B,qb,^{ usleep((useconds_t)(2000+rnd()%3000)); atomic_store(&bwork_done,1); });
      else if(inner==1){ dispatch_group_enter(B); dispatch_group_notify(B,qb,^{ if(!atomic_load(&bwork_done)) atomic_fetch_add(&bnote_early,1); atomic_fetch_add(&bnote,1); }); }
      else if(inner==2) dispatch_after(dispatch_time(DISPATCH_TIME_NOW,2000000),qb,^{ atomic_fetch_add(&after_ran,1); });
      else dispatch_async(qb,^{ atomic_fetch_add(&after_ran,1); });
      usleep((useconds_t)(rnd()%300)); });
    dispatch_group_notify(A,sq,^{ atomic_fetch_add(&anote,1); });
    if(dispatch_group_wait(A,dispatch_time(DISPATCH_TIME_NOW,3000000000ll))) fail("a group whose only work was one dispatch_group_async block never became empty (3 s): the block's first submission went to 0 another group by group_async, 1 another group's notify, 2 dispatch_after, 3 dispatch_async",inner,r,0);
    if(inner==0){ long rc=dispatch_group_wait(B,dispatch_time(DISPATCH_TIME_NOW,3000000000ll)); if(rc==0 && !atomic_load(&bwork_done)) fail("dispatch_group_wait on group B returned 0 while the work submitted to B from inside a block of group A was still running: round",r,0,0);
      if(rc) fail("group B never became empty (3 s): round",r,0,0); }
    if(inner==1){ usleep(3000); if(atomic_load(&bnote)) fail("a notification of group B ran although B was still entered (it was registered from inside a block of group A): round",r,0,0);
      atomic_store(&bwork_done,1); dispatch_group_leave(B); for(int w=0; w<3000 && !atomic_load(&bnote); w++) usleep(1000);
      if(atomic_load(&bnote)!=1 || atomic_load(&bnote_early)) fail("the notification of group B did not run exactly once after B's leave: round/runs/early",r,atomic_load(&bnote),atomic_load(&bnote_early)); }
    if(inner>=2){ for(int w=0; w<3000 && !atomic_load(&after_ran); w++) usleep(1000); if(atomic_load(&after_ran)!=1) fail("a block submitted from inside a group block did not run exactly once: round/kind/runs",r,inner,atomic_load(&after_ran)); }
    for(int w=0; w<3000 && !atomic_load(&anote); w++) usleep(1000);
    if(!viol && atomic_load(&anote)!=1) fail("the notification of group A did not run exactly once after its block had finished: round/kind/runs",r,inner,atomic_load(&anote));
    dispatch_sync(sq,^{}); dispatch_barrier_sync(cq2,^{}); usleep(200); dispatch_release(A); dispatch_release(B); items++; }
  return items; }
// mode "push <seed> <rounds>": notifications pushed onto the group's list from several threads while another thread's leave walks a
// snapshot of it. A pusher that has exchanged the list's tail and not yet linked its entry to the previous one is held for a moment
// (atomic hook, after the exchange in _dispatch_group_notify): the walker has to wait for that link, not take the missing link for the
// end of the list. Two threads do enter; notify; leave, four only notify, on one reused group. Oracle: every notification registered
// has run, once, when all threads are done and the group is empty.
static atomic_long pu_reg, pu_ran; static atomic_int pu_stop;
static void pu_note(void *c){ (void)c; atomic_fetch_add(&pu_ran,1); }
static void pu_cb(const volatile void *addr, unsigned size, int op, uint64_t o, uint64_t n, const char *func, int line){ (void)addr;(void)size;(void)o;(void)n;(void)line;
  if(op==2 && !strcmp(func,"_dispatch_group_notify") && rnd()%2) usleep((useconds_t)(rnd()%60)); }      // op 2: exchange (of the list's tail)
static void *pu_el(void *a){ (void)a; while(!atomic_load(&pu_stop)){ dispatch_group_enter(G); atomic_fetch_add(&pu_reg,1); dispatch_group_notify_f(G,cq,NULL,pu_note); if(rnd()%4==0) usleep(rnd()%30); dispatch_group_leave(G); } return 0; }
static void *pu_n(void *a){ (void)a; while(!atomic_load(&pu_stop)){ atomic_fetch_add(&pu_reg,1); dispatch_group_notify_f(G,cq,NULL,pu_note); if(rnd()%8==0) usleep(rnd()%40); } return 0; }
static int push(int rounds){ G=dispatch_group_create(); cq=dispatch_queue_create("c",DISPATCH_QUEUE_CONCURRENT); int items=0;
  for(int r=0;r<rounds && !viol;r++){ atomic_store(&pu_stop,0); atomic_store(&pu_reg,0); atomic_store(&pu_ran,0); _dispatch_verif_atomic_cb=pu_cb;
    pthread_t t[6]; for(int i=0;i<2;i++) pthread_create(&t[i],0,pu_el,0); for(int i=2;i<6;i++) pthread_create(&t[i],0,pu_n,0);
    usleep(20000); atomic_store(&pu_stop,1); for(int i=0;i<6;i++) pthread_join(t[i],0); _dispatch_verif_atomic_cb=0;
    for(int w=0; w<3000 && atomic_load(&pu_ran)<atomic_load(&pu_reg); w++) usleep(1000);
    if(atomic_load(&pu_ran)!=atomic_load(&pu_reg)) fail("notifications registered on a group that is empty again never ran (3 s), or ran twice: registered / ran / round",atomic_load(&pu_reg),atomic_load(&pu_ran),r);
    items+=(int)(atomic_load(&pu_reg)>1000?1000:atomic_load(&pu_reg)); }
  return items; }
int main(int argc, char **argv){
  const char *mode = argc>1 ? argv[1] : "storm"; seed = argc>2 ? strtoull(argv[2],0,0) : 1;
  evs = calloc(MAXEV, sizeof(ev_t)); notes=calloc(MAXN,sizeof(note_t));
  if(!strcmp(mode,"f9")){ printf("OFF state 48\n"); int e=f9(); dump(); return e?1:0; }
  int items;
  if(!strcmp(mode,"quiet")){ items=quiet(argc>3?atoi(argv[3]):200); }
  else if(!strcmp(mode,"reenter")){ items=reenter(argc>3?atoi(argv[3]):100); }
  else if(!strcmp(mode,"mixed")){ items=mixed(argc>3?atoi(argv[3]):60); }
  else if(!strcmp(mode,"wn")){ items=wn(argc>3?atoi(argv[3]):300); }
  else if(!strcmp(mode,"nest")){ items=nest(argc>3?atoi(argv[3]):60); }
  else if(!strcmp(mode,"push")){ items=push(argc>3?atoi(argv[3]):10); }
  else { int nthr = argc>3 ? atoi(argv[3]) : 4; nops = argc>4 ? atoi(argv[4]) : 300; use_ga = argc>5 ? atoi(argv[5]) : 0; items=storm(nthr); }
  printf("OFF state 48\n");
  if (viol) printf("ORACLE VIOL seed=%llu %s\n",(unsigned long long)seed,vmsg);
  else printf("ORACLE ok items=%d events=%lu early_with_overlapping_wake=%ld\n", items, atomic_load(&nev), atomic_load(&early_overlap));
  dump(); return viol?1:0; }
