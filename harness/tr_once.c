// L-trace + L-api harness for dispatch_once (C09): rounds of 2-24 racing callers on a fresh predicate; the initialiser
// must run exactly once, no call may return before it has completed, callers that arrive while it runs are released
// when it completes, later calls return without running it. Every atomic transition of the predicate is recorded.
// usage: tr_once <seed> <rounds>
#define _GNU_SOURCE
#include <dispatch/dispatch.h>
#include <stdio.h>
#include <stdint.h>
#include <stdlib.h>
#include <string.h>
#include <unistd.h>
#include <pthread.h>
#include <sched.h>
#include <stdatomic.h>
#include <sys/syscall.h>
#include <signal.h>
#include <stdarg.h>
#include <dlfcn.h>
#include <linux/futex.h>
typedef void (*cb_t)(const volatile void *addr, unsigned size, int op, uint64_t o, uint64_t n, const char *func, int line);
extern cb_t _dispatch_verif_atomic_cb;
extern void (*_dispatch_verif_yield_cb)(const volatile void *addr, const char *func, int line);
#define MAXR 4096
static dispatch_once_t *preds; static int rounds;
typedef struct { uint64_t seq; int tid; int idx; int op; uint64_t o, n; const char *func; } ev_t;
#define MAXEV (1<<20)
static ev_t *evs; static atomic_ulong nev, seq;
static __thread int mytid; static __thread uint64_t rng; static uint64_t seed;
static inline uint64_t rnd(void){ if(!rng) rng = seed ^ (uint64_t)syscall(SYS_gettid)*0x9e3779b97f4a7c15ull; rng ^= rng<<13; rng ^= rng>>7; rng ^= rng<<17; return rng; }
static void cb(const volatile void *addr, unsigned size, int op, uint64_t o, uint64_t n, const char *func, int line){ (void)size;(void)line;
  long d=(long)((dispatch_once_t*)addr-preds); if((char*)addr<(char*)preds || d>=rounds) return; if(!mytid) mytid=(int)syscall(SYS_gettid);
  unsigned long k=atomic_fetch_add(&nev,1); if(k<MAXEV) evs[k]=(ev_t){atomic_fetch_add(&seq,1),mytid,(int)d,op,o,n,func};
  // a waiter that has just published the waiters bit is held before it goes to sleep: the (short) initialiser of these rounds completes
  // and wakes meanwhile - the waiter must not sleep on the completed gate
  if(d%3==0 && op==3 && !strcmp(func,"_dispatch_once_wait") && rnd()%2) usleep((useconds_t)(100+rnd()%200)); }
static void ycb(const volatile void *addr, const char *func, int line){ (void)line;
  long d=(long)((dispatch_once_t*)addr-preds); if((char*)addr<(char*)preds || d>=rounds) return;
  if(d%3==0 && !strcmp(func,"_dispatch_once_wait")){ if(rnd()%2) usleep((useconds_t)(rnd()%80)); return; }      // a waiter held for a moment at each of its steps: the initialiser (a short one in these rounds) completes meanwhile
  uint64_t r=rnd()%6; if(r==0) sched_yield(); else if(r==1) usleep(rnd()%60); }
// the environment of the waiters: a FUTEX_WAIT may return 0 without a matching wake (futex(2): spurious wake-ups), and a signal
// whose handler was installed without SA_RESTART interrupts it; neither means that the initialiser has completed
static long (*real_syscall)(long, ...); static int inject; static atomic_long spurious, pings;
long syscall(long n, ...){ va_list ap; va_start(ap,n); long a0=va_arg(ap,long),a1=va_arg(ap,long),a2=va_arg(ap,long),a3=va_arg(ap,long),a4=va_arg(ap,long),a5=va_arg(ap,long); va_end(ap);
  if(!real_syscall) real_syscall=(long(*)(long,...))dlsym(RTLD_NEXT,"syscall");
  if(n==SYS_futex && (a1&FUTEX_CMD_MASK)==FUTEX_WAIT && inject && a0>=(long)preds && a0<(long)(preds+rounds)){      // recorded: the value the waiter goes to sleep on (op 9: old = expected, new = the word now)
    if(!mytid) mytid=(int)real_syscall(SYS_gettid); unsigned long k=atomic_fetch_add(&nev,1); if(k<MAXEV) evs[k]=(ev_t){atomic_fetch_add(&seq,1),mytid,(int)((dispatch_once_t*)a0-preds),9,(uint64_t)(uint32_t)a2,(uint64_t)*(volatile uint32_t*)a0,"futex_wait"};
    if(rnd()%4==0){ atomic_fetch_add(&spurious,1); return 0; } }
  return real_syscall(n,a0,a1,a2,a3,a4,a5); }
static void on_usr1(int sig){ (void)sig; }
static atomic_int viol; static char vmsg[300];
static void fail(const char *m, long a, long b, long c){ if(!atomic_exchange(&viol,1)) snprintf(vmsg,sizeof vmsg,"%s %ld %ld %ld",m,a,b,c); }
struct round { _Atomic int inits; _Atomic int init_done; _Atomic int returned; _Atomic int release; int n; pthread_barrier_t bar; int idx; };
static void initfn(void *c){ struct round *r=c; if(atomic_fetch_add(&r->inits,1)) fail("initialiser executed more than once: round",r->idx,0,0);
  if(r->idx%3==0){ usleep((useconds_t)(20+rnd()%60)); }      // every third round: an initialiser of 20-80 us - waiters arrive while it runs and are held (see cb) until it is over
  else if(rnd()%2) usleep(rnd()%300); else if(rnd()%4==0) usleep(500+rnd()%1500); else sched_yield(); atomic_store(&r->init_done,1); }
static void *racer(void *c){ struct round *r=c; pthread_barrier_wait(&r->bar); if(rnd()%3==0) usleep(rnd()%100);
  dispatch_once_f(&preds[r->idx], r, initfn);
  if(!atomic_load(&r->init_done)) fail("dispatch_once returned before the initialiser had completed: round",r->idx,0,0);
  atomic_fetch_add(&r->returned,1);
  while(!atomic_load(&r->release)) usleep(50);   // stay alive while the main thread may still signal this thread
  return NULL; }
int main(int argc,char**argv){ seed=argc>1?strtoull(argv[1],0,0):1; rounds=argc>2?atoi(argv[2]):200; if(rounds>MAXR) rounds=MAXR;
  preds=calloc((size_t)rounds,sizeof *preds); evs=calloc(MAXEV,sizeof *evs);
  struct sigaction sa; memset(&sa,0,sizeof sa); sa.sa_handler=on_usr1; sigaction(SIGUSR1,&sa,0); inject=1;
  _dispatch_verif_yield_cb=ycb; _dispatch_verif_atomic_cb=cb; long calls=0;
  for(int i=0;i<rounds && !viol;i++){ struct round r; memset(&r,0,sizeof r); r.idx=i; r.n=2+(int)(rnd()%23); pthread_barrier_init(&r.bar,NULL,(unsigned)r.n);
    pthread_t th[32]; for(int k=0;k<r.n;k++) pthread_create(&th[k],0,racer,&r);
    for(int w=0; w<100000 && atomic_load(&r.returned)<r.n && !viol; w++){ if(i%2){ for(int k=0;k<r.n;k++) pthread_kill(th[k],SIGUSR1); atomic_fetch_add(&pings,1); } usleep(100); }
    if(atomic_load(&r.returned)<r.n){ fail("callers of dispatch_once were never released although the initialiser completed: round/returned/callers",i,atomic_load(&r.returned),r.n); atomic_store(&r.release,1); break; }
    atomic_store(&r.release,1);
    for(int k=0;k<r.n;k++) pthread_join(th[k],0);
    if(r.inits!=1) fail("initialiser execution count != 1: round/count",i,r.inits,0);
    dispatch_once_f(&preds[i], &r, initfn); if(r.inits!=1) fail("a later call ran the initialiser again: round",i,0,0);
    if(preds[i]!=~0l) fail("predicate not DONE after completion: round",i,0,0);
    calls+=r.n; pthread_barrier_destroy(&r.bar); }
  _dispatch_verif_atomic_cb=0; _dispatch_verif_yield_cb=0; inject=0;
  if(viol) printf("ORACLE VIOL seed=%llu %s\n",(unsigned long long)seed,vmsg); else printf("ORACLE ok items=%ld events=%lu rounds=%d spurious_futex_returns=%ld signal_rounds_pings=%ld\n",calls,atomic_load(&nev),rounds,atomic_load(&spurious),atomic_load(&pings));
  unsigned long n=atomic_load(&nev); if(n>MAXEV) n=MAXEV;
  for(unsigned long i=0;i<n;i++){ ev_t *e=&evs[i]; printf("E %lu %d %d %d %016lx %016lx %s\n",e->seq,e->tid,e->idx,e->op,e->o,e->n,e->func); }
  return viol?1:0; }
