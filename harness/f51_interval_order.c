// Forced history for finding F51 (C14): "stream operations of one direction complete in submission order" as the handlers see it, on a
// channel with a strict delivery interval. Every operation delivers through a serial queue of its own that targets the handler queue, and
// every waiting operation has its own interval timer. Read A (2000 bytes) at t = 0, read B (10 bytes) at t = 50 ms on an empty pipe,
// interval 100 ms; from t = 120 to 200 ms the (serial) handler queue is busy with an unrelated block, so B's tick at 150 ms parks B's
// queue on the handler queue ahead of A's; at t = 170 ms all 2010 bytes arrive: A is served first and B after it, but B's final delivery
// rides on the queue that is already waiting and A's is queued behind it: the handler of B sees done before the handler of A.
// output: "ORACLE VIOL F51 ..." (exit 1) if B saw done first, "ORACLE ok ..." otherwise.
#define _GNU_SOURCE
#include <dispatch/dispatch.h>
#include <stdio.h>
#include <unistd.h>
#include <signal.h>
int main(void){ alarm(60); int swaps=0, rounds=3;
  for(int r=0;r<rounds;r++){ static char buf[2010]; int p[2]; if(pipe(p)) return 2;
    dispatch_queue_t q=dispatch_queue_create("f51.q",NULL); dispatch_semaphore_t cl=dispatch_semaphore_create(0), ds=dispatch_semaphore_create(0);
    dispatch_io_t ch=dispatch_io_create(DISPATCH_IO_STREAM,p[0],q,^(int e){ (void)e; dispatch_semaphore_signal(cl); });
    dispatch_io_set_interval(ch,100*NSEC_PER_MSEC,DISPATCH_IO_STRICT_INTERVAL);
    __block int a_done=0, b_first=0;
    dispatch_io_read(ch,0,2000,q,^(bool done,dispatch_data_t d,int e){ (void)d;(void)e; if(done){ a_done=1; dispatch_semaphore_signal(ds); } });
    usleep(50000);
    dispatch_io_read(ch,0,10,q,^(bool done,dispatch_data_t d,int e){ (void)d;(void)e; if(done){ if(!a_done) b_first=1; dispatch_semaphore_signal(ds); } });
    usleep(70000); dispatch_async(q,^{ usleep(80000); }); usleep(50000);
    if(write(p[1],buf,sizeof buf)!=(ssize_t)sizeof buf) return 2;
    for(int k=0;k<2;k++) if(dispatch_semaphore_wait(ds,dispatch_time(DISPATCH_TIME_NOW,10ll*NSEC_PER_SEC))){ printf("ORACLE VIOL a read did not complete within 10 s of its bytes arriving\n"); return 1; }
    swaps+=b_first; dispatch_io_close(ch,0); dispatch_release(ch); dispatch_semaphore_wait(cl,dispatch_time(DISPATCH_TIME_NOW,5ll*NSEC_PER_SEC)); dispatch_release(q); close(p[0]); close(p[1]); }
  if(swaps){ printf("ORACLE VIOL F51 on a channel with a strict interval the handler of a later read saw done before the handler of an earlier read of the same direction, both on one serial handler queue (%d of %d rounds): stream operations of one direction did not complete in submission order as observed\n",swaps,rounds); return 1; }
  printf("ORACLE ok the earlier read's handler saw done first in %d rounds\n",rounds); return 0; }
