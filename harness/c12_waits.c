// C12 L-api oracle, last clause: "waiting until a time that is already past does not block" - and a wait until a time shortly
// ahead ends near that time - for dispatch_semaphore_wait, dispatch_group_wait and dispatch_block_wait, with the time expressed on
// each of the three clocks (uptime: DISPATCH_TIME_NOW base; monotonic: DISPATCH_MONOTONICTIME_NOW base; wall: dispatch_walltime).
// A wait that has not returned after 3 s is reported (the process then exits: the waiter cannot be recovered).
// A second thread sends SIGUSR1 (handler installed without SA_RESTART) to the waiting thread every few milliseconds: an interrupted
// sleep is not an elapsed time-out.
// usage: c12_waits <seed>
#define _GNU_SOURCE
#include <dispatch/dispatch.h>
#include <stdio.h>
#include <stdint.h>
#include <stdlib.h>
#include <unistd.h>
#include <pthread.h>
#include <stdatomic.h>
#include <time.h>
#include <signal.h>
#include <string.h>
#define MONO_NOW 0x8000000000000000ull
static uint64_t now_ns(void){ struct timespec ts; clock_gettime(CLOCK_MONOTONIC,&ts); return (uint64_t)ts.tv_sec*1000000000ull+(uint64_t)ts.tv_nsec; }
static const char *CL[3]={"uptime","monotonic","wall"}, *API[3]={"dispatch_semaphore_wait","dispatch_group_wait","dispatch_block_wait"};
static dispatch_time_t on_clock(int c, int64_t d){ return c==0?dispatch_time(DISPATCH_TIME_NOW,d): c==1?dispatch_time(MONO_NOW,d): dispatch_walltime(NULL,d); }
static atomic_int cur_api, cur_clock, cur_past, waiting; static atomic_long started_ms; static uint64_t seed;
static void *watchdog(void *a){ (void)a; for(;;){ usleep(50000); if(atomic_load(&waiting) && (long)(now_ns()/1000000)-atomic_load(&started_ms) > 3000){
  printf("ORACLE VIOL seed=%llu %s until a time on the %s clock that %s did not return within 3 s\n",(unsigned long long)seed,API[cur_api],CL[cur_clock],cur_past?"is already past":"lies 40 ms ahead"); fflush(stdout); _exit(1); } } return 0; }
static void on_usr1(int sig){ (void)sig; }
static pthread_t main_th; static atomic_int ping_stop; static atomic_long pings;
static void *pinger(void *a){ (void)a; while(!atomic_load(&ping_stop)){ pthread_kill(main_th,SIGUSR1); atomic_fetch_add(&pings,1); usleep(2500); } return 0; }
int main(int argc,char**argv){ seed=argc>1?strtoull(argv[1],0,0):1; struct sigaction sa; memset(&sa,0,sizeof sa); sa.sa_handler=on_usr1; sigaction(SIGUSR1,&sa,0); main_th=pthread_self(); pthread_t pg; pthread_create(&pg,0,pinger,0); uint64_t r=seed*0x9e3779b97f4a7c15ull; pthread_t wd; pthread_create(&wd,0,watchdog,0); long n=0; int viol=0; char msg[300]="";
  dispatch_semaphore_t s=dispatch_semaphore_create(0); dispatch_group_t g=dispatch_group_create(); dispatch_group_enter(g);
  dispatch_queue_t q=dispatch_queue_create("c12w",NULL); dispatch_suspend(q); dispatch_block_t b=dispatch_block_create(0,^{}); dispatch_async(q,b);   // never runs while suspended
  for(int round=0; round<4 && !viol; round++) for(int api=0; api<3 && !viol; api++) for(int c=0;c<3 && !viol;c++) for(int past=1; past>=0 && !viol; past--){
    r^=r<<13; r^=r>>7; r^=r<<17;
    int64_t d = past ? -(int64_t)(1+r%2000000000ull) : 40000000ll;
    uint64_t t0=now_ns();      // read before the deadline is computed: a preemption between the two only makes the wait look longer
    dispatch_time_t t=on_clock(c,d);
    atomic_store(&cur_api,api); atomic_store(&cur_clock,c); atomic_store(&cur_past,past); atomic_store(&started_ms,(long)(t0/1000000)); atomic_store(&waiting,1);
    long rc = api==0 ? dispatch_semaphore_wait(s,t) : api==1 ? dispatch_group_wait(g,t) : dispatch_block_wait(b,t);
    atomic_store(&waiting,0); uint64_t el=now_ns()-t0; n++;
    if(rc==0){ viol=1; snprintf(msg,sizeof msg,"%s returned 0 although nothing was signalled: clock %s",API[api],CL[c]); }
    else if(past && el>500000000ull){ viol=1; snprintf(msg,sizeof msg,"%s until a time on the %s clock that is already past blocked for %llu ms",API[api],CL[c],(unsigned long long)(el/1000000)); }
    else if(!past && el<40000000ull-2000000ull && c!=2){ viol=1; snprintf(msg,sizeof msg,"%s returned non-zero %llu us before a deadline 40 ms ahead on the %s clock",API[api],(unsigned long long)((40000000ull-el)/1000),CL[c]); } }
  atomic_store(&ping_stop,1); pthread_join(pg,0);
  if(viol){ printf("ORACLE VIOL seed=%llu %s\n",(unsigned long long)seed,msg); fflush(stdout); _exit(1); }
  printf("ORACLE ok items=%ld signals=%ld\n",n,atomic_load(&pings)); fflush(stdout); _exit(0); }
