// L-fn harness: answers the same line protocol as the Lean driver (lean/Driver/Main.lean), with the
// real library built from /repo's working tree. Public entry points only (plus the exported
// DISPATCH_VERIF wrappers), so that glue code is inside the comparison.
#include <dispatch/dispatch.h>
#include <stdio.h>
#include <string.h>
#include <stdlib.h>
#include <stdint.h>
#include <inttypes.h>
#include <time.h>
#include <unistd.h>
#include <sys/syscall.h>

extern const struct dispatch_data_format_type_s _dispatch_data_format_type_none, _dispatch_data_format_type_base64,
  _dispatch_data_format_type_base32, _dispatch_data_format_type_base32hex, _dispatch_data_format_type_utf8,
  _dispatch_data_format_type_utf16le, _dispatch_data_format_type_utf16be, _dispatch_data_format_type_utf_any;
dispatch_data_t dispatch_data_create_with_transform(dispatch_data_t, const struct dispatch_data_format_type_s*, const struct dispatch_data_format_type_s*);
dispatch_queue_attr_t dispatch_queue_attr_make_with_overcommit(dispatch_queue_attr_t, bool);
extern uint64_t _dispatch_verif_timeout(dispatch_time_t when);

// ---- clock interposition: the library calls clock_gettime through the PLT, so this definition wins
static int fake_clocks = 0;
static uint64_t fake_up, fake_mono, fake_wall;
int clock_gettime(clockid_t id, struct timespec *ts){
  if (fake_clocks && (id == CLOCK_REALTIME || id == CLOCK_MONOTONIC || id == CLOCK_BOOTTIME)) {
    uint64_t v = id == CLOCK_REALTIME ? fake_wall : id == CLOCK_MONOTONIC ? fake_up : fake_mono;
    ts->tv_sec = (time_t)(v / 1000000000ull); ts->tv_nsec = (long)(v % 1000000000ull); return 0; }
  return (int)syscall(SYS_clock_gettime, id, ts);
}

static size_t parsehex(const char *s, unsigned char *out){ size_t n=0; if(!s||s[0]=='-') return 0; while(s[0]&&s[1]&&s[0]!='\n'&&s[0]!='|'){ unsigned v; sscanf(s,"%2x",&v); out[n++]=(unsigned char)v; s+=2;} return n; }
static void puthex(const unsigned char *p, size_t n){ if(!n){ printf("-"); return;} for(size_t i=0;i<n;i++) printf("%02x",p[i]); }
static void print_data_hex(dispatch_data_t d){ const void *p; size_t n; dispatch_data_t m=dispatch_data_create_map(d,&p,&n); puthex(p,n); dispatch_release(m); }

static char *base; // &_dispatch_queue_attrs[0]
static long idx_of(dispatch_queue_attr_t a){ return a ? (long)(((char*)a - base)/16) : -1; }
static dispatch_queue_attr_t attr_of(long i){ return (dispatch_queue_attr_t)(base + 16*i); }
static const int qos_class_of[7] = {0x00,0x05,0x09,0x11,0x15,0x19,0x21};

static const struct dispatch_data_format_type_s *fmt_of(const char *s){
  if(!strcmp(s,"none")) return &_dispatch_data_format_type_none;
  if(!strcmp(s,"b64")) return &_dispatch_data_format_type_base64;
  if(!strcmp(s,"b32")) return &_dispatch_data_format_type_base32;
  if(!strcmp(s,"b32hex")) return &_dispatch_data_format_type_base32hex;
  if(!strcmp(s,"utf8")) return &_dispatch_data_format_type_utf8;
  if(!strcmp(s,"utf16le")) return &_dispatch_data_format_type_utf16le;
  if(!strcmp(s,"utf16be")) return &_dispatch_data_format_type_utf16be;
  if(!strcmp(s,"utfany")) return &_dispatch_data_format_type_utf_any;
  return NULL; }

// one region per '|'-separated part
static dispatch_data_t build_regions(char *spec){
  dispatch_data_t d=dispatch_data_empty; char *save=NULL;
  for(char *part=strtok_r(spec,"|",&save); part; part=strtok_r(NULL,"|",&save)){
    static unsigned char buf[1<<16]; size_t n=parsehex(part,buf); if(!n) continue;
    dispatch_data_t leaf=dispatch_data_create(buf,n,NULL,DISPATCH_DATA_DESTRUCTOR_DEFAULT);
    dispatch_data_t c=dispatch_data_create_concat(d,leaf); dispatch_release(leaf); dispatch_release(d); d=c; }
  return d; }

#define MAXS 64
int main(void){
  base = (char*)DISPATCH_QUEUE_CONCURRENT;
  static char line[1<<18];
  while (fgets(line,sizeof line,stdin)){
    char *tok = strtok(line," \n");
    if(!tok){ puts("bad-op"); continue; }
    if(!strcmp(tok,"T")){ uint64_t w=strtoull(strtok(NULL," \n"),NULL,10); int64_t d=strtoll(strtok(NULL," \n"),NULL,10);
      fake_up=strtoull(strtok(NULL," \n"),NULL,10); fake_mono=strtoull(strtok(NULL," \n"),NULL,10); fake_wall=strtoull(strtok(NULL," \n"),NULL,10);
      fake_clocks=1; uint64_t r=(uint64_t)dispatch_time(w,d); fake_clocks=0; printf("%" PRIu64 "\n",r); }
    else if(!strcmp(tok,"WT")){ int64_t s=strtoll(strtok(NULL," \n"),NULL,10); int64_t n=strtoll(strtok(NULL," \n"),NULL,10); int64_t d=strtoll(strtok(NULL," \n"),NULL,10);
      struct timespec ts={ (time_t)s, (long)n };
      printf("%" PRIu64 "\n",(uint64_t)dispatch_walltime(&ts,d)); }
    else if(!strcmp(tok,"WN")){ fake_wall=strtoull(strtok(NULL," \n"),NULL,10); int64_t d=strtoll(strtok(NULL," \n"),NULL,10);
      fake_clocks=1; uint64_t r=(uint64_t)dispatch_walltime(NULL,d); fake_clocks=0; printf("%" PRIu64 "\n",r); }
    else if(!strcmp(tok,"TO")){ uint64_t w=strtoull(strtok(NULL," \n"),NULL,10);
      fake_up=strtoull(strtok(NULL," \n"),NULL,10); fake_mono=strtoull(strtok(NULL," \n"),NULL,10); fake_wall=strtoull(strtok(NULL," \n"),NULL,10);
      fake_clocks=1; uint64_t r=_dispatch_verif_timeout(w); fake_clocks=0; printf("%" PRIu64 "\n",r); }
    else if(!strcmp(tok,"X2")){   /* X2 <infmt> <outfmt> <hex>|<hex>|... : transform of a fragmented object */
      const struct dispatch_data_format_type_s *fi=fmt_of(strtok(NULL," \n")), *fo=fmt_of(strtok(NULL," \n"));
      char *spec=strtok(NULL," \n"); dispatch_data_t d=build_regions(spec?spec:(char*)"-");
      if(dispatch_data_get_size(d)==0){ puts("-"); continue; }
      dispatch_data_t r=dispatch_data_create_with_transform(d,fi,fo);
      if(!r){ puts("NULL"); } else { size_t sz=dispatch_data_get_size(r); if(sz>(1u<<24)) printf("size %zu\n",sz); else { print_data_hex(r); puts(""); } dispatch_release(r); }
      dispatch_release(d); }
    else if(!strcmp(tok,"AQ")){ long i=atol(strtok(NULL," \n")); int q=atoi(strtok(NULL," \n")); int r=atoi(strtok(NULL," \n"));
      printf("%ld\n", idx_of(dispatch_queue_attr_make_with_qos_class(attr_of(i),(dispatch_qos_class_t)qos_class_of[q],-r))); }
    else if(!strcmp(tok,"AI")){ long i=atol(strtok(NULL," \n")); printf("%ld\n", idx_of(dispatch_queue_attr_make_initially_inactive(attr_of(i)))); }
    else if(!strcmp(tok,"AO")){ long i=atol(strtok(NULL," \n")); int b=atoi(strtok(NULL," \n")); printf("%ld\n", idx_of(dispatch_queue_attr_make_with_overcommit(attr_of(i),b))); }
    else if(!strcmp(tok,"AF")){ long i=atol(strtok(NULL," \n")); int f=atoi(strtok(NULL," \n")); printf("%ld\n", idx_of(dispatch_queue_attr_make_with_autorelease_frequency(attr_of(i),(dispatch_autorelease_frequency_t)f))); }
    else if(!strcmp(tok,"X")){
      dispatch_data_t st[MAXS]; int sp=0; int nleaf=1; char *t;
      while((t=strtok(NULL," \n"))){
        if(t[0]=='L'){ int k=atoi(t+1); unsigned char b[256]; for(int i=0;i<k;i++) b[i]=(unsigned char)((nleaf*31+i*7+1)%256);
          if(sp<MAXS) st[sp++]= k? dispatch_data_create(b,k,NULL,DISPATCH_DATA_DESTRUCTOR_DEFAULT) : dispatch_data_empty; nleaf++; }
        else if(t[0]=='C' && sp>=2){ dispatch_data_t b=st[--sp], a=st[--sp]; st[sp++]=dispatch_data_create_concat(a,b); }
        else if(t[0]=='D' && sp>=1 && sp<MAXS){ st[sp]=st[sp-1]; dispatch_retain(st[sp]); sp++; }
        else if(t[0]=='S' && sp>=1){ size_t o,l; sscanf(t+1,"%zu,%zu",&o,&l); st[sp-1]=dispatch_data_create_subrange(st[sp-1],o,l); }
        else if(t[0]=='R' && sp>=1){ size_t off=0; dispatch_data_t r=dispatch_data_copy_region(st[sp-1],(size_t)atol(t+1),&off); printf("R%zu:%zu ",off,dispatch_data_get_size(r)); }
      }
      if(!sp){ puts("empty-stack"); continue; }
      dispatch_data_t a=st[sp-1];
      printf("size=%zu regions=",dispatch_data_get_size(a));
      __block int first=1;
      dispatch_data_apply(a,^bool(dispatch_data_t rg, size_t off, const void *p, size_t n){ (void)rg;(void)p; printf("%s%zu:%zu",first?"":",",off,n); first=0; return true; });
      printf(" bytes="); print_data_hex(a); puts("");
    }
    else puts("bad-op");
  }
  return 0;
}
