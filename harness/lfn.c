// L-fn harness: answers the same line protocol as the Lean driver (lean/Driver/Main.lean), with the
// real library built from /repo's working tree. Public entry points only (plus the exported
// DISPATCH_VERIF wrappers), so that glue code is inside the comparison.
#include <dispatch/dispatch.h>
#include <dlfcn.h>
#include <stdio.h>
#include <string.h>
#include <stdlib.h>
#include <stdint.h>
#include <inttypes.h>
#include <time.h>
#include <unistd.h>
#include <sys/syscall.h>

extern const struct dispatch_data_format_type_s _dispatch_data_format_type_none, _dispatch_data_format_type_base64,
  _dispatch_data_format_type_base32, _dispatch_data_format_type_base32hex, _dispatch_data_format_type_utf8,
  _dispatch_data_format_type_utf16le, _dispatch_data_format_type_utf16be, _dispatch_data_format_type_utf_any;
dispatch_data_t dispatch_data_create_with_transform(dispatch_data_t, const struct dispatch_data_format_type_s*, const struct dispatch_data_format_type_s*);
dispatch_queue_attr_t dispatch_queue_attr_make_with_overcommit(dispatch_queue_attr_t, bool);
extern uint64_t _dispatch_verif_timeout(dispatch_time_t when);
extern uint64_t _dispatch_verif_time_since_epoch(dispatch_time_t when);
extern uint64_t _dispatch_verif_dq_op(int op, uint64_t state, uint16_t width, uint64_t arg, uint64_t arg2, uint64_t *new_state);
extern uint32_t _dispatch_verif_tid_self(void);
extern unsigned long _dispatch_verif_source_timer_data(uint64_t *target, uint64_t *deadline, uint64_t interval, uint64_t prev);
extern void _dispatch_verif_queue_peek(dispatch_queue_t dq, uint16_t *width, uint64_t *state, uint32_t *priority, const char **target_label);
void dispatch_async_and_wait_f(dispatch_queue_t, void*, dispatch_function_t);
extern unsigned long _dispatch_verif_compute_missed(uint64_t *target, uint64_t *deadline, uint64_t interval, uint64_t now, unsigned long prev);
#include <sys/wait.h>
#include <signal.h>

// ---- clock interposition: the library calls clock_gettime through the PLT, so this definition wins
static int fake_clocks = 0;
static int fake_step_all;   // 1: a reading of any clock moves all three on (time passes between readings of different clocks)
static uint64_t fake_up, fake_mono, fake_wall, fake_step;   // fake_step: every reading of a clock moves it on by this much (time passes between two readings)
int clock_gettime(clockid_t id, struct timespec *ts){
  if (fake_clocks && (id == CLOCK_REALTIME || id == CLOCK_MONOTONIC || id == CLOCK_BOOTTIME)) {
    uint64_t *fc = id == CLOCK_REALTIME ? &fake_wall : id == CLOCK_MONOTONIC ? &fake_up : &fake_mono; uint64_t v = *fc; if(fake_step_all){ fake_wall+=fake_step; fake_up+=fake_step; fake_mono+=fake_step; } else *fc += fake_step;
    ts->tv_sec = (time_t)(v / 1000000000ull); ts->tv_nsec = (long)(v % 1000000000ull); return 0; }
  return (int)syscall(SYS_clock_gettime, id, ts);
}

static size_t parsehex(const char *s, unsigned char *out){ size_t n=0; if(!s||s[0]=='-') return 0; while(s[0]&&s[1]&&s[0]!='\n'&&s[0]!='|'){ unsigned v; sscanf(s,"%2x",&v); out[n++]=(unsigned char)v; s+=2;} return n; }
static void puthex(const unsigned char *p, size_t n){ if(!n){ printf("-"); return;} for(size_t i=0;i<n;i++) printf("%02x",p[i]); }
static void print_data_hex(dispatch_data_t d){ const void *p; size_t n; dispatch_data_t m=dispatch_data_create_map(d,&p,&n); puthex(p,n); dispatch_release(m); }

extern bool _dispatch_verif_block_peek(dispatch_block_t db, volatile void **atomic_flags, volatile void **performed, void **group);
extern void _dispatch_verif_timer_config(dispatch_time_t start, uint64_t interval, uint64_t leeway, uint8_t timer_flags, uint64_t out[4]);
static char *base; // &_dispatch_queue_attrs[0]
static long idx_of(dispatch_queue_attr_t a){ return a ? (long)(((char*)a - base)/16) : -1; }
static dispatch_queue_attr_t app_conc;    // LFN_NOPIE: DISPATCH_QUEUE_CONCURRENT as this (position-dependent) executable sees it: a copy of the table's first entry in its own .bss
static dispatch_queue_attr_t attr_of(long i){ if(i==0 && app_conc) return app_conc; return (dispatch_queue_attr_t)(base + 16*i); }
static const int qos_class_of[7] = {0x00,0x05,0x09,0x11,0x15,0x19,0x21};

static const struct dispatch_data_format_type_s *fmt_of(const char *s){
  if(!strcmp(s,"none")) return &_dispatch_data_format_type_none;
  if(!strcmp(s,"b64")) return &_dispatch_data_format_type_base64;
  if(!strcmp(s,"b32")) return &_dispatch_data_format_type_base32;
  if(!strcmp(s,"b32hex")) return &_dispatch_data_format_type_base32hex;
  if(!strcmp(s,"utf8")) return &_dispatch_data_format_type_utf8;
  if(!strcmp(s,"utf16le")) return &_dispatch_data_format_type_utf16le;
  if(!strcmp(s,"utf16be")) return &_dispatch_data_format_type_utf16be;
  if(!strcmp(s,"utfany")) return &_dispatch_data_format_type_utf_any;
  return NULL; }

// one region per '|'-separated part
static dispatch_data_t build_regions(char *spec){
  dispatch_data_t d=dispatch_data_empty; char *save=NULL; size_t idx=0;
  for(char *part=strtok_r(spec,"|",&save); part; part=strtok_r(NULL,"|",&save)){
    static unsigned char pbuf[(1<<16)+8]; unsigned char *buf=pbuf+3; size_t n=parsehex(part,buf); if(!n) continue;
    dispatch_data_t leaf;
    if((n+idx++)&1){   // every other region is a sub-range of a larger buffer (its record starts at a non-zero offset of its leaf): same bytes
      memset(pbuf,0xEE,3); buf[n]=0xDD; buf[n+1]=0xDD; dispatch_data_t big=dispatch_data_create(pbuf,n+5,NULL,DISPATCH_DATA_DESTRUCTOR_DEFAULT);
      leaf=dispatch_data_create_subrange(big,3,n); dispatch_release(big); }
    else leaf=dispatch_data_create(buf,n,NULL,DISPATCH_DATA_DESTRUCTOR_DEFAULT);
    dispatch_data_t c=dispatch_data_create_concat(d,leaf); dispatch_release(leaf); dispatch_release(d); d=c; }
  return d; }

// ---- C18: hierarchies. "SQ <parents> <conc> <vals> <q> <k> <path> [ctx]" and "SA <parents> <conc> <q> <a> <neg> <path> [ctx]"
//   parents: comma list, -1 = targets a global queue; conc: comma list of 0/1; vals: q:k:v;... or '-'
#define MAXQ 16
#define NK 4
static char skeys[NK];
struct hier { int nq; dispatch_queue_t q[MAXQ]; int glob[MAXQ]; };
static void build_hier(struct hier *h, char *parents, char *conc){
  int par[MAXQ], cc[MAXQ]; h->nq=0; char *sv=NULL;
  for(char *t=strtok_r(parents,",",&sv); t && h->nq<MAXQ; t=strtok_r(NULL,",",&sv)) par[h->nq++]=atoi(t);
  int i=0; sv=NULL; for(char *t=strtok_r(conc,",",&sv); t && i<MAXQ; t=strtok_r(NULL,",",&sv)) cc[i++]=atoi(t);
  for(i=0;i<h->nq;i++){ dispatch_queue_attr_t a = cc[i]? DISPATCH_QUEUE_CONCURRENT : DISPATCH_QUEUE_SERIAL;
    h->glob[i] = (par[i]==-2);       // -2: this member IS a global (root) queue - keys can be set on it and queues can target it
    h->q[i] = par[i]==-2 ? (dispatch_queue_t)dispatch_get_global_queue(DISPATCH_QUEUE_PRIORITY_LOW,0) : par[i]<0 ? dispatch_queue_create("hq", a) : dispatch_queue_create_with_target("hq", a, h->q[par[i]]); } }
static void free_hier(struct hier *h){ for(int i=h->nq-1;i>=0;i--){ if(h->glob[i]){ for(int k=0;k<NK;k++) dispatch_queue_set_specific(h->q[i],&skeys[k],NULL,NULL); } else dispatch_release(h->q[i]); } }
struct probe { int kind; const void *key; dispatch_queue_t aq; int neg; volatile long got; dispatch_queue_t inner; int path; struct probe *self; };
static void probe_fn(void *c){ struct probe *p=c;
  if(p->kind==0) p->got=(long)(intptr_t)dispatch_get_specific(p->key);
  else { if(p->neg) dispatch_assert_queue_not(p->aq); else dispatch_assert_queue(p->aq); p->got=1; } }
static void probe_apply(void *c, size_t i){ if(i==0) probe_fn(c); }
static void submit(dispatch_queue_t q, int path, struct probe *p){
  switch(path){
  case 0: { dispatch_group_t g=dispatch_group_create(); dispatch_group_async_f(g,q,p,probe_fn); dispatch_group_wait(g,DISPATCH_TIME_FOREVER); dispatch_release(g); break; }
  case 1: dispatch_sync_f(q,p,probe_fn); break;
  case 2: dispatch_barrier_sync_f(q,p,probe_fn); break;
  case 3: dispatch_async_and_wait_f(q,p,probe_fn); break;
  case 4: dispatch_apply_f(2,q,p,probe_apply); break;
  case 7: dispatch_apply_f(1,q,p,probe_apply); break;                                             // a single iteration: the apply runs on the calling thread
  case 8: dispatch_apply_f(1,(dispatch_queue_t)dispatch_get_global_queue(0,0),p,probe_apply); break;   // ... onto a global queue: the item's chain is that root queue alone
  case 5: { dispatch_semaphore_t s=dispatch_semaphore_create(0); dispatch_barrier_async(q,^{ probe_fn(p); dispatch_semaphore_signal(s); }); dispatch_semaphore_wait(s,DISPATCH_TIME_FOREVER); dispatch_release(s); break; }
  default: { dispatch_semaphore_t s=dispatch_semaphore_create(0); dispatch_async(q,^{ probe_fn(p); dispatch_semaphore_signal(s); }); dispatch_semaphore_wait(s,DISPATCH_TIME_FOREVER); dispatch_release(s); break; }
  } }
static void outer_fn(void *c){ struct probe *p=c; submit(p->inner, p->path, p); }

#define MAXS 64
int main(void){
  base = (char*)DISPATCH_QUEUE_CONCURRENT;
#ifdef LFN_NOPIE
  { void *hd=dlopen("libdispatch.so",RTLD_NOLOAD|RTLD_NOW); char *t = hd ? (char*)dlsym(hd,"_dispatch_queue_attr_concurrent") : NULL;   // the library's own definition: the table
    app_conc = DISPATCH_QUEUE_CONCURRENT; if(t) base = t; }
#endif
  static char line[1<<18];
  while (fgets(line,sizeof line,stdin)){
    char *tok = strtok(line," \n");
    if(!tok){ puts("bad-op"); continue; }
    if(!strcmp(tok,"T")){ uint64_t w=strtoull(strtok(NULL," \n"),NULL,10); int64_t d=strtoll(strtok(NULL," \n"),NULL,10);
      fake_up=strtoull(strtok(NULL," \n"),NULL,10); fake_mono=strtoull(strtok(NULL," \n"),NULL,10); fake_wall=strtoull(strtok(NULL," \n"),NULL,10);
      fake_clocks=1; uint64_t r=(uint64_t)dispatch_time(w,d); fake_clocks=0; printf("%" PRIu64 "\n",r); }
    else if(!strcmp(tok,"WT")){ int64_t s=strtoll(strtok(NULL," \n"),NULL,10); int64_t n=strtoll(strtok(NULL," \n"),NULL,10); int64_t d=strtoll(strtok(NULL," \n"),NULL,10);
      struct timespec ts={ (time_t)s, (long)n };
      printf("%" PRIu64 "\n",(uint64_t)dispatch_walltime(&ts,d)); }
    else if(!strcmp(tok,"WN")){ fake_wall=strtoull(strtok(NULL," \n"),NULL,10); int64_t d=strtoll(strtok(NULL," \n"),NULL,10);
      fake_clocks=1; uint64_t r=(uint64_t)dispatch_walltime(NULL,d); fake_clocks=0; printf("%" PRIu64 "\n",r); }
    else if(!strcmp(tok,"TO")){ uint64_t w=strtoull(strtok(NULL," \n"),NULL,10);
      fake_up=strtoull(strtok(NULL," \n"),NULL,10); fake_mono=strtoull(strtok(NULL," \n"),NULL,10); fake_wall=strtoull(strtok(NULL," \n"),NULL,10);
      fake_clocks=1; uint64_t r=_dispatch_verif_timeout(w); fake_clocks=0; printf("%" PRIu64 "\n",r); }
    else if(!strcmp(tok,"TOS")){ uint64_t w=strtoull(strtok(NULL," \n"),NULL,10);     /* as TO, with clocks that advance by <step> at every reading */
      fake_up=strtoull(strtok(NULL," \n"),NULL,10); fake_mono=strtoull(strtok(NULL," \n"),NULL,10); fake_wall=strtoull(strtok(NULL," \n"),NULL,10); fake_step=strtoull(strtok(NULL," \n"),NULL,10);
      fake_clocks=1; uint64_t r=_dispatch_verif_timeout(w); fake_clocks=0; fake_step=0; printf("%" PRIu64 "\n",r); }
    else if(!strcmp(tok,"TES")){ uint64_t w=strtoull(strtok(NULL," \n"),NULL,10);     /* as TE, with time passing (all clocks move on by <step>) at every reading of a clock */
      fake_up=strtoull(strtok(NULL," \n"),NULL,10); fake_mono=strtoull(strtok(NULL," \n"),NULL,10); fake_wall=strtoull(strtok(NULL," \n"),NULL,10); fake_step=strtoull(strtok(NULL," \n"),NULL,10);
      fake_clocks=1; fake_step_all=1; uint64_t r=_dispatch_verif_time_since_epoch(w); fake_clocks=0; fake_step=0; fake_step_all=0; printf("%" PRIu64 "\n",r); }
    else if(!strcmp(tok,"TE")){ uint64_t w=strtoull(strtok(NULL," \n"),NULL,10);
      fake_up=strtoull(strtok(NULL," \n"),NULL,10); fake_mono=strtoull(strtok(NULL," \n"),NULL,10); fake_wall=strtoull(strtok(NULL," \n"),NULL,10);
      fake_clocks=1; uint64_t r=_dispatch_verif_time_since_epoch(w); fake_clocks=0; printf("%" PRIu64 "\n",r); }
    else if(!strcmp(tok,"X2")){   /* X2 <infmt> <outfmt> <hex>|<hex>|... : transform of a fragmented object */
      const struct dispatch_data_format_type_s *fi=fmt_of(strtok(NULL," \n")), *fo=fmt_of(strtok(NULL," \n"));
      char *spec=strtok(NULL," \n"); dispatch_data_t d=build_regions(spec?spec:(char*)"-");
      if(dispatch_data_get_size(d)==0){ puts("-"); continue; }
      dispatch_data_t r=dispatch_data_create_with_transform(d,fi,fo);
      if(!r){ puts("NULL"); } else { size_t sz=dispatch_data_get_size(r); if(sz>(1u<<24)) printf("size %zu\n",sz); else { print_data_hex(r); puts(""); } dispatch_release(r); }
      dispatch_release(d); }
    else if(!strcmp(tok,"AQ")){ long i=atol(strtok(NULL," \n")); int q=atoi(strtok(NULL," \n")); int r=atoi(strtok(NULL," \n"));
      printf("%ld\n", idx_of(dispatch_queue_attr_make_with_qos_class(attr_of(i),(dispatch_qos_class_t)qos_class_of[q],-r))); }
    else if(!strcmp(tok,"BPW")){ long pre=atol(strtok(NULL," \n")); char *st=strtok(NULL," \n"); long post=atol(strtok(NULL," \n"));
      fflush(stdout); pid_t pid=fork(); if(pid>0){ int stt; waitpid(pid,&stt,0); if(!(WIFEXITED(stt)&&WEXITSTATUS(stt)==0)) puts("crash"); continue; }
      signal(SIGILL,SIG_DFL); signal(SIGSEGV,SIG_DFL); signal(SIGABRT,SIG_DFL);
      static volatile long body; dispatch_block_t b=dispatch_block_create(0,^{ body++; }); volatile void *af,*pf; void *grp; _dispatch_verif_block_peek(b,&af,&pf,&grp);
      for(long i=0;i<pre;i++) b();
      if(strcmp(st,"-")) *(volatile uint32_t*)pf=(uint32_t)strtoul(st,NULL,10);       // the counter word as a longer history would have left it
      for(long i=0;i<post;i++) b();
      printf("ok %u %d\n", *(volatile uint32_t*)pf, dispatch_group_wait((dispatch_group_t)grp,DISPATCH_TIME_NOW)==0); fflush(stdout); _exit(0); }
    else if(!strcmp(tok,"NP")){ printf("%d\n", app_conc && (char*)app_conc != base); }      // 1: DISPATCH_QUEUE_CONCURRENT lies outside the table (copy relocation)
    else if(!strcmp(tok,"AI")){ long i=atol(strtok(NULL," \n")); printf("%ld\n", idx_of(dispatch_queue_attr_make_initially_inactive(attr_of(i)))); }
    else if(!strcmp(tok,"AO")){ long i=atol(strtok(NULL," \n")); int b=atoi(strtok(NULL," \n")); printf("%ld\n", idx_of(dispatch_queue_attr_make_with_overcommit(attr_of(i),b))); }
    else if(!strcmp(tok,"AF")){ long i=atol(strtok(NULL," \n")); int f=atoi(strtok(NULL," \n")); printf("%ld\n", idx_of(dispatch_queue_attr_make_with_autorelease_frequency(attr_of(i),(dispatch_autorelease_frequency_t)f))); }
    else if(!strcmp(tok,"CM")){ uint64_t t=strtoull(strtok(NULL," \n"),NULL,10), d=strtoull(strtok(NULL," \n"),NULL,10), iv=strtoull(strtok(NULL," \n"),NULL,10), nw=strtoull(strtok(NULL," \n"),NULL,10); unsigned long pv=strtoul(strtok(NULL," \n"),NULL,10);
      unsigned long r=_dispatch_verif_compute_missed(&t,&d,iv,nw,pv); printf("%lu %" PRIu64 " %" PRIu64 "\n", r, t, d); }
    else if(!strcmp(tok,"DQ")){ int op=atoi(strtok(NULL," \n")); uint64_t st=strtoull(strtok(NULL," \n"),NULL,10); unsigned w=(unsigned)strtoul(strtok(NULL," \n"),NULL,10);
      uint64_t a=strtoull(strtok(NULL," \n"),NULL,10), a2=strtoull(strtok(NULL," \n"),NULL,10), nw=0; uint64_t r=_dispatch_verif_dq_op(op,st,(uint16_t)w,a,a2,&nw);
      uint32_t self=_dispatch_verif_tid_self(); if(op==1 && (nw&0x3fffffffull)==self && (st&0x3fffffffull)==0) nw=(nw&~0x3fffffffull)|1;   /* the caller's lock value -> 1 */
      printf("%" PRIu64 " %" PRIu64 "\n", r, nw); }
    else if(!strcmp(tok,"TD")){ uint64_t t=strtoull(strtok(NULL," \n"),NULL,10), d=strtoull(strtok(NULL," \n"),NULL,10), iv=strtoull(strtok(NULL," \n"),NULL,10), nw=strtoull(strtok(NULL," \n"),NULL,10); uint64_t pv=strtoull(strtok(NULL," \n"),NULL,10);
      fake_up=nw; fake_mono=nw; fake_wall=nw; fake_clocks=1; unsigned long r=_dispatch_verif_source_timer_data(&t,&d,iv,pv); fake_clocks=0; printf("%lu %" PRIu64 " %" PRIu64 "\n", r, t, d); }
    else if(!strcmp(tok,"TC")){ uint64_t st=strtoull(strtok(NULL," \n"),NULL,10), iv=strtoull(strtok(NULL," \n"),NULL,10), lw=strtoull(strtok(NULL," \n"),NULL,10); unsigned fc=(unsigned)atoi(strtok(NULL," \n"));
      fake_up=strtoull(strtok(NULL," \n"),NULL,10); fake_mono=strtoull(strtok(NULL," \n"),NULL,10); fake_wall=strtoull(strtok(NULL," \n"),NULL,10); uint64_t o[4];
      fake_clocks=1; _dispatch_verif_timer_config(st,iv,lw,(uint8_t)(fc<<2),o); fake_clocks=0; printf("%" PRIu64 " %" PRIu64 " %" PRIu64 " %" PRIu64 "\n",o[0],o[1],o[2],o[3]); }
    else if(!strcmp(tok,"QC")){ long i=atol(strtok(NULL," \n")); dispatch_queue_t q=dispatch_queue_create("qc",attr_of(i));
      int rel=0; unsigned cls=(unsigned)dispatch_queue_get_qos_class(q,&rel); uint16_t w; uint64_t st; uint32_t pr; const char *tl;
      _dispatch_verif_queue_peek(q,&w,&st,&pr,&tl);
      printf("%u %d %d %d\n", cls, rel, w!=1, (int)((st>>56)&1)); if((st>>56)&1) dispatch_activate(q); dispatch_release(q); }
    else if(!strcmp(tok,"GQ")){ long id=atol(strtok(NULL," \n")); unsigned long fl=strtoul(strtok(NULL," \n"),NULL,10);
      dispatch_queue_t q=(dispatch_queue_t)dispatch_get_global_queue(id,fl); puts(q? dispatch_queue_get_label(q) : "NULL"); }
    else if(!strcmp(tok,"SQ")||!strcmp(tok,"SA")){ int isq = tok[1]=='Q';
      char *parents=strtok(NULL," \n"), *conc=strtok(NULL," \n"), *vals = isq? strtok(NULL," \n") : NULL;
      int q=atoi(strtok(NULL," \n")); int k_or_a=atoi(strtok(NULL," \n")); int neg = isq?0:atoi(strtok(NULL," \n")); int path=atoi(strtok(NULL," \n"));
      char *cx=strtok(NULL," \n"); int ctx = cx? atoi(cx) : -1;
      if(!isq){ fflush(stdout); pid_t pid=fork(); if(pid>0){ int stt; waitpid(pid,&stt,0); puts((WIFEXITED(stt)&&WEXITSTATUS(stt)==0)?"ok": (WIFSIGNALED(stt)&&WTERMSIG(stt)==SIGALRM)?"timeout":"crash"); continue; }
        freopen("/dev/null","w",stderr); alarm(20); }
      struct hier h; build_hier(&h,parents,conc);
      if(isq && vals && vals[0]!='-'){ char *sv=NULL; for(char *t=strtok_r(vals,";",&sv); t; t=strtok_r(NULL,";",&sv)){ int a,b; long v; if(sscanf(t,"%d:%d:%ld",&a,&b,&v)==3 && a<h.nq && b<NK) dispatch_queue_set_specific(h.q[a],&skeys[b],(void*)(intptr_t)v,NULL); } }
      struct probe p={ .kind=isq?0:1, .key=&skeys[isq?k_or_a:0], .aq=isq?NULL:h.q[k_or_a], .neg=neg, .got=-1, .inner=h.q[q], .path=path };
      if(ctx>=0) dispatch_sync_f(h.q[ctx],&p,outer_fn); else submit(h.q[q],path,&p);
      if(isq){ printf("%ld\n",p.got); free_hier(&h); } else _exit(0); }
    else if(!strcmp(tok,"X")){
      dispatch_data_t st[MAXS]; int sp=0; int nleaf=1; char *t;
      while((t=strtok(NULL," \n"))){
        if(t[0]=='L'){ int k=atoi(t+1); unsigned char b[256]; for(int i=0;i<k;i++) b[i]=(unsigned char)((nleaf*31+i*7+1)%256);
          if(sp<MAXS) st[sp++]= k? dispatch_data_create(b,k,NULL,DISPATCH_DATA_DESTRUCTOR_DEFAULT) : dispatch_data_empty; nleaf++; }
        else if(t[0]=='C' && sp>=2){ dispatch_data_t b=st[--sp], a=st[--sp]; st[sp++]=dispatch_data_create_concat(a,b); }
        else if(t[0]=='D' && sp>=1 && sp<MAXS){ st[sp]=st[sp-1]; dispatch_retain(st[sp]); sp++; }
        else if(t[0]=='S' && sp>=1){ size_t o,l; sscanf(t+1,"%zu,%zu",&o,&l); st[sp-1]=dispatch_data_create_subrange(st[sp-1],o,l); }
        else if(t[0]=='R' && sp>=1){ size_t off=0; dispatch_data_t r=dispatch_data_copy_region(st[sp-1],(size_t)atol(t+1),&off); printf("R%zu:%zu ",off,dispatch_data_get_size(r)); }
      }
      if(!sp){ puts("empty-stack"); continue; }
      dispatch_data_t a=st[sp-1];
      printf("size=%zu regions=",dispatch_data_get_size(a));
      __block int first=1;
      dispatch_data_apply(a,^bool(dispatch_data_t rg, size_t off, const void *p, size_t n){ (void)rg;(void)p; printf("%s%zu:%zu",first?"":",",off,n); first=0; return true; });
      printf(" bytes="); print_data_hex(a); puts("");
    }
    else puts("bad-op");
  }
  return 0;
}
