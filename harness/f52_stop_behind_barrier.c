// Forced history for finding F52 (C14): a placement of stop relative to an in-flight operation - with a dispatch_io_barrier pending
// behind it. A read waits on an empty pipe; a barrier is scheduled (it suspends the channel's barrier queue until the read is done);
// dispatch_io_close(DISPATCH_IO_STOP) is called. The stop's cancellation of the pending read is itself routed through the barrier
// queue, so it never runs: the read is never cancelled, the barrier never runs, the cleanup handler never runs - until bytes arrive.
// The control (the same without the barrier) completes the read with ECANCELED at once.
// output: "ORACLE VIOL F52 ..." (exit 1) if the read was not cancelled within 3 s, "ORACLE ok ..." otherwise.
#define _GNU_SOURCE
#include <dispatch/dispatch.h>
#include <stdio.h>
#include <errno.h>
#include <unistd.h>
static int once(int with_barrier, int *err_out){ int p[2]; if(pipe(p)) return -1; dispatch_queue_t q=dispatch_queue_create("f52.q",NULL);
  dispatch_semaphore_t ds=dispatch_semaphore_create(0); __block int rerr=-1;
  dispatch_io_t ch=dispatch_io_create(DISPATCH_IO_STREAM,p[0],q,^(int e){ (void)e; });
  dispatch_io_read(ch,0,100,q,^(bool done,dispatch_data_t d,int e){ (void)d; if(done){ rerr=e; dispatch_semaphore_signal(ds); } });
  usleep(100000);
  if(with_barrier){ dispatch_io_barrier(ch,^{ }); usleep(100000); }
  dispatch_io_close(ch,DISPATCH_IO_STOP);
  int late = dispatch_semaphore_wait(ds,dispatch_time(DISPATCH_TIME_NOW,3ll*NSEC_PER_SEC))!=0;
  if(late){ if(write(p[1],"x",1)!=1){} dispatch_semaphore_wait(ds,dispatch_time(DISPATCH_TIME_NOW,5ll*NSEC_PER_SEC)); }      // let everything finish
  *err_out=rerr; dispatch_release(ch); usleep(20000); close(p[0]); close(p[1]); return late; }
int main(void){ alarm(60); int e0=0,e1=0; int c=once(0,&e0), b=once(1,&e1);
  if(c){ printf("ORACLE VIOL a read pending on an empty pipe was not cancelled within 3 s of dispatch_io_close(DISPATCH_IO_STOP) (no barrier involved)\n"); return 1; }
  if(b){ printf("ORACLE VIOL F52 with a dispatch_io_barrier pending behind a read that waits on an empty pipe, dispatch_io_close(DISPATCH_IO_STOP) did not cancel the read within 3 s (without the barrier it is cancelled at once, error %d): the stop is queued behind the barrier, which waits for the read\n",e0); return 1; }
  printf("ORACLE ok the stop cancelled the pending read with and without a pending barrier (errors %d, %d)\n",e0,e1); return 0; }
