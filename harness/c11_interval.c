// C11 oracle for interval sources (DISPATCH_SOURCE_TYPE_INTERVAL, private/source_private.h): the timer configuration of these sources
// is computed by _dispatch_interval_config_create, not by the function dispatch_source_set_timer uses: the first fire is the next
// multiple of the interval on the uptime clock, later ones every interval. Sources of several intervals are created at phases spread
// over the whole period (first half, second half, right before and right after a boundary).
// Oracle, at every handler call: not before the first boundary after the creation call began (clock read BEFORE the create), the counts
// reported so far never exceed the boundaries that have passed (clock read AFTER the count was taken), never a zero; every source fires.
// usage: c11_interval <seed> <rounds>
#define _GNU_SOURCE
#include <dispatch/dispatch.h>
#include <stdio.h>
#include <stdint.h>
#include <stdlib.h>
#include <unistd.h>
#include <time.h>
#include <stdatomic.h>
extern const struct dispatch_source_type_s _dispatch_source_type_interval;
static atomic_int viol; static char vmsg[300];
static void fail(const char *m, long a, long b, long c){ if(!atomic_exchange(&viol,1)) snprintf(vmsg,sizeof vmsg,"%s %ld %ld %ld",m,a,b,c); }
static uint64_t now_ns(void){ struct timespec t; clock_gettime(CLOCK_MONOTONIC,&t); return (uint64_t)t.tv_sec*1000000000ull+(uint64_t)t.tv_nsec; }
struct iv { dispatch_source_t ds; uint64_t t0, ins; int ms, phase; _Atomic uint64_t total; _Atomic long calls; };
static void handler(void *c){ struct iv *t=c; uint64_t n=dispatch_source_get_data(t->ds); uint64_t now=now_ns(); long k=atomic_fetch_add(&t->calls,1)+1;
  uint64_t first=(t->t0/t->ins+1)*t->ins, bounds=now/t->ins - t->t0/t->ins;
  if(!n) fail("the handler of an interval source reported zero: interval ms / call",t->ms,k,0);
  if(now<first) fail("an interval source fired before its first interval boundary: interval ms / ns early / created at per-mille of the period",t->ms,(long)(first-now),t->phase);
  uint64_t tot=atomic_fetch_add(&t->total,n)+n;
  if(tot>bounds) fail("an interval source reported more firings than interval boundaries have passed since it was created: interval ms / reported so far / boundaries passed",t->ms,(long)tot,(long)bounds); }
int main(int argc,char**argv){ uint64_t seed=argc>1?strtoull(argv[1],0,0):1; int rounds=argc>2?atoi(argv[2]):3; long calls=0;
  static const int phases[]={20,150,300,450,499,501,650,800,950,995};
  dispatch_queue_t q=dispatch_queue_create("iv.q",NULL);
  for(int r=0; r<rounds && !viol; r++){ enum { N=10 }; struct iv *T=calloc(N,sizeof *T);   /* never freed: a late handler may still look at it */
    for(int i=0;i<N;i++){ struct iv *t=&T[i]; t->ms=7+(int)((seed*3+(uint64_t)r*5+(uint64_t)i*4)%34); t->ins=(uint64_t)t->ms*1000000ull; t->phase=phases[(i+r)%10]; atomic_store(&t->total,0); atomic_store(&t->calls,0);
      for(int w=0; w<200000; w++){ uint64_t ph=now_ns()%t->ins, want=t->ins*(uint64_t)t->phase/1000; if(ph>=want && ph<want+t->ins/100) break; usleep(20); }
      t->t0=now_ns();                                   // read before the source computes its start
      t->ds=dispatch_source_create(&_dispatch_source_type_interval,(uintptr_t)t->ms,0, i%2? q : NULL);
      if(!t->ds){ fail("no interval source was created: interval ms",t->ms,0,0); break; }
      dispatch_set_context(t->ds,t); dispatch_source_set_event_handler_f(t->ds,handler); dispatch_activate(t->ds); }
    if(viol) break;
    usleep(200000);
    for(int i=0;i<N;i++){ dispatch_source_cancel(T[i].ds); }
    dispatch_sync(q,^{}); usleep(3000);
    for(int i=0;i<N;i++){ calls+=atomic_load(&T[i].calls); if(!viol && !atomic_load(&T[i].calls)) fail("an interval source never fired in 200 ms: interval ms",T[i].ms,0,0); dispatch_release(T[i].ds); } }
  if(viol){ printf("ORACLE VIOL seed=%llu %s\n",(unsigned long long)seed,vmsg); fflush(stdout); _exit(1); }
  printf("ORACLE ok items=%ld\n",calls); fflush(stdout); _exit(0); }
