// Forced schedule for finding F14 (C01 / C04 / C06): a concurrent queue whose drainer
//   1. meets a barrier at the head while a non-barrier item is still in flight: `_dispatch_queue_try_upgrade_full_width` fails and
//      leaves PENDING_BARRIER with its width reservation in dq_state;
//   2. cannot unlock because the in-flight item completed meanwhile and set DIRTY (`_dispatch_queue_drain_try_unlock` clears DIRTY
//      and asks for another pass);
//   3. finds the queue suspended at the start of that pass and leaves with the barrier still at the head:
//      `_dispatch_queue_adjust_owned` subtracts the pending-barrier reservation from `owned` a second time and
//      `_dispatch_queue_invoke_finish` adds it to dq_state again.
// After that the width field says 2 x dq_width - 1 units are in use, the queue is never runnable again and everything submitted to
// it (the barrier, later items, synchronous callers) is stranded although the queue has been resumed.
// The schedule is forced with the hooks: the drainer is held right after the failed upgrade until the in-flight item has completed,
// and right before it clears DIRTY until the queue has been suspended. Each hold is a delay a preemption could cause.
// output: "ORACLE ok ..." if the barrier runs after the resume (or the schedule could not be forced), "ORACLE VIOL ..." otherwise.
#define _GNU_SOURCE
#include <dispatch/dispatch.h>
#include <stdio.h>
#include <stdint.h>
#include <stdlib.h>
#include <string.h>
#include <unistd.h>
#include <pthread.h>
#include <stdatomic.h>
typedef void (*cb_t)(const volatile void *addr, unsigned size, int op, uint64_t o, uint64_t n, const char *func, int line);
extern cb_t _dispatch_verif_atomic_cb;
extern void (*_dispatch_verif_yield_cb)(const volatile void *addr, const char *func, int line);
extern volatile void *_dispatch_verif_queue_state_addr(dispatch_queue_t dq);
static dispatch_queue_t Q; static volatile void *QS;
static atomic_int stage, go_s1, s1_running, hold1, hold2, go1, go2, barrier_ran, later_ran;
#define PENDING_BARRIER 0x0000010000000000ull
static void spin_until(atomic_int *f){ for(int w=0; w<100000 && !atomic_load(f); w++) usleep(100); }
static void cb(const volatile void *addr, unsigned size, int op, uint64_t o, uint64_t n, const char *func, int line){ (void)size;(void)line;(void)o;
  if(addr!=QS) return;
  if(!strcmp(func,"_dispatch_queue_try_upgrade_full_width") && op==3 && (n&PENDING_BARRIER) && atomic_load(&stage)==1){ atomic_store(&stage,2); atomic_store(&hold1,1); spin_until(&go1); } }
static void ycb(const volatile void *addr, const char *func, int line){ (void)line;
  if(addr!=QS) return;
  // the xor that clears DIRTY after the refused unlock
  if(!strcmp(func,"_dispatch_queue_drain_try_unlock") && atomic_load(&stage)==2){ atomic_store(&stage,3); atomic_store(&hold2,1); spin_until(&go2); } }
static void *t_sync(void *a){ (void)a; dispatch_sync(Q, ^{ atomic_store(&s1_running,1); spin_until(&go_s1); }); return 0; }
int main(void){ Q=dispatch_queue_create("f14",DISPATCH_QUEUE_CONCURRENT); QS=_dispatch_verif_queue_state_addr(Q);
  _dispatch_verif_yield_cb=ycb; _dispatch_verif_atomic_cb=cb;
  pthread_t t; pthread_create(&t,0,t_sync,0); spin_until(&s1_running);                 // a non-barrier item in flight
  atomic_store(&stage,1);
  dispatch_barrier_async(Q, ^{ atomic_store(&barrier_ran,1); });                         // a barrier at the head: the drainer cannot upgrade
  spin_until(&hold1);
  int forced1=atomic_load(&hold1);
  atomic_store(&go_s1,1); pthread_join(t,0);                                             // the in-flight item completes: DIRTY
  atomic_store(&go1,1);
  spin_until(&hold2);
  int forced2=atomic_load(&hold2);
  dispatch_suspend(Q);                                                                   // suspended before the next pass looks
  atomic_store(&go2,1);
  usleep(200000);
  uint64_t st=*(volatile uint64_t*)QS;
  dispatch_resume(Q);
  dispatch_async(Q, ^{ atomic_store(&later_ran,1); });
  for(int w=0; w<50 && !(atomic_load(&barrier_ran) && atomic_load(&later_ran)); w++) usleep(100000);
  _dispatch_verif_atomic_cb=0; _dispatch_verif_yield_cb=0;
  if(!forced1 || !forced2) printf("ORACLE ok F14 schedule could not be forced (%d %d)\n",forced1,forced2);
  else if(!atomic_load(&barrier_ran) || !atomic_load(&later_ran))
    printf("ORACLE VIOL F14 forced schedule: after dispatch_resume the barrier item%s never ran within 5 s (dq_state while suspended %016lx, now %016lx: the pending-barrier width reservation was added twice)\n",
      atomic_load(&later_ran)?"":" and the item submitted after it", (unsigned long)st, (unsigned long)*(volatile uint64_t*)QS);
  else printf("ORACLE ok F14 forced schedule: barrier and later item ran after the resume (dq_state while suspended %016lx)\n",(unsigned long)st);
  fflush(stdout); _exit((forced1&&forced2&&!(atomic_load(&barrier_ran)&&atomic_load(&later_ran)))?1:0); }
