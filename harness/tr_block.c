// L-trace + L-api harness for dispatch block objects (C19).
// Random scenarios over one block object each: created with random flags, submitted through async / sync / group_async /
// barrier_async / direct invocation (once or twice), cancelled from the submitting thread or from another thread at a random
// moment, waited for (at most one waiter, as the API requires) with zero / short / unbounded timeout, observed by 0..3
// dispatch_block_notify registrations made before, during or after the execution.
// A "gated" variant puts the block behind a gate item on a serial queue, so that "wait / notify not before the (possibly
// skipped) execution" is observable even for a cancelled block whose body never runs.
// Every atomic transition on the block's dbpd_atomic_flags / dbpd_performed words and on its private group's state word is
// recorded for replay through BlockP.step and GroupP.step.
// usage: tr_block <seed> <scenarios>
// output: "OFF state <o>", "ORACLE ok|VIOL ...", then "B ..." (block words) and "E ..." (private group) events
#define _GNU_SOURCE
#include <dispatch/dispatch.h>
extern void _Block_release(const void *); extern void *_Block_copy(const void *);
#define Block_release(b) _Block_release((const void*)(b))
#include <stdio.h>
#include <stdint.h>
#include <stdlib.h>
#include <string.h>
#include <unistd.h>
#include <pthread.h>
#include <sched.h>
#include <stdatomic.h>
#include <stdbool.h>
#include <time.h>
#include <sys/syscall.h>
typedef void (*cb_t)(const volatile void *addr, unsigned size, int op, uint64_t o, uint64_t n, const char *func, int line);
extern cb_t _dispatch_verif_atomic_cb;
extern void (*_dispatch_verif_yield_cb)(const volatile void *addr, const char *func, int line);
extern bool _dispatch_verif_block_peek(dispatch_block_t db, volatile void **flags, volatile void **performed, void **group);
extern volatile void *_dispatch_verif_queue_state_addr(dispatch_queue_t dq);
typedef struct { uint64_t seq; int tid; int kind; int id; int off; unsigned size; int op; uint64_t o, n; const char *func; } ev_t;
#define MAXEV (1<<21)
static ev_t *evs; static atomic_ulong nev, seq;
static __thread int mytid; static __thread uint64_t rng; static uint64_t seed;
static inline uint64_t rnd(void){ if(!rng) rng = seed ^ (uint64_t)syscall(SYS_gettid)*0x9e3779b97f4a7c15ull; rng ^= rng<<13; rng ^= rng>>7; rng ^= rng<<17; return rng; }
// the block under observation
static volatile void *a_flags, *a_perf; static void *a_group; static int cur_id; static long group_state_off;
static void cb(const volatile void *addr, unsigned size, int op, uint64_t o, uint64_t n, const char *func, int line){ (void)line;
  int kind; long d=0;
  if (addr==a_flags) kind=0; else if (addr==a_perf) kind=1;
  else { d=(char*)addr-(char*)a_group; if(!a_group || d<0 || d>=96) return; kind=2; }
  if (!mytid) mytid=(int)syscall(SYS_gettid);
  unsigned long k=atomic_fetch_add(&nev,1); if(k>=MAXEV) return;
  evs[k]=(ev_t){ atomic_fetch_add(&seq,1), mytid, kind, cur_id, (int)d, size, op, o, n, func }; }
static void ycb(const volatile void *addr, const char *func, int line){ (void)func;(void)line;
  long d=(char*)addr-(char*)a_group; if(addr!=a_flags && addr!=a_perf && (!a_group || d<0 || d>=96)) return;
  uint64_t r=rnd()%8; if(r==0) sched_yield(); else if(r==1) usleep(rnd()%60); }
static void dump(void){ unsigned long n=atomic_load(&nev); if(n>MAXEV) n=MAXEV;
  for(unsigned long i=0;i<n;i++){ ev_t *e=&evs[i];
    if(e->kind==2) printf("E %lu %d %d %u %d %016lx %016lx %s %d\n", e->seq, e->tid, e->off, e->size, e->op, e->o, e->n, e->func, e->id);
    else printf("B %d %d %d %d %lx %lx %s\n", e->id, e->tid, e->kind, e->op, e->o, e->n, e->func); }
  fflush(stdout); }
static uint64_t now_ns(void){ struct timespec ts; clock_gettime(CLOCK_MONOTONIC,&ts); return (uint64_t)ts.tv_sec*1000000000ull+(uint64_t)ts.tv_nsec; }
static atomic_int viol; static char vmsg[300];
static void fail(const char *m, long a, long b, long c){ if(!atomic_exchange(&viol,1)) snprintf(vmsg,sizeof vmsg,"%s %ld %ld %ld",m,a,b,c); }
// ---- one scenario
static atomic_long clk;
static long stamp(void){ return atomic_fetch_add(&clk,1)+1; }
struct sc { dispatch_block_t b; _Atomic long body_start, body_end; _Atomic int runs, ends; _Atomic long cancel_ret; _Atomic long gate_open; _Atomic int tc_in_body;
  _Atomic int notes_run[4]; _Atomic long note_start[4]; int nnotes; _Atomic long wait_ret_stamp; _Atomic long wait_ret; int submits; int gated; int cancel_mode; };
static struct sc S;
static void *canceller(void *a){ (void)a; usleep(rnd()%400); dispatch_block_cancel(S.b); atomic_store(&S.cancel_ret, stamp()); return 0; }
struct waitarg { uint64_t to_ns; int forever; };
static void *waiter(void *p){ struct waitarg *w=p; if(rnd()%2) usleep(rnd()%300);
  uint64_t t0=now_ns(); long r=dispatch_block_wait(S.b, w->forever?DISPATCH_TIME_FOREVER:dispatch_time(DISPATCH_TIME_NOW,(int64_t)w->to_ns)); uint64_t t1=now_ns();
  long st=stamp();
  if(r==0){ // zero only after the first execution (or its skipped execution) has completed
    if(S.gated && !atomic_load(&S.gate_open)) fail("dispatch_block_wait returned 0 while the block was still queued behind the gate item (its execution had not happened): scenario",cur_id,0,0);
    if(atomic_load(&S.runs) && !atomic_load(&S.ends)) fail("dispatch_block_wait returned 0 while the block's body was still running: scenario",cur_id,0,0);
    if(!atomic_load(&S.body_start) && !S.cancel_mode) fail("dispatch_block_wait returned 0 before the block (never cancelled) had run: scenario",cur_id,0,0);
  } else if(!w->forever && t1-t0 < w->to_ns) fail("dispatch_block_wait returned non-zero before its timeout elapsed: ns early",(long)(w->to_ns-(t1-t0)),0,0);
  else if(w->forever) fail("dispatch_block_wait(FOREVER) returned non-zero",r,0,0);
  atomic_store(&S.wait_ret, r==0?1:2); atomic_store(&S.wait_ret_stamp, st); return 0; }
static void note_body(int i){ long st=stamp(); if(atomic_fetch_add(&S.notes_run[i],1)) fail("a dispatch_block_notify notification ran more than once: scenario/note",cur_id,i,0);
  atomic_store(&S.note_start[i], st);
  if(S.gated && !atomic_load(&S.gate_open)) fail("notification ran while the block was still queued behind the gate item: scenario/note",cur_id,i,0);
  // (a block submitted twice and cancelled in between may complete first through its skipped second execution while the first body still runs)
  if(atomic_load(&S.runs) && !atomic_load(&S.ends) && !(S.submits>1 && S.cancel_mode)) fail("notification started while the block's body was still running (no execution complete): scenario/note",cur_id,i,0);
  if(!atomic_load(&S.body_start) && !S.cancel_mode) fail("notification ran before the block (never cancelled) had run: scenario/note",cur_id,i,0); }
static void add_note(dispatch_queue_t q){ int i=S.nnotes++; dispatch_block_notify(S.b, q, ^{ note_body(i); }); }
static int scenario(int id){
  memset((void*)&S,0,sizeof S); cur_id=id;
  static const dispatch_block_flags_t FL[]={0,DISPATCH_BLOCK_BARRIER,DISPATCH_BLOCK_DETACHED,DISPATCH_BLOCK_ASSIGN_CURRENT,DISPATCH_BLOCK_NO_QOS_CLASS,DISPATCH_BLOCK_INHERIT_QOS_CLASS,DISPATCH_BLOCK_ENFORCE_QOS_CLASS,
     DISPATCH_BLOCK_BARRIER|DISPATCH_BLOCK_ENFORCE_QOS_CLASS};
  dispatch_block_flags_t fl=FL[rnd()%8];
  dispatch_queue_t sq=dispatch_queue_create("bs",DISPATCH_QUEUE_SERIAL), cq=dispatch_queue_create("bc",DISPATCH_QUEUE_CONCURRENT);
  dispatch_queue_t nq = rnd()%2? cq : dispatch_get_global_queue(0,0);
  int api=(int)(rnd()%6);       // 0 async serial, 1 async concurrent, 2 sync, 3 group_async, 4 barrier_async on concurrent, 5 direct invocation
  S.cancel_mode=(int)(rnd()%4); // 0 never, 1 before submission, 2 from another thread around the execution, 3 from the body itself
  S.gated = (api==0 || api==3) && rnd()%2;
  int wait_mode=(int)(rnd()%4); // 0 none, 1 timeout 0 / short, 2 forever, 3 short then (if timed out) forever
  S.submits = (wait_mode==0 && rnd()%4==0) ? 2 : 1;      // running twice and waiting is a client error the library traps on
  int slow = rnd()%2;
  S.b=dispatch_block_create(fl, ^{ atomic_store(&S.body_start, stamp()); atomic_fetch_add(&S.runs,1);
      if(S.cancel_mode==3){ dispatch_block_cancel(S.b); atomic_store(&S.cancel_ret, stamp()); if(!dispatch_block_testcancel(S.b)) fail("dispatch_block_testcancel returned 0 inside the body right after dispatch_block_cancel: scenario",cur_id,0,0); }
      if(slow) usleep(200+rnd()%600);
      if(atomic_load(&S.cancel_ret) && !dispatch_block_testcancel(S.b)) fail("dispatch_block_testcancel returned 0 after dispatch_block_cancel had returned: scenario",cur_id,0,0);
      atomic_store(&S.body_end, stamp()); atomic_fetch_add(&S.ends,1); });
  if(!_dispatch_verif_block_peek(S.b,&a_flags,&a_perf,&a_group)) { fail("dispatch_block_create did not return a block object",0,0,0); return 0; }
  _dispatch_verif_yield_cb=ycb; _dispatch_verif_atomic_cb=cb;
  if(dispatch_block_testcancel(S.b)) fail("a fresh block object reports cancelled",0,0,0);
  if(S.cancel_mode==1){ dispatch_block_cancel(S.b); atomic_store(&S.cancel_ret, stamp()); if(!dispatch_block_testcancel(S.b)) fail("dispatch_block_testcancel returned 0 after dispatch_block_cancel returned: scenario",id,0,0); }
  int pre_notes=(int)(rnd()%3); for(int i=0;i<pre_notes;i++) add_note(nq);
  dispatch_group_t ug=dispatch_group_create();
  dispatch_semaphore_t gate=dispatch_semaphore_create(0);
  if(S.gated) dispatch_async(sq, ^{ dispatch_semaphore_wait(gate, DISPATCH_TIME_FOREVER); });
  pthread_t tc, tw; int have_tc=0, have_tw=0; struct waitarg wa={0,0};
  if(S.cancel_mode==2){ pthread_create(&tc,0,canceller,0); have_tc=1; }
  if(wait_mode && api!=2 && api!=5){ wa.forever=(wait_mode==2); wa.to_ns = rnd()%3==0 ? 0 : rnd()%400000; pthread_create(&tw,0,waiter,&wa); have_tw=1; }
  for(int k=0;k<S.submits;k++) switch(api){
    case 0: dispatch_async(sq,S.b); break; case 1: dispatch_async(cq,S.b); break; case 2: dispatch_sync(rnd()%2?sq:cq,S.b); break;
    case 3: dispatch_group_async(ug,sq,S.b); break; case 4: dispatch_barrier_async(cq,S.b); break; default: S.b(); break; }
  if(S.gated){ // while the gate is held nothing of the block's completion may be visible
    usleep(300+rnd()%700);
    if(have_tw){ // a timed waiter that has already returned must have timed out (checked in the waiter through gate_open)
    }
    atomic_store(&S.gate_open, stamp()); dispatch_semaphore_signal(gate); }
  int mid_notes=S.submits>1?0:(int)(rnd()%2);   /* observing a block that ran twice is a client error the library traps on */ for(int i=0;i<mid_notes;i++) add_note(nq);
  if(have_tc) pthread_join(tc,0);
  if(have_tw) pthread_join(tw,0);
  // completion: wait for the execution(s) through the queues themselves, not through the block object
  dispatch_group_wait(ug,DISPATCH_TIME_FOREVER); dispatch_sync(sq,^{}); dispatch_barrier_sync(cq,^{});
  if((api==2 || api==5) || wait_mode==3 || (have_tw && atomic_load(&S.wait_ret)==2 && rnd()%2)){
    // a wait after completion must return 0 at once (the earlier timed-out wait, if any, has been undone)
    if(!(have_tw && atomic_load(&S.wait_ret)==1) && S.submits==1){ uint64_t t0=now_ns(); long r=dispatch_block_wait(S.b, dispatch_time(DISPATCH_TIME_NOW, 2000000000ll));
      if(r) fail("dispatch_block_wait timed out although the block's execution had completed: scenario/api",id,api,0); (void)t0; } }
  int post_notes=S.submits>1?0:(int)(rnd()%2); for(int i=0;i<post_notes;i++) add_note(nq);
  int expect_runs;
  for(int w=0; w<5000; w++){ int all=1; for(int i=0;i<S.nnotes;i++) if(!atomic_load(&S.notes_run[i])) all=0; if(all) break; usleep(1000); }
  for(int i=0;i<S.nnotes && !viol;i++) if(atomic_load(&S.notes_run[i])!=1) fail("a notification registered with dispatch_block_notify was not submitted exactly once after the block completed: scenario/note/runs",id,i,atomic_load(&S.notes_run[i]));
  int runs=atomic_load(&S.runs);
  if(S.cancel_mode==1) expect_runs=0; else if(S.cancel_mode==0) expect_runs=S.submits; else expect_runs=-1;
  if(expect_runs>=0 && runs!=expect_runs) fail(S.cancel_mode==1?"a block object cancelled before submission ran its body: scenario/runs":"a block object that was never cancelled did not run once per submission: scenario/runs/submits",id,runs,S.submits);
  if(runs>S.submits) fail("body ran more often than the block was submitted: scenario/runs",id,runs,0);
  if(S.cancel_mode==3 && runs<1) fail("a block cancelled only from its own body never ran: scenario",id,0,0);
  if(S.cancel_mode && atomic_load(&S.cancel_ret) && !dispatch_block_testcancel(S.b)) fail("dispatch_block_testcancel returned 0 at the end although the block was cancelled: scenario",id,0,0);
  if(!S.cancel_mode && dispatch_block_testcancel(S.b)) fail("dispatch_block_testcancel reports a cancellation nobody requested: scenario",id,0,0);
  _dispatch_verif_atomic_cb=0; _dispatch_verif_yield_cb=0; a_flags=a_perf=0; a_group=0;
  Block_release(S.b); dispatch_release(ug); dispatch_release(gate); dispatch_release(sq); dispatch_release(cq);
  return 1; }
// dispatch_block_perform: runs the body exactly once, synchronously
static void perform(void){ __block int n=0; dispatch_block_perform(rnd()%2?DISPATCH_BLOCK_DETACHED:0, ^{ n++; }); if(n!=1) fail("dispatch_block_perform did not run the block exactly once: runs",n,0,0); }
int main(int argc,char**argv){ seed=argc>1?strtoull(argv[1],0,0):1; int n=argc>2?atoi(argv[2]):200;
  evs=calloc(MAXEV,sizeof(ev_t));
  { dispatch_group_t g=dispatch_group_create(); dispatch_queue_t q=dispatch_queue_create("x",NULL); (void)q;
    // dg_state offset: same accessor as for queues would not apply; the group checker needs it only to filter, so find it by experiment
    a_group=g; _dispatch_verif_atomic_cb=cb; cur_id=-1; dispatch_group_enter(g); dispatch_group_leave(g); _dispatch_verif_atomic_cb=0; a_group=0;
    unsigned long k=atomic_load(&nev); for(unsigned long i=0;i<k;i++) if(evs[i].size==8) group_state_off=evs[i].off; atomic_store(&nev,0); dispatch_release(g); }
  printf("OFF state %ld\n", group_state_off);
  long done=0; for(int i=0;i<n && !viol;i++){ done+=scenario(i); if(i%16==0) perform(); }
  if(viol) printf("ORACLE VIOL seed=%llu %s\n",(unsigned long long)seed,vmsg); else printf("ORACLE ok items=%ld\n",done);
  dump(); return viol?1:0; }
