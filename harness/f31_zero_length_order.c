// Forced history for finding F31 (C14): "stream operations of one direction complete in submission order" is false when a
// zero-length operation follows an operation that is still waiting. A read of 16 bytes is scheduled on the read end of an empty
// pipe (it waits for data), then a zero-length read on the same channel. The zero-length operation never joins the stream: it is
// answered through the barrier queue at once, so its handler sees done while the earlier read is still waiting. Then data arrives
// and the first read completes.
// output: "ORACLE VIOL F31 ..." (exit 1) if the zero-length read completed first, "ORACLE ok" otherwise.
#define _GNU_SOURCE
#include <dispatch/dispatch.h>
#include <stdio.h>
#include <unistd.h>
#include <stdatomic.h>
int main(void){ int p[2]; if(pipe(p)) return 2; int overtakes=0, rounds=5;
  for(int r=0;r<rounds;r++){ dispatch_queue_t hq=dispatch_queue_create("h",NULL); dispatch_semaphore_t cs=dispatch_semaphore_create(0);
    dispatch_io_t ch=dispatch_io_create(DISPATCH_IO_STREAM,p[0],hq,^(int e){ (void)e; dispatch_semaphore_signal(cs); });
    __block _Atomic int first_done=0, zero_done=0, zero_before=0;
    dispatch_io_read(ch,0,16,hq,^(bool done, dispatch_data_t d, int e){ (void)d;(void)e; if(done) atomic_store(&first_done,1); });
    dispatch_io_read(ch,0,0,hq,^(bool done, dispatch_data_t d, int e){ (void)d;(void)e; if(done){ if(!atomic_load(&first_done)) atomic_store(&zero_before,1); atomic_store(&zero_done,1); } });
    for(int w=0; w<3000 && !atomic_load(&zero_done); w++) usleep(1000);
    if(atomic_load(&zero_before)) overtakes++;
    if(write(p[1],"0123456789abcdef",16)!=16) return 2;
    for(int w=0; w<3000 && !atomic_load(&first_done); w++) usleep(1000);
    if(!atomic_load(&first_done)){ printf("ORACLE VIOL a 16-byte read did not complete within 3 s of 16 bytes arriving\n"); return 1; }
    dispatch_io_close(ch,0); dispatch_release(ch); dispatch_semaphore_wait(cs,dispatch_time(DISPATCH_TIME_NOW,5ll*1000000000ll)); dispatch_release(hq); dispatch_release(cs); }
  if(overtakes){ printf("ORACLE VIOL F31 a zero-length read scheduled after a read that was still waiting for data completed before it (done seen first) in %d of %d rounds: stream operations of one direction did not complete in submission order\n",overtakes,rounds); return 1; }
  printf("ORACLE ok zero-length reads completed after the earlier read in %d rounds\n",rounds); return 0; }
